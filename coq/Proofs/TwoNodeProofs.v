(* TwoNodeProofs.v -- C07 for the smallest cluster: two nodes, all process ids (ages).

   C07: "after any sequence of joins, leaves and failures the elections end, with exactly one
   primary, the oldest node, and every member agrees on it".  Proofs/ElectionProofs.v refutes it
   for three nodes on concrete pids.  Here: the POSITIVE part for two nodes formed sequentially
   ("join n2" sent to n1, then the scheduler runs to quiescence), for ALL process ids pa, pb and
   ALL election timeouts -- and what is NOT true of it: the primary is the node that was asked,
   not the oldest one.

   How the proofs work.  The start state and the command are concrete except for pa, pb and the
   timeout, which are universally quantified VARIABLES of the theorems.  The run is evaluated
   with these variables free (vm_compute normalises open terms: a comparison of pa and pb, or a
   decimal rendering of pa, would stay stuck in the result and [reflexivity] would fail).  It
   does not get stuck: in a sequential two-node formation [start_election] finds at most one
   member in the table and wins at once (single_node_wins_at_once), no "election candidate"
   message is ever sent, [election_eval] is never called, no call blocks (no frame), the
   timeout is never read.  So this is a proof over all pids, not a test on sample pids; the
   samples (100/200, 200/100) appear only as non-vacuity Examples, obtained THROUGH the theorem. *)
From NunDB Require Import Model.Base Model.Pending Model.Oplog Model.Parse Model.Node Model.Cluster Model.Election.
From NunDB Require Import Proofs.ElectionProofs.
Require Import String List NArith ZArith Bool Lia. Import ListNotations.
Open Scope string_scope.
Open Scope list_scope.
Open Scope N_scope.

(* ------------------------------------------------------------------------------------------ *)
(* 0. the harness's cluster with the election timeout as a parameter                           *)
(* ------------------------------------------------------------------------------------------ *)
(* [mk_ecl] of ElectionProofs.v fixes the timeout to 20 ms; this is the same definition with the
   timeout abstracted *)
Definition mk_ecl_t (timeout : N) (l : list (str * N * N)) : ecl :=
  let names := map (fun x => fst (fst x)) l in
  let c := fold_left conn2 names (mkCl (mk_nodes l) [] 0) in
  fold_left (fun e nm => fst (ecmd e nm 0%nat "auth nun pwd")) names (mkE c [] timeout []).

Lemma mk_ecl_t_20 : forall l, mk_ecl_t 20 l = mk_ecl l.
Proof. reflexivity. Qed.

(* two StartingUp nodes n1 (pid pa) and n2 (pid pb), not connected *)
Definition two (pa pb timeout : N) : ecl := mk_ecl_t timeout [("n1", pa, K1); ("n2", pb, K2)].

Lemma two_20 : forall pa pb, two pa pb 20 = mk_ecl [("n1", pa, K1); ("n2", pb, K2)].
Proof. intros. unfold two. apply mk_ecl_t_20. Qed.
Lemma two_100_200 : two 100 200 20 = two_nodes.
Proof. unfold two_nodes. apply two_20. Qed.

(* ------------------------------------------------------------------------------------------ *)
(* 1. quiescence                                                                               *)
(* ------------------------------------------------------------------------------------------ *)
(* nothing is queued anywhere: no blocked call, no line or reply on a link, no message for a
   supervisor or a replication thread, no line in a member outbox *)
Definition link_idle (l : link) : bool :=
  match l_hs l, l_q l, l_replies l with [], [], [] => true | _, _, _ => false end.
Definition outbox_idle (m : str * (role * list str)) : bool :=
  match snd (snd m) with [] => true | q => is_nosender q end.
Definition node_idle (x : cnode) : bool :=
  match n_sup (cn_node x), n_repl (cn_node x) with
  | [], [] => forallb outbox_idle (n_members (cn_node x))
  | _, _ => false
  end.
Definition quiescentb (e : ecl) : bool :=
  match e_frames e with [] => true | _ => false end &&
  forallb link_idle (c_links (e_c e)) &&
  forallb (fun kv => node_idle (snd kv)) (c_nodes (e_c e)).
Definition quiescent (e : ecl) : Prop := quiescentb e = true.

(* the definition means what it says: in a quiescent state no link can take a step *)
Lemma sync_clocks_links : forall c, c_links (sync_clocks c) = c_links c.
Proof. reflexivity. Qed.

Lemma link_idle_inv : forall l, link_idle l = true -> l_hs l = [] /\ l_q l = [] /\ l_replies l = [].
Proof.
  intros l H. unfold link_idle in H.
  destruct (l_hs l); [|discriminate]. destruct (l_q l); [|discriminate].
  destruct (l_replies l); [|discriminate]. auto.
Qed.

Lemma nth_error_forallb : forall {A} (p : A -> bool) l i x,
  forallb p l = true -> nth_error l i = Some x -> p x = true.
Proof.
  intros A p l i x H Hn. rewrite forallb_forall in H. apply H. eapply nth_error_In; exact Hn.
Qed.

Theorem quiescent_no_link_step : forall e i,
  quiescent e -> edeliver e i = None /\ ereply e i = None.
Proof.
  intros e i Hq. unfold quiescent, quiescentb in Hq.
  apply andb_true_iff in Hq. destruct Hq as [Hq _].
  apply andb_true_iff in Hq. destruct Hq as [_ Hl].
  split.
  - unfold edeliver. destruct (busy_link e i); [reflexivity|].
    destruct (nth_error (c_links (e_c e)) i) as [l|] eqn:Hn; [|reflexivity].
    destruct (link_idle_inv l (nth_error_forallb _ _ _ _ Hl Hn)) as [H1 [H2 _]].
    unfold deliver, deliver_raw. rewrite sync_clocks_links, Hn, H1, H2.
    destruct (negb (l_open l)); reflexivity.
  - unfold ereply, reply, reply_raw. rewrite sync_clocks_links.
    destruct (nth_error (c_links (e_c e)) i) as [l|] eqn:Hn; [|reflexivity].
    destruct (link_idle_inv l (nth_error_forallb _ _ _ _ Hl Hn)) as [_ [_ H3]].
    rewrite H3. reflexivity.
Qed.

Lemma quiescent_no_frames : forall e, quiescent e -> e_frames e = [].
Proof.
  intros e Hq. unfold quiescent, quiescentb in Hq.
  destruct (e_frames e); [reflexivity|discriminate].
Qed.

(* ------------------------------------------------------------------------------------------ *)
(* 2. more fuel does not change a settled run                                                  *)
(* ------------------------------------------------------------------------------------------ *)
Lemma esettle_mono : forall F e e1,
  esettle F e = (e1, true) -> forall k, esettle (F + k) e = (e1, true).
Proof.
  induction F as [|F IH]; intros e e1 H k.
  - cbn in H. discriminate.
  - cbn [esettle plus] in H |- *. change (F + k)%nat with (Nat.add F k).
    destruct (esettle_round e) as [e' moved].
    destruct moved.
    + apply IH. exact H.
    + destruct (e_frames e') as [|f r].
      * exact H.
      * apply IH. exact H.
Qed.

Corollary esettle_enough : forall F e e1,
  esettle F e = (e1, true) -> forall fuel, (F <= fuel)%nat -> esettle fuel e = (e1, true).
Proof.
  intros F e e1 H fuel Hle. replace fuel with (F + (fuel - F))%nat by lia.
  apply esettle_mono. exact H.
Qed.

(* ------------------------------------------------------------------------------------------ *)
(* 3. the run, for all pids and timeouts                                                       *)
(* ------------------------------------------------------------------------------------------ *)
(* NOTE on proof engineering: terms such as [formed pa pb timeout] stand for a long computation.
   They are evaluated by vm_compute only (open terms: pa, pb, timeout stay variables); everywhere
   else they are moved around by lemmas stated over variables ([pair_fst], [settle_transfer]) so
   that the kernel never has to convert [fst (formed .., true)] with [formed ..] by unfolding. *)
Lemma pair_fst : forall {A B} (p : A * B) a b, p = (a, b) -> fst p = a.
Proof. intros A B p a b ->. reflexivity. Qed.
Lemma pair_of_snd : forall {A} (p : A * bool), snd p = true -> p = (fst p, true).
Proof. intros A [a b] H. cbn in H. subst b. reflexivity. Qed.
Lemma settle_transfer : forall (P : ecl -> Prop) fuel X e,
  esettle fuel X = (e, true) -> P e -> snd (esettle fuel X) = true /\ P (fst (esettle fuel X)).
Proof. intros P fuel X e -> HP. split; [reflexivity|exact HP]. Qed.

(* "join n2" is sent by client 0 of n1 *)
Notation asked_n1 pa pb timeout := (cmd (two pa pb timeout) "n1" 0%nat "join n2") (only parsing).
(* the settled state (three scheduler rounds are enough, see below) *)
Definition formed (pa pb timeout : N) : ecl := fst (esettle 3 (asked_n1 pa pb timeout)).

(* the command itself does not block: n1 has no member yet, its election is won at once
   (no frame), n1 is Primary before anything is delivered *)
Lemma asked_n1_immediate : forall pa pb timeout,
  snd (ecmd (two pa pb timeout) "n1" 0 "join n2") = COut ROk /\
  e_frames (asked_n1 pa pb timeout) = [] /\
  roles (asked_n1 pa pb timeout) = [("n1", Primary); ("n2", StartingUp)] /\
  repl_queue (e_c (asked_n1 pa pb timeout)) "n1" = [] /\
  option_map n_sup (node_of (e_c (asked_n1 pa pb timeout)) "n1") = Some ["secoundary n2"; "election-win self"].
Proof. intros pa pb timeout. vm_compute. repeat split; reflexivity. Qed.

Lemma formed_settles : forall pa pb timeout,
  esettle 3 (asked_n1 pa pb timeout) = (formed pa pb timeout, true).
Proof.
  intros pa pb timeout.
  assert (H : snd (esettle 3 (asked_n1 pa pb timeout)) = true) by (vm_compute; reflexivity).
  exact (pair_of_snd _ H).
Qed.

(* three rounds are needed *)
Lemma formed_not_before : forall pa pb timeout, snd (esettle 2 (asked_n1 pa pb timeout)) = false.
Proof. intros. vm_compute. reflexivity. Qed.

Lemma formed_facts : forall pa pb timeout,
  quiescent (formed pa pb timeout) /\
  e_frames (formed pa pb timeout) = [] /\
  esettle_round (formed pa pb timeout) = (formed pa pb timeout, false) /\
  roles (formed pa pb timeout) = [("n1", Primary); ("n2", Secondary)] /\
  member_tables (formed pa pb timeout) = [("n1", [("n2", Secondary); ("n1", Primary)]);
                                          ("n2", [("n1", Primary); ("n2", Secondary)])] /\
  pids (formed pa pb timeout) = [("n1", pa); ("n2", pb)] /\
  e_timeout (formed pa pb timeout) = timeout /\ e_done (formed pa pb timeout) = [].
Proof.
  intros pa pb timeout. unfold quiescent. vm_compute. repeat split; reflexivity.
Qed.

(* the settled state is the same for every fuel >= 3 *)
Theorem C07_two_nodes_form_state : forall pa pb timeout fuel,
  (3 <= fuel)%nat -> esettle fuel (asked_n1 pa pb timeout) = (formed pa pb timeout, true).
Proof.
  intros pa pb timeout fuel Hle.
  exact (esettle_enough 3 _ (formed pa pb timeout) (formed_settles pa pb timeout) fuel Hle).
Qed.

Corollary C07_two_nodes_form_fst : forall pa pb timeout fuel,
  (3 <= fuel)%nat -> fst (esettle fuel (asked_n1 pa pb timeout)) = formed pa pb timeout.
Proof. intros pa pb timeout fuel Hle. exact (pair_fst _ _ _ (C07_two_nodes_form_state pa pb timeout fuel Hle)). Qed.

(* MAIN THEOREM.  For all process ids and all timeouts (the hypotheses of the brief -- distinct
   pids, positive timeout, pids below 2^64 -- are kept in the statement of C07_two_nodes_form but
   are not used: C07_two_nodes_form_any is the same without them), from two unconnected StartingUp
   nodes, "join n2" at n1 and then the scheduler, with any fuel >= 3: the run settles (the
   scheduler reports quiescence, nothing is queued anywhere, one more round changes nothing), no
   election call is left blocked, n1 is Primary and n2 Secondary, and both member tables say so. *)
Theorem C07_two_nodes_form_any : forall (pa pb timeout : N),
  let e0 := two pa pb timeout in
  exists F : nat, forall fuel, (F <= fuel)%nat ->
    let r := esettle fuel (cmd e0 "n1" 0 "join n2") in
    let e1 := fst r in
    snd r = true /\
    quiescent e1 /\
    esettle_round e1 = (e1, false) /\
    e_frames e1 = [] /\
    roles e1 = [("n1", Primary); ("n2", Secondary)] /\
    member_tables e1 = [("n1", [("n2", Secondary); ("n1", Primary)]);
                        ("n2", [("n1", Primary); ("n2", Secondary)])].
Proof.
  intros pa pb timeout e0. exists 3%nat. intros fuel Hle.
  destruct (formed_facts pa pb timeout) as [H1 [H2 [H3 [H4 [H5 _]]]]].
  exact (settle_transfer
           (fun e1 => quiescent e1 /\ esettle_round e1 = (e1, false) /\ e_frames e1 = [] /\
                      roles e1 = [("n1", Primary); ("n2", Secondary)] /\
                      member_tables e1 = [("n1", [("n2", Secondary); ("n1", Primary)]);
                                          ("n2", [("n1", Primary); ("n2", Secondary)])])
           fuel _ _ (C07_two_nodes_form_state pa pb timeout fuel Hle)
           (conj H1 (conj H3 (conj H2 (conj H4 H5))))).
Qed.

Theorem C07_two_nodes_form : forall (pa pb timeout : N),
  pa <> pb -> 0 < timeout -> pa < 2 ^ 64 -> pb < 2 ^ 64 ->
  let e0 := two pa pb timeout in
  exists F : nat, forall fuel, (F <= fuel)%nat ->
    let r := esettle fuel (cmd e0 "n1" 0 "join n2") in
    let e1 := fst r in
    snd r = true /\
    quiescent e1 /\
    esettle_round e1 = (e1, false) /\
    e_frames e1 = [] /\
    roles e1 = [("n1", Primary); ("n2", Secondary)] /\
    member_tables e1 = [("n1", [("n2", Secondary); ("n1", Primary)]);
                        ("n2", [("n1", Primary); ("n2", Secondary)])].
Proof. intros pa pb timeout _ _ _ _. exact (C07_two_nodes_form_any pa pb timeout). Qed.

(* ------------------------------------------------------------------------------------------ *)
(* 4. the run does not look at the pids at all                                                 *)
(* ------------------------------------------------------------------------------------------ *)
Definition cn_erase_pid (x : cnode) : cnode :=
  let n := cn_node x in
  cn_set_node x (mkNode (n_dbs n) (n_sess n) (n_role n) (n_clock n) (n_user n) (n_pwd n) (n_addr n) 0
                        (n_repl n) (n_sup n) (n_snap n) (n_pending n) (n_idmap n) (n_members n)).
Definition erase_pids (e : ecl) : ecl :=
  mkE (mkCl (map (fun kv => (fst kv, cn_erase_pid (snd kv))) (c_nodes (e_c e))) (c_links (e_c e)) (c_cross (e_c e)))
      (e_frames e) 0 (e_done e).

(* Apart from the pid fields (and the timeout field) themselves, the settled state is ONE state:
   sessions, links, counters, clocks, member tables, roles are those of the run with pids 100 / 200
   and timeout 20 -- whatever pa, pb, timeout are, equal pids included. *)
Theorem C07_two_nodes_pid_independent : forall pa pb timeout,
  erase_pids (formed pa pb timeout) = erase_pids (formed 100 200 20).
Proof. intros. vm_compute. reflexivity. Qed.

(* ------------------------------------------------------------------------------------------ *)
(* 5. the primary is the node that was asked, not the oldest                                   *)
(* ------------------------------------------------------------------------------------------ *)
(* Which way is "older"?  election_eval (election_eval_rule in ElectionProofs.v): a node that
   receives "election candidate <cand>" with  n_pid < cand  contests the candidacy (starts its own
   election), with  cand < n_pid  it yields (becomes Secondary).  So the SMALLER process id is
   meant to win: smaller pid = started earlier = older. *)
Definition pid_of (e : ecl) (nm : str) : option N :=
  option_map (fun x => n_pid (cn_node x)) (get_cn (e_c e) nm).
Definition older (p q : N) : Prop := p < q.
(* nm is a node of e and no node of e is older than it *)
Definition is_oldest (e : ecl) (nm : str) : Prop :=
  exists p, pid_of e nm = Some p /\ forall nm' p', pid_of e nm' = Some p' -> ~ older p' p.
Definition primaries (e : ecl) : list str :=
  map fst (filter (fun kv => role_eqb (snd kv) Primary) (roles e)).

Lemma pid_of_pids : forall e nm, pid_of e nm = assoc_get String.eqb nm (pids e).
Proof.
  intros e nm. unfold pid_of, pids, get_cn.
  induction (c_nodes (e_c e)) as [|[k v] r IH]; [reflexivity|].
  cbn. destruct (String.eqb nm k); [reflexivity|exact IH].
Qed.

Lemma formed_pid_of : forall pa pb timeout nm,
  pid_of (formed pa pb timeout) nm =
  if String.eqb nm "n1" then Some pa else if String.eqb nm "n2" then Some pb else None.
Proof.
  intros pa pb timeout nm. rewrite pid_of_pids.
  destruct (formed_facts pa pb timeout) as [_ [_ [_ [_ [_ [Hp _]]]]]].
  rewrite Hp. reflexivity.
Qed.

Lemma formed_primaries : forall pa pb timeout, primaries (formed pa pb timeout) = ["n1"].
Proof.
  intros pa pb timeout. unfold primaries.
  destruct (formed_facts pa pb timeout) as [_ [_ [_ [Hr _]]]]. rewrite Hr. reflexivity.
Qed.

Lemma formed_oldest_n1 : forall pa pb timeout, is_oldest (formed pa pb timeout) "n1" <-> pa <= pb.
Proof.
  intros pa pb timeout. unfold is_oldest, older. split.
  - intros [p [Hp Hall]]. rewrite formed_pid_of in Hp. cbn in Hp. inversion Hp; subst p.
    specialize (Hall "n2" pb). rewrite formed_pid_of in Hall. cbn in Hall.
    specialize (Hall eq_refl). lia.
  - intro Hle. exists pa. split; [rewrite formed_pid_of; reflexivity|].
    intros nm' p' H. rewrite formed_pid_of in H.
    destruct (String.eqb nm' "n1"); [inversion H; lia|].
    destruct (String.eqb nm' "n2"); [inversion H; lia|discriminate].
Qed.

Lemma formed_oldest_n2 : forall pa pb timeout, is_oldest (formed pa pb timeout) "n2" <-> pb <= pa.
Proof.
  intros pa pb timeout. unfold is_oldest, older. split.
  - intros [p [Hp Hall]]. rewrite formed_pid_of in Hp. cbn in Hp. inversion Hp; subst p.
    specialize (Hall "n1" pa). rewrite formed_pid_of in Hall. cbn in Hall.
    specialize (Hall eq_refl). lia.
  - intro Hle. exists pb. split; [rewrite formed_pid_of; reflexivity|].
    intros nm' p' H. rewrite formed_pid_of in H.
    destruct (String.eqb nm' "n1"); [inversion H; lia|].
    destruct (String.eqb nm' "n2"); [inversion H; lia|discriminate].
Qed.

(* COROLLARY.  After the formation there is exactly one primary, n1 -- the node that was asked --
   and it is the oldest node if and only if pa < pb.  With pb < pa the cluster has settled, for
   good (quiescent, no frame), on the YOUNGER node as its only primary, and the older node is
   its Secondary: finding "primary-is-not-the-oldest", for all pids. *)
Theorem C07_two_nodes_oldest_iff : forall (pa pb timeout : N),
  pa <> pb ->
  exists F : nat, forall fuel, (F <= fuel)%nat ->
    let e1 := fst (esettle fuel (cmd (two pa pb timeout) "n1" 0 "join n2")) in
    primaries e1 = ["n1"] /\
    (forall nm, In nm (primaries e1) -> (is_oldest e1 nm <-> older pa pb)) /\
    (older pb pa -> is_oldest e1 "n2" /\ In ("n2", Secondary) (roles e1) /\ ~ is_oldest e1 "n1").
Proof.
  intros pa pb timeout Hne. exists 3%nat. intros fuel Hle.
  rewrite (C07_two_nodes_form_fst pa pb timeout fuel Hle). cbv zeta.
  destruct (formed_facts pa pb timeout) as [_ [_ [_ [Hr _]]]].
  pose proof (formed_primaries pa pb timeout) as Hp.
  split; [exact Hp|]. split.
  - intros nm Hin. rewrite Hp in Hin. destruct Hin as [<-|[]].
    rewrite formed_oldest_n1. unfold older. lia.
  - unfold older. intro Hlt. split; [|split].
    + apply formed_oldest_n2. lia.
    + rewrite Hr. right; left; reflexivity.
    + rewrite formed_oldest_n1. lia.
Qed.

(* "every member agrees on it": in every node's member table the entries marked Primary are
   exactly the cluster's primaries (here: n1 alone) *)
Definition table_primaries (t : list (str * role)) : list str :=
  map fst (filter (fun m => role_eqb (snd m) Primary) t).

Theorem C07_two_nodes_agree : forall (pa pb timeout : N),
  exists F : nat, forall fuel, (F <= fuel)%nat ->
    let e1 := fst (esettle fuel (cmd (two pa pb timeout) "n1" 0 "join n2")) in
    primaries e1 = ["n1"] /\
    map fst (member_tables e1) = ["n1"; "n2"] /\
    (forall nm t, In (nm, t) (member_tables e1) -> table_primaries t = primaries e1).
Proof.
  intros pa pb timeout. exists 3%nat. intros fuel Hle.
  rewrite (C07_two_nodes_form_fst pa pb timeout fuel Hle). cbv zeta.
  destruct (formed_facts pa pb timeout) as [_ [_ [_ [_ [Hm _]]]]].
  rewrite (formed_primaries pa pb timeout), Hm.
  split; [reflexivity|]. split; [reflexivity|].
  intros nm t [H|[H|[]]]; inversion H; reflexivity.
Qed.

(* the mirror image: the request goes to n2 instead.  Same theorem with the names exchanged: n2 is
   the primary whatever the ages. *)
Notation asked_n2 pa pb timeout := (cmd (two pa pb timeout) "n2" 0%nat "join n1") (only parsing).
Definition formed2 (pa pb timeout : N) : ecl := fst (esettle 3 (asked_n2 pa pb timeout)).

Lemma formed2_settles : forall pa pb timeout,
  esettle 3 (asked_n2 pa pb timeout) = (formed2 pa pb timeout, true).
Proof.
  intros pa pb timeout.
  assert (H : snd (esettle 3 (asked_n2 pa pb timeout)) = true) by (vm_compute; reflexivity).
  exact (pair_of_snd _ H).
Qed.

Lemma formed2_facts : forall pa pb timeout,
  quiescent (formed2 pa pb timeout) /\
  e_frames (formed2 pa pb timeout) = [] /\
  roles (formed2 pa pb timeout) = [("n1", Secondary); ("n2", Primary)] /\
  member_tables (formed2 pa pb timeout) = [("n1", [("n2", Primary); ("n1", Secondary)]);
                                           ("n2", [("n1", Secondary); ("n2", Primary)])].
Proof. intros pa pb timeout. unfold quiescent. vm_compute. repeat split; reflexivity. Qed.

Theorem C07_two_nodes_form_asked_n2 : forall (pa pb timeout : N),
  exists F : nat, forall fuel, (F <= fuel)%nat ->
    let r := esettle fuel (cmd (two pa pb timeout) "n2" 0 "join n1") in
    let e1 := fst r in
    snd r = true /\
    quiescent e1 /\
    e_frames e1 = [] /\
    roles e1 = [("n1", Secondary); ("n2", Primary)] /\
    member_tables e1 = [("n1", [("n2", Primary); ("n1", Secondary)]);
                        ("n2", [("n1", Secondary); ("n2", Primary)])].
Proof.
  intros pa pb timeout. exists 3%nat. intros fuel Hle.
  exact (settle_transfer
           (fun e1 => quiescent e1 /\ e_frames e1 = [] /\
                      roles e1 = [("n1", Secondary); ("n2", Primary)] /\
                      member_tables e1 = [("n1", [("n2", Primary); ("n1", Secondary)]);
                                          ("n2", [("n1", Secondary); ("n2", Primary)])])
           fuel _ _ (esettle_enough 3 _ _ (formed2_settles pa pb timeout) fuel Hle)
           (formed2_facts pa pb timeout)).
Qed.

(* ------------------------------------------------------------------------------------------ *)
(* 6. non-vacuity: concrete pids, through the theorems                                         *)
(* ------------------------------------------------------------------------------------------ *)
(* The theorems give "exists F, forall fuel >= F"; to read a concrete fuel (200, as in the Examples
   of ElectionProofs.v) off them, use that the state is the same at fuel F + 200. *)
(* pids 100 / 200 (n1 older): this is C07_sequential_formation_ok of ElectionProofs.v *)
Example C07_two_nodes_form_100_200 :
  let r := esettle 200 (cmd two_nodes "n1" 0 "join n2") in
  snd r = true /\ e_frames (fst r) = [] /\
  roles (fst r) = [("n1", Primary); ("n2", Secondary)] /\
  member_tables (fst r) = [("n1", [("n2", Secondary); ("n1", Primary)]);
                           ("n2", [("n1", Primary); ("n2", Secondary)])].
Proof.
  rewrite <- two_100_200.
  destruct (C07_two_nodes_form 100 200 20) as [F HF]; try lia; try reflexivity.
  specialize (HF (F + 200)%nat ltac:(lia)). cbv zeta in HF |- *.
  rewrite (C07_two_nodes_form_state 100 200 20 (F + 200)) in HF by lia.
  rewrite (C07_two_nodes_form_state 100 200 20 200) by lia.
  destruct HF as [H1 [_ [_ [H4 [H5 H6]]]]].
  exact (conj H1 (conj H4 (conj H5 H6))).
Qed.

(* pids 200 / 100 (n2 older): same roles -- the younger node n1 is the primary *)
Example C07_two_nodes_form_200_100 :
  let r := esettle 200 (cmd (mk_ecl [("n1", 200, K1); ("n2", 100, K2)]) "n1" 0 "join n2") in
  snd r = true /\ e_frames (fst r) = [] /\
  roles (fst r) = [("n1", Primary); ("n2", Secondary)] /\
  pids (fst r) = [("n1", 200); ("n2", 100)].
Proof.
  rewrite <- (two_20 200 100).
  destruct (C07_two_nodes_form 200 100 20) as [F HF]; try lia; try reflexivity.
  specialize (HF (F + 200)%nat ltac:(lia)). cbv zeta in HF |- *.
  rewrite (C07_two_nodes_form_state 200 100 20 (F + 200)) in HF by lia.
  rewrite (C07_two_nodes_form_state 200 100 20 200) by lia.
  destruct HF as [H1 [_ [_ [H4 [H5 _]]]]].
  destruct (formed_facts 200 100 20) as [_ [_ [_ [_ [_ [H6 _]]]]]].
  exact (conj H1 (conj H4 (conj H5 H6))).
Qed.

Example C07_two_nodes_oldest_iff_200_100 :
  let e1 := fst (esettle 200 (cmd (two 200 100 20) "n1" 0 "join n2")) in
  primaries e1 = ["n1"] /\ ~ is_oldest e1 "n1" /\ is_oldest e1 "n2".
Proof.
  destruct (C07_two_nodes_oldest_iff 200 100 20) as [F HF]; [lia|].
  specialize (HF (F + 200)%nat ltac:(lia)). cbv zeta in HF |- *.
  rewrite (C07_two_nodes_form_fst 200 100 20 (F + 200)) in HF by lia.
  rewrite (C07_two_nodes_form_fst 200 100 20 200) by lia.
  destruct HF as [H1 [_ H3]]. unfold older in H3. specialize (H3 ltac:(lia)).
  destruct H3 as [Ha [_ Hb]]. exact (conj H1 (conj Hb Ha)).
Qed.

(* equal pids, timeout 0: covered by C07_two_nodes_form_any *)
Example C07_two_nodes_form_equal_pids :
  roles (fst (esettle 3 (cmd (two 7 7 0) "n1" 0 "join n2"))) = [("n1", Primary); ("n2", Secondary)].
Proof.
  destruct (C07_two_nodes_form_any 7 7 0) as [F HF].
  specialize (HF (F + 3)%nat ltac:(lia)). cbv zeta in HF.
  rewrite (C07_two_nodes_form_fst 7 7 0 (F + 3)) in HF by lia.
  rewrite (C07_two_nodes_form_fst 7 7 0 3) by lia.
  destruct HF as [_ [_ [_ [_ [H5 _]]]]]. exact H5.
Qed.

Check C07_two_nodes_form.
Check C07_two_nodes_form_any.
Check C07_two_nodes_form_state.
Check C07_two_nodes_pid_independent.
Check C07_two_nodes_oldest_iff.
Check C07_two_nodes_agree.
Check C07_two_nodes_form_asked_n2.
Check quiescent_no_link_step.
Print Assumptions C07_two_nodes_form.
Print Assumptions C07_two_nodes_form_any.
Print Assumptions C07_two_nodes_pid_independent.
Print Assumptions C07_two_nodes_oldest_iff.
Print Assumptions C07_two_nodes_agree.
Print Assumptions C07_two_nodes_form_asked_n2.
Print Assumptions quiescent_no_link_step.
