(* WatchProofs.v -- C03: watchers get every committed change, only committed changes,
   and end up current (sequential executions). *)
From NunDB Require Import Model.Base Model.Pending Model.Parse Model.Node Proofs.AssocLemmas Proofs.DbProofs.
From Coq Require Import Sorting.Sorted.
Local Open Scope Z_scope.

(* number of subscriptions session s holds on key k of database d *)
Definition nsubs (d : db) (k : str) (s : nat) : nat := count_occ Nat.eq_dec (watchers_of d k) s.
Definition change_lines (k v : str) (ver : Z) : list str :=
  ["changed " +++ k +++ " " +++ v +++ nlS; "changed-version " +++ k +++ " " +++ Z_to_str ver +++ " " +++ v +++ nlS].

(* the lines of [msgs] addressed to session [s], in order *)
Definition proj (s : nat) (msgs : list (nat * str)) : list str :=
  map snd (filter (fun p => Nat.eqb (fst p) s) msgs).

Definition removed_line (k : str) : str := "removed " +++ k +++ nlS.

(* ------------------------------------------------------------------ *)
(* 0. projections of message lists                                      *)
(* ------------------------------------------------------------------ *)

Lemma proj_nil s : proj s [] = [].
Proof. reflexivity. Qed.

Lemma proj_app s a b : proj s (a ++ b) = proj s a ++ proj s b.
Proof. unfold proj. now rewrite filter_app, map_app. Qed.

Lemma proj_cons s p r : proj s (p :: r) = (if Nat.eqb (fst p) s then [snd p] else []) ++ proj s r.
Proof. unfold proj. cbn [filter]. destruct (Nat.eqb (fst p) s); reflexivity. Qed.

Lemma proj_flat2 l s a b :
  proj s (flat_map (fun x => [(x, a); (x, b)]) l) = concat (repeat [a; b] (count_occ Nat.eq_dec l s)).
Proof.
  induction l as [|x l IH]; [reflexivity|].
  cbn [flat_map]. rewrite proj_app, IH. rewrite !proj_cons, proj_nil. cbn [fst snd].
  destruct (Nat.eqb_spec x s) as [->|Hne].
  - rewrite count_occ_cons_eq by reflexivity. reflexivity.
  - rewrite count_occ_cons_neq by assumption. reflexivity.
Qed.

Lemma proj_map1 l s a :
  proj s (map (fun x => (x, a)) l) = repeat a (count_occ Nat.eq_dec l s).
Proof.
  induction l as [|x l IH]; [reflexivity|].
  cbn [map]. rewrite proj_cons, IH. cbn [fst snd].
  destruct (Nat.eqb_spec x s) as [->|Hne].
  - rewrite count_occ_cons_eq by reflexivity. reflexivity.
  - rewrite count_occ_cons_neq by assumption. reflexivity.
Qed.

Lemma proj_notify d k v ver s :
  proj s (notify_msgs d k v ver) = concat (repeat (change_lines k v ver) (nsubs d k s)).
Proof. unfold notify_msgs, change_lines, nsubs. apply proj_flat2. Qed.

Lemma notify_in d k v ver p : In p (notify_msgs d k v ver) -> In (fst p) (watchers_of d k).
Proof.
  unfold notify_msgs. rewrite in_flat_map. intros (x & Hx & [<-|[<-|[]]]); exact Hx.
Qed.

Lemma nsubs_pos_in d k s : In s (watchers_of d k) <-> (nsubs d k s > 0)%nat.
Proof. unfold nsubs. apply count_occ_In. Qed.

(* ------------------------------------------------------------------ *)
(* 1. database level                                                    *)
(* ------------------------------------------------------------------ *)

Lemma put_value_watch d k v : d_watch (put_value d k v) = d_watch d.
Proof. reflexivity. Qed.

Lemma set_value_watch d ch : d_watch (fst (fst (set_value d ch))) = d_watch d.
Proof.
  unfold set_value. destruct (get_value d (c_key ch)); [destruct (_ && _)|]; reflexivity.
Qed.

Lemma remove_value_watch d key : d_watch (fst (fst (remove_value d key))) = d_watch d.
Proof.
  unfold remove_value. destruct (String.eqb key "$$token"); [reflexivity|].
  cbn [fst]. destruct (get_value d key) as [v|]; [destruct (v_st v)|]; reflexivity.
Qed.

Lemma inc_value_watch d key inc opp : d_watch (fst (fst (inc_value d key inc opp))) = d_watch d.
Proof.
  unfold inc_value. destruct (parse_i32 _); [destruct (_ && _)|]; reflexivity.
Qed.

Lemma nsubs_watch_eq d d' : d_watch d' = d_watch d -> forall k s, nsubs d' k s = nsubs d k s.
Proof. intros H k s. unfold nsubs, watchers_of. now rewrite H. Qed.

(* an accepted write notifies every subscription of the key, twice (plain and versioned
   line), with the value written and the version stored; it leaves d_watch alone *)
Theorem set_value_notifies d ch d' k v msgs :
  set_value d ch = (d', RSet k v, msgs) ->
  d_watch d' = d_watch d /\
  exists nv, get_value d' (c_key ch) = Some nv /\ v_val nv = c_val ch /\
    forall s, proj s msgs =
              concat (repeat (change_lines (c_key ch) (c_val ch) (v_ver nv)) (nsubs d (c_key ch) s)).
Proof.
  intros H. split.
  - pose proof (set_value_watch d ch) as W. now rewrite H in W.
  - revert H. unfold set_value.
    destruct (get_value d (c_key ch)) as [old|].
    + destruct (_ && _); [discriminate|].
      intros [= <- _ _ <-]. eexists. split; [apply gv_put_same|]. split; [reflexivity|].
      intros s. cbn [v_ver]. apply proj_notify.
    + intros [= <- _ _ <-]. eexists. split; [apply gv_put_same|]. split; [reflexivity|].
      intros s. cbn [v_ver]. apply proj_notify.
Qed.

Theorem set_value_refused_silent d ch d' key ov ver old ch0 st msgs :
  set_value d ch = (d', RVersionError key ov ver old ch0 st, msgs) -> msgs = [] /\ d' = d.
Proof.
  intros H. destruct (set_value_refused _ _ _ _ _ H) as (-> & -> & _); [discriminate|auto].
Qed.

(* set_value answers RSet or RVersionError, nothing else *)
Lemma set_value_resp d ch :
  (exists msgs d', set_value d ch = (d', RSet (c_key ch) (c_val ch), msgs)) \/
  (exists old, set_value d ch = (d, RVersionError (c_key ch) (v_ver old) (c_ver ch) old ch (upd_state old), [])).
Proof.
  unfold set_value. destruct (get_value d (c_key ch)) as [old|].
  - destruct (_ && _); [right; eauto | left; eauto].
  - left; eauto.
Qed.

Theorem remove_value_notifies d key d' msgs :
  key <> "$$token" -> remove_value d key = (d', ROk, msgs) ->
  d_watch d' = d_watch d /\
  forall s, proj s msgs = repeat (removed_line key) (nsubs d key s).
Proof.
  intros Hne H. split.
  - pose proof (remove_value_watch d key) as W. now rewrite H in W.
  - revert H. unfold remove_value.
    destruct (String.eqb_spec key "$$token"); [contradiction|].
    intros [= _ <-] s. apply proj_map1.
Qed.

Theorem remove_value_refused_silent d key d' m msgs :
  remove_value d key = (d', RError m, msgs) -> msgs = [] /\ d' = d /\ key = "$$token".
Proof.
  unfold remove_value. destruct (String.eqb_spec key "$$token"); [|discriminate].
  intros [= <- _ <-]. auto.
Qed.

Theorem inc_value_notifies d key inc opp d' msgs :
  inc_value d key inc opp = (d', ROk, msgs) ->
  d_watch d' = d_watch d /\
  exists nv, get_value d' key = Some nv /\
    forall s, proj s msgs = concat (repeat (change_lines key (v_val nv) (-1)) (nsubs d key s)).
Proof.
  intros H. split.
  - pose proof (inc_value_watch d key inc opp) as W. now rewrite H in W.
  - revert H. unfold inc_value.
    destruct (parse_i32 _); [|discriminate].
    destruct (_ && _); [|discriminate].
    intros [= <- <-]. eexists. split; [apply gv_put_same|].
    intros s. rewrite proj_notify.
    destruct (get_value d key); reflexivity.
Qed.

Theorem inc_value_refused_silent d key inc opp d' m msgs :
  inc_value d key inc opp = (d', RError m, msgs) -> msgs = [] /\ d' = d.
Proof.
  unfold inc_value.
  destruct (parse_i32 _); [destruct (_ && _)|]; try discriminate; intros [= <- _ <-]; auto.
Qed.

Lemma inc_value_resp d key inc opp :
  (exists d' msgs, inc_value d key inc opp = (d', ROk, msgs)) \/
  inc_value d key inc opp = (d, RError "Key is not numeric", []).
Proof.
  unfold inc_value.
  destruct (parse_i32 _); [destruct (_ && _)|]; [left; eauto | right; auto | right; auto].
Qed.

(* ------------------------------------------------------------------ *)
(* 2. editing subscriptions                                             *)
(* ------------------------------------------------------------------ *)

Lemma watchers_watch_key d k c k' :
  watchers_of (watch_key d k c) k' = if String.eqb k k' then watchers_of d k ++ [c] else watchers_of d k'.
Proof.
  unfold watch_key, watchers_of at 1. cbn [d_watch db_set_watch].
  destruct (String.eqb_spec k k') as [<-|Hne].
  - now rewrite (get_set_same _ String.eqb_spec).
  - rewrite (get_set_other _ String.eqb_spec) by congruence. reflexivity.
Qed.

Lemma watchers_unwatch_key d k c k' :
  watchers_of (unwatch_key d k c) k' =
  if String.eqb k k' then filter (fun x => negb (Nat.eqb x c)) (watchers_of d k) else watchers_of d k'.
Proof.
  unfold unwatch_key, watchers_of at 1. cbn [d_watch db_set_watch].
  destruct (String.eqb_spec k k') as [<-|Hne].
  - now rewrite (get_set_same _ String.eqb_spec).
  - rewrite (get_set_other _ String.eqb_spec) by congruence. reflexivity.
Qed.

Lemma count_filter_ne l c s :
  count_occ Nat.eq_dec (filter (fun x => negb (Nat.eqb x c)) l) s =
  if Nat.eqb s c then 0%nat else count_occ Nat.eq_dec l s.
Proof.
  induction l as [|x l IH]; cbn [filter].
  - now destruct (Nat.eqb s c).
  - destruct (Nat.eqb_spec x c) as [Exc|Hxc]; cbn [negb].
    + rewrite IH. destruct (Nat.eqb_spec s c) as [Esc|Hsc]; auto.
      rewrite count_occ_cons_neq by congruence. reflexivity.
    + destruct (Nat.eq_dec x s) as [Exs|Hxs].
      * rewrite !count_occ_cons_eq by assumption. rewrite IH.
        destruct (Nat.eqb_spec s c); [congruence|reflexivity].
      * rewrite !count_occ_cons_neq by assumption. exact IH.
Qed.

Theorem nsubs_watch_key d k c k' s :
  nsubs (watch_key d k c) k' s =
  (nsubs d k' s + (if String.eqb k k' && Nat.eqb s c then 1 else 0))%nat.
Proof.
  unfold nsubs. rewrite watchers_watch_key.
  destruct (String.eqb_spec k k') as [<-|Hne]; cbn [andb]; [|lia].
  rewrite count_occ_app. f_equal.
  destruct (Nat.eqb_spec s c) as [->|Hsc].
  - now rewrite count_occ_cons_eq.
  - rewrite count_occ_cons_neq by congruence. reflexivity.
Qed.

Theorem nsubs_unwatch_key d k c k' s :
  nsubs (unwatch_key d k c) k' s =
  if String.eqb k k' && Nat.eqb s c then 0%nat else nsubs d k' s.
Proof.
  unfold nsubs. rewrite watchers_unwatch_key.
  destruct (String.eqb_spec k k') as [<-|Hne]; cbn [andb]; [|reflexivity].
  apply count_filter_ne.
Qed.

Lemma nsubs_unwatch_fold_other c k s : s <> c -> forall ks d,
  nsubs (fold_left (fun d k => unwatch_key d k c) ks d) k s = nsubs d k s.
Proof.
  intros Hne. induction ks as [|k0 r IH]; intros d; cbn [fold_left]; [reflexivity|].
  rewrite IH, nsubs_unwatch_key.
  destruct (Nat.eqb_spec s c); [contradiction|]. now rewrite andb_false_r.
Qed.

Lemma nsubs_unwatch_fold_self c k : forall ks d,
  In k ks \/ nsubs d k c = 0%nat ->
  nsubs (fold_left (fun d k => unwatch_key d k c) ks d) k c = 0%nat.
Proof.
  induction ks as [|k0 r IH]; intros d H; cbn [fold_left].
  - destruct H as [[]|H]; exact H.
  - apply IH. rewrite nsubs_unwatch_key, Nat.eqb_refl, andb_true_r.
    destruct (String.eqb_spec k0 k) as [->|Hne]; [now right|].
    destruct H as [[E|Hin]|H0]; [contradiction | now left | now right].
Qed.

Lemma nsubs_key_or_zero d k c : In k (map fst (d_watch d)) \/ nsubs d k c = 0%nat.
Proof.
  unfold nsubs, watchers_of.
  destruct (assoc_get String.eqb k (d_watch d)) as [l|] eqn:E.
  - left. apply (get_in _ String.eqb_spec) in E.
    apply (in_map fst) in E. exact E.
  - right. reflexivity.
Qed.

(* no side condition on d_watch is needed *)
Theorem nsubs_unwatch_all d c k s :
  nsubs (unwatch_all d c) k s = if Nat.eqb s c then 0%nat else nsubs d k s.
Proof.
  unfold unwatch_all. destruct (Nat.eqb_spec s c) as [->|Hne].
  - apply nsubs_unwatch_fold_self, nsubs_key_or_zero.
  - now apply nsubs_unwatch_fold_other.
Qed.

(* these edit d_watch only *)
Lemma watch_key_map d k c : d_map (watch_key d k c) = d_map d.
Proof. reflexivity. Qed.
Lemma unwatch_key_map d k c : d_map (unwatch_key d k c) = d_map d.
Proof. reflexivity. Qed.
Lemma unwatch_all_map d c : d_map (unwatch_all d c) = d_map d.
Proof.
  unfold unwatch_all. generalize (map fst (d_watch d)). intros ks. revert d.
  induction ks as [|k0 r IH]; intros d; cbn [fold_left]; [reflexivity|].
  now rewrite IH.
Qed.

(* ------------------------------------------------------------------ *)
(* 3. inbox accounting for [sends]                                      *)
(* ------------------------------------------------------------------ *)

Lemma length_list_update {A} (l : list A) i x : length (list_update l i x) = length l.
Proof.
  revert i. induction l as [|a l IH]; intros [|i]; cbn [list_update length]; auto.
Qed.

Lemma nth_list_update {A} (l : list A) i x j d :
  nth j (list_update l i x) d = if Nat.eqb j i && Nat.ltb i (length l) then x else nth j l d.
Proof.
  revert i j. induction l as [|a l IH]; intros i j.
  - cbn [list_update length]. replace (Nat.ltb i 0) with false by (destruct i; reflexivity).
    rewrite andb_false_r. now destruct i.
  - destruct i as [|i], j as [|j]; cbn [list_update nth length]; try reflexivity.
    rewrite IH. reflexivity.
Qed.

(* the parts of a session other than its inbox *)
Definition sess_static (a b : sess) : Prop :=
  s_auth a = s_auth b /\ s_db a = s_db b /\ s_user a = s_user b /\ s_member a = s_member b.

Lemma sess_static_refl a : sess_static a a.
Proof. repeat split. Qed.

Lemma sess_static_trans a b c : sess_static a b -> sess_static b c -> sess_static a c.
Proof. unfold sess_static. intuition congruence. Qed.

Lemma get_sess_send n c m s :
  get_sess (send n c m) s =
  if Nat.eqb s c && Nat.ltb c (length (n_sess n)) then sess_push (get_sess n c) m else get_sess n s.
Proof.
  unfold get_sess, send, put_sess, n_set_sess. cbn [n_sess]. apply nth_list_update.
Qed.

Lemma get_sess_send_other n c m s : s <> c -> get_sess (send n c m) s = get_sess n s.
Proof.
  intros H. rewrite get_sess_send. destruct (Nat.eqb_spec s c); [contradiction|reflexivity].
Qed.

Lemma sess_len_send n c m : length (n_sess (send n c m)) = length (n_sess n).
Proof. unfold send, put_sess, n_set_sess. cbn [n_sess]. apply length_list_update. Qed.

Lemma sess_len_sends msgs : forall n, length (n_sess (sends n msgs)) = length (n_sess n).
Proof.
  unfold sends. induction msgs as [|p r IH]; intros n; cbn [fold_left]; [reflexivity|].
  rewrite IH. apply sess_len_send.
Qed.

Lemma inbox_send n c m s :
  s_inbox (get_sess (send n c m) s) =
  s_inbox (get_sess n s) ++ (if Nat.eqb s c && Nat.ltb c (length (n_sess n)) then [m] else []).
Proof.
  rewrite get_sess_send. destruct (Nat.eqb_spec s c) as [E|Hne]; cbn [andb].
  - rewrite E. destruct (Nat.ltb c _); [reflexivity | now rewrite app_nil_r].
  - now rewrite app_nil_r.
Qed.

Lemma sess_static_send n c m s : sess_static (get_sess (send n c m) s) (get_sess n s).
Proof.
  rewrite get_sess_send. destruct (Nat.eqb_spec s c) as [E|Hne]; cbn [andb].
  - rewrite E. destruct (Nat.ltb c _); repeat split.
  - apply sess_static_refl.
Qed.

(* every line addressed to an existing session is appended to its inbox, in order *)
Theorem inbox_sends msgs : forall n s, (s < length (n_sess n))%nat ->
  s_inbox (get_sess (sends n msgs) s) = s_inbox (get_sess n s) ++ proj s msgs.
Proof.
  unfold sends. induction msgs as [|p r IH]; intros n s Hs; cbn [fold_left].
  - now rewrite proj_nil, app_nil_r.
  - rewrite IH by (now rewrite sess_len_send).
    rewrite inbox_send, proj_cons, <- app_assoc. f_equal. f_equal.
    rewrite (Nat.eqb_sym (fst p) s).
    destruct (Nat.eqb_spec s (fst p)) as [E|Hne]; cbn [andb]; [|reflexivity].
    rewrite <- E. destruct (Nat.ltb_spec s (length (n_sess n))); [reflexivity|lia].
Qed.

(* lines addressed to a session that does not exist are dropped *)
Theorem inbox_sends_absent msgs n s : (length (n_sess n) <= s)%nat ->
  get_sess (sends n msgs) s = empty_sess.
Proof.
  intros H. unfold get_sess. apply nth_overflow. now rewrite sess_len_sends.
Qed.

Theorem sess_static_sends msgs : forall n s, sess_static (get_sess (sends n msgs) s) (get_sess n s).
Proof.
  unfold sends. induction msgs as [|p r IH]; intros n s; cbn [fold_left].
  - apply sess_static_refl.
  - eapply sess_static_trans; [apply IH | apply sess_static_send].
Qed.

(* [sends] touches the session table only *)
Theorem sends_frame msgs : forall n, sends n msgs = n_set_sess n (n_sess (sends n msgs)).
Proof.
  unfold sends. induction msgs as [|p r IH]; intros n; cbn [fold_left].
  - now destruct n.
  - rewrite IH at 1. reflexivity.
Qed.

Lemma n_dbs_sends n msgs : n_dbs (sends n msgs) = n_dbs n.
Proof. now rewrite sends_frame. Qed.
Lemma n_role_sends n msgs : n_role (sends n msgs) = n_role n.
Proof. now rewrite sends_frame. Qed.
Lemma n_repl_sends n msgs : n_repl (sends n msgs) = n_repl n.
Proof. now rewrite sends_frame. Qed.
Lemma n_clock_sends n msgs : n_clock (sends n msgs) = n_clock n.
Proof. now rewrite sends_frame. Qed.
Lemma n_members_sends n msgs : n_members (sends n msgs) = n_members n.
Proof. now rewrite sends_frame. Qed.
Lemma is_primary_sends n msgs : is_primary (sends n msgs) = is_primary n.
Proof. unfold is_primary. now rewrite n_role_sends. Qed.

(* a session that is addressed by no message is untouched *)
Lemma get_sess_sends_quiet msgs : forall n s,
  (forall p, In p msgs -> fst p <> s) -> get_sess (sends n msgs) s = get_sess n s.
Proof.
  unfold sends. induction msgs as [|p r IH]; intros n s H; cbn [fold_left]; [reflexivity|].
  rewrite IH by (intros q Hq; apply H; now right).
  apply get_sess_send_other. intros E. apply (H p); [now left | auto].
Qed.

(* ------------------------------------------------------------------ *)
(* 4. handler level: what a write delivers                              *)
(* ------------------------------------------------------------------ *)

(* [n'] is [n] with [f s] appended to the inbox of every existing session [s];
   nothing else of any session changes and no session appears or disappears *)
Definition delivered (n n' : node) (f : nat -> list str) : Prop :=
  length (n_sess n') = length (n_sess n) /\
  forall s, sess_static (get_sess n' s) (get_sess n s) /\
            ((s < length (n_sess n))%nat -> s_inbox (get_sess n' s) = s_inbox (get_sess n s) ++ f s).

Lemma delivered_sends n0 n msgs : n_sess n0 = n_sess n ->
  delivered n (sends n0 msgs) (fun s => proj s msgs).
Proof.
  intros E. assert (G : forall s, get_sess n0 s = get_sess n s) by (intros s; unfold get_sess; now rewrite E).
  split.
  - now rewrite sess_len_sends, E.
  - intros s. rewrite <- G. split; [apply sess_static_sends|].
    rewrite <- E. apply inbox_sends.
Qed.

Lemma delivered_ext n n' f g : (forall s, f s = g s) -> delivered n n' f -> delivered n n' g.
Proof.
  intros E [H1 H2]. split; auto. intros s. destruct (H2 s) as [A B]. split; auto.
  intros Hs. rewrite <- E. auto.
Qed.

Lemma guard_safe_go n c key req dbn d :
  guard_safe n c key req = GGo dbn d -> s_db (get_sess n c) = Some dbn /\ get_db n dbn = Some d.
Proof.
  unfold guard_safe, guard_db_name, reject_no_db.
  destruct (_ && _); [discriminate|].
  destruct (s_db (get_sess n c)) as [x|]; [|discriminate].
  destruct (get_db n x) as [d0|] eqn:E; [|discriminate].
  destruct (has_permission _ _ _ _ _); [|discriminate].
  intros [= <- <-]. auto.
Qed.

Lemma guard_db_go n c dbn d :
  guard_db n c = GGo dbn d -> s_db (get_sess n c) = Some dbn /\ get_db n dbn = Some d.
Proof.
  unfold guard_db, guard_db_name, reject_no_db.
  destruct (s_db (get_sess n c)) as [x|]; [|discriminate].
  destruct (get_db n x) as [d0|] eqn:E; [|discriminate].
  intros [= <- <-]. auto.
Qed.

Lemma put_db_same n x d : get_db n x = Some d -> put_db n x d = n.
Proof.
  intros H. unfold put_db, n_set_dbs. unfold get_db in H.
  rewrite (set_same_id String.eqb _ _ _ H). now destruct n.
Qed.

Lemma get_db_put_other n x y d : y <> x -> get_db (put_db n x d) y = get_db n y.
Proof.
  intros H. unfold get_db, put_db, n_set_dbs; cbn [n_dbs].
  now apply (get_set_other _ String.eqb_spec).
Qed.

Definition is_verr (r : resp) : Prop := match r with RVersionError _ _ _ _ _ _ => True | _ => False end.
Definition is_rset (r : resp) : Prop := match r with RSet _ _ => True | _ => False end.

(* set_key_value on a database without conflict strategy *)
Lemma set_key_value_none n dbn d key value ver n' r :
  get_db n dbn = Some d -> d_strat d = SNone ->
  set_key_value n dbn key value ver = (n', r) ->
  let ch := mkCh key value ver (n_clock n) false in
  (exists d1 msgs, set_value d ch = (d1, RSet key value, msgs) /\ r = RSet key value /\
                   n' = sends (put_db (fst (tick n)) dbn d1) msgs) \/
  (exists old, r = RVersionError key (v_ver old) ver old ch (upd_state old) /\ n' = fst (tick n)).
Proof.
  intros Hdb Hs. unfold set_key_value, tick. cbv beta iota zeta. unfold apply_change.
  rewrite get_db_set_clock, Hdb. cbn [fst].
  destruct (set_value_resp d (mkCh key value ver (n_clock n) false)) as [(msgs & d1 & E)|(old & E)];
    rewrite E; cbv beta iota zeta; cbn [c_key c_val c_ver].
  - intros [= <- <-]. left. eauto.
  - rewrite Hs. intros [= <- <-]. right. eauto.
Qed.

(* outcome of a client/replicated set on database [dbn] (state [d] before) *)
Definition set_outcome (n n' : node) (dbn : str) (d : db) (key value : str) (r : resp) : Prop :=
  (r = RSet key value /\
   exists d' nv, get_db n' dbn = Some d' /\ d_watch d' = d_watch d /\
                 get_value d' key = Some nv /\ v_val nv = value /\
                 delivered n n' (fun s => concat (repeat (change_lines key value (v_ver nv)) (nsubs d key s))))
  \/ (is_verr r /\ n' = fst (tick n)).

Lemma set_key_value_outcome n dbn d key value ver n' r :
  get_db n dbn = Some d -> d_strat d = SNone ->
  set_key_value n dbn key value ver = (n', r) ->
  set_outcome n n' dbn d key value r /\ is_primary n' = is_primary n.
Proof.
  intros Hdb Hs H.
  destruct (set_key_value_none _ _ _ _ _ _ _ _ Hdb Hs H) as [(d1 & msgs & E & -> & ->)|(old & -> & ->)].
  - split; [|now rewrite is_primary_sends].
    left. split; auto.
    destruct (set_value_notifies _ _ _ _ _ _ E) as (W & nv & Hnv & Hval & Hmsgs).
    cbn [c_key c_val] in *.
    exists d1, nv. split; [rewrite get_db_sends; apply get_db_put_same|].
    split; [exact W|]. split; [exact Hnv|]. split; [exact Hval|].
    eapply delivered_ext; [|apply delivered_sends; reflexivity]. exact Hmsgs.
  - split; [|reflexivity]. right. split; [exact I|reflexivity].
Qed.

Theorem handle_set_notifies n c key value ver dbn d n' r :
  guard_safe n c key PWrite = GGo dbn d -> d_strat d = SNone -> is_primary n = true ->
  handle n c (RqSet key value ver) = (n', r) ->
  set_outcome n n' dbn d key value r.
Proof.
  intros Hg Hs Hp. unfold handle. cbv zeta. rewrite Hg.
  destruct (guard_safe_go _ _ _ _ _ _ Hg) as [_ Hdb].
  destruct (set_key_value n dbn key value ver) as [n1 r1] eqn:E.
  destruct (set_key_value_outcome _ _ _ _ _ _ _ _ Hdb Hs E) as [Ho Hp1].
  rewrite Hp1, Hp. intros [= <- <-]. exact Ho.
Qed.

Theorem handle_replicate_set_notifies n c dbn key value ver d n' r :
  s_auth (get_sess n c) = true -> get_db n dbn = Some d -> d_strat d = SNone ->
  handle n c (RqReplicateSet dbn key value ver) = (n', r) ->
  set_outcome n n' dbn d key value r.
Proof.
  intros Ha Hdb Hs. unfold handle. cbv zeta. rewrite Ha, Hdb. cbn [negb].
  intros E. now destruct (set_key_value_outcome _ _ _ _ _ _ _ _ Hdb Hs E).
Qed.

(* a refused set leaves databases and sessions as they were *)
Corollary set_outcome_refused n n' dbn d key value r :
  set_outcome n n' dbn d key value r -> is_verr r -> n_dbs n' = n_dbs n /\ n_sess n' = n_sess n.
Proof.
  intros [[-> _]|[_ ->]] Hv; [destruct Hv | split; reflexivity].
Qed.

Corollary set_outcome_accepted n n' dbn d key value r k v :
  set_outcome n n' dbn d key value r -> r = RSet k v ->
  exists nv d', get_db n' dbn = Some d' /\ get_value d' key = Some nv /\
    forall s, (s < length (n_sess n))%nat ->
      s_inbox (get_sess n' s) =
      s_inbox (get_sess n s) ++ concat (repeat (change_lines key value (v_ver nv)) (nsubs d key s)).
Proof.
  intros [[_ (d' & nv & H1 & _ & H2 & _ & _ & H3)]|[Hv _]] ->; [|destruct Hv].
  exists nv, d'. repeat split; auto. intros s. now apply H3.
Qed.

(* ---- remove ---- *)
Definition remove_outcome (n n' : node) (dbn : str) (d : db) (key : str) (r : resp) : Prop :=
  (key <> "$$token" /\ r = ROk /\
   exists d', get_db n' dbn = Some d' /\ d_watch d' = d_watch d /\
              delivered n n' (fun s => repeat (removed_line key) (nsubs d key s)))
  \/ (key = "$$token" /\ r = RError "$$token key cannot be removed" /\ n' = n).

Lemma remove_apply_outcome n dbn d key d' r msgs :
  get_db n dbn = Some d -> remove_value d key = (d', r, msgs) ->
  remove_outcome n (sends (put_db n dbn d') msgs) dbn d key r.
Proof.
  intros Hdb E. destruct (String.eqb_spec key "$$token") as [->|Hne].
  - rewrite remove_token_refused in E. injection E as <- <- <-.
    right. repeat split. cbn. now apply put_db_same.
  - destruct (remove_value_spec _ _ _ _ _ Hne E) as (-> & _).
    destruct (remove_value_notifies _ _ _ _ Hne E) as (W & Hm).
    left. split; [exact Hne|]. split; [reflexivity|].
    exists d'. split; [rewrite get_db_sends; apply get_db_put_same|].
    split; [exact W|]. eapply delivered_ext; [|apply delivered_sends; reflexivity]. exact Hm.
Qed.

Theorem handle_remove_notifies n c key dbn d n' r :
  guard_safe n c key PRemove = GGo dbn d -> is_primary n = true ->
  handle n c (RqRemove key) = (n', r) ->
  remove_outcome n n' dbn d key r.
Proof.
  intros Hg Hp. unfold handle. cbv zeta. rewrite Hg.
  destruct (guard_safe_go _ _ _ _ _ _ Hg) as [_ Hdb].
  destruct (remove_value d key) as [[d' r1] msgs] eqn:E.
  pose proof (remove_apply_outcome n dbn d key d' r1 msgs Hdb E) as Ho.
  assert (Hp1 : is_primary (sends (put_db n dbn d') msgs) = true) by (now rewrite is_primary_sends).
  rewrite Hp1. intros [= <- <-].
  destruct r1; exact Ho.
Qed.

Theorem handle_replicate_remove_notifies n c dbn key d n' r :
  s_auth (get_sess n c) = true -> get_db n dbn = Some d ->
  handle n c (RqReplicateRemove dbn key) = (n', r) ->
  remove_outcome n n' dbn d key r.
Proof.
  intros Ha Hdb. unfold handle. cbv zeta. rewrite Ha, Hdb. cbn [negb].
  destruct (remove_value d key) as [[d' r1] msgs] eqn:E.
  intros [= <- <-]. now apply remove_apply_outcome.
Qed.

(* ---- increment ---- *)
(* [r0] is the answer of inc_value; the client request replies it, the replicated
   request always replies ROk *)
Definition inc_outcome (n n' : node) (dbn : str) (d : db) (key : str) (r0 : resp) : Prop :=
  (r0 = ROk /\
   exists d' nv, get_db n' dbn = Some d' /\ d_watch d' = d_watch d /\ get_value d' key = Some nv /\
                 delivered n n' (fun s => concat (repeat (change_lines key (v_val nv) (-1)) (nsubs d key s))))
  \/ (r0 = RError "Key is not numeric" /\ n' = fst (tick n)).

Lemma inc_apply_outcome n dbn d key inc d' r msgs :
  get_db n dbn = Some d -> inc_value d key inc (n_clock n) = (d', r, msgs) ->
  inc_outcome n (sends (put_db (fst (tick n)) dbn d') msgs) dbn d key r.
Proof.
  intros Hdb E. destruct (inc_value_resp d key inc (n_clock n)) as [(d2 & m2 & E2)|E2];
    rewrite E2 in E; injection E as <- <- <-.
  - destruct (inc_value_notifies _ _ _ _ _ _ E2) as (W & nv & Hnv & Hm).
    left. split; auto. exists d2, nv. split; [rewrite get_db_sends; apply get_db_put_same|].
    split; [exact W|]. split; [exact Hnv|].
    eapply delivered_ext; [|apply delivered_sends; reflexivity]. exact Hm.
  - right. split; auto. cbn [sends fold_left]. apply put_db_same. exact Hdb.
Qed.

Theorem handle_increment_notifies n c key inc dbn d n' r :
  guard_safe n c key PIncrement = GGo dbn d -> is_primary n = true ->
  handle n c (RqIncrement key inc) = (n', r) ->
  inc_outcome n n' dbn d key r.
Proof.
  intros Hg Hp. unfold handle. cbv zeta. rewrite Hg, Hp.
  destruct (guard_safe_go _ _ _ _ _ _ Hg) as [_ Hdb].
  unfold tick. cbv beta iota.
  destruct (inc_value d key inc (n_clock n)) as [[d' r1] msgs] eqn:E.
  intros [= <- <-]. now apply (inc_apply_outcome n dbn d key inc).
Qed.

Theorem handle_replicate_increment_notifies n c dbn key inc d n' r :
  s_auth (get_sess n c) = true -> get_db n dbn = Some d ->
  handle n c (RqReplicateIncrement dbn key inc) = (n', r) ->
  r = ROk /\ exists r0, r0 = snd (fst (inc_value d key inc (n_clock n))) /\ inc_outcome n n' dbn d key r0.
Proof.
  intros Ha Hdb. unfold handle. cbv zeta. rewrite Ha, Hdb. cbn [negb].
  unfold tick. cbv beta iota.
  destruct (inc_value d key inc (n_clock n)) as [[d' r1] msgs] eqn:E.
  intros [= <- <-]. split; auto. exists r1. split; auto.
  now apply (inc_apply_outcome n dbn d key inc).
Qed.

Corollary inc_outcome_refused n n' dbn d key r0 m :
  inc_outcome n n' dbn d key r0 -> r0 = RError m -> n_dbs n' = n_dbs n /\ n_sess n' = n_sess n.
Proof.
  intros [[-> _]|[_ ->]] E; [discriminate | split; reflexivity].
Qed.

(* ------------------------------------------------------------------ *)
(* 5. isolation of subscription editing                                 *)
(* ------------------------------------------------------------------ *)

(* subscriptions of session s on key k of database x of the node (0 when x does not exist) *)
Definition nsubs_n (n : node) (x k : str) (s : nat) : nat :=
  match get_db n x with Some d => nsubs d k s | None => 0%nat end.

(* [n'] differs from [n] at most in subscriptions of session [c] and in session [c] itself *)
Definition isolated_to (c : nat) (n n' : node) : Prop :=
  (forall x k s, s <> c -> nsubs_n n' x k s = nsubs_n n x k s) /\
  (forall s, s <> c -> get_sess n' s = get_sess n s).

Lemma isolated_refl c n : isolated_to c n n.
Proof. split; auto. Qed.

Lemma isolated_send c n m : isolated_to c n (send n c m).
Proof.
  split; [reflexivity|]. intros s Hs. now apply get_sess_send_other.
Qed.

Lemma get_db_put n x d y : get_db (put_db n x d) y = if String.eqb y x then Some d else get_db n y.
Proof.
  destruct (String.eqb_spec y x) as [->|Hne]; [apply get_db_put_same | now apply get_db_put_other].
Qed.

Lemma nsubs_n_put n x d' y k s :
  nsubs_n (put_db n x d') y k s = if String.eqb y x then nsubs d' k s else nsubs_n n y k s.
Proof. unfold nsubs_n. rewrite get_db_put. now destruct (String.eqb y x). Qed.

Lemma isolated_put c n x d d' :
  get_db n x = Some d -> (forall k s, s <> c -> nsubs d' k s = nsubs d k s) ->
  isolated_to c n (put_db n x d').
Proof.
  intros Hdb H. split; [|reflexivity].
  intros y k s Hs. rewrite nsubs_n_put.
  destruct (String.eqb_spec y x) as [->|]; [|reflexivity].
  unfold nsubs_n. rewrite Hdb. auto.
Qed.

Lemma guard_safe_stop n c key req n' r :
  guard_safe n c key req = GStop n' r ->
  (n' = n \/ exists m, n' = send n c m) /\ exists m, r = RError m.
Proof.
  unfold guard_safe, guard_db_name, reject_no_db.
  destruct (_ && _); [intros [= <- <-]; eauto|].
  destruct (s_db (get_sess n c)) as [x|]; [|intros [= <- <-]; eauto].
  destruct (get_db n x) as [d0|]; [|intros [= <- <-]; eauto].
  destruct (has_permission _ _ _ _ _); [discriminate|intros [= <- <-]; eauto].
Qed.

Lemma guard_db_stop n c n' r :
  guard_db n c = GStop n' r ->
  n' = send n c no_db_msg /\ r = RError no_db_msg /\
  (forall dbn, s_db (get_sess n c) = Some dbn -> get_db n dbn = None).
Proof.
  unfold guard_db, guard_db_name, reject_no_db.
  destruct (s_db (get_sess n c)) as [x|]; [|intros [= <- <-]; repeat split; discriminate].
  destruct (get_db n x) as [d0|] eqn:E; [discriminate|].
  intros [= <- <-]. repeat split. now intros dbn [= <-].
Qed.

Lemma isolated_stop c n n' : (n' = n \/ exists m, n' = send n c m) -> isolated_to c n n'.
Proof. intros [->|[m ->]]; [apply isolated_refl | apply isolated_send]. Qed.

(* watch: only session c's subscription count moves, by exactly one, on exactly the key
   asked for in the database c has selected; nobody is sent anything on success *)
Theorem handle_watch_isolated n c k n' r :
  handle n c (RqWatch k) = (n', r) ->
  isolated_to c n n' /\
  (r = ROk -> exists dbn, s_db (get_sess n c) = Some dbn /\ n_sess n' = n_sess n /\
     forall x k', nsubs_n n' x k' c =
       (nsubs_n n x k' c + (if String.eqb x dbn && String.eqb k k' then 1 else 0))%nat).
Proof.
  unfold handle. cbv zeta.
  destruct (guard_safe n c k PRead) as [dbn d|n1 r1] eqn:G.
  - destruct (guard_safe_go _ _ _ _ _ _ G) as [Hsel Hdb].
    intros [= <- <-]. split.
    + apply (isolated_put c n dbn d); auto.
      intros k' s Hs. rewrite nsubs_watch_key.
      destruct (Nat.eqb_spec s c); [contradiction|]. rewrite andb_false_r. lia.
    + intros _. exists dbn. repeat split; auto.
      intros x k'. rewrite nsubs_n_put.
      destruct (String.eqb_spec x dbn) as [->|]; cbn [andb]; [|lia].
      rewrite nsubs_watch_key, Nat.eqb_refl, andb_true_r.
      unfold nsubs_n. now rewrite Hdb.
  - destruct (guard_safe_stop _ _ _ _ _ _ G) as [Hn [m ->]].
    intros [= <- <-]. split; [now apply isolated_stop | discriminate].
Qed.

Theorem handle_unwatch_isolated n c k n' r :
  handle n c (RqUnWatch k) = (n', r) ->
  isolated_to c n n' /\
  (forall dbn, s_db (get_sess n c) = Some dbn -> nsubs_n n' dbn k c = 0%nat) /\
  (r = ROk -> exists dbn, s_db (get_sess n c) = Some dbn /\ n_sess n' = n_sess n /\
     forall x k', nsubs_n n' x k' c =
       if String.eqb x dbn && String.eqb k k' then 0%nat else nsubs_n n x k' c).
Proof.
  unfold handle. cbv zeta.
  destruct (guard_db n c) as [dbn d|n1 r1] eqn:G.
  - destruct (guard_db_go _ _ _ _ G) as [Hsel Hdb].
    intros [= <- <-].
    assert (Hc : forall x k', nsubs_n (put_db n dbn (unwatch_key d k c)) x k' c =
                   if String.eqb x dbn && String.eqb k k' then 0%nat else nsubs_n n x k' c).
    { intros x k'. rewrite nsubs_n_put.
      destruct (String.eqb_spec x dbn) as [->|]; cbn [andb]; [|reflexivity].
      rewrite nsubs_unwatch_key, Nat.eqb_refl, andb_true_r.
      unfold nsubs_n. now rewrite Hdb. }
    split; [|split].
    + apply (isolated_put c n dbn d); auto.
      intros k' s Hs. rewrite nsubs_unwatch_key.
      destruct (Nat.eqb_spec s c); [contradiction|]. now rewrite andb_false_r.
    + intros dbn' E. rewrite Hsel in E. injection E as <-.
      rewrite Hc. now rewrite !String.eqb_refl.
    + intros _. exists dbn. repeat split; auto.
  - destruct (guard_db_stop _ _ _ _ G) as (-> & -> & Hno).
    intros [= <- <-]. split; [apply isolated_send|]. split; [|discriminate].
    intros dbn E. unfold nsubs_n. rewrite get_db_send, (Hno _ E). reflexivity.
Qed.

Theorem handle_unwatch_all_isolated n c n' r :
  handle n c RqUnWatchAll = (n', r) ->
  isolated_to c n n' /\
  (forall dbn, s_db (get_sess n c) = Some dbn -> forall k, nsubs_n n' dbn k c = 0%nat) /\
  (r = ROk -> exists dbn, s_db (get_sess n c) = Some dbn /\ n_sess n' = n_sess n /\
     forall x k, nsubs_n n' x k c = if String.eqb x dbn then 0%nat else nsubs_n n x k c).
Proof.
  unfold handle. cbv zeta.
  destruct (guard_db n c) as [dbn d|n1 r1] eqn:G.
  - destruct (guard_db_go _ _ _ _ G) as [Hsel Hdb].
    intros [= <- <-].
    assert (Hc : forall x k, nsubs_n (put_db n dbn (unwatch_all d c)) x k c =
                   if String.eqb x dbn then 0%nat else nsubs_n n x k c).
    { intros x k. rewrite nsubs_n_put.
      destruct (String.eqb_spec x dbn) as [->|]; [|reflexivity].
      now rewrite nsubs_unwatch_all, Nat.eqb_refl. }
    split; [|split].
    + apply (isolated_put c n dbn d); auto.
      intros k s Hs. rewrite nsubs_unwatch_all.
      destruct (Nat.eqb_spec s c); [contradiction|reflexivity].
    + intros dbn' E k. rewrite Hsel in E. injection E as <-.
      rewrite Hc. now rewrite String.eqb_refl.
    + intros _. exists dbn. repeat split; auto.
  - destruct (guard_db_stop _ _ _ _ G) as (-> & -> & Hno).
    intros [= <- <-]. split; [apply isolated_send|]. split; [|discriminate].
    intros dbn E k. unfold nsubs_n. rewrite get_db_send, (Hno _ E). reflexivity.
Qed.

(* ---- disconnect = unwatch-all, then Client::left ---- *)

Lemma parse_unwatch_all : parse_request (trim_char nl "unwatch-all") = POk RqUnWatchAll.
Proof. vm_compute. reflexivity. Qed.

Lemma process_unwatch_all k n c line :
  parse_request (trim_char nl line) = POk RqUnWatchAll ->
  process (S k) n c line =
  let '(n1, r) := handle n c RqUnWatchAll in
  replicate_request n1 RqUnWatchAll (s_db (get_sess n c)) r.
Proof. intros H. cbn [process]. rewrite H. reflexivity. Qed.

Lemma replicate_request_unwatch_all n sel r : fst (replicate_request n RqUnWatchAll sel r) = n.
Proof.
  unfold replicate_request.
  destruct r; try reflexivity;
    destruct (match sel with Some nm => negb (has_db n nm) | None => false end); reflexivity.
Qed.

(* the "unwatch-all" line is the RqUnWatchAll request followed by a replicate_request
   that queues nothing *)
Theorem step_unwatch_all n c : fst (step n c "unwatch-all") = fst (handle n c RqUnWatchAll).
Proof.
  unfold step. rewrite (process_unwatch_all _ _ _ _ parse_unwatch_all).
  destruct (handle n c RqUnWatchAll) as [n1 r]. apply replicate_request_unwatch_all.
Qed.

Theorem disconnect_eq n c : disconnect n c = client_left (fst (handle n c RqUnWatchAll)) c.
Proof. unfold disconnect. now rewrite step_unwatch_all. Qed.

(* ---- apply_change (any conflict strategy): subscriptions and bystanders ---- *)

Lemma get_db_replicate_change n dbn ch x : get_db (replicate_change n dbn ch) x = get_db n x.
Proof. unfold replicate_change. destruct (_ || _); reflexivity. Qed.

Lemma get_sess_replicate_change n dbn ch s : get_sess (replicate_change n dbn ch) s = get_sess n s.
Proof. unfold replicate_change. destruct (_ || _); reflexivity. Qed.

Lemma set_value_msgs_in d ch d1 r msgs p :
  set_value d ch = (d1, r, msgs) -> In p msgs -> In (fst p) (watchers_of d (c_key ch)).
Proof.
  unfold set_value. destruct (get_value d (c_key ch)); [destruct (_ && _)|];
    intros [= _ _ <-]; try (intros []); apply notify_in.
Qed.

(* session s holds no subscription at all in database d *)
Definition quiet (d : db) (s : nat) : Prop := forall k, nsubs d k s = 0%nat.

Lemma quiet_watch d d' s : d_watch d' = d_watch d -> quiet d s -> quiet d' s.
Proof. intros W Q k. rewrite (nsubs_watch_eq _ _ W). apply Q. Qed.

Lemma quiet_not_in d s k : quiet d s -> ~ In s (watchers_of d k).
Proof. intros Q Hin. apply nsubs_pos_in in Hin. rewrite (Q k) in Hin. lia. Qed.

Lemma quiet_set_msgs d ch d1 r msgs s :
  quiet d s -> set_value d ch = (d1, r, msgs) -> forall p, In p msgs -> fst p <> s.
Proof.
  intros Q E p Hp <-. eapply quiet_not_in; [exact Q|]. eapply set_value_msgs_in; eauto.
Qed.

Lemma quiet_arbiter_msgs d m s : quiet d s -> forall p, In p (arbiter_msgs d m) -> fst p <> s.
Proof.
  intros Q p. unfold arbiter_msgs. rewrite in_map_iff. intros (x & <- & Hx) E. cbn [fst] in E.
  subst x. eapply quiet_not_in; eauto.
Qed.

Definition same_watch (n n' : node) : Prop :=
  forall x, option_map d_watch (get_db n' x) = option_map d_watch (get_db n x).

Lemma same_watch_nsubs n n' : same_watch n n' -> forall x k s, nsubs_n n' x k s = nsubs_n n x k s.
Proof.
  intros H x k s. specialize (H x). unfold nsubs_n.
  destruct (get_db n' x) as [d'|], (get_db n x) as [d|]; cbn in H; try discriminate; auto.
  injection H as H. now apply nsubs_watch_eq.
Qed.

Lemma same_watch_trans a b c : same_watch a b -> same_watch b c -> same_watch a c.
Proof. intros H1 H2 x. now rewrite H2, H1. Qed.

(* no path through apply_change touches a subscription table *)
Theorem apply_change_same_watch n dbn ch : same_watch n (fst (apply_change n dbn ch)).
Proof.
  unfold same_watch, apply_change.
  destruct (get_db n dbn) as [d|] eqn:Hdb; [|reflexivity].
  assert (Hput : forall n0 d' msgs0,
             (forall y, option_map d_watch (get_db n0 y) = option_map d_watch (get_db n y)) ->
             d_watch d' = d_watch d ->
             forall x, option_map d_watch (get_db (sends (put_db n0 dbn d') msgs0) x) =
                       option_map d_watch (get_db n x)).
  { intros n0 d' msgs0 H0 W x. rewrite get_db_sends, get_db_put.
    destruct (String.eqb_spec x dbn) as [->|]; [rewrite Hdb; cbn; now f_equal | apply H0]. }
  destruct (set_value d ch) as [[d1 r] msgs] eqn:E.
  pose proof (set_value_watch d ch) as W1. rewrite E in W1. cbn [fst] in W1.
  destruct r; try (cbn [fst]; apply Hput; auto).
  destruct (d_strat d).
  - reflexivity.
  - destruct (N.ltb _ _); [|reflexivity].
    unfold tick. cbv beta iota zeta.
    match goal with |- context [set_value d ?c] =>
      destruct (set_value d c) as [[d2 r2] msgs2] eqn:E2;
      pose proof (set_value_watch d c) as W2; rewrite E2 in W2; cbn [fst] in W2 end.
    cbn [fst]. apply Hput; auto.
  - destruct (negb (has_arbiter d)); [reflexivity|].
    cbv zeta.
    match goal with |- context [put_value d ?k ?v] => set (d2 := put_value d k v) end.
    assert (W2 : d_watch d2 = d_watch d) by reflexivity.
    match goal with |- context [match ?info with Some _ => _ | None => _ end] =>
      assert (Hi : exists a b, info = Some (a, b))
        by (destruct (Z.eqb _ _); [destruct (rev _)|]; eauto);
      destruct Hi as (a & b & ->) end.
    unfold tick. cbv beta iota zeta.
    match goal with |- context [set_value d2 ?c] =>
      destruct (set_value d2 c) as [[d3 r3] msgs3] eqn:E3;
      pose proof (set_value_watch d2 c) as W3; rewrite E3 in W3; cbn [fst] in W3 end.
    cbn [fst]. intros x. rewrite get_db_replicate_change.
    apply Hput; [|congruence].
    intros y. rewrite get_db_set_clock. apply Hput; auto.
Qed.

Lemma get_sess_put_db n x d s : get_sess (put_db n x d) s = get_sess n s.
Proof. reflexivity. Qed.

Lemma get_sess_set_clock n k s : get_sess (n_set_clock n k) s = get_sess n s.
Proof. reflexivity. Qed.

(* whatever apply_change sends goes to sessions subscribed to something in that database *)
Theorem apply_change_quiet n dbn ch d s :
  get_db n dbn = Some d -> quiet d s -> get_sess (fst (apply_change n dbn ch)) s = get_sess n s.
Proof.
  intros Hdb Q. unfold apply_change. rewrite Hdb.
  assert (Hsend : forall n0 d0 c0 d' r0 msgs0,
             get_sess n0 s = get_sess n s -> d_watch d0 = d_watch d ->
             set_value d0 c0 = (d', r0, msgs0) ->
             get_sess (sends (put_db n0 dbn d') msgs0) s = get_sess n s).
  { intros n0 d0 c0 d' r0 msgs0 H0 W E0.
    rewrite get_sess_sends_quiet; [now rewrite get_sess_put_db|].
    eapply quiet_set_msgs; [|exact E0]. eapply quiet_watch; eauto. }
  destruct (set_value d ch) as [[d1 r] msgs] eqn:E.
  destruct r; try (cbn [fst]; eapply Hsend; eauto).
  destruct (d_strat d).
  - reflexivity.
  - destruct (N.ltb _ _); [|reflexivity].
    unfold tick. cbv beta iota zeta.
    match goal with |- context [set_value d ?c] =>
      destruct (set_value d c) as [[d2 r2] msgs2] eqn:E2 end.
    cbn [fst]. eapply Hsend; eauto.
  - destruct (negb (has_arbiter d)); [reflexivity|].
    cbv zeta.
    match goal with |- context [put_value d ?k ?v] => set (d2 := put_value d k v) end.
    assert (W2 : d_watch d2 = d_watch d) by reflexivity.
    match goal with |- context [match ?info with Some _ => _ | None => _ end] =>
      assert (Hi : exists a b, info = Some (a, b))
        by (destruct (Z.eqb _ _); [destruct (rev _)|]; eauto);
      destruct Hi as (a & b & ->) end.
    unfold tick. cbv beta iota zeta.
    match goal with |- context [set_value d2 ?c] =>
      destruct (set_value d2 c) as [[d3 r3] msgs3] eqn:E3 end.
    cbn [fst]. rewrite get_sess_replicate_change.
    eapply Hsend; [|exact W2|exact E3].
    rewrite get_sess_set_clock, get_sess_sends_quiet; [now rewrite get_sess_put_db|].
    apply quiet_arbiter_msgs. eapply quiet_watch; eauto.
Qed.

(* ---- Client::left ---- *)

Lemma client_left_unfold n c dbn d :
  s_db (get_sess n c) = Some dbn -> get_db n dbn = Some d ->
  let d2 := db_set_conn d (d_conn d - 1) in
  let n2 := put_db n dbn d2 in
  client_left n c = fst (set_key_value n2 dbn "$connections" (Z_to_str (d_conn d - 1)) (-1)) /\
  get_db n2 dbn = Some d2.
Proof.
  intros Hsel Hdb d2 n2. assert (H2 : get_db n2 dbn = Some d2) by apply get_db_put_same.
  split; auto.
  unfold client_left. rewrite Hsel, Hdb. fold d2. fold n2.
  unfold set_connection_counter. rewrite H2. reflexivity.
Qed.

Lemma client_left_idle n c :
  (s_db (get_sess n c) = None \/ exists dbn, s_db (get_sess n c) = Some dbn /\ get_db n dbn = None) ->
  client_left n c = n.
Proof.
  unfold client_left. intros [->|(dbn & -> & ->)]; reflexivity.
Qed.

(* Client::left never edits a subscription table (any conflict strategy) *)
Theorem client_left_same_watch n c : same_watch n (client_left n c).
Proof.
  destruct (s_db (get_sess n c)) as [dbn|] eqn:Hsel;
    [|rewrite client_left_idle by auto; intros x; reflexivity].
  destruct (get_db n dbn) as [d|] eqn:Hdb;
    [|rewrite client_left_idle by eauto; intros x; reflexivity].
  destruct (client_left_unfold n c dbn d Hsel Hdb) as [-> H2].
  unfold set_key_value, tick. cbv beta iota.
  eapply same_watch_trans; [|apply apply_change_same_watch].
  intros x. rewrite get_db_set_clock, get_db_put.
  destruct (String.eqb_spec x dbn) as [->|]; [now rewrite Hdb | reflexivity].
Qed.

(* Client::left sends nothing to a session without subscriptions in the database the
   leaving session had selected (any conflict strategy) *)
Theorem client_left_quiet n c dbn d s :
  s_db (get_sess n c) = Some dbn -> get_db n dbn = Some d -> quiet d s ->
  get_sess (client_left n c) s = get_sess n s.
Proof.
  intros Hsel Hdb Q.
  destruct (client_left_unfold n c dbn d Hsel Hdb) as [-> H2].
  unfold set_key_value, tick. cbv beta iota.
  erewrite apply_change_quiet; [reflexivity | rewrite get_db_set_clock; exact H2 |].
  intros k. apply Q.
Qed.

(* Client::left on a database without conflict strategy: exactly one write of
   "$connections" (the decremented counter, version -1), delivered like any other write *)
Theorem client_left_none n c dbn d :
  s_db (get_sess n c) = Some dbn -> get_db n dbn = Some d -> d_strat d = SNone ->
  let d2 := db_set_conn d (d_conn d - 1) in
  exists r, set_outcome (put_db n dbn d2) (client_left n c) dbn d2
                        "$connections" (Z_to_str (d_conn d - 1)) r.
Proof.
  intros Hsel Hdb Hs d2.
  destruct (client_left_unfold n c dbn d Hsel Hdb) as [-> H2]. fold d2 in H2 |- *.
  destruct (set_key_value (put_db n dbn d2) dbn "$connections" (Z_to_str (d_conn d - 1)) (-1))
    as [n' r] eqn:E.
  exists r. cbn [fst].
  now destruct (set_key_value_outcome _ _ _ _ _ _ _ _ H2 Hs E).
Qed.

(* ---- disconnect ---- *)

Lemma unwatch_all_sel n c : s_db (get_sess (fst (handle n c RqUnWatchAll)) c) = s_db (get_sess n c).
Proof.
  unfold handle. cbv zeta. destruct (guard_db n c) as [dbn d|n1 r1] eqn:G; cbn [fst].
  - reflexivity.
  - destruct (guard_db_stop _ _ _ _ G) as (-> & _ & _).
    now destruct (sess_static_send n c no_db_msg c) as (_ & H & _).
Qed.

(* (a) only session c's subscriptions change, and c ends with none in its database *)
Theorem disconnect_subs n c :
  (forall x k s, s <> c -> nsubs_n (disconnect n c) x k s = nsubs_n n x k s) /\
  (forall dbn, s_db (get_sess n c) = Some dbn -> forall k, nsubs_n (disconnect n c) dbn k c = 0%nat) /\
  (forall x k, nsubs_n (disconnect n c) x k c =
               if match s_db (get_sess n c) with Some dbn => String.eqb x dbn | None => false end
               then 0%nat else nsubs_n n x k c).
Proof.
  rewrite disconnect_eq.
  destruct (handle n c RqUnWatchAll) as [n1 r] eqn:E. cbn [fst].
  destruct (handle_unwatch_all_isolated _ _ _ _ E) as ([Hiso _] & Hzero & Hok).
  pose proof (same_watch_nsubs _ _ (client_left_same_watch n1 c)) as Hcl.
  split; [|split].
  - intros x k s Hs. rewrite Hcl. now apply Hiso.
  - intros dbn Hsel k. rewrite Hcl. now apply Hzero.
  - intros x k. rewrite Hcl.
    revert E. unfold handle. cbv zeta.
    destruct (guard_db n c) as [dbn d|n2 r2] eqn:G.
    + destruct (guard_db_go _ _ _ _ G) as [Hsel Hdb]. intros [= <- <-]. rewrite Hsel.
      rewrite nsubs_n_put. destruct (String.eqb_spec x dbn) as [->|]; [|reflexivity].
      now rewrite nsubs_unwatch_all, Nat.eqb_refl.
    + destruct (guard_db_stop _ _ _ _ G) as (-> & _ & Hno). intros [= <- <-].
      destruct (s_db (get_sess n c)) as [dbn|] eqn:Hsel; [|reflexivity].
      destruct (String.eqb_spec x dbn) as [->|]; [|reflexivity].
      unfold nsubs_n. rewrite get_db_send, (Hno _ eq_refl). reflexivity.
Qed.

(* (b) any strategy: a bystander with no subscription in c's database is untouched *)
Theorem disconnect_quiet n c dbn d s :
  s <> c -> s_db (get_sess n c) = Some dbn -> get_db n dbn = Some d -> quiet d s ->
  get_sess (disconnect n c) s = get_sess n s.
Proof.
  intros Hs Hsel Hdb Q. rewrite disconnect_eq.
  pose proof (unwatch_all_sel n c) as Hsel1. rewrite Hsel in Hsel1.
  revert Hsel1. unfold handle. cbv zeta. unfold guard_db, guard_db_name. rewrite Hsel, Hdb. cbn [fst].
  intros Hsel1.
  erewrite client_left_quiet; [reflexivity | exact Hsel1 | apply get_db_put_same |].
  intros k. rewrite nsubs_unwatch_all. destruct (Nat.eqb s c); [reflexivity | apply Q].
Qed.

(* (c) any strategy: the leaving session itself receives nothing (it has just dropped all
   its subscriptions in that database) when its database exists *)
Theorem disconnect_self n c dbn d :
  s_db (get_sess n c) = Some dbn -> get_db n dbn = Some d ->
  get_sess (disconnect n c) c = get_sess n c.
Proof.
  intros Hsel Hdb. rewrite disconnect_eq.
  pose proof (unwatch_all_sel n c) as Hsel1. rewrite Hsel in Hsel1.
  revert Hsel1. unfold handle. cbv zeta. unfold guard_db, guard_db_name. rewrite Hsel, Hdb. cbn [fst].
  intros Hsel1.
  erewrite client_left_quiet; [reflexivity | exact Hsel1 | apply get_db_put_same |].
  intros k. now rewrite nsubs_unwatch_all, Nat.eqb_refl.
Qed.

(* (d) no database selected, or it no longer exists: the only effect is the guard's error
   line in c's own inbox *)
Theorem disconnect_no_db n c :
  (s_db (get_sess n c) = None \/ exists dbn, s_db (get_sess n c) = Some dbn /\ get_db n dbn = None) ->
  disconnect n c = send n c no_db_msg.
Proof.
  intros H. rewrite disconnect_eq.
  assert (E : fst (handle n c RqUnWatchAll) = send n c no_db_msg).
  { unfold handle. cbv zeta. unfold guard_db, guard_db_name, reject_no_db.
    destruct H as [->|(dbn & -> & ->)]; reflexivity. }
  rewrite E. apply client_left_idle.
  destruct (sess_static_send n c no_db_msg c) as (_ & Hd & _). rewrite Hd.
  destruct H as [H|(dbn & H1 & H2)]; [now left | right; exists dbn; split; auto].
Qed.

Lemma unwatch_all_static d c :
  d_strat (unwatch_all d c) = d_strat d /\ d_conn (unwatch_all d c) = d_conn d.
Proof.
  unfold unwatch_all. generalize (map fst (d_watch d)). intros ks. revert d.
  induction ks as [|k0 ks IH]; intros d; cbn [fold_left]; [auto|].
  destruct (IH (unwatch_key d k0 c)) as [-> ->]. auto.
Qed.

Lemma assoc_set_set {B} k (a b : B) l :
  assoc_set String.eqb k b (assoc_set String.eqb k a l) = assoc_set String.eqb k b l.
Proof.
  induction l as [|[k' v'] r IH]; cbn [assoc_set].
  - now rewrite String.eqb_refl.
  - destruct (String.eqb k k') eqn:E; cbn [assoc_set]; rewrite E; [reflexivity | now rewrite IH].
Qed.

Lemma put_db_put_db n x a b : put_db (put_db n x a) x b = put_db n x b.
Proof.
  unfold put_db, n_set_dbs. cbn [n_dbs n_sess n_role n_clock n_user n_pwd n_addr n_pid n_repl n_sup n_snap
                               n_pending n_idmap n_members].
  now rewrite assoc_set_set.
Qed.

(* (e) database without conflict strategy: after dropping c's subscriptions, exactly one
   "$connections" write is delivered to the remaining watchers of "$connections" *)
Theorem disconnect_none n c dbn d :
  s_db (get_sess n c) = Some dbn -> get_db n dbn = Some d -> d_strat d = SNone ->
  let d1 := unwatch_all d c in
  let d2 := db_set_conn d1 (d_conn d - 1) in
  exists r, set_outcome (put_db n dbn d2) (disconnect n c) dbn d2
                        "$connections" (Z_to_str (d_conn d - 1)) r.
Proof.
  intros Hsel Hdb Hs d1 d2. rewrite disconnect_eq.
  pose proof (unwatch_all_sel n c) as Hsel1. rewrite Hsel in Hsel1.
  revert Hsel1. unfold handle. cbv zeta. unfold guard_db, guard_db_name. rewrite Hsel, Hdb. cbn [fst].
  fold d1. intros Hsel1.
  destruct (unwatch_all_static d c) as [Hst Hcn]. fold d1 in Hst, Hcn.
  destruct (client_left_none (put_db n dbn d1) c dbn d1 Hsel1 (get_db_put_same _ _ _)) as [r Ho];
    [congruence|].
  cbv zeta in Ho. rewrite Hcn, put_db_put_db in Ho. fold d2 in Ho. exists r. exact Ho.
Qed.

(* what (e) says for the inboxes of the other sessions *)
Corollary disconnect_none_inbox n c dbn d :
  s_db (get_sess n c) = Some dbn -> get_db n dbn = Some d -> d_strat d = SNone ->
  (exists ver, forall s, (s < length (n_sess n))%nat ->
     s_inbox (get_sess (disconnect n c) s) =
     s_inbox (get_sess n s) ++
     concat (repeat (change_lines "$connections" (Z_to_str (d_conn d - 1)) ver)
                    (if Nat.eqb s c then 0%nat else nsubs d "$connections" s)))
  \/ n_sess (disconnect n c) = n_sess n.
Proof.
  intros Hsel Hdb Hs.
  destruct (disconnect_none n c dbn d Hsel Hdb Hs) as [r [[_ (d' & nv & _ & _ & _ & _ & _ & H)]|[_ ->]]];
    [left | right; reflexivity].
  exists (v_ver nv). intros s Hlt. destruct (H s) as [_ Hi].
  rewrite (Hi Hlt).
  change (nsubs (db_set_conn (unwatch_all d c) (d_conn d - 1)) "$connections" s)
    with (nsubs (unwatch_all d c) "$connections" s).
  now rewrite nsubs_unwatch_all.
Qed.

(* ------------------------------------------------------------------ *)
(* 6. final view of a subscriber (sequential history of accepted sets)  *)
(* ------------------------------------------------------------------ *)

Definition set_db (d : db) (ch : change) : db := fst (fst (set_value d ch)).
Definition accepted (d : db) (ch : change) : Prop := is_rset (snd (fst (set_value d ch))).

(* a history of plain (non-resolve) writes of key k with client versions >= -1, each accepted *)
Fixpoint hist_ok (k : str) (d : db) (chs : list change) : Prop :=
  match chs with
  | [] => True
  | ch :: r => c_key ch = k /\ c_resolve ch = false /\ -1 <= c_ver ch /\ accepted d ch /\
               hist_ok k (set_db d ch) r
  end.

(* run the history, collecting what session s is sent *)
Definition view_step (s : nat) (acc : db * list str) (ch : change) : db * list str :=
  let '(d1, _, msgs) := set_value (fst acc) ch in (d1, snd acc ++ proj s msgs).

Definition stored_ver (d : db) (k : str) : Z :=
  match get_value d k with Some v => v_ver v | None => 0 end.

(* (value, version stored) of every write of the history, in order *)
Fixpoint notes_of (k : str) (d : db) (chs : list change) : list (str * Z) :=
  match chs with
  | [] => []
  | ch :: r => (c_val ch, stored_ver (set_db d ch) k) :: notes_of k (set_db d ch) r
  end.

(* the lines m subscriptions receive for these notes *)
Definition render (k : str) (m : nat) (notes : list (str * Z)) : list str :=
  concat (map (fun p => concat (repeat (change_lines k (fst p) (snd p)) m)) notes).

Lemma render_app k m a b : render k m (a ++ b) = render k m a ++ render k m b.
Proof. unfold render. now rewrite map_app, concat_app. Qed.

Lemma accepted_inv d ch : accepted d ch ->
  exists d1 msgs, set_value d ch = (d1, RSet (c_key ch) (c_val ch), msgs).
Proof.
  unfold accepted. destruct (set_value_resp d ch) as [(msgs & d1 & E)|(old & E)]; rewrite E; cbn.
  - eauto.
  - intros [].
Qed.

(* an accepted plain write met a stored version that is neither -2 nor saturated *)
Lemma accepted_pre d ch old :
  c_resolve ch = false -> -1 <= c_ver ch -> accepted d ch ->
  get_value d (c_key ch) = Some old -> v_ver old <> -2 /\ v_ver old < i32_max.
Proof.
  intros Hr Hv Ha Hg. destruct (accepted_inv _ _ Ha) as (d1 & msgs & E).
  destruct (set_value_inv_present _ _ _ _ _ _ _ Hg E) as [C _].
  revert C. unfold next_version, in_conflict. rewrite Hr.
  destruct (Z.eqb_spec (c_ver ch) (-2)); [lia|]. cbn [negb]. rewrite andb_true_r.
  destruct (Z.eqb_spec (v_ver old) (-2)) as [E2|E2].
  - rewrite Z.leb_refl. discriminate.
  - intros C. apply Z.leb_gt in C. split; auto.
    destruct (Z.eqb (c_ver ch) (-1));
      match type of C with _ < sat_succ ?z => pose proof (sat_succ_le_max z) end; lia.
Qed.

Lemma accepted_step d ch :
  c_resolve ch = false -> -1 <= c_ver ch -> accepted d ch ->
  exists nv, get_value (set_db d ch) (c_key ch) = Some nv /\ v_val nv = c_val ch /\
             live (set_db d ch) (c_key ch) = Some (c_val ch) /\
             (forall old, get_value d (c_key ch) = Some old -> v_ver old < v_ver nv).
Proof.
  intros Hr Hv Ha. destruct (accepted_inv _ _ Ha) as (d1 & msgs & E).
  destruct (set_value_notifies _ _ _ _ _ _ E) as (_ & nv & Hnv & Hval & _).
  destruct (set_value_ok _ _ _ _ _ _ E) as (_ & _ & Hlive & _).
  unfold set_db. rewrite E. cbn [fst]. exists nv. repeat split; auto.
  intros old Hg. destruct (accepted_pre _ _ _ Hr Hv Ha Hg) as [H2 Hm].
  destruct (cas_version _ _ _ _ _ _ _ Hg H2 Hm eq_refl Hr Hv E) as (nv' & Hnv' & _ & Hlt).
  rewrite Hnv in Hnv'. injection Hnv' as <-. exact Hlt.
Qed.

Lemma set_db_nsubs d ch k s : nsubs (set_db d ch) k s = nsubs d k s.
Proof. apply nsubs_watch_eq, set_value_watch. Qed.

(* L1: what the subscriber is sent is the rendering of the notes *)
Lemma view_run k s : forall chs d acc, hist_ok k d chs ->
  fold_left (view_step s) chs (d, acc) =
  (fold_left set_db chs d, acc ++ render k (nsubs d k s) (notes_of k d chs)).
Proof.
  induction chs as [|ch r IH]; intros d acc H; cbn [fold_left notes_of].
  - unfold render. cbn. now rewrite app_nil_r.
  - destruct H as (Hk & Hr & Hv & Ha & Hrest).
    destruct (accepted_inv _ _ Ha) as (d1 & msgs & E).
    destruct (set_value_notifies _ _ _ _ _ _ E) as (_ & nv & Hnv & _ & Hm).
    assert (Ed : set_db d ch = d1) by (unfold set_db; now rewrite E).
    unfold view_step at 2. cbn [fst snd]. rewrite E. rewrite Ed in *.
    rewrite IH by exact Hrest.
    rewrite <- Ed at 2. rewrite set_db_nsubs.
    f_equal. rewrite <- app_assoc. f_equal.
    unfold render at 2. cbn [map concat fst snd]. fold (render k (nsubs d k s) (notes_of k d1 r)).
    f_equal. rewrite Hm. unfold stored_ver. rewrite Hk in *. now rewrite Hnv.
Qed.

Lemma notes_vals k : forall chs d, map fst (notes_of k d chs) = map c_val chs.
Proof. induction chs as [|ch r IH]; intros d; cbn [notes_of map fst]; [reflexivity | now rewrite IH]. Qed.

(* L2: every notified version exceeds the version stored before the history *)
Lemma notes_above k : forall chs d old, hist_ok k d chs -> get_value d k = Some old ->
  Forall (fun p => v_ver old < snd p) (notes_of k d chs).
Proof.
  induction chs as [|ch r IH]; intros d old H Hg; cbn [notes_of]; [constructor|].
  destruct H as (Hk & Hr & Hv & Ha & Hrest).
  destruct (accepted_step _ _ Hr Hv Ha) as (nv & Hnv & _ & _ & Hlt). rewrite Hk in *.
  specialize (Hlt _ Hg).
  constructor.
  - cbn [snd]. unfold stored_ver. now rewrite Hnv.
  - eapply Forall_impl; [|apply (IH _ nv Hrest Hnv)]. cbn beta. intros p Hp. lia.
Qed.

(* notified versions strictly increase *)
Lemma notes_sorted k : forall chs d, hist_ok k d chs ->
  StronglySorted (fun a b => snd a < snd b) (notes_of k d chs).
Proof.
  induction chs as [|ch r IH]; intros d H; cbn [notes_of]; [constructor|].
  destruct H as (Hk & Hr & Hv & Ha & Hrest).
  destruct (accepted_step _ _ Hr Hv Ha) as (nv & Hnv & _ & _ & _). rewrite Hk in *.
  constructor; [now apply IH|].
  cbn [snd]. unfold stored_ver at 1. rewrite Hnv. now apply notes_above.
Qed.

Lemma last_cons_ne {A} (a : A) l dflt : l <> [] -> last (a :: l) dflt = last l dflt.
Proof. destruct l; [congruence|reflexivity]. Qed.

Definition dflt_ch : change := mkCh "" "" 0 0 false.

(* L3: the last note is what is stored at the end *)
Lemma notes_last k : forall chs d, hist_ok k d chs -> chs <> [] ->
  exists nv, get_value (fold_left set_db chs d) k = Some nv /\
             live (fold_left set_db chs d) k = Some (v_val nv) /\
             v_val nv = c_val (last chs dflt_ch) /\
             last (notes_of k d chs) ("", 0) = (v_val nv, v_ver nv).
Proof.
  induction chs as [|ch r IH]; intros d H Hne; [congruence|].
  destruct H as (Hk & Hr & Hv & Ha & Hrest).
  destruct r as [|ch2 r'].
  - destruct (accepted_step _ _ Hr Hv Ha) as (nv & Hnv & Hval & Hlive & _). rewrite Hk in *.
    exists nv. cbn [fold_left notes_of last]. repeat split; auto.
    + now rewrite Hval.
    + unfold stored_ver. now rewrite Hnv, Hval.
  - destruct (IH (set_db d ch) Hrest) as (nv & H1 & H2 & H3 & H4); [discriminate|].
    exists nv. cbn [fold_left]. repeat split; auto.
Qed.

Lemma ssorted_snoc {A} (R : A -> A -> Prop) l x :
  StronglySorted R (l ++ [x]) -> Forall (fun y => R y x) l.
Proof.
  induction l as [|a l IH]; cbn [app]; intros H; [constructor|].
  apply StronglySorted_inv in H. destruct H as [H1 H2].
  constructor; [|auto].
  rewrite Forall_forall in H2. apply H2. apply in_or_app. right. now left.
Qed.

Lemma concat_repeat_comm {A} (l : list A) m : l ++ concat (repeat l m) = concat (repeat l m) ++ l.
Proof.
  induction m as [|m IH]; cbn [repeat concat]; [now rewrite app_nil_r|].
  now rewrite <- app_assoc, <- IH.
Qed.

(* The final view.  For a history of accepted plain writes of k (client versions >= -1):
   session s is sent, for each write in order, the change lines with the value written
   and the version stored, once per subscription it holds; the stored versions strictly
   increase, so the last note is the unique highest-versioned one, and it carries the
   value and version that the database holds at the end.  (That the pre-state versions
   are never -2 and below i32::MAX is not an assumption: it follows from acceptance,
   see [accepted_pre].) *)
Theorem final_view k s d chs acc :
  hist_ok k d chs -> chs <> [] ->
  let d' := fold_left set_db chs d in
  exists nv earlier,
    fold_left (view_step s) chs (d, acc) =
      (d', acc ++ render k (nsubs d k s) (earlier ++ [(v_val nv, v_ver nv)])) /\
    get_value d' k = Some nv /\ live d' k = Some (v_val nv) /\
    v_val nv = c_val (last chs dflt_ch) /\
    map fst earlier ++ [v_val nv] = map c_val chs /\
    StronglySorted (fun a b => snd a < snd b) (earlier ++ [(v_val nv, v_ver nv)]) /\
    Forall (fun p => snd p < v_ver nv) earlier /\
    (forall k0 s0, nsubs d' k0 s0 = nsubs d k0 s0).
Proof.
  intros H Hne d'.
  destruct (notes_last k chs d H Hne) as (nv & Hg & Hlive & Hval & Hlast).
  assert (Hnn : notes_of k d chs <> []).
  { intros E. apply (f_equal (map fst)) in E. rewrite notes_vals in E.
    destruct chs; [congruence|discriminate]. }
  destruct (exists_last Hnn) as (earlier & a & Ea).
  rewrite Ea, last_last in Hlast. subst a.
  pose proof (notes_sorted k chs d H) as Hs. rewrite Ea in Hs.
  exists nv, earlier. rewrite <- Ea. split; [now apply view_run|].
  repeat split; auto.
  - pose proof (notes_vals k chs d) as Hv. rewrite Ea, map_app in Hv. exact Hv.
  - rewrite Ea. exact Hs.
  - apply ssorted_snoc in Hs. exact Hs.
  - intros k0 s0. subst d'. clear. revert d.
    induction chs as [|ch r IH]; intros d; cbn [fold_left]; [reflexivity|].
    now rewrite IH, set_db_nsubs.
Qed.

(* with at least one subscription, the inbox ends with the change lines of the current
   value and version; in particular its very last line is the "changed-version" line of
   the current state *)
Corollary final_view_last k s d chs acc :
  hist_ok k d chs -> chs <> [] -> (1 <= nsubs d k s)%nat ->
  let d' := fold_left set_db chs d in
  exists nv pre,
    get_value d' k = Some nv /\ live d' k = Some (v_val nv) /\
    snd (fold_left (view_step s) chs (d, acc)) = acc ++ pre ++ change_lines k (v_val nv) (v_ver nv) /\
    last (snd (fold_left (view_step s) chs (d, acc))) "" =
      "changed-version " +++ k +++ " " +++ Z_to_str (v_ver nv) +++ " " +++ v_val nv +++ nlS.
Proof.
  intros H Hne Hm d'.
  destruct (final_view k s d chs acc H Hne) as (nv & earlier & E & Hg & Hl & _).
  fold d' in E, Hg, Hl.
  destruct (nsubs d k s) as [|m] eqn:Em; [lia|].
  assert (Esnd : snd (fold_left (view_step s) chs (d, acc)) =
                 acc ++ (render k (S m) earlier ++ concat (repeat (change_lines k (v_val nv) (v_ver nv)) m))
                     ++ change_lines k (v_val nv) (v_ver nv)).
  { rewrite E. cbn [snd]. f_equal. rewrite render_app, <- app_assoc. f_equal.
    unfold render. cbn [map concat fst snd repeat]. rewrite app_nil_r.
    apply concat_repeat_comm. }
  exists nv, (render k (S m) earlier ++ concat (repeat (change_lines k (v_val nv) (v_ver nv)) m)).
  repeat split; auto.
  rewrite Esnd, !app_assoc. unfold change_lines.
  match goal with |- last (?x ++ [?a; ?b]) _ = _ => change (x ++ [a; b]) with (x ++ [a] ++ [b]) end.
  now rewrite !app_assoc, last_last.
Qed.

(* every "changed-version" notification received during the history carries a version
   not above the current one, and only notifications of the last write reach it *)
Corollary final_view_highest k s d chs acc :
  hist_ok k d chs -> chs <> [] ->
  exists nv notes,
    snd (fold_left (view_step s) chs (d, acc)) = acc ++ render k (nsubs d k s) notes /\
    get_value (fold_left set_db chs d) k = Some nv /\
    Forall (fun p => snd p <= v_ver nv) notes /\
    exists earlier, notes = earlier ++ [(v_val nv, v_ver nv)] /\
                    Forall (fun p => snd p < v_ver nv) earlier.
Proof.
  intros H Hne.
  destruct (final_view k s d chs acc H Hne) as (nv & earlier & E & Hg & _ & _ & _ & _ & Hlt & _).
  exists nv, (earlier ++ [(v_val nv, v_ver nv)]). rewrite E. repeat split; auto.
  - apply Forall_app. split.
    + eapply Forall_impl; [|exact Hlt]. cbn beta. intros p Hp. lia.
    + constructor; [cbn [snd]; lia | constructor].
  - exists earlier. auto.
Qed.

(* ------------------------------------------------------------------ *)
(* 7. checked examples                                                  *)
(* ------------------------------------------------------------------ *)

Definition ex_run (n : node) (l : list (nat * str)) : node :=
  fold_left (fun n p => fst (step n (fst p) (snd p))) l n.

(* two sessions on database "a" of a primary; session 1 watches k twice *)
Definition ex_n0 : node :=
  let n := init_node "u" "p" "a" 1 Primary 0 in
  let '(n, _) := connect n in
  let '(n, _) := connect n in
  ex_run n [(0%nat, "auth u p"); (0%nat, "create-db a ta"); (0%nat, "create-db b tb");
            (0%nat, "use-db a ta"); (1%nat, "use-db a ta");
            (1%nat, "watch k"); (1%nat, "watch k")].

(* accepted writes are delivered once per subscription; the refused one (version 0 < 1)
   delivers nothing; the last line carries the current value and version *)
Example ex_deliveries :
  let n := ex_run ex_n0 [(0%nat, "set k v1"); (0%nat, "set-safe k 0 v2"); (0%nat, "set-safe k 0 v0");
                         (0%nat, "set-safe k 7 v3")] in
  s_inbox (get_sess n 1) =
    concat (repeat (change_lines "k" "v1" 0) 2) ++ concat (repeat (change_lines "k" "v2" 1) 2) ++
    concat (repeat (change_lines "k" "v3" 8) 2) /\
  option_map (fun v => (v_val v, v_ver v)) (match get_db n "a" with Some d => get_value d "k" | None => None end)
    = Some ("v3", 8).
Proof. vm_compute. split; reflexivity. Qed.

(* FINDING (what [disconnect_subs] leaves open, third clause): unwatch-all on disconnect
   only covers the database selected at that moment.  A session that watched keys of
   "a", switched to "b" and then disconnected keeps its subscriptions on "a"; later
   writes of a/k are still queued for the departed session. *)
Example stale_subscription_after_db_switch :
  let n := disconnect (ex_run ex_n0 [(1%nat, "use-db b tb")]) 1 in
  nsubs_n n "a" "k" 1 = 2%nat /\
  s_inbox (get_sess n 1) = [] /\
  s_inbox (get_sess (ex_run n [(0%nat, "set k v9")]) 1) = concat (repeat (change_lines "k" "v9" 0) 2).
Proof. vm_compute. repeat split; reflexivity. Qed.
