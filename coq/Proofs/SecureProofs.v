(* SecureProofs.v -- C08: secure ($$) keys are invisible and immutable to
   non-administrators.  Two-run noninterference by the projection ("erasure")
   technique: a non-administrator's step commutes with every projection of the
   state that forgets (part of) the content of secret keys. *)
From NunDB Require Import Model.Base Model.Pending Model.Parse Model.Node Proofs.AssocLemmas.
Local Open Scope Z_scope.

(* keys whose CONTENT must not influence a non-administrator *)
Definition secret_key (k : str) : bool :=
  starts_with k "$$" && negb (String.eqb k "$$token") &&
  negb (starts_with k "$$user_") && negb (starts_with k "$$permission_$").

(* two values equal except possibly for the text *)
Definition same_meta (a b : value) : Prop :=
  v_ver a = v_ver b /\ v_opp a = v_opp b /\ v_st a = v_st b /\ v_vaddr a = v_vaddr b /\ v_kaddr a = v_kaddr b.

Definition low_eq_map (m1 m2 : list (str * value)) : Prop :=
  Forall2 (fun a b => fst a = fst b /\
                      (if secret_key (fst a) then same_meta (snd a) (snd b) else snd a = snd b)) m1 m2.

Definition low_eq_db (d1 d2 : db) : Prop :=
  low_eq_map (d_map d1) (d_map d2) /\ d_watch d1 = d_watch d2 /\ d_conn d1 = d_conn d2 /\
  d_id d1 = d_id d2 /\ d_strat d1 = d_strat d2.

Definition low_eq (n1 n2 : node) : Prop :=
  Forall2 (fun a b => fst a = fst b /\ low_eq_db (snd a) (snd b)) (n_dbs n1) (n_dbs n2) /\
  n_sess n1 = n_sess n2 /\ n_role n1 = n_role n2 /\ n_clock n1 = n_clock n2 /\
  n_user n1 = n_user n2 /\ n_pwd n1 = n_pwd n2 /\ n_addr n1 = n_addr n2 /\ n_pid n1 = n_pid n2 /\
  n_repl n1 = n_repl n2 /\ n_sup n1 = n_sup n2 /\ n_snap n1 = n_snap n2 /\
  n_pending n1 = n_pending n2 /\ n_idmap n1 = n_idmap n2 /\ n_members n1 = n_members n2.

(* ---- small string facts ------------------------------------------------ *)
Lemma nonsys_nonsecret k : starts_with k "$$" = false -> secret_key k = false.
Proof. intros H. unfold secret_key. now rewrite H. Qed.

Lemma token_nonsecret : secret_key "$$token" = false.
Proof. reflexivity. Qed.

Lemma user_nonsecret u : secret_key ("$$user_" +++ u) = false.
Proof. unfold secret_key. cbn. reflexivity. Qed.

Lemma permission_nonsecret u : secret_key ("$$permission_$" +++ u) = false.
Proof. unfold secret_key. cbn. reflexivity. Qed.

Lemma str_rev_acc_app a b acc : str_rev_acc (a +++ b) acc = str_rev_acc b (str_rev_acc a acc).
Proof. revert acc. induction a as [|x a IH]; intros acc; cbn; auto. Qed.

Lemma ends_with_star a : ends_with (a +++ "*") "*" = true.
Proof.
  unfold ends_with, str_rev. rewrite str_rev_acc_app. cbn. reflexivity.
Qed.

Lemma sw_cons_inv k a p : starts_with k (String a p) = true ->
  exists k', k = String a k' /\ starts_with k' p = true.
Proof.
  unfold starts_with. destruct k as [|b k]; cbn [str_eqb_prefix]; try discriminate.
  intros H. apply Bool.andb_true_iff in H. destruct H as [H1 H2].
  apply Ascii.eqb_eq in H1. subst b. eauto.
Qed.

(* patterns used for conflict records select only keys that start with "$c" *)
Lemma conflicts_pattern_nonsys k x :
  pattern_match k ("$conflicts_" +++ x +++ "*") = true -> starts_with k "$$" = false.
Proof.
  unfold pattern_match.
  replace ("$conflicts_" +++ x +++ "*") with (("$conflicts_" +++ x) +++ "*") by reflexivity.
  rewrite ends_with_star.
  assert (E : exists r, remove_char "*" (("$conflicts_" +++ x) +++ "*") = String "$" (String "c" r))
    by (eexists; reflexivity).
  destruct E as [r ->]. intros H.
  apply sw_cons_inv in H. destruct H as [k1 [-> H]].
  apply sw_cons_inv in H. destruct H as [k2 [-> H]]. reflexivity.
Qed.

Lemma app_assoc_str a b c : (a +++ b) +++ c = a +++ b +++ c.
Proof. induction a; cbn; congruence. Qed.

Lemma In_insert_sorted x y l : In x (insert_sorted y l) -> x = y \/ In x l.
Proof.
  induction l as [|z l IH]; cbn.
  - intros [H|[]]; auto.
  - destruct (str_leb y z); cbn.
    + intros [H|H]; auto.
    + intros [H|H]; auto. destruct (IH H); auto.
Qed.

Lemma In_sort_strs x l : In x (sort_strs l) -> In x l.
Proof.
  induction l as [|y l IH]; cbn; auto.
  intros H. apply In_insert_sorted in H. destruct H; auto.
Qed.

Lemma conflicts_pat_nonsys key k :
  pattern_match k (if String.eqb key "" then "$conflicts_*" else "$conflicts_" +++ key +++ "_*") = true ->
  starts_with k "$$" = false.
Proof.
  destruct (String.eqb key "").
  - apply (conflicts_pattern_nonsys _ "").
  - intros H. apply (conflicts_pattern_nonsys _ (key +++ "_")).
    replace ("$conflicts_" +++ (key +++ "_") +++ "*") with ("$conflicts_" +++ key +++ "_*"); auto.
    now rewrite app_assoc_str.
Qed.

(* the prefix test of list_conflicts_keys selects only keys that start with "$c" *)
Lemma conflicts_prefix_nonsys key k :
  starts_with k (if String.eqb key "" then "$conflicts_" else "$conflicts_" +++ key +++ "_") = true ->
  starts_with k "$$" = false.
Proof.
  destruct (String.eqb key ""); intros H.
  - change "$conflicts_" with (String "$" (String "c" "onflicts_")) in H.
    apply sw_cons_inv in H. destruct H as [k1 [-> H]].
    apply sw_cons_inv in H. destruct H as [k2 [-> H]]. reflexivity.
  - change ("$conflicts_" +++ key +++ "_") with (String "$" (String "c" ("onflicts_" +++ key +++ "_"))) in H.
    apply sw_cons_inv in H. destruct H as [k1 [-> H]].
    apply sw_cons_inv in H. destruct H as [k2 [-> H]]. reflexivity.
Qed.

Lemma list_conflicts_keys_nonsys d key k :
  In k (list_conflicts_keys d key) -> starts_with k "$$" = false.
Proof.
  unfold list_conflicts_keys. intros H. apply In_sort_strs in H.
  apply in_map_iff in H. destruct H as [kv [<- H]]. apply filter_In in H. destruct H as [_ H].
  apply Bool.andb_true_iff in H. destruct H as [_ H].
  eapply conflicts_prefix_nonsys; eauto.
Qed.

Lemma conflict_key_nonsys ch : starts_with (conflict_key ch) "$$" = false.
Proof. reflexivity. Qed.

Lemma existsb_ext_in {A} (f g : A -> bool) l :
  (forall x, In x l -> f x = g x) -> existsb f l = existsb g l.
Proof.
  induction l as [|a l IH]; cbn; auto. intros H. rewrite (H a) by auto. rewrite IH; auto.
Qed.

Definition is_rp (rq : request) : bool := match rq with RqReplicateRequest _ _ => true | _ => false end.

Lemma step_parse n c line rq :
  parse_request (trim_char nl line) = POk rq -> is_rp rq = false ->
  step n c line = let '(n1, r) := handle n c rq in replicate_request n1 rq (s_db (get_sess n c)) r.
Proof.
  intros H Hr. unfold step. generalize (String.length line). intros k. cbn [process].
  rewrite H. destruct rq; try reflexivity. discriminate Hr.
Qed.

(* ======================================================================== *)
(* A step of a non-administrator commutes with every projection of the state
   that leaves non-secret keys alone.                                         *)
(* ======================================================================== *)
Section Proj.
Variable pm : list (str * value) -> list (str * value).
Variable pr : list str -> list str.
Hypothesis pm_get : forall k m, secret_key k = false ->
  assoc_get String.eqb k (pm m) = assoc_get String.eqb k m.
Hypothesis pm_set : forall k v m, secret_key k = false ->
  assoc_set String.eqb k v (pm m) = pm (assoc_set String.eqb k v m).
Hypothesis pm_del : forall k m, secret_key k = false ->
  assoc_del String.eqb k (pm m) = pm (assoc_del String.eqb k m).
Hypothesis pm_filter : forall (Q : str * value -> bool) m,
  (forall kv, Q kv = true -> secret_key (fst kv) = false) -> filter Q (pm m) = filter Q m.
Hypothesis pr_snoc : forall l x, pr (l ++ [x]) = pr l ++ [x].

Definition pd (d : db) : db := mkDb (pm (d_map d)) (d_watch d) (d_conn d) (d_id d) (d_strat d).
Definition pn (n : node) : node :=
  mkNode (map (fun p => (fst p, pd (snd p))) (n_dbs n)) (n_sess n) (n_role n) (n_clock n)
         (n_user n) (n_pwd n) (n_addr n) (n_pid n) (pr (n_repl n)) (n_sup n) (n_snap n)
         (n_pending n) (n_idmap n) (n_members n).
Definition pd3 (x : db * resp * list (nat * str)) : db * resp * list (nat * str) :=
  let '(d, r, m) := x in (pd d, r, m).
Definition pn2 (x : node * resp) : node * resp := (pn (fst x), snd x).

(* ---- databases --------------------------------------------------------- *)
Lemma get_value_pd d k : secret_key k = false -> get_value (pd d) k = get_value d k.
Proof. intros H. unfold get_value, pd. cbn [d_map]. auto. Qed.

Lemma put_value_pd d k v : secret_key k = false -> put_value (pd d) k v = pd (put_value d k v).
Proof.
  intros H. unfold put_value, db_set_map, pd. cbn [d_map d_watch d_conn d_id d_strat].
  now rewrite pm_set.
Qed.

Lemma watchers_of_pd d k : watchers_of (pd d) k = watchers_of d k.
Proof. reflexivity. Qed.

Lemma notify_msgs_pd d k v ver : notify_msgs (pd d) k v ver = notify_msgs d k v ver.
Proof. reflexivity. Qed.

Lemma set_value_pd d ch : secret_key (c_key ch) = false -> set_value (pd d) ch = pd3 (set_value d ch).
Proof.
  intros H. unfold set_value. rewrite get_value_pd by auto.
  destruct (get_value d (c_key ch)) as [old|]; cbv zeta.
  - destruct (_ && _); cbn [pd3]; auto.
    rewrite put_value_pd by auto. now rewrite notify_msgs_pd.
  - cbn [pd3]. rewrite put_value_pd by auto. now rewrite notify_msgs_pd.
Qed.

Lemma remove_value_pd d k : secret_key k = false -> remove_value (pd d) k = pd3 (remove_value d k).
Proof.
  intros H. unfold remove_value. destruct (String.eqb k "$$token"); auto.
  rewrite get_value_pd by auto. cbv zeta. cbn [pd3]. rewrite watchers_of_pd.
  destruct (get_value d k) as [v|]; auto.
  destruct (v_st v); try (now rewrite put_value_pd by auto).
  unfold db_set_map, pd. cbn [d_map d_watch d_conn d_id d_strat]. now rewrite pm_del.
Qed.

Lemma inc_value_pd d k inc opp : secret_key k = false ->
  inc_value (pd d) k inc opp = pd3 (inc_value d k inc opp).
Proof.
  intros H. unfold inc_value. rewrite get_value_pd by auto. cbv zeta.
  destruct (parse_i32 _); auto.
  destruct (_ && _); auto. cbn [pd3]. rewrite put_value_pd by auto. now rewrite notify_msgs_pd.
Qed.

Lemma list_keys_pd_nonsys d p : list_keys (pd d) p false = list_keys d p false.
Proof.
  unfold list_keys. cbn [pd d_map]. rewrite pm_filter; auto.
  intros kv H. apply nonsys_nonsecret.
  apply Bool.andb_true_iff in H. destruct H as [H _].
  apply Bool.andb_true_iff in H. destruct H as [H _]. cbn in H.
  now apply Bool.negb_true_iff in H.
Qed.

Lemma list_conflicts_keys_pd d key : list_conflicts_keys (pd d) key = list_conflicts_keys d key.
Proof.
  unfold list_conflicts_keys. cbn [pd d_map]. rewrite pm_filter; auto.
  intros kv H. apply nonsys_nonsecret.
  apply Bool.andb_true_iff in H. destruct H as [_ H].
  eapply conflicts_prefix_nonsys; eauto.
Qed.

Lemma has_pending_conflict_pd d key : has_pending_conflict (pd d) key = has_pending_conflict d key.
Proof.
  unfold has_pending_conflict. rewrite list_conflicts_keys_pd.
  apply existsb_ext_in. intros k Hk. rewrite get_value_pd; auto.
  apply nonsys_nonsecret. eapply list_conflicts_keys_nonsys; eauto.
Qed.

Lemma watch_key_pd d k c : watch_key (pd d) k c = pd (watch_key d k c).
Proof. reflexivity. Qed.

Lemma unwatch_key_pd d k c : unwatch_key (pd d) k c = pd (unwatch_key d k c).
Proof. reflexivity. Qed.

Lemma unwatch_all_pd d c : unwatch_all (pd d) c = pd (unwatch_all d c).
Proof.
  unfold unwatch_all. change (d_watch (pd d)) with (d_watch d).
  generalize (map fst (d_watch d)). intros l. revert d.
  induction l as [|k l IH]; intros d; cbn [fold_left]; auto.
  rewrite unwatch_key_pd. apply IH.
Qed.

Lemma get_key_value_new_pd d k : secret_key k = false ->
  get_key_value_new (pd d) k = get_key_value_new d k.
Proof. intros H. unfold get_key_value_new. now rewrite get_value_pd. Qed.

(* ---- nodes -------------------------------------------------------------- *)
Lemma get_db_pn n x : get_db (pn n) x = option_map pd (get_db n x).
Proof.
  unfold get_db, pn. cbn [n_dbs].
  induction (n_dbs n) as [|[k d] l IH]; cbn [map assoc_get fst snd option_map]; auto.
  destruct (String.eqb x k); auto.
Qed.

Lemma put_db_pn n x d : put_db (pn n) x (pd d) = pn (put_db n x d).
Proof.
  unfold put_db, n_set_dbs, pn.
  cbn [n_dbs n_sess n_role n_clock n_user n_pwd n_addr n_pid n_repl n_sup n_snap n_pending n_idmap n_members].
  f_equal.
  induction (n_dbs n) as [|[k d0] l IH]; cbn [map assoc_set fst snd]; auto.
  destruct (String.eqb x k); cbn [map fst snd]; auto. now rewrite IH.
Qed.

Lemma get_sess_pn n c : get_sess (pn n) c = get_sess n c.
Proof. reflexivity. Qed.
Lemma put_sess_pn n c s : put_sess (pn n) c s = pn (put_sess n c s).
Proof. reflexivity. Qed.
Lemma send_pn n c m : send (pn n) c m = pn (send n c m).
Proof. reflexivity. Qed.
Lemma sends_pn n l : sends (pn n) l = pn (sends n l).
Proof.
  unfold sends. revert n. induction l as [|[c m] l IH]; intros n; cbn [fold_left fst snd]; auto.
  rewrite send_pn. apply IH.
Qed.
Lemma tick_pn n : tick (pn n) = (pn (fst (tick n)), snd (tick n)).
Proof. reflexivity. Qed.
Lemma is_primary_pn n : is_primary (pn n) = is_primary n.
Proof. reflexivity. Qed.
Lemma is_eligible_pn n : is_eligible (pn n) = is_eligible n.
Proof. reflexivity. Qed.
Lemma send_to_primary_pn n m : send_to_primary (pn n) m = pn (send_to_primary n m).
Proof. reflexivity. Qed.
Lemma replicate_web_pn n m : replicate_web (pn n) m = pn (replicate_web n m).
Proof.
  unfold replicate_web, tick, n_set_repl, n_set_clock, pn.
  cbn [n_dbs n_sess n_role n_clock n_user n_pwd n_addr n_pid n_repl n_sup n_snap n_pending n_idmap n_members].
  now rewrite pr_snoc.
Qed.
Lemma replicate_change_pn n dbn ch : replicate_change (pn n) dbn ch = pn (replicate_change n dbn ch).
Proof.
  unfold replicate_change. rewrite is_primary_pn, is_eligible_pn. cbv zeta.
  destruct (_ || _); [apply replicate_web_pn | apply send_to_primary_pn].
Qed.
Lemma has_db_pn n x : has_db (pn n) x = has_db n x.
Proof. unfold has_db. rewrite get_db_pn. now destruct (get_db n x). Qed.

Lemma set_value_verr d ch d1 key ov v old ch0 st msgs :
  set_value d ch = (d1, RVersionError key ov v old ch0 st, msgs) -> key = c_key ch /\ ch0 = ch.
Proof.
  unfold set_value. destruct (get_value d (c_key ch)); cbv zeta.
  - destruct (_ && _); intros [= ]; subst; auto.
  - intros [= ].
Qed.

Lemma apply_change_pn n dbn ch : secret_key (c_key ch) = false ->
  apply_change (pn n) dbn ch = pn2 (apply_change n dbn ch).
Proof.
  intros H. unfold apply_change. rewrite get_db_pn.
  destruct (get_db n dbn) as [d|] eqn:Ed; cbn [option_map]; [|reflexivity].
  rewrite set_value_pd by auto.
  destruct (set_value d ch) as [[d1 r] msgs] eqn:Es. cbn [pd3].
  destruct r; try (unfold pn2; cbn [fst snd]; rewrite <- sends_pn, <- put_db_pn; reflexivity).
  apply set_value_verr in Es. destruct Es as [-> ->].
  change (d_strat (pd d)) with (d_strat d). destruct (d_strat d).
  - reflexivity.
  - destruct (N.ltb _ _); [|reflexivity].
    rewrite tick_pn. destruct (tick n) as [n1 id]. cbn [fst snd].
    rewrite set_value_pd by auto.
    destruct (set_value d _) as [[d2 r2] msgs2]. cbn [pd3].
    unfold pn2; cbn [fst snd]; rewrite <- sends_pn, <- put_db_pn; reflexivity.
  - change (has_arbiter (pd d)) with (has_arbiter d).
    destruct (negb (has_arbiter d)); [reflexivity|].
    rewrite put_value_pd by auto. cbv zeta.
    rewrite list_conflicts_keys_pd.
    match goal with |- context [match ?X with Some _ => _ | None => _ end] =>
      destruct X as [[ook cver]|] end.
    + change (arbiter_msgs (pd ?d) ?m) with (arbiter_msgs d m).
      rewrite put_db_pn, sends_pn, tick_pn.
      match goal with |- context [tick ?X] => destruct (tick X) as [n2 id] end. cbn [fst snd].
      rewrite set_value_pd by (apply nonsys_nonsecret; reflexivity).
      match goal with |- context [set_value ?X ?Y] => destruct (set_value X Y) as [[d3 r3] msgs3] end.
      cbn [pd3]. rewrite put_db_pn, sends_pn, replicate_change_pn. reflexivity.
    + unfold pn2; cbn [fst snd]. now rewrite put_db_pn.
Qed.

Lemma set_key_value_pn n dbn key value ver : secret_key key = false ->
  set_key_value (pn n) dbn key value ver = pn2 (set_key_value n dbn key value ver).
Proof.
  intros H. unfold set_key_value. rewrite tick_pn. destruct (tick n) as [n1 id]. cbn [fst snd].
  now apply apply_change_pn.
Qed.

Lemma set_connection_counter_pn n dbn :
  set_connection_counter (pn n) dbn = pn (set_connection_counter n dbn).
Proof.
  unfold set_connection_counter. rewrite get_db_pn.
  destruct (get_db n dbn) as [d|]; cbn [option_map]; auto.
  rewrite set_key_value_pn by reflexivity. reflexivity.
Qed.

Lemma resolve_conflict_pn n dbn ch : secret_key (c_key ch) = false ->
  resolve_conflict (pn n) dbn ch = pn2 (resolve_conflict n dbn ch).
Proof.
  intros H. unfold resolve_conflict. rewrite get_db_pn.
  destruct (get_db n dbn) as [d|]; cbn [option_map]; [|reflexivity].
  rewrite tick_pn. destruct (tick n) as [n1 id]. cbn [fst snd]. cbv zeta.
  rewrite set_value_pd by (apply nonsys_nonsecret; reflexivity).
  match goal with |- context [set_value d ?Y] => destruct (set_value d Y) as [[d1 r1] msgs1] end.
  cbn [pd3]. rewrite has_pending_conflict_pd.
  rewrite put_db_pn, sends_pn, replicate_change_pn.
  rewrite set_value_pd by (destruct (has_pending_conflict d1 (c_key ch)); exact H).
  match goal with |- context [set_value d1 ?Y] => destruct (set_value d1 Y) as [[d2 r2] msgs2] end.
  cbn [pd3]. rewrite put_db_pn, sends_pn. reflexivity.
Qed.

Lemma client_left_pn n c : client_left (pn n) c = pn (client_left n c).
Proof.
  unfold client_left. rewrite get_sess_pn. destruct (s_db (get_sess n c)) as [dbn|]; auto.
  rewrite get_db_pn. destruct (get_db n dbn) as [d|]; cbn [option_map]; auto.
  change (db_set_conn (pd d) (d_conn (pd d) - 1)) with (pd (db_set_conn d (d_conn d - 1))).
  rewrite put_db_pn. apply set_connection_counter_pn.
Qed.

Lemma register_arbiter_fold_pn dbn l : Forall (fun k => starts_with k "$$" = false) l ->
  forall n,
  fold_left (fun n k =>
          match get_db n dbn with
          | None => n
          | Some dd =>
              match get_value dd k with
              | None => n
              | Some v =>
                  if starts_with (v_val v) "resolved" then
                    let '(dd', _, msgs) := remove_value dd k in sends (put_db n dbn dd') msgs
                  else sends n (arbiter_msgs dd (v_val v))
              end
          end) l (pn n) =
  pn (fold_left (fun n k =>
          match get_db n dbn with
          | None => n
          | Some dd =>
              match get_value dd k with
              | None => n
              | Some v =>
                  if starts_with (v_val v) "resolved" then
                    let '(dd', _, msgs) := remove_value dd k in sends (put_db n dbn dd') msgs
                  else sends n (arbiter_msgs dd (v_val v))
              end
          end) l n).
Proof.
  induction 1 as [|k l Hk Hl IH]; intros n; cbn [fold_left]; auto.
  rewrite <- IH. f_equal.
  rewrite get_db_pn. destruct (get_db n dbn) as [dd|]; cbn [option_map]; auto.
  rewrite get_value_pd by (now apply nonsys_nonsecret).
  destruct (get_value dd k) as [v|]; auto.
  destruct (starts_with (v_val v) "resolved").
  - rewrite remove_value_pd by (now apply nonsys_nonsecret).
    destruct (remove_value dd k) as [[dd' r] msgs]. cbn [pd3].
    now rewrite put_db_pn, sends_pn.
  - change (arbiter_msgs (pd dd) (v_val v)) with (arbiter_msgs dd (v_val v)). apply sends_pn.
Qed.

Lemma register_arbiter_pn n dbn c : register_arbiter (pn n) dbn c = pn (register_arbiter n dbn c).
Proof.
  unfold register_arbiter. rewrite get_db_pn.
  destruct (get_db n dbn) as [d|]; cbn [option_map]; auto. cbv zeta.
  rewrite watch_key_pd, list_conflicts_keys_pd, put_db_pn.
  apply register_arbiter_fold_pn.
  apply Forall_forall. intros k Hk. eapply list_conflicts_keys_nonsys; eauto.
Qed.

(* ---- guards -------------------------------------------------------------- *)
Definition pg (g : guard) : guard :=
  match g with GGo dbn d => GGo dbn (pd d) | GStop n r => GStop (pn n) r end.

Lemma has_permission_pn n c key d req :
  has_permission (pn n) c key (pd d) req = has_permission n c key d req.
Proof.
  unfold has_permission. rewrite get_sess_pn. destruct (starts_with key "$$"); auto.
  cbv zeta. now rewrite get_value_pd by apply permission_nonsecret.
Qed.

Lemma guard_db_name_pn n c dbn key req :
  guard_db_name (pn n) c dbn key req = pg (guard_db_name n c dbn key req).
Proof.
  unfold guard_db_name. rewrite get_db_pn.
  destruct (get_db n dbn) as [d|]; cbn [option_map]; [|reflexivity].
  destruct key as [k|]; [|reflexivity].
  rewrite has_permission_pn. now destruct (has_permission n c k d req).
Qed.

Lemma guard_safe_pn n c key req : guard_safe (pn n) c key req = pg (guard_safe n c key req).
Proof.
  unfold guard_safe. rewrite get_sess_pn.
  destruct (_ && _); [reflexivity|].
  destruct (s_db (get_sess n c)); [apply guard_db_name_pn | reflexivity].
Qed.

Lemma guard_db_pn n c : guard_db (pn n) c = pg (guard_db n c).
Proof.
  unfold guard_db. rewrite get_sess_pn.
  destruct (s_db (get_sess n c)); [apply guard_db_name_pn | reflexivity].
Qed.

Lemma guard_safe_go n c key req dbn d :
  s_auth (get_sess n c) = false -> guard_safe n c key req = GGo dbn d -> starts_with key "$$" = false.
Proof.
  intros Ha. unfold guard_safe. rewrite Ha. destruct (starts_with key "$$"); auto. discriminate.
Qed.

(* ---- the handler ---------------------------------------------------------- *)
Ltac guard_safe_case Ha G :=
  rewrite guard_safe_pn;
  match goal with |- context [guard_safe ?n ?c ?k ?r] =>
    destruct (guard_safe n c k r) as [dbn d|n' r'] eqn:G; cbn [pg]; [|reflexivity];
    apply (guard_safe_go _ _ _ _ _ _ Ha) in G; pose proof (nonsys_nonsecret _ G)
  end.

Lemma handle_pn n c rq : s_auth (get_sess n c) = false -> handle (pn n) c rq = pn2 (handle n c rq).
Proof.
  intros Ha.
  destruct rq; unfold handle; cbv beta iota zeta; rewrite ?get_sess_pn, ?Ha; cbn [negb]; try reflexivity.
  - (* set-permissions *)
    unfold guard_safe. rewrite get_sess_pn, Ha. reflexivity.
  - (* get *)
    guard_safe_case Ha G. rewrite get_key_value_new_pd by auto.
    destruct (get_key_value_new d key). now rewrite send_pn.
  - (* get-safe *)
    guard_safe_case Ha G. rewrite get_key_value_new_pd by auto.
    destruct (get_key_value_new d key). now rewrite send_pn.
  - (* remove *)
    guard_safe_case Ha G. rewrite remove_value_pd by auto.
    destruct (remove_value d key) as [[d' r] msgs]. cbn [pd3]. rewrite put_db_pn, sends_pn.
    destruct r; try reflexivity. rewrite is_primary_pn.
    destruct (is_primary (sends (put_db n dbn d') msgs)); reflexivity.
  - (* set *)
    guard_safe_case Ha G. rewrite set_key_value_pn by auto.
    destruct (set_key_value n dbn key value version) as [n1 r]. unfold pn2; cbn [fst snd].
    rewrite is_primary_pn. destruct (is_primary n1); reflexivity.
  - (* increment *)
    guard_safe_case Ha G. rewrite is_primary_pn. destruct (is_primary n).
    + rewrite tick_pn. destruct (tick n) as [n1 id]. cbn [fst snd].
      rewrite inc_value_pd by auto. destruct (inc_value d key inc id) as [[d' r] msgs]. cbn [pd3].
      now rewrite put_db_pn, sends_pn.
    + now rewrite send_to_primary_pn.
  - (* watch *)
    guard_safe_case Ha G. now rewrite watch_key_pd, put_db_pn.
  - (* unwatch *)
    rewrite guard_db_pn. destruct (guard_db n c); cbn [pg]; auto.
    now rewrite unwatch_key_pd, put_db_pn.
  - (* unwatch-all *)
    rewrite guard_db_pn. destruct (guard_db n c); cbn [pg]; auto.
    now rewrite unwatch_all_pd, put_db_pn.
  - (* create-user *)
    unfold guard_safe. rewrite get_sess_pn, Ha. reflexivity.
  - (* use-db *)
    rewrite get_db_pn. destruct (get_db n name) as [d|]; cbn [option_map]; [|reflexivity].
    rewrite get_value_pd by (destruct user_name; [apply user_nonsecret | apply token_nonsecret]).
    match goal with |- context [if ?X then _ else _] => destruct X end; [|reflexivity].
    unfold release_previous. rewrite client_left_pn, get_sess_pn, put_sess_pn, get_db_pn.
    match goal with |- context [get_db ?X name] => destruct (get_db X name) as [d1|] end;
      cbn [option_map]; [|reflexivity].
    change (db_set_conn (pd d1) (d_conn (pd d1) + 1)) with (pd (db_set_conn d1 (d_conn d1 + 1))).
    now rewrite put_db_pn, set_connection_counter_pn.
  - (* keys *)
    rewrite guard_db_pn. destruct (guard_db n c); cbn [pg]; auto.
    now rewrite list_keys_pd_nonsys, send_pn.
  - (* arbiter *)
    guard_safe_case Ha G. now rewrite register_arbiter_pn.
  - (* resolve *)
    guard_safe_case Ha G. rewrite is_primary_pn. destruct (is_primary n).
    + now rewrite resolve_conflict_pn by auto.
    + now rewrite send_to_primary_pn.
Qed.

Lemma replicate_request_pn n rq seldb r :
  replicate_request (pn n) rq seldb r = pn2 (replicate_request n rq seldb r).
Proof.
  unfold replicate_request.
  destruct r; try reflexivity;
    (destruct seldb as [nm|]; rewrite ?has_db_pn;
     [destruct (negb (has_db n nm)); [reflexivity|]|];
     cbv beta iota zeta; destruct rq; rewrite ?replicate_web_pn; reflexivity).
Qed.

Lemma process_pn fuel n c line : s_auth (get_sess n c) = false ->
  process fuel (pn n) c line = pn2 (process fuel n c line).
Proof.
  intros Ha. destruct fuel as [|k]; [reflexivity|]. cbn [process]. rewrite get_sess_pn.
  destruct (parse_request (trim_char nl line)) as [rq| |]; try reflexivity.
  cbv zeta.
  assert (E : match rq with
              | RqReplicateRequest inner opp_id =>
                  if negb (s_auth (get_sess n c)) then (pn n, not_auth)
                  else process k (send (pn n) c ("ack " +++ N_to_str opp_id +++ " " +++ n_addr (pn n) +++ " " +++ nlS)) c inner
              | _ => handle (pn n) c rq
              end =
              pn2 match rq with
              | RqReplicateRequest inner opp_id =>
                  if negb (s_auth (get_sess n c)) then (n, not_auth)
                  else process k (send n c ("ack " +++ N_to_str opp_id +++ " " +++ n_addr n +++ " " +++ nlS)) c inner
              | _ => handle n c rq
              end).
  { destruct rq; try (apply handle_pn; exact Ha). rewrite Ha. reflexivity. }
  rewrite E.
  match goal with |- context [pn2 ?X] => destruct X as [n1 r1] end.
  unfold pn2 at 1. cbn [fst snd]. apply replicate_request_pn.
Qed.

Theorem step_pn n c line : s_auth (get_sess n c) = false ->
  step (pn n) c line = pn2 (step n c line).
Proof. intros Ha. unfold step. now apply process_pn. Qed.

Lemma connect_pn n : connect (pn n) = (pn (fst (connect n)), snd (connect n)).
Proof. reflexivity. Qed.

(* disconnect commutes for every session, administrator or not *)
Lemma unwatch_all_step n c : fst (step n c "unwatch-all") = fst (handle n c RqUnWatchAll).
Proof.
  rewrite (step_parse n c "unwatch-all" RqUnWatchAll) by (vm_compute; reflexivity).
  destruct (handle n c RqUnWatchAll) as [n1 r]. cbn [fst].
  unfold replicate_request.
  destruct r; try reflexivity;
    (destruct (s_db (get_sess n c)) as [nm|]; [destruct (negb (has_db n1 nm))|]; reflexivity).
Qed.

Lemma handle_unwatch_all_pn n c : handle (pn n) c RqUnWatchAll = pn2 (handle n c RqUnWatchAll).
Proof.
  unfold handle. rewrite guard_db_pn. destruct (guard_db n c); cbn [pg]; auto.
  now rewrite unwatch_all_pd, put_db_pn.
Qed.

Lemma disconnect_pn n c : disconnect (pn n) c = pn (disconnect n c).
Proof.
  unfold disconnect. rewrite !unwatch_all_step, handle_unwatch_all_pn. cbn [pn2 fst].
  apply client_left_pn.
Qed.

End Proj.

(* ======================================================================== *)
(* Instance 1: masking the text of secret keys  (= low_eq of the statement)  *)
(* ======================================================================== *)
Definition mask_v (v : value) : value := mkV "" (v_ver v) (v_opp v) (v_st v) (v_vaddr v) (v_kaddr v).
Definition mask_kv (kv : str * value) : str * value :=
  if secret_key (fst kv) then (fst kv, mask_v (snd kv)) else kv.
Definition mask_map (m : list (str * value)) : list (str * value) := map mask_kv m.

Lemma fst_mask_kv kv : fst (mask_kv kv) = fst kv.
Proof. unfold mask_kv. now destruct (secret_key (fst kv)). Qed.

Lemma mask_kv_nonsecret kv : secret_key (fst kv) = false -> mask_kv kv = kv.
Proof. unfold mask_kv. now intros ->. Qed.

Lemma mask_get k m : secret_key k = false ->
  assoc_get String.eqb k (mask_map m) = assoc_get String.eqb k m.
Proof.
  intros Hk. induction m as [|[k' v] m IH]; cbn [mask_map map assoc_get]; auto.
  fold (mask_map m). destruct (mask_kv (k', v)) as [k2 v2] eqn:E.
  pose proof (fst_mask_kv (k', v)) as F. rewrite E in F. cbn [fst] in F. subst k2.
  destruct (String.eqb_spec k k') as [->|]; auto.
  rewrite mask_kv_nonsecret in E by auto. congruence.
Qed.

Lemma mask_set k v m : secret_key k = false ->
  assoc_set String.eqb k v (mask_map m) = mask_map (assoc_set String.eqb k v m).
Proof.
  intros Hk. induction m as [|[k' v'] m IH]; cbn [mask_map map assoc_set].
  - now rewrite mask_kv_nonsecret.
  - fold (mask_map m). destruct (mask_kv (k', v')) as [k2 v2] eqn:E.
    pose proof (fst_mask_kv (k', v')) as F. rewrite E in F. cbn [fst] in F. subst k2.
    destruct (String.eqb_spec k k') as [->|]; cbn [map].
    + now rewrite mask_kv_nonsecret.
    + fold (mask_map (assoc_set String.eqb k v m)). f_equal; [symmetry; exact E | exact IH].
Qed.

Lemma mask_del k m : secret_key k = false ->
  assoc_del String.eqb k (mask_map m) = mask_map (assoc_del String.eqb k m).
Proof.
  intros Hk. induction m as [|[k' v'] m IH]; cbn [mask_map map assoc_del]; auto.
  fold (mask_map m). destruct (mask_kv (k', v')) as [k2 v2] eqn:E.
  pose proof (fst_mask_kv (k', v')) as F. rewrite E in F. cbn [fst] in F. subst k2.
  destruct (String.eqb_spec k k') as [->|]; auto.
  cbn [map]. fold (mask_map (assoc_del String.eqb k m)). f_equal; [symmetry; exact E | exact IH].
Qed.

Lemma mask_filter (Q : str * value -> bool) m :
  (forall kv, Q kv = true -> secret_key (fst kv) = false) -> filter Q (mask_map m) = filter Q m.
Proof.
  intros HQ. induction m as [|kv m IH]; cbn [mask_map map filter]; auto.
  fold (mask_map m). rewrite IH.
  destruct (secret_key (fst kv)) eqn:E.
  - destruct (Q (mask_kv kv)) eqn:E1.
    { apply HQ in E1. rewrite fst_mask_kv in E1. congruence. }
    destruct (Q kv) eqn:E2; auto. apply HQ in E2. congruence.
  - now rewrite mask_kv_nonsecret.
Qed.

Lemma id_snoc (l : list str) x : id (l ++ [x]) = id l ++ [x].
Proof. reflexivity. Qed.

Definition mask_db := pd mask_map.
Definition mask_node := pn mask_map id.

Lemma Forall2_map_eq {A B} (R : A -> A -> Prop) (f : A -> B) :
  (forall a b, R a b <-> f a = f b) -> forall l1 l2, Forall2 R l1 l2 <-> map f l1 = map f l2.
Proof.
  intros H l1. induction l1 as [|a l1 IH]; intros [|b l2]; cbn; split; intros H1;
    try discriminate; try inversion H1; subst; auto.
  - f_equal; [now apply H | now apply IH].
  - constructor; [now apply H | now apply IH].
Qed.

Lemma mask_v_eq a b : same_meta a b <-> mask_v a = mask_v b.
Proof.
  destruct a, b. unfold same_meta, mask_v. cbn. split.
  - intros (-> & -> & -> & -> & ->). reflexivity.
  - intros [= -> -> -> -> ->]. auto.
Qed.

Lemma low_eq_map_mask m1 m2 : low_eq_map m1 m2 <-> mask_map m1 = mask_map m2.
Proof.
  apply Forall2_map_eq. intros [k1 v1] [k2 v2]. cbn [fst snd]. split.
  - intros [-> H]. unfold mask_kv. cbn [fst snd]. destruct (secret_key k2).
    + apply mask_v_eq in H. congruence.
    + congruence.
  - intros H. pose proof (f_equal fst H) as F. rewrite !fst_mask_kv in F. cbn [fst] in F. subst k2.
    split; auto. unfold mask_kv in H. cbn [fst snd] in H. destruct (secret_key k1).
    + apply mask_v_eq. congruence.
    + congruence.
Qed.

Lemma low_eq_db_mask d1 d2 : low_eq_db d1 d2 <-> mask_db d1 = mask_db d2.
Proof.
  destruct d1, d2. unfold low_eq_db, mask_db, pd. cbn. split.
  - intros (H & -> & -> & -> & ->). apply low_eq_map_mask in H. f_equal. exact H.
  - intros [= H -> -> -> ->]. apply low_eq_map_mask in H. auto.
Qed.

Lemma low_eq_mask n1 n2 : low_eq n1 n2 <-> mask_node n1 = mask_node n2.
Proof.
  assert (F : forall l1 l2 : list (str * db),
             Forall2 (fun a b => fst a = fst b /\ low_eq_db (snd a) (snd b)) l1 l2 <->
             map (fun p : str * db => (fst p, pd mask_map (snd p))) l1 =
             map (fun p : str * db => (fst p, pd mask_map (snd p))) l2).
  { apply Forall2_map_eq. intros [k1 d1] [k2 d2]. cbn [fst snd]. split.
    - intros [-> H]. apply low_eq_db_mask in H. unfold mask_db in H. f_equal. exact H.
    - intros E. pose proof (f_equal fst E) as E1. pose proof (f_equal snd E) as E2.
      cbn [fst snd] in E1, E2. split; auto. apply low_eq_db_mask. exact E2. }
  destruct n1, n2. unfold low_eq, mask_node, pn, id. cbn. split.
  - intros (H & -> & -> & -> & -> & -> & -> & -> & -> & -> & -> & -> & -> & ->).
    apply F in H. f_equal. exact H.
  - intros [= H -> -> -> -> -> -> -> -> -> -> -> -> ->]. apply F in H. repeat split; auto.
Qed.

Lemma low_eq_sess n1 n2 : low_eq n1 n2 -> n_sess n1 = n_sess n2.
Proof. intros H. apply H. Qed.

Lemma mask_step n c line : s_auth (get_sess n c) = false ->
  step (mask_node n) c line = (mask_node (fst (step n c line)), snd (step n c line)).
Proof. apply (step_pn mask_map id mask_get mask_set mask_del mask_filter id_snoc). Qed.

(* 1. unwinding *)
Theorem step_unwinding n1 n2 c line :
  low_eq n1 n2 -> s_auth (get_sess n1 c) = false ->
  let '(n1', r1) := step n1 c line in
  let '(n2', r2) := step n2 c line in
  r1 = r2 /\ low_eq n1' n2'.
Proof.
  intros L Ha.
  assert (Ha2 : s_auth (get_sess n2 c) = false).
  { unfold get_sess in *. now rewrite <- (low_eq_sess _ _ L). }
  apply low_eq_mask in L.
  pose proof (mask_step n1 c line Ha) as E1. pose proof (mask_step n2 c line Ha2) as E2.
  rewrite L, E2 in E1.
  destruct (step n1 c line) as [n1' r1]. destruct (step n2 c line) as [n2' r2].
  cbn [fst snd] in E1. pose proof (f_equal fst E1) as E3. pose proof (f_equal snd E1) as E4.
  cbn [fst snd] in E3, E4. split; auto. apply low_eq_mask. symmetry. exact E3.
Qed.

(* ======================================================================== *)
(* Instance 2: erasing secret keys altogether (a coarser relation, hence a   *)
(* stronger theorem: not even the existence, version or state of a secret    *)
(* key is visible to a non-administrator)                                    *)
(* ======================================================================== *)
Definition nonsecret_kv (kv : str * value) : bool := negb (secret_key (fst kv)).
Definition erase_map (m : list (str * value)) : list (str * value) := filter nonsecret_kv m.
Definition erase_node := pn erase_map id.
Definition vis_eq (n1 n2 : node) : Prop := erase_node n1 = erase_node n2.

Ltac nskv := repeat match goal with |- context [nonsecret_kv (?a, ?b)] =>
                change (nonsecret_kv (a, b)) with (negb (secret_key a)) end.

Lemma erase_get k m : secret_key k = false ->
  assoc_get String.eqb k (erase_map m) = assoc_get String.eqb k m.
Proof.
  intros Hk. unfold erase_map. induction m as [|[k' v] m IH]; cbn [filter assoc_get]; auto. nskv.
  destruct (String.eqb_spec k k') as [->|].
  - rewrite Hk. cbn [negb assoc_get]. now rewrite String.eqb_refl.
  - destruct (secret_key k'); cbn [negb assoc_get]; auto.
    destruct (String.eqb_spec k k'); [contradiction|auto].
Qed.

Lemma erase_set k v m : secret_key k = false ->
  assoc_set String.eqb k v (erase_map m) = erase_map (assoc_set String.eqb k v m).
Proof.
  intros Hk. unfold erase_map. induction m as [|[k' v'] m IH]; cbn [filter assoc_set]; nskv.
  - now rewrite Hk.
  - destruct (String.eqb_spec k k') as [->|].
    + rewrite Hk. cbn [negb assoc_set filter]. rewrite String.eqb_refl. nskv. now rewrite Hk.
    + cbn [filter]. nskv.
      destruct (secret_key k'); cbn [negb assoc_set]; auto.
      destruct (String.eqb_spec k k'); [contradiction|]. now rewrite IH.
Qed.

Lemma erase_del k m : secret_key k = false ->
  assoc_del String.eqb k (erase_map m) = erase_map (assoc_del String.eqb k m).
Proof.
  intros Hk. unfold erase_map. induction m as [|[k' v'] m IH]; cbn [filter assoc_del]; auto. nskv.
  destruct (String.eqb_spec k k') as [->|].
  - rewrite Hk. cbn [negb assoc_del]. now rewrite String.eqb_refl.
  - cbn [filter]. nskv.
    destruct (secret_key k'); cbn [negb assoc_del]; auto.
    destruct (String.eqb_spec k k'); [contradiction|]. now rewrite IH.
Qed.

Lemma erase_filter (Q : str * value -> bool) m :
  (forall kv, Q kv = true -> secret_key (fst kv) = false) -> filter Q (erase_map m) = filter Q m.
Proof.
  intros HQ. unfold erase_map. induction m as [|kv m IH]; cbn [filter]; auto.
  unfold nonsecret_kv at 1.
  destruct (secret_key (fst kv)) eqn:E; cbn [negb filter].
  - destruct (Q kv) eqn:E2; auto. apply HQ in E2. congruence.
  - now rewrite IH.
Qed.

Lemma erase_step n c line : s_auth (get_sess n c) = false ->
  step (erase_node n) c line = (erase_node (fst (step n c line)), snd (step n c line)).
Proof. apply (step_pn erase_map id erase_get erase_set erase_del erase_filter id_snoc). Qed.

Lemma erase_mask_map m : erase_map (mask_map m) = erase_map m.
Proof.
  apply mask_filter. intros kv H. unfold nonsecret_kv in H. now apply Bool.negb_true_iff in H.
Qed.

Lemma erase_mask_node n : erase_node (mask_node n) = erase_node n.
Proof.
  unfold erase_node, mask_node, pn. cbn. f_equal. rewrite map_map. apply map_ext.
  intros [k d]. cbn [fst snd]. unfold pd. cbn. now rewrite erase_mask_map.
Qed.

Lemma low_eq_vis_eq n1 n2 : low_eq n1 n2 -> vis_eq n1 n2.
Proof.
  intros H. apply low_eq_mask in H. unfold vis_eq.
  rewrite <- (erase_mask_node n1), <- (erase_mask_node n2). now rewrite H.
Qed.

Lemma vis_eq_sess n1 n2 : vis_eq n1 n2 -> n_sess n1 = n_sess n2.
Proof. intros H. apply (f_equal n_sess) in H. exact H. Qed.

Theorem step_unwinding_strong n1 n2 c line :
  vis_eq n1 n2 -> s_auth (get_sess n1 c) = false ->
  let '(n1', r1) := step n1 c line in
  let '(n2', r2) := step n2 c line in
  r1 = r2 /\ vis_eq n1' n2'.
Proof.
  intros L Ha.
  assert (Ha2 : s_auth (get_sess n2 c) = false).
  { unfold get_sess in *. now rewrite <- (vis_eq_sess _ _ L). }
  unfold vis_eq in *.
  pose proof (erase_step n1 c line Ha) as E1. pose proof (erase_step n2 c line Ha2) as E2.
  rewrite L, E2 in E1.
  destruct (step n1 c line) as [n1' r1]. destruct (step n2 c line) as [n2' r2].
  cbn [fst snd] in E1. pose proof (f_equal fst E1) as E3. pose proof (f_equal snd E1) as E4.
  cbn [fst snd] in E3, E4. split; auto.
Qed.

(* ======================================================================== *)
(* 2. A non-administrator changes no $$ key                                   *)
(* ======================================================================== *)
Definition dsec (d d' : db) : Prop :=
  forall k, starts_with k "$$" = true -> get_value d' k = get_value d k.
Definition nsec (n n' : node) : Prop :=
  forall x, match get_db n x, get_db n' x with
            | Some d, Some d' => dsec d d'
            | None, None => True
            | _, _ => False
            end.

Lemma dsec_refl d : dsec d d.
Proof. intros k _. reflexivity. Qed.
Lemma dsec_trans a b c : dsec a b -> dsec b c -> dsec a c.
Proof. intros H1 H2 k Hk. rewrite H2, H1; auto. Qed.
Lemma dsec_map d d' : d_map d = d_map d' -> dsec d d'.
Proof. intros H k _. unfold get_value. now rewrite H. Qed.

Lemma nsec_refl n : nsec n n.
Proof. intros x. destruct (get_db n x); auto. apply dsec_refl. Qed.
Lemma nsec_trans a b c : nsec a b -> nsec b c -> nsec a c.
Proof.
  intros H1 H2 x. specialize (H1 x). specialize (H2 x).
  destruct (get_db a x), (get_db b x), (get_db c x); try contradiction; auto.
  eapply dsec_trans; eauto.
Qed.
Lemma nsec_dbs n n' : n_dbs n = n_dbs n' -> nsec n n'.
Proof. intros H x. unfold get_db. rewrite H. destruct (assoc_get _ _ _); auto. apply dsec_refl. Qed.
Lemma nsec_dbs_r n n' n'' : nsec n n' -> n_dbs n' = n_dbs n'' -> nsec n n''.
Proof. intros H E. eapply nsec_trans; eauto. now apply nsec_dbs. Qed.

Lemma get_db_put_db n x d y :
  get_db (put_db n x d) y = if String.eqb y x then Some d else get_db n y.
Proof.
  unfold get_db, put_db, n_set_dbs. cbn [n_dbs].
  destruct (String.eqb_spec y x) as [->|Hn].
  - apply (get_set_same String.eqb String.eqb_spec).
  - now apply (get_set_other String.eqb String.eqb_spec).
Qed.

Lemma nsec_put_db n n1 x d d' :
  n_dbs n1 = n_dbs n -> get_db n x = Some d -> dsec d d' -> nsec n (put_db n1 x d').
Proof.
  intros E G H y. rewrite get_db_put_db.
  replace (get_db n1 y) with (get_db n y) by (unfold get_db; now rewrite E).
  destruct (String.eqb_spec y x) as [->|Hn].
  - now rewrite G.
  - destruct (get_db n y); auto. apply dsec_refl.
Qed.

Lemma n_dbs_send n c m : n_dbs (send n c m) = n_dbs n.
Proof. reflexivity. Qed.
Lemma n_dbs_sends n l : n_dbs (sends n l) = n_dbs n.
Proof.
  unfold sends. revert n. induction l as [|a l IH]; intros n; cbn [fold_left]; auto.
  now rewrite IH.
Qed.
Lemma n_dbs_replicate_web n m : n_dbs (replicate_web n m) = n_dbs n.
Proof. reflexivity. Qed.
Lemma n_dbs_send_to_primary n m : n_dbs (send_to_primary n m) = n_dbs n.
Proof. reflexivity. Qed.
Lemma n_dbs_replicate_change n dbn ch : n_dbs (replicate_change n dbn ch) = n_dbs n.
Proof. unfold replicate_change. cbv zeta. now destruct (_ || _). Qed.

Lemma nsec_put_sends n n1 x d d' msgs :
  n_dbs n1 = n_dbs n -> get_db n x = Some d -> dsec d d' -> nsec n (sends (put_db n1 x d') msgs).
Proof.
  intros E G H. eapply nsec_dbs_r; [eapply nsec_put_db; eauto|]. now rewrite n_dbs_sends.
Qed.

Lemma nonsys_neq k k' : starts_with k "$$" = false -> starts_with k' "$$" = true -> k' <> k.
Proof. intros H1 H2 ->. congruence. Qed.

Lemma dsec_put_value d k v : starts_with k "$$" = false -> dsec d (put_value d k v).
Proof.
  intros H k' Hk'. unfold get_value, put_value, db_set_map. cbn [d_map].
  apply (get_set_other String.eqb String.eqb_spec). eapply nonsys_neq; eauto.
Qed.

Lemma dsec_del d k : starts_with k "$$" = false ->
  dsec d (db_set_map d (assoc_del String.eqb k (d_map d))).
Proof.
  intros H k' Hk'. unfold get_value, db_set_map. cbn [d_map].
  apply (get_del_other String.eqb String.eqb_spec). eapply nonsys_neq; eauto.
Qed.

Lemma set_value_dsec d ch : starts_with (c_key ch) "$$" = false -> dsec d (fst (fst (set_value d ch))).
Proof.
  intros H. unfold set_value. destruct (get_value d (c_key ch)); cbv zeta.
  - destruct (_ && _); cbn [fst]; [apply dsec_refl | now apply dsec_put_value].
  - cbn [fst]. now apply dsec_put_value.
Qed.

Lemma remove_value_dsec d k : starts_with k "$$" = false -> dsec d (fst (fst (remove_value d k))).
Proof.
  intros H. unfold remove_value. destruct (String.eqb k "$$token"); cbn [fst]; [apply dsec_refl|].
  destruct (get_value d k) as [v|]; [|apply dsec_refl].
  destruct (v_st v); try (now apply dsec_put_value). now apply dsec_del.
Qed.

Lemma inc_value_dsec d k inc opp : starts_with k "$$" = false ->
  dsec d (fst (fst (inc_value d k inc opp))).
Proof.
  intros H. unfold inc_value. cbv zeta. destruct (parse_i32 _); cbn [fst]; [|apply dsec_refl].
  destruct (_ && _); cbn [fst]; [now apply dsec_put_value | apply dsec_refl].
Qed.

Lemma apply_change_nsec n dbn ch : starts_with (c_key ch) "$$" = false ->
  nsec n (fst (apply_change n dbn ch)).
Proof.
  intros H. unfold apply_change.
  destruct (get_db n dbn) as [d|] eqn:Ed; [|apply nsec_refl].
  pose proof (set_value_dsec d ch H) as S1.
  destruct (set_value d ch) as [[d1 r] msgs] eqn:Es. cbn [fst] in S1.
  destruct r; cbn [fst]; try (eapply nsec_put_sends; eauto; fail).
  apply set_value_verr in Es. destruct Es as [-> ->].
  destruct (d_strat d); cbn [fst]; try apply nsec_refl.
  - destruct (N.ltb _ _); cbn [fst]; [|apply nsec_refl].
    destruct (tick n) as [n1 id] eqn:Et.
    match goal with |- context [set_value d ?Y] =>
      pose proof (set_value_dsec d Y H) as S2; destruct (set_value d Y) as [[d2 r2] msgs2] end.
    cbn [fst] in *. eapply nsec_put_sends; eauto. unfold tick in Et. now inversion Et.
  - destruct (negb (has_arbiter d)); cbn [fst]; [apply nsec_refl|]. cbv zeta.
    match goal with |- context [put_value d ?K ?V] =>
      pose proof (dsec_put_value d K V H) as S2; set (d2 := put_value d K V) in * end.
    match goal with |- context [match ?X with Some _ => _ | None => _ end] =>
      destruct X as [[ook cver]|] end; cbn [fst].
    + match goal with |- context [tick ?X] => set (nA := X) end.
      assert (SA : nsec n nA) by (eapply nsec_put_sends; eauto).
      assert (GA : get_db nA dbn = Some d2).
      { unfold nA, get_db. rewrite n_dbs_sends. fold (get_db (put_db n dbn d2) dbn).
        rewrite get_db_put_db. now rewrite String.eqb_refl. }
      destruct (tick nA) as [n2 id] eqn:Et.
      match goal with |- context [set_value d2 ?Y] =>
        pose proof (set_value_dsec d2 Y (conflict_key_nonsys _)) as S3;
        destruct (set_value d2 Y) as [[d3 r3] msgs3] end.
      cbn [fst] in *. eapply nsec_trans; [exact SA|].
      eapply nsec_dbs_r; [|symmetry; apply n_dbs_replicate_change].
      eapply nsec_put_sends; eauto. unfold tick in Et. now inversion Et.
    + eapply nsec_put_db; eauto.
Qed.

Lemma get_db_dbs n n' x : n_dbs n = n_dbs n' -> get_db n x = get_db n' x.
Proof. intros H. unfold get_db. now rewrite H. Qed.

Lemma tick_dbs n n1 id : tick n = (n1, id) -> n_dbs n1 = n_dbs n.
Proof. unfold tick. intros [= <- _]. reflexivity. Qed.

Lemma set_key_value_nsec n dbn key value ver : starts_with key "$$" = false ->
  nsec n (fst (set_key_value n dbn key value ver)).
Proof.
  intros H. unfold set_key_value. destruct (tick n) as [n1 id] eqn:Et.
  eapply nsec_trans; [apply nsec_dbs; symmetry; eapply tick_dbs; eauto|].
  now apply apply_change_nsec.
Qed.

Lemma set_connection_counter_nsec n dbn : nsec n (set_connection_counter n dbn).
Proof.
  unfold set_connection_counter. destruct (get_db n dbn); [|apply nsec_refl].
  now apply set_key_value_nsec.
Qed.

Lemma resolve_conflict_nsec n dbn ch : starts_with (c_key ch) "$$" = false ->
  nsec n (fst (resolve_conflict n dbn ch)).
Proof.
  intros H. unfold resolve_conflict.
  destruct (get_db n dbn) as [d|] eqn:Ed; [|apply nsec_refl].
  destruct (tick n) as [n1 id] eqn:Et. cbv zeta.
  match goal with |- context [set_value d ?Y] =>
    pose proof (set_value_dsec d Y (conflict_key_nonsys _)) as S1;
    destruct (set_value d Y) as [[d1 r1] msgs1] end.
  cbn [fst] in S1.
  match goal with |- context [replicate_change ?X ?Y ?Z] => set (n2 := replicate_change X Y Z) end.
  assert (S2 : nsec n n2).
  { eapply nsec_dbs_r; [|symmetry; apply n_dbs_replicate_change].
    eapply nsec_put_sends; eauto. eapply tick_dbs; eauto. }
  assert (G2 : get_db n2 dbn = Some d1).
  { unfold n2. erewrite get_db_dbs by apply n_dbs_replicate_change.
    erewrite get_db_dbs by apply n_dbs_sends.
    rewrite get_db_put_db. now rewrite String.eqb_refl. }
  match goal with |- context [set_value d1 ?Y] =>
    assert (S3 : dsec d1 (fst (fst (set_value d1 Y))))
      by (apply set_value_dsec; destruct (has_pending_conflict d1 (c_key ch)); exact H);
    destruct (set_value d1 Y) as [[d2 r2] msgs2] end.
  cbn [fst] in *. eapply nsec_trans; [exact S2|]. eapply nsec_put_sends; eauto.
Qed.

Lemma client_left_nsec n c : nsec n (client_left n c).
Proof.
  unfold client_left. destruct (s_db (get_sess n c)) as [dbn|]; [|apply nsec_refl].
  destruct (get_db n dbn) as [d|] eqn:Ed; [|apply nsec_refl].
  eapply nsec_trans; [|apply set_connection_counter_nsec].
  eapply nsec_put_db; eauto. now apply dsec_map.
Qed.

Lemma register_arbiter_fold_nsec dbn l : Forall (fun k => starts_with k "$$" = false) l ->
  forall n,
  nsec n (fold_left (fun n k =>
          match get_db n dbn with
          | None => n
          | Some dd =>
              match get_value dd k with
              | None => n
              | Some v =>
                  if starts_with (v_val v) "resolved" then
                    let '(dd', _, msgs) := remove_value dd k in sends (put_db n dbn dd') msgs
                  else sends n (arbiter_msgs dd (v_val v))
              end
          end) l n).
Proof.
  induction 1 as [|k l Hk Hl IH]; intros n; cbn [fold_left]; [apply nsec_refl|].
  eapply nsec_trans; [|apply IH].
  destruct (get_db n dbn) as [dd|] eqn:Ed; [|apply nsec_refl].
  destruct (get_value dd k) as [v|]; [|apply nsec_refl].
  destruct (starts_with (v_val v) "resolved").
  - pose proof (remove_value_dsec dd k Hk) as S1.
    destruct (remove_value dd k) as [[dd' r] msgs]. cbn [fst] in S1.
    eapply nsec_put_sends; eauto.
  - apply nsec_dbs. now rewrite n_dbs_sends.
Qed.

Lemma register_arbiter_nsec n dbn c : nsec n (register_arbiter n dbn c).
Proof.
  unfold register_arbiter. destruct (get_db n dbn) as [d|] eqn:Ed; [|apply nsec_refl]. cbv zeta.
  eapply nsec_trans; [|apply register_arbiter_fold_nsec].
  - eapply nsec_put_db; eauto. now apply dsec_map.
  - apply Forall_forall. intros k Hk. eapply list_conflicts_keys_nonsys; eauto.
Qed.

Lemma guard_db_name_inv n c dbn key req :
  match guard_db_name n c dbn key req with
  | GGo dbn0 d => get_db n dbn0 = Some d
  | GStop n' _ => n_dbs n' = n_dbs n
  end.
Proof.
  unfold guard_db_name. destruct (get_db n dbn) as [d|] eqn:Ed; [|reflexivity].
  destruct key as [k|]; auto. destruct (has_permission n c k d req); auto.
Qed.

Lemma guard_safe_inv n c key req :
  match guard_safe n c key req with
  | GGo dbn0 d => get_db n dbn0 = Some d
  | GStop n' _ => n_dbs n' = n_dbs n
  end.
Proof.
  unfold guard_safe. destruct (_ && _); auto.
  destruct (s_db (get_sess n c)); [apply guard_db_name_inv | reflexivity].
Qed.

Lemma guard_db_inv n c :
  match guard_db n c with
  | GGo dbn0 d => get_db n dbn0 = Some d
  | GStop n' _ => n_dbs n' = n_dbs n
  end.
Proof.
  unfold guard_db. destruct (s_db (get_sess n c)); [apply guard_db_name_inv | reflexivity].
Qed.

Ltac guard_safe_nsec Ha :=
  match goal with |- context [guard_safe ?n ?c ?k ?r] =>
    let G := fresh "G" in let I := fresh "I" in let Hk := fresh "Hk" in
    pose proof (guard_safe_inv n c k r) as I;
    destruct (guard_safe n c k r) as [dbn d|n' r'] eqn:G; cbn [fst];
    [pose proof (guard_safe_go _ _ _ _ _ _ Ha G) as Hk | now apply nsec_dbs]
  end.

Lemma unwatch_all_map d c : d_map (unwatch_all d c) = d_map d.
Proof.
  unfold unwatch_all. generalize (map fst (d_watch d)). intros l. revert d.
  induction l as [|k l IH]; intros d; cbn [fold_left]; auto. now rewrite IH.
Qed.

Lemma handle_unwatch_all_nsec n c : nsec n (fst (handle n c RqUnWatchAll)).
Proof.
  unfold handle. pose proof (guard_db_inv n c) as I.
  destruct (guard_db n c) as [dbn d|n' r']; cbn [fst]; [|now apply nsec_dbs].
  eapply nsec_put_db; eauto. apply dsec_map. symmetry. apply unwatch_all_map.
Qed.

Lemma handle_nsec n c rq : s_auth (get_sess n c) = false -> nsec n (fst (handle n c rq)).
Proof.
  intros Ha.
  destruct rq; unfold handle; cbv beta iota zeta; rewrite ?Ha; cbn [negb fst]; try apply nsec_refl.
  - (* set-permissions *)
    unfold guard_safe. rewrite Ha. apply nsec_refl.
  - (* get *)
    guard_safe_nsec Ha. destruct (get_key_value_new d key). now apply nsec_dbs.
  - guard_safe_nsec Ha. destruct (get_key_value_new d key). now apply nsec_dbs.
  - (* remove *)
    guard_safe_nsec Ha. pose proof (remove_value_dsec d key Hk) as S1.
    destruct (remove_value d key) as [[d' r] msgs]. cbn [fst] in *.
    assert (S2 : nsec n (sends (put_db n dbn d') msgs)) by (eapply nsec_put_sends; eauto).
    destruct r; try exact S2. destruct (is_primary _); exact S2.
  - (* set *)
    guard_safe_nsec Ha. pose proof (set_key_value_nsec n dbn key value version Hk) as S1.
    destruct (set_key_value n dbn key value version) as [n1 r]. cbn [fst] in *.
    destruct (is_primary n1); exact S1.
  - (* increment *)
    guard_safe_nsec Ha. destruct (is_primary n).
    + destruct (tick n) as [n1 id] eqn:Et. pose proof (inc_value_dsec d key inc id Hk) as S1.
      destruct (inc_value d key inc id) as [[d' r] msgs]. cbn [fst] in *.
      eapply nsec_put_sends; eauto. eapply tick_dbs; eauto.
    + now apply nsec_dbs.
  - (* watch *)
    guard_safe_nsec Ha. eapply nsec_put_db; eauto. now apply dsec_map.
  - (* unwatch *)
    pose proof (guard_db_inv n c) as I.
    destruct (guard_db n c) as [dbn d|n' r']; cbn [fst]; [|now apply nsec_dbs].
    eapply nsec_put_db; eauto. now apply dsec_map.
  - (* unwatch-all *)
    apply handle_unwatch_all_nsec.
  - (* auth *)
    now apply nsec_dbs.
  - (* create-user *)
    unfold guard_safe. rewrite Ha. apply nsec_refl.
  - (* use-db *)
    destruct (get_db n name) as [d|]; [|apply nsec_refl].
    match goal with |- context [if ?X then _ else _] => destruct X end; [|apply nsec_refl].
    unfold release_previous. eapply nsec_trans; [apply client_left_nsec|].
    match goal with |- context [put_sess ?X ?Y ?Z] => set (n1 := put_sess X Y Z) end.
    eapply nsec_trans; [apply (nsec_dbs _ n1); reflexivity|].
    destruct (get_db n1 name) as [d1|] eqn:E1; cbn [fst]; [|apply nsec_refl].
    eapply nsec_trans; [|apply set_connection_counter_nsec].
    eapply nsec_put_db; eauto. now apply dsec_map.
  - (* keys *)
    pose proof (guard_db_inv n c) as I.
    destruct (guard_db n c) as [dbn d|n' r']; cbn [fst]; now apply nsec_dbs.
  - (* arbiter *)
    guard_safe_nsec Ha. apply register_arbiter_nsec.
  - (* resolve *)
    guard_safe_nsec Ha. destruct (is_primary n).
    + now apply resolve_conflict_nsec.
    + now apply nsec_dbs.
Qed.

Lemma replicate_request_dbs n rq seldb r : n_dbs (fst (replicate_request n rq seldb r)) = n_dbs n.
Proof.
  unfold replicate_request.
  destruct r; try reflexivity;
    (destruct (match seldb with Some nm => negb (has_db n nm) | None => false end); [reflexivity|];
     cbv zeta; destruct rq; reflexivity).
Qed.

Theorem step_nsec n c line : s_auth (get_sess n c) = false -> nsec n (fst (step n c line)).
Proof.
  intros Ha. unfold step. generalize (String.length line). intros k. cbn [process].
  destruct (parse_request (trim_char nl line)) as [rq| |]; try apply nsec_refl. cbv zeta.
  match goal with |- context [replicate_request _ _ ?S _] => generalize S; intros seldb end.
  assert (E : nsec n (fst match rq with
              | RqReplicateRequest inner opp_id =>
                  if negb (s_auth (get_sess n c)) then (n, not_auth)
                  else process k (send n c ("ack " +++ N_to_str opp_id +++ " " +++ n_addr n +++ " " +++ nlS)) c inner
              | _ => handle n c rq
              end)).
  { destruct rq; try (apply handle_nsec; exact Ha). rewrite Ha. apply nsec_refl. }
  match goal with |- context [let '(_, _) := ?X in _] => destruct X as [n1 r1] end.
  cbn [fst] in E. eapply nsec_dbs_r; [exact E|]. symmetry. apply replicate_request_dbs.
Qed.

Theorem step_secrets_unchanged n c line :
  s_auth (get_sess n c) = false ->
  forall dbn d d' k, get_db n dbn = Some d -> get_db (fst (step n c line)) dbn = Some d' ->
    starts_with k "$$" = true -> get_value d' k = get_value d k.
Proof.
  intros Ha dbn d d' k G G' Hk. pose proof (step_nsec n c line Ha dbn) as H.
  rewrite G, G' in H. now apply H.
Qed.

(* a non-administrator neither creates nor drops a database *)
Theorem step_same_databases n c line dbn :
  s_auth (get_sess n c) = false ->
  (get_db (fst (step n c line)) dbn = None <-> get_db n dbn = None).
Proof.
  intros Ha. pose proof (step_nsec n c line Ha dbn) as H.
  destruct (get_db n dbn), (get_db (fst (step n c line)) dbn); try contradiction; split; congruence.
Qed.

(* ======================================================================== *)
(* 3. Sequences of events                                                      *)
(* ======================================================================== *)
Inductive nev := EConnect | ECmd (c : nat) (line : str) | EDisconnect (c : nat).

Definition nstep (n : node) (e : nev) : node :=
  match e with
  | EConnect => fst (connect n)
  | ECmd c l => fst (step n c l)
  | EDisconnect c => disconnect n c
  end.
Definition nout (n : node) (e : nev) : resp :=
  match e with ECmd c l => snd (step n c l) | _ => ROk end.
Fixpoint nouts (n : node) (evs : list nev) : list resp :=
  match evs with [] => [] | e :: r => nout n e :: nouts (nstep n e) r end.

(* the event is not a command of an authenticated administrator *)
Definition ev_ok (n : node) (e : nev) : bool :=
  match e with ECmd c _ => negb (s_auth (get_sess n c)) | _ => true end.
(* boolean checker over a run: every command is issued by a session that is not
   (at that time) authenticated as administrator *)
Fixpoint nonadmin_run (n : node) (evs : list nev) : bool :=
  match evs with [] => true | e :: r => ev_ok n e && nonadmin_run (nstep n e) r end.

Section EvProj.
Variable f : node -> node.
Hypothesis f_sess : forall n, n_sess (f n) = n_sess n.
Hypothesis f_step : forall n c line, s_auth (get_sess n c) = false ->
  step (f n) c line = (f (fst (step n c line)), snd (step n c line)).
Hypothesis f_connect : forall n, fst (connect (f n)) = f (fst (connect n)).
Hypothesis f_disconnect : forall n c, disconnect (f n) c = f (disconnect n c).

Lemma ev_ok_f n e : ev_ok (f n) e = ev_ok n e.
Proof. destruct e; cbn [ev_ok]; auto. unfold get_sess. now rewrite f_sess. Qed.

Lemma nstep_f n e : ev_ok n e = true -> nstep (f n) e = f (nstep n e) /\ nout (f n) e = nout n e.
Proof.
  destruct e as [|c l|c]; cbn [ev_ok nstep nout]; intros H; auto.
  apply Bool.negb_true_iff in H. now rewrite f_step by exact H.
Qed.

Lemma ev_unwinding_f n1 n2 e : f n1 = f n2 -> ev_ok n1 e = true ->
  nout n1 e = nout n2 e /\ f (nstep n1 e) = f (nstep n2 e).
Proof.
  intros E H. assert (H2 : ev_ok n2 e = true) by (rewrite <- ev_ok_f, <- E, ev_ok_f; exact H).
  destruct (nstep_f n1 e H) as [A1 B1]. destruct (nstep_f n2 e H2) as [A2 B2].
  rewrite <- B1, <- B2, <- A1, <- A2, E. auto.
Qed.
End EvProj.

Section Seq.
Variable R : node -> node -> Prop.
Hypothesis R_sess : forall n1 n2, R n1 n2 -> n_sess n1 = n_sess n2.
Hypothesis R_ev : forall n1 n2 e, R n1 n2 -> ev_ok n1 e = true ->
  nout n1 e = nout n2 e /\ R (nstep n1 e) (nstep n2 e).

Lemma run_R evs : forall n1 n2, R n1 n2 -> nonadmin_run n1 evs = true ->
  nouts n1 evs = nouts n2 evs /\ R (fold_left nstep evs n1) (fold_left nstep evs n2) /\
  nonadmin_run n2 evs = true.
Proof.
  induction evs as [|e evs IH]; intros n1 n2 H Hr; cbn [nouts fold_left nonadmin_run] in *; auto.
  apply Bool.andb_true_iff in Hr. destruct Hr as [Hok Hr].
  destruct (R_ev n1 n2 e H Hok) as [Ho Hn].
  destruct (IH _ _ Hn Hr) as (A & B & C). repeat split; auto.
  - now rewrite Ho, A.
  - apply Bool.andb_true_iff. split; auto.
    destruct e; cbn [ev_ok] in *; auto. unfold get_sess in *. now rewrite <- (R_sess _ _ H).
Qed.
End Seq.

Lemma mask_sess n : n_sess (mask_node n) = n_sess n.
Proof. reflexivity. Qed.
Lemma erase_sess n : n_sess (erase_node n) = n_sess n.
Proof. reflexivity. Qed.

Lemma mask_disconnect n c : disconnect (mask_node n) c = mask_node (disconnect n c).
Proof. apply disconnect_pn; auto using mask_get, mask_set, mask_del, mask_filter, id_snoc. Qed.
Lemma erase_disconnect n c : disconnect (erase_node n) c = erase_node (disconnect n c).
Proof. apply disconnect_pn; auto using erase_get, erase_set, erase_del, erase_filter, id_snoc. Qed.

Lemma low_eq_ev n1 n2 e : low_eq n1 n2 -> ev_ok n1 e = true ->
  nout n1 e = nout n2 e /\ low_eq (nstep n1 e) (nstep n2 e).
Proof.
  intros H Hok. apply low_eq_mask in H.
  destruct (ev_unwinding_f mask_node mask_sess mask_step
              (fun n => f_equal fst (connect_pn mask_map id n))
              mask_disconnect
              n1 n2 e H Hok) as [A B].
  split; auto. now apply low_eq_mask.
Qed.

Lemma vis_eq_ev n1 n2 e : vis_eq n1 n2 -> ev_ok n1 e = true ->
  nout n1 e = nout n2 e /\ vis_eq (nstep n1 e) (nstep n2 e).
Proof.
  intros H Hok.
  apply (ev_unwinding_f erase_node erase_sess erase_step
              (fun n => f_equal fst (connect_pn erase_map id n))
              erase_disconnect
              n1 n2 e H Hok).
Qed.

(* events never change a $$ key as long as no administrator command runs *)
Lemma disconnect_nsec n c : nsec n (disconnect n c).
Proof.
  unfold disconnect. rewrite unwatch_all_step.
  eapply nsec_trans; [apply handle_unwatch_all_nsec | apply client_left_nsec].
Qed.

Lemma nstep_nsec n e : ev_ok n e = true -> nsec n (nstep n e).
Proof.
  destruct e as [|c l|c]; cbn [ev_ok nstep]; intros H.
  - now apply nsec_dbs.
  - apply Bool.negb_true_iff in H. now apply step_nsec.
  - apply disconnect_nsec.
Qed.

Lemma run_nsec evs : forall n, nonadmin_run n evs = true -> nsec n (fold_left nstep evs n).
Proof.
  induction evs as [|e evs IH]; intros n Hr; cbn [fold_left nonadmin_run] in *; [apply nsec_refl|].
  apply Bool.andb_true_iff in Hr. destruct Hr as [Hok Hr].
  eapply nsec_trans; [apply nstep_nsec; exact Hok | apply IH; exact Hr].
Qed.

Theorem noninterference n1 n2 evs :
  low_eq n1 n2 -> nonadmin_run n1 evs = true ->
  nouts n1 evs = nouts n2 evs /\
  low_eq (fold_left nstep evs n1) (fold_left nstep evs n2) /\
  (forall dbn d d' k, get_db n1 dbn = Some d -> get_db (fold_left nstep evs n1) dbn = Some d' ->
     starts_with k "$$" = true -> get_value d' k = get_value d k).
Proof.
  intros H Hr. destruct (run_R low_eq low_eq_sess low_eq_ev evs n1 n2 H Hr) as (A & B & _).
  split; [exact A|]. split; [exact B|].
  intros dbn d d' k G G' Hk. pose proof (run_nsec evs n1 Hr dbn) as S. rewrite G, G' in S. now apply S.
Qed.

Theorem noninterference_strong n1 n2 evs :
  vis_eq n1 n2 -> nonadmin_run n1 evs = true ->
  nouts n1 evs = nouts n2 evs /\ vis_eq (fold_left nstep evs n1) (fold_left nstep evs n2).
Proof.
  intros H Hr. destruct (run_R vis_eq vis_eq_sess vis_eq_ev evs n1 n2 H Hr) as (A & B & _). auto.
Qed.

(* ------------------------------------------------------------------------ *)
(* The replication queue n_repl is write-only for [step]: what is already on  *)
(* it (e.g. the "replicate db $$key ver TEXT" lines that the administrator's  *)
(* own writes put there) does not influence anything.  [low_eq_upto q1 q2]    *)
(* relaxes [n_repl n1 = n_repl n2] to "equal after the prefixes q1 / q2".     *)
(* ------------------------------------------------------------------------ *)
Definition addq (q : list str) (n : node) : node := n_set_repl n (q ++ n_repl n).

Definition low_eq_upto (q1 q2 : list str) (n1 n2 : node) : Prop :=
  low_eq (n_set_repl n1 []) (n_set_repl n2 []) /\
  exists s, n_repl n1 = q1 ++ s /\ n_repl n2 = q2 ++ s.

Lemma addq_pn q n : pn (fun m => m) (app q) n = addq q n.
Proof.
  destruct n. unfold pn, addq, n_set_repl. cbn. f_equal.
  rewrite <- (map_id n_dbs) at 2. apply map_ext. intros [k d]. destruct d. reflexivity.
Qed.

Lemma addq_step q n c line : s_auth (get_sess n c) = false ->
  step (addq q n) c line = (addq q (fst (step n c line)), snd (step n c line)).
Proof.
  intros Ha. rewrite <- !addq_pn. apply step_pn; auto.
  intros l x. apply app_assoc.
Qed.

Lemma addq_disconnect q n c : disconnect (addq q n) c = addq q (disconnect n c).
Proof.
  rewrite <- !addq_pn. apply disconnect_pn; auto.
  intros l x. apply app_assoc.
Qed.

Lemma addq_ev q n e : ev_ok n e = true ->
  nstep (addq q n) e = addq q (nstep n e) /\ nout (addq q n) e = nout n e.
Proof.
  apply (nstep_f (addq q)); auto using addq_step, addq_disconnect.
Qed.

Lemma low_eq_upto_iff q1 q2 n1 n2 :
  low_eq_upto q1 q2 n1 n2 <->
  exists m1 m2, n1 = addq q1 m1 /\ n2 = addq q2 m2 /\ low_eq m1 m2.
Proof.
  split.
  - intros [H [s [E1 E2]]]. exists (n_set_repl n1 s), (n_set_repl n2 s).
    destruct n1, n2. unfold addq, n_set_repl, low_eq in *. cbn in *. subst.
    repeat split; try reflexivity; try apply H.
  - intros (m1 & m2 & -> & -> & H). split.
    + destruct m1, m2. unfold addq, n_set_repl, low_eq in *. cbn in *.
      repeat split; try reflexivity; try apply H.
    + exists (n_repl m1). split; [reflexivity|].
      replace (n_repl m1) with (n_repl m2) by (symmetry; apply H). reflexivity.
Qed.

Lemma low_eq_upto_nil n1 n2 : low_eq_upto [] [] n1 n2 <-> low_eq n1 n2.
Proof.
  rewrite low_eq_upto_iff. split.
  - intros (m1 & m2 & -> & -> & H). destruct m1, m2. exact H.
  - intros H. exists n1, n2. destruct n1, n2. auto.
Qed.

Lemma low_eq_upto_sess q1 q2 n1 n2 : low_eq_upto q1 q2 n1 n2 -> n_sess n1 = n_sess n2.
Proof. intros [H _]. apply (low_eq_sess _ _ H). Qed.

Lemma low_eq_upto_ev q1 q2 n1 n2 e : low_eq_upto q1 q2 n1 n2 -> ev_ok n1 e = true ->
  nout n1 e = nout n2 e /\ low_eq_upto q1 q2 (nstep n1 e) (nstep n2 e).
Proof.
  intros H Hok. apply low_eq_upto_iff in H. destruct H as (m1 & m2 & -> & -> & H).
  assert (Hok1 : ev_ok m1 e = true) by exact Hok.
  destruct (low_eq_ev m1 m2 e H Hok1) as [A B].
  assert (Hok2 : ev_ok m2 e = true).
  { destruct e; auto. cbn [ev_ok] in *. unfold get_sess in *. now rewrite <- (low_eq_sess _ _ H). }
  destruct (addq_ev q1 m1 e Hok1) as [C1 D1]. destruct (addq_ev q2 m2 e Hok2) as [C2 D2].
  rewrite C1, C2, D1, D2. split; auto.
  apply low_eq_upto_iff. eauto.
Qed.

Theorem step_unwinding_upto q1 q2 n1 n2 c line :
  low_eq_upto q1 q2 n1 n2 -> s_auth (get_sess n1 c) = false ->
  let '(n1', r1) := step n1 c line in
  let '(n2', r2) := step n2 c line in
  r1 = r2 /\ low_eq_upto q1 q2 n1' n2'.
Proof.
  intros H Ha. assert (Hok : ev_ok n1 (ECmd c line) = true) by (cbn; now rewrite Ha).
  destruct (low_eq_upto_ev q1 q2 n1 n2 _ H Hok) as [A B]. cbn [nout nstep] in A, B.
  destruct (step n1 c line), (step n2 c line). auto.
Qed.

Theorem noninterference_upto q1 q2 n1 n2 evs :
  low_eq_upto q1 q2 n1 n2 -> nonadmin_run n1 evs = true ->
  nouts n1 evs = nouts n2 evs /\
  low_eq_upto q1 q2 (fold_left nstep evs n1) (fold_left nstep evs n2).
Proof.
  intros H Hr.
  destruct (run_R (low_eq_upto q1 q2) (low_eq_upto_sess q1 q2) (low_eq_upto_ev q1 q2) evs n1 n2 H Hr)
    as (A & B & _). auto.
Qed.

(* ======================================================================== *)
(* 4. $$token cannot be removed, by anybody                                    *)
(* ======================================================================== *)
Lemma token_unremovable : forall d,
  remove_value d "$$token" = (d, RError "$$token key cannot be removed", []).
Proof. reflexivity. Qed.

Lemma put_db_same n x d : get_db n x = Some d -> n_dbs (put_db n x d) = n_dbs n.
Proof.
  intros H. unfold put_db, n_set_dbs. cbn [n_dbs].
  now apply (set_same_id String.eqb).
Qed.

Theorem handle_remove_token n c :
  n_dbs (fst (handle n c (RqRemove "$$token"))) = n_dbs n.
Proof.
  unfold handle. pose proof (guard_safe_inv n c "$$token" PRemove) as I.
  destruct (guard_safe n c "$$token" PRemove) as [dbn d|n' r]; cbn [fst]; auto.
  rewrite token_unremovable. cbn [sends fold_left fst]. now apply put_db_same.
Qed.

Theorem handle_replicate_remove_token n c dbn :
  n_dbs (fst (handle n c (RqReplicateRemove dbn "$$token"))) = n_dbs n.
Proof.
  unfold handle. destruct (negb (s_auth (get_sess n c))); auto.
  destruct (get_db n dbn) as [d|] eqn:E; auto.
  rewrite token_unremovable. cbn [sends fold_left fst]. now apply put_db_same.
Qed.

(* ... in the form asked for: every database keeps its $$token (indeed everything) *)
Corollary token_survives_remove n c rq :
  (rq = RqRemove "$$token" \/ exists dbn, rq = RqReplicateRemove dbn "$$token") ->
  forall x, get_db (fst (handle n c rq)) x = get_db n x.
Proof.
  intros [->|[dbn ->]] x; apply get_db_dbs;
    [apply handle_remove_token | apply handle_replicate_remove_token].
Qed.

Corollary token_survives_remove_value n c rq :
  (rq = RqRemove "$$token" \/ exists dbn, rq = RqReplicateRemove dbn "$$token") ->
  forall x d d', get_db n x = Some d -> get_db (fst (handle n c rq)) x = Some d' ->
    get_value d' "$$token" = get_value d "$$token".
Proof.
  intros H x d d' G G'. rewrite (token_survives_remove n c rq H) in G'. congruence.
Qed.

(* the same for the protocol lines themselves (any session, any state) *)
Theorem step_remove_token n c : n_dbs (fst (step n c "remove $$token")) = n_dbs n.
Proof.
  rewrite (step_parse n c "remove $$token" (RqRemove "$$token")) by (vm_compute; reflexivity).
  pose proof (handle_remove_token n c) as H.
  destruct (handle n c (RqRemove "$$token")) as [n1 r]. cbn [fst] in H.
  now rewrite replicate_request_dbs.
Qed.

(* ======================================================================== *)
(* A simple sufficient condition for [nonadmin_run]: nobody is authenticated  *)
(* at the start and no line is an `auth` command                               *)
(* ======================================================================== *)
Definition auths (n : node) : list bool := map s_auth (n_sess n).
Definition all_nonadmin (n : node) : Prop := forall c, s_auth (get_sess n c) = false.

Lemma auth_nth n c : s_auth (get_sess n c) = nth c (auths n) false.
Proof. unfold get_sess, auths. change false with (s_auth empty_sess). now rewrite map_nth. Qed.

Lemma auths_all_nonadmin n n' : auths n' = auths n -> all_nonadmin n -> all_nonadmin n'.
Proof. intros E H c. rewrite auth_nth, E, <- auth_nth. apply H. Qed.

Lemma auths_put_sess n c s : s_auth s = s_auth (get_sess n c) -> auths (put_sess n c s) = auths n.
Proof.
  unfold auths, put_sess, get_sess, n_set_sess. cbn [n_sess]. generalize (n_sess n). intros l.
  revert c. induction l as [|a l IH]; intros [|c] H; cbn [list_update map nth] in *; auto.
  - now rewrite H.
  - now rewrite IH.
Qed.

Lemma auths_send n c m : auths (send n c m) = auths n.
Proof. unfold send. now apply auths_put_sess. Qed.
Lemma auths_sends n l : auths (sends n l) = auths n.
Proof.
  unfold sends. revert n. induction l as [|a l IH]; intros n; cbn [fold_left]; auto.
  now rewrite IH, auths_send.
Qed.
Lemma auths_put_db n x d : auths (put_db n x d) = auths n.
Proof. reflexivity. Qed.
Lemma auths_set_clock n x : auths (n_set_clock n x) = auths n.
Proof. reflexivity. Qed.
Lemma auths_send_to_primary n m : auths (send_to_primary n m) = auths n.
Proof. reflexivity. Qed.
Lemma auths_replicate_web n m : auths (replicate_web n m) = auths n.
Proof. reflexivity. Qed.
Lemma auths_replicate_change n dbn ch : auths (replicate_change n dbn ch) = auths n.
Proof. unfold replicate_change. cbv zeta. now destruct (_ || _). Qed.

Ltac au := repeat first [rewrite auths_sends | rewrite auths_send | rewrite auths_put_db
                        | rewrite auths_replicate_change | rewrite auths_set_clock
                        | rewrite auths_send_to_primary | rewrite auths_replicate_web].

Lemma auths_apply_change n dbn ch : auths (fst (apply_change n dbn ch)) = auths n.
Proof.
  unfold apply_change. destruct (get_db n dbn) as [d|]; [|reflexivity].
  destruct (set_value d ch) as [[d1 r] msgs].
  destruct r; cbn [fst]; au; try reflexivity.
  destruct (d_strat d); [reflexivity| |].
  - destruct (N.ltb _ _); [|reflexivity]. unfold tick.
    match goal with |- context [set_value d ?Y] => destruct (set_value d Y) as [[d2 r2] msgs2] end.
    cbn [fst]. au. reflexivity.
  - destruct (negb (has_arbiter d)); [reflexivity|]. cbv zeta.
    match goal with |- context [match ?X with Some _ => _ | None => _ end] =>
      destruct X as [[ook cver]|] end; [|cbn [fst]; au; reflexivity].
    unfold tick.
    match goal with |- context [set_value ?X ?Y] => destruct (set_value X Y) as [[d3 r3] msgs3] end.
    cbn [fst]. au. reflexivity.
Qed.

Lemma auths_set_key_value n dbn key value ver :
  auths (fst (set_key_value n dbn key value ver)) = auths n.
Proof. unfold set_key_value, tick. now rewrite auths_apply_change. Qed.

Lemma auths_set_connection_counter n dbn : auths (set_connection_counter n dbn) = auths n.
Proof.
  unfold set_connection_counter. destruct (get_db n dbn); auto. apply auths_set_key_value.
Qed.

Lemma auths_resolve_conflict n dbn ch : auths (fst (resolve_conflict n dbn ch)) = auths n.
Proof.
  unfold resolve_conflict. destruct (get_db n dbn) as [d|]; [|reflexivity]. unfold tick. cbv zeta.
  match goal with |- context [set_value d ?Y] => destruct (set_value d Y) as [[d1 r1] msgs1] end.
  match goal with |- context [set_value d1 ?Y] => destruct (set_value d1 Y) as [[d2 r2] msgs2] end.
  cbn [fst]. au. reflexivity.
Qed.

Lemma auths_client_left n c : auths (client_left n c) = auths n.
Proof.
  unfold client_left. destruct (s_db (get_sess n c)) as [dbn|]; auto.
  destruct (get_db n dbn); auto. now rewrite auths_set_connection_counter.
Qed.

Lemma auths_register_arbiter n dbn c : auths (register_arbiter n dbn c) = auths n.
Proof.
  unfold register_arbiter. destruct (get_db n dbn) as [d|]; auto. cbv zeta.
  match goal with |- context [fold_left ?F ?L ?N] =>
    assert (E : forall l m, auths (fold_left F l m) = auths m); [|now rewrite E] end.
  induction l as [|k l IH]; intros m; cbn [fold_left]; auto. rewrite IH.
  destruct (get_db m dbn) as [dd|]; auto. destruct (get_value dd k) as [v|]; auto.
  destruct (starts_with (v_val v) "resolved").
  - destruct (remove_value dd k) as [[dd' r] msgs]. au. reflexivity.
  - au. reflexivity.
Qed.

Lemma auths_guard_db_name n c dbn key req :
  match guard_db_name n c dbn key req with GGo _ _ => True | GStop n' _ => auths n' = auths n end.
Proof.
  unfold guard_db_name. destruct (get_db n dbn) as [d|]; [|apply auths_send].
  destruct key as [k|]; auto. destruct (has_permission n c k d req); auto. apply auths_send.
Qed.
Lemma auths_guard_safe n c key req :
  match guard_safe n c key req with GGo _ _ => True | GStop n' _ => auths n' = auths n end.
Proof.
  unfold guard_safe. destruct (_ && _); auto.
  destruct (s_db (get_sess n c)); [apply auths_guard_db_name | apply auths_send].
Qed.
Lemma auths_guard_db n c :
  match guard_db n c with GGo _ _ => True | GStop n' _ => auths n' = auths n end.
Proof.
  unfold guard_db. destruct (s_db (get_sess n c)); [apply auths_guard_db_name | apply auths_send].
Qed.

Ltac au_guard_safe :=
  match goal with |- context [guard_safe ?n ?c ?k ?r] =>
    let I := fresh "I" in
    pose proof (auths_guard_safe n c k r) as I;
    destruct (guard_safe n c k r) as [dbn d|n' r']; cbn [fst]; [|exact I]
  end.
Ltac au_guard_db :=
  match goal with |- context [guard_db ?n ?c] =>
    let I := fresh "I" in
    pose proof (auths_guard_db n c) as I;
    destruct (guard_db n c) as [dbn d|n' r']; cbn [fst]; [|exact I]
  end.

Definition is_auth_rq (rq : request) : bool := match rq with RqAuth _ _ => true | _ => false end.

Lemma auths_handle n c rq : s_auth (get_sess n c) = false -> is_auth_rq rq = false ->
  auths (fst (handle n c rq)) = auths n.
Proof.
  intros Ha Hq.
  destruct rq; try discriminate Hq; unfold handle; cbv beta iota zeta; rewrite ?Ha;
    cbn [negb fst]; try reflexivity.
  - unfold guard_safe. rewrite Ha. reflexivity.
  - au_guard_safe. destruct (get_key_value_new d key). apply auths_send.
  - au_guard_safe. destruct (get_key_value_new d key). apply auths_send.
  - au_guard_safe. destruct (remove_value d key) as [[d' r] msgs]. cbn [fst].
    destruct r; try (au; reflexivity). destruct (is_primary _); au; reflexivity.
  - au_guard_safe. pose proof (auths_set_key_value n dbn key value version) as S1.
    destruct (set_key_value n dbn key value version) as [n1 r]. cbn [fst] in *.
    destruct (is_primary n1); exact S1.
  - au_guard_safe. destruct (is_primary n); [|reflexivity]. unfold tick.
    match goal with |- context [inc_value ?A ?B ?C ?D] =>
      destruct (inc_value A B C D) as [[d' r] msgs] end. cbn [fst]. au. reflexivity.
  - au_guard_safe. reflexivity.
  - au_guard_db. reflexivity.
  - au_guard_db. reflexivity.
  - unfold guard_safe. rewrite Ha. reflexivity.
  - destruct (get_db n name) as [d|]; [|reflexivity].
    match goal with |- context [if ?X then _ else _] => destruct X end; [|reflexivity].
    unfold release_previous.
    match goal with |- context [put_sess ?X ?Y ?Z] => set (n1 := put_sess X Y Z) end.
    assert (E1 : auths n1 = auths n).
    { unfold n1. rewrite auths_put_sess by reflexivity. apply auths_client_left. }
    destruct (get_db n1 name) as [d1|]; cbn [fst]; auto.
    now rewrite auths_set_connection_counter.
  - au_guard_db. apply auths_send.
  - au_guard_safe. apply auths_register_arbiter.
  - au_guard_safe. destruct (is_primary n); [apply auths_resolve_conflict | reflexivity].
Qed.

Lemma auths_replicate_request n rq seldb r : auths (fst (replicate_request n rq seldb r)) = auths n.
Proof.
  unfold replicate_request.
  destruct r; try reflexivity;
    (destruct (match seldb with Some nm => negb (has_db n nm) | None => false end); [reflexivity|];
     cbv zeta; destruct rq; reflexivity).
Qed.

Definition is_auth_line (line : str) : bool :=
  match parse_request (trim_char nl line) with POk rq => is_auth_rq rq | _ => false end.

Lemma auths_step n c line : s_auth (get_sess n c) = false -> is_auth_line line = false ->
  auths (fst (step n c line)) = auths n.
Proof.
  intros Ha Hl. unfold step. generalize (String.length line). intros k. cbn [process].
  unfold is_auth_line in Hl.
  destruct (parse_request (trim_char nl line)) as [rq| |]; try reflexivity. cbv zeta.
  match goal with |- context [replicate_request _ _ ?S _] => generalize S; intros seldb end.
  assert (E : auths (fst match rq with
              | RqReplicateRequest inner opp_id =>
                  if negb (s_auth (get_sess n c)) then (n, not_auth)
                  else process k (send n c ("ack " +++ N_to_str opp_id +++ " " +++ n_addr n +++ " " +++ nlS)) c inner
              | _ => handle n c rq
              end) = auths n).
  { destruct rq; try (apply auths_handle; [exact Ha | exact Hl]). rewrite Ha. reflexivity. }
  match goal with |- context [let '(_, _) := ?X in _] => destruct X as [n1 r1] end.
  cbn [fst] in E. now rewrite auths_replicate_request.
Qed.

Definition no_auth_cmd (e : nev) : bool :=
  match e with ECmd _ l => negb (is_auth_line l) | _ => true end.

Lemma all_nonadmin_nstep n e : all_nonadmin n -> no_auth_cmd e = true -> all_nonadmin (nstep n e).
Proof.
  intros H He. destruct e as [|c l|c]; cbn [nstep no_auth_cmd] in *.
  - intros c. rewrite auth_nth. unfold auths, connect. cbn [fst n_sess n_set_sess].
    rewrite map_app. cbn [map]. fold (auths n).
    destruct (Nat.lt_ge_cases c (List.length (auths n))) as [L|L].
    + rewrite app_nth1 by exact L. rewrite <- auth_nth. apply H.
    + rewrite app_nth2 by exact L. destruct (c - List.length (auths n))%nat as [|[|k]]; reflexivity.
  - apply Bool.negb_true_iff in He. eapply auths_all_nonadmin; [|exact H].
    apply auths_step; auto.
  - eapply auths_all_nonadmin; [|exact H]. unfold disconnect.
    rewrite auths_client_left. apply auths_step; auto.
Qed.

Lemma all_nonadmin_run evs : forall n, all_nonadmin n -> forallb no_auth_cmd evs = true ->
  nonadmin_run n evs = true.
Proof.
  induction evs as [|e evs IH]; intros n H He; cbn [forallb nonadmin_run] in *; auto.
  apply Bool.andb_true_iff in He. destruct He as [He1 He2].
  apply Bool.andb_true_iff. split.
  - destruct e; cbn [ev_ok]; auto. now rewrite H.
  - apply IH; auto. now apply all_nonadmin_nstep.
Qed.

(* 3, in the "clean" form: no session is authenticated and nobody sends `auth` *)
Corollary noninterference_all_nonadmin n1 n2 evs :
  low_eq n1 n2 -> all_nonadmin n1 -> forallb no_auth_cmd evs = true ->
  nouts n1 evs = nouts n2 evs /\
  low_eq (fold_left nstep evs n1) (fold_left nstep evs n2) /\
  (forall dbn d d' k, get_db n1 dbn = Some d -> get_db (fold_left nstep evs n1) dbn = Some d' ->
     starts_with k "$$" = true -> get_value d' k = get_value d k).
Proof.
  intros H Ha He. apply noninterference; auto. now apply all_nonadmin_run.
Qed.

(* ======================================================================== *)
(* 5. Non-vacuity                                                              *)
(* ======================================================================== *)
Module Example.
Definition base : node := init_node "admin" "pwd" "node1" 1 Primary 100.

(* session 0 authenticates as administrator, creates database d1, writes a public
   key and the secret key $$secret; session 1 then selects d1 with the database
   token but never authenticates *)
Definition setup (txt : str) : list nev :=
  [EConnect; ECmd 0 "auth admin pwd"; ECmd 0 "create-db d1 tok"; ECmd 0 "use-db d1 tok";
   ECmd 0 "set public 1"; ECmd 0 ("set $$secret " +++ txt); EConnect; ECmd 1 "use-db d1 tok"].
Definition nodeA : node := fold_left nstep (setup "alpha") base.
Definition nodeB : node := fold_left nstep (setup "bravo") base.

Definition attack : list nev :=
  [ECmd 1 "get $$secret"; ECmd 1 "keys"; ECmd 1 "keys $$*"; ECmd 1 "watch $$secret";
   ECmd 1 "set $$secret x"; ECmd 1 "remove $$secret"; ECmd 1 "increment $$secret";
   ECmd 1 "resolve 5 d1 $$secret 3 hacked"; ECmd 1 "get-safe $$secret"; ECmd 1 "unwatch $$secret";
   ECmd 1 "get public"; ECmd 1 "set public 2"; ECmd 1 "arbiter"; ECmd 1 "rp 7 set $$secret y";
   ECmd 1 "replicate d1 $$secret 5 z"; ECmd 1 "replicate-remove d1 $$secret";
   ECmd 1 "create-user tok2 bob"; ECmd 1 "set-permissions bob rw *";
   ECmd 1 "debug pendding-conflitcts"; ECmd 1 "snapshot false d1"; EDisconnect 1].

(* the two servers really differ, and the administrator sees the difference *)
Example secrets_differ :
  option_map v_val (match get_db nodeA "d1" with Some d => get_value d "$$secret" | None => None end)
    = Some "alpha" /\
  option_map v_val (match get_db nodeB "d1" with Some d => get_value d "$$secret" | None => None end)
    = Some "bravo" /\
  nout nodeA (ECmd 0 "get $$secret") = RValue "$$secret" "alpha" 0 /\
  nout nodeB (ECmd 0 "get $$secret") = RValue "$$secret" "bravo" 0.
Proof. vm_compute. auto. Qed.

(* the administrator's own `set $$secret TEXT` is queued for replication with its
   text, so the two replication queues differ ... *)
Example repl_queues_differ :
  n_repl nodeA = ["rp 104 create-db d1 tok none"; "rp 107 replicate d1 public -1 1";
                  "rp 109 replicate d1 $$secret -1 alpha"] /\
  n_repl nodeB = ["rp 104 create-db d1 tok none"; "rp 107 replicate d1 public -1 1";
                  "rp 109 replicate d1 $$secret -1 bravo"].
Proof. vm_compute. auto. Qed.

(* ... and they are low-equivalent up to these queues, and plainly low-equivalent
   once the replication thread has consumed them *)
Example nodes_low_eq_upto : low_eq_upto (n_repl nodeA) (n_repl nodeB) nodeA nodeB.
Proof.
  split.
  - apply low_eq_mask. vm_compute. reflexivity.
  - exists []. split; vm_compute; reflexivity.
Qed.

Example nodes_low_eq_drained : low_eq (n_set_repl nodeA []) (n_set_repl nodeB []).
Proof. apply low_eq_mask. vm_compute. reflexivity. Qed.

Example attack_is_nonadmin : nonadmin_run nodeA attack = true.
Proof. vm_compute. reflexivity. Qed.

(* direct computation: identical replies, identical sessions (hence identical
   notifications), and what the attack appended to the replication queue is identical *)
Example attack_replies_equal : nouts nodeA attack = nouts nodeB attack.
Proof. vm_compute. reflexivity. Qed.

Example attack_replies :
  firstn 8 (nouts nodeA attack) =
    [RError "To read security keys you must auth as an admin!";
     RValue "keys" ",$connections,public" (-1);
     RValue "keys" "" (-1);
     RError "To read security keys you must auth as an admin!";
     RError "To read security keys you must auth as an admin!";
     RError "To read security keys you must auth as an admin!";
     RError "To read security keys you must auth as an admin!";
     RError "To read security keys you must auth as an admin!"].
Proof. vm_compute. reflexivity. Qed.

Example attack_sessions_equal :
  n_sess (fold_left nstep attack nodeA) = n_sess (fold_left nstep attack nodeB).
Proof. vm_compute. reflexivity. Qed.

Example attack_secret_untouched :
  (match get_db (fold_left nstep attack nodeA) "d1" with Some d => get_value d "$$secret" | None => None end)
  = (match get_db nodeA "d1" with Some d => get_value d "$$secret" | None => None end).
Proof. vm_compute. reflexivity. Qed.

(* the same facts as instances of the theorems *)
Example attack_by_theorem :
  nouts nodeA attack = nouts nodeB attack /\
  low_eq_upto (n_repl nodeA) (n_repl nodeB) (fold_left nstep attack nodeA) (fold_left nstep attack nodeB).
Proof. apply noninterference_upto; [apply nodes_low_eq_upto | apply attack_is_nonadmin]. Qed.

Example attack_by_theorem_drained :
  nouts (n_set_repl nodeA []) attack = nouts (n_set_repl nodeB []) attack /\
  low_eq (fold_left nstep attack (n_set_repl nodeA [])) (fold_left nstep attack (n_set_repl nodeB [])).
Proof.
  assert (R : nonadmin_run (n_set_repl nodeA []) attack = true) by (vm_compute; reflexivity).
  destruct (noninterference (n_set_repl nodeA []) (n_set_repl nodeB []) attack
              nodes_low_eq_drained R) as (A & B & _).
  split; assumption.
Qed.
End Example.
