(* ConnProofs.v -- C17: "$connections equals the number of open sessions on the database". *)
From NunDB Require Import Model.Base Model.Pending Model.Parse Model.Node Proofs.AssocLemmas.
Local Open Scope Z_scope.

Inductive nev := EConnect | ECmd (c : nat) (line : str) | EDisconnect (c : nat).

(* state of a run: the node and the list of open session ids *)
Definition nstep (st : node * list nat) (e : nev) : node * list nat :=
  let '(n, op) := st in
  match e with
  | EConnect => let '(n', c) := connect n in (n', op ++ [c])
  | ECmd c l => (fst (step n c l), op)
  | EDisconnect c => (disconnect n c, filter (fun x => negb (Nat.eqb x c)) op)
  end.

(* an event is allowed when it concerns an open session *)
Definition ev_ok (op : list nat) (e : nev) : bool :=
  match e with EConnect => true | ECmd c _ | EDisconnect c => existsb (Nat.eqb c) op end.

Fixpoint run_ok (st : node * list nat) (evs : list nev) : bool :=
  match evs with [] => true | e :: r => ev_ok (snd st) e && run_ok (nstep st e) r end.

Definition selb (n : node) (dbn : str) (c : nat) : bool :=
  match s_db (get_sess n c) with Some x => String.eqb x dbn | None => false end.

Definition selected (n : node) (op : list nat) (dbn : str) : list nat :=
  filter (fun c => match s_db (get_sess n c) with Some x => String.eqb x dbn | None => false end) op.

(* every selection (of any session, open or closed) names an existing database *)
Definition sel_exists (n : node) : Prop :=
  forall c dbn, s_db (get_sess n c) = Some dbn -> get_db n dbn <> None.

(* The invariant.  The fourth conjunct ([sel_exists]) is an addition to the requested
   statement: without it the invariant is not inductive (see [conn_inv_needs_sel_exists]). *)
Definition ConnInv (st : node * list nat) : Prop :=
  let '(n, op) := st in
  NoDup op /\ (forall c, In c op -> (c < List.length (n_sess n))%nat) /\
  (forall dbn d, get_db n dbn = Some d -> d_conn d = Z.of_nat (List.length (selected n op dbn))) /\
  sel_exists n.

(* ------------------------------------------------------------------------- *)
(* generic list facts                                                        *)
(* ------------------------------------------------------------------------- *)
Lemma list_update_length {A} (l : list A) i x : List.length (list_update l i x) = List.length l.
Proof. revert i; induction l as [|y r IH]; intros [|j]; cbn; auto. Qed.

Lemma nth_list_update {A} (l : list A) i j x d :
  nth j (list_update l i x) d = if Nat.eqb i j && Nat.ltb i (List.length l) then x else nth j l d.
Proof.
  revert i j; induction l as [|y r IH]; intros [|i] [|j]; cbn; auto.
  - now rewrite andb_false_r.
  - rewrite IH. reflexivity.
Qed.

Lemma map_list_update {A B} (f : A -> B) (l : list A) i x d :
  f x = f (nth i l d) -> map f (list_update l i x) = map f l.
Proof.
  revert i; induction l as [|y r IH]; intros [|i]; cbn; auto.
  - intros ->. reflexivity.
  - intros H. now rewrite IH.
Qed.

Lemma existsb_eqb_In c op : existsb (Nat.eqb c) op = true <-> In c op.
Proof.
  rewrite existsb_exists. split.
  - intros [x [Hin E]]. apply Nat.eqb_eq in E. now subst.
  - intros H. exists c. split; auto. apply Nat.eqb_refl.
Qed.

Definition rm (c : nat) (op : list nat) : list nat := filter (fun x => negb (Nat.eqb x c)) op.

Lemma rm_In c op x : In x (rm c op) <-> In x op /\ x <> c.
Proof.
  unfold rm. rewrite filter_In. split; intros [H1 H2]; split; auto.
  - intros ->. now rewrite Nat.eqb_refl in H2.
  - apply Nat.eqb_neq in H2. now rewrite H2.
Qed.

Lemma count_split (f : nat -> bool) c op : NoDup op -> In c op ->
  List.length (filter f op) = ((if f c then 1 else 0) + List.length (filter f (rm c op)))%nat.
Proof.
  induction 1 as [|x l Hnin Hnd IH]; cbn; [tauto|].
  intros [->|Hin].
  - rewrite Nat.eqb_refl. cbn.
    assert (E : rm c l = l).
    { unfold rm. clear -Hnin. induction l as [|y r IH]; cbn; auto.
      destruct (Nat.eqb_spec y c) as [->|]; cbn.
      - exfalso. apply Hnin. now left.
      - rewrite IH; auto. intros H. apply Hnin. now right. }
    fold (rm c l). rewrite E. destruct (f c); cbn; auto.
  - destruct (Nat.eqb_spec x c) as [->|Hne]; [contradiction|]. cbn.
    fold (rm c l). destruct (f x); cbn; rewrite IH; auto; lia.
Qed.

Lemma count_rm_false (f : nat -> bool) c op : f c = false ->
  List.length (filter f (rm c op)) = List.length (filter f op).
Proof.
  intros Hf. induction op as [|x l IH]; cbn; auto.
  destruct (Nat.eqb_spec x c) as [->|Hne]; cbn.
  - rewrite Hf. auto.
  - destruct (f x); cbn; auto.
Qed.

Lemma NoDup_rm c op : NoDup op -> NoDup (rm c op).
Proof. apply NoDup_filter. Qed.

(* ------------------------------------------------------------------------- *)
(* projections of setters                                                    *)
(* ------------------------------------------------------------------------- *)
Definition sdbs (n : node) : list (option str) := map s_db (n_sess n).

Lemma sdbs_get_sess n n' : sdbs n' = sdbs n -> forall c, s_db (get_sess n' c) = s_db (get_sess n c).
Proof.
  unfold sdbs, get_sess. intros H c.
  rewrite <- !(map_nth s_db). now rewrite H.
Qed.

Lemma sdbs_length n n' : sdbs n' = sdbs n -> List.length (n_sess n') = List.length (n_sess n).
Proof.
  unfold sdbs. intros H. rewrite <- (map_length s_db (n_sess n')), H. apply map_length.
Qed.

Lemma sdbs_put_sess n c s : s_db s = s_db (get_sess n c) -> sdbs (put_sess n c s) = sdbs n.
Proof. unfold sdbs, put_sess, get_sess. cbn. intros H. now apply map_list_update with (d := empty_sess). Qed.

Lemma dbs_put_sess n c s : n_dbs (put_sess n c s) = n_dbs n.
Proof. reflexivity. Qed.

Lemma sdbs_send n c m : sdbs (send n c m) = sdbs n.
Proof. unfold send. apply sdbs_put_sess. reflexivity. Qed.

Lemma dbs_send n c m : n_dbs (send n c m) = n_dbs n.
Proof. reflexivity. Qed.

Lemma sdbs_sends l : forall n, sdbs (sends n l) = sdbs n.
Proof.
  unfold sends. induction l as [|p r IH]; intros n; cbn; auto.
  rewrite IH. apply sdbs_send.
Qed.

Lemma dbs_sends l : forall n, n_dbs (sends n l) = n_dbs n.
Proof.
  unfold sends. induction l as [|p r IH]; intros n; cbn; auto.
  rewrite IH. reflexivity.
Qed.

Lemma get_db_sends n l x : get_db (sends n l) x = get_db n x.
Proof. unfold get_db. now rewrite dbs_sends. Qed.

Lemma get_db_put_same n k d : get_db (put_db n k d) k = Some d.
Proof. unfold get_db, put_db. cbn. apply get_set_same. apply String.eqb_spec. Qed.

Lemma get_db_put_other n k d x : x <> k -> get_db (put_db n k d) x = get_db n x.
Proof. unfold get_db, put_db. cbn. intros H. apply get_set_other; auto. apply String.eqb_spec. Qed.

Lemma get_db_put n k d x : get_db (put_db n k d) x = if String.eqb x k then Some d else get_db n x.
Proof.
  destruct (String.eqb_spec x k) as [->|H].
  - apply get_db_put_same.
  - now apply get_db_put_other.
Qed.

(* ------------------------------------------------------------------------- *)
(* the frame relation: selections kept, counters kept, new databases at 0     *)
(* ------------------------------------------------------------------------- *)
Definition conn_rel (o o' : option db) : Prop :=
  match o, o' with
  | Some d, Some d' => d_conn d' = d_conn d
  | None, Some d' => d_conn d' = 0
  | None, None => True
  | Some _, None => False
  end.

Definition frame (n n' : node) : Prop :=
  sdbs n' = sdbs n /\ forall dbn, conn_rel (get_db n dbn) (get_db n' dbn).

Lemma conn_rel_refl o : conn_rel o o.
Proof. destruct o; cbn; auto. Qed.

Lemma conn_rel_trans a b c : conn_rel a b -> conn_rel b c -> conn_rel a c.
Proof. destruct a, b, c; cbn; try tauto; congruence. Qed.

Lemma frame_refl n : frame n n.
Proof. split; auto. intros. apply conn_rel_refl. Qed.

Lemma frame_trans a b c : frame a b -> frame b c -> frame a c.
Proof.
  intros [H1 H2] [H3 H4]. split; [congruence|].
  intros dbn. eapply conn_rel_trans; eauto.
Qed.

Lemma frame_same n0 n n' : frame n0 n -> n_dbs n' = n_dbs n -> sdbs n' = sdbs n -> frame n0 n'.
Proof.
  intros [H1 H2] Hd Hs. split; [congruence|].
  intros dbn. unfold get_db. rewrite Hd. apply H2.
Qed.

Lemma frame_put_db n0 n k d d' :
  frame n0 n -> get_db n k = Some d -> d_conn d' = d_conn d -> frame n0 (put_db n k d').
Proof.
  intros Hf Hg Hc. eapply frame_trans; [exact Hf|]. split; [reflexivity|].
  intros dbn. rewrite get_db_put. destruct (String.eqb_spec dbn k) as [->|Hne].
  - rewrite Hg. cbn. exact Hc.
  - apply conn_rel_refl.
Qed.

Lemma frame_put_db_new n0 n k d' :
  frame n0 n -> get_db n k = None -> d_conn d' = 0 -> frame n0 (put_db n k d').
Proof.
  intros Hf Hg Hc. eapply frame_trans; [exact Hf|]. split; [reflexivity|].
  intros dbn. rewrite get_db_put. destruct (String.eqb_spec dbn k) as [->|Hne].
  - rewrite Hg. cbn. exact Hc.
  - apply conn_rel_refl.
Qed.

Lemma frame_send n0 n c m : frame n0 n -> frame n0 (send n c m).
Proof. intros H. eapply frame_same; eauto. apply sdbs_send. Qed.

Lemma frame_sends n0 n l : frame n0 n -> frame n0 (sends n l).
Proof. intros H. eapply frame_same; eauto. apply dbs_sends. apply sdbs_sends. Qed.

Lemma frame_put_sess n0 n c s : frame n0 n -> s_db s = s_db (get_sess n c) -> frame n0 (put_sess n c s).
Proof. intros H E. eapply frame_same; eauto. now apply sdbs_put_sess. Qed.

(* any function that touches neither n_dbs nor n_sess *)
Ltac fsame :=
  match goal with
  | H : frame _ _ |- _ => solve [eapply frame_same; [exact H | reflexivity | reflexivity]]
  | _ => solve [eapply frame_same; [apply frame_refl | reflexivity | reflexivity]]
  end.

Lemma frame_replicate_web n0 n m : frame n0 n -> frame n0 (replicate_web n m).
Proof. intros H. unfold replicate_web, tick. fsame. Qed.

Lemma frame_send_to_primary n0 n m : frame n0 n -> frame n0 (send_to_primary n m).
Proof. intros H. unfold send_to_primary. fsame. Qed.

Lemma frame_replicate_change n0 n dbn ch : frame n0 n -> frame n0 (replicate_change n dbn ch).
Proof.
  intros H. unfold replicate_change. destruct (is_primary n || is_eligible n).
  - now apply frame_replicate_web.
  - now apply frame_send_to_primary.
Qed.

Lemma frame_push_sup n0 n m : frame n0 n -> frame n0 (push_sup n m).
Proof. intros H. unfold push_sup. fsame. Qed.

Lemma frame_set_role n0 n r : frame n0 n -> frame n0 (n_set_role n r).
Proof. intros H. fsame. Qed.

Lemma frame_election_win n0 n : frame n0 n -> frame n0 (election_win n).
Proof. intros H. unfold election_win, push_sup. fsame. Qed.

Lemma frame_start_election n0 n : frame n0 n -> frame n0 (start_election n).
Proof.
  intros H. unfold start_election. destruct (Nat.leb _ _).
  - now apply frame_election_win.
  - unfold replicate_message. now apply frame_replicate_web.
Qed.

Lemma frame_start_new_election n0 n : frame n0 n -> frame n0 (start_new_election n).
Proof. intros H. unfold start_new_election. apply frame_start_election. now apply frame_set_role. Qed.

Lemma frame_election_eval n0 n cand : frame n0 n -> frame n0 (election_eval n cand).
Proof.
  intros H. unfold election_eval. destruct (N.eqb _ _); auto. destruct (N.ltb _ _).
  - now apply frame_start_election.
  - apply frame_set_role. unfold replicate_message. now apply frame_replicate_web.
Qed.

(* ------------------------------------------------------------------------- *)
(* database functions never touch d_conn                                     *)
(* ------------------------------------------------------------------------- *)
Lemma conn_put_value d k v : d_conn (put_value d k v) = d_conn d.
Proof. reflexivity. Qed.

Lemma conn_set_value d ch : d_conn (fst (fst (set_value d ch))) = d_conn d.
Proof.
  unfold set_value. destruct (get_value d (c_key ch)); [|reflexivity].
  destruct (_ && _); reflexivity.
Qed.

Lemma conn_set_value' d ch d' r m : set_value d ch = (d', r, m) -> d_conn d' = d_conn d.
Proof. intros H. generalize (conn_set_value d ch). now rewrite H. Qed.

Lemma conn_remove_value d k : d_conn (fst (fst (remove_value d k))) = d_conn d.
Proof.
  unfold remove_value. destruct (String.eqb k "$$token"); [reflexivity|]. cbn.
  destruct (get_value d k) as [v|]; [|reflexivity]. destruct (v_st v); reflexivity.
Qed.

Lemma conn_remove_value' d k d' r m : remove_value d k = (d', r, m) -> d_conn d' = d_conn d.
Proof. intros H. generalize (conn_remove_value d k). now rewrite H. Qed.

Lemma conn_inc_value d k i o : d_conn (fst (fst (inc_value d k i o))) = d_conn d.
Proof.
  unfold inc_value. destruct (parse_i32 _); [|reflexivity].
  destruct (_ && _); reflexivity.
Qed.

Lemma conn_inc_value' d k i o d' r m : inc_value d k i o = (d', r, m) -> d_conn d' = d_conn d.
Proof. intros H. generalize (conn_inc_value d k i o). now rewrite H. Qed.

Lemma conn_watch_key d k c : d_conn (watch_key d k c) = d_conn d.
Proof. reflexivity. Qed.

Lemma conn_unwatch_key d k c : d_conn (unwatch_key d k c) = d_conn d.
Proof. reflexivity. Qed.

Lemma conn_unwatch_all d c : d_conn (unwatch_all d c) = d_conn d.
Proof.
  unfold unwatch_all. generalize (map fst (d_watch d)). intros l. revert d.
  induction l as [|k r IH]; intros d; cbn; auto. now rewrite IH.
Qed.

(* s_db is untouched by the session setters *)
Lemma sdb_sess_push s m : s_db (sess_push s m) = s_db s. Proof. reflexivity. Qed.
Lemma sdb_set_member s m : s_db (set_member s m) = s_db s. Proof. reflexivity. Qed.
Lemma sdb_set_auth s a : s_db (set_auth s a) = s_db s. Proof. reflexivity. Qed.

(* ------------------------------------------------------------------------- *)
(* node-level operations are frames                                          *)
(* ------------------------------------------------------------------------- *)
Lemma frame_apply_change n0 n dbn ch : frame n0 n -> frame n0 (fst (apply_change n dbn ch)).
Proof.
  intros H. unfold apply_change.
  destruct (get_db n dbn) as [d|] eqn:Hd; [|exact H].
  destruct (set_value d ch) as [[d1 r] msgs] eqn:Hs.
  pose proof (conn_set_value' _ _ _ _ _ Hs) as Hc1.
  assert (Hdef : frame n0 (sends (put_db n dbn d1) msgs)).
  { apply frame_sends. eapply frame_put_db; eauto. }
  destruct r; try exact Hdef.
  destruct (d_strat d); [exact H| |].
  - destruct (N.ltb _ _); [|exact H]. unfold tick.
    match goal with |- context [set_value d ?c] => destruct (set_value d c) as [[d2 r2] msgs2] eqn:Hs2 end.
    pose proof (conn_set_value' _ _ _ _ _ Hs2) as Hc2. cbn [fst].
    apply frame_sends. eapply frame_put_db; [| exact Hd | exact Hc2]. fsame.
  - destruct (negb (has_arbiter d)); [exact H|].
    match goal with |- context [put_value d key ?v] => set (d2 := put_value d key v) end.
    match goal with |- context [match ?i with Some _ => _ | None => _ end] => destruct i as [[ook cver]|] end.
    + match goal with |- context [sends (put_db n dbn d2) ?m] => set (n1 := sends (put_db n dbn d2) m) end.
      assert (Hn1 : frame n0 n1).
      { apply frame_sends. eapply frame_put_db; eauto. }
      unfold tick.
      match goal with |- context [set_value d2 ?c] => destruct (set_value d2 c) as [[d3 r3] msgs3] eqn:Hs3 end.
      pose proof (conn_set_value' _ _ _ _ _ Hs3) as Hc3. cbn [fst].
      apply frame_replicate_change. apply frame_sends.
      eapply frame_put_db with (d := d2); [| | exact Hc3].
      * fsame.
      * change (get_db n1 dbn = Some d2). unfold n1. rewrite get_db_sends. apply get_db_put_same.
    + cbn [fst]. eapply frame_put_db; eauto.
Qed.

Lemma frame_set_key_value n0 n dbn k v ver : frame n0 n -> frame n0 (fst (set_key_value n dbn k v ver)).
Proof.
  intros H. unfold set_key_value, tick. apply frame_apply_change. fsame.
Qed.

Lemma frame_set_connection_counter n0 n dbn : frame n0 n -> frame n0 (set_connection_counter n dbn).
Proof.
  intros H. unfold set_connection_counter. destruct (get_db n dbn); auto.
  now apply frame_set_key_value.
Qed.

Lemma frame_resolve_conflict n0 n dbn ch : frame n0 n -> frame n0 (fst (resolve_conflict n dbn ch)).
Proof.
  intros H. unfold resolve_conflict. destruct (get_db n dbn) as [d|] eqn:Hd; [|exact H].
  unfold tick.
  match goal with |- context [set_value d ?c] => destruct (set_value d c) as [[d1 r1] msgs1] eqn:Hs1 end.
  pose proof (conn_set_value' _ _ _ _ _ Hs1) as Hc1.
  match goal with |- context [set_value d1 ?c] => destruct (set_value d1 c) as [[d2 r2] msgs2] eqn:Hs2 end.
  pose proof (conn_set_value' _ _ _ _ _ Hs2) as Hc2. cbn [fst].
  apply frame_sends.
  match goal with |- frame n0 (put_db ?nn dbn d2) => assert (Hn2 : frame n0 nn /\ get_db nn dbn = Some d1) end.
  { split.
    - apply frame_replicate_change. apply frame_sends. eapply frame_put_db; [| exact Hd | exact Hc1]. fsame.
    - unfold replicate_change, replicate_web, send_to_primary, tick.
      destruct (_ || _); cbn; unfold get_db; cbn; rewrite dbs_sends; apply get_db_put_same. }
  destruct Hn2 as [Hf Hg]. eapply frame_put_db; [exact Hf | exact Hg | exact Hc2].
Qed.

Lemma frame_register_arbiter n0 n dbn c : frame n0 n -> frame n0 (register_arbiter n dbn c).
Proof.
  intros H. unfold register_arbiter. destruct (get_db n dbn) as [d|] eqn:Hd; [|exact H].
  assert (H1 : frame n0 (put_db n dbn (watch_key d "$conflicts" c))).
  { eapply frame_put_db; eauto. }
  revert H1. generalize (put_db n dbn (watch_key d "$conflicts" c)).
  generalize (list_conflicts_keys (watch_key d "$conflicts" c) "").
  intros l. induction l as [|k r IH]; intros m Hm; cbn [fold_left]; auto.
  apply IH.
  destruct (get_db m dbn) as [dd|] eqn:Hdd; auto.
  destruct (get_value dd k) as [v|]; auto.
  destruct (starts_with _ _).
  - destruct (remove_value dd k) as [[dd' r'] msgs] eqn:Hr.
    apply frame_sends. eapply frame_put_db; eauto. eapply conn_remove_value'; eauto.
  - now apply frame_sends.
Qed.

Lemma frame_add_database n0 n name d : frame n0 n -> d_conn d = 0 -> frame n0 (fst (add_database n name d)).
Proof.
  intros H Hc. unfold add_database. destruct (get_db n name) eqn:Hd; [exact H|].
  unfold tick.
  match goal with |- context [put_db ?m name d] => set (n2 := put_db m name d) end.
  assert (H2 : frame n0 n2).
  { unfold n2. eapply frame_put_db_new; [| exact Hd | exact Hc]. fsame. }
  match goal with |- context [get_db ?m "$admin"] => destruct (get_db m "$admin") as [adm|] eqn:Ha end.
  - match goal with |- context [set_value adm ?c] => destruct (set_value adm c) as [[adm' r'] msgs] eqn:Hs end.
    cbn [fst]. apply frame_sends. eapply frame_put_db; [| exact Ha | eapply conn_set_value'; eauto]. fsame.
  - cbn [fst]. fsame.
Qed.

(* guards *)
Lemma guard_db_name_go n c dbn key req dbn' d :
  guard_db_name n c dbn key req = GGo dbn' d -> get_db n dbn' = Some d.
Proof.
  unfold guard_db_name, reject_no_db. destruct (get_db n dbn) eqn:Hd; [|discriminate].
  destruct key; [destruct (has_permission _ _ _ _ _)|]; intros [= <- <-]; auto.
Qed.

Lemma guard_db_name_stop n0 n c dbn key req n' r :
  frame n0 n -> guard_db_name n c dbn key req = GStop n' r -> frame n0 n'.
Proof.
  intros H. unfold guard_db_name, reject_no_db. destruct (get_db n dbn) eqn:Hd.
  - destruct key; [destruct (has_permission _ _ _ _ _)|]; intros [= <- <-]. now apply frame_send.
  - intros [= <- <-]. now apply frame_send.
Qed.

Lemma guard_safe_go n c key req dbn d : guard_safe n c key req = GGo dbn d -> get_db n dbn = Some d.
Proof.
  unfold guard_safe, reject_no_db. destruct (_ && _); [discriminate|].
  destruct (s_db _); [|discriminate]. apply guard_db_name_go.
Qed.

Lemma guard_safe_stop n0 n c key req n' r : frame n0 n -> guard_safe n c key req = GStop n' r -> frame n0 n'.
Proof.
  intros H. unfold guard_safe, reject_no_db. destruct (_ && _); [intros [= <- <-]; auto|].
  destruct (s_db _).
  - now apply guard_db_name_stop.
  - intros [= <- <-]. now apply frame_send.
Qed.

Lemma guard_db_go n c dbn d : guard_db n c = GGo dbn d -> get_db n dbn = Some d.
Proof.
  unfold guard_db, reject_no_db. destruct (s_db _); [|discriminate]. apply guard_db_name_go.
Qed.

Lemma guard_db_stop n0 n c n' r : frame n0 n -> guard_db n c = GStop n' r -> frame n0 n'.
Proof.
  intros H. unfold guard_db, reject_no_db. destruct (s_db _).
  - now apply guard_db_name_stop.
  - intros [= <- <-]. now apply frame_send.
Qed.

Ltac guard_tac H :=
  match goal with
  | |- context [guard_safe ?n ?c ?k ?r] =>
      let G := fresh "G" in let Hg := fresh "Hg" in
      destruct (guard_safe n c k r) as [?dbn ?d | ?n' ?r'] eqn:G;
      [ pose proof (guard_safe_go _ _ _ _ _ _ G) as Hg
      | cbn [fst]; exact (guard_safe_stop _ _ _ _ _ _ _ H G) ]
  | |- context [guard_db ?n ?c] =>
      let G := fresh "G" in let Hg := fresh "Hg" in
      destruct (guard_db n c) as [?dbn ?d | ?n' ?r'] eqn:G;
      [ pose proof (guard_db_go _ _ _ _ G) as Hg
      | cbn [fst]; exact (guard_db_stop _ _ _ _ _ H G) ]
  end.

Lemma frame_snapshot_fold names reclaim : forall n0 acc,
  frame n0 (fst acc) ->
  frame n0 (fst (fold_left (fun acc nm =>
          let '(m0, r0) := acc in
          match get_db m0 nm with
          | Some _ => (n_set_snap m0 (n_snap m0 ++ [(nm, reclaim)]), r0)
          | None => (m0, RError ("Error trying to snapshot database: Database " +++ nm +++ " not found"))
          end) names acc)).
Proof.
  induction names as [|nm r IH]; intros n0 [m0 r0] H; cbn [fold_left]; auto.
  apply IH. cbn [fst] in H. destruct (get_db m0 nm); cbn [fst]; auto; fsame.
Qed.

(* every request except use-db is a frame *)
Lemma handle_frame n c rq : (forall t nm u, rq <> RqUseDb t nm u) -> frame n (fst (handle n c rq)).
Proof.
  intros Hrq. pose proof (frame_refl n) as H.
  destruct rq; unfold handle; cbn [fst];
    try (destruct (negb (s_auth (get_sess n c))); [exact H|]).
  - (* SetPermissions *)
    guard_tac H.
    destruct (set_key_value n dbn _ _ _) as [n1 r] eqn:Hs.
    assert (H1 : frame n n1) by (generalize (frame_set_key_value n n dbn ("$$permission_$" +++ user) (permissions_to_str_value perms) (-1) H); now rewrite Hs).
    destruct r; cbn [fst]; auto; destruct (is_primary n1); auto; now apply frame_send_to_primary.
  - (* Get *) guard_tac H. destruct (get_key_value_new d key). cbn [fst]. now apply frame_send.
  - (* GetSafe *) guard_tac H. destruct (get_key_value_new d key). cbn [fst]. now apply frame_send.
  - (* Remove *) guard_tac H. destruct (remove_value d key) as [[d' r] msgs] eqn:Hr. cbn [fst].
    assert (H1 : frame n (sends (put_db n dbn d') msgs)).
    { apply frame_sends. eapply frame_put_db; eauto. eapply conn_remove_value'; eauto. }
    destruct r; auto; destruct (is_primary _); auto; now apply frame_send_to_primary.
  - (* ReplicateRemove *)
    destruct (get_db n db) as [d|] eqn:Hd; [|exact H].
    destruct (remove_value d key) as [[d' r] msgs] eqn:Hr. cbn [fst].
    apply frame_sends. eapply frame_put_db; eauto. eapply conn_remove_value'; eauto.
  - (* Set *) guard_tac H.
    destruct (set_key_value n dbn key value version) as [n1 r] eqn:Hs.
    assert (H1 : frame n n1) by (generalize (frame_set_key_value n n dbn key value version H); now rewrite Hs).
    cbn [fst]. destruct (is_primary n1); auto; now apply frame_send_to_primary.
  - (* Increment *) guard_tac H. destruct (is_primary n).
    + unfold tick. destruct (inc_value d key inc (n_clock n)) as [[d' r] msgs] eqn:Hi. cbn [fst].
      apply frame_sends. eapply frame_put_db; [| exact Hg | eapply conn_inc_value'; eauto]. fsame.
    + cbn [fst]. now apply frame_send_to_primary.
  - (* ReplicateIncrement *)
    destruct (get_db n db) as [d|] eqn:Hd; [|exact H].
    unfold tick. destruct (inc_value d key inc (n_clock n)) as [[d' r] msgs] eqn:Hi. cbn [fst].
    apply frame_sends. eapply frame_put_db; [| exact Hd | eapply conn_inc_value'; eauto]. fsame.
  - (* ReplicateSet *)
    destruct (get_db n db) as [d|] eqn:Hd; [|exact H]. now apply frame_set_key_value.
  - (* Watch *) guard_tac H. cbn [fst]. eapply frame_put_db; eauto.
  - (* UnWatch *) guard_tac H. cbn [fst]. eapply frame_put_db; eauto.
  - (* UnWatchAll *) guard_tac H. cbn [fst]. eapply frame_put_db; eauto. apply conn_unwatch_all.
  - (* Auth *)
    apply frame_send. apply frame_put_sess; auto.
    destruct (_ && _); reflexivity.
  - (* CreateDb *)
    destruct (_ || _); [|exact H]. unfold tick.
    match goal with |- context [set_value ?e ?c] => destruct (set_value e c) as [[d0 r0] m0] eqn:Hs end.
    pose proof (conn_set_value' _ _ _ _ _ Hs) as Hc0. cbn in Hc0.
    match goal with |- context [add_database ?m name d0] =>
      destruct (add_database m name d0) as [n2 r] eqn:Ha;
      assert (H2 : frame n n2) by
        (assert (Hm : frame n m) by fsame; generalize (frame_add_database n m name d0 Hm Hc0); now rewrite Ha)
    end.
    destruct r; cbn [fst]; auto; now apply frame_send.
  - (* CreateUser *)
    guard_tac H.
    destruct (set_key_value n dbn _ _ _) as [n1 r] eqn:Hs.
    assert (H1 : frame n n1) by (generalize (frame_set_key_value n n dbn ("$$user_" +++ user_name) token (-1) H); now rewrite Hs).
    destruct r; cbn [fst]; auto; destruct (is_primary n1); auto; now apply frame_send_to_primary.
  - (* UseDb *) exfalso. eapply Hrq; reflexivity.
  - (* Snapshot *)
    destruct db_names as [|nm0 names].
    + destruct (s_db (get_sess n c)) as [dbn|]; [|exact H]. cbn [fst].
      destruct (get_db n dbn); auto; fsame.
    + match goal with |- context [filter ?f ?l] => destruct (filter f l) as [|m1 [|m2 ms]] end; cbn [fst]; auto; fsame.
  - (* ReplicateSnapshot *) apply frame_snapshot_fold. exact H.
  - (* Leave *) apply frame_start_new_election. now apply frame_push_sup.
  - (* ReplicateLeave *) now apply frame_push_sup.
  - (* Join *) destruct (_ || _); cbn [fst]; auto; apply frame_start_new_election; now apply frame_push_sup.
  - (* ReplicateJoin *) now apply frame_push_sup.
  - (* SetPrimary *)
    destruct (negb (is_primary n)); cbn [fst].
    + apply frame_put_sess; [|reflexivity]. apply frame_set_role. now apply frame_push_sup.
    + now apply frame_start_new_election.
  - (* SetSecondary *) apply frame_put_sess; auto.
  - (* ReplicateSince *) now apply frame_push_sup.
  - (* ClusterState *) now apply frame_send.
  - (* MetricsState *) now apply frame_send.
  - (* ElectionWin *) now apply frame_election_win.
  - (* Election *) now apply frame_election_eval.
  - (* ElectionActive *) exact H.
  - (* Keys *) guard_tac H. cbn [fst]. now apply frame_send.
  - (* ReplicateRequest *) exact H.
  - (* Acknowledge *) fsame.
  - (* Debug *)
    destruct (String.eqb command "pending-ops"); [now apply frame_send|].
    destruct (String.eqb command "pendding-conflitcts").
    { destruct (guard_db n c) as [dbn d|n' r'] eqn:G; cbn [fst].
      - now apply frame_send.
      - exact (guard_db_stop _ _ _ _ _ H G). }
    destruct (String.eqb command "list-dbs"); [now apply frame_send|].
    destruct (String.eqb command "force-election"); [now apply frame_start_new_election|].
    destruct (String.eqb command "process-info"); [now apply frame_send|]. exact H.
  - (* ListCommands *) now apply frame_send.
  - (* Arbiter *) guard_tac H. cbn [fst]. now apply frame_register_arbiter.
  - (* Resolve *)
    assert (Hrun : forall (b : bool) dbn0, frame n (if is_primary n || b
        then fst (resolve_conflict n dbn0 (mkCh key value version opp_id true))
        else send_to_primary n ("resolve " +++ N_to_str opp_id +++ " " +++ db_name +++ " " +++ key +++ " "
                                +++ Z_to_str version +++ " " +++ value))).
    { intros b dbn0. destruct (is_primary n || b).
      - now apply frame_resolve_conflict.
      - now apply frame_send_to_primary. }
    destruct (s_auth (get_sess n c)).
    + destruct (guard_db_name n c db_name None PRead) as [dbn0 d0|n' r'] eqn:G; cbn [fst].
      * apply Hrun.
      * exact (guard_db_name_stop _ _ _ _ _ _ _ _ H G).
    + destruct (guard_safe n c key PWrite) as [dbn0 d0|n' r'] eqn:G; cbn [fst].
      * apply Hrun.
      * exact (guard_safe_stop _ _ _ _ _ _ _ H G).
Qed.

Lemma frame_replicate_request n0 n rq seldb r : frame n0 n -> frame n0 (fst (replicate_request n rq seldb r)).
Proof.
  intros H. unfold replicate_request.
  destruct r; cbn [fst]; auto;
    (match goal with |- context [if ?b then _ else _] => destruct b end; cbn [fst]; auto;
     destruct rq; cbn [fst]; auto; now apply frame_replicate_web).
Qed.

(* ------------------------------------------------------------------------- *)
(* the invariant is stable under frames                                      *)
(* ------------------------------------------------------------------------- *)
Lemma selected_sdbs n n' op dbn : sdbs n' = sdbs n -> selected n' op dbn = selected n op dbn.
Proof.
  intros H. unfold selected. apply filter_ext. intros c. now rewrite (sdbs_get_sess _ _ H).
Qed.

Lemma frame_exists n n' dbn : frame n n' -> get_db n dbn <> None -> get_db n' dbn <> None.
Proof.
  intros [_ H] Hn. specialize (H dbn). destruct (get_db n dbn); [|congruence].
  destruct (get_db n' dbn); [congruence|contradiction].
Qed.

Lemma selected_nil n op dbn : sel_exists n -> get_db n dbn = None -> selected n op dbn = [].
Proof.
  intros Hs Hd. unfold selected. induction op as [|c r IH]; cbn; auto.
  destruct (s_db (get_sess n c)) as [x|] eqn:E; auto.
  destruct (String.eqb_spec x dbn) as [->|]; auto.
  exfalso. exact (Hs _ _ E Hd).
Qed.

Lemma frame_ConnInv n n' op : frame n n' -> ConnInv (n, op) -> ConnInv (n', op).
Proof.
  intros Hf (Hnd & Hlt & Hcnt & Hse). pose proof Hf as [Hs Hc].
  split; [exact Hnd|]. split; [|split].
  - intros c Hin. rewrite (sdbs_length _ _ Hs). auto.
  - intros dbn d' Hd'. rewrite (selected_sdbs _ _ _ _ Hs).
    specialize (Hc dbn). rewrite Hd' in Hc. destruct (get_db n dbn) as [d|] eqn:Hd; cbn in Hc.
    + rewrite Hc. eauto.
    + rewrite Hc, selected_nil; auto.
  - intros c dbn E. rewrite (sdbs_get_sess _ _ Hs) in E.
    eapply frame_exists; eauto.
Qed.

(* ------------------------------------------------------------------------- *)
(* Client::left closes a session                                             *)
(* ------------------------------------------------------------------------- *)
Lemma selected_rm n c op dbn : selected n (rm c op) dbn = filter (selb n dbn) (rm c op).
Proof. reflexivity. Qed.

Lemma client_left_ConnInv n c op : ConnInv (n, op) -> In c op -> ConnInv (client_left n c, rm c op).
Proof.
  intros (Hnd & Hlt & Hcnt & Hse) Hin. unfold client_left.
  destruct (s_db (get_sess n c)) as [dbc|] eqn:Hsel.
  - destruct (get_db n dbc) as [d|] eqn:Hd; [|exfalso; exact (Hse _ _ Hsel Hd)].
    eapply frame_ConnInv; [apply frame_set_connection_counter, frame_refl|].
    split; [now apply NoDup_rm|]. split; [|split].
    + intros x Hx. apply rm_In in Hx. apply Hlt. tauto.
    + intros dbn d'. rewrite get_db_put. unfold selected.
      change (filter _ (rm c op)) with (filter (selb (put_db n dbc (db_set_conn d (d_conn d - 1))) dbn) (rm c op)).
      change (selb (put_db n dbc (db_set_conn d (d_conn d - 1))) dbn) with (selb n dbn).
      pose proof (count_split (selb n dbn) c op Hnd Hin) as Hcs.
      destruct (String.eqb_spec dbn dbc) as [->|Hne].
      * intros [= <-]. cbn. rewrite (Hcnt _ _ Hd). unfold selected.
        change (filter _ op) with (filter (selb n dbc) op). rewrite Hcs.
        unfold selb at 1. rewrite Hsel, String.eqb_refl. lia.
      * intros Hd'. rewrite (Hcnt _ _ Hd'). unfold selected.
        change (filter _ op) with (filter (selb n dbn) op). rewrite Hcs.
        unfold selb at 1. rewrite Hsel.
        destruct (String.eqb_spec dbc dbn); [congruence|]. reflexivity.
    + intros x dbn E. change (s_db (get_sess n x) = Some dbn) in E.
      rewrite get_db_put. destruct (String.eqb dbn dbc); [congruence|]. eauto.
  - split; [now apply NoDup_rm|]. split; [|split]; auto.
    + intros x Hx. apply rm_In in Hx. apply Hlt. tauto.
    + intros dbn d' Hd'. rewrite (Hcnt _ _ Hd'). unfold selected.
      change (filter _ op) with (filter (selb n dbn) op).
      change (filter _ (rm c op)) with (filter (selb n dbn) (rm c op)).
      rewrite count_rm_false; auto. unfold selb. now rewrite Hsel.
Qed.

(* databases are never removed *)
Definition dbs_mono (n n' : node) : Prop := forall dbn, get_db n dbn <> None -> get_db n' dbn <> None.

Lemma dbs_mono_refl n : dbs_mono n n. Proof. intros x; auto. Qed.
Lemma dbs_mono_trans a b c : dbs_mono a b -> dbs_mono b c -> dbs_mono a c.
Proof. intros H1 H2 x Hx. auto. Qed.
Lemma frame_mono n n' : frame n n' -> dbs_mono n n'.
Proof. intros H x. now apply frame_exists. Qed.
Lemma put_db_mono n k d : dbs_mono n (put_db n k d).
Proof. intros x Hx. rewrite get_db_put. destruct (String.eqb x k); congruence. Qed.

Lemma client_left_mono n c : dbs_mono n (client_left n c).
Proof.
  unfold client_left. destruct (s_db _); [|apply dbs_mono_refl].
  destruct (get_db n s) eqn:Hd; [|apply dbs_mono_refl].
  eapply dbs_mono_trans; [apply put_db_mono|]. apply frame_mono.
  apply frame_set_connection_counter, frame_refl.
Qed.

Lemma client_left_sdbs n c : sdbs (client_left n c) = sdbs n.
Proof.
  unfold client_left. destruct (s_db _); [|reflexivity].
  destruct (get_db n s) eqn:Hd; [|reflexivity].
  match goal with |- sdbs (set_connection_counter ?m _) = _ =>
    destruct (frame_set_connection_counter m m s (frame_refl m)) as [E _]; rewrite E end.
  reflexivity.
Qed.

(* ------------------------------------------------------------------------- *)
(* use-db                                                                    *)
(* ------------------------------------------------------------------------- *)
Lemma get_sess_put_sess n c s x :
  get_sess (put_sess n c s) x = if Nat.eqb c x && Nat.ltb c (List.length (n_sess n)) then s else get_sess n x.
Proof. unfold get_sess, put_sess. cbn. apply nth_list_update. Qed.

Lemma usedb_ConnInv n c op t name u :
  ConnInv (n, op) -> In c op -> ConnInv (fst (handle n c (RqUseDb t name u)), op).
Proof.
  intros HI Hin. unfold handle.
  destruct (get_db n name) as [d|] eqn:Hd; [|exact HI].
  match goal with |- context [if ?b then _ else _] => destruct b; [|exact HI] end.
  unfold release_previous.
  pose proof (client_left_ConnInv n c op HI Hin) as (Hnd0 & Hlt0 & Hcnt0 & Hse0).
  destruct HI as (Hnd & Hlt & Hcnt & Hse).
  set (n0 := client_left n c) in *.
  assert (Hlen0 : List.length (n_sess n0) = List.length (n_sess n)) by (apply sdbs_length, client_left_sdbs).
  assert (Hd0 : get_db n0 name <> None) by (apply client_left_mono; congruence).
  match goal with |- context [put_sess n0 c ?s] => set (n1 := put_sess n0 c s) end.
  assert (Hc1 : s_db (get_sess n1 c) = Some name).
  { unfold n1. rewrite get_sess_put_sess, Nat.eqb_refl.
    assert (E : Nat.ltb c (List.length (n_sess n0)) = true) by (apply Nat.ltb_lt; rewrite Hlen0; auto).
    rewrite E. reflexivity. }
  assert (Hx1 : forall x, x <> c -> get_sess n1 x = get_sess n0 x).
  { intros x Hx. unfold n1. rewrite get_sess_put_sess.
    destruct (Nat.eqb_spec c x); [congruence|]. reflexivity. }
  change (get_db n1 name) with (get_db n0 name).
  destruct (get_db n0 name) as [d1|] eqn:Hd1; [|congruence]. cbn [fst].
  eapply frame_ConnInv; [apply frame_set_connection_counter, frame_refl|].
  split; [exact Hnd|]. split; [|split].
  - intros x Hx. change (x < List.length (n_sess n1))%nat. unfold n1, put_sess. cbn.
    rewrite list_update_length, Hlen0. auto.
  - intros dbn d'. rewrite get_db_put. unfold selected.
    change (filter _ op) with (filter (selb n1 dbn) op).
    rewrite (count_split (selb n1 dbn) c op Hnd Hin).
    assert (Hrest : filter (selb n1 dbn) (rm c op) = filter (selb n0 dbn) (rm c op)).
    { apply filter_ext_in. intros x Hx. apply rm_In in Hx. unfold selb. rewrite Hx1; tauto. }
    rewrite Hrest. unfold selb at 1. rewrite Hc1.
    destruct (String.eqb_spec dbn name) as [->|Hne].
    + intros [= <-]. cbn [d_conn db_set_conn]. rewrite (Hcnt0 _ _ Hd1), String.eqb_refl.
      unfold selected. change (filter _ (rm c op)) with (filter (selb n0 name) (rm c op)). lia.
    + intros Hd'. change (get_db n0 dbn = Some d') in Hd'. rewrite (Hcnt0 _ _ Hd').
      destruct (String.eqb_spec name dbn); [congruence|]. reflexivity.
  - intros x dbn E. change (s_db (get_sess n1 x) = Some dbn) in E.
    rewrite get_db_put. destruct (String.eqb_spec dbn name) as [->|Hne]; [congruence|].
    change (get_db n0 dbn <> None).
    destruct (Nat.eq_dec x c) as [->|Hxc].
    + rewrite Hc1 in E. congruence.
    + rewrite Hx1 in E by auto. eauto.
Qed.

Lemma usedb_mono n c t name u : dbs_mono n (fst (handle n c (RqUseDb t name u))).
Proof.
  unfold handle.
  destruct (get_db n name) as [d|] eqn:Hd; [|apply dbs_mono_refl].
  match goal with |- context [if ?b then _ else _] => destruct b; [|apply dbs_mono_refl] end.
  unfold release_previous.
  match goal with |- context [put_sess ?m c ?s] => set (n1 := put_sess m c s) end.
  assert (H1 : dbs_mono n n1) by (intros x Hx; change (get_db (client_left n c) x <> None); now apply client_left_mono).
  destruct (get_db n1 name) eqn:Hd1; cbn [fst]; auto.
  eapply dbs_mono_trans; [exact H1|]. eapply dbs_mono_trans; [apply put_db_mono|].
  apply frame_mono, frame_set_connection_counter, frame_refl.
Qed.

(* ------------------------------------------------------------------------- *)
(* process / step                                                            *)
(* ------------------------------------------------------------------------- *)
Definition is_usedb (rq : request) : bool := match rq with RqUseDb _ _ _ => true | _ => false end.

Lemma handle_ConnInv n c op rq : ConnInv (n, op) -> In c op -> ConnInv (fst (handle n c rq), op).
Proof.
  intros HI Hin. destruct (is_usedb rq) eqn:E.
  - destruct rq; try discriminate. now apply usedb_ConnInv.
  - eapply frame_ConnInv; [|exact HI]. apply handle_frame. intros t nm u ->. discriminate.
Qed.

Lemma handle_mono n c rq : dbs_mono n (fst (handle n c rq)).
Proof.
  destruct (is_usedb rq) eqn:E.
  - destruct rq; try discriminate. apply usedb_mono.
  - apply frame_mono, handle_frame. intros t nm u ->. discriminate.
Qed.

Lemma process_ConnInv fuel : forall n c line op,
  ConnInv (n, op) -> In c op -> ConnInv (fst (process fuel n c line), op).
Proof.
  induction fuel as [|k IH]; intros n c line op HI Hin; cbn [process]; [exact HI|].
  destruct (parse_request (trim_char nl line)) as [rq|e|]; [|exact HI|exact HI].
  match goal with |- context [let '(n1, r) := ?X in _] =>
    assert (HX : ConnInv (fst X, op)); [|destruct X as [n1 r]] end.
  - destruct rq; try now apply handle_ConnInv.
    destruct (negb (s_auth (get_sess n c))); [exact HI|].
    apply IH; auto. eapply frame_ConnInv; [|exact HI]. apply frame_send, frame_refl.
  - cbn [fst] in HX. eapply frame_ConnInv; [|exact HX]. apply frame_replicate_request, frame_refl.
Qed.

Lemma process_mono fuel : forall n c line, dbs_mono n (fst (process fuel n c line)).
Proof.
  induction fuel as [|k IH]; intros n c line; cbn [process]; [apply dbs_mono_refl|].
  destruct (parse_request (trim_char nl line)) as [rq|e|]; try apply dbs_mono_refl.
  match goal with |- context [let '(n1, r) := ?X in _] =>
    assert (HX : dbs_mono n (fst X)); [|destruct X as [n1 r]] end.
  - destruct rq; try now apply handle_mono.
    destruct (negb (s_auth (get_sess n c))); [apply dbs_mono_refl|].
    eapply dbs_mono_trans; [|apply IH]. apply frame_mono, frame_send, frame_refl.
  - cbn [fst] in HX. eapply dbs_mono_trans; [exact HX|]. apply frame_mono, frame_replicate_request, frame_refl.
Qed.

Lemma step_ConnInv n c line op : ConnInv (n, op) -> In c op -> ConnInv (fst (step n c line), op).
Proof. apply process_ConnInv. Qed.

(* ------------------------------------------------------------------------- *)
(* connect                                                                   *)
(* ------------------------------------------------------------------------- *)
Lemma get_sess_connect n x : get_sess (fst (connect n)) x = get_sess n x.
Proof.
  unfold connect, get_sess. cbn.
  destruct (Nat.lt_ge_cases x (List.length (n_sess n))) as [Hlt|Hge].
  - now apply app_nth1.
  - rewrite app_nth2 by lia. rewrite (nth_overflow (n_sess n)) by lia.
    destruct (x - List.length (n_sess n))%nat as [|[|k]]; reflexivity.
Qed.

Lemma connect_ConnInv n op : ConnInv (n, op) -> ConnInv (fst (connect n), op ++ [snd (connect n)]).
Proof.
  intros (Hnd & Hlt & Hcnt & Hse). split; [|split; [|split]].
  - apply nodup_snoc; auto. cbn. intros Hin. apply Hlt in Hin. lia.
  - intros x Hx. cbn. rewrite app_length. cbn. apply in_app_or in Hx. destruct Hx as [Hx|[<-|[]]].
    + apply Hlt in Hx. lia.
    + cbn. lia.
  - intros dbn d Hd. change (get_db n dbn = Some d) in Hd. rewrite (Hcnt _ _ Hd).
    unfold selected. rewrite filter_app, app_length.
    assert (E1 : forall l, filter (fun c => match s_db (get_sess (fst (connect n)) c) with
                                 | Some x => String.eqb x dbn | None => false end) l
                 = filter (fun c => match s_db (get_sess n c) with
                                 | Some x => String.eqb x dbn | None => false end) l).
    { intros l. apply filter_ext. intros x. now rewrite get_sess_connect. }
    rewrite !E1. cbn [filter snd connect].
    assert (E2 : s_db (get_sess n (List.length (n_sess n))) = None).
    { unfold get_sess. rewrite nth_overflow by lia. reflexivity. }
    rewrite E2. cbn. lia.
  - intros x dbn E. rewrite get_sess_connect in E. exact (Hse _ _ E).
Qed.

(* ------------------------------------------------------------------------- *)
(* Theorems 1-3                                                              *)
(* ------------------------------------------------------------------------- *)
Theorem conn_init : forall u p a pid r c0, ConnInv (init_node u p a pid r c0, []).
Proof.
  intros. split; [constructor|]. split; [intros c []|]. split.
  - intros dbn d Hd. cbn [selected filter List.length]. unfold init_node, tick in Hd.
    repeat match type of Hd with context [set_value ?e ?c] =>
      let H := fresh "Hs" in destruct (set_value e c) as [[? ?] ?] eqn:H;
      apply conn_set_value' in H end.
    cbn -[String.eqb] in Hd. rewrite String.eqb_refl in Hd. cbn -[String.eqb] in Hd.
    destruct (String.eqb dbn "$admin"); [|discriminate].
    injection Hd as <-. cbn in *. congruence.
  - intros c dbn E. exfalso. unfold init_node, tick in E.
    repeat match type of E with context [set_value ?e ?c] => destruct (set_value e c) as [[? ?] ?] end.
    unfold get_sess in E. cbn in E. destruct c; discriminate.
Qed.

Theorem conn_step st e : ConnInv st -> ev_ok (snd st) e = true -> ConnInv (nstep st e).
Proof.
  destruct st as [n op]. intros HI Hok. destruct e as [|c line|c]; cbn [nstep].
  - pose proof (connect_ConnInv n op HI) as H. destruct (connect n) as [n' c]. exact H.
  - cbn in Hok. apply existsb_eqb_In in Hok. now apply step_ConnInv.
  - cbn in Hok. apply existsb_eqb_In in Hok. unfold disconnect.
    apply client_left_ConnInv; auto. now apply step_ConnInv.
Qed.

Theorem conn_run evs : forall st, ConnInv st -> run_ok st evs = true -> ConnInv (fold_left nstep evs st).
Proof.
  induction evs as [|e r IH]; intros st HI Hok; cbn; auto.
  cbn in Hok. apply andb_prop in Hok. destruct Hok as [H1 H2].
  apply IH; auto. now apply conn_step.
Qed.

Theorem conn_never_negative st evs : ConnInv st -> run_ok st evs = true ->
  forall dbn d, get_db (fst (fold_left nstep evs st)) dbn = Some d -> 0 <= d_conn d.
Proof.
  intros HI Hok dbn d Hd. pose proof (conn_run evs st HI Hok) as HF.
  destruct (fold_left nstep evs st) as [n' op']. destruct HF as (_ & _ & Hcnt & _).
  rewrite (Hcnt _ _ Hd). lia.
Qed.

Lemma nstep_mono st e : dbs_mono (fst st) (fst (nstep st e)).
Proof.
  destruct st as [n op]. destruct e as [|c line|c]; cbn [nstep fst].
  - intros x Hx. exact Hx.
  - apply process_mono.
  - unfold disconnect. eapply dbs_mono_trans; [apply process_mono|apply client_left_mono].
Qed.

Lemma run_mono evs : forall st, dbs_mono (fst st) (fst (fold_left nstep evs st)).
Proof.
  induction evs as [|e r IH]; intros st; cbn; [apply dbs_mono_refl|].
  eapply dbs_mono_trans; [apply nstep_mono|apply IH].
Qed.

Theorem conn_back_to_previous st evs : ConnInv st -> run_ok st evs = true ->
  let final := fold_left nstep evs st in
  snd final = snd st ->
  (forall c, In c (snd st) -> s_db (get_sess (fst final) c) = s_db (get_sess (fst st) c)) ->
  forall dbn d, get_db (fst st) dbn = Some d ->
    exists d', get_db (fst final) dbn = Some d' /\ d_conn d' = d_conn d.
Proof.
  intros HI Hok final Hop Hsel dbn d Hd.
  pose proof (conn_run evs st HI Hok) as HF. fold final in HF.
  pose proof (run_mono evs st dbn) as Hm. fold final in Hm.
  destruct st as [n op], final as [n' op']. cbn [fst snd] in *. subst op'.
  destruct (get_db n' dbn) as [d'|] eqn:Hd'; [|exfalso; apply Hm; congruence].
  exists d'. split; auto.
  destruct HI as (_ & _ & Hcnt & _), HF as (_ & _ & Hcnt' & _).
  rewrite (Hcnt _ _ Hd), (Hcnt' _ _ Hd'). f_equal. f_equal.
  unfold selected. apply filter_ext_in. intros c Hc. now rewrite Hsel.
Qed.

(* ------------------------------------------------------------------------- *)
(* Why [sel_exists] was added: the requested three-conjunct invariant is not   *)
(* inductive.                                                                *)
(* ------------------------------------------------------------------------- *)
Definition ConnInv0 (st : node * list nat) : Prop :=
  let '(n, op) := st in
  NoDup op /\ (forall c, In c op -> (c < List.length (n_sess n))%nat) /\
  forall dbn d, get_db n dbn = Some d -> d_conn d = Z.of_nat (List.length (selected n op dbn)).

Definition cex_node : node :=
  n_set_sess (init_node "u" "p" "a" 1 Primary 0) [mkSess true (Some "foo") None None []].

Example conn_inv_needs_sel_exists :
  ConnInv0 (cex_node, [0%nat]) /\ ev_ok [0%nat] (ECmd 0 "create-db foo tok") = true /\
  ~ ConnInv0 (nstep (cex_node, [0%nat]) (ECmd 0 "create-db foo tok")).
Proof.
  split; [|split; [reflexivity|]].
  - split; [repeat constructor; intros []|]. split.
    + intros c [<-|[]]. cbn. lia.
    + intros dbn d Hd. unfold get_db in Hd.
      set (l := n_dbs cex_node) in Hd. vm_compute in l. subst l.
      cbn -[String.eqb] in Hd. destruct (String.eqb_spec dbn "$admin") as [->|]; [|discriminate].
      injection Hd as <-. reflexivity.
  - intros (_ & _ & H). specialize (H "foo").
    vm_compute in H. specialize (H _ eq_refl). discriminate H.
Qed.

(* ------------------------------------------------------------------------- *)
(* Part 5: a failed use-db changes nothing                                   *)
(* ------------------------------------------------------------------------- *)
Theorem usedb_wrong_token_noop n c token name user n' msg :
  handle n c (RqUseDb token name user) = (n', RError msg) -> n' = n.
Proof.
  unfold handle. destruct (get_db n name) as [d|]; [|intros [= <- _]; reflexivity].
  match goal with |- context [if ?b then _ else _] => destruct b end; [|intros [= <- _]; reflexivity].
  match goal with |- context [match ?o with Some _ => _ | None => _ end = _] => destruct o end; discriminate.
Qed.

(* ------------------------------------------------------------------------- *)
(* Part 4: the "$connections" data key                                        *)
(* ------------------------------------------------------------------------- *)
Definition ckey : str := "$connections".

Definition conn_key_ok (n : node) : Prop :=
  forall dbn d v, get_db n dbn = Some d -> get_value d "$connections" = Some v ->
    v_st v <> VDeleted -> v_val v = Z_to_str (d_conn d).

(* the key can be rewritten by set_value with version -1: not in conflict state, version not saturated *)
Definition writable (d : db) : Prop :=
  forall v, get_value d ckey = Some v -> v_ver v <> -2 /\ v_ver v < i32_max.

(* versions of every "$connections" key lie in [0, B] *)
Definition VerInv (B : Z) (n : node) : Prop :=
  forall dbn d v, get_db n dbn = Some d -> get_value d ckey = Some v -> 0 <= v_ver v <= B.

Definition KInv (B : Z) (n : node) : Prop := VerInv B n /\ conn_key_ok n.

Definition new_conn_value (d : db) (opp : N) : value :=
  match get_value d ckey with
  | Some old => mkV (Z_to_str (d_conn d)) (v_ver old + 1) opp (upd_state old) (v_vaddr old) (v_kaddr old)
  | None => mkV (Z_to_str (d_conn d)) 0 opp VNew 0 0
  end.

Lemma set_value_writable d val opp : writable d ->
  set_value d (mkCh ckey val (-1) opp false) =
  (put_value d ckey (match get_value d ckey with
                     | Some old => mkV val (v_ver old + 1) opp (upd_state old) (v_vaddr old) (v_kaddr old)
                     | None => mkV val 0 opp VNew 0 0 end),
   RSet ckey val,
   notify_msgs d ckey val (match get_value d ckey with Some old => v_ver old + 1 | None => 0 end)).
Proof.
  intros Hw. unfold set_value. cbn [c_key c_val c_ver c_opp c_resolve].
  destruct (get_value d ckey) as [old|] eqn:Hg; [|reflexivity].
  destruct (Hw old Hg) as [H2 Hmax].
  unfold next_version, in_conflict. cbn [c_key c_val c_ver c_opp c_resolve].
  change (Z.eqb (-1) (-2)) with false. change (Z.eqb (-1) (-1)) with true. cbn [negb andb].
  destruct (Z.eqb_spec (v_ver old) (-2)) as [|_]; [contradiction|].
  unfold sat_succ. destruct (Z.ltb_spec (v_ver old) i32_max) as [_|]; [|lia].
  destruct (Z.leb_spec (v_ver old + 1) (v_ver old)) as [|_]; [lia|]. reflexivity.
Qed.

Lemma scc_eq n dbn d : get_db n dbn = Some d -> writable d ->
  set_connection_counter n dbn =
  sends (put_db (n_set_clock n (n_clock n + 1)) dbn (put_value d ckey (new_conn_value d (n_clock n))))
        (notify_msgs d ckey (Z_to_str (d_conn d)) (v_ver (new_conn_value d (n_clock n)))).
Proof.
  intros Hd Hw. unfold set_connection_counter. rewrite Hd.
  unfold set_key_value, tick, apply_change.
  change (get_db (n_set_clock n (n_clock n + 1)%N) dbn) with (get_db n dbn). rewrite Hd.
  fold ckey. rewrite (set_value_writable d _ _ Hw). cbn [fst].
  unfold new_conn_value. destruct (get_value d ckey); reflexivity.
Qed.

Lemma scc_get_db n dbn d x : get_db n dbn = Some d -> writable d ->
  get_db (set_connection_counter n dbn) x =
  if String.eqb x dbn then Some (put_value d ckey (new_conn_value d (n_clock n))) else get_db n x.
Proof.
  intros Hd Hw. rewrite (scc_eq _ _ _ Hd Hw), get_db_sends, get_db_put. reflexivity.
Qed.

Lemma get_put_value_same d k v : get_value (put_value d k v) k = Some v.
Proof. unfold get_value, put_value. cbn. apply get_set_same. apply String.eqb_spec. Qed.

Lemma KInv_weaken B B' n : B <= B' -> KInv B n -> KInv B' n.
Proof. intros Hle [Hv Hk]. split; auto. intros dbn d v Hd Hg. specialize (Hv _ _ _ Hd Hg). lia. Qed.

Lemma KInv_dbs B n n' : n_dbs n' = n_dbs n -> KInv B n -> KInv B n'.
Proof. unfold KInv, VerInv, conn_key_ok, get_db. intros ->. auto. Qed.

(* change the counter of [dbn] to any value, then rewrite the key *)
Lemma KInv_bump B n dbn d z : KInv B n -> 0 <= B < i32_max -> get_db n dbn = Some d ->
  KInv (B + 1) (set_connection_counter (put_db n dbn (db_set_conn d z)) dbn).
Proof.
  intros [Hv Hk] HB Hd.
  set (m := put_db n dbn (db_set_conn d z)).
  assert (Hm : get_db m dbn = Some (db_set_conn d z)) by apply get_db_put_same.
  assert (Hw : writable (db_set_conn d z)).
  { intros v Hg. change (get_value d ckey = Some v) in Hg. specialize (Hv _ _ _ Hd Hg). lia. }
  split.
  - intros x dx v. rewrite (scc_get_db _ _ _ _ Hm Hw).
    destruct (String.eqb_spec x dbn) as [->|Hne].
    + intros [= <-]. rewrite get_put_value_same. intros [= <-].
      unfold new_conn_value. change (get_value (db_set_conn d z) ckey) with (get_value d ckey).
      destruct (get_value d ckey) as [old|] eqn:Hg; cbn [v_ver]; [|lia].
      specialize (Hv _ _ _ Hd Hg). lia.
    + unfold m. rewrite get_db_put_other by auto. intros Hx Hg. specialize (Hv _ _ _ Hx Hg). lia.
  - intros x dx v. rewrite (scc_get_db _ _ _ _ Hm Hw).
    destruct (String.eqb_spec x dbn) as [->|Hne].
    + intros [= <-]. fold ckey. rewrite get_put_value_same. intros [= <-] _.
      unfold new_conn_value. destruct (get_value (db_set_conn d z) ckey); reflexivity.
    + unfold m. rewrite get_db_put_other by auto. apply Hk.
Qed.

Lemma KInv_client_left B n c : KInv B n -> 0 <= B < i32_max -> KInv (B + 1) (client_left n c).
Proof.
  intros HK HB. unfold client_left.
  destruct (s_db _) as [dbn|]; [|eapply KInv_weaken; [|exact HK]; lia].
  destruct (get_db n dbn) as [d|] eqn:Hd; [|eapply KInv_weaken; [|exact HK]; lia].
  now apply KInv_bump.
Qed.

Lemma KInv_usedb B n c t name u : KInv B n -> 0 <= B -> B + 1 < i32_max ->
  KInv (B + 2) (fst (handle n c (RqUseDb t name u))).
Proof.
  intros HK HB0 HB. unfold handle.
  destruct (get_db n name) as [d|]; [|eapply KInv_weaken; [|exact HK]; lia].
  match goal with |- context [if ?b then _ else _] => destruct b end; [|eapply KInv_weaken; [|exact HK]; lia].
  unfold release_previous.
  assert (H0 : KInv (B + 1) (client_left n c)) by (apply KInv_client_left; auto; lia).
  match goal with |- context [put_sess ?m c ?s] => set (n1 := put_sess m c s) end.
  assert (H1 : KInv (B + 1) n1) by (eapply KInv_dbs; [|exact H0]; reflexivity).
  destruct (get_db n1 name) as [d1|] eqn:Hd1; cbn [fst].
  - replace (B + 2) with (B + 1 + 1) by lia. apply KInv_bump; auto. lia.
  - eapply KInv_weaken; [|exact H1]. lia.
Qed.

(* unwatch-all *)
Lemma map_unwatch_all d c : d_map (unwatch_all d c) = d_map d.
Proof.
  unfold unwatch_all. generalize (map fst (d_watch d)). intros l. revert d.
  induction l as [|k r IH]; intros d; cbn; auto. now rewrite IH.
Qed.

Lemma step_unwatch_all n c :
  fst (step n c "unwatch-all") = fst (handle n c RqUnWatchAll).
Proof.
  unfold step. change (String.length "unwatch-all") with 11%nat. cbn [process].
  replace (parse_request (trim_char nl "unwatch-all")) with (POk RqUnWatchAll) by (vm_compute; reflexivity).
  destruct (handle n c RqUnWatchAll) as [n1 r]. cbn [fst].
  unfold replicate_request. destruct r; try reflexivity;
    match goal with |- context [if ?b then _ else _] => destruct b end; reflexivity.
Qed.

Lemma KInv_put_db_same B n dbn d d' : KInv B n -> get_db n dbn = Some d ->
  d_map d' = d_map d -> d_conn d' = d_conn d -> KInv B (put_db n dbn d').
Proof.
  intros [Hv Hk] Hd Hm Hc. split.
  - intros x dx v. rewrite get_db_put. destruct (String.eqb_spec x dbn) as [->|Hne].
    + intros [= <-]. unfold get_value. rewrite Hm. apply (Hv _ _ _ Hd).
    + apply Hv.
  - intros x dx v. rewrite get_db_put. destruct (String.eqb_spec x dbn) as [->|Hne].
    + intros [= <-]. unfold get_value. rewrite Hm, Hc. apply (Hk _ _ _ Hd).
    + apply Hk.
Qed.

Lemma KInv_unwatch_all B n c : KInv B n -> KInv B (fst (step n c "unwatch-all")).
Proof.
  intros HK. rewrite step_unwatch_all. unfold handle.
  destruct (guard_db n c) as [dbn d|n' r] eqn:G; cbn [fst].
  - apply guard_db_go in G. eapply KInv_put_db_same; eauto.
    + apply map_unwatch_all.
    + apply conn_unwatch_all.
  - revert G. unfold guard_db, guard_db_name, reject_no_db.
    destruct (s_db _) as [dbn|]; [destruct (get_db n dbn)|]; try discriminate;
      intros [= <- _]; (eapply KInv_dbs; [|exact HK]; reflexivity).
Qed.

Lemma KInv_disconnect B n c : KInv B n -> 0 <= B < i32_max -> KInv (B + 1) (disconnect n c).
Proof.
  intros HK HB. unfold disconnect. apply KInv_client_left; auto. now apply KInv_unwatch_all.
Qed.

(* runs restricted to connection management *)
Definition conn_cmd (e : nev) : Prop :=
  match e with
  | ECmd c line => exists rq, parse_request (trim_char nl line) = POk rq /\ (exists t nm u, rq = RqUseDb t nm u)
  | _ => True
  end.

Lemma step_usedb n c line t nm u : parse_request (trim_char nl line) = POk (RqUseDb t nm u) ->
  fst (step n c line) = fst (handle n c (RqUseDb t nm u)).
Proof.
  intros Hp. unfold step. cbn [process]. rewrite Hp.
  destruct (handle n c (RqUseDb t nm u)) as [n1 r]. cbn [fst].
  unfold replicate_request. destruct r; try reflexivity;
    match goal with |- context [if ?b then _ else _] => destruct b end; reflexivity.
Qed.

Lemma KInv_nstep B st e : KInv B (fst st) -> 0 <= B -> B + 2 <= i32_max -> conn_cmd e -> KInv (B + 2) (fst (nstep st e)).
Proof.
  destruct st as [n op]. cbn [fst]. intros HK HB0 HB He. destruct e as [|c line|c]; cbn [nstep fst].
  - eapply KInv_weaken; [|eapply KInv_dbs; [|exact HK]]; [lia|reflexivity].
  - destruct He as (rq & Hp & t & nm & u & ->). rewrite (step_usedb _ _ _ _ _ _ Hp).
    apply KInv_usedb; auto. lia.
  - eapply KInv_weaken; [|apply KInv_disconnect; [exact HK|]]; lia.
Qed.

Lemma KInv_run evs : forall B st, KInv B (fst st) -> 0 <= B ->
  B + 2 * Z.of_nat (List.length evs) <= i32_max -> Forall conn_cmd evs ->
  KInv (B + 2 * Z.of_nat (List.length evs)) (fst (fold_left nstep evs st)).
Proof.
  induction evs as [|e r IH]; intros B st HK HB0 HB HF.
  - cbn. now replace (B + 0) with B by lia.
  - inversion HF as [|? ? He Hr]; subst. cbn [fold_left].
    replace (B + 2 * Z.of_nat (List.length (e :: r))) with (B + 2 + 2 * Z.of_nat (List.length r))
      in * by (cbn [List.length]; lia).
    apply IH; auto; try lia. apply KInv_nstep; auto. lia.
Qed.

(* The data key follows the counter along connection-management runs, as long as the key's
   version neither is the conflict marker -2 nor saturates at i32::MAX: every rewrite adds
   one to the version, a use-db rewrites at most twice, so a budget of 2 per event is enough. *)
Theorem conn_key_run st evs B :
  conn_key_ok (fst st) -> VerInv B (fst st) -> 0 <= B ->
  B + 2 * Z.of_nat (List.length evs) <= i32_max ->
  Forall conn_cmd evs ->
  conn_key_ok (fst (fold_left nstep evs st)).
Proof.
  intros Hk Hv HB0 HB HF. exact (proj2 (KInv_run evs B st (conj Hv Hk) HB0 HB HF)).
Qed.

(* a fresh node has no "$connections" key at all *)
Lemma KInv_init u p a pid r c0 : KInv 0 (init_node u p a pid r c0).
Proof.
  assert (H : forall dbn d, get_db (init_node u p a pid r c0) dbn = Some d -> get_value d ckey = None).
  { assert (E : exists v1 v2, n_dbs (init_node u p a pid r c0) =
                 [("$admin", mkDb [("$$token", v1); ("$admin", v2)] [] 0 0 SNewer)])
      by (eexists; eexists; vm_compute; reflexivity).
    destruct E as (v1 & v2 & E). intros dbn d Hd. unfold get_db in Hd. rewrite E in Hd.
    cbn [assoc_get] in Hd. destruct (String.eqb dbn "$admin"); [|discriminate].
    injection Hd as <-. reflexivity. }
  split.
  - intros dbn d v Hd Hg. rewrite (H _ _ Hd) in Hg. discriminate.
  - intros dbn d v Hd Hg. fold ckey in Hg. rewrite (H _ _ Hd) in Hg. discriminate.
Qed.

Corollary conn_key_run_from_init u p a pid r c0 evs :
  2 * Z.of_nat (List.length evs) <= i32_max -> Forall conn_cmd evs ->
  conn_key_ok (fst (fold_left nstep evs (init_node u p a pid r c0, []))).
Proof.
  intros HB HF. destruct (KInv_init u p a pid r c0) as [Hv Hk].
  eapply conn_key_run with (B := 0); eauto. lia.
Qed.

(* ------------------------------------------------------------------------- *)
(* The version side conditions are necessary: two witnesses                   *)
(* ------------------------------------------------------------------------- *)
Definition kx_st0 : node * list nat := (init_node "u" "p" "a" 1 Primary 0, []).

(* (a) version saturated at i32::MAX: the counter moves on, the key is stuck *)
Definition kx_sat : node * list nat :=
  fold_left nstep [EConnect; ECmd 0 "use-db $admin p"; ECmd 0 "set-safe $connections 2147483646 1"] kx_st0.
Definition kx_run : list nev := [EConnect; ECmd 1 "use-db $admin p"].

Ltac conn_key_concrete :=
  let dbn := fresh "dbn" in let d := fresh "d" in let v := fresh "v" in
  let Hd := fresh "Hd" in let Hg := fresh "Hg" in
  intros dbn d v Hd Hg _; unfold get_db in Hd;
  match type of Hd with assoc_get _ _ ?l = _ =>
    let x := fresh "l" in set (x := l) in Hd; vm_compute in x; subst x end;
  cbn [assoc_get] in Hd;
  repeat (match type of Hd with (if ?b then _ else _) = _ => destruct b end;
          [injection Hd as <-; vm_compute in Hg; first [discriminate Hg | injection Hg as <-; reflexivity]|]);
  discriminate.

Example conn_key_stuck_at_saturated_version :
  conn_key_ok (fst kx_sat) /\ Forall conn_cmd kx_run /\ run_ok kx_sat kx_run = true /\
  ~ conn_key_ok (fst (fold_left nstep kx_run kx_sat)).
Proof.
  split; [|split; [|split]].
  - conn_key_concrete.
  - repeat constructor. eexists; split; [vm_compute; reflexivity|]. eauto.
  - vm_compute. reflexivity.
  - intros H. specialize (H "$admin"). vm_compute in H.
    specialize (H _ _ eq_refl eq_refl).
    assert (F : "1" = "2") by (apply H; discriminate). discriminate F.
Qed.

(* (b) version -2 (conflict marker), here planted by a client with set-safe on a database
   without conflict strategy *)
Definition kx_conf : node * list nat :=
  fold_left nstep [EConnect; ECmd 0 "auth u p"; ECmd 0 "create-db foo tok"; ECmd 0 "use-db foo tok";
                   ECmd 0 "set-safe $connections -2 1"] kx_st0.
Definition kx_run2 : list nev := [EConnect; ECmd 1 "use-db foo tok"].

Example conn_key_stuck_in_conflict_state :
  conn_key_ok (fst kx_conf) /\ Forall conn_cmd kx_run2 /\ run_ok kx_conf kx_run2 = true /\
  ~ conn_key_ok (fst (fold_left nstep kx_run2 kx_conf)).
Proof.
  split; [|split; [|split]].
  - conn_key_concrete.
  - repeat constructor. eexists; split; [vm_compute; reflexivity|]. eauto.
  - vm_compute. reflexivity.
  - intros H. specialize (H "foo"). vm_compute in H.
    specialize (H _ _ eq_refl eq_refl).
    assert (F : "1" = "2") by (apply H; discriminate). discriminate F.
Qed.

(* ------------------------------------------------------------------------- *)
(* Watchers of "$connections" are notified of the new count                   *)
(* ------------------------------------------------------------------------- *)
Lemma sess_length_send n c m : List.length (n_sess (send n c m)) = List.length (n_sess n).
Proof. unfold send, put_sess. cbn. apply list_update_length. Qed.

Lemma inbox_send n c m s : (s < List.length (n_sess n))%nat ->
  s_inbox (get_sess (send n c m) s) = s_inbox (get_sess n s) ++ (if Nat.eqb c s then [m] else []).
Proof.
  intros Hs. unfold send. rewrite get_sess_put_sess.
  destruct (Nat.eqb_spec c s) as [->|Hne]; cbn [andb].
  - assert (E : Nat.ltb s (List.length (n_sess n)) = true) by now apply Nat.ltb_lt.
    rewrite E. reflexivity.
  - now rewrite app_nil_r.
Qed.

Lemma inbox_sends l : forall n s, (s < List.length (n_sess n))%nat ->
  s_inbox (get_sess (sends n l) s) =
  s_inbox (get_sess n s) ++ map snd (filter (fun p => Nat.eqb (fst p) s) l).
Proof.
  unfold sends. induction l as [|[c m] r IH]; intros n s Hs; cbn [fold_left filter map fst snd].
  - now rewrite app_nil_r.
  - rewrite IH by (rewrite sess_length_send; exact Hs). rewrite inbox_send by exact Hs.
    rewrite <- app_assoc. f_equal. destruct (Nat.eqb c s); reflexivity.
Qed.

Definition notify_lines (key value : str) (ver : Z) : list str :=
  ["changed " +++ key +++ " " +++ value +++ nlS;
   "changed-version " +++ key +++ " " +++ Z_to_str ver +++ " " +++ value +++ nlS].

Lemma notify_msgs_for d key value ver s :
  map snd (filter (fun p => Nat.eqb (fst p) s) (notify_msgs d key value ver)) =
  concat (repeat (notify_lines key value ver) (count_occ Nat.eq_dec (watchers_of d key) s)).
Proof.
  unfold notify_msgs. match goal with |- context [flat_map ?g _] => set (f := g) end.
  induction (watchers_of d key) as [|w ws IH]; [reflexivity|].
  cbn [flat_map]. rewrite filter_app, map_app.
  etransitivity; [apply f_equal; exact IH|]. unfold f at 1. cbn [count_occ filter fst].
  destruct (Nat.eq_dec w s) as [->|Hne].
  - rewrite Nat.eqb_refl. reflexivity.
  - destruct (Nat.eqb_spec w s); [contradiction|]. reflexivity.
Qed.

(* When use-db succeeds on [name], and [d1] is that database just after the previous
   selection was released, every session gets, once per registration as watcher of
   "$connections", the two notification lines carrying the new count. *)
Theorem conn_watchers_notified n c t name u n' :
  handle n c (RqUseDb t name u) = (n', ROk) ->
  forall d1, get_db (release_previous n c) name = Some d1 -> writable d1 ->
  let ver := match get_value d1 ckey with Some v => v_ver v + 1 | None => 0 end in
  forall s, (s < List.length (n_sess n))%nat ->
    s_inbox (get_sess n' s) =
    s_inbox (get_sess (release_previous n c) s) ++
    concat (repeat (notify_lines ckey (Z_to_str (d_conn d1 + 1)) ver)
                   (count_occ Nat.eq_dec (watchers_of d1 ckey) s)).
Proof.
  unfold handle. destruct (get_db n name) as [d|]; [|discriminate].
  match goal with |- context [if ?b then _ else _] => destruct b end; [|discriminate].
  set (n0 := release_previous n c).
  match goal with |- context [put_sess n0 c ?x] => set (n1 := put_sess n0 c x) end.
  change (get_db n1 name) with (get_db n0 name).
  intros H d1 Hd1 Hw s Hs. rewrite Hd1 in H. injection H as <-.
  set (d2 := db_set_conn d1 (d_conn d1 + 1)).
  assert (Hd2 : get_db (put_db n1 name d2) name = Some d2) by apply get_db_put_same.
  assert (Hw2 : writable d2) by exact Hw.
  rewrite (scc_eq _ _ _ Hd2 Hw2).
  assert (Hlen : List.length (n_sess n1) = List.length (n_sess n)).
  { unfold n1, put_sess. cbn. rewrite list_update_length.
    apply sdbs_length. apply client_left_sdbs. }
  rewrite inbox_sends by (change (s < List.length (n_sess n1))%nat; rewrite Hlen; exact Hs).
  rewrite notify_msgs_for.
  change (get_sess (put_db _ name _) s) with (get_sess n1 s).
  assert (E : s_inbox (get_sess n1 s) = s_inbox (get_sess n0 s)).
  { unfold n1. rewrite get_sess_put_sess. destruct (_ && _) eqn:Eb; [|reflexivity].
    apply andb_prop in Eb. destruct Eb as [Eb _]. apply Nat.eqb_eq in Eb. subst s. reflexivity. }
  rewrite E. f_equal.
  unfold new_conn_value. change (get_value d2 ckey) with (get_value d1 ckey).
  change (watchers_of d2 ckey) with (watchers_of d1 ckey).
  destruct (get_value d1 ckey); reflexivity.
Qed.

Corollary conn_watchers_notified_in n c t name u n' :
  handle n c (RqUseDb t name u) = (n', ROk) ->
  forall d1, get_db (release_previous n c) name = Some d1 -> writable d1 ->
  let ver := match get_value d1 ckey with Some v => v_ver v + 1 | None => 0 end in
  forall s, In s (watchers_of d1 ckey) -> (s < List.length (n_sess n))%nat ->
    exists rest, s_inbox (get_sess n' s) =
      s_inbox (get_sess (release_previous n c) s) ++
      notify_lines ckey (Z_to_str (d_conn d1 + 1)) ver ++ rest.
Proof.
  intros H d1 Hd1 Hw ver s Hin Hs.
  rewrite (conn_watchers_notified _ _ _ _ _ _ H d1 Hd1 Hw s Hs). fold ver.
  apply (count_occ_In Nat.eq_dec) in Hin.
  destruct (count_occ Nat.eq_dec (watchers_of d1 ckey) s) as [|k]; [lia|].
  cbn [repeat concat]. eexists. reflexivity.
Qed.

(* the unconditional part of the run result is the invariant of theorems 1-3; for
   completeness, the counter/selection invariant and the key invariant together *)
Theorem conn_full_run u p a pid r c0 evs :
  let st := (init_node u p a pid r c0, []) in
  run_ok st evs = true -> Forall conn_cmd evs -> 2 * Z.of_nat (List.length evs) <= i32_max ->
  ConnInv (fold_left nstep evs st) /\ conn_key_ok (fst (fold_left nstep evs st)).
Proof.
  intros st Hok HF HB. split.
  - apply conn_run; auto. apply conn_init.
  - now apply conn_key_run_from_init.
Qed.

(* The same result with the side condition stated "along the run": before every event the
   version of every "$connections" key lies in [0, i32::MAX - 2] (so it is neither the conflict
   marker -2 nor about to saturate during the at most two rewrites of one event). *)
Fixpoint along (P : node -> Prop) (st : node * list nat) (evs : list nev) : Prop :=
  match evs with
  | [] => True
  | e :: r => P (fst st) /\ along P (nstep st e) r
  end.

Theorem conn_key_run_along evs : forall st,
  conn_key_ok (fst st) -> along (VerInv (i32_max - 2)) st evs -> Forall conn_cmd evs ->
  conn_key_ok (fst (fold_left nstep evs st)).
Proof.
  induction evs as [|e r IH]; intros st Hk Ha HF; [exact Hk|].
  destruct Ha as [Hv Ha]. inversion HF as [|? ? He Hr]; subst. cbn [fold_left].
  apply IH; auto.
  refine (proj2 (KInv_nstep (i32_max - 2) st e (conj Hv Hk) _ _ He)); unfold i32_max; lia.
Qed.

Check conn_init.
Check conn_step.
Check conn_run.
Check conn_never_negative.
Check conn_back_to_previous.
Check conn_key_run.
Check conn_key_run_along.
Check conn_key_run_from_init.
Check conn_watchers_notified.
Check conn_watchers_notified_in.
Check usedb_wrong_token_noop.
Check conn_inv_needs_sel_exists.
Check conn_key_stuck_at_saturated_version.
Check conn_key_stuck_in_conflict_state.
Print Assumptions conn_full_run.
Print Assumptions conn_back_to_previous.
Print Assumptions conn_watchers_notified_in.
Print Assumptions conn_key_run_along.
