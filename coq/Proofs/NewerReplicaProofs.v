(* NewerReplicaProofs.v -- property C19, last clause: on a database with the "newer"
   strategy the most recently issued change always wins (op ids grow with issue order),
   so the same writes applied in the primary's order leave every replica with the same
   content, whatever the replicas' own clocks are. *)
From NunDB Require Import Model.Base Model.Pending Model.Parse Model.Node Model.Oplog Model.Cluster
  Proofs.AssocLemmas Proofs.DbProofs Proofs.GuardProofs Proofs.ClusterProofs
  Proofs.ArbiterHttpProofs Proofs.ConvergeProofs Proofs.ArbiterClusterProofs.
Local Open Scope Z_scope.

(* ================================================================== *)
(* Definitions                                                          *)
(* ================================================================== *)

Definition wr := (str * str * Z)%type.                       (* key, value, version argument *)

(* the clock invariant: every op id recorded in the database was issued before "now" *)
Definition opps_below (n : node) (d : db) : Prop :=
  forall k v, get_value d k = Some v -> (v_opp v < n_clock n)%N.

Fixpoint run_writes (n : node) (dbn : str) (ws : list wr) : node * list resp :=
  match ws with
  | [] => (n, [])
  | (k, v, ver) :: rest =>
      let '(n1, r) := set_key_value n dbn k v ver in
      let '(n2, rs) := run_writes n1 dbn rest in
      (n2, r :: rs)
  end.

(* ================================================================== *)
(* Part 1.  What one write does to a newer database (database level)     *)
(* ================================================================== *)

(* the effect of set_key_value on a newer database whose op ids are all below the
   clock: [id] is the op id drawn for the change, [id + 1] the one drawn for the
   resolution.  The "keep the old value" branch of apply_change does not occur. *)
Definition newer_db_step (d : db) (key value : str) (ver : Z) (id : N) : db * resp :=
  match get_value d key with
  | None => (put_value d key (mkV value (sat_succ ver) id VNew 0 0), RSet key value)
  | Some old =>
      let ch := mkCh key value ver id false in
      if Z.leb (next_version ch old) (v_ver old) && negb (Z.eqb ver (-2)) then
        let ch2 := mkCh key value (v_ver old) (id + 1)%N true in
        if Z.leb (next_version ch2 old) (v_ver old) && negb (Z.eqb (v_ver old) (-2)) then
          (d, RVersionError key (v_ver old) (v_ver old) old ch2 (upd_state old))
        else
          (put_value d key (mkV value (next_version ch2 old) (id + 1)%N (upd_state old) (v_vaddr old) (v_kaddr old)),
           RSet key value)
      else
        (put_value d key (mkV value (next_version ch old) id (upd_state old) (v_vaddr old) (v_kaddr old)),
         RSet key value)
  end.

Lemma d_strat_put d k v : d_strat (put_value d k v) = d_strat d.
Proof. reflexivity. Qed.

Lemma newer_db_step_strat d key value ver id : d_strat (fst (newer_db_step d key value ver id)) = d_strat d.
Proof.
  unfold newer_db_step. destruct (get_value d key) as [old|]; [|reflexivity].
  cbv zeta. destruct (_ && _); [destruct (_ && _)|]; reflexivity.
Qed.

Lemma newer_db_step_other d key value ver id k' : k' <> key ->
  get_value (fst (newer_db_step d key value ver id)) k' = get_value d k'.
Proof.
  intros Hne. unfold newer_db_step. destruct (get_value d key) as [old|]; cbv zeta.
  - destruct (_ && _); [destruct (_ && _)|]; cbn [fst]; auto using gv_put_other.
  - cbn [fst]. now apply gv_put_other.
Qed.

(* op ids stored by the step are [id] or [id + 1] *)
Lemma newer_db_step_opp d key value ver id nw :
  get_value (fst (newer_db_step d key value ver id)) key = Some nw ->
  get_value d key = Some nw \/ v_opp nw = id \/ v_opp nw = (id + 1)%N.
Proof.
  unfold newer_db_step. destruct (get_value d key) as [old|] eqn:Hg; cbv zeta.
  - destruct (_ && _); [destruct (_ && _)|]; cbn [fst]; rewrite ?gv_put_same.
    + rewrite Hg. auto.
    + intros [= <-]. cbn. auto.
    + intros [= <-]. cbn. auto.
  - cbn [fst]. rewrite gv_put_same. intros [= <-]. cbn. auto.
Qed.

(* related databases stay related and answer alike, whatever op ids are drawn *)
Lemma newer_db_step_rel d1 d2 key value ver id1 id2 : dbrel d1 d2 ->
  dbrel (fst (newer_db_step d1 key value ver id1)) (fst (newer_db_step d2 key value ver id2)) /\
  resp_rel (snd (newer_db_step d1 key value ver id1)) (snd (newer_db_step d2 key value ver id2)).
Proof.
  intros H. pose proof (H key) as Hg. unfold newer_db_step.
  destruct (get_value d1 key) as [a|], (get_value d2 key) as [b|]; try tauto.
  - cbv zeta. pose proof Hg as (Hva & Hve & Hn & Hd).
    assert (E1 : next_version (mkCh key value ver id1 false) a = next_version (mkCh key value ver id2 false) b).
    { apply next_version_rel; auto. unfold ch_same; cbn; auto. }
    assert (E2 : next_version (mkCh key value (v_ver a) (id1 + 1)%N true) a =
                 next_version (mkCh key value (v_ver b) (id2 + 1)%N true) b).
    { apply next_version_rel; auto. unfold ch_same; cbn; auto. }
    rewrite <- E1, <- E2, <- Hve.
    assert (Hput : forall nv o1 o2,
      dbrel (put_value d1 key (mkV value nv o1 (upd_state a) (v_vaddr a) (v_kaddr a)))
            (put_value d2 key (mkV value nv o2 (upd_state b) (v_vaddr b) (v_kaddr b)))).
    { intros nv o1 o2. apply dbrel_put; auto.
      unfold vrel; cbn [v_val v_ver v_st]. repeat split; auto; try apply (vrel_upd a b Hg);
        intros E; exfalso; eapply upd_state_live; eauto. }
    destruct (_ && _); [destruct (_ && _)|]; cbn [fst snd]; (split; [auto|]); cbn [resp_rel]; auto.
    split; [reflexivity|]. split; [reflexivity|]. split; [reflexivity|]. split; [exact Hg|].
    apply (vrel_upd a b Hg).
  - cbn [fst snd]. split; [|cbn; auto]. apply dbrel_put; auto.
    unfold vrel; cbn [v_val v_ver v_st]. tauto.
Qed.

(* ================================================================== *)
(* Part 2.  set_key_value on a newer database is newer_db_step           *)
(* ================================================================== *)

Lemma opps_below_ltb n d key old : opps_below n d -> get_value d key = Some old ->
  N.ltb (v_opp old) (n_clock n) = true.
Proof. intros H Hg. apply N.ltb_lt. eapply H; eauto. Qed.

Theorem skv_newer n dbn d key value ver :
  get_db n dbn = Some d -> d_strat d = SNewer -> opps_below n d ->
  let res := set_key_value n dbn key value ver in
  let st := newer_db_step d key value ver (n_clock n) in
  dbs_updated n (fst res) dbn (fst st) /\ snd res = snd st /\
  (n_clock (fst res) = n_clock n + 1 \/ n_clock (fst res) = n_clock n + 2)%N /\
  (forall nw, get_value (fst st) key = Some nw -> get_value d key = Some nw \/ (v_opp nw < n_clock (fst res))%N) /\
  n_role (fst res) = n_role n /\ n_members (fst res) = n_members n /\
  n_pending (fst res) = n_pending n /\ n_repl (fst res) = n_repl n.
Proof.
  intros Hdb Hs Hob. cbv zeta. unfold set_key_value, tick, apply_change.
  rewrite get_db_set_clock, Hdb. unfold newer_db_step.
  destruct (get_value d key) as [old|] eqn:Hg.
  - rewrite (set_value_present d (mkCh key value ver (n_clock n) false) old Hg).
    cbn [c_key c_val c_ver c_opp].
    destruct (Z.leb (next_version (mkCh key value ver (n_clock n) false) old) (v_ver old) && negb (Z.eqb ver (-2))).
    + cbv beta iota zeta. rewrite Hs. cbn [c_opp c_val].
      rewrite (opps_below_ltb n d key old Hob Hg). unfold tick. cbv beta iota zeta.
      cbn [n_clock n_set_clock].
      rewrite (set_value_present d (mkCh key value (v_ver old) (n_clock n + 1)%N true) old Hg).
      cbn [c_key c_val c_ver c_opp].
      destruct (Z.leb (next_version (mkCh key value (v_ver old) (n_clock n + 1)%N true) old) (v_ver old)
                && negb (Z.eqb (v_ver old) (-2))); cbn [fst snd];
        unfold dbs_updated;
        rewrite ?n_dbs_sends, ?n_role_sends, ?n_clock_sends, ?n_members_sends, ?n_pending_sends, ?n_repl_sends;
        cbn [n_clock n_set_clock put_db n_set_dbs n_dbs n_role n_members n_pending n_repl sends fold_left].
      * split; [reflexivity|]. split; [reflexivity|]. split; [right; lia|].
        split; [|repeat split; reflexivity].
        intros nw Hn. left. congruence.
      * split; [reflexivity|]. split; [reflexivity|]. split; [right; lia|].
        split; [|repeat split; reflexivity].
        intros nw. rewrite gv_put_same. intros [= <-]. right. cbn [v_opp]. lia.
    + cbv beta iota zeta. cbn [fst snd]. unfold dbs_updated.
      rewrite ?n_dbs_sends, ?n_role_sends, ?n_clock_sends, ?n_members_sends, ?n_pending_sends, ?n_repl_sends.
      cbn [n_clock n_set_clock put_db n_set_dbs n_dbs n_role n_members n_pending n_repl].
      repeat split; auto.
      intros nw. rewrite gv_put_same. intros [= <-]. right. cbn [v_opp]. lia.
  - assert (E : set_value d (mkCh key value ver (n_clock n) false) =
                (put_value d key (mkV value (sat_succ ver) (n_clock n) VNew 0 0),
                 RSet key value, notify_msgs d key value (sat_succ ver))).
    { unfold set_value. cbn [c_key]. now rewrite Hg. }
    rewrite E. cbv beta iota zeta. cbn [fst snd]. unfold dbs_updated.
    rewrite ?n_dbs_sends, ?n_role_sends, ?n_clock_sends, ?n_members_sends, ?n_pending_sends, ?n_repl_sends.
    cbn [n_clock n_set_clock put_db n_set_dbs n_dbs n_role n_members n_pending n_repl].
    repeat split; auto.
    intros nw. rewrite gv_put_same. intros [= <-]. right. cbn [v_opp]. lia.
Qed.

(* ================================================================== *)
(* Part 3.  (2) the clock invariant is preserved, with no side condition *)
(* ================================================================== *)

Theorem newer_opps_below_inv n dbn d key value ver n' r :
  get_db n dbn = Some d -> d_strat d = SNewer -> opps_below n d ->
  set_key_value n dbn key value ver = (n', r) ->
  exists d', get_db n' dbn = Some d' /\ d_strat d' = SNewer /\ opps_below n' d' /\
             (n_clock n < n_clock n')%N /\
             (d', r) = newer_db_step d key value ver (n_clock n).
Proof.
  intros Hdb Hs Hob Hskv.
  destruct (skv_newer n dbn d key value ver Hdb Hs Hob) as (U & R & Hc & Hnw & _).
  rewrite Hskv in U, R, Hc, Hnw. cbn [fst snd] in U, R, Hc, Hnw.
  apply dbs_updated_get in U as [G _].
  exists (fst (newer_db_step d key value ver (n_clock n))).
  split; [exact G|]. split; [now rewrite newer_db_step_strat|].
  split; [|split; [lia|]].
  - intros k v Hk. destruct (String.eqb_spec k key) as [->|Hne].
    + destruct (Hnw v Hk) as [Ho|Hlt]; [|exact Hlt].
      specialize (Hob _ _ Ho). lia.
    + rewrite newer_db_step_other in Hk by exact Hne. specialize (Hob _ _ Hk). lia.
  - rewrite R. now destruct (newer_db_step d key value ver (n_clock n)).
Qed.

(* ... so it holds along any run of writes *)
Theorem newer_opps_below_run ws : forall n dbn d,
  get_db n dbn = Some d -> d_strat d = SNewer -> opps_below n d ->
  exists d', get_db (fst (run_writes n dbn ws)) dbn = Some d' /\ d_strat d' = SNewer /\
             opps_below (fst (run_writes n dbn ws)) d' /\
             (n_clock n <= n_clock (fst (run_writes n dbn ws)))%N.
Proof.
  induction ws as [|[[k v] ver] rest IH]; intros n dbn d Hdb Hs Hob.
  - exists d. cbn [run_writes fst]. repeat split; auto. lia.
  - cbn [run_writes]. destruct (set_key_value n dbn k v ver) as [n1 r] eqn:E.
    destruct (newer_opps_below_inv _ _ _ _ _ _ _ _ Hdb Hs Hob E) as (d1 & G1 & S1 & O1 & C1 & _).
    destruct (IH n1 dbn d1 G1 S1 O1) as (d' & G & S & O & C).
    destruct (run_writes n1 dbn rest) as [n2 rs]. cbn [fst] in *.
    exists d'. repeat split; auto. lia.
Qed.

Lemma run_writes_app dbn a : forall n b,
  run_writes n dbn (a ++ b) =
  (fst (run_writes (fst (run_writes n dbn a)) dbn b),
   snd (run_writes n dbn a) ++ snd (run_writes (fst (run_writes n dbn a)) dbn b)).
Proof.
  induction a as [|[[k v] ver] rest IH]; intros n b.
  - cbn [app run_writes fst snd]. now destruct (run_writes n dbn b).
  - cbn [app run_writes]. destruct (set_key_value n dbn k v ver) as [n1 r].
    rewrite IH. destruct (run_writes n1 dbn rest) as [n2 rs]. cbn [fst snd]. reflexivity.
Qed.

(* ================================================================== *)
(* Part 4.  (1) the incoming change always wins                          *)
(* ================================================================== *)

Lemma sat_succ_lt z : z < i32_max -> sat_succ z = z + 1.
Proof. intros H. unfold sat_succ. destruct (Z.ltb_spec z i32_max); lia. Qed.

Lemma sat_succ_le z : sat_succ z <= z + 1.
Proof. unfold sat_succ. destruct (Z.ltb_spec z i32_max); lia. Qed.

Lemma newer_db_step_wins d key value ver id :
  ver <> -2 ->
  (forall old, get_value d key = Some old -> v_ver old <> -2 /\ v_ver old < i32_max) ->
  snd (newer_db_step d key value ver id) = RSet key value /\
  exists nw, get_value (fst (newer_db_step d key value ver id)) key = Some nw /\
             v_val nw = value /\ v_st nw <> VDeleted /\
             (v_opp nw = id \/ v_opp nw = (id + 1)%N) /\
             (forall old, get_value d key = Some old ->
                v_ver old < v_ver nw /\ v_vaddr nw = v_vaddr old /\ v_kaddr nw = v_kaddr old /\
                v_st nw = upd_state old) /\
             (get_value d key = None -> nw = mkV value (sat_succ ver) id VNew 0 0).
Proof.
  intros Hv Hold. unfold newer_db_step.
  destruct (get_value d key) as [old|] eqn:Hg.
  - destruct (Hold _ eq_refl) as [Ho Hm]. cbv zeta.
    destruct (Z.eqb_spec ver (-2)) as [|_]; [contradiction|]. cbn [negb]. rewrite andb_true_r.
    destruct (Z.leb_spec (next_version (mkCh key value ver id false) old) (v_ver old)) as [Hle|Hgt].
    + rewrite nv_resolve by auto.
      replace (Z.leb (v_ver old + 1) (v_ver old)) with false by (symmetry; apply Z.leb_gt; lia).
      cbn [andb fst snd]. split; [reflexivity|]. eexists. rewrite gv_put_same. split; [reflexivity|].
      cbn [v_val v_st v_opp v_ver v_vaddr v_kaddr].
      split; [reflexivity|]. split; [apply upd_state_live|]. split; [auto|]. split; [|discriminate].
      intros o [= <-]. repeat split; auto. lia.
    + cbn [fst snd]. split; [reflexivity|]. eexists. rewrite gv_put_same. split; [reflexivity|].
      cbn [v_val v_st v_opp v_ver v_vaddr v_kaddr].
      split; [reflexivity|]. split; [apply upd_state_live|]. split; [auto|]. split; [|discriminate].
      intros o [= <-]. repeat split; auto.
  - cbn [fst snd]. split; [reflexivity|]. eexists. rewrite gv_put_same. split; [reflexivity|].
    cbn [v_val v_st v_opp v_ver]. split; [reflexivity|]. split; [discriminate|]. split; [auto|].
    split; [discriminate|]. reflexivity.
Qed.

(* (1): with op ids below the clock, a versioned write on a newer database is never
   refused and never loses: the keep-old branch is not taken.  The hypothesis on the
   version argument is only [ver <> -2] (implied by [-1 <= ver]); [ver < i32_max] is not
   needed.  The stored entry is never a tombstone afterwards (a tombstone that is
   overwritten becomes VUpdated), so [live] is the written value in every case. *)
Theorem newer_incoming_wins n dbn d key value ver n' r :
  get_db n dbn = Some d -> d_strat d = SNewer -> opps_below n d ->
  ver <> -2 ->
  (forall old, get_value d key = Some old -> v_ver old <> -2 /\ v_ver old < i32_max) ->
  set_key_value n dbn key value ver = (n', r) ->
  r = RSet key value /\
  exists d' nw,
    get_db n' dbn = Some d' /\
    live d' key = Some value /\
    get_value d' key = Some nw /\ v_val nw = value /\ v_st nw <> VDeleted /\
    (n_clock n <= v_opp nw < n_clock n')%N /\
    opps_below n' d' /\ d_strat d' = SNewer /\
    (forall old, get_value d key = Some old -> v_ver old < v_ver nw) /\
    (get_value d key = None -> v_ver nw = sat_succ ver /\ v_st nw = VNew) /\
    (forall k', k' <> key -> get_value d' k' = get_value d k').
Proof.
  intros Hdb Hs Hob Hv Hold Hskv.
  destruct (newer_opps_below_inv _ _ _ _ _ _ _ _ Hdb Hs Hob Hskv) as (d' & G & S & O & C & E).
  destruct (newer_db_step_wins d key value ver (n_clock n) Hv Hold) as (R & nw & Hn & Hval & Hst & Hopp & Hver & Hnone).
  rewrite <- E in R, Hn. cbn [fst snd] in R, Hn.
  split; [exact R|]. exists d', nw.
  split; [exact G|]. split.
  { unfold live. rewrite Hn. destruct (vstate_eqb_spec (v_st nw) VDeleted); [contradiction|]. now rewrite Hval. }
  split; [exact Hn|]. split; [exact Hval|]. split; [exact Hst|]. split.
  { split; [destruct Hopp as [-> | ->]; lia|]. exact (O _ _ Hn). }
  split; [exact O|]. split; [exact S|]. split.
  { intros old Ho. apply (Hver old Ho). }
  split.
  { intros Hno. rewrite (Hnone Hno). cbn. auto. }
  intros k' Hne. replace d' with (fst (newer_db_step d key value ver (n_clock n))) by now rewrite <- E.
  now apply newer_db_step_other.
Qed.

(* the form asked for, with [-1 <= ver] *)
Corollary newer_incoming_wins_ge n dbn d key value ver n' r :
  get_db n dbn = Some d -> d_strat d = SNewer -> opps_below n d ->
  -1 <= ver ->
  (forall old, get_value d key = Some old -> v_ver old <> -2 /\ v_ver old < i32_max) ->
  set_key_value n dbn key value ver = (n', r) ->
  r = RSet key value /\
  exists d', get_db n' dbn = Some d' /\ live d' key = Some value /\
             opps_below n' d' /\ d_strat d' = SNewer.
Proof.
  intros Hdb Hs Hob Hv Hold Hskv.
  destruct (newer_incoming_wins n dbn d key value ver n' r Hdb Hs Hob) as (R & d' & nw & H); auto; [lia|].
  split; [exact R|]. exists d'. intuition.
Qed.

(* the keep-old branch IS taken when the clock invariant fails (so opps_below is needed) *)
Example newer_keep_old_without_invariant :
  get_db cx_node "d" = Some cx_db /\ d_strat cx_db = SNewer /\
  ~ opps_below cx_node cx_db /\
  snd (set_key_value cx_node "d" "k" "x" 3) = RSet "k" "<Empty>".
Proof.
  split; [vm_compute; reflexivity|]. split; [reflexivity|]. split; [|vm_compute; reflexivity].
  intros H. specialize (H "k" _ eq_refl). vm_compute in H. discriminate.
Qed.

(* ================================================================== *)
(* Part 5.  (3) replicas agree                                           *)
(* ================================================================== *)

Lemma resp_rel_RSet k v r2 : resp_rel (RSet k v) r2 -> r2 = RSet k v.
Proof. destruct r2; cbn; try tauto. intros [-> ->]. reflexivity. Qed.

(* one write on two replicas *)
Theorem newer_write_agrees n1 n2 dbn d1 d2 key value ver :
  get_db n1 dbn = Some d1 -> get_db n2 dbn = Some d2 ->
  d_strat d1 = SNewer -> d_strat d2 = SNewer -> dbrel d1 d2 ->
  opps_below n1 d1 -> opps_below n2 d2 ->
  resp_rel (snd (set_key_value n1 dbn key value ver)) (snd (set_key_value n2 dbn key value ver)) /\
  exists d1' d2',
    get_db (fst (set_key_value n1 dbn key value ver)) dbn = Some d1' /\
    get_db (fst (set_key_value n2 dbn key value ver)) dbn = Some d2' /\
    dbrel d1' d2' /\ d_strat d1' = SNewer /\ d_strat d2' = SNewer /\
    opps_below (fst (set_key_value n1 dbn key value ver)) d1' /\
    opps_below (fst (set_key_value n2 dbn key value ver)) d2'.
Proof.
  intros G1 G2 S1 S2 Hrel O1 O2.
  destruct (set_key_value n1 dbn key value ver) as [m1 r1] eqn:E1.
  destruct (set_key_value n2 dbn key value ver) as [m2 r2] eqn:E2.
  destruct (newer_opps_below_inv _ _ _ _ _ _ _ _ G1 S1 O1 E1) as (d1' & G1' & S1' & O1' & _ & Q1).
  destruct (newer_opps_below_inv _ _ _ _ _ _ _ _ G2 S2 O2 E2) as (d2' & G2' & S2' & O2' & _ & Q2).
  destruct (newer_db_step_rel d1 d2 key value ver (n_clock n1) (n_clock n2) Hrel) as [Hd Hr].
  rewrite <- Q1, <- Q2 in Hd, Hr. cbn [fst snd] in *.
  split; [exact Hr|]. exists d1', d2'. repeat split; auto.
Qed.

Theorem newer_replicas_agree ws : forall n1 n2 dbn d1 d2,
  get_db n1 dbn = Some d1 -> get_db n2 dbn = Some d2 ->
  d_strat d1 = SNewer -> d_strat d2 = SNewer -> dbrel d1 d2 ->
  opps_below n1 d1 -> opps_below n2 d2 ->
  Forall2 resp_rel (snd (run_writes n1 dbn ws)) (snd (run_writes n2 dbn ws)) /\
  exists d1' d2',
    get_db (fst (run_writes n1 dbn ws)) dbn = Some d1' /\
    get_db (fst (run_writes n2 dbn ws)) dbn = Some d2' /\
    dbrel d1' d2' /\ d_strat d1' = SNewer /\ d_strat d2' = SNewer /\
    opps_below (fst (run_writes n1 dbn ws)) d1' /\
    opps_below (fst (run_writes n2 dbn ws)) d2'.
Proof.
  induction ws as [|[[k v] ver] rest IH]; intros n1 n2 dbn d1 d2 G1 G2 S1 S2 Hrel O1 O2.
  - cbn [run_writes fst snd]. split; [constructor|]. exists d1, d2. repeat split; auto.
  - cbn [run_writes].
    destruct (newer_write_agrees n1 n2 dbn d1 d2 k v ver G1 G2 S1 S2 Hrel O1 O2)
      as (Hr & e1 & e2 & G1' & G2' & Hrel' & S1' & S2' & O1' & O2').
    destruct (set_key_value n1 dbn k v ver) as [m1 r1].
    destruct (set_key_value n2 dbn k v ver) as [m2 r2]. cbn [fst snd] in *.
    destruct (IH m1 m2 dbn e1 e2 G1' G2' S1' S2' Hrel' O1' O2') as (Hrs & f1 & f2 & H).
    destruct (run_writes m1 dbn rest) as [p1 rs1]. destruct (run_writes m2 dbn rest) as [p2 rs2].
    cbn [fst snd] in *. split; [constructor; auto|]. exists f1, f2. exact H.
Qed.

(* what clients can read is the same on both replicas afterwards *)
Corollary newer_replicas_same_content ws n1 n2 dbn d1 d2 :
  get_db n1 dbn = Some d1 -> get_db n2 dbn = Some d2 ->
  d_strat d1 = SNewer -> d_strat d2 = SNewer -> dbrel d1 d2 ->
  opps_below n1 d1 -> opps_below n2 d2 ->
  exists d1' d2',
    get_db (fst (run_writes n1 dbn ws)) dbn = Some d1' /\
    get_db (fst (run_writes n2 dbn ws)) dbn = Some d2' /\
    forall k, live d1' k = live d2' k /\ get_key_value_new d1' k = get_key_value_new d2' k.
Proof.
  intros G1 G2 S1 S2 Hrel O1 O2.
  destruct (newer_replicas_agree ws n1 n2 dbn d1 d2 G1 G2 S1 S2 Hrel O1 O2) as (_ & e1 & e2 & H1 & H2 & H3 & _).
  exists e1, e2. repeat split; auto using dbrel_live, dbrel_get.
Qed.

(* accepted writes are answered identically (RSet carries only key and value) *)
Corollary newer_replicas_replies ws n1 n2 dbn d1 d2 :
  get_db n1 dbn = Some d1 -> get_db n2 dbn = Some d2 ->
  d_strat d1 = SNewer -> d_strat d2 = SNewer -> dbrel d1 d2 ->
  opps_below n1 d1 -> opps_below n2 d2 ->
  Forall2 (fun r1 r2 => resp_rel r1 r2 /\ forall k v, r1 = RSet k v -> r2 = r1)
          (snd (run_writes n1 dbn ws)) (snd (run_writes n2 dbn ws)).
Proof.
  intros G1 G2 S1 S2 Hrel O1 O2.
  destruct (newer_replicas_agree ws n1 n2 dbn d1 d2 G1 G2 S1 S2 Hrel O1 O2) as (H & _).
  induction H; constructor; auto. split; auto. intros k v ->. now apply resp_rel_RSet.
Qed.

(* ================================================================== *)
(* Part 6.  (4) the last write wins                                      *)
(* ================================================================== *)

(* side conditions phrased on the state before the last write *)
Theorem newer_last_write_wins n dbn d ws k v ver :
  get_db n dbn = Some d -> d_strat d = SNewer -> opps_below n d ->
  ver <> -2 ->
  (forall dm old, get_db (fst (run_writes n dbn ws)) dbn = Some dm -> get_value dm k = Some old ->
                  v_ver old <> -2 /\ v_ver old < i32_max) ->
  let res := run_writes n dbn (ws ++ [(k, v, ver)]) in
  last (snd res) ROk = RSet k v /\
  exists d' nw, get_db (fst res) dbn = Some d' /\ live d' k = Some v /\
                get_value d' k = Some nw /\ v_val nw = v /\
                opps_below (fst res) d' /\ d_strat d' = SNewer.
Proof.
  intros Hdb Hs Hob Hv Hold. cbv zeta. rewrite run_writes_app. cbn [fst snd].
  destruct (newer_opps_below_run ws n dbn d Hdb Hs Hob) as (dm & Gm & Sm & Om & _).
  set (nm := fst (run_writes n dbn ws)) in *.
  cbn [run_writes]. destruct (set_key_value nm dbn k v ver) as [n' r] eqn:E. cbn [fst snd].
  destruct (newer_incoming_wins nm dbn dm k v ver n' r Gm Sm Om Hv (fun old => Hold dm old Gm) E)
    as (-> & d' & nw & G & L & Hn & Hval & _ & _ & O & S & _).
  split; [apply last_last|]. exists d', nw. repeat split; auto.
Qed.

(* a sufficient condition on the initial state and the writes: stored versions and
   version arguments lie in [-1, B) and B + length ws <= i32_max *)
Definition vers_in (d : db) (B : Z) : Prop :=
  forall k v, get_value d k = Some v -> -1 <= v_ver v < B.

Definition wr_ver (w : wr) : Z := snd w.

Lemma vers_in_rel d1 d2 B : dbrel d1 d2 -> vers_in d1 B -> vers_in d2 B.
Proof.
  intros H Hv k b Hb. specialize (H k). rewrite Hb in H.
  destruct (get_value d1 k) as [a|] eqn:Ha; [|contradiction].
  destruct H as (_ & Hve & _). rewrite <- Hve. eapply Hv; eauto.
Qed.

Lemma newer_db_step_vers d key value ver id B :
  vers_in d B -> -1 <= ver < B -> B <= i32_max ->
  vers_in (fst (newer_db_step d key value ver id)) (B + 1) /\
  snd (newer_db_step d key value ver id) = RSet key value.
Proof.
  intros Hin Hv HB.
  assert (Hold : forall old, get_value d key = Some old -> v_ver old <> -2 /\ v_ver old < i32_max).
  { intros old Ho. specialize (Hin _ _ Ho). lia. }
  assert (Hv2 : ver <> -2) by lia.
  destruct (newer_db_step_wins d key value ver id Hv2 Hold) as (R & _).
  split; [|exact R]. clear R.
  intros k x Hk. destruct (String.eqb_spec k key) as [->|Hne].
  2:{ rewrite newer_db_step_other in Hk by exact Hne. specialize (Hin _ _ Hk). lia. }
  revert Hk. unfold newer_db_step.
  destruct (get_value d key) as [old|] eqn:Hg.
  - destruct (Hold _ eq_refl) as [Ho Hm]. pose proof (Hin _ _ Hg) as Hb. cbv zeta.
    destruct (Z.eqb_spec ver (-2)) as [|_]; [lia|]. cbn [negb]. rewrite andb_true_r.
    assert (Hnv : next_version (mkCh key value ver id false) old =
                  if Z.eqb ver (-1) then sat_succ (v_ver old) else sat_succ ver).
    { apply (next_version_plain (mkCh key value ver id false) old); cbn; auto; lia. }
    destruct (Z.leb_spec (next_version (mkCh key value ver id false) old) (v_ver old)) as [Hle|Hgt].
    + rewrite nv_resolve by auto.
      replace (Z.leb (v_ver old + 1) (v_ver old)) with false by (symmetry; apply Z.leb_gt; lia).
      cbn [andb fst]. rewrite gv_put_same. intros [= <-]. cbn [v_ver]. lia.
    + cbn [fst]. rewrite gv_put_same. intros [= <-]. cbn [v_ver]. rewrite Hnv.
      destruct (Z.eqb_spec ver (-1)).
      * rewrite sat_succ_lt by lia. lia.
      * rewrite sat_succ_lt by lia. lia.
  - cbn [fst]. rewrite gv_put_same. intros [= <-]. cbn [v_ver]. rewrite sat_succ_lt by lia. lia.
Qed.

(* under the bound every write of the run is accepted: all replies are RSet *)
Theorem newer_run_bounded ws : forall n dbn d B,
  get_db n dbn = Some d -> d_strat d = SNewer -> opps_below n d ->
  vers_in d B -> Forall (fun w => -1 <= wr_ver w < B) ws -> B + Z.of_nat (length ws) <= i32_max ->
  snd (run_writes n dbn ws) = map (fun w => RSet (fst (fst w)) (snd (fst w))) ws /\
  exists d', get_db (fst (run_writes n dbn ws)) dbn = Some d' /\ d_strat d' = SNewer /\
             opps_below (fst (run_writes n dbn ws)) d' /\ vers_in d' (B + Z.of_nat (length ws)).
Proof.
  induction ws as [|[[k v] ver] rest IH]; intros n dbn d B Hdb Hs Hob Hin Hws HB.
  - cbn [run_writes fst snd map length Z.of_nat]. split; [reflexivity|]. exists d.
    split; [exact Hdb|]. split; [exact Hs|]. split; [exact Hob|].
    intros k v Hk. specialize (Hin _ _ Hk). lia.
  - inversion Hws as [|w l Hw Hrest]; subst. unfold wr_ver in Hw. cbn [snd] in Hw.
    cbn [length] in HB. rewrite Nat2Z.inj_succ in HB.
    cbn [run_writes]. destruct (set_key_value n dbn k v ver) as [n1 r] eqn:E.
    destruct (newer_opps_below_inv _ _ _ _ _ _ _ _ Hdb Hs Hob E) as (d1 & G1 & S1 & O1 & _ & Q).
    destruct (newer_db_step_vers d k v ver (n_clock n) B Hin Hw) as [Hin1 R]; [lia|].
    rewrite <- Q in Hin1, R. cbn [fst snd] in Hin1, R. subst r.
    assert (Hrest' : Forall (fun w => -1 <= wr_ver w < B + 1) rest).
    { eapply Forall_impl; [|exact Hrest]. cbv beta. intros; lia. }
    destruct (IH n1 dbn d1 (B + 1) G1 S1 O1 Hin1 Hrest') as (Hrs & d' & G & S & O & V); [lia|].
    destruct (run_writes n1 dbn rest) as [n2 rs]. cbn [fst snd] in *.
    split; [cbn [map fst snd]; now rewrite Hrs|].
    exists d'. split; [exact G|]. split; [exact S|]. split; [exact O|].
    cbn [length]. rewrite Nat2Z.inj_succ. intros k' x Hk. specialize (V _ _ Hk). lia.
Qed.

Theorem newer_last_write_wins_bounded n dbn d ws k v ver B :
  get_db n dbn = Some d -> d_strat d = SNewer -> opps_below n d ->
  vers_in d B -> Forall (fun w => -1 <= wr_ver w < B) ws -> B + Z.of_nat (length ws) <= i32_max ->
  ver <> -2 ->
  let res := run_writes n dbn (ws ++ [(k, v, ver)]) in
  last (snd res) ROk = RSet k v /\
  exists d', get_db (fst res) dbn = Some d' /\ live d' k = Some v.
Proof.
  intros Hdb Hs Hob Hin Hws HB Hv.
  destruct (newer_run_bounded ws n dbn d B Hdb Hs Hob Hin Hws HB) as (_ & dm & Gm & _ & _ & Vm).
  destruct (newer_last_write_wins n dbn d ws k v ver Hdb Hs Hob Hv) as (L & d' & nw & G & Hl & _).
  - intros dm' old Gm' Ho. rewrite Gm in Gm'. injection Gm' as <-.
    specialize (Vm _ _ Ho). lia.
  - cbv zeta. split; [exact L|]. exists d'. auto.
Qed.

Lemma forall2_rset l1 : forall l2, Forall (fun r => exists k v, r = RSet k v) l1 ->
  Forall2 resp_rel l1 l2 -> l1 = l2.
Proof.
  induction l1 as [|a l IH]; intros l2 Hf H; inversion H; subst; [reflexivity|].
  inversion Hf as [|? ? (k & v & ->) Hl]; subst.
  f_equal; [symmetry; now apply resp_rel_RSet|]. now apply IH.
Qed.

(* ... on every replica: the bound transfers along dbrel *)
Corollary newer_last_write_wins_replicas n1 n2 dbn d1 d2 ws k v ver B :
  get_db n1 dbn = Some d1 -> get_db n2 dbn = Some d2 ->
  d_strat d1 = SNewer -> d_strat d2 = SNewer -> dbrel d1 d2 ->
  opps_below n1 d1 -> opps_below n2 d2 ->
  vers_in d1 B -> Forall (fun w => -1 <= wr_ver w < B) ws -> B + Z.of_nat (length ws) <= i32_max ->
  ver <> -2 ->
  exists d1' d2',
    get_db (fst (run_writes n1 dbn (ws ++ [(k, v, ver)]))) dbn = Some d1' /\
    get_db (fst (run_writes n2 dbn (ws ++ [(k, v, ver)]))) dbn = Some d2' /\
    live d1' k = Some v /\ live d2' k = Some v /\ dbrel d1' d2' /\
    snd (run_writes n1 dbn (ws ++ [(k, v, ver)])) = snd (run_writes n2 dbn (ws ++ [(k, v, ver)])).
Proof.
  intros G1 G2 S1 S2 Hrel O1 O2 Hin Hws HB Hv.
  pose proof (vers_in_rel d1 d2 B Hrel Hin) as Hin2.
  destruct (newer_last_write_wins_bounded n1 dbn d1 ws k v ver B G1 S1 O1 Hin Hws HB Hv) as (_ & e1 & E1 & L1).
  destruct (newer_last_write_wins_bounded n2 dbn d2 ws k v ver B G2 S2 O2 Hin2 Hws HB Hv) as (_ & e2 & E2 & L2).
  destruct (newer_replicas_agree (ws ++ [(k, v, ver)]) n1 n2 dbn d1 d2 G1 G2 S1 S2 Hrel O1 O2)
    as (Hr & f1 & f2 & F1 & F2 & Hrel' & _).
  cbv zeta in *. rewrite E1 in F1. rewrite E2 in F2. injection F1 as <-. injection F2 as <-.
  exists e1, e2. repeat split; auto.
  (* replies: equal because all are RSet on n1 up to the last, which is RSet too *)
  clear - Hr G1 S1 O1 Hin Hws HB Hv.
  destruct (newer_run_bounded ws n1 dbn d1 B G1 S1 O1 Hin Hws HB) as (Hrs & dm & Gm & Sm & Om & Vm).
  revert Hr. rewrite !run_writes_app. cbn [fst snd]. rewrite Hrs.
  set (m1 := fst (run_writes n1 dbn ws)) in *.
  cbn [run_writes]. destruct (set_key_value m1 dbn k v ver) as [n' r] eqn:E. cbn [snd].
  assert (Hold : forall old, get_value dm k = Some old -> v_ver old <> -2 /\ v_ver old < i32_max).
  { intros old Ho. specialize (Vm _ _ Ho). lia. }
  destruct (newer_incoming_wins m1 dbn dm k v ver n' r Gm Sm Om Hv Hold E) as (-> & _).
  apply forall2_rset. apply Forall_app. split.
  - apply Forall_forall. intros r Hr. apply in_map_iff in Hr as (w & <- & _). eauto.
  - constructor; eauto.
Qed.

(* ================================================================== *)
(* Part 7.  (5) the handlers: a client write on the primary and its       *)
(*          replication line on a secondary                               *)
(* ================================================================== *)

Lemma opps_below_mono n n' d : opps_below n d -> (n_clock n <= n_clock n')%N -> opps_below n' d.
Proof. intros H Hc k v Hk. specialize (H k v Hk). lia. Qed.

Lemma replicate_request_clock n rq sel r : (n_clock n <= n_clock (fst (replicate_request n rq sel r)))%N.
Proof.
  unfold replicate_request.
  destruct r; cbn [fst]; try lia;
    (destruct (match sel with Some nm => negb (has_db n nm) | None => false end); cbn [fst]; [lia|]);
    destruct rq; cbn [fst]; rewrite ?n_clock_replicate_web; lia.
Qed.

Lemma get_db_replicate_request n rq sel r x : get_db (fst (replicate_request n rq sel r)) x = get_db n x.
Proof. unfold get_db. now rewrite replicate_request_dbs. Qed.

(* "session c of n has selected dbn and may write key" is what guard_safe checks *)
Lemma guard_safe_intro n c key req dbn d :
  s_db (get_sess n c) = Some dbn -> get_db n dbn = Some d ->
  has_permission n c key d req = true ->
  (starts_with key "$$" = true -> s_auth (get_sess n c) = true) ->
  guard_safe n c key req = GGo dbn d.
Proof.
  intros Hsel Hdb Hperm Hsec. unfold guard_safe.
  destruct (starts_with key "$$") eqn:E.
  - rewrite (Hsec eq_refl). cbn [negb andb]. rewrite Hsel. unfold guard_db_name. now rewrite Hdb, Hperm.
  - cbn [andb]. rewrite Hsel. unfold guard_db_name. now rewrite Hdb, Hperm.
Qed.

Lemma handle_set_unfold n c k v ver dbn d : guard_safe n c k PWrite = GGo dbn d ->
  handle n c (RqSet k v ver) =
  let '(n1, r) := set_key_value n dbn k v ver in
  ((if is_primary n1 then n1 else send_to_primary n1 (replicate_msg dbn k v ver)), r).
Proof.
  intros Hg.
  change (handle n c (RqSet k v ver)) with
    (match guard_safe n c k PWrite with
     | GStop n' r => (n', r)
     | GGo dbn d =>
         let '(n1, r) := set_key_value n dbn k v ver in
         let n2 := if is_primary n1 then n1 else send_to_primary n1 (replicate_msg dbn k v ver) in
         (n2, r)
     end).
  rewrite Hg. reflexivity.
Qed.

Lemma handle_replicate_set_unfold n c dbn k v ver d :
  s_auth (get_sess n c) = true -> get_db n dbn = Some d ->
  handle n c (RqReplicateSet dbn k v ver) = set_key_value n dbn k v ver.
Proof.
  intros Ha Hdb.
  change (handle n c (RqReplicateSet dbn k v ver)) with
    (if negb (s_auth (get_sess n c)) then (n, not_auth) else
     match get_db n dbn with
     | Some _ => set_key_value n dbn k v ver
     | None => (n, RError "Not a valid database name")
     end).
  now rewrite Ha, Hdb.
Qed.

(* the database of the node after a whole [step] is the one set_key_value left, and the
   clock has only advanced *)
Lemma step_set_newer p c line dbn key value ver d :
  guard_safe p c key PWrite = GGo dbn d ->
  parse_request (trim_char nl line) = POk (RqSet key value ver) ->
  forall x, get_db (fst (step p c line)) x = get_db (fst (set_key_value p dbn key value ver)) x.
Proof.
  intros Hg Hp x. rewrite (step_exec p c line _ Hp) by discriminate. unfold exec.
  rewrite (handle_set_unfold p c key value ver dbn d Hg).
  destruct (set_key_value p dbn key value ver) as [n1 r]. cbn [fst].
  rewrite get_db_replicate_request. destruct (is_primary n1); reflexivity.
Qed.

Lemma step_set_newer_clock p c line dbn key value ver d :
  guard_safe p c key PWrite = GGo dbn d ->
  parse_request (trim_char nl line) = POk (RqSet key value ver) ->
  (n_clock (fst (set_key_value p dbn key value ver)) <= n_clock (fst (step p c line)))%N.
Proof.
  intros Hg Hp. rewrite (step_exec p c line _ Hp) by discriminate. unfold exec.
  rewrite (handle_set_unfold p c key value ver dbn d Hg).
  destruct (set_key_value p dbn key value ver) as [n1 r]. cbn [fst].
  eapply N.le_trans; [|apply replicate_request_clock].
  destruct (is_primary n1); cbn; lia.
Qed.

Lemma replicate_text_parses dbn key value ver :
  no_sp dbn -> no_sp key -> no_nl key -> no_nl value -> no_semi_end value -> is_i32 ver ->
  parse_request (trim_char nl (replicate_msg dbn key value ver)) = POk (RqReplicateSet dbn key value ver).
Proof.
  intros. rewrite replicate_msg_trim by assumption. now apply replicate_roundtrip.
Qed.

Lemma step_replicate_newer s cs dbn key value ver d :
  s_auth (get_sess s cs) = true -> get_db s dbn = Some d ->
  no_sp dbn -> no_sp key -> no_nl key -> no_nl value -> no_semi_end value -> is_i32 ver ->
  (forall x, get_db (fst (step s cs (replicate_msg dbn key value ver))) x =
             get_db (fst (set_key_value s dbn key value ver)) x) /\
  (n_clock (fst (set_key_value s dbn key value ver)) <=
   n_clock (fst (step s cs (replicate_msg dbn key value ver))))%N.
Proof.
  intros Ha Hdb H1 H2 H3 H4 H5 H6.
  rewrite (step_exec s cs _ _ (replicate_text_parses dbn key value ver H1 H2 H3 H4 H5 H6)) by discriminate.
  unfold exec. rewrite (handle_replicate_set_unfold s cs dbn key value ver d Ha Hdb).
  destruct (set_key_value s dbn key value ver) as [n1 r]. cbn [fst]. split.
  - intros x. apply get_db_replicate_request.
  - apply replicate_request_clock.
Qed.

(* (5) text level on both sides: the primary executes the client's line (any text that
   parses to [set]/[set-safe] key value ver), the secondary executes the replication
   line [replicate_msg dbn key value ver] on its authenticated replication session *)
Theorem newer_primary_to_secondary p c s cs line dbn key value ver d1 d2 :
  (* primary: session c has selected dbn and may write key *)
  s_db (get_sess p c) = Some dbn -> get_db p dbn = Some d1 ->
  has_permission p c key d1 PWrite = true ->
  (starts_with key "$$" = true -> s_auth (get_sess p c) = true) ->
  parse_request (trim_char nl line) = POk (RqSet key value ver) ->
  (* secondary: authenticated replication session *)
  s_auth (get_sess s cs) = true -> get_db s dbn = Some d2 ->
  (* both newer, related, clock invariant *)
  d_strat d1 = SNewer -> d_strat d2 = SNewer -> dbrel d1 d2 ->
  opps_below p d1 -> opps_below s d2 ->
  (* token hypotheses of replicate_roundtrip *)
  no_sp dbn -> no_sp key -> no_nl key -> no_nl value -> no_semi_end value -> is_i32 ver ->
  let p' := fst (step p c line) in
  let s' := fst (step s cs (replicate_msg dbn key value ver)) in
  exists d1' d2',
    get_db p' dbn = Some d1' /\ get_db s' dbn = Some d2' /\ dbrel d1' d2' /\
    d_strat d1' = SNewer /\ d_strat d2' = SNewer /\
    opps_below p' d1' /\ opps_below s' d2' /\
    (forall k, live d1' k = live d2' k).
Proof.
  intros Hsel G1 Hperm Hsec Hparse Ha G2 S1 S2 Hrel O1 O2 T1 T2 T3 T4 T5 T6. cbv zeta.
  pose proof (guard_safe_intro p c key PWrite dbn d1 Hsel G1 Hperm Hsec) as Hg.
  destruct (newer_write_agrees p s dbn d1 d2 key value ver G1 G2 S1 S2 Hrel O1 O2)
    as (_ & e1 & e2 & E1 & E2 & Hrel' & S1' & S2' & O1' & O2').
  destruct (step_replicate_newer s cs dbn key value ver d2 Ha G2 T1 T2 T3 T4 T5 T6) as [Hs Hsc].
  exists e1, e2.
  split; [rewrite (step_set_newer p c line dbn key value ver d1 Hg Hparse); exact E1|].
  split; [rewrite Hs; exact E2|].
  split; [exact Hrel'|]. split; [exact S1'|]. split; [exact S2'|].
  split; [eapply opps_below_mono; [exact O1'|]; eapply step_set_newer_clock; eauto|].
  split; [eapply opps_below_mono; [exact O2'|exact Hsc]|].
  intros k. now apply dbrel_live.
Qed.

(* the line the secondary executes is the one the primary queued for replication: an
   accepted client write puts exactly [rp <id> replicate_msg dbn key value ver] on the
   primary's replication queue and answers ROk *)
Theorem newer_primary_queues p c line dbn key value ver d1 :
  s_db (get_sess p c) = Some dbn -> get_db p dbn = Some d1 ->
  has_permission p c key d1 PWrite = true ->
  (starts_with key "$$" = true -> s_auth (get_sess p c) = true) ->
  parse_request (trim_char nl line) = POk (RqSet key value ver) ->
  d_strat d1 = SNewer -> opps_below p d1 ->
  ver <> -2 ->
  (forall old, get_value d1 key = Some old -> v_ver old <> -2 /\ v_ver old < i32_max) ->
  exists id, (n_clock p < id)%N /\
    step p c line = (fst (step p c line), ROk) /\
    n_repl (fst (step p c line)) = n_repl p ++ [rp_line id (replicate_msg dbn key value ver)].
Proof.
  intros Hsel G1 Hperm Hsec Hparse S1 O1 Hv Hold.
  pose proof (guard_safe_intro p c key PWrite dbn d1 Hsel G1 Hperm Hsec) as Hg.
  rewrite (step_exec p c line _ Hparse) by discriminate. unfold exec.
  rewrite (handle_set_unfold p c key value ver dbn d1 Hg). rewrite Hsel.
  destruct (skv_newer p dbn d1 key value ver G1 S1 O1) as (_ & _ & Hc & _ & _ & _ & _ & Hrepl).
  destruct (set_key_value p dbn key value ver) as [n1 r] eqn:E. cbn [fst snd] in Hc, Hrepl.
  destruct (newer_incoming_wins p dbn d1 key value ver n1 r G1 S1 O1 Hv Hold E) as (-> & d' & _ & G' & _).
  set (n2 := if is_primary n1 then n1 else send_to_primary n1 (replicate_msg dbn key value ver)).
  assert (Hdb2 : get_db n2 dbn = Some d') by (subst n2; destruct (is_primary n1); exact G').
  assert (Hc2 : n_clock n2 = n_clock n1) by (subst n2; destruct (is_primary n1); reflexivity).
  assert (Hr2 : n_repl n2 = n_repl n1) by (subst n2; destruct (is_primary n1); reflexivity).
  unfold replicate_request. unfold has_db. rewrite Hdb2. cbn [negb or_empty fst snd].
  exists (n_clock n2). split; [lia|]. split; [reflexivity|].
  rewrite n_repl_replicate_web. now rewrite Hr2, Hrepl.
Qed.

(* ================================================================== *)
(* Part 8.  (6) non-vacuity                                              *)
(* ================================================================== *)

(* boolean form of the clock invariant *)
Definition opps_belowb (n : node) (d : db) : bool :=
  forallb (fun kv => N.ltb (v_opp (snd kv)) (n_clock n)) (d_map d).

Lemma opps_belowb_ok n d : opps_belowb n d = true -> opps_below n d.
Proof.
  unfold opps_belowb. rewrite forallb_forall. intros H k v Hk.
  apply (get_in String.eqb String.eqb_spec) in Hk. apply H in Hk. now apply N.ltb_lt in Hk.
Qed.

(* boolean form of the version bound *)
Definition vers_inb (d : db) (B : Z) : bool :=
  forallb (fun kv => Z.leb (-1) (v_ver (snd kv)) && Z.ltb (v_ver (snd kv)) B) (d_map d).

Lemma get_forall_vers d B : vers_inb d B = true -> vers_in d B.
Proof.
  unfold vers_inb. rewrite forallb_forall. intros H k v Hk.
  apply (get_in String.eqb String.eqb_spec) in Hk. apply H in Hk. cbn [snd] in Hk.
  apply andb_true_iff in Hk as [H1 H2]. apply Z.leb_le in H1. apply Z.ltb_lt in H2. lia.
Qed.

(* a sufficient, computable condition for dbrel *)
Definition db_shape (d : db) : list (str * (str * Z * vstate)) :=
  map (fun kv => (fst kv, (v_val (snd kv), v_ver (snd kv), v_st (snd kv)))) (d_map d).

Lemma db_shape_rel d1 d2 : db_shape d1 = db_shape d2 -> dbrel d1 d2.
Proof.
  unfold db_shape, dbrel, get_value. generalize (d_map d1) (d_map d2).
  induction l as [|[k1 a] l IH]; intros [|[k2 b] l2] H k; try discriminate; cbn [assoc_get]; auto.
  cbn [map fst snd] in H. injection H as -> Hva Hve Hst Hl.
  destruct (String.eqb k k2); [|now apply IH].
  unfold vrel. rewrite Hva, Hve, Hst. tauto.
Qed.

(* a node built through the protocol: admin logs in, creates the newer database "foo",
   selects it and stores key "k" at version 3 (set-safe with version 2) *)
Definition ex_node (clock0 : N) : node :=
  let '(n1, c) := connect (init_node "u" "p" "a" 1 Primary clock0) in
  fold_left (fun n l => fst (step n c l))
            ["auth u p"; "create-db foo tok newer"; "use-db foo tok"; "set-safe k 2 a"] n1.

Definition ex_db (clock0 : N) : db :=
  match get_db (ex_node clock0) "foo" with Some d => d | None => empty_db 0 SNone end.

Definition ex_writes : list wr := [("k", "x", 1); ("k", "y", 3); ("k", "z", 7)].

(* two replicas with clocks 0 and 1000: all hypotheses of newer_replicas_agree hold, the
   key is stored at version 3, the three writes (versions 1, 3: stale; 7: fresh) are all
   answered RSet, and the final value is the last one written, on both *)
Example newer_replicas_example :
  let n1 := ex_node 0 in let n2 := ex_node 1000 in
  let d1 := ex_db 0 in let d2 := ex_db 1000 in
  get_db n1 "foo" = Some d1 /\ get_db n2 "foo" = Some d2 /\
  d_strat d1 = SNewer /\ d_strat d2 = SNewer /\ dbrel d1 d2 /\
  opps_below n1 d1 /\ opps_below n2 d2 /\ d1 <> d2 /\
  (exists v, get_value d1 "k" = Some v /\ v_ver v = 3 /\ v_val v = "a") /\
  snd (run_writes n1 "foo" ex_writes) = [RSet "k" "x"; RSet "k" "y"; RSet "k" "z"] /\
  snd (run_writes n2 "foo" ex_writes) = [RSet "k" "x"; RSet "k" "y"; RSet "k" "z"] /\
  exists e1 e2,
    get_db (fst (run_writes n1 "foo" ex_writes)) "foo" = Some e1 /\
    get_db (fst (run_writes n2 "foo" ex_writes)) "foo" = Some e2 /\
    live e1 "k" = Some "z" /\ live e2 "k" = Some "z" /\ dbrel e1 e2 /\
    get_key_value_new e1 "k" = ("z", 8) /\ get_key_value_new e2 "k" = ("z", 8).
Proof.
  cbv zeta.
  split; [vm_compute; reflexivity|]. split; [vm_compute; reflexivity|].
  split; [vm_compute; reflexivity|]. split; [vm_compute; reflexivity|].
  split; [apply db_shape_rel; vm_compute; reflexivity|].
  split; [apply opps_belowb_ok; vm_compute; reflexivity|].
  split; [apply opps_belowb_ok; vm_compute; reflexivity|].
  split; [vm_compute; discriminate|].
  split; [eexists; split; [vm_compute; reflexivity|]; split; reflexivity|].
  split; [vm_compute; reflexivity|]. split; [vm_compute; reflexivity|].
  eexists; eexists.
  split; [vm_compute; reflexivity|]. split; [vm_compute; reflexivity|].
  split; [vm_compute; reflexivity|]. split; [vm_compute; reflexivity|].
  split; [apply db_shape_rel; vm_compute; reflexivity|].
  split; vm_compute; reflexivity.
Qed.

(* the same conclusion obtained from the theorems (their hypotheses are satisfiable) *)
Example newer_replicas_example_by_theorem :
  exists e1 e2,
    get_db (fst (run_writes (ex_node 0) "foo" ex_writes)) "foo" = Some e1 /\
    get_db (fst (run_writes (ex_node 1000) "foo" ex_writes)) "foo" = Some e2 /\
    dbrel e1 e2 /\ live e1 "k" = Some "z" /\ live e2 "k" = Some "z".
Proof.
  destruct newer_replicas_example as (G1 & G2 & S1 & S2 & Hrel & O1 & O2 & _).
  destruct (newer_last_write_wins_replicas (ex_node 0) (ex_node 1000) "foo" (ex_db 0) (ex_db 1000)
              [("k", "x", 1); ("k", "y", 3)] "k" "z" 7 8 G1 G2 S1 S2 Hrel O1 O2)
    as (e1 & e2 & E1 & E2 & L1 & L2 & Hrel' & _).
  - apply (get_forall_vers (ex_db 0) 8). vm_compute. reflexivity.
  - repeat constructor; unfold wr_ver; cbn; lia.
  - vm_compute. discriminate.
  - lia.
  - exists e1, e2. auto.
Qed.

(* replies are related but in general NOT equal: a write refused by version saturation is
   answered with a RVersionError that carries the replica's own op ids *)
Definition sat_db : db := mkDb [("k", mkV "a" i32_max 1 VOk 0 0)] [] 0 1 SNewer.
Definition sat_node (clock0 : N) : node := put_db (init_node "u" "p" "a" 1 Primary clock0) "d" sat_db.

Example newer_refused_replies_differ :
  opps_below (sat_node 0) sat_db /\ opps_below (sat_node 1000) sat_db /\
  snd (set_key_value (sat_node 0) "d" "k" "x" (-1)) <> snd (set_key_value (sat_node 1000) "d" "k" "x" (-1)) /\
  resp_rel (snd (set_key_value (sat_node 0) "d" "k" "x" (-1))) (snd (set_key_value (sat_node 1000) "d" "k" "x" (-1))) /\
  get_db (fst (set_key_value (sat_node 0) "d" "k" "x" (-1))) "d" = Some sat_db.
Proof.
  split; [apply opps_belowb_ok; vm_compute; reflexivity|].
  split; [apply opps_belowb_ok; vm_compute; reflexivity|].
  split; [vm_compute; discriminate|].
  split; [|vm_compute; reflexivity].
  vm_compute. repeat split; auto; intros; discriminate.
Qed.

(* the hypotheses of the handler theorem are satisfiable: client session 0 of the first
   replica sends a stale [set-safe], the second replica executes the replication line *)
Example newer_primary_to_secondary_example :
  exists d1' d2',
    get_db (fst (step (ex_node 0) 0 "set-safe k 1 x")) "foo" = Some d1' /\
    get_db (fst (step (ex_node 1000) 0 (replicate_msg "foo" "k" "x" 1))) "foo" = Some d2' /\
    dbrel d1' d2' /\ live d1' "k" = Some "x" /\ live d2' "k" = Some "x".
Proof.
  destruct newer_replicas_example as (G1 & G2 & S1 & S2 & Hrel & O1 & O2 & _).
  destruct (newer_primary_to_secondary (ex_node 0) 0%nat (ex_node 1000) 0%nat "set-safe k 1 x"
              "foo" "k" "x" 1 (ex_db 0) (ex_db 1000))
    as (d1' & d2' & E1 & E2 & Hrel' & _ & _ & _ & _ & Hl); auto;
    try (vm_compute; reflexivity); try (vm_compute; discriminate).
  - unfold is_i32. lia.
  - exists d1', d2'. split; [exact E1|]. split; [exact E2|]. split; [exact Hrel'|].
    assert (L : live d1' "k" = Some "x").
    { revert E1. vm_compute. intros [= <-]. reflexivity. }
    split; [exact L|]. now rewrite <- Hl.
Qed.

(* ================================================================== *)
(* Summary                                                              *)
(* ================================================================== *)
Check newer_incoming_wins.
Print Assumptions newer_incoming_wins.
Check newer_opps_below_inv.
Print Assumptions newer_opps_below_inv.
Check newer_opps_below_run.
Print Assumptions newer_opps_below_run.
Check newer_replicas_agree.
Print Assumptions newer_replicas_agree.
Check newer_replicas_replies.
Print Assumptions newer_replicas_replies.
Check newer_last_write_wins.
Print Assumptions newer_last_write_wins.
Check newer_last_write_wins_bounded.
Print Assumptions newer_last_write_wins_bounded.
Check newer_last_write_wins_replicas.
Print Assumptions newer_last_write_wins_replicas.
Check newer_primary_to_secondary.
Print Assumptions newer_primary_to_secondary.
Check newer_primary_queues.
Print Assumptions newer_primary_queues.
Check newer_replicas_example.
Print Assumptions newer_replicas_example.
