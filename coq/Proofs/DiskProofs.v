(* DiskProofs.v -- C06: "snapshot then restart restores exactly the snapshotted state"
   for the byte-level disk model Model/Disk.v. *)
From NunDB Require Import Model.Base Model.Pending Model.Parse Model.Node Model.Disk Proofs.AssocLemmas.
From Coq Require Import Lia.
Local Open Scope N_scope.

(* ====================================================================== *)
(* 1. byte strings                                                         *)
(* ====================================================================== *)
Notation len := String.length.

Lemma app_nil_r_s s : s +++ "" = s.
Proof. induction s; cbn; congruence. Qed.

Lemma app_assoc_s a b c : (a +++ b) +++ c = a +++ b +++ c.
Proof. induction a; cbn; congruence. Qed.

Lemma len_app a b : len (a +++ b) = (len a + len b)%nat.
Proof. induction a; cbn; congruence. Qed.

Lemma slen_app a b : slen (a +++ b) = slen a + slen b.
Proof. unfold slen. rewrite len_app. lia. Qed.

Lemma len0_empty s : len s = 0%nat -> s = "".
Proof. destruct s; cbn; congruence. Qed.

Lemma take_app_exact a b : str_take (len a) (a +++ b) = a.
Proof. induction a; cbn; [destruct b|]; congruence. Qed.

Lemma drop_app_exact a b : str_drop (len a) (a +++ b) = b.
Proof. induction a; cbn; congruence. Qed.

Lemma take_app_le n : forall a b, (n <= len a)%nat -> str_take n (a +++ b) = str_take n a.
Proof.
  induction n; intros a b H; cbn; auto.
  destruct a; cbn in *; [lia|]. rewrite IHn; auto. lia.
Qed.

Lemma drop_app_le n : forall a b, (n <= len a)%nat -> str_drop n (a +++ b) = str_drop n a +++ b.
Proof.
  induction n; intros a b H; cbn; auto.
  destruct a; cbn in *; [lia|]. rewrite IHn; auto. lia.
Qed.

Lemma take_drop_id n : forall s, str_take n s +++ str_drop n s = s.
Proof. induction n; intros [|a s]; cbn; auto. now rewrite IHn. Qed.

Lemma len_take n : forall s, (n <= len s)%nat -> len (str_take n s) = n.
Proof. induction n; intros [|a s] H; cbn in *; auto; try lia. rewrite IHn; auto. lia. Qed.

Lemma len_drop n : forall s, len (str_drop n s) = (len s - n)%nat.
Proof. induction n; intros [|a s]; cbn; auto. Qed.

Lemma drop_all n : forall s, (len s <= n)%nat -> str_drop n s = "".
Proof. induction n; intros [|a s] H; cbn in *; auto; try lia. apply IHn. lia. Qed.

Lemma take_all n : forall s, (len s <= n)%nat -> str_take n s = s.
Proof. induction n; intros [|a s] H; cbn in *; auto; try lia. rewrite IHn; auto. lia. Qed.

Lemma len_zeros n : len (zeros n) = n.
Proof. induction n; cbn; congruence. Qed.

Lemma drop_0 s : str_drop 0 s = s.
Proof. destruct s; reflexivity. Qed.

(* ====================================================================== *)
(* 2. codecs                                                               *)
(* ====================================================================== *)
Lemma len_le_bytes k : forall n, len (le_bytes k n) = k.
Proof. induction k; intros n; cbn; auto. Qed.

Lemma le_decode_bytes k : forall n, n < 256 ^ N.of_nat k -> le_decode (le_bytes k n) = n.
Proof.
  induction k; intros n H.
  - cbn in *. lia.
  - cbn [le_bytes le_decode].
    rewrite N_ascii_embedding by (apply N.mod_lt; lia).
    rewrite IHk.
    + rewrite N.add_comm. symmetry. apply N.div_mod'.
    + rewrite Nat2N.inj_succ, N.pow_succ_r' in H.
      apply N.div_lt_upper_bound; lia.
Qed.

Lemma le_decode_8 n : n < 18446744073709551616 -> le_decode (le_bytes 8 n) = n.
Proof. intros H. apply le_decode_bytes. exact H. Qed.

Lemma le_decode_4 n : n < 4294967296 -> le_decode (le_bytes 4 n) = n.
Proof. intros H. apply le_decode_bytes. exact H. Qed.

Lemma len_i32_bytes z : len (i32_bytes z) = 4%nat.
Proof. apply len_le_bytes. Qed.

Lemma i32_decode_bytes z : (-2147483648 <= z <= 2147483647)%Z -> i32_decode (i32_bytes z) = z.
Proof.
  intros H. unfold i32_decode, i32_bytes.
  rewrite le_decode_4 by (destruct (Z.ltb_spec z 0); lia).
  destruct (Z.ltb_spec z 0); destruct (N.ltb_spec (Z.to_N (z + 4294967296)) 2147483648);
    destruct (N.ltb_spec (Z.to_N z) 2147483648); lia.
Qed.

Lemma strat_code_roundtrip s : strat_of_code (i32_decode (le_bytes 4 (strat_code s))) = s.
Proof. destruct s; reflexivity. Qed.

(* ====================================================================== *)
(* 3. read_into / write_at                                                 *)
(* ====================================================================== *)
Lemma read_into_exact file pos buf pre d post :
  file = pre +++ d +++ post -> len pre = pos -> len buf = len d ->
  read_into file pos buf = (d, len d).
Proof.
  intros -> <- Hb. unfold read_into.
  rewrite drop_app_exact, Hb, take_app_exact.
  rewrite <- Hb, (drop_all (len buf) buf), app_nil_r_s by lia. reflexivity.
Qed.

Lemma read_into_eof file pos buf : (len file <= pos)%nat -> read_into file pos buf = (buf, 0%nat).
Proof.
  intros H. unfold read_into. rewrite (drop_all pos file H).
  assert (E : str_take (len buf) "" = "") by (destruct (len buf); reflexivity).
  rewrite E. cbn. now rewrite ?drop_0.
Qed.

Lemma write_at_inside s off d : (off + len d <= len s)%nat ->
  write_at s off d = str_take off s +++ d +++ str_drop (off + len d) s.
Proof.
  intros H. unfold write_at. destruct (Nat.leb_spec off (len s)); [reflexivity|lia].
Qed.

Lemma write_at_len s off d : (off + len d <= len s)%nat -> len (write_at s off d) = len s.
Proof.
  intros H. rewrite write_at_inside by auto.
  rewrite !len_app, len_take, len_drop by lia. lia.
Qed.

Lemma write_at_app s t off d : (off + len d <= len s)%nat ->
  write_at (s +++ t) off d = write_at s off d +++ t.
Proof.
  intros H. rewrite !write_at_inside by (rewrite ?len_app; lia).
  rewrite take_app_le, drop_app_le by lia. now rewrite !app_assoc_s.
Qed.

Lemma write_at_mid pre old post d : len old = len d ->
  write_at (pre +++ old +++ post) (len pre) d = pre +++ d +++ post.
Proof.
  intros H. rewrite write_at_inside by (rewrite !len_app; lia).
  rewrite take_app_exact. f_equal. f_equal.
  rewrite <- H, <- len_app, <- app_assoc_s. apply drop_app_exact.
Qed.

(* ====================================================================== *)
(* 4. BufWriter: nothing is dropped or reordered                            *)
(* ====================================================================== *)
Fixpoint scat (l : list str) : str := match l with [] => "" | x :: r => x +++ scat r end.

Lemma scat_app a b : scat (a ++ b) = scat a +++ scat b.
Proof. induction a; cbn; auto. now rewrite IHa, app_assoc_s. Qed.

Lemma bw_write_spec buf data b out :
  bw_write buf data = (b, out) -> scat out +++ b = buf +++ data.
Proof.
  unfold bw_write. intros H.
  destruct (Nat.ltb_spec (len data) (bw_cap - len buf)).
  - inversion H; subst. reflexivity.
  - destruct (Nat.ltb_spec (bw_cap - len buf) (len data)).
    + destruct (String.eqb_spec buf "") as [->|Hne].
      * destruct (Nat.leb_spec bw_cap (len data)); inversion H; subst; cbn;
          now rewrite ?app_nil_r_s.
      * destruct (Nat.leb_spec bw_cap (len data)); inversion H; subst; cbn;
          now rewrite ?app_nil_r_s.
    + destruct (Nat.leb_spec bw_cap (len data)); inversion H; subst; cbn; auto.
      assert (len b = 0%nat) by (unfold bw_cap in *; lia).
      rewrite (len0_empty b) by auto. cbn. now rewrite !app_nil_r_s.
Qed.

Lemma bw_flush_spec buf : scat (bw_flush buf) = buf.
Proof. unfold bw_flush. destruct (String.eqb_spec buf ""); subst; cbn; auto using app_nil_r_s. Qed.

(* ====================================================================== *)
(* 5. files                                                                *)
(* ====================================================================== *)
Lemma fname_eqb_spec a b : reflect (a = b) (fname_eqb a b).
Proof. destruct a, b; cbn; constructor; congruence. Qed.

Definition fcontent (fs : files) (f : fname) : str := match fget fs f with Some s => s | None => "" end.

Lemma fget_set_same f s fs : fget (assoc_set fname_eqb f s fs) f = Some s.
Proof. apply get_set_same, fname_eqb_spec. Qed.
Lemma fget_set_other f g s fs : g <> f -> fget (assoc_set fname_eqb f s fs) g = fget fs g.
Proof. intros. apply get_set_other; auto using fname_eqb_spec. Qed.
Lemma fget_del_same f fs : fget (assoc_del fname_eqb f fs) f = None.
Proof. apply get_del_same. Qed.
Lemma fget_del_other f g fs : g <> f -> fget (assoc_del fname_eqb f fs) g = fget fs g.
Proof. intros. apply get_del_other; auto using fname_eqb_spec. Qed.

Lemma apply_fops_app fs a b : apply_fops fs (a ++ b) = apply_fops (apply_fops fs a) b.
Proof. apply fold_left_app. Qed.

Lemma fget_append_same fs f d s : fget fs f = Some s -> fget (apply_fop fs (OpAppend f d)) f = Some (s +++ d).
Proof. intros H. cbn [apply_fop]. now rewrite fget_set_same, H. Qed.
Lemma fget_append_other fs f g d : g <> f -> fget (apply_fop fs (OpAppend f d)) g = fget fs g.
Proof. intros H. cbn [apply_fop]. now apply fget_set_other. Qed.

Lemma fget_emit_same f out : forall fs s, fget fs f = Some s ->
  fget (apply_fops fs (emit f out)) f = Some (s +++ scat out).
Proof.
  induction out as [|c out IH]; intros fs s H; cbn [emit map scat apply_fops fold_left].
  - now rewrite app_nil_r_s.
  - unfold emit, apply_fops in IH. rewrite (IH _ (s +++ c)).
    + now rewrite app_assoc_s.
    + now apply fget_append_same.
Qed.
Lemma fget_emit_other f g out : g <> f -> forall fs, fget (apply_fops fs (emit f out)) g = fget fs g.
Proof.
  intros Hn. induction out as [|c out IH]; intros fs; cbn [emit map apply_fops fold_left]; auto.
  unfold emit, apply_fops in IH. rewrite IH. now apply fget_append_other.
Qed.

Lemma fget_writeat_same fs f off d s : fget fs f = Some s ->
  fget (apply_fop fs (OpWriteAt f off d)) f = Some (write_at s (N.to_nat off) d).
Proof. intros H. cbn [apply_fop]. now rewrite fget_set_same, H. Qed.
Lemma fget_writeat_other fs f g off d : g <> f -> fget (apply_fop fs (OpWriteAt f off d)) g = fget fs g.
Proof. intros H. cbn [apply_fop]. now apply fget_set_other. Qed.

(* ====================================================================== *)
(* 6. write_at at an offset inside the file                                *)
(* ====================================================================== *)
Lemma write_at_pre s off d : (off <= len s)%nat ->
  write_at s off d = str_take off s +++ d +++ str_drop (off + len d) s.
Proof. intros H. unfold write_at. destruct (Nat.leb_spec off (len s)); [reflexivity|lia]. Qed.

(* ====================================================================== *)
(* 7. abstract view of the keys / values files, and the loader             *)
(* ====================================================================== *)
(* an annotated key record: key, version, value address, and the value stored there *)
Record arec := mkR { r_key : str; r_ver : Z; r_va : N; r_val : str }.

Definition krec (r : arec) : str :=
  le_bytes 8 (slen (r_key r)) +++ r_key r +++ i32_bytes (r_ver r) +++ le_bytes 8 (r_va r).
Definition vrec (v : str) : str := le_bytes 8 (slen v) +++ v +++ le_bytes 4 0.
Definition rsize (r : arec) : N := 8 + slen (r_key r) + 8 + 4.
Fixpoint kcat (l : list arec) : str := match l with [] => "" | r :: t => krec r +++ kcat t end.
Fixpoint ksize (l : list arec) : N := match l with [] => 0 | r :: t => rsize r + ksize t end.

Definition str_ok (s : str) : Prop := utf8_valid s = true /\ slen s <= max_alloc.
Definition has_at (s : str) (off : N) (d : str) : Prop :=
  exists pre post, s = pre +++ d +++ post /\ slen pre = off.
Definition i32_range (z : Z) : Prop := (-2147483648 <= z <= 2147483647)%Z.
Definition ver_ok (z : Z) : Prop := (0 <= z <= i32_max)%Z.
(* a stored version is either -1 (deleted) or a proper version *)
Definition rver_ok (z : Z) : Prop := z = (-1)%Z \/ ver_ok z.
Lemma rver_ok_range z : rver_ok z -> i32_range z.
Proof. unfold rver_ok, ver_ok, i32_range, i32_max. lia. Qed.
Definition rec_ok (V : str) (r : arec) : Prop :=
  str_ok (r_key r) /\ str_ok (r_val r) /\ has_at V (r_va r) (vrec (r_val r)) /\ rver_ok (r_ver r).

Lemma slen_krec r : slen (krec r) = rsize r.
Proof.
  unfold krec, rsize, slen. rewrite !len_app, !len_le_bytes, len_i32_bytes. lia.
Qed.
Lemma len_krec r : len (krec r) = N.to_nat (rsize r).
Proof. rewrite <- slen_krec. unfold slen. lia. Qed.
Lemma slen_kcat l : slen (kcat l) = ksize l.
Proof. induction l; cbn [kcat ksize]; [reflexivity|]. rewrite slen_app, slen_krec, IHl. reflexivity. Qed.
Lemma kcat_app a b : kcat (a ++ b) = kcat a +++ kcat b.
Proof. induction a; cbn [app kcat String.append]; auto. now rewrite IHa, app_assoc_s. Qed.
Lemma ksize_app a b : ksize (a ++ b) = ksize a + ksize b.
Proof. induction a; cbn [app ksize]; auto. rewrite IHa. lia. Qed.
Lemma rsize_pos r : 20 <= rsize r.
Proof. unfold rsize. lia. Qed.
Lemma length_le_ksize l : N.of_nat (length l) <= ksize l.
Proof. induction l; cbn [length ksize]; [lia|]. pose proof (rsize_pos a). lia. Qed.

Lemma has_at_app s t off d : has_at s off d -> has_at (s +++ t) off d.
Proof.
  intros (pre & post & -> & H). exists pre, (post +++ t). split; auto.
  now rewrite !app_assoc_s.
Qed.
Lemma has_at_end s d : has_at (s +++ d) (slen s) d.
Proof. exists s, "". now rewrite app_nil_r_s. Qed.
Lemma has_at_bound s off d : has_at s off d -> off + slen d <= slen s.
Proof. intros (pre & post & -> & <-). rewrite !slen_app. lia. Qed.
Lemma rec_ok_app V t r : rec_ok V r -> rec_ok (V +++ t) r.
Proof. intros (a & b & c & d). split; [|split; [|split]]; auto. now apply has_at_app. Qed.

(* what the loader computes, on the abstract record list *)
Fixpoint load_abs (recs : list arec) (kaddr : N) (m : list (str * value)) (clk : N) : list (str * value) :=
  match recs with
  | [] => m
  | r :: t =>
      load_abs t (kaddr + rsize r)
        (if Z.eqb (r_ver r) (-1) then m
         else assoc_set String.eqb (r_key r) (mkV (r_val r) (r_ver r) clk VOk (r_va r) kaddr) m)
        (clk + 1)
  end.

Lemma max_alloc_lt : max_alloc < 18446744073709551616.
Proof. reflexivity. Qed.

Lemma load_step_rec K V st pre r post :
  K = pre +++ krec r +++ post -> l_pos st = len pre ->
  len (l_lenbuf st) = 8%nat -> len (l_verbuf st) = 4%nat -> len (l_addrbuf st) = 8%nat ->
  rec_ok V r -> slen V < 18446744073709551616 ->
  load_step K V st =
  inl (mkL (len (pre +++ krec r)) (le_bytes 8 (slen (r_val r))) (i32_bytes (r_ver r)) (le_bytes 8 (r_va r))
           (l_kaddr st + rsize r)
           (if Z.eqb (r_ver r) (-1) then l_map st
            else assoc_set String.eqb (r_key r) (mkV (r_val r) (r_ver r) (l_clock st) VOk (r_va r) (l_kaddr st)) (l_map st))
           (l_clock st + 1)).
Proof.
  intros HK Hpos Hl Hv Ha (Hk & Hval & Hat & Hver) HV.
  destruct r as [k ver va v]. cbn [r_key r_ver r_va r_val] in *.
  destruct Hk as [Hku Hkl]. destruct Hval as [Hvu Hvl].
  pose proof max_alloc_lt as Hma.
  assert (Hva : va < 18446744073709551616).
  { apply has_at_bound in Hat. lia. }
  destruct Hat as (vp & vq & HVeq & Hvp).
  unfold krec in HK. cbn [r_key r_ver r_va r_val] in HK.
  set (A := le_bytes 8 (slen k)) in *. set (C := i32_bytes ver) in *. set (D := le_bytes 8 va) in *.
  set (E := le_bytes 8 (slen v)) in *.
  assert (LA : len A = 8%nat) by apply len_le_bytes.
  assert (LC : len C = 4%nat) by apply len_i32_bytes.
  assert (LD : len D = 8%nat) by apply len_le_bytes.
  assert (LE : len E = 8%nat) by apply len_le_bytes.
  assert (H1 : read_into K (l_pos st) (l_lenbuf st) = (A, 8%nat)).
  { rewrite <- LA. apply (read_into_exact _ _ _ pre A (k +++ C +++ D +++ post)); try lia.
    rewrite HK. now rewrite !app_assoc_s. }
  assert (H2 : read_into K (l_pos st + 8) (zeros (N.to_nat (slen k))) = (k, len k)).
  { apply (read_into_exact _ _ _ (pre +++ A) k (C +++ D +++ post)).
    - rewrite HK. now rewrite !app_assoc_s.
    - rewrite len_app. lia.
    - rewrite len_zeros. unfold slen. lia. }
  assert (H3 : read_into K (l_pos st + 8 + len k) (l_verbuf st) = (C, 4%nat)).
  { rewrite <- LC. apply (read_into_exact _ _ _ (pre +++ A +++ k) C (D +++ post)); try lia.
    - rewrite HK. now rewrite !app_assoc_s.
    - rewrite !len_app. lia. }
  assert (H4 : read_into K (l_pos st + 8 + len k + 4) (l_addrbuf st) = (D, 8%nat)).
  { rewrite <- LD. apply (read_into_exact _ _ _ (pre +++ A +++ k +++ C) D post); try lia.
    - rewrite HK. now rewrite !app_assoc_s.
    - rewrite !len_app. lia. }
  assert (H5 : read_into V (N.to_nat va) A = (E, 8%nat)).
  { rewrite <- LE. apply (read_into_exact _ _ _ vp E (v +++ le_bytes 4 0 +++ vq)); try lia.
    - rewrite HVeq. unfold vrec. now rewrite !app_assoc_s.
    - unfold slen in Hvp. lia. }
  assert (H6 : read_into V (N.to_nat va + 8) (zeros (N.to_nat (slen v))) = (v, len v)).
  { apply (read_into_exact _ _ _ (vp +++ E) v (le_bytes 4 0 +++ vq)).
    - rewrite HVeq. unfold vrec. now rewrite !app_assoc_s.
    - rewrite len_app. unfold slen in Hvp. lia.
    - rewrite len_zeros. unfold slen. lia. }
  unfold load_step. rewrite H1. cbv iota beta. cbn [Nat.eqb].
  assert (EA : le_decode A = slen k) by (apply le_decode_8; lia).
  rewrite EA.
  destruct (N.ltb_spec max_alloc (slen k)); [lia|].
  rewrite H2. cbv iota beta. rewrite Hku. cbn [negb].
  rewrite H3. cbv iota beta. rewrite H4. cbv iota beta.
  assert (ED : le_decode D = va) by (apply le_decode_8; lia).
  rewrite ED. rewrite H5. cbv iota beta.
  assert (EE : le_decode E = slen v) by (apply le_decode_8; lia).
  rewrite EE.
  destruct (N.ltb_spec max_alloc (slen v)); [lia|].
  rewrite H6. cbv iota beta. rewrite Hvu. cbn [negb].
  unfold C. rewrite i32_decode_bytes by (apply rver_ok_range; exact Hver).
  f_equal. f_equal.
  rewrite len_app, len_krec. unfold rsize. cbn [r_key]. unfold slen. lia.
Qed.

Lemma load_step_end K V st : l_pos st = len K -> len (l_lenbuf st) = 8%nat ->
  load_step K V st = inr (LOk (l_map st) (l_clock st)).
Proof.
  intros H _. unfold load_step. rewrite read_into_eof by lia. reflexivity.
Qed.

Lemma load_loop_recs V : slen V < 18446744073709551616 ->
  forall recs fuel K pre st,
  K = pre +++ kcat recs -> l_pos st = len pre ->
  len (l_lenbuf st) = 8%nat -> len (l_verbuf st) = 4%nat -> len (l_addrbuf st) = 8%nat ->
  Forall (rec_ok V) recs -> (length recs < fuel)%nat ->
  load_loop fuel K V st =
  LOk (load_abs recs (l_kaddr st) (l_map st) (l_clock st)) (l_clock st + N.of_nat (length recs)).
Proof.
  intros HV. induction recs as [|r t IH]; intros fuel K pre st HK Hpos Hl Hv Ha Hok Hf.
  - destruct fuel; [cbn in Hf; lia|]. cbn [load_loop].
    rewrite load_step_end; auto.
    + cbn. f_equal. lia.
    + rewrite HK. cbn [kcat]. now rewrite app_nil_r_s.
  - destruct fuel; [cbn in Hf; lia|]. cbn [load_loop].
    apply Forall_cons_iff in Hok. destruct Hok as [Hr Ht].
    cbn [kcat] in HK.
    rewrite (load_step_rec K V st pre r (kcat t)); auto.
    rewrite (IH fuel K (pre +++ krec r)); cbn [l_pos l_lenbuf l_verbuf l_addrbuf l_kaddr l_map l_clock];
      auto using len_le_bytes, len_i32_bytes.
    + cbn [load_abs length]. f_equal. lia.
    + now rewrite app_assoc_s.
    + cbn [length] in Hf. lia.
Qed.

(* ====================================================================== *)
(* 8. records addressed by their offset                                    *)
(* ====================================================================== *)
Fixpoint rec_at (recs : list arec) (s off : N) (q : arec) : Prop :=
  match recs with
  | [] => False
  | x :: t => (off = s /\ q = x) \/ rec_at t (s + rsize x) off q
  end.

Lemma rec_at_ge recs : forall s off q, rec_at recs s off q -> s <= off.
Proof.
  induction recs as [|x t IH]; intros s off q H; cbn [rec_at] in H; [tauto|].
  destruct H as [[-> _]|H]; [lia|]. apply IH in H. lia.
Qed.

Lemma rec_at_end recs : forall s off q, rec_at recs s off q -> off + rsize q <= s + ksize recs.
Proof.
  induction recs as [|x t IH]; intros s off q H; cbn [rec_at ksize] in *; [tauto|].
  destruct H as [[-> ->]|H]; [lia|]. apply IH in H. lia.
Qed.

Lemma rec_at_in recs : forall s off q, rec_at recs s off q -> In q recs.
Proof.
  induction recs as [|x t IH]; intros s off q H; cbn [rec_at] in H; [tauto|].
  destruct H as [[_ ->]|H]; [now left|]. right. eauto.
Qed.

Lemma rec_at_fun recs : forall s off q q', rec_at recs s off q -> rec_at recs s off q' -> q = q'.
Proof.
  induction recs as [|x t IH]; intros s off q q' H H'; cbn [rec_at] in *; [tauto|].
  pose proof (rsize_pos x).
  destruct H as [[-> ->]|H]; destruct H' as [[E ->]|H']; auto.
  - apply rec_at_ge in H'. lia.
  - apply rec_at_ge in H. lia.
  - eauto.
Qed.

Lemma rec_at_snoc recs x : forall s off q,
  rec_at (recs ++ [x]) s off q <-> rec_at recs s off q \/ (off = s + ksize recs /\ q = x).
Proof.
  induction recs as [|y t IH]; intros s off q; cbn [app rec_at ksize].
  - rewrite N.add_0_r. tauto.
  - rewrite IH. rewrite N.add_assoc. tauto.
Qed.

Fixpoint rupd (recs : list arec) (s off : N) (r' : arec) : list arec :=
  match recs with
  | [] => []
  | x :: t => if N.eqb off s then r' :: t else x :: rupd t (s + rsize x) off r'
  end.

Lemma rsize_key r r' : r_key r' = r_key r -> rsize r' = rsize r.
Proof. unfold rsize. now intros ->. Qed.

Lemma rec_at_rupd recs : forall s off r r', rec_at recs s off r -> r_key r' = r_key r ->
  forall off' q, rec_at (rupd recs s off r') s off' q <->
                 (off' = off /\ q = r') \/ (off' <> off /\ rec_at recs s off' q).
Proof.
  induction recs as [|x t IH]; intros s off r r' H Hk off' q; cbn [rec_at rupd] in *; [tauto|].
  pose proof (rsize_pos x).
  destruct H as [[-> ->]|H].
  - rewrite N.eqb_refl. cbn [rec_at]. rewrite (rsize_key _ _ Hk).
    split.
    + intros [[-> ->]|H']; [now left|]. right. pose proof (rec_at_ge _ _ _ _ H'). split; [lia|now right].
    + intros [[-> ->]|[Hn [[E _]|H']]]; [now left|lia|now right].
  - pose proof (rec_at_ge _ _ _ _ H).
    destruct (N.eqb_spec off s); [lia|]. cbn [rec_at]. rewrite (IH _ _ _ _ H Hk).
    split.
    + intros [[-> ->]|[[-> ->]|[Hn H']]]; [right; split; [lia|now left] | now left | right; split; auto].
    + intros [[-> ->]|[Hn [[-> ->]|H']]]; [right; now left | now left | right; right; auto].
Qed.

Lemma ksize_rupd recs : forall s off r r', rec_at recs s off r -> r_key r' = r_key r ->
  ksize (rupd recs s off r') = ksize recs.
Proof.
  induction recs as [|x t IH]; intros s off r r' H Hk; cbn [rec_at rupd ksize] in *; [tauto|].
  pose proof (rsize_pos x).
  destruct H as [[-> ->]|H].
  - rewrite N.eqb_refl. cbn [ksize]. now rewrite (rsize_key _ _ Hk).
  - pose proof (rec_at_ge _ _ _ _ H). destruct (N.eqb_spec off s); [lia|]. cbn [ksize].
    now rewrite (IH _ _ _ _ H Hk).
Qed.

Lemma Forall_rupd (P : arec -> Prop) recs : forall s off r', Forall P recs -> P r' -> Forall P (rupd recs s off r').
Proof.
  induction recs as [|x t IH]; intros s off r' H Hr; cbn [rupd]; auto.
  apply Forall_cons_iff in H. destruct H as [Hx Ht].
  destruct (N.eqb off s); constructor; auto.
Qed.

(* the two pwrites of update_key turn the record at [off] into r' *)
Lemma kcat_rupd recs : forall s off r r' pre, rec_at recs s off r -> r_key r' = r_key r -> slen pre = s ->
  write_at (write_at (pre +++ kcat recs) (N.to_nat (off + 8 + slen (r_key r))) (i32_bytes (r_ver r')))
           (N.to_nat (off + 8 + slen (r_key r) + 4)) (le_bytes 8 (r_va r'))
  = pre +++ kcat (rupd recs s off r').
Proof.
  induction recs as [|x t IH]; intros s off r r' pre H Hk Hs; cbn [rec_at rupd kcat] in *; [tauto|].
  pose proof (rsize_pos x).
  destruct H as [[-> ->]|H].
  - rewrite N.eqb_refl. cbn [kcat]. unfold krec. rewrite Hk.
    set (A := le_bytes 8 (slen (r_key x))).
    replace (pre +++ (A +++ r_key x +++ i32_bytes (r_ver x) +++ le_bytes 8 (r_va x)) +++ kcat t)
      with ((pre +++ A +++ r_key x) +++ i32_bytes (r_ver x) +++ (le_bytes 8 (r_va x) +++ kcat t))
      by now rewrite !app_assoc_s.
    replace (N.to_nat (s + 8 + slen (r_key x))) with (len (pre +++ A +++ r_key x)).
    2:{ rewrite !len_app. unfold A. rewrite len_le_bytes. unfold slen in *. lia. }
    rewrite write_at_mid by now rewrite !len_i32_bytes.
    replace ((pre +++ A +++ r_key x) +++ i32_bytes (r_ver r') +++ le_bytes 8 (r_va x) +++ kcat t)
      with ((pre +++ A +++ r_key x +++ i32_bytes (r_ver r')) +++ le_bytes 8 (r_va x) +++ kcat t)
      by now rewrite !app_assoc_s.
    replace (N.to_nat (s + 8 + slen (r_key x) + 4)) with (len (pre +++ A +++ r_key x +++ i32_bytes (r_ver r'))).
    2:{ rewrite !len_app. unfold A. rewrite len_le_bytes, len_i32_bytes. unfold slen in *. lia. }
    rewrite write_at_mid by now rewrite !len_le_bytes.
    now rewrite !app_assoc_s.
  - pose proof (rec_at_ge _ _ _ _ H). destruct (N.eqb_spec off s); [lia|]. cbn [kcat].
    rewrite <- !app_assoc_s. rewrite (IH (s + rsize x) off r r' (pre +++ krec x)); auto.
    rewrite slen_app, slen_krec. lia.
Qed.

(* ====================================================================== *)
(* 9. what the loader's result contains, key by key                        *)
(* ====================================================================== *)
Definition all_dead (recs : list arec) (s : N) (k : str) : Prop :=
  forall off q, rec_at recs s off q -> r_key q = k -> r_ver q = (-1)%Z.
Definition dead_except (recs : list arec) (s : N) (k : str) (o : N) : Prop :=
  forall off q, rec_at recs s off q -> r_key q = k -> off <> o -> r_ver q = (-1)%Z.

Lemma load_abs_dead recs : forall s m clk k, all_dead recs s k ->
  assoc_get String.eqb k (load_abs recs s m clk) = assoc_get String.eqb k m.
Proof.
  induction recs as [|x t IH]; intros s m clk k H; cbn [load_abs]; auto.
  unfold all_dead in H.
  rewrite IH.
  - destruct (Z.eqb_spec (r_ver x) (-1)) as [e|n]; auto.
    apply get_set_other; auto using String.eqb_spec.
    intros ->. apply n. apply (H s x); auto. cbn [rec_at]. now left.
  - intros off q Hq Hk. apply (H off q); auto. cbn [rec_at]. now right.
Qed.

Lemma load_abs_live recs : forall s m clk k off q,
  rec_at recs s off q -> r_key q = k -> r_ver q <> (-1)%Z -> dead_except recs s k off ->
  exists opp, assoc_get String.eqb k (load_abs recs s m clk) = Some (mkV (r_val q) (r_ver q) opp VOk (r_va q) off).
Proof.
  induction recs as [|x t IH]; intros s m clk k off q H Hk Hv Hd; cbn [rec_at load_abs] in *; [tauto|].
  pose proof (rsize_pos x).
  destruct H as [[-> ->]|H].
  - exists clk. rewrite load_abs_dead.
    + destruct (Z.eqb_spec (r_ver x) (-1)); [contradiction|]. rewrite Hk.
      apply get_set_same, String.eqb_spec.
    + intros off' q' Hq' Hk'. apply (Hd off' q'); auto. cbn [rec_at]. now right.
      apply rec_at_ge in Hq'. lia.
  - eapply IH; eauto.
    intros off' q' Hq' Hk' Hn. apply (Hd off' q'); auto. cbn [rec_at]. now right.
Qed.

(* ====================================================================== *)
(* 10. the invariant relating memory and disk (abstract form)              *)
(* ====================================================================== *)
Definition on_disk (st : vstate) : bool := match st with VNew => false | _ => true end.

(* per key: a key that memory believes to be on disk (VOk/VUpdated/VDeleted) has a record at
   v_kaddr, every other record of that key is dead (version -1); for VOk the record agrees with
   memory.  A key that is absent or VNew has only dead records. *)
Definition key_ok (mem : list (str * value)) (recs : list arec) (k : str) : Prop :=
  match assoc_get String.eqb k mem with
  | Some mv =>
      if on_disk (v_st mv) then
        (exists q, rec_at recs 0 (v_kaddr mv) q /\ r_key q = k /\
                   (v_st mv = VOk -> r_ver q = v_ver mv /\ r_va q = v_vaddr mv /\ r_val q = v_val mv)) /\
        dead_except recs 0 k (v_kaddr mv)
      else all_dead recs 0 k
  | None => all_dead recs 0 k
  end.

(* additionally true right after a snapshot: nothing is pending *)
Definition key_synced (mem : list (str * value)) (recs : list arec) (k : str) : Prop :=
  match assoc_get String.eqb k mem with
  | Some mv => match v_st mv with VOk => True | VDeleted => all_dead recs 0 k | _ => False end
  | None => True
  end.

Definition mem_ok (mem : list (str * value)) : Prop :=
  forall k mv, assoc_get String.eqb k mem = Some mv -> str_ok k /\ str_ok (v_val mv) /\ ver_ok (v_ver mv).
Definition vhead_ok (V : str) : Prop := V = "" \/ exists v, str_ok v /\ has_at V 0 (vrec v).

Record Inv (mem : list (str * value)) (recs : list arec) (V : str) : Prop := mkInv {
  inv_keys : forall k, key_ok mem recs k;
  inv_mem : mem_ok mem;
  inv_nodup : NoDup (map fst mem);
  inv_recs : Forall (rec_ok V) recs;
  inv_vhead : vhead_ok V }.

(* the headline relation: [m] (the loader's result) is exactly the live part of [mem] *)
Definition restored (mem m : list (str * value)) : Prop :=
  forall k,
    match assoc_get String.eqb k mem with
    | Some mv =>
        match v_st mv with
        | VOk => exists mv', assoc_get String.eqb k m = Some mv' /\
                             v_val mv' = v_val mv /\ v_ver mv' = v_ver mv /\ v_st mv' = VOk /\
                             v_vaddr mv' = v_vaddr mv /\ v_kaddr mv' = v_kaddr mv
        | _ => assoc_get String.eqb k m = None
        end
    | None => assoc_get String.eqb k m = None
    end.

Lemma ver_ok_not_dead z : ver_ok z -> z <> (-1)%Z.
Proof. unfold ver_ok. lia. Qed.

Lemma load_abs_nil_dead recs k clk : all_dead recs 0 k -> assoc_get String.eqb k (load_abs recs 0 [] clk) = None.
Proof. intros H. now rewrite load_abs_dead. Qed.

Theorem restored_after_sync mem recs V clk :
  Inv mem recs V -> (forall k, key_synced mem recs k) -> restored mem (load_abs recs 0 [] clk).
Proof.
  intros HI HS k. pose proof (inv_keys _ _ _ HI k) as Hk. pose proof (HS k) as Hs.
  pose proof (inv_mem _ _ _ HI k) as Hm.
  unfold key_ok, key_synced in *.
  destruct (assoc_get String.eqb k mem) as [mv|] eqn:E.
  - destruct (Hm mv eq_refl) as (_ & _ & Hver).
    destruct (v_st mv) eqn:Est; cbn [on_disk] in Hk; try contradiction.
    + destruct Hk as [(q & Hq & Hqk & Hagree) Hd].
      destruct (Hagree eq_refl) as (E1 & E2 & E3).
      destruct (load_abs_live recs 0 [] clk k (v_kaddr mv) q) as [opp Hl]; auto.
      { rewrite E1. now apply ver_ok_not_dead. }
      rewrite Hl. eexists. split; [reflexivity|]. cbn. auto.
    + now apply load_abs_nil_dead.
  - now apply load_abs_nil_dead.
Qed.

(* at most one live record per key *)
Lemma uniq_live mem recs k : key_ok mem recs k ->
  all_dead recs 0 k \/
  exists off q, rec_at recs 0 off q /\ r_key q = k /\ r_ver q <> (-1)%Z /\ dead_except recs 0 k off.
Proof.
  unfold key_ok. destruct (assoc_get String.eqb k mem) as [mv|]; auto.
  destruct (on_disk (v_st mv)); auto.
  intros [(q & Hq & Hqk & _) Hd].
  destruct (Z.eq_dec (r_ver q) (-1)) as [E|E].
  - left. intros off q' Hq' Hk'. destruct (N.eq_dec off (v_kaddr mv)) as [->|Hn].
    + now rewrite (rec_at_fun _ _ _ _ _ Hq' Hq).
    + eapply Hd; eauto.
  - right. eauto 10.
Qed.

Lemma nodup_load_abs recs : forall s m clk, NoDup (map fst m) -> NoDup (map fst (load_abs recs s m clk)).
Proof.
  induction recs as [|x t IH]; intros s m clk H; cbn [load_abs]; auto.
  apply IH. destruct (Z.eqb (r_ver x) (-1)); auto. apply nodup_set; auto using String.eqb_spec.
Qed.

(* DvRestart: the loaded map satisfies the invariant again, and is fully synced *)
Lemma Inv_restart mem recs V clk :
  Inv mem recs V ->
  Inv (load_abs recs 0 [] clk) recs V /\ (forall k, key_synced (load_abs recs 0 [] clk) recs k).
Proof.
  intros HI.
  assert (Hchar : forall k,
    (all_dead recs 0 k /\ assoc_get String.eqb k (load_abs recs 0 [] clk) = None) \/
    (exists off q opp, rec_at recs 0 off q /\ r_key q = k /\ r_ver q <> (-1)%Z /\ dead_except recs 0 k off /\
       assoc_get String.eqb k (load_abs recs 0 [] clk) = Some (mkV (r_val q) (r_ver q) opp VOk (r_va q) off))).
  { intros k. destruct (uniq_live _ _ _ (inv_keys _ _ _ HI k)) as [Hd|(off & q & Hq & Hk & Hv & Hd)].
    - left. split; auto. now apply load_abs_nil_dead.
    - right. destruct (load_abs_live recs 0 [] clk k off q Hq Hk Hv Hd) as [opp Ho]. eauto 10. }
  split; [constructor|].
  - intros k. unfold key_ok. destruct (Hchar k) as [[Hd ->]|(off & q & opp & Hq & Hk & Hv & Hd & ->)]; auto.
    cbn [v_st on_disk v_kaddr v_ver v_vaddr v_val]. split; auto. exists q. auto.
  - intros k mv Hg. destruct (Hchar k) as [[Hd E]|(off & q & opp & Hq & Hk & Hv & Hd & E)]; [congruence|].
    rewrite E in Hg. inversion Hg; subst mv. cbn [v_val v_ver].
    pose proof (rec_at_in _ _ _ _ Hq) as Hin.
    pose proof (proj1 (Forall_forall _ _) (inv_recs _ _ _ HI) _ Hin) as (Hkey & Hval & _ & Hrv).
    rewrite Hk in Hkey. repeat split; try apply Hkey; try apply Hval; destruct Hrv as [?|[? ?]]; auto; contradiction.
  - apply nodup_load_abs. constructor.
  - apply (inv_recs _ _ _ HI).
  - apply (inv_vhead _ _ _ HI).
  - intros k. unfold key_synced. destruct (Hchar k) as [[Hd ->]|(off & q & opp & Hq & Hk & Hv & Hd & ->)]; auto.
    cbn. auto.
Qed.

(* ====================================================================== *)
(* 11. decimal strings written by inc_value are valid short UTF-8           *)
(* ====================================================================== *)
Fixpoint all_ascii (s : str) : bool :=
  match s with EmptyString => true | String a r => N.ltb (N_of_ascii a) 128 && all_ascii r end.

Lemma utf8_valid_fuel_ascii f : forall s, all_ascii s = true -> utf8_valid_fuel f s = true.
Proof.
  induction f; intros s H; cbn [utf8_valid_fuel]; auto.
  destruct s as [|a r]; auto. cbn [all_ascii] in H. apply andb_true_iff in H. destruct H as [H1 H2].
  rewrite H1. auto.
Qed.
Lemma utf8_valid_ascii s : all_ascii s = true -> utf8_valid s = true.
Proof. apply utf8_valid_fuel_ascii. Qed.

Lemma all_ascii_uint u : all_ascii (NilEmpty.string_of_uint u) = true.
Proof. induction u; cbn [NilEmpty.string_of_uint all_ascii]; auto. Qed.

Lemma len_string_of_uint u : len (NilEmpty.string_of_uint u) = Decimal.nb_digits u.
Proof. induction u; cbn [NilEmpty.string_of_uint Decimal.nb_digits String.length]; auto. Qed.

Lemma nb_digits_revapp u : forall v, Decimal.nb_digits (Decimal.revapp u v) = (Decimal.nb_digits u + Decimal.nb_digits v)%nat.
Proof. induction u; intros v; cbn [Decimal.revapp Decimal.nb_digits]; auto; rewrite IHu; cbn [Decimal.nb_digits]; lia. Qed.

Lemma nb_digits_double u :
  (Decimal.nb_digits (Decimal.Little.double u) <= S (Decimal.nb_digits u) /\
   Decimal.nb_digits (Decimal.Little.succ_double u) <= S (Decimal.nb_digits u))%nat.
Proof. induction u; cbn [Decimal.Little.double Decimal.Little.succ_double Decimal.nb_digits]; lia. Qed.

Lemma nb_digits_little p : (Decimal.nb_digits (Pos.to_little_uint p) <= Pos.size_nat p)%nat.
Proof.
  induction p; cbn [Pos.to_little_uint Pos.size_nat Decimal.nb_digits]; auto.
  - pose proof (proj2 (nb_digits_double (Pos.to_little_uint p))). lia.
  - pose proof (proj1 (nb_digits_double (Pos.to_little_uint p))). lia.
Qed.

Lemma size_nat_bound p : forall n, (Zpos p < 2 ^ Z.of_nat n)%Z -> (Pos.size_nat p <= n)%nat.
Proof.
  induction p; intros n H; cbn [Pos.size_nat].
  - destruct n; [cbn in H; lia|]. rewrite Nat2Z.inj_succ, Z.pow_succ_r in H by lia.
    apply le_n_S, IHp. lia.
  - destruct n; [cbn in H; lia|]. rewrite Nat2Z.inj_succ, Z.pow_succ_r in H by lia.
    apply le_n_S, IHp. lia.
  - destruct n; [cbn in H; lia|]. lia.
Qed.

Lemma len_N_to_str_pos p : (len (N_to_str (Npos p)) <= Pos.size_nat p)%nat.
Proof.
  unfold N_to_str. rewrite len_string_of_uint. cbn [N.to_uint]. unfold Pos.to_uint, Decimal.rev.
  rewrite nb_digits_revapp. cbn [Decimal.nb_digits]. pose proof (nb_digits_little p). lia.
Qed.

Lemma str_ok_Z_to_str z : (-2147483648 <= z <= 2147483647)%Z -> str_ok (Z_to_str z).
Proof.
  intros H. split.
  - apply utf8_valid_ascii. destruct z; cbn [Z_to_str]; [reflexivity| |]; unfold N_to_str.
    + apply all_ascii_uint.
    + cbn [String.append all_ascii]. apply all_ascii_uint.
  - unfold slen, max_alloc. destruct z; cbn [Z_to_str].
    + cbn. lia.
    + pose proof (len_N_to_str_pos p). pose proof (size_nat_bound p 32). 
      assert (Pos.size_nat p <= 32)%nat by (apply H1; cbn; lia). lia.
    + cbn [String.append String.length]. pose proof (len_N_to_str_pos p). pose proof (size_nat_bound p 32).
      assert (Pos.size_nat p <= 32)%nat by (apply H1; cbn; lia). lia.
Qed.

Lemma str_ok_empty_marker : str_ok "<Empty>".
Proof. split; [reflexivity| unfold slen, max_alloc; cbn; lia]. Qed.

(* ====================================================================== *)
(* 12. set_value / remove_value / inc_value preserve the invariant          *)
(* ====================================================================== *)
Lemma key_ok_same_get mem mem' recs k :
  assoc_get String.eqb k mem' = assoc_get String.eqb k mem -> key_ok mem recs k -> key_ok mem' recs k.
Proof. unfold key_ok. now intros ->. Qed.

Lemma in_keys_del {B} k x (l : list (str * B)) : In x (map fst (assoc_del String.eqb k l)) -> In x (map fst l).
Proof.
  induction l as [|[k' v] r IH]; cbn; auto.
  destruct (String.eqb k k'); cbn; intuition.
Qed.
Lemma nodup_del {B} k (l : list (str * B)) : NoDup (map fst l) -> NoDup (map fst (assoc_del String.eqb k l)).
Proof.
  induction l as [|[k' v] r IH]; cbn; auto. intros H. inversion H; subst.
  destruct (String.eqb k k'); cbn; auto. constructor; auto. intros Hin. apply in_keys_del in Hin. auto.
Qed.

Lemma Inv_set_existing mem recs V k old nv :
  Inv mem recs V -> assoc_get String.eqb k mem = Some old ->
  on_disk (v_st nv) = on_disk (v_st old) -> v_st nv <> VOk -> v_kaddr nv = v_kaddr old ->
  str_ok (v_val nv) -> ver_ok (v_ver nv) ->
  Inv (assoc_set String.eqb k nv mem) recs V.
Proof.
  intros HI Hg Hod Hst Hka Hval Hver. constructor.
  - intros k'. destruct (String.eqb_spec k' k) as [->|Hn].
    + pose proof (inv_keys _ _ _ HI k) as Hk. unfold key_ok in *.
      rewrite get_set_same by apply String.eqb_spec. rewrite Hg in Hk. rewrite Hod, Hka.
      destruct (on_disk (v_st old)); auto.
      destruct Hk as [(q & Hq & Hqk & _) Hd]. split; auto. exists q. repeat split; auto; contradiction.
    + eapply key_ok_same_get; [|apply (inv_keys _ _ _ HI)].
      apply get_set_other; auto using String.eqb_spec.
  - intros k' mv. destruct (String.eqb_spec k' k) as [->|Hn].
    + rewrite get_set_same by apply String.eqb_spec. intros [= <-].
      destruct (inv_mem _ _ _ HI _ _ Hg) as (Hk & _). auto.
    + rewrite get_set_other by auto using String.eqb_spec. apply (inv_mem _ _ _ HI).
  - apply nodup_set; auto using String.eqb_spec. apply (inv_nodup _ _ _ HI).
  - apply (inv_recs _ _ _ HI).
  - apply (inv_vhead _ _ _ HI).
Qed.

Lemma Inv_set_new mem recs V k nv :
  Inv mem recs V -> assoc_get String.eqb k mem = None -> v_st nv = VNew ->
  str_ok k -> str_ok (v_val nv) -> ver_ok (v_ver nv) ->
  Inv (assoc_set String.eqb k nv mem) recs V.
Proof.
  intros HI Hg Hst Hk Hval Hver. constructor.
  - intros k'. destruct (String.eqb_spec k' k) as [->|Hn].
    + pose proof (inv_keys _ _ _ HI k) as Hk'. unfold key_ok in *.
      rewrite get_set_same by apply String.eqb_spec. rewrite Hg in Hk'. now rewrite Hst.
    + eapply key_ok_same_get; [|apply (inv_keys _ _ _ HI)].
      apply get_set_other; auto using String.eqb_spec.
  - intros k' mv. destruct (String.eqb_spec k' k) as [->|Hn].
    + rewrite get_set_same by apply String.eqb_spec. intros [= <-]. auto.
    + rewrite get_set_other by auto using String.eqb_spec. apply (inv_mem _ _ _ HI).
  - apply nodup_set; auto using String.eqb_spec. apply (inv_nodup _ _ _ HI).
  - apply (inv_recs _ _ _ HI).
  - apply (inv_vhead _ _ _ HI).
Qed.

Lemma Inv_del_new mem recs V k old :
  Inv mem recs V -> assoc_get String.eqb k mem = Some old -> v_st old = VNew ->
  Inv (assoc_del String.eqb k mem) recs V.
Proof.
  intros HI Hg Hst. constructor.
  - intros k'. destruct (String.eqb_spec k' k) as [->|Hn].
    + pose proof (inv_keys _ _ _ HI k) as Hk'. unfold key_ok in *.
      rewrite get_del_same. rewrite Hg, Hst in Hk'. exact Hk'.
    + eapply key_ok_same_get; [|apply (inv_keys _ _ _ HI)].
      apply get_del_other; auto using String.eqb_spec.
  - intros k' mv. destruct (String.eqb_spec k' k) as [->|Hn].
    + rewrite get_del_same. discriminate.
    + rewrite get_del_other by auto using String.eqb_spec. apply (inv_mem _ _ _ HI).
  - apply nodup_del. apply (inv_nodup _ _ _ HI).
  - apply (inv_recs _ _ _ HI).
  - apply (inv_vhead _ _ _ HI).
Qed.

Lemma sat_succ_ok z : (-1 <= z)%Z -> ver_ok (sat_succ z).
Proof. unfold sat_succ, ver_ok, i32_max. destruct (Z.ltb_spec z 2147483647); lia. Qed.

Lemma upd_state_props old : on_disk (upd_state old) = on_disk (v_st old) /\ upd_state old <> VOk.
Proof. unfold upd_state. destruct (v_st old); cbn; split; congruence. Qed.

Lemma Inv_set_value d ch recs V :
  Inv (d_map d) recs V -> str_ok (c_key ch) -> str_ok (c_val ch) -> (-1 <= c_ver ch)%Z ->
  Inv (d_map (fst (fst (set_value d ch)))) recs V.
Proof.
  intros HI Hk Hv Hver. unfold set_value, get_value.
  destruct (assoc_get String.eqb (c_key ch) (d_map d)) as [old|] eqn:E.
  - destruct (_ && _); cbn [fst]; auto.
    unfold put_value, db_set_map. cbn [d_map].
    destruct (upd_state_props old) as [Ho Hn].
    destruct (inv_mem _ _ _ HI _ _ E) as (_ & _ & Hvo).
    eapply Inv_set_existing; eauto.
    cbn [v_ver]. unfold next_version, in_conflict.
    assert (Hs := sat_succ_ok (c_ver ch) Hver).
    assert (Hs' : ver_ok (sat_succ (v_ver old))) by (apply sat_succ_ok; unfold ver_ok in Hvo; lia).
    destruct (Z.eqb_spec (c_ver ch) (-2)); [lia|].
    destruct (Z.eqb_spec (v_ver old) (-2)); [unfold ver_ok in Hvo; lia|].
    destruct (c_resolve ch); auto.
    destruct (Z.eqb_spec (c_ver ch) (-1)); auto.
  - cbn [fst]. unfold put_value, db_set_map. cbn [d_map].
    apply Inv_set_new; auto. cbn [v_ver]. now apply sat_succ_ok.
Qed.

Lemma Inv_remove_value d k recs V :
  Inv (d_map d) recs V -> Inv (d_map (fst (fst (remove_value d k)))) recs V.
Proof.
  intros HI. unfold remove_value, get_value.
  destruct (String.eqb k "$$token"); cbn [fst]; auto.
  destruct (assoc_get String.eqb k (d_map d)) as [old|] eqn:E; auto.
  destruct (inv_mem _ _ _ HI _ _ E) as (_ & _ & Hvo).
  assert (Hs' : ver_ok (sat_succ (v_ver old))) by (apply sat_succ_ok; unfold ver_ok in Hvo; lia).
  destruct (v_st old) eqn:Est; unfold put_value, db_set_map; cbn [d_map];
    try (eapply Inv_set_existing; eauto; cbn [v_st v_val v_ver v_kaddr];
         [now rewrite Est | discriminate | apply str_ok_empty_marker]).
  eapply Inv_del_new; eauto.
Qed.

Lemma Inv_inc_value d k i opp recs V :
  Inv (d_map d) recs V -> str_ok k -> Inv (d_map (fst (fst (inc_value d k i opp)))) recs V.
Proof.
  intros HI Hk. unfold inc_value, get_value.
  destruct (parse_i32 _) as [c|]; cbn [fst]; auto.
  destruct (Z.leb_spec (-2147483648) (c + i)); cbn [andb fst]; auto.
  destruct (Z.leb_spec (c + i) i32_max); cbn [fst]; auto.
  assert (Htxt : str_ok (Z_to_str (c + i))) by (apply str_ok_Z_to_str; unfold i32_max in *; lia).
  unfold put_value, db_set_map. cbn [d_map].
  destruct (assoc_get String.eqb k (d_map d)) as [old|] eqn:E.
  - destruct (upd_state_props old) as [Ho Hn].
    destruct (inv_mem _ _ _ HI _ _ E) as (_ & _ & Hvo).
    eapply Inv_set_existing; eauto. cbn [v_ver]. apply sat_succ_ok. unfold ver_ok in Hvo. lia.
  - apply Inv_set_new; auto. cbn [v_ver]. unfold ver_ok, i32_max. lia.
Qed.

(* ====================================================================== *)
(* 13. the snapshot writer: logical content of the two files               *)
(* ====================================================================== *)
(* [WS fs0 w KL VL n0]: after the operations issued so far, the keys file followed by the keys
   BufWriter's buffer is KL, same for the values file / VL; at least n0 bytes of the keys file
   are physically present (in-place updates only touch those). *)
Definition WS (fs0 : files) (w : wstate) (KL VL : str) (n0 : nat) : Prop :=
  exists P Q, fget (apply_fops fs0 (w_ops w)) FKeys = Some P /\
              fget (apply_fops fs0 (w_ops w)) FVals = Some Q /\
              P +++ w_kbuf w = KL /\ Q +++ w_vbuf w = VL /\ (n0 <= len P)%nat.

Definition same_rest (w w' : wstate) : Prop :=
  w_vaddr w' = w_vaddr w /\ w_kaddr w' = w_kaddr w /\ w_mem w' = w_mem w /\ w_clock w' = w_clock w.

Lemma same_rest_refl w : same_rest w w.
Proof. repeat split. Qed.
Lemma same_rest_trans a b c : same_rest a b -> same_rest b c -> same_rest a c.
Proof. unfold same_rest. intuition congruence. Qed.

Lemma w_write_vals_spec fs0 w d KL VL n0 :
  WS fs0 w KL VL n0 -> WS fs0 (w_write_vals w d) KL (VL +++ d) n0 /\ same_rest w (w_write_vals w d).
Proof.
  intros (P & Q & HP & HQ & HK & HV & Hn). unfold w_write_vals.
  destruct (bw_write (w_vbuf w) d) as [b out] eqn:E. split; [|repeat split].
  exists P, (Q +++ scat out). cbn [w_ops w_kbuf w_vbuf]. rewrite apply_fops_app.
  rewrite fget_emit_other by discriminate. rewrite (fget_emit_same _ _ _ _ HQ).
  repeat split; auto.
  rewrite app_assoc_s, (bw_write_spec _ _ _ _ E), <- app_assoc_s. now rewrite HV.
Qed.

Lemma w_write_keys_spec fs0 w d KL VL n0 :
  WS fs0 w KL VL n0 -> WS fs0 (w_write_keys w d) (KL +++ d) VL n0 /\ same_rest w (w_write_keys w d).
Proof.
  intros (P & Q & HP & HQ & HK & HV & Hn). unfold w_write_keys.
  destruct (bw_write (w_kbuf w) d) as [b out] eqn:E. split; [|repeat split].
  exists (P +++ scat out), Q. cbn [w_ops w_kbuf w_vbuf]. rewrite apply_fops_app.
  rewrite (fget_emit_other FKeys FVals) by discriminate. rewrite (fget_emit_same _ _ _ _ HP).
  repeat split; auto.
  - rewrite app_assoc_s, (bw_write_spec _ _ _ _ E), <- app_assoc_s. now rewrite HK.
  - rewrite len_app. lia.
Qed.

Lemma w_value_spec fs0 w v KL VL n0 w1 rs :
  WS fs0 w KL VL n0 -> w_value w v = (w1, rs) ->
  WS fs0 w1 KL (VL +++ vrec (v_val v)) n0 /\ same_rest w w1 /\ rs = slen (vrec (v_val v)).
Proof.
  intros H E. unfold w_value in E. apply pair_equal_spec in E. destruct E as [<- <-].
  destruct (w_write_vals_spec _ _ (le_bytes 8 (slen (v_val v))) _ _ _ H) as [H1 S1].
  destruct (w_write_vals_spec _ _ (v_val v) _ _ _ H1) as [H2 S2].
  destruct (w_write_vals_spec _ _ (le_bytes 4 (status_code VOk)) _ _ _ H2) as [H3 S3].
  split; [|split].
  - unfold vrec. rewrite <- !app_assoc_s. exact H3.
  - eauto using same_rest_trans.
  - unfold vrec, slen. rewrite !len_app, !len_le_bytes. lia.
Qed.

Lemma w_key_spec fs0 w k v va KL VL n0 w1 ks val :
  WS fs0 w KL VL n0 -> w_key w k v va = (w1, ks) ->
  WS fs0 w1 (KL +++ krec (mkR k (v_ver v) va val)) VL n0 /\ same_rest w w1 /\ ks = rsize (mkR k (v_ver v) va val).
Proof.
  intros H E. unfold w_key in E. apply pair_equal_spec in E. destruct E as [<- <-].
  destruct (w_write_keys_spec _ _ (le_bytes 8 (slen k)) _ _ _ H) as [H1 S1].
  destruct (w_write_keys_spec _ _ k _ _ _ H1) as [H2 S2].
  destruct (w_write_keys_spec _ _ (i32_bytes (v_ver v)) _ _ _ H2) as [H3 S3].
  destruct (w_write_keys_spec _ _ (le_bytes 8 va) _ _ _ H3) as [H4 S4].
  split; [|split].
  - unfold krec. cbn [r_key r_ver r_va]. rewrite <- !app_assoc_s. exact H4.
  - eauto using same_rest_trans.
  - reflexivity.
Qed.

Lemma w_update_key_spec fs0 w k ver va kaddr KL VL n0 :
  WS fs0 w KL VL n0 -> (N.to_nat (kaddr + 8 + slen k) + 12 <= n0)%nat ->
  WS fs0 (w_update_key w k ver va kaddr)
     (write_at (write_at KL (N.to_nat (kaddr + 8 + slen k)) (i32_bytes ver))
               (N.to_nat (kaddr + 8 + slen k + 4)) (le_bytes 8 va)) VL n0 /\
  same_rest w (w_update_key w k ver va kaddr).
Proof.
  intros (P & Q & HP & HQ & HK & HV & Hn) Hb. unfold w_update_key. split; [|repeat split].
  set (st := kaddr + 8 + slen k) in *.
  exists (write_at (write_at P (N.to_nat st) (i32_bytes ver)) (N.to_nat (st + 4)) (le_bytes 8 va)), Q.
  cbn [w_ops w_kbuf w_vbuf]. rewrite apply_fops_app. cbn [apply_fops fold_left].
  assert (L1 : len (write_at P (N.to_nat st) (i32_bytes ver)) = len P).
  { apply write_at_len. rewrite len_i32_bytes. lia. }
  assert (L2 : len (write_at (write_at P (N.to_nat st) (i32_bytes ver)) (N.to_nat (st + 4)) (le_bytes 8 va)) = len P).
  { rewrite write_at_len; auto. rewrite L1, len_le_bytes. lia. }
  repeat split.
  - erewrite fget_writeat_same; [reflexivity|]. erewrite fget_writeat_same; [reflexivity|]. exact HP.
  - rewrite !fget_writeat_other by discriminate. exact HQ.
  - rewrite <- HK. rewrite write_at_app by (rewrite len_i32_bytes; lia).
    rewrite write_at_app by (rewrite L1, len_le_bytes; lia). reflexivity.
  - exact HV.
  - lia.
Qed.

(* ====================================================================== *)
(* 14. per-key reasoning: changing records of one key does not affect others *)
(* ====================================================================== *)
Definition agree_on (k : str) (recs recs' : list arec) : Prop :=
  forall off q, r_key q = k -> (rec_at recs 0 off q <-> rec_at recs' 0 off q).

Lemma all_dead_agree k recs recs' : agree_on k recs recs' -> all_dead recs 0 k -> all_dead recs' 0 k.
Proof. intros A H off q Hq Hk. apply (H off q); auto. now apply (A off q Hk). Qed.

Lemma dead_except_agree k recs recs' o : agree_on k recs recs' -> dead_except recs 0 k o -> dead_except recs' 0 k o.
Proof. intros A H off q Hq Hk. apply (H off q); auto. now apply (A off q Hk). Qed.

Lemma key_ok_agree mem mem' recs recs' k :
  assoc_get String.eqb k mem' = assoc_get String.eqb k mem -> agree_on k recs recs' ->
  key_ok mem recs k -> key_ok mem' recs' k.
Proof.
  unfold key_ok. intros -> A. destruct (assoc_get String.eqb k mem) as [mv|]; eauto using all_dead_agree.
  destruct (on_disk (v_st mv)); eauto using all_dead_agree.
  intros [(q & Hq & Hk & Hag) Hd]. split; eauto using dead_except_agree.
  exists q. split; auto. now apply (A _ _ Hk).
Qed.

Lemma key_synced_agree mem mem' recs recs' k :
  assoc_get String.eqb k mem' = assoc_get String.eqb k mem -> agree_on k recs recs' ->
  key_synced mem recs k -> key_synced mem' recs' k.
Proof.
  unfold key_synced. intros -> A. destruct (assoc_get String.eqb k mem) as [mv|]; auto.
  destruct (v_st mv); eauto using all_dead_agree.
Qed.

Lemma agree_snoc k recs x : r_key x <> k -> agree_on k recs (recs ++ [x]).
Proof.
  intros Hn off q Hk. rewrite rec_at_snoc. split; auto.
  intros [H|[_ ->]]; auto. contradiction.
Qed.

Lemma agree_rupd k recs o r r' : rec_at recs 0 o r -> r_key r' = r_key r -> r_key r <> k ->
  agree_on k recs (rupd recs 0 o r').
Proof.
  intros Hr Hk Hn off q Hq. rewrite (rec_at_rupd _ _ _ _ _ Hr Hk). split.
  - intros H. right. split; auto. intros ->. rewrite (rec_at_fun _ _ _ _ _ H Hr) in Hq. contradiction.
  - intros [[_ ->]|[_ H]]; auto. congruence.
Qed.

(* no record at all for a key (reclaim pass, key not yet written) *)
Definition no_recs (recs : list arec) (k : str) : Prop := forall off q, rec_at recs 0 off q -> r_key q <> k.

Lemma no_recs_dead recs k : no_recs recs k -> all_dead recs 0 k.
Proof. intros H off q Hq Hk. exfalso. eapply H; eauto. Qed.

Lemma no_recs_snoc recs k x : no_recs recs k -> r_key x <> k -> no_recs (recs ++ [x]) k.
Proof. intros H Hn off q Hq. apply rec_at_snoc in Hq. destruct Hq as [Hq|[_ ->]]; eauto. Qed.

(* appending the record of a key that had only dead records: the key is VOk and in sync *)
Lemma key_ok_snoc_self mem recs k val ver opp va :
  all_dead recs 0 k ->
  key_ok (assoc_set String.eqb k (mkV val ver opp VOk va (ksize recs)) mem) (recs ++ [mkR k ver va val]) k.
Proof.
  intros Hd. unfold key_ok. rewrite get_set_same by apply String.eqb_spec. cbn [v_st on_disk v_kaddr v_ver v_vaddr v_val].
  split.
  - exists (mkR k ver va val). split; [|cbn; auto]. apply rec_at_snoc. right. split; auto; lia.
  - intros off q Hq Hk Hn. apply rec_at_snoc in Hq. destruct Hq as [Hq|[E _]]; [|lia]. eapply Hd; eauto.
Qed.

(* the in-place update of a VUpdated key: the key is VOk and in sync *)
Lemma key_ok_rupd_self mem recs k r val ver opp va ka :
  rec_at recs 0 ka r -> r_key r = k -> dead_except recs 0 k ka ->
  key_ok (assoc_set String.eqb k (mkV val ver opp VOk va ka) mem) (rupd recs 0 ka (mkR k ver va val)) k.
Proof.
  intros Hr Hk Hd. unfold key_ok. rewrite get_set_same by apply String.eqb_spec.
  cbn [v_st on_disk v_kaddr v_ver v_vaddr v_val].
  assert (Hk' : r_key (mkR k ver va val) = r_key r) by (cbn; auto).
  split.
  - exists (mkR k ver va val). split; [|cbn; auto]. apply (rec_at_rupd _ _ _ _ _ Hr Hk'). now left.
  - intros off q Hq Hqk Hn. apply (rec_at_rupd _ _ _ _ _ Hr Hk') in Hq.
    destruct Hq as [[E _]|[_ Hq]]; [contradiction|]. eapply Hd; eauto.
Qed.

(* marking a VDeleted key -1 in place: all its records are now dead *)
Lemma key_ok_rupd_dead mem recs k r mv v0 :
  assoc_get String.eqb k mem = Some mv -> v_st mv = VDeleted ->
  rec_at recs 0 (v_kaddr mv) r -> r_key r = k -> dead_except recs 0 k (v_kaddr mv) ->
  key_ok mem (rupd recs 0 (v_kaddr mv) (mkR k (-1) 0 v0)) k /\
  all_dead (rupd recs 0 (v_kaddr mv) (mkR k (-1) 0 v0)) 0 k.
Proof.
  intros Hg Hst Hr Hk Hd.
  assert (Hk' : r_key (mkR k (-1) 0 v0) = r_key r) by (cbn; auto).
  assert (Hall : all_dead (rupd recs 0 (v_kaddr mv) (mkR k (-1) 0 v0)) 0 k).
  { intros off q Hq Hqk. apply (rec_at_rupd _ _ _ _ _ Hr Hk') in Hq.
    destruct Hq as [[_ ->]|[Hn Hq]]; [reflexivity|]. eapply Hd; eauto. }
  split; auto. unfold key_ok. rewrite Hg, Hst. cbn [on_disk]. split.
  - exists (mkR k (-1) 0 v0). split; [|split; [reflexivity|discriminate]].
    apply (rec_at_rupd _ _ _ _ _ Hr Hk'). now left.
  - intros off q Hq Hqk _. eapply Hall; eauto.
Qed.

(* ---- the key-independent part of the invariant -------------------------- *)
Definition Base (mem : list (str * value)) (recs : list arec) (V : str) : Prop :=
  mem_ok mem /\ NoDup (map fst mem) /\ Forall (rec_ok V) recs /\ vhead_ok V.

Lemma Inv_of_Base mem recs V : (forall k, key_ok mem recs k) -> Base mem recs V -> Inv mem recs V.
Proof. intros H (a & b & c & d). now constructor. Qed.
Lemma Base_of_Inv mem recs V : Inv mem recs V -> Base mem recs V.
Proof. intros [a b c d e]. unfold Base. auto. Qed.

Lemma mem_ok_set mem k nv : mem_ok mem -> str_ok k -> str_ok (v_val nv) -> ver_ok (v_ver nv) ->
  mem_ok (assoc_set String.eqb k nv mem).
Proof.
  intros H Hk Hv Hver k' mv. destruct (String.eqb_spec k' k) as [->|Hn].
  - rewrite get_set_same by apply String.eqb_spec. intros [= <-]. auto.
  - rewrite get_set_other by auto using String.eqb_spec. apply H.
Qed.

Lemma mem_ok_del mem k : mem_ok mem -> mem_ok (assoc_del String.eqb k mem).
Proof.
  intros H k' mv. destruct (String.eqb_spec k' k) as [->|Hn].
  - rewrite get_del_same. discriminate.
  - rewrite get_del_other by auto using String.eqb_spec. apply H.
Qed.

Lemma vhead_ok_app V val : vhead_ok V -> str_ok val -> vhead_ok (V +++ vrec val).
Proof.
  intros [->|(v & Hv & Hat)] Hval; right.
  - exists val. split; auto. exists "", "". cbn [String.append]. now rewrite app_nil_r_s.
  - exists v. split; auto. now apply has_at_app.
Qed.

Lemma Forall_rec_ok_app V t recs : Forall (rec_ok V) recs -> Forall (rec_ok (V +++ t)) recs.
Proof. intros H. eapply Forall_impl; [|exact H]. intros r. apply rec_ok_app. Qed.

Lemma rec_ok_new V k ver val : str_ok k -> str_ok val -> ver_ok ver ->
  rec_ok (V +++ vrec val) (mkR k ver (slen V) val).
Proof. intros Hk Hv Hver. repeat split; cbn [r_key r_val r_va r_ver]; try apply Hk; try apply Hv. apply has_at_end. now right. Qed.

Lemma Base_snoc mem recs V k val ver opp ka :
  Base mem recs V -> str_ok k -> str_ok val -> ver_ok ver ->
  Base (assoc_set String.eqb k (mkV val ver opp VOk (slen V) ka) mem)
       (recs ++ [mkR k ver (slen V) val]) (V +++ vrec val).
Proof.
  intros (Hm & Hn & Hr & Hh) Hk Hv Hver. split; [|split; [|split]].
  - apply mem_ok_set; auto.
  - apply nodup_set; auto using String.eqb_spec.
  - apply Forall_app. split; [now apply Forall_rec_ok_app|]. constructor; auto. now apply rec_ok_new.
  - now apply vhead_ok_app.
Qed.

Lemma Base_rupd_live mem recs V k val ver opp ka off :
  Base mem recs V -> str_ok k -> str_ok val -> ver_ok ver ->
  Base (assoc_set String.eqb k (mkV val ver opp VOk (slen V) ka) mem)
       (rupd recs 0 off (mkR k ver (slen V) val)) (V +++ vrec val).
Proof.
  intros (Hm & Hn & Hr & Hh) Hk Hv Hver. split; [|split; [|split]].
  - apply mem_ok_set; auto.
  - apply nodup_set; auto using String.eqb_spec.
  - apply Forall_rupd; [now apply Forall_rec_ok_app|]. now apply rec_ok_new.
  - now apply vhead_ok_app.
Qed.

Lemma vrec_nonempty v : vrec v <> "".
Proof. unfold vrec. cbn. discriminate. Qed.

(* a values file that holds some record starts with a well-formed record: address 0, which
   update_key stores in a tombstone's key record, can be read back by the loader *)
Lemma vhead_of_rec V r : vhead_ok V -> rec_ok V r -> exists v0, str_ok v0 /\ has_at V 0 (vrec v0).
Proof.
  intros [->|H] (_ & _ & (pre & post & E & _) & _); auto.
  exfalso. destruct pre; cbn in E; [|discriminate].
  destruct (vrec (r_val r)) eqn:Ev; [now apply vrec_nonempty in Ev|discriminate].
Qed.

Lemma Base_rupd_dead mem recs V k off v0 :
  Base mem recs V -> str_ok k -> str_ok v0 -> has_at V 0 (vrec v0) ->
  Base mem (rupd recs 0 off (mkR k (-1) 0 v0)) V.
Proof.
  intros (Hm & Hn & Hr & Hh) Hk Hv Hat. split; [|split; [|split]]; auto.
  apply Forall_rupd; auto. repeat split; cbn [r_key r_val r_va r_ver]; try apply Hk; try apply Hv; auto.
  now left.
Qed.

Lemma Base_del mem recs V k : Base mem recs V -> Base (assoc_del String.eqb k mem) recs V.
Proof. intros (Hm & Hn & Hr & Hh). split; [|split; [|split]]; auto using mem_ok_del, nodup_del. Qed.

(* ====================================================================== *)
(* 15. the iteration order: every selected key exactly once                 *)
(* ====================================================================== *)
Lemma in_get_nodup {B} (m : list (str * B)) k v : NoDup (map fst m) -> In (k, v) m -> assoc_get String.eqb k m = Some v.
Proof.
  induction m as [|[k' v'] r IH]; cbn; [tauto|]. intros Hn [E|Hin].
  - inversion E; subst. now rewrite String.eqb_refl.
  - inversion Hn; subst. destruct (String.eqb_spec k k') as [->|]; auto.
    exfalso. apply H1. change k' with (fst (k', v)). now apply in_map.
Qed.

Lemma nodup_app' {A} (a b : list A) : NoDup a -> NoDup b -> (forall x, In x a -> ~ In x b) -> NoDup (a ++ b).
Proof.
  induction a as [|x a IH]; cbn; auto. intros Ha Hb Hd. inversion Ha; subst.
  constructor.
  - rewrite in_app_iff. intros [H|H]; auto. eapply Hd; eauto.
  - apply IH; auto.
Qed.

Lemma in_keys_filter {B} (p : str * B -> bool) l x : In x (map fst (filter p l)) -> In x (map fst l).
Proof.
  induction l as [|a l IH]; cbn; auto. destruct (p a); cbn; intuition.
Qed.
Lemma nodup_keys_filter {B} (p : str * B -> bool) l : NoDup (map fst l) -> NoDup (map fst (filter p l)).
Proof.
  induction l as [|a l IH]; cbn; auto. intros H. inversion H; subst.
  destruct (p a); cbn; auto. constructor; auto. intros Hin. apply in_keys_filter in Hin. auto.
Qed.

Lemma existsb_eqb_in k order : existsb (String.eqb k) order = true <-> In k order.
Proof.
  rewrite existsb_exists. split.
  - intros (x & Hin & E). apply String.eqb_eq in E. now subst.
  - intros H. exists k. split; auto. apply String.eqb_refl.
Qed.

Section OrderMap.
Variable m : list (str * value).
Variable order : list str.
Hypothesis Hm : NoDup (map fst m).
Hypothesis Ho : NoDup order.

Let pick := fun k : str => match assoc_get String.eqb k m with Some v => [(k, v)] | None => [] end.

Lemma in_picked l k v : In (k, v) (flat_map pick l) <-> In k l /\ assoc_get String.eqb k m = Some v.
Proof.
  rewrite in_flat_map. unfold pick. split.
  - intros (x & Hx & Hin). destruct (assoc_get String.eqb x m) eqn:E; cbn in Hin; [|tauto].
    destruct Hin as [Hin|[]]. inversion Hin; subst. auto.
  - intros [Hin E]. exists k. split; auto. rewrite E. now left.
Qed.

Lemma keys_picked_in l k : In k (map fst (flat_map pick l)) -> In k l.
Proof.
  rewrite in_map_iff. intros ([k' v] & E & Hin). cbn in E. subst k'. now apply in_picked in Hin.
Qed.

Lemma nodup_picked l : NoDup l -> NoDup (map fst (flat_map pick l)).
Proof.
  induction l as [|x l IH]; cbn [flat_map map]; [constructor|]. intros H. inversion H; subst.
  rewrite map_app. apply nodup_app'; auto.
  - unfold pick. destruct (assoc_get String.eqb x m); cbn; repeat constructor; auto.
  - intros k Hk Hk'. apply keys_picked_in in Hk'.
    unfold pick in Hk. destruct (assoc_get String.eqb x m); cbn in Hk; [|tauto].
    destruct Hk as [<-|[]]. auto.
Qed.

Lemma order_map_sound k v : In (k, v) (order_map m order) -> assoc_get String.eqb k m = Some v.
Proof.
  unfold order_map. rewrite in_app_iff. intros [H|H].
  - now apply in_picked in H.
  - apply filter_In in H. destruct H as [H _]. now apply in_get_nodup.
Qed.

Lemma order_map_complete k v : assoc_get String.eqb k m = Some v -> In (k, v) (order_map m order).
Proof.
  intros E. unfold order_map. rewrite in_app_iff.
  destruct (existsb (String.eqb k) order) eqn:Ex.
  - left. apply in_picked. split; auto. now apply existsb_eqb_in.
  - right. apply filter_In. split.
    + eapply get_in; eauto using String.eqb_spec.
    + cbn [fst]. now rewrite Ex.
Qed.

Lemma order_map_nodup : NoDup (map fst (order_map m order)).
Proof.
  unfold order_map. rewrite map_app. apply nodup_app'.
  - now apply nodup_picked.
  - now apply nodup_keys_filter.
  - intros k Hk Hk'. apply keys_picked_in in Hk.
    apply in_map_iff in Hk'. destruct Hk' as ([k' v] & E & Hin). cbn in E. subst k'.
    apply filter_In in Hin. destruct Hin as [_ Hf]. cbn [fst] in Hf.
    apply existsb_eqb_in in Hk. rewrite Hk in Hf. discriminate.
Qed.

Lemma todo_nodup reclaim : NoDup (map fst (keys_to_update m order reclaim)).
Proof. unfold keys_to_update. apply nodup_keys_filter, order_map_nodup. Qed.

Lemma todo_sound reclaim k v : In (k, v) (keys_to_update m order reclaim) ->
  assoc_get String.eqb k m = Some v /\ (reclaim || negb (vstate_eqb (v_st v) VOk)) = true.
Proof.
  unfold keys_to_update. intros H. apply filter_In in H. destruct H as [H Hf]. split; auto.
  now apply order_map_sound.
Qed.

Lemma todo_complete reclaim k v : assoc_get String.eqb k m = Some v ->
  (reclaim || negb (vstate_eqb (v_st v) VOk)) = true -> In k (map fst (keys_to_update m order reclaim)).
Proof.
  intros E Hf. apply in_map_iff. exists (k, v). split; auto.
  unfold keys_to_update. apply filter_In. split; auto. now apply order_map_complete.
Qed.
End OrderMap.

(* ====================================================================== *)
(* 16. one iteration of the snapshot loop                                   *)
(* ====================================================================== *)
Definition WT (fs0 : files) (w : wstate) (recs : list arec) (VL : str) (n0 : nat) : Prop :=
  WS fs0 w (kcat recs) VL n0 /\ w_vaddr w = slen VL /\ w_kaddr w = ksize recs.

Lemma WS_ext fs0 w w' KL VL n0 :
  w_ops w' = w_ops w -> w_kbuf w' = w_kbuf w -> w_vbuf w' = w_vbuf w -> WS fs0 w KL VL n0 -> WS fs0 w' KL VL n0.
Proof. unfold WS. intros -> -> ->. auto. Qed.

Lemma kcat_snoc recs x : kcat (recs ++ [x]) = kcat recs +++ krec x.
Proof. rewrite kcat_app. cbn [kcat]. now rewrite app_nil_r_s. Qed.
Lemma ksize_snoc recs x : ksize (recs ++ [x]) = ksize recs + rsize x.
Proof. rewrite ksize_app. cbn [ksize]. lia. Qed.

Lemma new_key_value_spec fs0 w k v recs VL n0 :
  WT fs0 w recs VL n0 ->
  WT fs0 (new_key_value w k v) (recs ++ [mkR k (v_ver v) (slen VL) (v_val v)]) (VL +++ vrec (v_val v)) n0 /\
  w_mem (new_key_value w k v) =
    assoc_set String.eqb k (mkV (v_val v) (v_ver v) (w_clock w) VOk (slen VL) (ksize recs)) (w_mem w) /\
  w_clock (new_key_value w k v) = w_clock w + 1.
Proof.
  intros (HS & Hva & Hka). unfold new_key_value.
  destruct (w_value w v) as [w1 rs] eqn:E1.
  destruct (w_key w1 k v (w_vaddr w)) as [w2 ks] eqn:E2.
  destruct (w_value_spec _ _ _ _ _ _ _ _ HS E1) as (H1 & (S1a & S1b & S1c & S1d) & Hrs).
  destruct (w_key_spec _ _ _ _ _ _ _ _ _ _ (v_val v) H1 E2) as (H2 & (S2a & S2b & S2c & S2d) & Hks).
  split; [split; [|split]|split].
  - rewrite kcat_snoc, <- Hva. eapply WS_ext; [| | |exact H2]; reflexivity.
  - cbn [w_set_addrs w_vaddr]. rewrite slen_app. lia.
  - cbn [w_set_addrs w_kaddr]. rewrite ksize_snoc. rewrite Hks. unfold rsize. cbn [r_key]. lia.
  - cbn [w_set_addrs w_set_ok w_mem]. congruence.
  - cbn [w_set_addrs w_set_ok w_clock]. congruence.
Qed.

Lemma w_kaddr_write_vals w d : w_kaddr (w_write_vals w d) = w_kaddr w.
Proof. unfold w_write_vals. now destruct (bw_write (w_vbuf w) d). Qed.

Lemma snap_one_reclaim_live w k v : v_st v <> VDeleted -> snap_one true w (k, v) = new_key_value w k v.
Proof.
  intros Hn. unfold snap_one, new_key_value. destruct (v_st v); [reflexivity|congruence| |reflexivity].
  destruct (w_value w v) as [w1 rs] eqn:E. cbv zeta.
  assert (Hk : w_kaddr w1 = w_kaddr w).
  { unfold w_value in E. apply pair_equal_spec in E. destruct E as [<- _]. now rewrite !w_kaddr_write_vals. }
  rewrite Hk. reflexivity.
Qed.

Lemma snap_upd_spec fs0 w k v recs VL n0 r :
  WT fs0 w recs VL n0 -> v_st v = VUpdated -> rec_at recs 0 (v_kaddr v) r -> r_key r = k ->
  (N.to_nat (v_kaddr v + rsize r) <= n0)%nat ->
  WT fs0 (snap_one false w (k, v)) (rupd recs 0 (v_kaddr v) (mkR k (v_ver v) (slen VL) (v_val v)))
     (VL +++ vrec (v_val v)) n0 /\
  w_mem (snap_one false w (k, v)) =
    assoc_set String.eqb k (mkV (v_val v) (v_ver v) (w_clock w) VOk (slen VL) (v_kaddr v)) (w_mem w) /\
  w_clock (snap_one false w (k, v)) = w_clock w + 1.
Proof.
  intros (HS & Hva & Hka) Hst Hr Hk Hb. unfold snap_one. rewrite Hst.
  destruct (w_value w v) as [w1 rs] eqn:E1. cbv zeta.
  destruct (w_value_spec _ _ _ _ _ _ _ _ HS E1) as (H1 & (S1a & S1b & S1c & S1d) & Hrs).
  assert (Hb' : (N.to_nat (v_kaddr v + 8 + slen k) + 12 <= n0)%nat).
  { unfold rsize in Hb. rewrite Hk in Hb. lia. }
  destruct (w_update_key_spec _ _ k (v_ver v) (w_vaddr w) (v_kaddr v) _ _ _ H1 Hb') as (H2 & (S2a & S2b & S2c & S2d)).
  assert (Hk' : r_key (mkR k (v_ver v) (slen VL) (v_val v)) = r_key r) by (cbn; auto).
  split; [split; [|split]|split].
  - eapply WS_ext; [| | | ]; [reflexivity..|].
    pose proof (kcat_rupd recs 0 (v_kaddr v) r _ "" Hr Hk' eq_refl) as Hc.
    cbn [String.append r_ver r_va] in Hc. rewrite Hk in Hc. rewrite <- Hc, <- Hva. exact H2.
  - cbn [w_set_addrs w_vaddr]. rewrite slen_app. lia.
  - cbn [w_set_addrs w_kaddr]. rewrite (ksize_rupd _ _ _ _ _ Hr Hk'). congruence.
  - cbn [w_set_addrs w_set_ok w_mem]. congruence.
  - cbn [w_set_addrs w_set_ok w_clock]. congruence.
Qed.

Lemma snap_del_spec fs0 w k v recs VL n0 r v0 :
  WT fs0 w recs VL n0 -> v_st v = VDeleted -> rec_at recs 0 (v_kaddr v) r -> r_key r = k ->
  (N.to_nat (v_kaddr v + rsize r) <= n0)%nat ->
  WT fs0 (snap_one false w (k, v)) (rupd recs 0 (v_kaddr v) (mkR k (-1) 0 v0)) VL n0 /\
  w_mem (snap_one false w (k, v)) = w_mem w.
Proof.
  intros (HS & Hva & Hka) Hst Hr Hk Hb. unfold snap_one. rewrite Hst. cbv zeta.
  assert (Hb' : (N.to_nat (v_kaddr v + 8 + slen k) + 12 <= n0)%nat).
  { unfold rsize in Hb. rewrite Hk in Hb. lia. }
  destruct (w_update_key_spec _ _ k (-1)%Z 0 (v_kaddr v) _ _ _ HS Hb') as (H2 & (S2a & S2b & S2c & S2d)).
  assert (Hk' : r_key (mkR k (-1) 0 v0) = r_key r) by (cbn; auto).
  split; [split; [|split]|].
  - eapply WS_ext; [| | | ]; [reflexivity..|].
    pose proof (kcat_rupd recs 0 (v_kaddr v) r _ "" Hr Hk' eq_refl) as Hc.
    cbn [String.append r_ver r_va] in Hc. rewrite Hk in Hc. rewrite <- Hc. exact H2.
  - cbn [w_vaddr]. congruence.
  - cbn [w_kaddr]. rewrite (ksize_rupd _ _ _ _ _ Hr Hk'). congruence.
  - cbn [w_mem]. congruence.
Qed.

(* ====================================================================== *)
(* 17. the snapshot loops                                                   *)
(* ====================================================================== *)
Definition todo_pre_nr (mem : list (str * value)) (n0 : nat) (kv : str * value) : Prop :=
  assoc_get String.eqb (fst kv) mem = Some (snd kv) /\ v_st (snd kv) <> VOk /\
  (on_disk (v_st (snd kv)) = true -> (N.to_nat (v_kaddr (snd kv) + (8 + slen (fst kv) + 8 + 4)) <= n0)%nat).

Lemma todo_pre_nr_other mem mem' n0 k todo :
  (forall k', k' <> k -> assoc_get String.eqb k' mem' = assoc_get String.eqb k' mem) ->
  ~ In k (map fst todo) -> Forall (todo_pre_nr mem n0) todo -> Forall (todo_pre_nr mem' n0) todo.
Proof.
  intros Hg Hn H. apply Forall_forall. intros [k' v'] Hin.
  pose proof (proj1 (Forall_forall _ _) H _ Hin) as (a & b & c). unfold todo_pre_nr. cbn [fst snd] in *.
  split; auto. rewrite Hg; auto. intros ->. apply Hn. change k with (fst (k, v')). now apply in_map.
Qed.

(* non-reclaiming pass *)
Lemma nr_loop fs0 n0 : forall todo w recs V,
  WT fs0 w recs V n0 -> Inv (w_mem w) recs V ->
  (forall k, In k (map fst todo) \/ key_synced (w_mem w) recs k) ->
  Forall (todo_pre_nr (w_mem w) n0) todo -> NoDup (map fst todo) ->
  exists recs' V',
    WT fs0 (fold_left (snap_one false) todo w) recs' V' n0 /\
    Inv (w_mem (fold_left (snap_one false) todo w)) recs' V' /\
    (forall k, key_synced (w_mem (fold_left (snap_one false) todo w)) recs' k).
Proof.
  induction todo as [|[k v] todo IH]; intros w recs V HT HI HS HF HN; cbn [fold_left].
  - exists recs, V. split; [exact HT|split; [exact HI|]]. intros k. destruct (HS k) as [[]|]; auto.
  - apply Forall_cons_iff in HF. destruct HF as [(Hg & Hst & Hb) HF]. cbn [fst snd] in *.
    cbn [map fst] in HN. inversion HN as [|? ? Hnotin HN']; subst.
    pose proof (inv_keys _ _ _ HI k) as Hk. unfold key_ok in Hk. rewrite Hg in Hk.
    destruct (inv_mem _ _ _ HI _ _ Hg) as (Hsk & Hsv & Hver).
    pose proof (Base_of_Inv _ _ _ HI) as HB.
    destruct (v_st v) eqn:Est; [congruence| | |]; cbn [on_disk] in Hk, Hb.
    + (* VDeleted: mark -1 in place *)
      destruct Hk as [(q & Hq & Hqk & _) Hd].
      pose proof (rec_at_in _ _ _ _ Hq) as Hin.
      pose proof (proj1 (Forall_forall _ _) (inv_recs _ _ _ HI) _ Hin) as Hqok.
      destruct (vhead_of_rec _ _ (inv_vhead _ _ _ HI) Hqok) as (v0 & Hv0 & Hat0).
      assert (Hbq : (N.to_nat (v_kaddr v + rsize q) <= n0)%nat).
      { unfold rsize. rewrite Hqk. apply Hb. reflexivity. }
      destruct (snap_del_spec fs0 w k v recs V n0 q v0 HT Est Hq Hqk Hbq) as (HT' & Hmem).
      set (w' := snap_one false w (k, v)) in *.
      set (recs' := rupd recs 0 (v_kaddr v) (mkR k (-1) 0 v0)) in *.
      assert (Hk' : r_key (mkR k (-1) 0 v0) = r_key q) by (cbn; auto).
      destruct (key_ok_rupd_dead (w_mem w) recs k q v v0 Hg Est Hq Hqk Hd) as [Hkok Hdead].
      apply (IH w' recs' V); auto.
      * apply Inv_of_Base; [|rewrite Hmem; now apply Base_rupd_dead].
        intros k'. rewrite Hmem. destruct (String.eqb_spec k' k) as [->|Hne]; auto.
        eapply key_ok_agree; [reflexivity| |apply (inv_keys _ _ _ HI)].
        eapply agree_rupd; eauto. congruence.
      * intros k'. rewrite Hmem. destruct (String.eqb_spec k' k) as [->|Hne].
        -- right. unfold key_synced. now rewrite Hg, Est.
        -- destruct (HS k') as [[E|Hin']|Hs]; [cbn in E; congruence|now left|right].
           eapply key_synced_agree; [reflexivity| |exact Hs]. eapply agree_rupd; eauto. congruence.
      * rewrite Hmem. exact HF.
    + (* VUpdated: append the value, update the key record in place *)
      destruct Hk as [(q & Hq & Hqk & _) Hd].
      assert (Hbq : (N.to_nat (v_kaddr v + rsize q) <= n0)%nat).
      { unfold rsize. rewrite Hqk. apply Hb. reflexivity. }
      destruct (snap_upd_spec fs0 w k v recs V n0 q HT Est Hq Hqk Hbq) as (HT' & Hmem & _).
      set (w' := snap_one false w (k, v)) in *.
      set (x := mkR k (v_ver v) (slen V) (v_val v)) in *.
      assert (Hk' : r_key x = r_key q) by (cbn; auto).
      assert (Hget : forall k', k' <> k -> assoc_get String.eqb k' (w_mem w') = assoc_get String.eqb k' (w_mem w)).
      { intros k' Hne. rewrite Hmem. apply get_set_other; auto using String.eqb_spec. }
      apply (IH w' (rupd recs 0 (v_kaddr v) x) (V +++ vrec (v_val v))); auto.
      * apply Inv_of_Base; [|rewrite Hmem; now apply Base_rupd_live].
        intros k'. destruct (String.eqb_spec k' k) as [->|Hne].
        -- rewrite Hmem. now apply (key_ok_rupd_self _ _ _ q).
        -- eapply key_ok_agree; [now apply Hget| |apply (inv_keys _ _ _ HI)].
           eapply agree_rupd; eauto. congruence.
      * intros k'. destruct (String.eqb_spec k' k) as [->|Hne].
        -- right. unfold key_synced. rewrite Hmem, get_set_same by apply String.eqb_spec. exact I.
        -- destruct (HS k') as [[E|Hin']|Hs]; [cbn in E; congruence|now left|right].
           eapply key_synced_agree; [now apply Hget| |exact Hs]. eapply agree_rupd; eauto. congruence.
      * eapply todo_pre_nr_other; eauto.
    + (* VNew: append value and key records *)
      destruct (new_key_value_spec fs0 w k v recs V n0 HT) as (HT' & Hmem & _).
      assert (Hsn : snap_one false w (k, v) = new_key_value w k v) by (unfold snap_one; now rewrite Est).
      rewrite Hsn.
      set (w' := new_key_value w k v) in *.
      set (x := mkR k (v_ver v) (slen V) (v_val v)) in *.
      assert (Hxk : forall k', k' <> k -> r_key x <> k') by (intros k' Hne; cbn; congruence).
      assert (Hget : forall k', k' <> k -> assoc_get String.eqb k' (w_mem w') = assoc_get String.eqb k' (w_mem w)).
      { intros k' Hne. rewrite Hmem. apply get_set_other; auto using String.eqb_spec. }
      apply (IH w' (recs ++ [x]) (V +++ vrec (v_val v))); auto.
      * apply Inv_of_Base; [|rewrite Hmem; now apply Base_snoc].
        intros k'. destruct (String.eqb_spec k' k) as [->|Hne].
        -- rewrite Hmem. now apply key_ok_snoc_self.
        -- eapply key_ok_agree; [now apply Hget| |apply (inv_keys _ _ _ HI)]. apply agree_snoc; auto.
      * intros k'. destruct (String.eqb_spec k' k) as [->|Hne].
        -- right. unfold key_synced. rewrite Hmem, get_set_same by apply String.eqb_spec. exact I.
        -- destruct (HS k') as [[E|Hin']|Hs]; [cbn in E; congruence|now left|right].
           eapply key_synced_agree; [now apply Hget| |exact Hs]. apply agree_snoc; auto.
      * eapply todo_pre_nr_other; eauto.
Qed.

Definition todo_pre_r (kv : str * value) : Prop :=
  str_ok (fst kv) /\ str_ok (v_val (snd kv)) /\ ver_ok (v_ver (snd kv)).

(* reclaiming pass: the files start empty, every non-tombstone is written, tombstones are
   dropped from memory *)
Lemma r_loop fs0 n0 : forall todo w recs V,
  WT fs0 w recs V n0 -> Base (w_mem w) recs V ->
  (forall k, (In k (map fst todo) /\ no_recs recs k) \/
             (~ In k (map fst todo) /\ key_ok (w_mem w) recs k /\ key_synced (w_mem w) recs k)) ->
  Forall todo_pre_r todo -> NoDup (map fst todo) ->
  exists recs' V',
    WT fs0 (fold_left (snap_one true) todo w) recs' V' n0 /\
    Inv (w_mem (fold_left (snap_one true) todo w)) recs' V' /\
    (forall k, key_synced (w_mem (fold_left (snap_one true) todo w)) recs' k).
Proof.
  induction todo as [|[k v] todo IH]; intros w recs V HT HB HS HF HN; cbn [fold_left].
  - exists recs, V. split; auto. split.
    + apply Inv_of_Base; auto. intros k. destruct (HS k) as [[[] _]|(_ & H & _)]; auto.
    + intros k. destruct (HS k) as [[[] _]|(_ & _ & H)]; auto.
  - apply Forall_cons_iff in HF. destruct HF as [(Hsk & Hsv & Hver) HF]. cbn [fst snd] in *.
    cbn [map fst] in HN. inversion HN as [|? ? Hnotin HN']; subst.
    assert (Hnr : no_recs recs k).
    { destruct (HS k) as [[_ H]|[H _]]; auto. exfalso. apply H. now left. }
    destruct (vstate_eqb (v_st v) VDeleted) eqn:Ed.
    + (* tombstone: dropped *)
      assert (Est : v_st v = VDeleted) by (destruct (v_st v); cbn in Ed; congruence).
      assert (Hsn : snap_one true w (k, v) = w_drop_mem w k) by (unfold snap_one; now rewrite Est).
      rewrite Hsn.
      apply (IH (w_drop_mem w k) recs V); auto.
      * cbn [w_drop_mem w_mem]. now apply Base_del.
      * intros k'. cbn [w_drop_mem w_mem]. destruct (String.eqb_spec k' k) as [->|Hne].
        -- right. split; auto. unfold key_ok, key_synced. rewrite get_del_same. split; auto.
           now apply no_recs_dead.
        -- assert (Hget : assoc_get String.eqb k' (assoc_del String.eqb k (w_mem w)) = assoc_get String.eqb k' (w_mem w))
             by (apply get_del_other; auto using String.eqb_spec).
           destruct (HS k') as [[[E|Hin] Hno]|(Hni & Hok & Hsy)]; [cbn in E; congruence|left; auto|right].
           split; [intros Hin; apply Hni; now right|].
           split; [eapply key_ok_same_get; eauto|].
           eapply key_synced_agree; [exact Hget| |exact Hsy]. intros off q _. tauto.
    + (* anything else: written as a fresh record *)
      assert (Est : v_st v <> VDeleted) by (intros E; rewrite E in Ed; discriminate).
      rewrite (snap_one_reclaim_live w k v Est).
      destruct (new_key_value_spec fs0 w k v recs V n0 HT) as (HT' & Hmem & _).
      set (w' := new_key_value w k v) in *.
      set (x := mkR k (v_ver v) (slen V) (v_val v)) in *.
      assert (Hget : forall k', k' <> k -> assoc_get String.eqb k' (w_mem w') = assoc_get String.eqb k' (w_mem w)).
      { intros k' Hne. rewrite Hmem. apply get_set_other; auto using String.eqb_spec. }
      apply (IH w' (recs ++ [x]) (V +++ vrec (v_val v))); auto.
      * rewrite Hmem. now apply Base_snoc.
      * intros k'. destruct (String.eqb_spec k' k) as [->|Hne].
        -- right. split; auto. rewrite Hmem. split.
           ++ apply key_ok_snoc_self. now apply no_recs_dead.
           ++ unfold key_synced. rewrite get_set_same by apply String.eqb_spec. exact I.
        -- assert (Hx : r_key x <> k') by (cbn; congruence).
           destruct (HS k') as [[[E|Hin] Hno]|(Hni & Hok & Hsy)]; [cbn in E; congruence| |].
           ++ left. split; auto. now apply no_recs_snoc.
           ++ right. split; [intros Hin; apply Hni; now right|]. split.
              ** eapply key_ok_agree; [now apply Hget| |exact Hok]. now apply agree_snoc.
              ** eapply key_synced_agree; [now apply Hget| |exact Hsy]. now apply agree_snoc.
Qed.

(* ====================================================================== *)
(* 18. the whole plan: open, loop, close                                    *)
(* ====================================================================== *)
Definition plan_open0 (d : db) : list fop :=
  [OpCreate FMeta; OpWriteAt FMeta 0 (le_bytes 8 (d_id d) +++ le_bytes 4 (strat_code (d_strat d)))].
Definition plan_open1' (reclaim : bool) (fs : files) : list fop :=
  (if reclaim && match fget fs FKeys with Some _ => true | None => false end
   then [OpRename FKeys FKeysOld] else []) ++ [OpCreate FKeys].
Definition plan_open1 (d : db) (reclaim : bool) (fs : files) : list fop :=
  plan_open0 d ++ plan_open1' reclaim fs.
Definition plan_open2 (reclaim : bool) (fs1 : files) : list fop :=
  (if reclaim && match fget fs1 FVals with Some _ => true | None => false end
   then [OpRename FVals FValsOld; OpRemove FValsOld] else []) ++ [OpCreate FVals].
Definition plan_fs2 (d : db) (reclaim : bool) (fs : files) : files :=
  apply_fops (apply_fops fs (plan_open1 d reclaim fs)) (plan_open2 reclaim (apply_fops fs (plan_open1 d reclaim fs))).
Definition plan_close (fs2 : files) (w1 : wstate) : list fop :=
  emit FKeys (bw_flush (w_kbuf w1)) ++ emit FVals (bw_flush (w_vbuf w1)) ++
  (match fget fs2 FKeysOld with Some _ => [OpRemove FKeysOld] | None => [] end).
Definition plan_w0 (d : db) (reclaim : bool) (fs : files) (clock : N) : wstate :=
  let o1 := plan_open1 d reclaim fs in
  let fs1 := apply_fops fs o1 in
  let o2 := plan_open2 reclaim fs1 in
  let fs2 := apply_fops fs1 o2 in
  mkW EmptyString EmptyString (fsize fs2 FVals) (fsize fs2 FKeys) (o1 ++ o2) (d_map d) clock 0.
Definition plan_w1 (d : db) (order : list str) (reclaim : bool) (fs : files) (clock : N) : wstate :=
  fold_left (snap_one reclaim) (keys_to_update (d_map d) order reclaim) (plan_w0 d reclaim fs clock).

Lemma snapshot_plan_unfold d order reclaim fs clock :
  snapshot_plan d order reclaim fs clock =
  (w_ops (plan_w1 d order reclaim fs clock) ++ plan_close (plan_fs2 d reclaim fs) (plan_w1 d order reclaim fs clock),
   w_mem (plan_w1 d order reclaim fs clock), w_clock (plan_w1 d order reclaim fs clock)).
Proof. reflexivity. Qed.

Lemma fget_create_same fs f : fget (apply_fop fs (OpCreate f)) f = Some (fcontent fs f).
Proof.
  unfold fcontent. cbn [apply_fop]. destruct (fget fs f) eqn:E; auto. apply fget_set_same.
Qed.
Lemma fget_create_other fs f g : g <> f -> fget (apply_fop fs (OpCreate f)) g = fget fs g.
Proof. intros H. cbn [apply_fop]. destruct (fget fs f); auto. now apply fget_set_other. Qed.

Lemma plan_open_files' reclaim fs :
  let fs2 := apply_fops (apply_fops fs (plan_open1' reclaim fs)) (plan_open2 reclaim (apply_fops fs (plan_open1' reclaim fs))) in
  fget fs2 FKeys = Some (if reclaim then "" else fcontent fs FKeys) /\
  fget fs2 FVals = Some (if reclaim then "" else fcontent fs FVals).
Proof.
  destruct reclaim; cbn [andb].
  - (* reclaim: both files are replaced by empty ones *)
    set (fs1 := apply_fops fs (plan_open1' true fs)).
    assert (H1 : fget fs1 FKeys = Some "" /\ fget fs1 FVals = fget fs FVals).
    { unfold fs1, plan_open1'. cbn [andb]. destruct (fget fs FKeys) as [s|] eqn:E.
      - cbn [app apply_fops fold_left]. split.
        + rewrite fget_create_same. unfold fcontent. cbn [apply_fop]. rewrite E.
          rewrite fget_set_other by discriminate. now rewrite fget_del_same.
        + rewrite fget_create_other by discriminate. cbn [apply_fop]. rewrite E.
          rewrite fget_set_other by discriminate. now rewrite fget_del_other by discriminate.
      - cbn [app apply_fops fold_left]. split.
        + rewrite fget_create_same. unfold fcontent. now rewrite E.
        + now rewrite fget_create_other by discriminate. }
    destruct H1 as [H1k H1v]. cbv zeta. fold fs1. unfold plan_open2. cbn [andb].
    destruct (fget fs1 FVals) as [s|] eqn:E.
    + cbn [app apply_fops fold_left]. split.
      * rewrite fget_create_other by discriminate. cbn [apply_fop]. rewrite E.
        rewrite fget_del_other by discriminate. rewrite fget_set_other by discriminate.
        now rewrite fget_del_other by discriminate.
      * rewrite fget_create_same. unfold fcontent. cbn [apply_fop]. rewrite E.
        rewrite fget_del_other by discriminate. rewrite fget_set_other by discriminate.
        now rewrite fget_del_same.
    + cbn [app apply_fops fold_left]. split.
      * now rewrite fget_create_other by discriminate.
      * rewrite fget_create_same. unfold fcontent. now rewrite E.
  - unfold plan_open1', plan_open2. cbn [andb app apply_fops fold_left]. split.
    + rewrite fget_create_other by discriminate. apply fget_create_same.
    + rewrite fget_create_same. unfold fcontent. now rewrite fget_create_other by discriminate.
Qed.

Lemma open0_other d fs g : g <> FMeta -> fget (apply_fops fs (plan_open0 d)) g = fget fs g.
Proof.
  intros H. unfold plan_open0. cbn [apply_fops fold_left].
  now rewrite fget_writeat_other, fget_create_other by auto.
Qed.

Lemma plan_open_files d reclaim fs :
  fget (plan_fs2 d reclaim fs) FKeys = Some (if reclaim then "" else fcontent fs FKeys) /\
  fget (plan_fs2 d reclaim fs) FVals = Some (if reclaim then "" else fcontent fs FVals).
Proof.
  unfold plan_fs2, plan_open1. rewrite apply_fops_app.
  set (F0 := apply_fops fs (plan_open0 d)).
  assert (EK : fget F0 FKeys = fget fs FKeys) by (apply open0_other; discriminate).
  assert (EV : fget F0 FVals = fget fs FVals) by (apply open0_other; discriminate).
  assert (E1 : plan_open1' reclaim fs = plan_open1' reclaim F0) by (unfold plan_open1'; now rewrite EK).
  rewrite E1. pose proof (plan_open_files' reclaim F0) as H. cbv zeta in H.
  unfold fcontent in *. now rewrite EK, EV in H.
Qed.

Lemma plan_close_files fs fs2 w recs V n0 :
  WT fs w recs V n0 ->
  fget (apply_fops fs (w_ops w ++ plan_close fs2 w)) FKeys = Some (kcat recs) /\
  fget (apply_fops fs (w_ops w ++ plan_close fs2 w)) FVals = Some V.
Proof.
  intros ((P & Q & HP & HQ & HK & HV & _) & _ & _).
  unfold plan_close. rewrite !apply_fops_app.
  set (F := apply_fops (apply_fops (apply_fops fs (w_ops w)) _) _).
  assert (HF : fget F FKeys = Some (kcat recs) /\ fget F FVals = Some V).
  { unfold F. split.
    - rewrite (fget_emit_other FVals FKeys) by discriminate.
      rewrite (fget_emit_same _ _ _ _ HP). now rewrite bw_flush_spec, HK.
    - erewrite (fget_emit_same FVals); [now rewrite bw_flush_spec, HV|].
      now rewrite (fget_emit_other FKeys FVals) by discriminate. }
  destruct HF as [HFk HFv]. clearbody F.
  destruct (fget fs2 FKeysOld); cbn [apply_fops fold_left apply_fop]; auto.
  now rewrite !fget_del_other by discriminate.
Qed.

(* ====================================================================== *)
(* 19. the file-level invariant and the one-snapshot theorem                *)
(* ====================================================================== *)
Definition two64 : N := 18446744073709551616.

(* [DiskInv mem fs]: the invariant between snapshots.  The keys file is a sequence of key
   records; see [key_ok] for the per-key relation with memory.  The values file is shorter than
   2^64 bytes (value addresses are stored in 8 bytes). *)
Definition DiskInv (mem : list (str * value)) (fs : files) : Prop :=
  exists recs, fcontent fs FKeys = kcat recs /\ Inv mem recs (fcontent fs FVals) /\
               (fget fs FKeys <> None -> fget fs FVals <> None) /\
               slen (fcontent fs FVals) < two64.

Lemma DiskInv_init : DiskInv [] [].
Proof.
  exists []. split; [reflexivity|]. split; [|split; [intros H; now elim H|reflexivity]].
  constructor.
  - intros k off q H. elim H.
  - intros k mv H. discriminate.
  - constructor.
  - constructor.
  - now left.
Qed.

Lemma plan_w0_WT d reclaim fs clock recs0 V0 :
  fget (plan_fs2 d reclaim fs) FKeys = Some (kcat recs0) -> fget (plan_fs2 d reclaim fs) FVals = Some V0 ->
  WT fs (plan_w0 d reclaim fs clock) recs0 V0 (len (kcat recs0)).
Proof.
  intros HK HV. unfold plan_w0, WT. cbv zeta. cbn [w_ops w_kbuf w_vbuf w_vaddr w_kaddr].
  fold (plan_fs2 d reclaim fs). split; [|split].
  - exists (kcat recs0), V0. cbn [w_ops w_kbuf w_vbuf]. rewrite apply_fops_app. fold (plan_fs2 d reclaim fs).
    rewrite !app_nil_r_s. auto.
  - unfold fsize. now rewrite HV.
  - unfold fsize. rewrite HK. apply slen_kcat.
Qed.

Theorem snapshot_sync d order reclaim fs clock :
  DiskInv (d_map d) fs -> NoDup order ->
  exists recs' V',
    fget (apply_fops fs (fst (fst (snapshot_plan d order reclaim fs clock)))) FKeys = Some (kcat recs') /\
    fget (apply_fops fs (fst (fst (snapshot_plan d order reclaim fs clock)))) FVals = Some V' /\
    Inv (snd (fst (snapshot_plan d order reclaim fs clock))) recs' V' /\
    (forall k, key_synced (snd (fst (snapshot_plan d order reclaim fs clock))) recs' k).
Proof.
  intros (recs & HK & HI & _ & _) Ho.
  rewrite snapshot_plan_unfold. cbn [fst snd]. unfold plan_w1.
  pose proof (inv_nodup _ _ _ HI) as Hnd.
  destruct (plan_open_files d reclaim fs) as [HfK HfV].
  set (todo := keys_to_update (d_map d) order reclaim).
  assert (Hloop : exists recs' V',
    WT fs (fold_left (snap_one reclaim) todo (plan_w0 d reclaim fs clock)) recs' V' (if reclaim then 0%nat else len (kcat recs)) /\
    Inv (w_mem (fold_left (snap_one reclaim) todo (plan_w0 d reclaim fs clock))) recs' V' /\
    (forall k, key_synced (w_mem (fold_left (snap_one reclaim) todo (plan_w0 d reclaim fs clock))) recs' k)).
  { destruct reclaim.
    - (* reclaim *)
      apply (r_loop fs 0%nat todo _ [] "").
      + apply (plan_w0_WT d true fs clock [] ""); auto.
      + cbn [plan_w0 w_mem]. split; [apply (inv_mem _ _ _ HI)|split; [exact Hnd|split; [constructor|now left]]].
      + intros k. cbn [plan_w0 w_mem]. destruct (assoc_get String.eqb k (d_map d)) as [mv|] eqn:E.
        * left. split; [eapply todo_complete; eauto|]. intros off q H. elim H.
        * right. split; [|split].
          -- intros Hin. apply in_map_iff in Hin. destruct Hin as ([k' v'] & Ek & Hin). cbn in Ek. subst k'.
             apply todo_sound in Hin; auto. destruct Hin as [Hin _]. congruence.
          -- unfold key_ok. rewrite E. intros off q H. elim H.
          -- unfold key_synced. now rewrite E.
      + apply Forall_forall. intros [k v] Hin. apply todo_sound in Hin; auto. destruct Hin as [Hin _].
        apply (inv_mem _ _ _ HI) in Hin. exact Hin.
      + apply todo_nodup; auto.
    - (* no reclaim *)
      rewrite HK in HfK.
      apply (nr_loop fs (len (kcat recs)) todo _ recs (fcontent fs FVals)).
      + apply (plan_w0_WT d false fs clock recs); auto.
      + exact HI.
      + intros k. cbn [plan_w0 w_mem]. unfold key_synced.
        destruct (assoc_get String.eqb k (d_map d)) as [mv|] eqn:E; auto.
        destruct (v_st mv) eqn:Est; auto; left; eapply todo_complete; eauto; now rewrite Est.
      + apply Forall_forall. intros [k v] Hin. apply todo_sound in Hin; auto. destruct Hin as [Hg Hf].
        cbn [orb] in Hf. unfold todo_pre_nr. cbn [fst snd plan_w0 w_mem]. split; auto. split.
        * intros E. rewrite E in Hf. discriminate.
        * intros Hod. pose proof (inv_keys _ _ _ HI k) as Hk. unfold key_ok in Hk. rewrite Hg, Hod in Hk.
          destruct Hk as [(q & Hq & Hqk & _) _]. apply rec_at_end in Hq.
          unfold rsize in Hq. rewrite Hqk in Hq. rewrite <- slen_kcat in Hq. unfold slen in *. lia.
      + apply todo_nodup; auto. }
  destruct Hloop as (recs' & V' & HT & HI' & HS').
  exists recs', V'.
  destruct (plan_close_files fs (plan_fs2 d reclaim fs) _ _ _ _ HT) as [H1 H2]. auto.
Qed.

(* the loader on well-formed files *)
Lemma load_db_wf fs recs V clk :
  fget fs FKeys = Some (kcat recs) -> fget fs FVals = Some V -> Forall (rec_ok V) recs -> slen V < two64 ->
  load_db fs clk = Some (LOk (load_abs recs 0 [] clk) (clk + N.of_nat (length recs))).
Proof.
  intros HK HV Hok Hlt. unfold load_db. rewrite HK, HV. f_equal.
  rewrite (load_loop_recs V Hlt recs _ (kcat recs) ""); auto.
  pose proof (length_le_ksize recs). rewrite <- slen_kcat in H. unfold slen in H. lia.
Qed.

(* ONE SNAPSHOT: from any state satisfying the invariant, after snapshot_plan the loader returns
   exactly the live part of the (updated) memory; the invariant holds again *)
Theorem C06_one_snapshot d order reclaim fs clock :
  DiskInv (d_map d) fs -> NoDup order ->
  let p := snapshot_plan d order reclaim fs clock in
  let fs' := apply_fops fs (fst (fst p)) in
  let mem' := snd (fst p) in
  fsize fs' FVals < two64 ->
  DiskInv mem' fs' /\
  (forall k mv, assoc_get String.eqb k mem' = Some mv -> v_st mv = VOk \/ v_st mv = VDeleted) /\
  forall clk, exists m clk', load_db fs' clk = Some (LOk m clk') /\ restored mem' m.
Proof.
  intros HD Ho. cbv zeta.
  destruct (snapshot_sync d order reclaim fs clock HD Ho) as (recs' & V' & HK & HV & HI & HS).
  set (fs' := apply_fops fs (fst (fst (snapshot_plan d order reclaim fs clock)))) in *.
  set (mem' := snd (fst (snapshot_plan d order reclaim fs clock))) in *.
  intros Hsz.
  assert (HV64 : slen V' < two64) by (unfold fsize in Hsz; now rewrite HV in Hsz).
  split; [|split].
  - exists recs'. unfold fcontent. rewrite HK, HV.
    split; [reflexivity|split; [exact HI|split; [intros _; discriminate|exact HV64]]].
  - intros k mv Hg. pose proof (HS k) as Hs. unfold key_synced in Hs. rewrite Hg in Hs.
    destruct (v_st mv); auto; contradiction.
  - intros clk. eexists. eexists. split.
    + apply (load_db_wf fs' recs' V'); auto. apply (inv_recs _ _ _ HI).
    + eapply restored_after_sync; eauto.
Qed.

(* ====================================================================== *)
(* 19b. C06_metadata: the metadata file written by a snapshot is read back   *)
(* ====================================================================== *)
Definition MS (fs0 : files) (w : wstate) (M : option str) : Prop :=
  fget (apply_fops fs0 (w_ops w)) FMeta = M.

Lemma fget_rename_other fs a b g : g <> a -> g <> b -> fget (apply_fop fs (OpRename a b)) g = fget fs g.
Proof.
  intros Ha Hb. cbn [apply_fop]. destruct (fget fs a); auto.
  now rewrite fget_set_other, fget_del_other by auto.
Qed.

Lemma MS_write_vals fs0 w d M : MS fs0 w M -> MS fs0 (w_write_vals w d) M.
Proof.
  unfold MS, w_write_vals. destruct (bw_write (w_vbuf w) d). cbn [w_ops].
  now rewrite apply_fops_app, fget_emit_other by discriminate.
Qed.
Lemma MS_write_keys fs0 w d M : MS fs0 w M -> MS fs0 (w_write_keys w d) M.
Proof.
  unfold MS, w_write_keys. destruct (bw_write (w_kbuf w) d). cbn [w_ops].
  now rewrite apply_fops_app, fget_emit_other by discriminate.
Qed.
Lemma MS_update_key fs0 w k ver va ka M : MS fs0 w M -> MS fs0 (w_update_key w k ver va ka) M.
Proof.
  unfold MS, w_update_key. cbn [w_ops]. rewrite apply_fops_app. cbn [apply_fops fold_left].
  now rewrite !fget_writeat_other by discriminate.
Qed.
Lemma MS_value fs0 w v M : MS fs0 w M -> MS fs0 (fst (w_value w v)) M.
Proof. intros H. unfold w_value. cbn [fst]. auto using MS_write_vals. Qed.
Lemma MS_key fs0 w k v va M : MS fs0 w M -> MS fs0 (fst (w_key w k v va)) M.
Proof. intros H. unfold w_key. cbn [fst]. auto using MS_write_keys. Qed.
Lemma MS_new_key_value fs0 w k v M : MS fs0 w M -> MS fs0 (new_key_value w k v) M.
Proof.
  intros H. unfold new_key_value.
  pose proof (MS_value fs0 w v M H) as H1. destruct (w_value w v) as [w1 rs]. cbn [fst] in H1.
  pose proof (MS_key fs0 w1 k v (w_vaddr w) M H1) as H2. destruct (w_key w1 k v (w_vaddr w)) as [w2 ks].
  exact H2.
Qed.
Lemma MS_snap_one fs0 reclaim w kv M : MS fs0 w M -> MS fs0 (snap_one reclaim w kv) M.
Proof.
  intros H. destruct kv as [k v]. unfold snap_one.
  destruct (v_st v).
  - destruct reclaim; auto using MS_new_key_value.
  - destruct reclaim; [exact H|]. cbv zeta. apply (MS_update_key fs0 w k (-1)%Z 0 (v_kaddr v) M H).
  - pose proof (MS_value fs0 w v M H) as H1. destruct (w_value w v) as [w1 rs]. cbn [fst] in H1.
    destruct reclaim; cbv zeta.
    + pose proof (MS_key fs0 w1 k v (w_vaddr w) M H1) as H2. destruct (w_key w1 k v (w_vaddr w)) as [w2 ks].
      exact H2.
    + apply (MS_update_key fs0 w1 k (v_ver v) (w_vaddr w) (v_kaddr v) M H1).
  - auto using MS_new_key_value.
Qed.
Lemma MS_fold fs0 reclaim todo : forall w M, MS fs0 w M -> MS fs0 (fold_left (snap_one reclaim) todo w) M.
Proof. induction todo as [|kv t IH]; intros w M H; cbn [fold_left]; auto using MS_snap_one. Qed.

Theorem C06_metadata d order reclaim fs clock n :
  d_id d < 2 ^ 64 ->
  load_meta (apply_fops fs (fst (fst (snapshot_plan d order reclaim fs clock)))) n = (d_id d, d_strat d).
Proof.
  intros Hid. rewrite snapshot_plan_unfold. cbn [fst].
  set (d8 := le_bytes 8 (d_id d)). set (d4 := le_bytes 4 (strat_code (d_strat d))).
  (* after the two metadata operations *)
  assert (H0 : exists rest, fget (apply_fops fs (plan_open0 d)) FMeta = Some (d8 +++ d4 +++ rest)).
  { unfold plan_open0. cbn [apply_fops fold_left].
    assert (H1 : exists m0, fget (apply_fop fs (OpCreate FMeta)) FMeta = Some m0).
    { cbn [apply_fop]. destruct (fget fs FMeta) eqn:E; eauto. rewrite fget_set_same. eauto. }
    destruct H1 as [m0 H1]. rewrite (fget_writeat_same _ _ _ _ _ H1).
    exists (str_drop 12 m0). fold d8 d4. change (N.to_nat 0) with 0%nat.
    rewrite write_at_pre by lia. rewrite len_app. unfold d8, d4. rewrite !len_le_bytes.
    cbn [str_take Nat.add String.append]. now rewrite app_assoc_s. }
  destruct H0 as [rest H0].
  (* nothing else touches the metadata file *)
  assert (H1 : MS fs (plan_w0 d reclaim fs clock) (Some (d8 +++ d4 +++ rest))).
  { unfold MS, plan_w0. cbv zeta. cbn [w_ops]. unfold plan_open1. rewrite !apply_fops_app.
    set (F0 := apply_fops fs (plan_open0 d)) in *.
    assert (E1 : fget (apply_fops F0 (plan_open1' reclaim fs)) FMeta = fget F0 FMeta).
    { unfold plan_open1'. destruct (_ && _); cbn [app apply_fops fold_left].
      - now rewrite fget_create_other, fget_rename_other by discriminate.
      - now rewrite fget_create_other by discriminate. }
    set (F1 := apply_fops F0 (plan_open1' reclaim fs)) in *.
    unfold plan_open2. destruct (_ && _); cbn [app apply_fops fold_left].
    - rewrite fget_create_other by discriminate.
      change (apply_fop ?X (OpRemove FValsOld)) with (assoc_del fname_eqb FValsOld X).
      rewrite fget_del_other, fget_rename_other by discriminate. congruence.
    - rewrite fget_create_other by discriminate. congruence. }
  apply (MS_fold fs reclaim (keys_to_update (d_map d) order reclaim)) in H1.
  fold (plan_w1 d order reclaim fs clock) in H1. unfold MS in H1.
  assert (H2 : fget (apply_fops fs (w_ops (plan_w1 d order reclaim fs clock) ++
                       plan_close (plan_fs2 d reclaim fs) (plan_w1 d order reclaim fs clock))) FMeta
               = Some (d8 +++ d4 +++ rest)).
  { unfold plan_close. rewrite !apply_fops_app.
    destruct (fget (plan_fs2 d reclaim fs) FKeysOld); cbn [apply_fops fold_left].
    - change (apply_fop ?X (OpRemove FKeysOld)) with (assoc_del fname_eqb FKeysOld X).
      rewrite fget_del_other by discriminate.
      fold (apply_fops (apply_fops fs (w_ops (plan_w1 d order reclaim fs clock))) (emit FKeys (bw_flush (w_kbuf (plan_w1 d order reclaim fs clock))))).
      now rewrite !fget_emit_other by discriminate.
    - now rewrite !fget_emit_other by discriminate. }
  unfold load_meta. rewrite H2.
  rewrite (read_into_exact _ 0 (zeros 8) "" d8 (d4 +++ rest)); auto.
  rewrite (read_into_exact _ 8 (zeros 4) d8 d4 rest); auto.
  unfold d8, d4. rewrite le_decode_8 by exact Hid. now rewrite strat_code_roundtrip.
Qed.

(* ====================================================================== *)
(* 20. histories                                                            *)
(* ====================================================================== *)
Inductive dev :=
| DvSet (k v : str) (ver : Z) (opp : N)        (* set_value d (mkCh k v ver opp false) *)
| DvRemove (k : str)                           (* remove_value d k *)
| DvInc (k : str) (i : Z) (opp : N)            (* inc_value d k i opp *)
| DvSnap (reclaim : bool) (order : list str)   (* snapshot_plan + apply_fops, memory := returned map *)
| DvRestart.                                   (* memory := what load_db returns from the current files *)

(* memory map, files, clock *)
Definition dstate := (list (str * value) * files * N)%type.
Definition ds_mem (s : dstate) := fst (fst s).
Definition ds_files (s : dstate) := snd (fst s).
Definition ds_clock (s : dstate) := snd s.

(* the database functions only look at / change d_map (watchers only produce messages) *)
Definition db_of (m : list (str * value)) : db := mkDb m [] 0 0 SNone.

(* DvRestart: no keys file = the database is not loaded at all: it restarts empty (a database
   created again under that name is empty); a loader panic makes the run stuck (None) -- the
   theorems below show this never happens. *)
Definition drun (s : dstate) (e : dev) : option dstate :=
  let '(m, fs, clk) := s in
  match e with
  | DvSet k v ver opp => Some (d_map (fst (fst (set_value (db_of m) (mkCh k v ver opp false)))), fs, clk)
  | DvRemove k => Some (d_map (fst (fst (remove_value (db_of m) k))), fs, clk)
  | DvInc k i opp => Some (d_map (fst (fst (inc_value (db_of m) k i opp))), fs, clk)
  | DvSnap reclaim order =>
      let p := snapshot_plan (db_of m) order reclaim fs clk in
      Some (snd (fst p), apply_fops fs (fst (fst p)), snd p)
  | DvRestart =>
      match load_db fs clk with
      | None => Some ([], fs, clk)
      | Some (LOk m' clk') => Some (m', fs, clk')
      | Some LPanic => None
      end
  end.

Fixpoint druns (s : dstate) (evs : list dev) : option dstate :=
  match evs with
  | [] => Some s
  | e :: r => match drun s e with Some s' => druns s' r | None => None end
  end.

(* side conditions on one event, in the state it is applied to:
   - keys and values are valid UTF-8 of at most max_alloc bytes; version arguments are >= -1
     (so that stored versions stay in [0, i32_max]: a stored version -1 IS the on-disk encoding of
     "deleted", see Example version_minus_one_lost);
   - the iteration order of a snapshot visits each key at most once;
   - the values file stays below 2^64 bytes (addresses are stored in 8 bytes). *)
Definition dev_ok (s : dstate) (e : dev) : Prop :=
  match e with
  | DvSet k v ver _ => str_ok k /\ str_ok v /\ (-1 <= ver)%Z
  | DvRemove _ => True
  | DvInc k _ _ => str_ok k
  | DvSnap reclaim order =>
      NoDup order /\
      fsize (apply_fops (ds_files s)
               (fst (fst (snapshot_plan (db_of (ds_mem s)) order reclaim (ds_files s) (ds_clock s))))) FVals < two64
  | DvRestart => True
  end.

Fixpoint devs_ok (s : dstate) (evs : list dev) : Prop :=
  match evs with
  | [] => True
  | e :: r => dev_ok s e /\ match drun s e with Some s' => devs_ok s' r | None => True end
  end.

Definition dinit : dstate := ([], [], 0).

Lemma druns_app s a b : druns s (a ++ b) = match druns s a with Some s' => druns s' b | None => None end.
Proof.
  revert s. induction a as [|e a IH]; intros s; cbn [app druns]; auto.
  destruct (drun s e); auto.
Qed.

Lemma devs_ok_app s a b : devs_ok s (a ++ b) ->
  devs_ok s a /\ forall s', druns s a = Some s' -> devs_ok s' b.
Proof.
  revert s. induction a as [|e a IH]; intros s; cbn [app devs_ok druns].
  - intros H. split; auto. intros s' [= <-]. exact H.
  - intros [He H]. destruct (drun s e) as [s1|].
    + destruct (IH _ H) as [H1 H2]. auto.
    + split; auto. discriminate.
Qed.

Lemma kcat_nil_inv recs : kcat recs = "" -> recs = [].
Proof.
  destruct recs as [|r t]; auto. cbn [kcat]. intros H. apply (f_equal String.length) in H.
  rewrite len_app, len_krec in H. pose proof (rsize_pos r). cbn in H. lia.
Qed.

(* one step never gets stuck and preserves the invariant *)
Lemma drun_inv s e :
  DiskInv (ds_mem s) (ds_files s) -> dev_ok s e ->
  exists s', drun s e = Some s' /\ DiskInv (ds_mem s') (ds_files s').
Proof.
  destruct s as [[m fs] clk]. cbn [ds_mem ds_files ds_clock fst snd]. intros HD He.
  destruct e as [k v ver opp|k|k i opp|reclaim order|]; cbn [drun dev_ok] in *.
  - eexists. split; [reflexivity|]. cbn [ds_mem ds_files fst snd].
    destruct HD as (recs & HK & HI & HF & HV). exists recs.
    split; [exact HK|split; [|split; [exact HF|exact HV]]].
    destruct He as (Hk & Hv & Hver). apply (Inv_set_value (db_of m)); auto.
  - eexists. split; [reflexivity|]. cbn [ds_mem ds_files fst snd].
    destruct HD as (recs & HK & HI & HF & HV). exists recs.
    split; [exact HK|split; [|split; [exact HF|exact HV]]].
    apply (Inv_remove_value (db_of m)); auto.
  - eexists. split; [reflexivity|]. cbn [ds_mem ds_files fst snd].
    destruct HD as (recs & HK & HI & HF & HV). exists recs.
    split; [exact HK|split; [|split; [exact HF|exact HV]]].
    apply (Inv_inc_value (db_of m)); auto.
  - eexists. split; [reflexivity|]. cbn [ds_mem ds_files fst snd].
    destruct He as [Ho Hsz]. cbn [ds_mem ds_files ds_clock fst snd] in Hsz.
    apply (C06_one_snapshot (db_of m) order reclaim fs clk); auto.
  - destruct HD as (recs & HK & HI & HF & HV).
    destruct (Inv_restart _ _ _ clk HI) as [HI' _].
    destruct (fget fs FKeys) as [K|] eqn:EK.
    + destruct (fget fs FVals) as [V|] eqn:EV; [|exfalso; apply HF; congruence].
      unfold fcontent in HK, HI, HI', HV. rewrite EK in HK. rewrite EV in HI, HI', HV. subst K.
      rewrite (load_db_wf fs recs V clk EK EV (inv_recs _ _ _ HI) HV).
      eexists. split; [reflexivity|]. cbn [ds_mem ds_files fst snd].
      exists recs. unfold fcontent. rewrite EK, EV.
      split; [reflexivity|split; [exact HI'|split; [intros _; discriminate|exact HV]]].
    + assert (HL : load_db fs clk = None) by (unfold load_db; now rewrite EK). rewrite HL.
      eexists. split; [reflexivity|]. cbn [ds_mem ds_files fst snd].
      unfold fcontent in HK. rewrite EK in HK. symmetry in HK. apply kcat_nil_inv in HK. subst recs.
      exists []. unfold fcontent at 1. rewrite EK.
      split; [reflexivity|split; [exact HI'|split; [exact HF|exact HV]]].
Qed.

(* arbitrary histories: never stuck (the loader never panics), invariant at the end *)
Theorem C06_history_inv evs : forall s,
  DiskInv (ds_mem s) (ds_files s) -> devs_ok s evs ->
  exists s', druns s evs = Some s' /\ DiskInv (ds_mem s') (ds_files s').
Proof.
  induction evs as [|e r IH]; intros s HD Hok; cbn [druns devs_ok] in *.
  - eauto.
  - destruct Hok as [He Hr]. destruct (drun_inv s e HD He) as (s1 & E1 & HD1).
    rewrite E1 in *. auto.
Qed.

(* HEADLINE: after ANY snapshot of ANY valid history (snapshots, operations and restarts in any
   order, starting from an empty database without files) the loader returns exactly the live keys
   with their values, versions and disk addresses; keys that are absent or tombstones are not
   loaded; and after a snapshot every key of the map is VOk or a tombstone. *)
Theorem C06_restore_exact evs reclaim order :
  devs_ok dinit (evs ++ [DvSnap reclaim order]) ->
  exists mem fs clk,
    druns dinit (evs ++ [DvSnap reclaim order]) = Some (mem, fs, clk) /\
    (forall k mv, assoc_get String.eqb k mem = Some mv -> v_st mv = VOk \/ v_st mv = VDeleted) /\
    forall clk0, exists m clk', load_db fs clk0 = Some (LOk m clk') /\ restored mem m.
Proof.
  intros Hok. apply devs_ok_app in Hok. destruct Hok as [Hok1 Hok2].
  destruct (C06_history_inv evs dinit DiskInv_init Hok1) as (s1 & E1 & HD1).
  specialize (Hok2 _ E1). cbn [devs_ok] in Hok2. destruct Hok2 as [[Ho Hsz] _].
  rewrite druns_app, E1. destruct s1 as [[m fs] clk]. cbn [druns drun ds_mem ds_files ds_clock fst snd] in *.
  destruct (C06_one_snapshot (db_of m) order reclaim fs clk HD1 Ho Hsz) as (_ & Hst & Hld).
  eexists. eexists. eexists. split; [reflexivity|]. split; auto.
Qed.

(* a restart directly after a snapshot restores exactly the snapshotted live state *)
Corollary C06_restart_after_snapshot evs reclaim order :
  devs_ok dinit (evs ++ [DvSnap reclaim order]) ->
  exists mem fs clk m clk',
    druns dinit (evs ++ [DvSnap reclaim order]) = Some (mem, fs, clk) /\
    druns dinit (evs ++ [DvSnap reclaim order; DvRestart]) = Some (m, fs, clk') /\
    restored mem m.
Proof.
  intros Hok. destruct (C06_restore_exact evs reclaim order Hok) as (mem & fs & clk & E & _ & Hld).
  destruct (Hld clk) as (m & clk' & El & Hr).
  exists mem, fs, clk, m, clk'. split; auto. split; auto.
  replace (evs ++ [DvSnap reclaim order; DvRestart]) with ((evs ++ [DvSnap reclaim order]) ++ [DvRestart])
    by now rewrite <- app_assoc.
  rewrite druns_app, E. cbn [druns drun]. now rewrite El.
Qed.

(* ====================================================================== *)
(* 21. remarks                                                              *)
(* ====================================================================== *)
(* the map part of the three database functions depends on d_map only, so [db_of] loses nothing *)
Lemma set_value_map d ch :
  d_map (fst (fst (set_value d ch))) = d_map (fst (fst (set_value (db_of (d_map d)) ch))).
Proof.
  unfold set_value, get_value, put_value, db_set_map. cbn [db_of d_map].
  destruct (assoc_get String.eqb (c_key ch) (d_map d)); [destruct (_ && _)|]; reflexivity.
Qed.
Lemma remove_value_map d k :
  d_map (fst (fst (remove_value d k))) = d_map (fst (fst (remove_value (db_of (d_map d)) k))).
Proof.
  unfold remove_value, get_value, put_value, db_set_map. cbn [db_of d_map].
  destruct (String.eqb k "$$token"); [reflexivity|].
  destruct (assoc_get String.eqb k (d_map d)) as [v|]; [destruct (v_st v)|]; reflexivity.
Qed.
Lemma inc_value_map d k i opp :
  d_map (fst (fst (inc_value d k i opp))) = d_map (fst (fst (inc_value (db_of (d_map d)) k i opp))).
Proof.
  unfold inc_value, get_value, put_value, db_set_map. cbn [db_of d_map].
  destruct (parse_i32 _); [destruct (_ && _)|]; reflexivity.
Qed.

(* Where [-1 <= ver] is needed (documented limitation, not a defect of the snapshot code): a
   version argument -2 on a fresh key stores version -1, which on disk means "deleted"; the key
   is VOk in memory after the snapshot but is not loaded at the next start. *)
Example version_minus_one_lost :
  option_map ds_mem (druns dinit [DvSet "a" "x" (-2) 0; DvSnap false []])
    = Some [("a", mkV "x" (-1) 0 VOk 0 0)] /\
  option_map ds_mem (druns dinit [DvSet "a" "x" (-2) 0; DvSnap false []; DvRestart]) = Some [].
Proof. split; vm_compute; reflexivity. Qed.

(* Why [NoDup order] is needed (NOT a finding: a HashMap iteration visits each key once): if the
   order visits "a" twice, two live records are written, only the second is marked deleted later,
   and the key is resurrected by the restart. *)
Example dup_order_needs_nodup :
  option_map ds_mem (druns dinit [DvSet "a" "x" (-1) 0; DvSnap false ["a"; "a"]; DvRemove "a"; DvSnap false []])
    = Some [("a", mkV "<Empty>" 1 1 VDeleted 13 21)] /\
  option_map ds_mem (druns dinit [DvSet "a" "x" (-1) 0; DvSnap false ["a"; "a"]; DvRemove "a"; DvSnap false []; DvRestart])
    = Some [("a", mkV "x" 0 2 VOk 0 0)].
Proof. split; vm_compute; reflexivity. Qed.

(* a history exercising every event kind, including a key that is deleted on disk, forgotten by a
   restart and created again (two records for "a" in the keys file, the older one dead) *)
Example history_demo :
  option_map ds_mem (druns dinit
    [DvSet "a" "1" (-1) 1; DvSet "b" "x" (-1) 2; DvSnap false ["b"; "a"]; DvRemove "a"; DvInc "c" 5 3;
     DvSnap false ["c"; "a"; "zz"]; DvRestart; DvSet "a" "new" (-1) 4; DvSnap false []; DvRemove "b";
     DvInc "c" (-7) 9; DvSnap true ["a"]; DvRestart])
  = Some [("a", mkV "new" 0 9 VOk 0 0); ("c", mkV "-2" 2 10 VOk 15 21)].
Proof. vm_compute. reflexivity. Qed.

(* the side conditions are satisfiable (the theorems are not vacuous) *)
Example devs_ok_demo :
  devs_ok dinit [DvSet "a" "1" (-1) 1; DvInc "n" 3 2; DvSnap false ["a"]; DvRemove "a"; DvSnap true ["n"; "a"]; DvRestart].
Proof.
  vm_compute. repeat split; try (intros; discriminate); try reflexivity;
    repeat constructor; cbn; intuition discriminate.
Qed.
