(* ElectionProofs.v -- what holds, and what does not, of the election protocol
   modelled in Model/Election.v (C07). *)
From NunDB Require Import Model.Base Model.Pending Model.Oplog Model.Parse Model.Node Model.Cluster Model.Election.
Require Import String List NArith ZArith Bool Lia. Import ListNotations.
Open Scope string_scope.
Open Scope list_scope.
Open Scope N_scope.

(* Model.Node and Model.Election both define [is_eligible]; they agree. *)
Lemma is_eligible_agree : forall n, Election.is_eligible n = Node.is_eligible n.
Proof. intros n. unfold Election.is_eligible, Node.is_eligible. destruct (n_role n); reflexivity. Qed.

Lemma is_eligible_role : forall n, Election.is_eligible n = true <-> n_role n = StartingUp.
Proof. intros n. unfold Election.is_eligible. destruct (n_role n); simpl; split; congruence. Qed.

(* ------------------------------------------------------------------------------------------ *)
(* 1. progress measure                                                                         *)
(* ------------------------------------------------------------------------------------------ *)
(* The number of wake-ups a frame can still take before the one that ends it:
     PFinal            : 0   (the next wake-up ends it)
     PAcks, t          : (timeout - t) / 2
     PRegister, t      : (timeout - 1 - t) / 2  +  1  +  timeout / 2                         *)
Definition fmeasureN (timeout : N) (f : frame) : N :=
  match f_phase f with
  | PFinal => 0
  | PAcks => (timeout - f_t f) / 2
  | PRegister => (timeout - 1 - f_t f) / 2 + 1 + timeout / 2
  end.
Definition fmeasure (timeout : N) (f : frame) : nat := N.to_nat (fmeasureN timeout f).

(* everything of a frame but its phase and its loop timer *)
Definition same_call (f f' : frame) : Prop :=
  f_node f' = f_node f /\ f_id f' = f_id f /\ f_link f' = f_link f /\ f_client f' = f_client f /\
  f_held f' = f_held f /\ f_late f' = f_late f.

Lemma acks_check_sleep : forall timeout n f t f',
  acks_check timeout n f t = FSleep f' ->
  same_call f f' /\ ((f_phase f' = PFinal /\ f_t f' = 0) \/ (f_phase f' = PAcks /\ f_t f' = t)).
Proof.
  intros timeout n f t f' H. unfold acks_check in H.
  destruct (pending_get n (f_id f)) as [m|].
  - destruct (full_ack m).
    + inversion H; subst; clear H. unfold same_call; cbn. repeat split; auto.
    + destruct (negb (Election.is_eligible n)); [discriminate|].
      inversion H; subst; clear H. unfold same_call; cbn. repeat split; auto.
  - inversion H; subst; clear H. unfold same_call; cbn. repeat split; auto.
Qed.

Lemma div2_lt : forall a b : N, b + 2 <= a -> (a - (b + 2)) / 2 < (a - b) / 2.
Proof.
  intros a b H.
  replace (a - b) with ((a - (b + 2)) + 1 * 2) by lia.
  rewrite N.div_add by lia. lia.
Qed.

(* NOTE: the hypothesis [f_t f <= timeout + 2] of the brief is not needed: the statement holds for
   every frame. *)
Theorem frame_wake_progress : forall timeout n f f',
  frame_wake timeout n f = FSleep f' ->
  (fmeasure timeout f' < fmeasure timeout f)%nat /\ f_t f' <= timeout + 2 /\ same_call f f'.
Proof.
  intros timeout n f f' H. unfold frame_wake in H.
  destruct (f_phase f) eqn:Hp.
  - (* PRegister *)
    destruct (pending_get n (f_id f)) as [m|].
    + apply acks_check_sleep in H. destruct H as [Hs [[Hp' Ht']|[Hp' Ht']]].
      * split; [|split; [lia|exact Hs]].
        unfold fmeasure, fmeasureN. rewrite Hp, Hp'.
        generalize ((timeout - 1 - f_t f) / 2) (timeout / 2). lia.
      * split; [|split; [lia|exact Hs]].
        unfold fmeasure, fmeasureN. rewrite Hp, Hp', Ht'.
        replace (timeout - 0) with timeout by lia.
        generalize ((timeout - 1 - f_t f) / 2) (timeout / 2). lia.
    + destruct (N.ltb_spec (f_t f + 2) timeout) as [Hlt|Hge]; [|discriminate].
      inversion H; subst; clear H. unfold same_call; cbn.
      split; [|split; [lia|repeat split; auto]].
      unfold fmeasure, fmeasureN; cbn. rewrite Hp.
      assert (Hd : (timeout - 1 - (f_t f + 2)) / 2 < (timeout - 1 - f_t f) / 2).
      { apply div2_lt. lia. }
      revert Hd. generalize ((timeout - 1 - (f_t f + 2)) / 2) ((timeout - 1 - f_t f) / 2) (timeout / 2). lia.
  - (* PAcks *)
    destruct (N.ltb_spec timeout (f_t f + 2)) as [Hlt|Hge]; [discriminate|].
    apply acks_check_sleep in H. destruct H as [Hs [[Hp' Ht']|[Hp' Ht']]].
    + split; [|split; [lia|exact Hs]].
      unfold fmeasure, fmeasureN. rewrite Hp, Hp'.
      assert (Hd : (timeout - (f_t f + 2)) / 2 < (timeout - f_t f) / 2) by (apply div2_lt; lia).
      revert Hd. generalize ((timeout - (f_t f + 2)) / 2) ((timeout - f_t f) / 2). lia.
    + split; [|split; [lia|exact Hs]].
      unfold fmeasure, fmeasureN. rewrite Hp, Hp', Ht'.
      assert (Hd : (timeout - (f_t f + 2)) / 2 < (timeout - f_t f) / 2) by (apply div2_lt; lia).
      revert Hd. generalize ((timeout - (f_t f + 2)) / 2) ((timeout - f_t f) / 2). lia.
  - (* PFinal *)
    destruct (Election.is_eligible n); discriminate.
Qed.

(* frame_start: when no pending entry is there yet the frame goes to sleep UNCHANGED (its first
   sleep is inside the first loop, start_time = 0), so the measure cannot strictly decrease:
   it does not increase, and it decreases strictly whenever the frame changes. *)
Theorem frame_start_progress : forall timeout n f f',
  f_phase f = PRegister -> f_t f = 0 ->
  frame_start timeout n f = FSleep f' ->
  (fmeasure timeout f' <= fmeasure timeout f)%nat /\ f_t f' <= timeout + 2 /\ same_call f f' /\
  (f' = f \/ (fmeasure timeout f' < fmeasure timeout f)%nat).
Proof.
  intros timeout n f f' Hp Ht H. unfold frame_start in H.
  destruct (pending_get n (f_id f)) as [m|].
  - apply acks_check_sleep in H. destruct H as [Hs [[Hp' Ht']|[Hp' Ht']]].
    + assert (Hm : (fmeasure timeout f' < fmeasure timeout f)%nat).
      { unfold fmeasure, fmeasureN. rewrite Hp, Hp'.
        generalize ((timeout - 1 - f_t f) / 2) (timeout / 2). lia. }
      split; [lia|split; [lia|split; [exact Hs|right; exact Hm]]].
    + assert (Hm : (fmeasure timeout f' < fmeasure timeout f)%nat).
      { unfold fmeasure, fmeasureN. rewrite Hp, Hp', Ht'.
        replace (timeout - 0) with timeout by lia.
        generalize ((timeout - 1 - f_t f) / 2) (timeout / 2). lia. }
      split; [lia|split; [lia|split; [exact Hs|right; exact Hm]]].
  - destruct (N.ltb 0 timeout); [|discriminate].
    inversion H; subst; clear H.
    split; [lia|split; [lia|split; [unfold same_call; repeat split; reflexivity|left; reflexivity]]].
Qed.

(* ------------------------------------------------------------------------------------------ *)
(* 2. termination                                                                              *)
(* ------------------------------------------------------------------------------------------ *)
(* the frame is woken up again and again; the node's state at each wake-up is arbitrary *)
Fixpoint wakes (timeout : N) (ns : list node) (f : frame) : fout :=
  match ns with
  | [] => FSleep f
  | n :: r => match frame_wake timeout n f with
              | FSleep f' => wakes timeout r f'
              | FDone n' => FDone n'
              end
  end.

Theorem frame_terminates : forall timeout ns f,
  (List.length ns > fmeasure timeout f)%nat -> exists n', wakes timeout ns f = FDone n'.
Proof.
  intros timeout ns. induction ns as [|n r IH]; intros f Hlen.
  - cbn in Hlen. lia.
  - cbn [wakes]. destruct (frame_wake timeout n f) as [f'|n'] eqn:Hw.
    + apply frame_wake_progress in Hw. destruct Hw as [Hm _].
      apply IH. cbn in Hlen. lia.
    + eexists; reflexivity.
Qed.

Lemma fmeasure_bound : forall timeout f, (fmeasure timeout f <= N.to_nat timeout + 1)%nat.
Proof.
  intros timeout f. unfold fmeasure, fmeasureN.
  assert (H1 : timeout / 2 * 2 <= timeout).
  { rewrite N.mul_comm. apply N.mul_div_le. lia. }
  destruct (f_phase f).
  - assert (H2 : (timeout - 1 - f_t f) / 2 * 2 <= timeout - 1 - f_t f).
    { rewrite N.mul_comm. apply N.mul_div_le. lia. }
    destruct (N.eq_dec timeout 0) as [->|Hnz].
    + cbn. lia.
    + lia.
  - assert (H2 : (timeout - f_t f) / 2 * 2 <= timeout - f_t f).
    { rewrite N.mul_comm. apply N.mul_div_le. lia. }
    lia.
  - lia.
Qed.

(* every blocked election call returns after at most timeout + 2 wake-ups, whatever the node's
   state is at each of them (timeout is in ms, a wake-up every 2 ms: (timeout-1)/2 + 1 wake-ups
   in the first loop, timeout/2 + 1 in the second, one for the final sleep) *)
Corollary frame_terminates_bound : forall timeout ns f,
  (List.length ns >= N.to_nat timeout + 2)%nat -> exists n', wakes timeout ns f = FDone n'.
Proof.
  intros timeout ns f H. apply frame_terminates.
  pose proof (fmeasure_bound timeout f). lia.
Qed.

(* the measure is exact: with timeout 20 a frame can sleep through 20 wake-ups; the 21st ends it *)
Definition pm_half : pmsg := mkP "m" 1 0 [("x", false)].
Definition node_with_pending (id : N) : node :=
  mkNode [] [] StartingUp 0 "u" "p" "a" 1 [] [] [] [(id, pm_half)] [] [].
Definition node_without_pending : node := mkNode [] [] StartingUp 0 "u" "p" "a" 1 [] [] [] [] [] [].
Definition frame0 : frame := mkF "a" 7 PRegister 0 None None [] [].
Definition slow_nodes (k : nat) : list node :=
  repeat node_without_pending 9 ++ repeat (node_with_pending 7) k.

Example bound_is_tight_20 :
  fmeasure 20 frame0 = 20%nat /\
  (exists f', wakes 20 (slow_nodes 11) frame0 = FSleep f') /\
  (exists n', wakes 20 (slow_nodes 12) frame0 = FDone n').
Proof.
  split; [vm_compute; reflexivity|]. split; eexists; vm_compute; reflexivity.
Qed.

(* ------------------------------------------------------------------------------------------ *)
(* 2b. the scheduler's tick: the frames' total remaining work decreases                        *)
(* ------------------------------------------------------------------------------------------ *)
(* a frame is identified by (op id, node) in tick_one *)
Definition fkey (f : frame) : N * str := (f_id f, f_node f).
Definition keyeq (g f : frame) : bool := N.eqb (f_id g) (f_id f) && String.eqb (f_node g) (f_node f).
Definition keys_nodup (l : list frame) : Prop := NoDup (map fkey l).
(* wake-ups the frames of a list can still take, in total (one more than the measure each) *)
Definition weight (timeout : N) (l : list frame) : nat :=
  fold_right (fun f a => (S (fmeasure timeout f) + a)%nat) 0%nat l.

Lemma keyeq_spec : forall g f, keyeq g f = true <-> fkey g = fkey f.
Proof.
  intros g f. unfold keyeq, fkey. rewrite andb_true_iff, N.eqb_eq, String.eqb_eq.
  split; [intros [-> ->]; reflexivity|intros H; inversion H; auto].
Qed.
Lemma keyeq_false : forall g f, keyeq g f = false <-> fkey g <> fkey f.
Proof.
  intros g f. rewrite <- keyeq_spec. destruct (keyeq g f); split; congruence.
Qed.

Lemma same_call_key : forall f f', same_call f f' -> fkey f' = fkey f.
Proof. intros f f' [H1 [H2 _]]. unfold fkey. congruence. Qed.

Definition repl_frame (f f' : frame) (l : list frame) : list frame :=
  map (fun g => if keyeq g f then f' else g) l.
Definition drop_frame (f : frame) (l : list frame) : list frame :=
  filter (fun g => negb (keyeq g f)) l.

Lemma repl_cons : forall f f' g r,
  repl_frame f f' (g :: r) = (if keyeq g f then f' else g) :: repl_frame f f' r.
Proof. reflexivity. Qed.
Lemma drop_cons : forall f g r,
  drop_frame f (g :: r) = if keyeq g f then drop_frame f r else g :: drop_frame f r.
Proof. intros f g r. unfold drop_frame. cbn. destruct (keyeq g f); reflexivity. Qed.
Lemma weight_cons : forall t g r, weight t (g :: r) = (S (fmeasure t g) + weight t r)%nat.
Proof. reflexivity. Qed.

Lemma repl_absent : forall f f' l, ~ In (fkey f) (map fkey l) -> repl_frame f f' l = l.
Proof.
  intros f f' l. induction l as [|g r IH]; intro Hn; [reflexivity|].
  rewrite repl_cons. cbn in Hn. destruct (keyeq g f) eqn:E.
  - apply keyeq_spec in E. exfalso. apply Hn. left; exact E.
  - rewrite IH; [reflexivity|]. intro Hin; apply Hn; right; exact Hin.
Qed.
Lemma drop_absent : forall f l, ~ In (fkey f) (map fkey l) -> drop_frame f l = l.
Proof.
  intros f l. induction l as [|g r IH]; intro Hn; [reflexivity|].
  rewrite drop_cons. cbn in Hn. destruct (keyeq g f) eqn:E.
  - apply keyeq_spec in E. exfalso. apply Hn. left; exact E.
  - rewrite IH; [reflexivity|]. intro Hin; apply Hn; right; exact Hin.
Qed.

Lemma repl_keys : forall f f' l, fkey f' = fkey f -> map fkey (repl_frame f f' l) = map fkey l.
Proof.
  intros f f' l Hk. induction l as [|g r IH]; [reflexivity|].
  rewrite repl_cons. cbn [map]. rewrite IH. destruct (keyeq g f) eqn:E; [|reflexivity].
  apply keyeq_spec in E. congruence.
Qed.

Lemma repl_weight : forall timeout f f' l,
  keys_nodup l -> In f l ->
  (weight timeout (repl_frame f f' l) + fmeasure timeout f = weight timeout l + fmeasure timeout f')%nat.
Proof.
  intros timeout f f' l. induction l as [|g r IH]; intros Hnd Hin; [contradiction|].
  unfold keys_nodup in Hnd. cbn in Hnd. inversion Hnd as [|k ks Hnotin Hnd']; subst.
  rewrite repl_cons. destruct (keyeq g f) eqn:E.
  - apply keyeq_spec in E.
    assert (g = f).
    { destruct Hin as [Hgf|Hin']; [exact Hgf|]. exfalso. apply Hnotin. rewrite E. apply in_map. exact Hin'. }
    subst g. rewrite repl_absent by exact Hnotin.
    rewrite !weight_cons. lia.
  - apply keyeq_false in E. destruct Hin as [Hgf|Hin']; [subst; contradiction|].
    rewrite !weight_cons.
    specialize (IH Hnd' Hin'). lia.
Qed.

Lemma repl_keeps : forall f f' l g, In g l -> fkey g <> fkey f -> In g (repl_frame f f' l).
Proof.
  intros f f' l g Hin Hk. unfold repl_frame. apply in_map_iff. exists g. split; [|exact Hin].
  apply keyeq_false in Hk. rewrite Hk. reflexivity.
Qed.

Lemma drop_keys_nodup : forall f l, keys_nodup l -> keys_nodup (drop_frame f l).
Proof.
  intros f l. unfold keys_nodup. induction l as [|g r IH]; intro Hnd; [constructor|].
  cbn in Hnd. inversion Hnd as [|k ks Hnotin Hnd']; subst.
  rewrite drop_cons. destruct (keyeq g f); [apply IH; exact Hnd'|].
  cbn [map]. constructor; [|apply IH; exact Hnd'].
  intro Hin. apply Hnotin. apply in_map_iff in Hin. destruct Hin as [h [Hh Hin]].
  unfold drop_frame in Hin. apply filter_In in Hin. apply in_map_iff. exists h. tauto.
Qed.

Lemma drop_weight : forall timeout f l,
  keys_nodup l -> In f l ->
  (weight timeout (drop_frame f l) + S (fmeasure timeout f) = weight timeout l)%nat.
Proof.
  intros timeout f l. induction l as [|g r IH]; intros Hnd Hin; [contradiction|].
  unfold keys_nodup in Hnd. cbn in Hnd. inversion Hnd as [|k ks Hnotin Hnd']; subst.
  rewrite drop_cons. destruct (keyeq g f) eqn:E.
  - apply keyeq_spec in E.
    assert (g = f).
    { destruct Hin as [Hgf|Hin']; [exact Hgf|]. exfalso. apply Hnotin. rewrite E. apply in_map. exact Hin'. }
    subst g. rewrite drop_absent by exact Hnotin.
    rewrite weight_cons. lia.
  - apply keyeq_false in E. destruct Hin as [Hgf|Hin']; [subst; contradiction|].
    rewrite !weight_cons.
    specialize (IH Hnd' Hin'). lia.
Qed.

Lemma drop_keeps : forall f l g, In g l -> fkey g <> fkey f -> In g (drop_frame f l).
Proof.
  intros f l g Hin Hk. unfold drop_frame. apply filter_In. split; [exact Hin|].
  apply keyeq_false in Hk. rewrite Hk. reflexivity.
Qed.

(* what tick_one does to the frame list *)
Lemma tick_one_frames : forall e f,
  e_timeout (tick_one e f) = e_timeout e /\
  match node_of (sync_clocks (e_c e)) (f_node f) with
  | None => tick_one e f = e
  | Some n =>
      match frame_wake (e_timeout e) n f with
      | FSleep f' => e_frames (tick_one e f) = repl_frame f f' (e_frames e)
      | FDone _ => e_frames (tick_one e f) = drop_frame f (e_frames e)
      end
  end.
Proof.
  intros e f. unfold tick_one.
  destruct (node_of (sync_clocks (e_c e)) (f_node f)) as [n|]; [|split; reflexivity].
  destruct (frame_wake (e_timeout e) n f) as [f'|n']; split; reflexivity.
Qed.

Lemma tick_one_weight : forall e f,
  keys_nodup (e_frames e) -> In f (e_frames e) ->
  e_timeout (tick_one e f) = e_timeout e /\
  keys_nodup (e_frames (tick_one e f)) /\
  (forall g, In g (e_frames e) -> fkey g <> fkey f -> In g (e_frames (tick_one e f))) /\
  (weight (e_timeout e) (e_frames (tick_one e f)) <= weight (e_timeout e) (e_frames e))%nat /\
  (node_of (sync_clocks (e_c e)) (f_node f) <> None ->
   (weight (e_timeout e) (e_frames (tick_one e f)) < weight (e_timeout e) (e_frames e))%nat).
Proof.
  intros e f Hnd Hin. destruct (tick_one_frames e f) as [Ht Hf]. split; [exact Ht|].
  destruct (node_of (sync_clocks (e_c e)) (f_node f)) as [n|].
  - destruct (frame_wake (e_timeout e) n f) as [f'|n'] eqn:Hw.
    + apply frame_wake_progress in Hw. destruct Hw as [Hm [_ Hs]].
      apply same_call_key in Hs. rewrite Hf.
      pose proof (repl_weight (e_timeout e) f f' (e_frames e) Hnd Hin) as Hwt.
      split; [unfold keys_nodup; rewrite repl_keys by exact Hs; exact Hnd|].
      split; [intros g Hg Hk; apply repl_keeps; assumption|].
      split; [lia|intros _; lia].
    + rewrite Hf.
      pose proof (drop_weight (e_timeout e) f (e_frames e) Hnd Hin) as Hwt.
      split; [apply drop_keys_nodup; exact Hnd|].
      split; [intros g Hg Hk; apply drop_keeps; assumption|].
      split; [lia|intros _; lia].
  - rewrite Hf. split; [exact Hnd|]. split; [intros g Hg _; exact Hg|].
    split; [lia|intros H; contradiction].
Qed.

Lemma tick_fold_weight : forall l e,
  keys_nodup (e_frames e) -> keys_nodup l -> incl l (e_frames e) ->
  e_timeout (fold_left tick_one l e) = e_timeout e /\
  keys_nodup (e_frames (fold_left tick_one l e)) /\
  (weight (e_timeout e) (e_frames (fold_left tick_one l e)) <= weight (e_timeout e) (e_frames e))%nat.
Proof.
  induction l as [|f r IH]; intros e Hnd Hl Hincl.
  - cbn. repeat split; auto.
  - cbn [fold_left].
    assert (Hin : In f (e_frames e)) by (apply Hincl; left; reflexivity).
    destruct (tick_one_weight e f Hnd Hin) as [Ht [Hnd1 [Hkeep [Hle _]]]].
    unfold keys_nodup in Hl. cbn in Hl. inversion Hl as [|k ks Hnotin Hl']; subst.
    assert (Hincl' : incl r (e_frames (tick_one e f))).
    { intros g Hg. apply Hkeep; [apply Hincl; right; exact Hg|].
      intro Hk. apply Hnotin. rewrite <- Hk. apply in_map. exact Hg. }
    destruct (IH (tick_one e f) Hnd1 Hl' Hincl') as [Ht2 [Hnd2 Hle2]].
    rewrite Ht in Ht2, Hle2. repeat split; auto. lia.
Qed.

(* sync_clocks keeps every node *)
Lemma node_of_sync_clocks : forall c nm, node_of (sync_clocks c) nm = None <-> node_of c nm = None.
Proof.
  intros c nm. unfold node_of, get_cn, sync_clocks. cbn [c_nodes].
  generalize (fold_left (fun a kv => N.max a (n_clock (cn_node (snd kv)))) (c_nodes c) 0) as mx.
  intro mx. induction (c_nodes c) as [|[k v] r IH]; [cbn; tauto|].
  cbn. destruct (String.eqb nm k); [cbn; split; discriminate|exact IH].
Qed.

(* One tick of the scheduler (every frame takes a wake-up): with distinct frame keys the total
   remaining work never grows, and it shrinks when the first frame's node exists.  Together with
   frame_terminates: frames do not block for ever; a run that does not quiesce
   (C07_no_quiescence_refuted) keeps STARTING new elections. *)
Theorem tick_frames_progress : forall e,
  keys_nodup (e_frames e) ->
  e_timeout (tick_frames e) = e_timeout e /\
  keys_nodup (e_frames (tick_frames e)) /\
  (weight (e_timeout e) (e_frames (tick_frames e)) <= weight (e_timeout e) (e_frames e))%nat /\
  (forall f r, e_frames e = f :: r -> node_of (e_c e) (f_node f) <> None ->
     (weight (e_timeout e) (e_frames (tick_frames e)) < weight (e_timeout e) (e_frames e))%nat).
Proof.
  intros e Hnd. unfold tick_frames.
  destruct (tick_fold_weight (e_frames e) e Hnd Hnd (incl_refl _)) as [Ht [Hnd' Hle]].
  repeat split; auto.
  intros f r Hfr Hnode. rewrite Hfr. cbn [fold_left].
  assert (Hin : In f (e_frames e)) by (rewrite Hfr; left; reflexivity).
  destruct (tick_one_weight e f Hnd Hin) as [Ht1 [Hnd1 [Hkeep [_ Hlt]]]].
  assert (Hl : keys_nodup (f :: r)) by (rewrite <- Hfr; exact Hnd).
  unfold keys_nodup in Hl. cbn in Hl. inversion Hl as [|k ks Hnotin Hl']; subst.
  assert (Hincl' : incl r (e_frames (tick_one e f))).
  { intros g Hg. apply Hkeep; [rewrite Hfr; right; exact Hg|].
    intro Hk. apply Hnotin. rewrite <- Hk. apply in_map. exact Hg. }
  destruct (tick_fold_weight r (tick_one e f) Hnd1 Hl' Hincl') as [_ [_ Hle2]].
  rewrite Ht1 in Hle2.
  assert (Hn : node_of (sync_clocks (e_c e)) (f_node f) <> None).
  { intro H. apply Hnode. exact (proj1 (node_of_sync_clocks _ _) H). }
  specialize (Hlt Hn). rewrite Hfr in Hlt. lia.
Qed.

(* ------------------------------------------------------------------------------------------ *)
(* 3. how a frame ends                                                                         *)
(* ------------------------------------------------------------------------------------------ *)
Lemma election_win_role : forall n, n_role (election_win n) = Primary.
Proof. reflexivity. Qed.
Lemma election_win_sup : forall n, n_sup (election_win n) = n_sup n ++ ["election-win self"].
Proof. reflexivity. Qed.
Lemma election_win_neq : forall n, election_win n <> n.
Proof.
  intros n H. apply (f_equal n_sup) in H. rewrite election_win_sup in H.
  apply (f_equal (@List.length str)) in H. rewrite app_length in H. cbn in H. lia.
Qed.

Lemma acks_check_done : forall timeout n f t n',
  acks_check timeout n f t = FDone n' ->
  n' = n /\ Election.is_eligible n = false /\
  exists m, pending_get n (f_id f) = Some m /\ full_ack m = false.
Proof.
  intros timeout n f t n' H. unfold acks_check in H.
  destruct (pending_get n (f_id f)) as [m|]; [|discriminate].
  destruct (full_ack m) eqn:Hfa; [discriminate|].
  destruct (Election.is_eligible n) eqn:He; cbn in H; [discriminate|].
  inversion H; subst. repeat split; auto. exists m; auto.
Qed.

Theorem frame_done_role : forall timeout n f n',
  frame_wake timeout n f = FDone n' \/ frame_start timeout n f = FDone n' ->
  n' = n \/
  (n' = election_win n /\ n_role n' = Primary /\ n_sup n' = n_sup n ++ ["election-win self"]).
Proof.
  intros timeout n f n' [H|H].
  - unfold frame_wake in H. destruct (f_phase f).
    + destruct (pending_get n (f_id f)) as [m|] eqn:Hg.
      * apply acks_check_done in H. left; apply H.
      * destruct (N.ltb (f_t f + 2) timeout); [discriminate|]. inversion H; subst. right; auto.
    + destruct (N.ltb timeout (f_t f + 2)).
      * inversion H; subst. right; auto.
      * apply acks_check_done in H. left; apply H.
    + destruct (Election.is_eligible n); inversion H; subst; auto.
  - unfold frame_start in H. destruct (pending_get n (f_id f)) as [m|] eqn:Hg.
    + apply acks_check_done in H. left; apply H.
    + destruct (N.ltb 0 timeout); [discriminate|]. inversion H; subst. right; auto.
Qed.

(* the last sleep: the node claims the primacy iff it is still eligible (StartingUp) *)
Theorem frame_done_final : forall timeout n f,
  f_phase f = PFinal ->
  frame_wake timeout n f = (if Election.is_eligible n then FDone (election_win n) else FDone n).
Proof.
  intros timeout n f Hp. unfold frame_wake. rewrite Hp. destruct (Election.is_eligible n); reflexivity.
Qed.

Corollary frame_done_final_win : forall timeout n f,
  f_phase f = PFinal ->
  (frame_wake timeout n f = FDone (election_win n) <-> n_role n = StartingUp).
Proof.
  intros timeout n f Hp. rewrite (frame_done_final timeout n f Hp). rewrite <- is_eligible_role.
  destruct (Election.is_eligible n); split; intro H; try reflexivity; try discriminate.
  inversion H as [H1]. symmetry in H1. apply election_win_neq in H1. contradiction.
Qed.

(* the acknowledgement loop before its timeout never claims the primacy itself: it ends only by
   giving up (the node is no longer StartingUp while acknowledgements are outstanding) *)
Theorem frame_done_acks_no_timeout : forall timeout n f n',
  f_phase f = PAcks -> f_t f + 2 <= timeout ->
  frame_wake timeout n f = FDone n' ->
  n' = n /\ Election.is_eligible n = false /\
  exists m, pending_get n (f_id f) = Some m /\ full_ack m = false.
Proof.
  intros timeout n f n' Hp Ht H. unfold frame_wake in H. rewrite Hp in H.
  destruct (N.ltb_spec timeout (f_t f + 2)) as [Hlt|Hge]; [lia|].
  apply acks_check_done in H. exact H.
Qed.

(* same for the registration loop once the entry has been seen *)
Theorem frame_done_register_seen : forall timeout n f n' m,
  f_phase f = PRegister -> pending_get n (f_id f) = Some m ->
  frame_wake timeout n f = FDone n' ->
  n' = n /\ Election.is_eligible n = false /\ full_ack m = false.
Proof.
  intros timeout n f n' m Hp Hg H. unfold frame_wake in H. rewrite Hp, Hg in H.
  apply acks_check_done in H. destruct H as [H1 [H2 [m' [H3 H4]]]].
  rewrite Hg in H3. inversion H3; subst. auto.
Qed.

(* exactly when a frame claims the primacy: *)
Theorem frame_wake_wins_iff : forall timeout n f,
  frame_wake timeout n f = FDone (election_win n) <->
  (f_phase f = PRegister /\ pending_get n (f_id f) = None /\ timeout <= f_t f + 2) \/
  (f_phase f = PAcks /\ timeout < f_t f + 2) \/
  (f_phase f = PFinal /\ Election.is_eligible n = true).
Proof.
  intros timeout n f. split.
  - intro H. unfold frame_wake in H. destruct (f_phase f) eqn:Hp.
    + destruct (pending_get n (f_id f)) as [m|] eqn:Hg.
      * apply acks_check_done in H. destruct H as [H _]. apply election_win_neq in H. contradiction.
      * destruct (N.ltb_spec (f_t f + 2) timeout) as [Hlt|Hge]; [discriminate|]. left; auto.
    + destruct (N.ltb_spec timeout (f_t f + 2)) as [Hlt|Hge].
      * right; left; auto.
      * apply acks_check_done in H. destruct H as [H _]. apply election_win_neq in H. contradiction.
    + destruct (Election.is_eligible n) eqn:He.
      * right; right; auto.
      * inversion H as [H1]. symmetry in H1. apply election_win_neq in H1. contradiction.
  - intros [[Hp [Hg Ht]]|[[Hp Ht]|[Hp He]]]; unfold frame_wake; rewrite Hp.
    + rewrite Hg. destruct (N.ltb_spec (f_t f + 2) timeout) as [Hlt|Hge]; [lia|reflexivity].
    + destruct (N.ltb_spec timeout (f_t f + 2)) as [Hlt|Hge]; [reflexivity|lia].
    + rewrite He. reflexivity.
Qed.

(* the mechanism of the "second primary": a node that is NOT eligible any more (it already
   became Secondary, or is Primary) claims the primacy exactly when one of its two wait loops
   times out.  (Exact conditions of the code: the registration loop gives up when
   start_time + 2 >= timeout, the acknowledgement loop when start_time + 2 > timeout.) *)
Theorem claims_without_eligibility : forall timeout n f,
  (frame_wake timeout n f = FDone (election_win n) /\ Election.is_eligible n = false) <->
  (Election.is_eligible n = false /\
   ((f_phase f = PRegister /\ pending_get n (f_id f) = None /\ timeout <= f_t f + 2) \/
    (f_phase f = PAcks /\ timeout < f_t f + 2))).
Proof.
  intros timeout n f. rewrite frame_wake_wins_iff. split.
  - intros [[H|[H|[_ H]]] He]; try (split; [exact He|tauto]). congruence.
  - intros [He [H|H]]; split; auto.
Qed.

(* and the start of the call: it claims the primacy at once, eligible or not, iff there is no
   pending entry and the timeout is 0 *)
Theorem frame_start_wins_iff : forall timeout n f,
  frame_start timeout n f = FDone (election_win n) <->
  (pending_get n (f_id f) = None /\ timeout = 0).
Proof.
  intros timeout n f. unfold frame_start. split.
  - intro H. destruct (pending_get n (f_id f)) as [m|] eqn:Hg.
    + apply acks_check_done in H. destruct H as [H _]. apply election_win_neq in H. contradiction.
    + destruct (N.ltb_spec 0 timeout) as [Hlt|Hge]; [discriminate|]. split; [reflexivity|lia].
  - intros [Hg Ht]. rewrite Hg. subst timeout. reflexivity.
Qed.

(* concrete instance: a Secondary node whose acknowledgement loop times out becomes Primary *)
Definition secondary_node : node := mkNode [] [] Secondary 0 "u" "p" "a" 1 [] [] [] [(7, pm_half)] [] [].
Example secondary_claims_primacy :
  n_role secondary_node = Secondary /\
  exists n', frame_wake 20 secondary_node (mkF "a" 7 PAcks 20 None None [] []) = FDone n' /\ n_role n' = Primary.
Proof. split; [reflexivity|]. eexists; split; vm_compute; reflexivity. Qed.

(* ------------------------------------------------------------------------------------------ *)
(* 4. election_eval, and a Secondary's replication thread                                      *)
(* ------------------------------------------------------------------------------------------ *)
Definition candidate_msg (n : node) : str := "election candidate " +++ N_to_str (n_pid n) +++ " " +++ n_addr n.
Definition stamped (n : node) (msg : str) : str := "rp " +++ N_to_str (n_clock n) +++ " " +++ msg.

Lemma replicate_message_role : forall n m, n_role (replicate_message n m) = n_role n.
Proof. reflexivity. Qed.
Lemma replicate_message_repl : forall n m, n_repl (replicate_message n m) = n_repl n ++ [stamped n m].
Proof. reflexivity. Qed.
Lemma replicate_message_members : forall n m, n_members (replicate_message n m) = n_members n.
Proof. reflexivity. Qed.
Lemma replicate_message_sup : forall n m, n_sup (replicate_message n m) = n_sup n.
Proof. reflexivity. Qed.

Theorem election_eval_rule : forall n cand,
  (* its own candidacy coming back: nothing *)
  (cand = n_pid n -> election_eval n cand = n) /\
  (* a younger candidate: the node starts an election of its own, WITHOUT becoming StartingUp *)
  (n_pid n < cand ->
     election_eval n cand = start_election n /\
     ((1 < List.length (n_members n))%nat ->
        n_role (election_eval n cand) = n_role n /\
        n_repl (election_eval n cand) = n_repl n ++ [stamped n (candidate_msg n)] /\
        n_sup (election_eval n cand) = n_sup n /\
        n_members (election_eval n cand) = n_members n)) /\
  (* an older candidate: the node becomes Secondary and answers "election alive" *)
  (cand < n_pid n ->
     n_role (election_eval n cand) = Secondary /\
     n_repl (election_eval n cand) = n_repl n ++ [stamped n ("election alive " +++ n_addr n)] /\
     n_sup (election_eval n cand) = n_sup n /\
     n_members (election_eval n cand) = n_members n).
Proof.
  intros n cand. unfold election_eval. repeat split.
  - intros ->. rewrite N.eqb_refl. reflexivity.
  - destruct (N.eqb_spec cand (n_pid n)) as [->|Hne]; [lia|].
    destruct (N.ltb_spec (n_pid n) cand); [reflexivity|lia].
  - destruct (N.eqb_spec cand (n_pid n)) as [->|Hne]; [lia|].
    destruct (N.ltb_spec (n_pid n) cand); [|lia].
    unfold start_election. destruct (Nat.leb_spec (List.length (n_members n)) 1); [lia|]. reflexivity.
  - destruct (N.eqb_spec cand (n_pid n)) as [->|Hne]; [lia|].
    destruct (N.ltb_spec (n_pid n) cand); [|lia].
    unfold start_election. destruct (Nat.leb_spec (List.length (n_members n)) 1); [lia|]. reflexivity.
  - destruct (N.eqb_spec cand (n_pid n)) as [->|Hne]; [lia|].
    destruct (N.ltb_spec (n_pid n) cand); [|lia].
    unfold start_election. destruct (Nat.leb_spec (List.length (n_members n)) 1); [lia|]. reflexivity.
  - destruct (N.eqb_spec cand (n_pid n)) as [->|Hne]; [lia|].
    destruct (N.ltb_spec (n_pid n) cand); [|lia].
    unfold start_election. destruct (Nat.leb_spec (List.length (n_members n)) 1); [lia|]. reflexivity.
  - destruct (N.eqb_spec cand (n_pid n)) as [->|Hne]; [lia|].
    destruct (N.ltb_spec (n_pid n) cand); [lia|]. reflexivity.
  - destruct (N.eqb_spec cand (n_pid n)) as [->|Hne]; [lia|].
    destruct (N.ltb_spec (n_pid n) cand); [lia|]. reflexivity.
  - destruct (N.eqb_spec cand (n_pid n)) as [->|Hne]; [lia|].
    destruct (N.ltb_spec (n_pid n) cand); [lia|]. reflexivity.
  - destruct (N.eqb_spec cand (n_pid n)) as [->|Hne]; [lia|].
    destruct (N.ltb_spec (n_pid n) cand); [lia|]. reflexivity.
Qed.

(* the oplog part of the replication thread never touches the node *)
Lemma key_id_node : forall x k, cn_node (fst (key_id x k)) = cn_node x.
Proof. intros x k. unfold key_id. destruct (assoc_get String.eqb k (cn_keymap x)); reflexivity. Qed.

Lemma repl_oplog_node : forall x rq id, cn_node (fst (repl_oplog x rq id)) = cn_node x.
Proof.
  intros x rq id.
  destruct rq; cbn [repl_oplog]; try reflexivity;
    try (destruct (db_id_of (cn_node x) _); reflexivity);
    try (match goal with |- context [key_id ?a ?b] =>
           pose proof (key_id_node a b) as Hk; destruct (key_id a b) as [x1 kid]; cbn [fst] in Hk end;
         destruct (db_id_of (cn_node x) _); cbn; exact Hk).
  (* RqReplicateSnapshot: a fold over the database names *)
  match goal with |- context [fold_left ?F ?l (x, Some id)] =>
    assert (Hgen : forall l0 (acc : cnode * option N), cn_node (fst acc) = cn_node x ->
                     cn_node (fst (fold_left F l0 acc)) = cn_node x)
  end.
  { induction l0 as [|nm r IH]; intros [x0 r0] Hacc; [exact Hacc|].
    cbn [fold_left]. apply IH. cbn [fst] in Hacc.
    destruct (db_id_of (cn_node x0) nm); cbn; exact Hacc. }
  apply Hgen. reflexivity.
Qed.

(* a Secondary's replication thread leaves the node as it is -- member outboxes included: it
   does not call fan_out, whatever the queued message is (an "rp <id> election candidate ..."
   in particular) *)
Theorem secondary_no_fanout_node : forall x msg,
  n_role (cn_node x) = Secondary -> cn_node (repl_one x msg) = cn_node x.
Proof.
  intros x msg Hr. unfold repl_one.
  destruct (cn_dead x); [reflexivity|].
  destruct (parse_request msg) as [r| |]; try reflexivity.
  destruct r; try reflexivity.
  match goal with |- context [parse_request ?q] => destruct (parse_request q) as [rq| |]; try reflexivity end.
  match goal with |- context [repl_oplog x rq ?i] =>
    pose proof (repl_oplog_node x rq i) as Hn; destruct (repl_oplog x rq i) as [x1 oid]; cbn [fst] in Hn end.
  rewrite Hn, Hr. exact Hn.
Qed.

Theorem secondary_no_fanout : forall x msg,
  n_role (cn_node x) = Secondary ->
  n_members (cn_node (repl_one x msg)) = n_members (cn_node x) /\
  n_pending (cn_node (repl_one x msg)) = n_pending (cn_node x).
Proof. intros x msg Hr. rewrite (secondary_no_fanout_node x msg Hr). split; reflexivity. Qed.

Corollary secondary_poll_repl_no_fanout : forall x,
  n_role (cn_node x) = Secondary ->
  n_members (cn_node (poll_repl x)) = n_members (cn_node x) /\
  n_pending (cn_node (poll_repl x)) = n_pending (cn_node x) /\
  n_repl (cn_node (poll_repl x)) = [].
Proof.
  intros x Hr. unfold poll_repl.
  set (x0 := cn_set_node x (n_set_repl (cn_node x) [])).
  assert (H0 : n_role (cn_node x0) = Secondary) by exact Hr.
  assert (Hgen : forall q y, n_role (cn_node y) = Secondary -> cn_node (fold_left repl_one q y) = cn_node y).
  { induction q as [|m r IH]; intros y Hy; [reflexivity|].
    cbn [fold_left]. rewrite IH; [apply secondary_no_fanout_node; exact Hy|].
    rewrite secondary_no_fanout_node; exact Hy. }
  rewrite (Hgen _ x0 H0). repeat split; reflexivity.
Qed.

(* non-vacuity: the candidate message is a replication request the thread understands, a
   StartingUp node fans it out, the same node as Secondary does not *)
Definition two_member_node (r : role) : node :=
  mkNode [] [] r 5 "u" "p" "n1" 100 [] [] [] [] [] [("n1", (r, [nosender])); ("n2", (Secondary, []))].
Definition cand_line : str := "rp 5 election candidate 200 n2".
Example candidate_message_parses :
  parse_request cand_line = POk (RqReplicateRequest "election candidate 200 n2" 5) /\
  parse_request "election candidate 200 n2" = POk (RqElection 200 "n2").
Proof. split; vm_compute; reflexivity. Qed.
Example starting_up_fans_out :
  n_members (cn_node (repl_one (mkCN (two_member_node StartingUp) [] [] [] false) cand_line)) =
  [("n1", (StartingUp, [nosender])); ("n2", (Secondary, [cand_line]))].
Proof. vm_compute. reflexivity. Qed.
Example secondary_does_not_fan_out :
  n_members (cn_node (repl_one (mkCN (two_member_node Secondary) [] [] [] false) cand_line)) =
  [("n1", (Secondary, [nosender])); ("n2", (Secondary, []))].
Proof. vm_compute. reflexivity. Qed.

(* ------------------------------------------------------------------------------------------ *)
(* 6. a node alone                                                                             *)
(* ------------------------------------------------------------------------------------------ *)
Theorem single_node_wins_at_once : forall n,
  (List.length (n_members n) <= 1)%nat -> start_election n = election_win n.
Proof.
  intros n H. unfold start_election.
  destruct (Nat.leb_spec (List.length (n_members n)) 1); [reflexivity|lia].
Qed.

Corollary single_node_new_election : forall n,
  (List.length (n_members n) <= 1)%nat ->
  n_role (start_new_election n) = Primary /\
  n_sup (start_new_election n) = n_sup n ++ ["election-win self"].
Proof.
  intros n H. unfold start_new_election.
  rewrite single_node_wins_at_once by exact H. split; reflexivity.
Qed.

(* ------------------------------------------------------------------------------------------ *)
(* 5. witnesses                                                                                *)
(* ------------------------------------------------------------------------------------------ *)
Definition mk_nodes (l : list (str * N * N)) : list (str * cnode) :=
  map (fun x => let '(nm, pid, clk) := x in (nm, init_cnode "nun" "pwd" nm pid StartingUp clk)) l.
Definition conn2 (c : cluster) (nm : str) : cluster := fst (client_conn (fst (client_conn c nm)) nm).
(* the harness's cluster: nodes with their own clock ranges, election timeout 20 ms, two client
   connections per node, client 0 of every node authenticated *)
Definition mk_ecl (l : list (str * N * N)) : ecl :=
  let names := map (fun x => fst (fst x)) l in
  let c := fold_left conn2 names (mkCl (mk_nodes l) [] 0) in
  fold_left (fun e nm => fst (ecmd e nm 0%nat "auth nun pwd")) names (mkE c [] 20 []).
Definition cmd (e : ecl) (nm : str) (k : nat) (line : str) : ecl := fst (ecmd e nm k line).
Definition auth1 (e : ecl) (names : list str) : ecl := fold_left (fun e nm => cmd e nm 1%nat "auth nun pwd") names e.
Definition roles (e : ecl) : list (str * role) :=
  map (fun kv => (fst kv, n_role (cn_node (snd kv)))) (c_nodes (e_c e)).
Definition member_tables (e : ecl) : list (str * list (str * role)) :=
  map (fun kv => (fst kv, map (fun m => (fst m, fst (snd m))) (n_members (cn_node (snd kv))))) (c_nodes (e_c e)).
Definition pids (e : ecl) : list (str * N) :=
  map (fun kv => (fst kv, n_pid (cn_node (snd kv)))) (c_nodes (e_c e)).
Definition K1 : N := 1100000000000000000.
Definition K2 : N := 1200000000000000000.
Definition K3 : N := 1300000000000000000.

(* n1 is the older node (smaller process id) *)
Definition two_nodes : ecl := mk_ecl [("n1", 100, K1); ("n2", 200, K2)].

(* positive, non-vacuity: sequential formation works *)
Example C07_sequential_formation_ok :
  let r := esettle 200 (cmd two_nodes "n1" 0 "join n2") in
  snd r = true /\
  roles (fst r) = [("n1", Primary); ("n2", Secondary)] /\
  member_tables (fst r) = [("n1", [("n2", Secondary); ("n1", Primary)]);
                           ("n2", [("n1", Primary); ("n2", Secondary)])].
Proof. vm_compute. repeat split; reflexivity. Qed.

(* The scenario of the brief (n1: join n2, then n2: join n1, no settle in between) gives n1
   Primary in this model -- recorded as it is: *)
Example C07_cross_joins_older_wins :
  let r := esettle 3000 (cmd (cmd two_nodes "n1" 0 "join n2") "n2" 0 "join n1") in
  snd r = true /\ roles (fst r) = [("n1", Primary); ("n2", Secondary)].
Proof. vm_compute. repeat split; reflexivity. Qed.

(* ... but the younger node does win, with n1 as its Secondary, as soon as the join request goes to
   the younger node first: alone (a), followed by the symmetric request after a settle (b) *)
Example C07_younger_node_wins_refuted :
  pids two_nodes = [("n1", 100); ("n2", 200)] /\
  (let r := esettle 3000 (cmd two_nodes "n2" 0 "join n1") in
   snd r = true /\
   roles (fst r) = [("n1", Secondary); ("n2", Primary)] /\
   member_tables (fst r) = [("n1", [("n2", Primary); ("n1", Secondary)]);
                            ("n2", [("n1", Secondary); ("n2", Primary)])]) /\
  (let r := esettle 3000 (cmd (fst (esettle 200 (cmd two_nodes "n2" 0 "join n1"))) "n1" 0 "join n2") in
   snd r = true /\
   roles (fst r) = [("n1", Secondary); ("n2", Primary)]).
Proof. vm_compute. repeat split; reflexivity. Qed.

(* three nodes, process ids 200 / 400 / 100 *)
Definition three_nodes_b : ecl :=
  auth1 (mk_ecl [("n1", 200, K1); ("n2", 400, K2); ("n3", 100, K3)]) ["n1"; "n2"; "n3"].

(* n1 is asked to take n2 and n3 in, then an election is forced on n3: the run settles with n1 AND
   n3 Primary; n1's member table names all three nodes (itself Primary), n2 follows n3 *)
Example C07_two_primaries_refuted :
  let e := cmd (cmd (cmd three_nodes_b "n1" 0 "join n2") "n1" 0 "join n3") "n3" 1 "debug force-election" in
  let r := esettle 3000 e in
  snd r = true /\
  e_frames (fst r) = [] /\
  roles (fst r) = [("n1", Primary); ("n2", Secondary); ("n3", Primary)] /\
  member_tables (fst r) = [("n1", [("n2", Secondary); ("n1", Primary); ("n3", Secondary)]);
                           ("n2", [("n1", Secondary); ("n2", Secondary); ("n3", Primary)]);
                           ("n3", [("n3", Primary); ("n2", Secondary)])].
Proof. vm_compute. repeat split; reflexivity. Qed.

(* same cluster, the election forced on n2 instead: n1 and n2 Primary *)
Example C07_two_primaries_refuted_2 :
  let e := cmd (cmd (cmd three_nodes_b "n1" 0 "join n2") "n1" 0 "join n3") "n2" 1 "debug force-election" in
  let r := esettle 3000 e in
  snd r = true /\
  roles (fst r) = [("n1", Primary); ("n2", Primary); ("n3", Secondary)] /\
  member_tables (fst r) = [("n1", [("n2", Secondary); ("n1", Primary); ("n3", Secondary)]);
                           ("n2", [("n2", Primary); ("n3", Secondary)]);
                           ("n3", [("n1", Secondary); ("n2", Primary); ("n3", Secondary)])].
Proof. vm_compute. repeat split; reflexivity. Qed.

(* three nodes, process ids 100 / 200 / 300, formed one after the other *)
Definition three_nodes : ecl :=
  auth1 (mk_ecl [("n1", 100, K1); ("n2", 200, K2); ("n3", 300, K3)]) ["n1"; "n2"; "n3"].
Definition formed3 : ecl :=
  fst (esettle 200 (cmd (fst (esettle 200 (cmd three_nodes "n1" 0 "join n2"))) "n1" 0 "join n3")).

Example C07_formed3_ok :
  roles formed3 = [("n1", Primary); ("n2", Secondary); ("n3", Secondary)] /\
  e_frames formed3 = [] /\
  member_tables formed3 = [("n1", [("n2", Secondary); ("n1", Primary); ("n3", Secondary)]);
                           ("n2", [("n1", Primary); ("n2", Secondary); ("n3", Secondary)]);
                           ("n3", [("n1", Primary); ("n2", Secondary); ("n3", Secondary)])].
Proof. vm_compute. repeat split; reflexivity. Qed.

(* an election forced on the youngest node of a healthy cluster: no quiescence within 3000
   scheduler rounds (the election timeout is 20 ms = 10 wake-ups) *)
Example C07_no_quiescence_refuted :
  let r := esettle 3000 (cmd formed3 "n3" 1 "debug force-election") in
  snd r = false /\ e_frames (fst r) <> [].
Proof. vm_compute. split; [reflexivity|discriminate]. Qed.

Example C07_no_quiescence_refuted_600 :
  snd (esettle 600 (cmd formed3 "n3" 1 "debug force-election")) = false.
Proof. vm_compute. reflexivity. Qed.

(* the blocked calls of that run have distinct keys (the hypothesis of tick_frames_progress),
   and their total remaining work is small: the run goes on because new elections keep starting *)
Example C07_no_quiescence_frames :
  let e := fst (esettle 600 (cmd formed3 "n3" 1 "debug force-election")) in
  keys_nodup (e_frames e) /\ List.length (e_frames e) = 2%nat /\
  (weight (e_timeout e) (e_frames e) <= 2 * (20 + 2))%nat.
Proof.
  split; [|split].
  - unfold keys_nodup. vm_compute. repeat constructor; cbn; intuition discriminate.
  - vm_compute. reflexivity.
  - vm_compute. repeat constructor.
Qed.
