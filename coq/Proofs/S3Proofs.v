(* S3Proofs.v -- C18: the two S3 storage strategies (Model/S3.v): snapshot / restart round trips,
   the partition invariant over histories, and the fault-injection theorems. *)
From NunDB Require Import Model.Base Model.Pending Model.Parse Model.Node Model.Disk Model.S3
     Proofs.AssocLemmas Proofs.DiskProofs.
From Coq Require Import Lia DecimalN DecimalPos.
Require Import String List NArith ZArith Bool Ascii. Import ListNotations.
Open Scope string_scope. Open Scope list_scope. Open Scope N_scope.

(* ====================================================================== *)
(* 0. decimal partition numbers                                            *)
(* ====================================================================== *)
Fixpoint all_digits (s : str) : bool :=
  match s with EmptyString => true | String a r => is_digit a && all_digits r end.

Fixpoint uacc (d : Decimal.uint) (acc : N) : N :=
  match d with
  | Decimal.Nil => acc
  | Decimal.D0 l => uacc l (acc * 10 + 0)
  | Decimal.D1 l => uacc l (acc * 10 + 1)
  | Decimal.D2 l => uacc l (acc * 10 + 2)
  | Decimal.D3 l => uacc l (acc * 10 + 3)
  | Decimal.D4 l => uacc l (acc * 10 + 4)
  | Decimal.D5 l => uacc l (acc * 10 + 5)
  | Decimal.D6 l => uacc l (acc * 10 + 6)
  | Decimal.D7 l => uacc l (acc * 10 + 7)
  | Decimal.D8 l => uacc l (acc * 10 + 8)
  | Decimal.D9 l => uacc l (acc * 10 + 9)
  end.

Lemma digits_val_uint d : forall acc, digits_val (NilEmpty.string_of_uint d) acc = Some (uacc d acc).
Proof.
  induction d; intros acc; cbn [NilEmpty.string_of_uint uacc]; [reflexivity|..];
    (cbn [digits_val]; rewrite IHd; reflexivity).
Qed.

Lemma all_digits_uint d : all_digits (NilEmpty.string_of_uint d) = true.
Proof. induction d; cbn [NilEmpty.string_of_uint all_digits]; auto. Qed.

Lemma of_uint_acc_uacc d : forall acc, Npos (Pos.of_uint_acc d acc) = uacc d (Npos acc).
Proof.
  induction d; intros acc; cbn [Pos.of_uint_acc uacc]; [reflexivity|..];
    rewrite IHd; f_equal; lia.
Qed.

Lemma of_uint_uacc d : Pos.of_uint d = uacc d 0.
Proof.
  induction d; cbn [Pos.of_uint uacc]; [reflexivity|..]; try (rewrite of_uint_acc_uacc; reflexivity).
  exact IHd.
Qed.

Lemma digits_val_N_to_str p : digits_val (N_to_str p) 0 = Some p.
Proof.
  unfold N_to_str. rewrite digits_val_uint, <- of_uint_uacc.
  f_equal. apply (DecimalN.Unsigned.of_to p).
Qed.

Lemma all_digits_N_to_str p : all_digits (N_to_str p) = true.
Proof. apply all_digits_uint. Qed.

Lemma parse_u64_N_to_str p : p < 18446744073709551616 -> parse_u64 (N_to_str p) = Some p.
Proof.
  intros Hp. pose proof (digits_val_N_to_str p) as Hd. pose proof (all_digits_N_to_str p) as Ha.
  unfold parse_u64, parse_unsigned.
  destruct (N_to_str p) as [|a r] eqn:E.
  - cbn in Hd. inversion Hd; subst p. vm_compute in E. discriminate.
  - cbn [all_digits] in Ha. apply andb_true_iff in Ha. destruct Ha as [Ha _].
    destruct a as [[] [] [] [] [] [] [] []]; try (vm_compute in Ha; discriminate);
      cbv iota; rewrite Hd; change (2 ^ 64) with 18446744073709551616;
      (destruct (N.ltb_spec p 18446744073709551616); [reflexivity|lia]).
Qed.

(* ====================================================================== *)
(* 1. strings, object names                                                *)
(* ====================================================================== *)
Lemma app_inv_head_s a : forall b c, a +++ b = a +++ c -> b = c.
Proof. induction a; cbn; intros b c H; auto. inversion H. auto. Qed.

Lemma prefix_app a b : str_eqb_prefix a (a +++ b) = true.
Proof. induction a; cbn; auto. rewrite Ascii.eqb_refl. auto. Qed.

Lemma rev_acc_app s : forall acc, str_rev_acc s acc = str_rev_acc s "" +++ acc.
Proof.
  induction s as [|a s IH]; intros acc; cbn [str_rev_acc]; [reflexivity|].
  rewrite IH. rewrite (IH (String a "")). now rewrite app_assoc_s.
Qed.

Fixpoint nochar (c : ascii) (s : str) : bool :=
  match s with EmptyString => true | String a r => negb (Ascii.eqb a c) && nochar c r end.

Lemma nochar_app c a b : nochar c (a +++ b) = nochar c a && nochar c b.
Proof. induction a; cbn; auto. rewrite IHa. now rewrite andb_assoc. Qed.

Lemma split_nochar c Y : forall cur, nochar c Y = true -> split_char_acc c Y cur = [str_rev cur +++ Y].
Proof.
  induction Y as [|y Y IH]; intros cur H; cbn [split_char_acc].
  - now rewrite app_nil_r_s.
  - cbn [nochar] in H. apply andb_true_iff in H. destruct H as [H1 H2].
    apply negb_true_iff in H1. rewrite H1. rewrite IH by auto.
    unfold str_rev. cbn [str_rev_acc]. rewrite (rev_acc_app cur (String y "")).
    now rewrite app_assoc_s.
Qed.

Lemma split_acc_nonempty c s : forall cur, split_char_acc c s cur <> [].
Proof. induction s; intros cur; cbn; [discriminate|]. destruct (Ascii.eqb a c); [discriminate|auto]. Qed.

Lemma last_cons_ne {A} (x : A) l d : l <> [] -> last (x :: l) d = last l d.
Proof. destruct l; [congruence|reflexivity]. Qed.

Lemma split_last c X Y : nochar c Y = true -> forall cur,
  last (split_char_acc c (X +++ String c Y) cur) "" = Y.
Proof.
  intros HY. induction X as [|x X IH]; intros cur; cbn [String.append split_char_acc].
  - rewrite Ascii.eqb_refl. rewrite split_nochar by auto. reflexivity.
  - destruct (Ascii.eqb x c); auto.
    rewrite last_cons_ne by apply split_acc_nonempty. auto.
Qed.

Lemma split_first c X Z : nochar c X = true -> forall cur,
  split_char_acc c (X +++ String c Z) cur = (str_rev cur +++ X) :: split_char_acc c Z "".
Proof.
  induction X as [|x X IH]; intros H cur; cbn [String.append split_char_acc].
  - rewrite Ascii.eqb_refl. now rewrite app_nil_r_s.
  - cbn [nochar] in H. apply andb_true_iff in H. destruct H as [H1 H2].
    apply negb_true_iff in H1. rewrite H1. rewrite IH by auto.
    unfold str_rev. cbn [str_rev_acc]. rewrite (rev_acc_app cur (String x "")).
    now rewrite app_assoc_s.
Qed.

Lemma digits_nochar c s : is_digit c = false -> all_digits s = true -> nochar c s = true.
Proof.
  intros Hc. induction s as [|a s IH]; cbn; auto. intros H. apply andb_true_iff in H. destruct H as [H1 H2].
  rewrite IH by auto. destruct (Ascii.eqb_spec a c); [congruence|reflexivity].
Qed.

(* the listing prefix of a database (after the fix: with the trailing slash) *)
Definition dbprefix (dbn : str) : str := prefix_name +++ "/" +++ dbn +++ "/".
Definition pname (dbn : str) (p : N) : str := prefix_name +++ "/" +++ dbn +++ "/" +++ N_to_str p +++ ".nun".
Definition kname (dbn : str) : str := prefix_name +++ "/" +++ dbn +++ "/nun.keys".
Definition vname (dbn : str) : str := prefix_name +++ "/" +++ dbn +++ "/nun.values".
Definition stem_of (nm : str) : str :=
  match split_char "."%char (last (split_char "/"%char nm) "") with x :: _ => x | [] => "" end.

Lemma kname_vname dbn : kname dbn <> vname dbn.
Proof. unfold kname, vname. intros H. repeat apply app_inv_head_s in H. discriminate. Qed.

Lemma pname_prefix dbn p : starts_with (pname dbn p) (dbprefix dbn) = true.
Proof.
  unfold starts_with, pname, dbprefix.
  replace (prefix_name +++ "/" +++ dbn +++ "/" +++ N_to_str p +++ ".nun")
    with ((prefix_name +++ "/" +++ dbn +++ "/") +++ N_to_str p +++ ".nun") by now rewrite !app_assoc_s.
  apply prefix_app.
Qed.

Lemma stem_pname dbn p : stem_of (pname dbn p) = N_to_str p.
Proof.
  unfold stem_of, pname, split_char.
  replace (prefix_name +++ "/" +++ dbn +++ "/" +++ N_to_str p +++ ".nun")
    with ((prefix_name +++ "/" +++ dbn) +++ String "/" (N_to_str p +++ ".nun")) by now rewrite !app_assoc_s.
  rewrite split_last.
  - change (N_to_str p +++ ".nun") with (N_to_str p +++ String "." "nun").
    rewrite split_first; [reflexivity|].
    apply digits_nochar; [reflexivity|apply all_digits_N_to_str].
  - rewrite nochar_app. rewrite digits_nochar; [reflexivity|reflexivity|apply all_digits_N_to_str].
Qed.

Lemma N_to_str_inj p q : N_to_str p = N_to_str q -> p = q.
Proof.
  intros H. pose proof (digits_val_N_to_str p) as A. rewrite H, digits_val_N_to_str in A. congruence.
Qed.

Lemma pname_inj dbn p q : pname dbn p = pname dbn q -> p = q.
Proof.
  intros H. apply N_to_str_inj. rewrite <- (stem_pname dbn p), <- (stem_pname dbn q). now rewrite H.
Qed.

(* ====================================================================== *)
(* 2. the stub                                                             *)
(* ====================================================================== *)
Notation get := (assoc_get String.eqb).
Notation aset := (assoc_set String.eqb).

Lemma stub_put_nofault s nm d : st_putfail s = None ->
  stub_put s nm d = (mkStub (aset nm d (st_objs s)) (st_puts s + 1) (st_gets s) None (st_getfail s), true).
Proof. intros H. unfold stub_put. rewrite H. reflexivity. Qed.

Lemma stub_get_nofault s nm : st_getfail s = None ->
  stub_get s nm = (mkStub (st_objs s) (st_puts s) (st_gets s + 1) (st_putfail s) None, get nm (st_objs s)).
Proof. intros H. unfold stub_get. rewrite H. reflexivity. Qed.

Lemma stub_put_other s nm d nm' : nm' <> nm ->
  get nm' (st_objs (fst (stub_put s nm d))) = get nm' (st_objs s).
Proof.
  intros Hn. unfold stub_put. destruct (match st_putfail s with Some _ => _ | None => _ end); cbn [fst st_objs]; auto.
  apply get_set_other; auto using String.eqb_spec.
Qed.

Lemma gss k (v : value) m : get k (aset k v m) = Some v.
Proof. apply get_set_same, String.eqb_spec. Qed.
Lemma gso k k' (v : value) m : k <> k' -> get k (aset k' v m) = get k m.
Proof. intros. apply get_set_other; auto using String.eqb_spec. Qed.
Lemma ogss k (v : str) (m : objects) : get k (aset k v m) = Some v.
Proof. apply get_set_same, String.eqb_spec. Qed.
Lemma ogso k k' (v : str) (m : objects) : k <> k' -> get k (aset k' v m) = get k m.
Proof. intros. apply get_set_other; auto using String.eqb_spec. Qed.

(* ====================================================================== *)
(* 3. what a snapshot does to the in-memory map (both strategies)          *)
(* ====================================================================== *)
Definition dead (v : value) : bool := vstate_eqb (v_st v) VDeleted.

Definition ent_ok (k : str) (v : value) : Prop := str_ok k /\ str_ok (v_val v) /\ i32_range (v_ver v).
Definition mem_ok3 (m : list (string * value)) : Prop := forall (k : string) v, In (k, v) m -> ent_ok k v.

(* the entry holds v's value and version, persisted *)
Definition set_ok (v : value) (o : option value) : Prop :=
  exists mv', o = Some mv' /\ v_val mv' = v_val v /\ v_ver mv' = v_ver v /\ v_st mv' = VOk.

(* [mem'] is [mem] where every selected non-deleted key became Ok with the same value and version;
   every other entry is untouched; no key appears or disappears *)
Definition snap_mem (sel : str -> bool) (mem mem' : list (str * value)) : Prop :=
  forall k, match get k mem with
            | Some mv => if sel k && negb (dead mv) then set_ok mv (get k mem') else get k mem' = Some mv
            | None => get k mem' = None
            end.

Lemma in_aset k (v : value) m k' v' : In (k', v') (aset k v m) -> (k' = k /\ v' = v) \/ In (k', v') m.
Proof.
  induction m as [|[k2 v2] r IH]; cbn.
  - intros [E|[]]. inversion E. auto.
  - destruct (String.eqb_spec k k2) as [->|Hn]; cbn.
    + intros [E|H]; [inversion E; auto|auto].
    + intros [E|H]; [auto|]. apply IH in H. tauto.
Qed.

Section FoldSet.
Context {W : Type} (memof : W -> list (string * value)) (f : W -> string * value -> W).
Hypothesis Hf : forall w (k : string) (v : value),
  if dead v then memof (f w (k, v)) = memof w
  else exists opp a b, memof (f w (k, v)) = aset k (mkV (v_val v) (v_ver v) opp VOk a b) (memof w).

Lemma fold_set_get (L : list (string * value)) : NoDup (map fst L) -> forall w (k : string),
  (forall v, In (k, v) L ->
     if dead v then get k (memof (fold_left f L w)) = get k (memof w)
     else set_ok v (get k (memof (fold_left f L w)))) /\
  (~ In k (map fst L) -> get k (memof (fold_left f L w)) = get k (memof w)).
Proof.
  induction L as [|[k0 v0] t IH]; intros Hnd w k; cbn [fold_left].
  - split; [intros v []|reflexivity].
  - inversion Hnd as [|? ? Hnin Hnd']; subst. cbn [fst] in Hnin.
    destruct (IH Hnd' (f w (k0, v0)) k) as [IH1 IH2]. split.
    + intros v [E|Hin].
      * inversion E; subst. rewrite IH2 by assumption. pose proof (Hf w k v) as Hk.
        revert Hk. destruct (dead v); intros Hk; [now rewrite Hk|]. destruct Hk as (opp & a & b & ->).
        rewrite gss. eexists. split; [reflexivity|]. cbn. auto.
      * assert (Hne : k <> k0).
        { intros ->. apply Hnin. change k0 with (fst (k0, v)). now apply in_map. }
        specialize (IH1 v Hin). pose proof (Hf w k0 v0) as Hk.
        destruct (dead v); [|exact IH1]. rewrite IH1.
        revert Hk. destruct (dead v0); intros Hk; [now rewrite Hk|]. destruct Hk as (opp & a & b & ->). now apply gso.
    + intros Hn. cbn [map fst] in Hn. rewrite IH2 by (intros X; apply Hn; now right). pose proof (Hf w k0 v0) as Hk.
      revert Hk. destruct (dead v0); intros Hk; [now rewrite Hk|]. destruct Hk as (opp & a & b & ->). apply gso. intros ->. apply Hn. now left.
Qed.

Lemma fold_set_snap sel mem L w : NoDup (map fst L) -> memof w = mem ->
  (forall k v, In (k, v) L <-> get k mem = Some v /\ sel k = true) ->
  snap_mem sel mem (memof (fold_left f L w)).
Proof.
  intros Hnd Hw HL k. destruct (fold_set_get L Hnd w k) as [F1 F2]. rewrite Hw in *.
  destruct (get k mem) as [mv|] eqn:E.
  - destruct (sel k) eqn:S; cbn [andb].
    + assert (Hin : In (k, mv) L) by (apply HL; auto). specialize (F1 mv Hin).
      destruct (dead mv); cbn [negb]; auto.
    + apply F2. intros Hin. apply in_map_iff in Hin. destruct Hin as ([k' v'] & Ek & Hin).
      cbn in Ek. subst k'. apply HL in Hin. destruct Hin. congruence.
  - apply F2. intros Hin. apply in_map_iff in Hin. destruct Hin as ([k' v'] & Ek & Hin).
    cbn in Ek. subst k'. apply HL in Hin. destruct Hin. congruence.
Qed.

Lemma fold_set_nodup (L : list (string * value)) : forall w, NoDup (map fst (memof w)) -> NoDup (map fst (memof (fold_left f L w))).
Proof.
  induction L as [|[k v] t IH]; intros w H; cbn [fold_left]; auto. apply IH.
  pose proof (Hf w k v) as Hk. revert Hk. destruct (dead v); intros Hk; [now rewrite Hk|]. destruct Hk as (opp & a & b & ->).
  apply nodup_set; auto using String.eqb_spec.
Qed.

Lemma fold_set_ok (L : list (string * value)) : forall w, mem_ok3 L -> mem_ok3 (memof w) -> mem_ok3 (memof (fold_left f L w)).
Proof.
  induction L as [|[k v] t IH]; intros w HL H; cbn [fold_left]; auto. apply IH.
  - intros k' v' Hin. apply HL. now right.
  - pose proof (Hf w k v) as Hk. revert Hk. destruct (dead v); intros Hk; [now rewrite Hk|]. destruct Hk as (opp & a & b & ->).
    intros k' v' Hin. apply in_aset in Hin. destruct Hin as [[-> ->]|Hin]; auto.
    destruct (HL k v (or_introl eq_refl)) as (A & B & C). repeat split; cbn; try apply A; try apply B; apply C.
Qed.
End FoldSet.

Lemma snap_mem_states sel mem mem' k mv' : snap_mem sel mem mem' -> get k mem' = Some mv' ->
  exists mv, get k mem = Some mv /\ v_val mv' = v_val mv /\ v_ver mv' = v_ver mv /\
             (v_st mv' = v_st mv \/ (v_st mv' = VOk /\ sel k = true /\ dead mv = false)).
Proof.
  intros H E. specialize (H k). destruct (get k mem) as [mv|]; [|congruence].
  exists mv. split; auto. destruct (sel k); cbn [andb] in H.
  - destruct (dead mv) eqn:D; cbn [negb] in H.
    + rewrite H in E. inversion E; subst. auto.
    + destruct H as (x & Hx & A & B & C). rewrite Hx in E. inversion E; subst. auto 10.
  - rewrite H in E. inversion E; subst. auto.
Qed.

(* order_map enumerates the map *)
Lemma order_map_iff m order k v : NoDup (map fst m) -> NoDup order ->
  In (k, v) (order_map m order) <-> get k m = Some v.
Proof. intros Hm Ho. split; [now apply order_map_sound|now apply order_map_complete]. Qed.

Lemma mem_ok3_get m k v : mem_ok3 m -> get k m = Some v -> ent_ok k v.
Proof. intros H E. apply H. eapply get_in; eauto using String.eqb_spec. Qed.

(* ====================================================================== *)
(* 4. strategy s3: writer                                                  *)
(* ====================================================================== *)
Definition vrec3 (v : value) : str :=
  le_bytes 8 (slen (v_val v)) +++ v_val v +++ le_bytes 4 (status_code (v_st v)).

Fixpoint s3_recs (L : list (string * value)) (va : N) : list arec :=
  match L with
  | [] => []
  | (k, v) :: t => if dead v then s3_recs t va
                   else mkR k (v_ver v) va (v_val v) :: s3_recs t (va + (8 + slen (v_val v) + 4))
  end.
Fixpoint s3_vals (L : list (string * value)) : str :=
  match L with
  | [] => ""
  | (k, v) :: t => if dead v then s3_vals t else vrec3 v +++ s3_vals t
  end.

Lemma s3_one_eq w (k : string) v :
  s3_one w (k, v) =
  if dead v then w else
  mkS3W (sw_k w +++ krec (mkR k (v_ver v) (sw_vaddr w) (v_val v))) (sw_v w +++ vrec3 v)
        (sw_vaddr w + (8 + slen (v_val v) + 4)) (sw_kaddr w + (8 + slen k + 8 + 4))
        (aset k (mkV (v_val v) (v_ver v) (sw_clock w) VOk (sw_vaddr w) (sw_kaddr w)) (sw_mem w))
        (sw_clock w + 1).
Proof. reflexivity. Qed.

Lemma s3_one_mem w (k : string) (v : value) :
  if dead v then sw_mem (s3_one w (k, v)) = sw_mem w
  else exists opp a b, sw_mem (s3_one w (k, v)) = aset k (mkV (v_val v) (v_ver v) opp VOk a b) (sw_mem w).
Proof. rewrite s3_one_eq. destruct (dead v); [reflexivity|]. cbn [sw_mem]. eauto. Qed.

Lemma s3_fold_bufs L : forall w,
  sw_k (fold_left s3_one L w) = sw_k w +++ kcat (s3_recs L (sw_vaddr w)) /\
  sw_v (fold_left s3_one L w) = sw_v w +++ s3_vals L.
Proof.
  induction L as [|[k v] t IH]; intros w; cbn [fold_left s3_recs s3_vals kcat].
  - now rewrite !app_nil_r_s.
  - rewrite s3_one_eq. destruct (dead v); [apply IH|].
    destruct (IH (mkS3W (sw_k w +++ krec (mkR k (v_ver v) (sw_vaddr w) (v_val v))) (sw_v w +++ vrec3 v)
        (sw_vaddr w + (8 + slen (v_val v) + 4)) (sw_kaddr w + (8 + slen k + 8 + 4))
        (aset k (mkV (v_val v) (v_ver v) (sw_clock w) VOk (sw_vaddr w) (sw_kaddr w)) (sw_mem w))
        (sw_clock w + 1))) as [A B].
    rewrite A, B. cbn [sw_k sw_v sw_vaddr kcat]. now rewrite !app_assoc_s.
Qed.

Definition has_val (V : str) (va : N) (v : str) : Prop :=
  exists pre post, V = pre +++ le_bytes 8 (slen v) +++ v +++ post /\ slen pre = va.
Definition rec_ok3 (V : str) (r : arec) : Prop :=
  str_ok (r_key r) /\ str_ok (r_val r) /\ has_val V (r_va r) (r_val r) /\ i32_range (r_ver r).

Lemma slen_vrec3 v : slen (vrec3 v) = 8 + slen (v_val v) + 4.
Proof. unfold vrec3. rewrite !slen_app. unfold slen. rewrite !len_le_bytes. lia. Qed.

Lemma s3_recs_ok L : forall Vpre, mem_ok3 L ->
  Forall (rec_ok3 (Vpre +++ s3_vals L)) (s3_recs L (slen Vpre)).
Proof.
  induction L as [|[k v] t IH]; intros Vpre H; cbn [s3_recs s3_vals]; [constructor|].
  assert (Ht : mem_ok3 t) by (intros k' v' Hin; apply H; now right).
  destruct (dead v); [now apply IH|]. constructor.
  - destruct (H k v (or_introl eq_refl)) as (a & b & c).
    split; [exact a|split; [exact b|split; [|exact c]]]. cbn [r_va r_val].
    exists Vpre, (le_bytes 4 (status_code (v_st v)) +++ s3_vals t). split; [|reflexivity].
    unfold vrec3. now rewrite !app_assoc_s.
  - rewrite <- slen_vrec3, <- slen_app, <- app_assoc_s. now apply IH.
Qed.

Lemma s3_recs_keys L : forall va, map r_key (s3_recs L va) = map fst (filter (fun kv => negb (dead (snd kv))) L).
Proof.
  induction L as [|[k v] t IH]; intros va; cbn [s3_recs filter map snd]; auto.
  destruct (dead v); cbn [negb map fst r_key]; [apply IH|]. f_equal. apply IH.
Qed.

Lemma s3_recs_in L : forall va r, In r (s3_recs L va) ->
  exists v, In (r_key r, v) L /\ dead v = false /\ r_val r = v_val v /\ r_ver r = v_ver v.
Proof.
  induction L as [|[k v] t IH]; intros va r H; cbn [s3_recs] in H; [destruct H|].
  destruct (dead v) eqn:D.
  - destruct (IH _ _ H) as (v' & A & B). exists v'. split; [now right|exact B].
  - destruct H as [<-|H].
    + exists v. cbn. auto.
    + destruct (IH _ _ H) as (v' & A & B). exists v'. split; [now right|exact B].
Qed.

Lemma s3_recs_has L : forall va (k : string) v, In (k, v) L -> dead v = false ->
  exists r, In r (s3_recs L va) /\ r_key r = k /\ r_val r = v_val v /\ r_ver r = v_ver v.
Proof.
  induction L as [|[k0 v0] t IH]; intros va k v H D; [destruct H|]. cbn [s3_recs].
  destruct H as [E|H].
  - inversion E; subst. rewrite D. eexists. split; [now left|]. cbn. auto.
  - destruct (dead v0).
    + eapply IH; eauto.
    + destruct (IH (va + (8 + slen (v_val v0) + 4)) k v H D) as (r & A & B). exists r. split; [now right|exact B].
Qed.

(* ====================================================================== *)
(* 5. strategy s3: loader                                                  *)
(* ====================================================================== *)
Fixpoint load3_abs (recs : list arec) (pos : nat) (m : list (str * value)) (clk : N) : list (str * value) :=
  match recs with
  | [] => m
  | r :: t =>
      load3_abs t (pos + len (krec r))
        (aset (r_key r) (mkV (r_val r) (r_ver r) clk VOk (r_va r) (N.of_nat (pos + len (krec r)))) m)
        (clk + 1)
  end.

Lemma load3_abs_get recs : forall pos m clk k,
  (~ In k (map r_key recs) -> get k (load3_abs recs pos m clk) = get k m) /\
  (NoDup (map r_key recs) -> forall r, In r recs -> r_key r = k ->
     exists mv, get k (load3_abs recs pos m clk) = Some mv /\
                v_val mv = r_val r /\ v_ver mv = r_ver r /\ v_st mv = VOk).
Proof.
  induction recs as [|a t IH]; intros pos m clk k; cbn [load3_abs map].
  - split; [reflexivity|intros _ r []].
  - destruct (IH (pos + len (krec a))%nat
               (aset (r_key a) (mkV (r_val a) (r_ver a) clk VOk (r_va a) (N.of_nat (pos + len (krec a)))) m)
               (clk + 1) k) as [I1 I2].
    split.
    + intros Hn. rewrite I1 by (intros X; apply Hn; now right).
      apply gso. intros ->. apply Hn. now left.
    + intros Hnd r Hin Hk. inversion Hnd as [|? ? Hnin Hnd']; subst.
      destruct Hin as [->|Hin].
      * rewrite I1 by assumption. rewrite gss. eexists. split; [reflexivity|]. cbn. auto.
      * now apply I2.
Qed.

Lemma s3_load_step_rec K V st pre r post :
  K = pre +++ krec r +++ post -> l_pos st = len pre ->
  len (l_lenbuf st) = 8%nat -> len (l_verbuf st) = 4%nat -> len (l_addrbuf st) = 8%nat ->
  rec_ok3 V r -> slen V < 18446744073709551616 ->
  s3_load_step K V st =
  inl (mkL (len pre + len (krec r)) (le_bytes 8 (slen (r_val r))) (i32_bytes (r_ver r)) (le_bytes 8 (r_va r)) 0
           (aset (r_key r) (mkV (r_val r) (r_ver r) (l_clock st) VOk (r_va r) (N.of_nat (len pre + len (krec r)))) (l_map st))
           (l_clock st + 1)).
Proof.
  intros HK Hpos Hl Hv Ha (Hk & Hval & Hat & Hver) HV.
  destruct r as [k ver va v]. cbn [r_key r_ver r_va r_val] in *.
  destruct Hk as [Hku Hkl]. destruct Hval as [Hvu Hvl].
  pose proof max_alloc_lt as Hma.
  destruct Hat as (vp & vq & HVeq & Hvp).
  assert (Hva : va < 18446744073709551616).
  { rewrite HVeq in HV. rewrite !slen_app in HV. lia. }
  assert (Hp4 : (l_pos st + 8 + len k + 4 + 8)%nat = (len pre + len (krec (mkR k ver va v)))%nat).
  { rewrite len_krec. unfold rsize. cbn [r_key]. unfold slen. lia. }
  unfold krec in HK. cbn [r_key r_ver r_va r_val] in HK.
  set (A := le_bytes 8 (slen k)) in *. set (C := i32_bytes ver) in *. set (D := le_bytes 8 va) in *.
  set (E := le_bytes 8 (slen v)) in *.
  assert (LA : len A = 8%nat) by apply len_le_bytes.
  assert (LC : len C = 4%nat) by apply len_i32_bytes.
  assert (LD : len D = 8%nat) by apply len_le_bytes.
  assert (LE : len E = 8%nat) by apply len_le_bytes.
  assert (H1 : read_into K (l_pos st) (l_lenbuf st) = (A, 8%nat)).
  { rewrite <- LA. apply (read_into_exact _ _ _ pre A (k +++ C +++ D +++ post)); try lia.
    rewrite HK. now rewrite !app_assoc_s. }
  assert (H2 : read_into K (l_pos st + 8) (zeros (N.to_nat (slen k))) = (k, len k)).
  { apply (read_into_exact _ _ _ (pre +++ A) k (C +++ D +++ post)).
    - rewrite HK. now rewrite !app_assoc_s.
    - rewrite len_app. lia.
    - rewrite len_zeros. unfold slen. lia. }
  assert (H3 : read_into K (l_pos st + 8 + len k) (l_verbuf st) = (C, 4%nat)).
  { rewrite <- LC. apply (read_into_exact _ _ _ (pre +++ A +++ k) C (D +++ post)); try lia.
    - rewrite HK. now rewrite !app_assoc_s.
    - rewrite !len_app. lia. }
  assert (H4 : read_into K (l_pos st + 8 + len k + 4) (l_addrbuf st) = (D, 8%nat)).
  { rewrite <- LD. apply (read_into_exact _ _ _ (pre +++ A +++ k +++ C) D post); try lia.
    - rewrite HK. now rewrite !app_assoc_s.
    - rewrite !len_app. lia. }
  assert (H5 : read_into V (N.to_nat va) A = (E, 8%nat)).
  { rewrite <- LE. apply (read_into_exact _ _ _ vp E (v +++ vq)); try lia.
    - exact HVeq.
    - unfold slen in Hvp. lia. }
  assert (H6 : read_into V (N.to_nat va + 8) (zeros (N.to_nat (slen v))) = (v, len v)).
  { apply (read_into_exact _ _ _ (vp +++ E) v vq).
    - rewrite HVeq. now rewrite !app_assoc_s.
    - rewrite len_app. unfold slen in Hvp. lia.
    - rewrite len_zeros. unfold slen. lia. }
  unfold s3_load_step. rewrite H1. cbv iota beta. cbn [Nat.eqb].
  assert (EA : le_decode A = slen k) by (apply le_decode_8; lia).
  rewrite EA.
  destruct (N.ltb_spec max_alloc (slen k)); [lia|].
  rewrite H2. cbv iota beta. rewrite Hku. cbn [negb].
  rewrite H3. cbv iota beta. rewrite H4. cbv iota beta.
  assert (ED : le_decode D = va) by (apply le_decode_8; lia).
  rewrite ED. rewrite H5. cbv iota beta.
  assert (EE : le_decode E = slen v) by (apply le_decode_8; lia).
  rewrite EE.
  destruct (N.ltb_spec max_alloc (slen v)); [lia|].
  rewrite H6. cbv iota beta. rewrite Hvu. cbn [negb].
  unfold C. rewrite i32_decode_bytes by exact Hver.
  rewrite Hp4. reflexivity.
Qed.

Lemma s3_load_step_end K V st : l_pos st = len K ->
  s3_load_step K V st = inr (LOk (l_map st) (l_clock st)).
Proof. intros H. unfold s3_load_step. rewrite read_into_eof by lia. reflexivity. Qed.

Lemma s3_load_loop_recs V : slen V < 18446744073709551616 ->
  forall recs fuel K pre st,
  K = pre +++ kcat recs -> l_pos st = len pre ->
  len (l_lenbuf st) = 8%nat -> len (l_verbuf st) = 4%nat -> len (l_addrbuf st) = 8%nat ->
  Forall (rec_ok3 V) recs -> (length recs < fuel)%nat ->
  s3_load_loop fuel K V st =
  LOk (load3_abs recs (len pre) (l_map st) (l_clock st)) (l_clock st + N.of_nat (length recs)).
Proof.
  intros HV. induction recs as [|r t IH]; intros fuel K pre st HK Hpos Hl Hv Ha Hok Hf.
  - destruct fuel; [cbn in Hf; lia|]. cbn [s3_load_loop].
    rewrite s3_load_step_end.
    + cbn. f_equal. lia.
    + rewrite HK. cbn [kcat]. now rewrite app_nil_r_s.
  - destruct fuel; [cbn in Hf; lia|]. cbn [s3_load_loop].
    apply Forall_cons_iff in Hok. destruct Hok as [Hr Ht].
    cbn [kcat] in HK.
    rewrite (s3_load_step_rec K V st pre r (kcat t)); auto.
    rewrite (IH fuel K (pre +++ krec r)); cbn [l_pos l_lenbuf l_verbuf l_addrbuf l_kaddr l_map l_clock];
      auto using len_le_bytes, len_i32_bytes.
    + cbn [load3_abs length]. rewrite len_app. f_equal. lia.
    + now rewrite app_assoc_s.
    + now rewrite len_app.
    + cbn [length] in Hf. lia.
Qed.

(* ====================================================================== *)
(* 6. strategy s3: goals 1 and 2                                           *)
(* ====================================================================== *)
(* [m] holds exactly the non-deleted keys of [mem], with their value and version, persisted *)
Definition live_restored (mem m : list (str * value)) : Prop :=
  forall k, match get k mem with
            | Some mv => if dead mv then get k m = None else set_ok mv (get k m)
            | None => get k m = None
            end.

Definition s3_w (d : db) (order : list str) (clock : N) : s3w :=
  fold_left s3_one (keys_to_update (d_map d) order true) (mkS3W "" "" 0 0 (d_map d) clock).

Lemma s3_snapshot_nofault d dbn order reclaim s clock : st_putfail s = None ->
  s3_snapshot d dbn order reclaim s clock =
  (mkStub (aset (vname dbn) (sw_v (s3_w d order clock)) (aset (kname dbn) (sw_k (s3_w d order clock)) (st_objs s)))
          (st_puts s + 1 + 1) (st_gets s) None (st_getfail s),
   sw_mem (s3_w d order clock), sw_clock (s3_w d order clock)).
Proof.
  intros H. unfold s3_snapshot, s3_w. cbv zeta.
  rewrite (stub_put_nofault s) by exact H. cbv iota beta.
  rewrite stub_put_nofault by reflexivity. reflexivity.
Qed.

Lemma todo_all_iff m order (k : string) v : NoDup (map fst m) -> NoDup order ->
  In (k, v) (keys_to_update m order true) <-> get k m = Some v.
Proof.
  intros Hm Ho. unfold keys_to_update. rewrite filter_In. cbn [orb].
  rewrite (order_map_iff m order k v Hm Ho). tauto.
Qed.

Lemma mem_ok3_sub (m L : list (string * value)) :
  mem_ok3 m -> (forall (k : string) v, In (k, v) L -> get k m = Some v) -> mem_ok3 L.
Proof. intros H HL k v Hin. eapply mem_ok3_get; eauto. Qed.

Theorem s3_roundtrip d dbn order reclaim s clock clk0 :
  NoDup (map fst (d_map d)) -> NoDup order -> mem_ok3 (d_map d) ->
  st_putfail s = None -> st_getfail s = None ->
  forall s' mem' clk', s3_snapshot d dbn order reclaim s clock = (s', mem', clk') ->
  (* the values object is smaller than 2^64 bytes *)
  (forall data, get (vname dbn) (st_objs s') = Some data -> slen data < 18446744073709551616) ->
  exists s'' m clk'',
    s3_read_db s' dbn clk0 = (s'', LOk m clk'') /\
    live_restored (d_map d) m /\
    snap_mem (fun _ => true) (d_map d) mem' /\
    st_objs s'' = st_objs s'.
Proof.
  intros Hm Ho Hok Hpf Hgf s' mem' clk' Hsnap Hsize.
  rewrite s3_snapshot_nofault in Hsnap by auto. inversion Hsnap; subst s' mem' clk'; clear Hsnap.
  set (L := keys_to_update (d_map d) order true).
  assert (HLiff : forall (k : string) v, In (k, v) L <-> get k (d_map d) = Some v)
    by (intros; now apply todo_all_iff).
  assert (HLnd : NoDup (map fst L)) by (apply todo_nodup; auto).
  destruct (s3_fold_bufs L (mkS3W "" "" 0 0 (d_map d) clock)) as [HK HV].
  change (fold_left s3_one L (mkS3W "" "" 0 0 (d_map d) clock)) with (s3_w d order clock) in HK, HV.
  cbn [sw_k sw_v sw_vaddr String.append] in HK, HV.
  set (w := s3_w d order clock) in *.
  assert (HVlt : slen (sw_v w) < 18446744073709551616) by (apply Hsize; cbn [st_objs]; apply ogss).
  unfold s3_read_db. rewrite stub_get_nofault by exact Hgf. cbn [st_objs]. rewrite ogss.
  rewrite stub_get_nofault by reflexivity. cbn [st_objs].
  rewrite ogso by apply kname_vname. rewrite ogss.
  rewrite (s3_load_loop_recs (sw_v w) HVlt (s3_recs L 0) _ (sw_k w) ""); try reflexivity.
  2:{ exact HK. }
  2:{ rewrite HV. apply (s3_recs_ok L ""). apply (mem_ok3_sub (d_map d)); auto. intros k v. apply HLiff. }
  2:{ pose proof (length_le_ksize (s3_recs L 0)) as Hl. rewrite <- slen_kcat, <- HK in Hl. unfold slen in Hl. lia. }
  eexists _, _, _. split; [reflexivity|]. cbn [l_map l_clock st_objs String.length]. split; [|split; [|reflexivity]].
  - intros k. destruct (load3_abs_get (s3_recs L 0) 0 [] clk0 k) as [G1 G2].
    rewrite s3_recs_keys in G1, G2.
    assert (Hkeys : forall v, In k (map fst (filter (fun kv : string * value => negb (dead (snd kv))) L)) ->
                    get k (d_map d) = Some v -> dead v = false).
    { intros v Hin E. apply in_map_iff in Hin. destruct Hin as ([k' v'] & Ek & Hf). cbn in Ek. subst k'.
      apply filter_In in Hf. destruct Hf as [HinL Hd]. apply HLiff in HinL. cbn [snd] in Hd.
      rewrite E in HinL. inversion HinL; subst. now apply negb_true_iff in Hd. }
    destruct (get k (d_map d)) as [v|] eqn:E.
    + destruct (dead v) eqn:D.
      * rewrite G1; [reflexivity|]. intros Hin. specialize (Hkeys v Hin eq_refl). congruence.
      * destruct (s3_recs_has L 0 k v) as (r & Hr & Hrk & Hrv & Hrr); [now apply HLiff|exact D|].
        destruct (G2 (nodup_keys_filter _ _ HLnd) r Hr Hrk) as (mv & Hg & A & B & C).
        exists mv. rewrite Hg. repeat split; congruence.
    + rewrite G1; [reflexivity|]. intros Hin. apply in_map_iff in Hin. destruct Hin as ([k' v'] & Ek & Hf).
      cbn in Ek. subst k'. apply filter_In in Hf. destruct Hf as [HinL _]. apply HLiff in HinL. congruence.
  - apply (fold_set_snap sw_mem s3_one s3_one_mem (fun _ => true) (d_map d) L); auto.
    intros k v. rewrite HLiff. tauto.
Qed.

Theorem s3_snapshot_other_objects d dbn order reclaim s clock nm :
  nm <> kname dbn -> nm <> vname dbn ->
  get nm (st_objs (fst (fst (s3_snapshot d dbn order reclaim s clock)))) = get nm (st_objs s).
Proof.
  intros Hk Hv. unfold s3_snapshot. cbv zeta.
  set (w := fold_left s3_one _ _).
  pose proof (stub_put_other s (kname dbn) (sw_k w) nm Hk) as H1.
  fold (kname dbn). fold (vname dbn).
  destruct (stub_put s (kname dbn) (sw_k w)) as [s1 ok1]. cbn [fst] in H1.
  pose proof (stub_put_other s1 (vname dbn) (sw_v w) nm Hv) as H2.
  destruct (stub_put s1 (vname dbn) (sw_v w)) as [s2 ok2]. cbn [fst] in *. congruence.
Qed.

(* ====================================================================== *)
(* 7. strategy s3_patition: the partition object codec                     *)
(* ====================================================================== *)
Record prec := mkP { p_key : str; p_val : str; p_ver : Z }.

Definition pbytes (r : prec) : str :=
  le_bytes 8 (slen (p_key r)) +++ p_key r +++ le_bytes 8 (slen (p_val r)) +++ p_val r +++
  le_bytes 4 (status_code VOk) +++ i32_bytes (p_ver r).
Fixpoint pcat (l : list prec) : str := match l with [] => "" | r :: t => pbytes r +++ pcat t end.
Definition prec_ok (r : prec) : Prop := str_ok (p_key r) /\ str_ok (p_val r) /\ i32_range (p_ver r).

Lemma len_pbytes r : len (pbytes r) = (8 + len (p_key r) + 8 + len (p_val r) + 4 + 4)%nat.
Proof. unfold pbytes. rewrite !len_app, !len_le_bytes, len_i32_bytes. lia. Qed.

Lemma length_le_pcat l : (length l <= len (pcat l))%nat.
Proof. induction l; cbn [length pcat]; [lia|]. rewrite len_app, len_pbytes. lia. Qed.

Lemma pcat_app a b : pcat (a ++ b) = pcat a +++ pcat b.
Proof. induction a; cbn [app pcat String.append]; auto. now rewrite IHa, app_assoc_s. Qed.

Fixpoint pload_abs (p : N) (recs : list prec) (m : list (str * value)) (clk : N) : list (str * value) :=
  match recs with
  | [] => m
  | r :: t => pload_abs p t (aset (p_key r) (mkV (p_val r) (p_ver r) clk VOk p 0) m) (clk + 1)
  end.

Lemma pload_abs_get p recs : forall m clk k,
  (~ In k (map p_key recs) -> get k (pload_abs p recs m clk) = get k m) /\
  (NoDup (map p_key recs) -> forall r, In r recs -> p_key r = k ->
     exists opp, get k (pload_abs p recs m clk) = Some (mkV (p_val r) (p_ver r) opp VOk p 0)).
Proof.
  induction recs as [|a t IH]; intros m clk k; cbn [pload_abs map].
  - split; [reflexivity|intros _ r []].
  - destruct (IH (aset (p_key a) (mkV (p_val a) (p_ver a) clk VOk p 0) m) (clk + 1) k) as [I1 I2].
    split.
    + intros Hn. rewrite I1 by (intros X; apply Hn; now right).
      apply gso. intros ->. apply Hn. now left.
    + intros Hnd r Hin Hk. inversion Hnd as [|? ? Hnin Hnd']; subst.
      destruct Hin as [->|Hin].
      * rewrite I1 by assumption. rewrite gss. eauto.
      * now apply I2.
Qed.

Lemma pload_abs_nodup p recs : forall m clk, NoDup (map fst m) -> NoDup (map fst (pload_abs p recs m clk)).
Proof.
  induction recs as [|a t IH]; intros m clk H; cbn [pload_abs]; auto.
  apply IH. apply nodup_set; auto using String.eqb_spec.
Qed.

Lemma part_load_step_rec p file lb st pre r post :
  file = pre +++ pbytes r +++ post -> pl_pos st = len pre -> len lb = 8%nat -> prec_ok r ->
  part_load_step p file lb st =
  inl (mkPL (len pre + len (pbytes r)) (aset (p_key r) (mkV (p_val r) (p_ver r) (pl_clock st) VOk p 0) (pl_map st))
            (pl_clock st + 1), le_bytes 8 (slen (p_key r))).
Proof.
  intros HF Hpos Hl (Hk & Hval & Hver).
  destruct r as [k v ver]. cbn [p_key p_val p_ver] in *.
  destruct Hk as [Hku Hkl]. destruct Hval as [Hvu Hvl].
  pose proof max_alloc_lt as Hma.
  assert (Hp6 : (pl_pos st + 8 + len k + 8 + len v + 4 + 4)%nat = (len pre + len (pbytes (mkP k v ver)))%nat).
  { rewrite len_pbytes. cbn [p_key p_val]. lia. }
  unfold pbytes in HF. cbn [p_key p_val p_ver] in HF.
  set (A := le_bytes 8 (slen k)) in *. set (B := le_bytes 8 (slen v)) in *.
  set (C := le_bytes 4 (status_code VOk)) in *. set (D := i32_bytes ver) in *.
  assert (LA : len A = 8%nat) by apply len_le_bytes.
  assert (LB : len B = 8%nat) by apply len_le_bytes.
  assert (LC : len C = 4%nat) by apply len_le_bytes.
  assert (LD : len D = 4%nat) by apply len_i32_bytes.
  assert (H1 : read_into file (pl_pos st) lb = (A, 8%nat)).
  { rewrite <- LA. apply (read_into_exact _ _ _ pre A (k +++ B +++ v +++ C +++ D +++ post)); try lia.
    rewrite HF. now rewrite !app_assoc_s. }
  assert (H2 : read_into file (pl_pos st + 8) (zeros (N.to_nat (slen k))) = (k, len k)).
  { apply (read_into_exact _ _ _ (pre +++ A) k (B +++ v +++ C +++ D +++ post)).
    - rewrite HF. now rewrite !app_assoc_s.
    - rewrite len_app. lia.
    - rewrite len_zeros. unfold slen. lia. }
  assert (H3 : read_into file (pl_pos st + 8 + len k) (zeros 8) = (B, 8%nat)).
  { rewrite <- LB. apply (read_into_exact _ _ _ (pre +++ A +++ k) B (v +++ C +++ D +++ post)).
    - rewrite HF. now rewrite !app_assoc_s.
    - rewrite !len_app. lia.
    - rewrite len_zeros. lia. }
  assert (H4 : read_into file (pl_pos st + 8 + len k + 8) (zeros (N.to_nat (slen v))) = (v, len v)).
  { apply (read_into_exact _ _ _ (pre +++ A +++ k +++ B) v (C +++ D +++ post)).
    - rewrite HF. now rewrite !app_assoc_s.
    - rewrite !len_app. lia.
    - rewrite len_zeros. unfold slen. lia. }
  assert (H5 : read_into file (pl_pos st + 8 + len k + 8 + len v) (zeros 4) = (C, 4%nat)).
  { rewrite <- LC. apply (read_into_exact _ _ _ (pre +++ A +++ k +++ B +++ v) C (D +++ post)).
    - rewrite HF. now rewrite !app_assoc_s.
    - rewrite !len_app. lia.
    - rewrite len_zeros. lia. }
  assert (H6 : read_into file (pl_pos st + 8 + len k + 8 + len v + 4) (zeros 4) = (D, 4%nat)).
  { rewrite <- LD. apply (read_into_exact _ _ _ (pre +++ A +++ k +++ B +++ v +++ C) D post).
    - rewrite HF. now rewrite !app_assoc_s.
    - rewrite !len_app. lia.
    - rewrite len_zeros. lia. }
  unfold part_load_step. rewrite H1. cbv iota beta. cbn [Nat.eqb].
  assert (EA : le_decode A = slen k) by (apply le_decode_8; lia).
  rewrite EA.
  destruct (N.ltb_spec max_alloc (slen k)); [lia|].
  rewrite H2. cbv iota beta. rewrite Hku. cbn [negb].
  rewrite H3. cbv iota beta.
  assert (EB : le_decode B = slen v) by (apply le_decode_8; lia).
  rewrite EB.
  destruct (N.ltb_spec max_alloc (slen v)); [lia|].
  rewrite H4. cbv iota beta. rewrite Hvu. cbn [negb].
  rewrite H5. cbv iota beta. rewrite H6. cbv iota beta.
  unfold D. rewrite i32_decode_bytes by exact Hver.
  change (i32_decode C) with 0%Z. cbn [Z.eqb].
  rewrite Hp6. reflexivity.
Qed.

Lemma part_load_step_end p file lb st : pl_pos st = len file ->
  part_load_step p file lb st = inr (LOk (pl_map st) (pl_clock st)).
Proof. intros H. unfold part_load_step. rewrite read_into_eof by lia. reflexivity. Qed.

Lemma part_load_loop_recs p : forall recs fuel file pre lb st,
  file = pre +++ pcat recs -> pl_pos st = len pre -> len lb = 8%nat ->
  Forall prec_ok recs -> (length recs < fuel)%nat ->
  part_load_loop fuel p file lb st =
  LOk (pload_abs p recs (pl_map st) (pl_clock st)) (pl_clock st + N.of_nat (length recs)).
Proof.
  induction recs as [|r t IH]; intros fuel file pre lb st HF Hpos Hl Hok Hf.
  - destruct fuel; [cbn in Hf; lia|]. cbn [part_load_loop].
    rewrite part_load_step_end.
    + cbn. f_equal. lia.
    + rewrite HF. cbn [pcat]. now rewrite app_nil_r_s.
  - destruct fuel; [cbn in Hf; lia|]. cbn [part_load_loop].
    apply Forall_cons_iff in Hok. destruct Hok as [Hr Ht].
    cbn [pcat] in HF.
    rewrite (part_load_step_rec p file lb st pre r (pcat t)); auto.
    rewrite (IH fuel file (pre +++ pbytes r)); cbn [pl_pos pl_map pl_clock]; auto using len_le_bytes.
    + cbn [pload_abs length]. f_equal. lia.
    + now rewrite app_assoc_s.
    + now rewrite len_app.
    + cbn [length] in Hf. lia.
Qed.

(* a whole object *)
Lemma part_load_object p recs m clk : Forall prec_ok recs ->
  part_load_loop (S (len (pcat recs))) p (pcat recs) (zeros 8) (mkPL 0 m clk) =
  LOk (pload_abs p recs m clk) (clk + N.of_nat (length recs)).
Proof.
  intros H. rewrite (part_load_loop_recs p recs _ (pcat recs) "" (zeros 8) (mkPL 0 m clk)); auto.
  pose proof (length_le_pcat recs). lia.
Qed.

(* ---- the writer ---- *)
Definition live_of (L : list (string * value)) : list (string * value) :=
  filter (fun kv => negb (dead (snd kv))) L.
Definition part_recs (L : list (string * value)) : list prec :=
  map (fun kv => mkP (fst kv) (v_val (snd kv)) (v_ver (snd kv))) (live_of L).

Lemma part_one_eq p w (k : string) v :
  part_one p w (k, v) =
  if dead v then w else
  mkPW (pw_buf w +++ pbytes (mkP k (v_val v) (v_ver v)))
       (aset k (mkV (v_val v) (v_ver v) (pw_clock w) VOk p p) (pw_mem w)) (pw_clock w + 1).
Proof. reflexivity. Qed.

Lemma part_one_mem p w (k : string) (v : value) :
  if dead v then pw_mem (part_one p w (k, v)) = pw_mem w
  else exists opp a b, pw_mem (part_one p w (k, v)) = aset k (mkV (v_val v) (v_ver v) opp VOk a b) (pw_mem w).
Proof. rewrite part_one_eq. destruct (dead v); [reflexivity|]. cbn [pw_mem]. eauto. Qed.

Lemma part_fold_buf p L : forall w,
  pw_buf (fold_left (part_one p) L w) = pw_buf w +++ pcat (part_recs L).
Proof.
  unfold part_recs, live_of.
  induction L as [|[k v] t IH]; intros w; cbn [fold_left filter map pcat snd].
  - now rewrite app_nil_r_s.
  - rewrite part_one_eq. destruct (dead v); cbn [negb]; [apply IH|].
    rewrite IH. cbn [pw_buf map pcat fst snd]. now rewrite !app_assoc_s.
Qed.

Lemma part_recs_keys L : map p_key (part_recs L) = map fst (live_of L).
Proof. unfold part_recs. rewrite map_map. reflexivity. Qed.

Lemma part_recs_ok L : mem_ok3 L -> Forall prec_ok (part_recs L).
Proof.
  intros H. unfold part_recs. apply Forall_forall. intros r Hin. apply in_map_iff in Hin.
  destruct Hin as ([k v] & <- & Hin). apply filter_In in Hin. destruct Hin as [Hin _].
  exact (H k v Hin).
Qed.

Lemma part_recs_in L r : In r (part_recs L) <->
  exists v, In (p_key r, v) L /\ dead v = false /\ p_val r = v_val v /\ p_ver r = v_ver v.
Proof.
  unfold part_recs, live_of. rewrite in_map_iff. split.
  - intros ([k v] & <- & Hin). apply filter_In in Hin. destruct Hin as [Hin Hd]. cbn in *.
    exists v. apply negb_true_iff in Hd. auto.
  - intros (v & Hin & Hd & A & B). exists (p_key r, v). split.
    + destruct r; cbn in *. congruence.
    + apply filter_In. split; auto. cbn. now rewrite Hd.
Qed.

(* ====================================================================== *)
(* 8. one attempt for one partition (goal 3)                               *)
(* ====================================================================== *)
Definition part_ks (parts : list (str * N)) (p : N) (mem : list (string * value)) (o : list str)
  : list (string * value) :=
  filter (fun kv => N.eqb (part_of parts (fst kv)) p) (order_map mem o).
Definition part_w parts p mem clock o : pw := fold_left (part_one p) (part_ks parts p mem o) (mkPW "" mem clock).
Definition part_obj parts p mem o : list prec := part_recs (part_ks parts p mem o).

(* [recs] = exactly the non-deleted keys of [mem] that live in partition [p] *)
Definition recs_exact (parts : list (str * N)) (p : N) (mem : list (string * value)) (recs : list prec) : Prop :=
  NoDup (map p_key recs) /\ Forall prec_ok recs /\
  forall r, In r recs <->
    exists v, get (p_key r) mem = Some v /\ part_of parts (p_key r) = p /\ dead v = false /\
              p_val r = v_val v /\ p_ver r = v_ver v.

Lemma part_ks_iff parts p mem o (k : string) v : NoDup (map fst mem) -> NoDup o ->
  In (k, v) (part_ks parts p mem o) <-> get k mem = Some v /\ part_of parts k = p.
Proof.
  intros Hm Ho. unfold part_ks. rewrite filter_In, (order_map_iff mem o k v Hm Ho). cbn [fst].
  rewrite N.eqb_eq. tauto.
Qed.

Lemma part_ks_nodup parts p mem o : NoDup (map fst mem) -> NoDup o -> NoDup (map fst (part_ks parts p mem o)).
Proof. intros Hm Ho. apply nodup_keys_filter, order_map_nodup; auto. Qed.

Lemma part_obj_exact parts p mem o : NoDup (map fst mem) -> NoDup o -> mem_ok3 mem ->
  recs_exact parts p mem (part_obj parts p mem o).
Proof.
  intros Hm Ho Hok. unfold part_obj. split; [|split].
  - rewrite part_recs_keys. apply nodup_keys_filter, part_ks_nodup; auto.
  - apply part_recs_ok. apply (mem_ok3_sub mem); auto. intros k v H. now apply part_ks_iff in H.
  - intros r. rewrite part_recs_in. split; intros (v & H & R).
    + apply part_ks_iff in H; auto. exists v. tauto.
    + exists v. split; [|tauto]. apply part_ks_iff; tauto.
Qed.

Lemma part_attempts_nofault fuel parts p dbn mem s clock orders : st_putfail s = None ->
  part_attempts fuel parts p dbn mem s clock orders =
  (mkStub (aset (pname dbn p) (pcat (part_obj parts p mem (hd [] orders))) (st_objs s))
          (st_puts s + 1) (st_gets s) None (st_getfail s),
   pw_mem (part_w parts p mem clock (hd [] orders)), pw_clock (part_w parts p mem clock (hd [] orders)),
   tl orders, true).
Proof.
  intros H. unfold part_obj, part_w, part_ks.
  destruct fuel; cbn [part_attempts]; destruct orders as [|o os]; cbn [hd tl]; cbv zeta;
    fold (pname dbn p); rewrite stub_put_nofault by exact H; cbv iota beta;
    rewrite part_fold_buf; reflexivity.
Qed.

Lemma part_w_mem parts p mem clock o : NoDup (map fst mem) -> NoDup o ->
  snap_mem (fun k => N.eqb (part_of parts k) p) mem (pw_mem (part_w parts p mem clock o)).
Proof.
  intros Hm Ho. unfold part_w.
  apply (fold_set_snap pw_mem (part_one p) (part_one_mem p) _ mem (part_ks parts p mem o)); auto.
  - now apply part_ks_nodup.
  - intros k v. rewrite part_ks_iff, N.eqb_eq; tauto.
Qed.

(* loading an object that holds exactly the live keys of partition p *)
Lemma load_exact_get parts p mem recs m0 clk0 k : recs_exact parts p mem recs ->
  match get k mem with
  | Some mv => if negb (dead mv) && N.eqb (part_of parts k) p
               then exists opp, get k (pload_abs p recs m0 clk0) = Some (mkV (v_val mv) (v_ver mv) opp VOk p 0)
               else get k (pload_abs p recs m0 clk0) = get k m0
  | None => get k (pload_abs p recs m0 clk0) = get k m0
  end.
Proof.
  intros (Hnd & Hok & Hiff). destruct (pload_abs_get p recs m0 clk0 k) as [G1 G2].
  assert (Hkey : In k (map p_key recs) -> exists v, get k mem = Some v /\ part_of parts k = p /\ dead v = false).
  { intros Hin. apply in_map_iff in Hin. destruct Hin as (r & <- & Hr). apply Hiff in Hr.
    destruct Hr as (v & A & B & C & _). eauto. }
  destruct (get k mem) as [mv|] eqn:E.
  - destruct (dead mv) eqn:D; cbn [negb andb].
    + apply G1. intros Hin. destruct (Hkey Hin) as (v & A & B & C). congruence.
    + destruct (N.eqb_spec (part_of parts k) p) as [Hp|Hp].
      * assert (Hr : In (mkP k (v_val mv) (v_ver mv)) recs).
        { apply Hiff. exists mv. cbn. auto. }
        destruct (G2 Hnd _ Hr eq_refl) as [opp Ho]. exists opp. exact Ho.
      * apply G1. intros Hin. destruct (Hkey Hin) as (v & A & B & C). congruence.
  - apply G1. intros Hin. destruct (Hkey Hin) as (v & A & B & C). congruence.
Qed.

Theorem part_object_roundtrip parts p dbn mem s clock fuel orders :
  NoDup (map fst mem) -> mem_ok3 mem -> NoDup (hd [] orders) -> st_putfail s = None ->
  exists s1 mem1 clk1 data,
    part_attempts fuel parts p dbn mem s clock orders = (s1, mem1, clk1, tl orders, true) /\
    st_objs s1 = aset (pname dbn p) data (st_objs s) /\
    (* memory: the non-deleted keys of partition p are now Ok, nothing else changed *)
    snap_mem (fun k => N.eqb (part_of parts k) p) mem mem1 /\
    (* the object decodes, into any accumulator, to exactly the non-deleted keys of partition p *)
    forall m0 clk0, exists m' clk',
      part_load_loop (S (len data)) p data (zeros 8) (mkPL 0 m0 clk0) = LOk m' clk' /\
      forall k, match get k mem with
                | Some mv => if negb (dead mv) && N.eqb (part_of parts k) p
                             then exists opp, get k m' = Some (mkV (v_val mv) (v_ver mv) opp VOk p 0)
                             else get k m' = get k m0
                | None => get k m' = get k m0
                end.
Proof.
  intros Hm Hok Ho Hpf. rewrite part_attempts_nofault by exact Hpf.
  eexists _, _, _, _. split; [reflexivity|]. cbn [st_objs]. split; [reflexivity|].
  split; [now apply part_w_mem|].
  intros m0 clk0. pose proof (part_obj_exact parts p mem (hd [] orders) Hm Ho Hok) as Hex.
  rewrite part_load_object by apply Hex.
  eexists _, _. split; [reflexivity|]. intros k. now apply load_exact_get.
Qed.

(* ====================================================================== *)
(* 9. snap_mem algebra                                                     *)
(* ====================================================================== *)
Lemma set_ok_live (v x : value) : v_st x = VOk -> dead x = false.
Proof. unfold dead. now intros ->. Qed.

Lemma snap_mem_compose s1 s2 a b c :
  snap_mem s1 a b -> snap_mem s2 b c -> snap_mem (fun k => s1 k || s2 k) a c.
Proof.
  intros H1 H2 k. specialize (H1 k). specialize (H2 k). destruct (get k a) as [mv|].
  - destruct (s1 k) eqn:S1; cbn [andb orb] in *.
    + destruct (dead mv) eqn:D; cbn [negb] in *.
      * rewrite H1 in H2. rewrite D, andb_false_r in H2. exact H2.
      * destruct H1 as (x & Hx & A & B & C). rewrite Hx in H2.
        rewrite (set_ok_live mv x C) in H2. cbn [negb] in H2. rewrite andb_true_r in H2.
        destruct (s2 k).
        -- destruct H2 as (y & Hy & A' & B' & C'). exists y. repeat split; congruence.
        -- exists x. auto.
    + rewrite H1 in H2. exact H2.
  - rewrite H1 in H2. exact H2.
Qed.

Lemma snap_mem_ext s1 s2 a b : (forall k, s1 k = s2 k) -> snap_mem s1 a b -> snap_mem s2 a b.
Proof. intros E H k. specialize (H k). now rewrite <- E. Qed.

Lemma snap_mem_none a : snap_mem (fun _ => false) a a.
Proof. intros k. destruct (get k a); reflexivity. Qed.

Lemma snap_mem_live sel a b k val ver : snap_mem sel a b ->
  (exists v, get k a = Some v /\ dead v = false /\ val = v_val v /\ ver = v_ver v) <->
  (exists v, get k b = Some v /\ dead v = false /\ val = v_val v /\ ver = v_ver v).
Proof.
  intros H. specialize (H k). destruct (get k a) as [mv|] eqn:E.
  - destruct (sel k && negb (dead mv)) eqn:S.
    + destruct H as (x & Hx & A & B & C). apply andb_true_iff in S. destruct S as [_ S].
      apply negb_true_iff in S. pose proof (set_ok_live mv x C) as Dx. split.
      * intros (v & Ev & D & -> & ->). inversion Ev; subst. exists x. auto.
      * intros (v & Ev & D & -> & ->). rewrite Hx in Ev. inversion Ev; subst. exists mv. auto.
    + rewrite H. tauto.
  - rewrite H. split; intros (v & Ev & _); discriminate.
Qed.

Lemma recs_exact_snap parts p sel a b recs : snap_mem sel a b ->
  recs_exact parts p a recs <-> recs_exact parts p b recs.
Proof.
  intros H.
  assert (X : forall r, (exists v, get (p_key r) a = Some v /\ part_of parts (p_key r) = p /\ dead v = false /\
                                   p_val r = v_val v /\ p_ver r = v_ver v) <->
                        (exists v, get (p_key r) b = Some v /\ part_of parts (p_key r) = p /\ dead v = false /\
                                   p_val r = v_val v /\ p_ver r = v_ver v)).
  { intros r. pose proof (snap_mem_live sel a b (p_key r) (p_val r) (p_ver r) H) as [L R]. split.
    - intros (v & A & B & C & D & E). destruct L as (v' & A' & C' & D' & E'); [eauto|]. exists v'. auto.
    - intros (v & A & B & C & D & E). destruct R as (v' & A' & C' & D' & E'); [eauto|]. exists v'. auto. }
  unfold recs_exact. split; intros (A & B & C); (split; [exact A|split; [exact B|]]); intros r;
    rewrite C; [apply X|symmetry; apply X].
Qed.

(* ====================================================================== *)
(* 10. PUT faults and retries                                              *)
(* ====================================================================== *)
(* no PUT will fail any more *)
Definition quiet (s : stub) : Prop :=
  match st_putfail s with None => True | Some (n, al) => al = false /\ n <= st_puts s end.
(* at most one PUT fails, and the retry budget covers it *)
Definition tol (retry : nat) (s : stub) : Prop :=
  quiet s \/ ((1 <= retry)%nat /\ exists n, st_putfail s = Some (n, false)).

Lemma stub_put_quiet s nm d : quiet s ->
  stub_put s nm d = (mkStub (aset nm d (st_objs s)) (st_puts s + 1) (st_gets s) (st_putfail s) (st_getfail s), true).
Proof.
  unfold quiet, stub_put. destruct (st_putfail s) as [[n al]|]; [|reflexivity].
  intros [-> Hn]. destruct (N.eqb_spec n (st_puts s + 1)); [lia|reflexivity].
Qed.

Lemma stub_put_cases s nm d n : st_putfail s = Some (n, false) ->
  stub_put s nm d = (mkStub (aset nm d (st_objs s)) (st_puts s + 1) (st_gets s) (st_putfail s) (st_getfail s), true) \/
  (stub_put s nm d = (mkStub (st_objs s) (st_puts s + 1) (st_gets s) (st_putfail s) (st_getfail s), false) /\
   quiet (mkStub (st_objs s) (st_puts s + 1) (st_gets s) (st_putfail s) (st_getfail s))).
Proof.
  intros H. unfold stub_put, quiet. cbn [st_putfail st_puts]. rewrite H.
  destruct (N.eqb_spec n (st_puts s + 1)); [right|left]; auto. split; auto. split; auto. lia.
Qed.

Lemma part_attempts_step fuel parts p dbn mem s clock orders :
  part_attempts fuel parts p dbn mem s clock orders =
  let w := part_w parts p mem clock (hd [] orders) in
  let '(s1, ok) := stub_put s (pname dbn p) (pcat (part_obj parts p mem (hd [] orders))) in
  if ok then (s1, pw_mem w, pw_clock w, tl orders, true)
  else match fuel with
       | O => (s1, pw_mem w, pw_clock w, tl orders, false)
       | S f => part_attempts f parts p dbn (pw_mem w) s1 (pw_clock w) (tl orders)
       end.
Proof.
  unfold part_obj, part_w, part_ks.
  destruct fuel; cbn [part_attempts]; destruct orders as [|o os]; cbn [hd tl]; cbv zeta;
    rewrite part_fold_buf; reflexivity.
Qed.

Definition psel (parts : list (str * N)) (p : N) : str -> bool := fun k => N.eqb (part_of parts k) p.

(* what a successful write of partition p establishes *)
Definition AttPost parts p dbn (mem : list (string * value)) (objs : objects) mem1 (objs1 : objects) : Prop :=
  exists recs, objs1 = aset (pname dbn p) (pcat recs) objs /\ recs_exact parts p mem recs /\
               snap_mem (psel parts p) mem mem1 /\ NoDup (map fst mem1) /\ mem_ok3 mem1.

Lemma part_w_good parts p mem clock o : NoDup (map fst mem) -> mem_ok3 mem -> NoDup o ->
  NoDup (map fst (pw_mem (part_w parts p mem clock o))) /\ mem_ok3 (pw_mem (part_w parts p mem clock o)).
Proof.
  intros Hm Hok Ho. unfold part_w. split.
  - apply (fold_set_nodup pw_mem (part_one p) (part_one_mem p)). exact Hm.
  - apply (fold_set_ok pw_mem (part_one p) (part_one_mem p)); auto.
    apply (mem_ok3_sub mem); auto. intros k v H. now apply part_ks_iff in H.
Qed.

Lemma hd_nodup (orders : list (list str)) : Forall (@NoDup str) orders -> NoDup (hd [] orders).
Proof. destruct orders; cbn; [constructor|]. now inversion 1. Qed.
Lemma tl_nodup (orders : list (list str)) : Forall (@NoDup str) orders -> Forall (@NoDup str) (tl orders).
Proof. destruct orders; cbn; auto. now inversion 1. Qed.

Lemma part_attempts_tol fuel parts p dbn mem s clock orders :
  tol fuel s -> NoDup (map fst mem) -> mem_ok3 mem -> Forall (@NoDup str) orders ->
  exists s1 mem1 clk1 os1,
    part_attempts fuel parts p dbn mem s clock orders = (s1, mem1, clk1, os1, true) /\
    AttPost parts p dbn mem (st_objs s) mem1 (st_objs s1) /\
    st_putfail s1 = st_putfail s /\ st_puts s <= st_puts s1 /\ st_getfail s1 = st_getfail s /\
    st_gets s1 = st_gets s /\ Forall (@NoDup str) os1.
Proof.
  intros Htol Hm Hok Hos.
  pose proof (hd_nodup _ Hos) as Ho. pose proof (tl_nodup _ Hos) as Hos'.
  pose proof (part_w_good parts p mem clock (hd [] orders) Hm Hok Ho) as [Hm1 Hok1].
  pose proof (part_w_mem parts p mem clock (hd [] orders) Hm Ho) as Hsn.
  pose proof (part_obj_exact parts p mem (hd [] orders) Hm Ho Hok) as Hex.
  assert (Hgood : forall s1, 
     s1 = mkStub (aset (pname dbn p) (pcat (part_obj parts p mem (hd [] orders))) (st_objs s))
                 (st_puts s + 1) (st_gets s) (st_putfail s) (st_getfail s) ->
     AttPost parts p dbn mem (st_objs s) (pw_mem (part_w parts p mem clock (hd [] orders))) (st_objs s1) /\
     st_putfail s1 = st_putfail s /\ st_puts s <= st_puts s1 /\ st_getfail s1 = st_getfail s /\
     st_gets s1 = st_gets s /\ Forall (@NoDup str) (tl orders)).
  { intros s1 ->. cbn [st_objs st_putfail st_puts st_getfail st_gets]. split; [|repeat split; auto; lia].
    exists (part_obj parts p mem (hd [] orders)). auto. }
  rewrite part_attempts_step. cbv zeta.
  destruct Htol as [Hq|(Hf & n & Hn)].
  - rewrite stub_put_quiet by exact Hq. eexists _, _, _, _. split; [reflexivity|]. now apply Hgood.
  - destruct (stub_put_cases s (pname dbn p) (pcat (part_obj parts p mem (hd [] orders))) n Hn) as [E|[E Hq]];
      rewrite E.
    + eexists _, _, _, _. split; [reflexivity|]. now apply Hgood.
    + destruct fuel as [|f]; [lia|].
      set (mem1 := pw_mem (part_w parts p mem clock (hd [] orders))) in *.
      set (clk1 := pw_clock (part_w parts p mem clock (hd [] orders))).
      pose proof (hd_nodup _ Hos') as Ho2.
      pose proof (part_w_good parts p mem1 clk1 (hd [] (tl orders)) Hm1 Hok1 Ho2) as [Hm2 Hok2].
      pose proof (part_w_mem parts p mem1 clk1 (hd [] (tl orders)) Hm1 Ho2) as Hsn2.
      pose proof (part_obj_exact parts p mem1 (hd [] (tl orders)) Hm1 Ho2 Hok1) as Hex2.
      rewrite part_attempts_step. cbv zeta. rewrite stub_put_quiet by exact Hq.
      eexists _, _, _, _. split; [reflexivity|].
      cbn [st_objs st_putfail st_puts st_getfail st_gets]. split; [|repeat split; auto using tl_nodup; lia].
      exists (part_obj parts p mem1 (hd [] (tl orders))). split; [reflexivity|]. split; [|split; [|split]]; auto.
      * apply (recs_exact_snap parts p _ mem mem1 _ Hsn). exact Hex2.
      * eapply snap_mem_ext; [|eapply snap_mem_compose; [exact Hsn|exact Hsn2]].
        intros k. cbv beta. apply orb_diag.
Qed.

(* every PUT fails: one partition *)
Lemma part_attempts_allfail fuel parts p dbn : forall mem s clock orders n,
  st_putfail s = Some (n, true) -> n <= st_puts s + 1 ->
  exists s1 mem1 clk1 os1,
    part_attempts fuel parts p dbn mem s clock orders = (s1, mem1, clk1, os1, false) /\
    st_objs s1 = st_objs s.
Proof.
  induction fuel as [|f IH]; intros mem s clock orders n Hn Hle; rewrite part_attempts_step; cbv zeta;
    unfold stub_put at 1; rewrite Hn; (destruct (N.leb_spec n (st_puts s + 1)); [|lia]).
  - eexists _, _, _, _. split; reflexivity.
  - edestruct (IH (pw_mem (part_w parts p mem clock (hd [] orders)))
                  (mkStub (st_objs s) (st_puts s + 1) (st_gets s) (Some (n, true)) (st_getfail s))
                  (pw_clock (part_w parts p mem clock (hd [] orders))) (tl orders) n) as (s1 & m1 & c1 & o1 & E & O).
    + reflexivity.
    + cbn [st_puts]. lia.
    + rewrite E. eexists _, _, _, _. split; [reflexivity|]. exact O.
Qed.

(* ====================================================================== *)
(* 11. a whole partition snapshot                                          *)
(* ====================================================================== *)
Definition pssel (parts : list (str * N)) (ps : list N) : str -> bool :=
  fun k => existsb (N.eqb (part_of parts k)) ps.

(* what a successful snapshot of the partitions [ps] establishes: every written object holds exactly
   the non-deleted keys of its partition, no other object changes, the non-deleted keys of the
   written partitions are Ok in memory and nothing else changes in memory *)
Definition GoPost parts dbn (ps : list N) (mem : list (string * value)) (objs : objects) mem' (objs' : objects) : Prop :=
  (exists dec : N -> list prec,
     forall p, In p ps -> get (pname dbn p) objs' = Some (pcat (dec p)) /\ recs_exact parts p mem (dec p)) /\
  (forall nm, (forall p, In p ps -> nm <> pname dbn p) -> get nm objs' = get nm objs) /\
  (forall nm, In nm (map fst objs') -> In nm (map fst objs) \/ exists p, In p ps /\ nm = pname dbn p) /\
  snap_mem (pssel parts ps) mem mem' /\ NoDup (map fst mem') /\ mem_ok3 mem'.

Lemma in_keys_aset {B} k (v : B) l x : In x (map fst (assoc_set String.eqb k v l)) -> x = k \/ In x (map fst l).
Proof.
  induction l as [|[k' v'] r IH]; cbn.
  - intros [E|[]]; auto.
  - destruct (String.eqb k k'); cbn; intuition.
Qed.

Lemma tol_mono retry s s1 : tol retry s -> st_putfail s1 = st_putfail s -> st_puts s <= st_puts s1 -> tol retry s1.
Proof.
  intros [Hq|(Hr & n & Hn)] Hpf Hpu.
  - left. unfold quiet in *. rewrite Hpf. destruct (st_putfail s) as [[m al]|]; auto. destruct Hq. split; auto. lia.
  - right. split; auto. exists n. congruence.
Qed.

Lemma part_go_tol retry parts dbn : forall ps mem s clock orders,
  tol retry s -> NoDup (map fst mem) -> mem_ok3 mem -> Forall (@NoDup str) orders ->
  exists s' mem' clk' os',
    part_snapshot_go retry parts ps dbn mem s clock orders = (s', mem', clk', os', true) /\
    GoPost parts dbn ps mem (st_objs s) mem' (st_objs s') /\
    st_putfail s' = st_putfail s /\ st_puts s <= st_puts s' /\ st_getfail s' = st_getfail s /\
    st_gets s' = st_gets s.
Proof.
  induction ps as [|p rest IH]; intros mem s clock orders Htol Hm Hok Hos; cbn [part_snapshot_go].
  - eexists _, _, _, _. split; [reflexivity|]. split; [|repeat split; auto; lia].
    split; [exists (fun _ => []); intros p []|]. split; [reflexivity|]. split; [auto|]. split; [|auto].
    apply (snap_mem_ext (fun _ => false)); [reflexivity|apply snap_mem_none].
  - destruct (part_attempts_tol retry parts p dbn mem s clock orders Htol Hm Hok Hos)
      as (s1 & mem1 & clk1 & os1 & E & (recs & Eo & Hex & Hsn & Hm1 & Hok1) & Hpf & Hpu & Hgf & Hge & Hos1).
    rewrite E. cbv iota beta.
    destruct (IH mem1 s1 clk1 os1 (tol_mono _ _ _ Htol Hpf Hpu) Hm1 Hok1 Hos1)
      as (s' & mem' & clk' & os' & E' & ((decr & G1) & G2 & G3 & G4 & G5 & G6) & Hpf' & Hpu' & Hgf' & Hge').
    rewrite E'. eexists _, _, _, _. split; [reflexivity|].
    split; [|repeat split; try congruence; lia].
    split; [|split; [|split; [|split; [|split]]]]; auto.
    + exists (fun q => if in_dec N.eq_dec q rest then decr q else recs).
      intros q Hq. destruct (in_dec N.eq_dec q rest) as [Hin|Hnin].
      * destruct (G1 q Hin) as (A & B). split; auto.
        now apply (recs_exact_snap parts q _ mem mem1 _ Hsn).
      * destruct Hq as [<-|Hq]; [|contradiction]. split; auto.
        rewrite G2; [rewrite Eo; apply ogss|].
        intros q Hq Heq. apply pname_inj in Heq. congruence.
    + intros nm Hnm. rewrite G2 by (intros q Hq; apply Hnm; now right).
      rewrite Eo. apply ogso. apply Hnm. now left.
    + intros nm Hin. destruct (G3 nm Hin) as [H|(q & Hq & ->)].
      * rewrite Eo in H. apply in_keys_aset in H. destruct H as [->|H]; auto. right. exists p. split; auto. now left.
      * right. exists q. split; auto. now right.
    + eapply snap_mem_ext; [|eapply snap_mem_compose; [exact Hsn|exact G4]]. reflexivity.
Qed.

Definition snap_ps (parts : list (str * N)) (m : list (string * value)) (order0 : list str) (reclaim : bool) : list N :=
  fold_left (fun acc kv => insert_N (part_of parts (fst kv)) acc) (keys_to_update m order0 reclaim) [].

Lemma part_snapshot_eq retry parts d dbn order0 reclaim s clock orders :
  part_snapshot retry parts d dbn order0 reclaim s clock orders =
  part_snapshot_go retry parts (snap_ps parts (d_map d) order0 reclaim) dbn (d_map d) s clock orders.
Proof. reflexivity. Qed.

Lemma insert_N_in x y l : In x (insert_N y l) <-> x = y \/ In x l.
Proof.
  induction l as [|a l IH]; cbn [insert_N].
  - cbn. intuition.
  - destruct (N.ltb y a); [cbn; intuition|].
    destruct (N.eqb_spec y a) as [->|Hn]; [cbn; intuition|].
    cbn [In]. rewrite IH. intuition.
Qed.

Lemma fold_insert_in parts (L : list (string * value)) : forall acc x,
  In x (fold_left (fun acc kv => insert_N (part_of parts (fst kv)) acc) L acc) <->
  In x acc \/ exists kv, In kv L /\ part_of parts (fst kv) = x.
Proof.
  induction L as [|a L IH]; intros acc x; cbn [fold_left].
  - split; [auto|]. intros [H|(kv & [] & _)]; auto.
  - rewrite IH, insert_N_in. split.
    + intros [[->|H]|(kv & H & E)]; auto.
      * right. exists a. split; [now left|reflexivity].
      * right. exists kv. split; [now right|auto].
    + intros [H|(kv & [<-|H] & E)]; auto.
      right. exists kv. auto.
Qed.

Lemma snap_ps_in parts m order0 reclaim p :
  In p (snap_ps parts m order0 reclaim) <->
  exists (k : string) v, In (k, v) (keys_to_update m order0 reclaim) /\ part_of parts k = p.
Proof.
  unfold snap_ps. rewrite fold_insert_in. split.
  - intros [[]|([k v] & H & E)]. exists k, v. auto.
  - intros (k & v & H & E). right. exists (k, v). auto.
Qed.

Theorem part_snapshot_tol retry parts d dbn order0 reclaim s clock orders :
  tol retry s -> NoDup (map fst (d_map d)) -> mem_ok3 (d_map d) -> Forall (@NoDup str) orders ->
  exists s' mem' clk' os',
    part_snapshot retry parts d dbn order0 reclaim s clock orders = (s', mem', clk', os', true) /\
    GoPost parts dbn (snap_ps parts (d_map d) order0 reclaim) (d_map d) (st_objs s) mem' (st_objs s') /\
    st_putfail s' = st_putfail s /\ st_getfail s' = st_getfail s.
Proof.
  intros Ht Hm Hok Hos. rewrite part_snapshot_eq.
  destruct (part_go_tol retry parts dbn (snap_ps parts (d_map d) order0 reclaim) (d_map d) s clock orders Ht Hm Hok Hos)
    as (s' & mem' & clk' & os' & E & G & A & _ & B & _).
  eexists _, _, _, _. eauto.
Qed.

(* goal 6: a single PUT failure is absorbed by the retry: the snapshot succeeds and establishes
   exactly what the fault-free snapshot establishes ([part_snapshot_nofault] below) *)
Theorem part_put_fault_once_retried retry parts d dbn order0 reclaim s clock orders n :
  (1 <= retry)%nat -> st_putfail s = Some (n, false) ->
  NoDup (map fst (d_map d)) -> mem_ok3 (d_map d) -> Forall (@NoDup str) orders ->
  exists s' mem' clk' os',
    part_snapshot retry parts d dbn order0 reclaim s clock orders = (s', mem', clk', os', true) /\
    GoPost parts dbn (snap_ps parts (d_map d) order0 reclaim) (d_map d) (st_objs s) mem' (st_objs s').
Proof.
  intros Hr Hn Hm Hok Hos.
  destruct (part_snapshot_tol retry parts d dbn order0 reclaim s clock orders) as (s' & mem' & clk' & os' & E & G & _); auto.
  - right. eauto.
  - eexists _, _, _, _. eauto.
Qed.

Theorem part_snapshot_nofault retry parts d dbn order0 reclaim s clock orders :
  st_putfail s = None ->
  NoDup (map fst (d_map d)) -> mem_ok3 (d_map d) -> Forall (@NoDup str) orders ->
  exists s' mem' clk' os',
    part_snapshot retry parts d dbn order0 reclaim s clock orders = (s', mem', clk', os', true) /\
    GoPost parts dbn (snap_ps parts (d_map d) order0 reclaim) (d_map d) (st_objs s) mem' (st_objs s') /\
    st_putfail s' = None /\ st_getfail s' = st_getfail s.
Proof.
  intros Hn Hm Hok Hos.
  destruct (part_snapshot_tol retry parts d dbn order0 reclaim s clock orders) as (s' & mem' & clk' & os' & E & G & A & B); auto.
  - left. unfold quiet. now rewrite Hn.
  - eexists _, _, _, _. split; [exact E|split; [exact G|split; [congruence|exact B]]].
Qed.

(* goal 6: every PUT fails: the snapshot reports the failure (the implementation panics) and the
   store is unchanged *)
Theorem part_put_fault_reported retry parts d dbn order0 reclaim s clock orders n :
  st_putfail s = Some (n, true) -> n <= st_puts s + 1 ->
  keys_to_update (d_map d) order0 reclaim <> [] ->
  exists s' mem' clk' os',
    part_snapshot retry parts d dbn order0 reclaim s clock orders = (s', mem', clk', os', false) /\
    st_objs s' = st_objs s.
Proof.
  intros Hn Hle Hne. rewrite part_snapshot_eq.
  destruct (snap_ps parts (d_map d) order0 reclaim) as [|p rest] eqn:Eps.
  - exfalso. destruct (keys_to_update (d_map d) order0 reclaim) as [|[k v] t] eqn:Ek; [congruence|].
    assert (Hin : In (part_of parts k) (snap_ps parts (d_map d) order0 reclaim)).
    { apply snap_ps_in. exists k, v. rewrite Ek. split; [now left|reflexivity]. }
    rewrite Eps in Hin. destruct Hin.
  - cbn [part_snapshot_go].
    destruct (part_attempts_allfail retry parts p dbn (d_map d) s clock orders n Hn Hle) as (s1 & m1 & c1 & o1 & E & O).
    rewrite E. eexists _, _, _, _. split; [reflexivity|exact O].
Qed.

(* ====================================================================== *)
(* 12. reading a partitioned database: GET faults and retries               *)
(* ====================================================================== *)
(* no GET will fail any more *)
Definition getq (s : stub) : Prop := match st_getfail s with None => True | Some n => n <= st_gets s end.
(* either no GET fails any more, or the (single) failure is covered by a retry *)
Definition gtol (retry : nat) (s : stub) : Prop := getq s \/ (1 <= retry)%nat.

Definition gframe (s s' : stub) : Prop :=
  st_objs s' = st_objs s /\ st_getfail s' = st_getfail s /\ st_gets s < st_gets s' /\
  st_putfail s' = st_putfail s /\ st_puts s' = st_puts s.

Lemma getq_mono s s' : getq s -> st_getfail s' = st_getfail s -> st_gets s <= st_gets s' -> getq s'.
Proof. unfold getq. intros H -> Hle. destruct (st_getfail s); auto. lia. Qed.

Lemma stub_get_frame s nm : gframe s (fst (stub_get s nm)).
Proof.
  unfold stub_get, gframe. destruct (st_getfail s) as [n|]; [destruct (N.eqb n (st_gets s + 1))|];
    cbn [fst st_objs st_getfail st_gets st_putfail st_puts]; repeat split; auto; lia.
Qed.

Lemma gframe_trans a b c : gframe a b -> gframe b c -> gframe a c.
Proof. unfold gframe. intros (A1 & A2 & A3 & A4 & A5) (B1 & B2 & B3 & B4 & B5). repeat split; try congruence. lia. Qed.

Lemma stub_get_quiet s nm : getq s -> snd (stub_get s nm) = get nm (st_objs s).
Proof.
  unfold getq, stub_get. destruct (st_getfail s) as [n|]; [|reflexivity].
  intros H. destruct (N.eqb_spec n (st_gets s + 1)); [lia|reflexivity].
Qed.

Lemma stub_get_cases s nm : snd (stub_get s nm) = get nm (st_objs s) \/
  (snd (stub_get s nm) = None /\ getq (fst (stub_get s nm))).
Proof.
  unfold stub_get, getq. destruct (st_getfail s) as [n|] eqn:E; [|now left].
  destruct (N.eqb_spec n (st_gets s + 1)); [right|now left].
  cbn [fst snd st_getfail st_gets]. split; auto. lia.
Qed.

Lemma get_retry_none nm : forall fuel s, get nm (st_objs s) = None ->
  snd (part_get_retry fuel s nm) = None /\ gframe s (fst (part_get_retry fuel s nm)).
Proof.
  induction fuel as [|f IH]; intros s Hn; cbn [part_get_retry];
    pose proof (stub_get_frame s nm) as Hf;
    destruct (stub_get_cases s nm) as [E|[E _]]; destruct (stub_get s nm) as [s1 r]; cbn [fst snd] in *;
    rewrite E, ?Hn; cbn [fst snd]; auto.
  - destruct (IH s1) as [A B]; [destruct Hf as (-> & _); exact Hn|].
    destruct (part_get_retry f s1 nm) as [s2 r2]. cbn [fst snd] in *. split; auto. eapply gframe_trans; eauto.
  - destruct (IH s1) as [A B]; [destruct Hf as (-> & _); exact Hn|].
    destruct (part_get_retry f s1 nm) as [s2 r2]. cbn [fst snd] in *. split; auto. eapply gframe_trans; eauto.
Qed.

Lemma get_retry_quiet nm : forall fuel s, getq s ->
  snd (part_get_retry fuel s nm) = get nm (st_objs s) /\ gframe s (fst (part_get_retry fuel s nm)).
Proof.
  intros fuel s Hq. destruct (get nm (st_objs s)) as [d|] eqn:E; [|now apply get_retry_none].
  pose proof (stub_get_frame s nm) as Hf. pose proof (stub_get_quiet s nm Hq) as Hg.
  destruct fuel; cbn [part_get_retry]; destruct (stub_get s nm) as [s1 r]; cbn [fst snd] in *;
    rewrite Hg, E; cbn [fst snd]; auto.
Qed.

Lemma get_retry_tol nm fuel s : gtol fuel s ->
  snd (part_get_retry fuel s nm) = get nm (st_objs s) /\ gframe s (fst (part_get_retry fuel s nm)).
Proof.
  intros [Hq|Hr]; [now apply get_retry_quiet|].
  destruct (get nm (st_objs s)) as [d|] eqn:E; [|now apply get_retry_none].
  destruct fuel as [|f]; [lia|]. cbn [part_get_retry].
  pose proof (stub_get_frame s nm) as Hf.
  destruct (stub_get_cases s nm) as [Eg|[Eg Hq]]; destruct (stub_get s nm) as [s1 r]; cbn [fst snd] in *; rewrite Eg.
  - rewrite E. cbn [fst snd]. auto.
  - destruct (get_retry_quiet nm f s1 Hq) as [A B].
    destruct (part_get_retry f s1 nm) as [s2 r2]. cbn [fst snd] in *.
    pose proof Hf as (Ho & _). rewrite Ho in A. split; [congruence|].
    eapply gframe_trans; [exact Hf|exact B].
Qed.

Lemma gtol_frame retry s s' : gtol retry s -> gframe s s' -> gtol retry s'.
Proof.
  intros [Hq|Hr] (A & B & C & D); [left|now right]. eapply getq_mono; eauto. lia.
Qed.

(* the body of the loop of part_read_db, and its store-independent part *)
Definition read_step (retry : nat) (dbn : str) (acc : stub * pres) (stem : str) : stub * pres :=
  let '(s0, r) := acc in
  match r with
  | PLoaded m clk =>
      let '(s1, got) := part_get_retry retry s0 (prefix_name +++ "/" +++ dbn +++ "/" +++ stem +++ ".nun") in
      match got with
      | None => (s1, PFail)
      | Some data =>
          match parse_u64 stem with
          | None => (s1, PPanicked)
          | Some p =>
              match part_load_loop (S (String.length data)) p data (zeros 8) (mkPL 0 m clk) with
              | LOk m' clk' => (s1, PLoaded m' clk')
              | LPanic => (s1, PPanicked)
              end
          end
      end
  | _ => acc
  end.

Definition read_pure (dbn : str) (objs : objects) (r : pres) (stem : str) : pres :=
  match r with
  | PLoaded m clk =>
      match get (prefix_name +++ "/" +++ dbn +++ "/" +++ stem +++ ".nun") objs with
      | None => PFail
      | Some data =>
          match parse_u64 stem with
          | None => PPanicked
          | Some p =>
              match part_load_loop (S (String.length data)) p data (zeros 8) (mkPL 0 m clk) with
              | LOk m' clk' => PLoaded m' clk'
              | LPanic => PPanicked
              end
          end
      end
  | _ => r
  end.

Lemma part_read_db_eq retry s dbn clock :
  part_read_db retry s dbn clock =
  fold_left (read_step retry dbn) (map stem_of (stub_list s (dbprefix dbn))) (s, PLoaded [] clock).
Proof. reflexivity. Qed.

Definition gframe0 (s s' : stub) : Prop :=
  st_objs s' = st_objs s /\ st_getfail s' = st_getfail s /\ st_gets s <= st_gets s' /\
  st_putfail s' = st_putfail s /\ st_puts s' = st_puts s.

Lemma read_step_pure retry dbn s r stem : gtol retry s ->
  snd (read_step retry dbn (s, r) stem) = read_pure dbn (st_objs s) r stem /\
  gframe0 s (fst (read_step retry dbn (s, r) stem)).
Proof.
  intros Ht. unfold read_step, read_pure.
  destruct r as [m clk| |]; cbn [fst snd]; try (split; [reflexivity|unfold gframe0; repeat split; auto; lia]).
  destruct (get_retry_tol (prefix_name +++ "/" +++ dbn +++ "/" +++ stem +++ ".nun") retry s Ht) as [A (B1 & B2 & B3 & B4 & B5)].
  destruct (part_get_retry retry s _) as [s1 got]. cbn [fst snd] in *. rewrite <- A.
  assert (F : gframe0 s s1) by (unfold gframe0; repeat split; auto; lia).
  destruct got as [data|]; [|now split].
  destruct (parse_u64 stem); [|now split].
  destruct (part_load_loop _ _ _ _ _); now split.
Qed.

Lemma read_fold_pure retry dbn : forall stems s r, gtol retry s ->
  snd (fold_left (read_step retry dbn) stems (s, r)) = fold_left (read_pure dbn (st_objs s)) stems r /\
  gframe0 s (fst (fold_left (read_step retry dbn) stems (s, r))).
Proof.
  induction stems as [|x t IH]; intros s r Ht; cbn [fold_left].
  - cbn. unfold gframe0. repeat split; auto; lia.
  - destruct (read_step_pure retry dbn s r x Ht) as [A (B1 & B2 & B3 & B4 & B5)].
    destruct (read_step retry dbn (s, r) x) as [s1 r1]. cbn [fst snd] in *. subst r1.
    destruct (IH s1 (read_pure dbn (st_objs s) r x)) as [C (D1 & D2 & D3 & D4 & D5)].
    { destruct Ht as [Hq|Hr]; [left|now right]. eapply getq_mono; eauto. }
    rewrite B1 in C. split; [exact C|]. unfold gframe0. repeat split; try congruence. lia.
Qed.

Definition read_result (dbn : str) (objs : objects) (clock : N) : pres :=
  fold_left (read_pure dbn objs)
            (map stem_of (sort_strs (filter (fun k => starts_with k (dbprefix dbn)) (map fst objs))))
            (PLoaded [] clock).

Theorem part_read_db_tol retry s dbn clock : gtol retry s ->
  snd (part_read_db retry s dbn clock) = read_result dbn (st_objs s) clock /\
  st_objs (fst (part_read_db retry s dbn clock)) = st_objs s.
Proof.
  intros Ht. rewrite part_read_db_eq.
  destruct (read_fold_pure retry dbn (map stem_of (stub_list s (dbprefix dbn))) s (PLoaded [] clock) Ht) as [A (B & _)].
  split; [exact A|exact B].
Qed.

(* goal 6: one GET failure is absorbed by the retry *)
Theorem part_get_fault_once_retried retry s dbn clock n :
  (1 <= retry)%nat -> st_getfail s = Some n ->
  let s0 := mkStub (st_objs s) (st_puts s) (st_gets s) (st_putfail s) None in
  snd (part_read_db retry s dbn clock) = snd (part_read_db retry s0 dbn clock) /\
  st_objs (fst (part_read_db retry s dbn clock)) = st_objs s.
Proof.
  intros Hr Hn s0.
  destruct (part_read_db_tol retry s dbn clock) as [A B]; [now right|].
  destruct (part_read_db_tol retry s0 dbn clock) as [A0 _]; [left; exact I|].
  rewrite A, A0. split; [reflexivity|exact B].
Qed.

(* ====================================================================== *)
(* 13. refutations by computation (goals 6 and 7)                          *)
(* ====================================================================== *)
Definition ex_db (val : str) (ver : Z) (st : vstate) : db := mkDb [("a", mkV val ver 0 st 0 0)] [] 0 1 SNewer.
Definition ex_s1 : stub := fst (fst (s3_snapshot (ex_db "old" 1 VNew) "d" ["a"] false stub0 10)).
Definition with_putfail (s : stub) f : stub := mkStub (st_objs s) (st_puts s) (st_gets s) f (st_getfail s).
Definition with_getfail (s : stub) f : stub := mkStub (st_objs s) (st_puts s) (st_gets s) (st_putfail s) f.

(* strategy s3 ignores the result of its two PUTs: with every upload denied, the snapshot still
   "succeeds" (it has no failure result), memory marks the key persisted (Ok), the store still
   holds the old objects, and a restart silently comes back with the OLD value *)
Example s3_put_fault_silent_refuted :
  let snap := s3_snapshot (ex_db "new" 2 VUpdated) "d" ["a"] false (with_putfail ex_s1 (Some (1, true))) 20 in
  let s2 := fst (fst snap) in
  st_objs s2 = st_objs ex_s1 /\
  snd (fst snap) = [("a", mkV "new" 2 20 VOk 0 0)] /\
  snd (s3_read_db s2 "d" 30) = LOk [("a", mkV "old" 1 30 VOk 0 21)] 31.
Proof. vm_compute. repeat split; reflexivity. Qed.

(* strategy s3 unwraps its GET results: one denied GET panics the loader although the objects
   are intact (the same read without the fault succeeds) *)
Example s3_get_fault_panics_refuted :
  snd (s3_read_db (with_getfail ex_s1 (Some 1)) "d" 30) = LPanic /\
  st_objs (fst (s3_read_db (with_getfail ex_s1 (Some 1)) "d" 30)) = st_objs ex_s1 /\
  snd (s3_read_db ex_s1 "d" 30) = LOk [("a", mkV "old" 1 30 VOk 0 21)] 31.
Proof. vm_compute. repeat split; reflexivity. Qed.

(* the retry of a failed partition PUT consumes the next observed iteration order, so the bytes of
   the object may differ from those of the fault-free run on the same list of orders (the decoded
   content is the same: GoPost); this is why part_put_fault_once_retried is stated with GoPost *)
Example part_retry_bytes_differ :
  let d := mkDb [("a", mkV "1" 1 0 VNew 0 0); ("b", mkV "2" 1 0 VNew 0 0)] [] 0 1 SNewer in
  let run f := st_objs (fst (fst (fst (fst (part_snapshot 2 [] d "d" ["a"; "b"] false (with_putfail stub0 f) 10
                                              [["a"; "b"]; ["b"; "a"]]))))) in
  run None <> run (Some (1, false)).
Proof. vm_compute. discriminate. Qed.

(* goal 7: the S3 strategies store no metadata: after a restart every database has id 1 and the
   arbiter strategy, whatever it was created with *)
Definition ex_run (n : node) (c : nat) (cmds : list str) : node :=
  fold_left (fun n l => fst (step n c l)) cmds n.
Definition ex_node : node :=
  let n0 := init_node "nun" "pwd" "n0:3014" 1000 Primary 1000000000000000000 in
  let '(n1, c) := connect n0 in
  ex_run n1 c ["auth nun pwd"; "create-db d1 tok1 newer"; "use-db d1 tok1"; "set a 1"; "snapshot false d1"].
Definition ex_node2 : node :=
  let n0 := init_node "nun" "pwd" "n0:3014" 1000 Primary 1000000000000000000 in
  let '(n1, c) := connect n0 in
  ex_run n1 c ["auth nun pwd"; "create-db d1 tok1 newer"; "create-db d2 tok2 none"; "use-db d1 tok1"; "set a 1";
               "use-db d2 tok2"; "set b 2"; "snapshot false d1"; "snapshot false d2"].

Definition db_meta (n : node) (dbn : str) : option (N * strat) :=
  option_map (fun d => (d_id d, d_strat d)) (get_db n dbn).

Example metadata_not_restored_refuted :
  let x := mkSN ex_node stub0 false in
  let '(x1, ok1) := s3_flush StPart 2 [] x [["a"; "$$token"; "$connections"]] in
  let '(x2, ok2) := s3_restart StPart 2 x1 in
  ok1 = true /\ ok2 = true /\
  db_meta ex_node "d1" = Some (1, SNewer) /\
  db_meta (sn_node x2) "d1" = Some (1, SArbiter) /\
  option_map (fun d => map (fun kv => (fst kv, v_val (snd kv))) (d_map d)) (get_db (sn_node x2) "d1")
    = Some [("a", "1"); ("$$token", "tok1"); ("$connections", "1")].
Proof. vm_compute. repeat split; reflexivity. Qed.

(* two databases created with ids 1 and 2 (strategies newer / none) both come back with id 1 *)
Example metadata_not_restored_two_dbs :
  let x := mkSN ex_node2 stub0 false in
  let '(x1, ok1) := s3_flush StPart 2 [] x [[]; []] in
  let '(x2, ok2) := s3_restart StPart 2 x1 in
  ok1 = true /\ ok2 = true /\
  db_meta ex_node2 "d1" = Some (1, SNewer) /\ db_meta ex_node2 "d2" = Some (2, SNone) /\
  db_meta (sn_node x2) "d1" = Some (1, SArbiter) /\ db_meta (sn_node x2) "d2" = Some (1, SArbiter).
Proof. vm_compute. repeat split; reflexivity. Qed.

(* the same with strategy s3 *)
Example metadata_not_restored_s3 :
  let x := mkSN ex_node2 stub0 false in
  let '(x1, ok1) := s3_flush StS3 2 [] x [[]; []] in
  let '(x2, ok2) := s3_restart StS3 2 x1 in
  ok1 = true /\ ok2 = true /\
  db_meta (sn_node x2) "d1" = Some (1, SArbiter) /\ db_meta (sn_node x2) "d2" = Some (1, SArbiter).
Proof. vm_compute. repeat split; reflexivity. Qed.

(* ====================================================================== *)
(* 14. what part_read_db computes on a well-formed store                   *)
(* ====================================================================== *)
Definition two64' : N := 18446744073709551616.

(* every object whose name starts with "<prefix>/<dbn>/" is a partition object of dbn.  Since the
   listing prefix ends with '/', the objects of other databases ("d10" when reading "d1") are not
   concerned: see part_read_db_other_dbs and part_prefix_no_collision_example.  What this still
   excludes: foreign objects INSIDE the database's own directory (e.g. "<prefix>/<dbn>/nun.keys"
   left by strategy s3, or a database literally named "<dbn>/x"), whose stems do not parse *)
Definition names_ok (dbn : str) (objs : objects) : Prop :=
  forall nm, In nm (map fst objs) -> starts_with nm (dbprefix dbn) = true ->
             exists p, nm = pname dbn p /\ p < two64'.

Definition decodes (dbn : str) (objs : objects) (dec : N -> list prec) : Prop :=
  forall p data, get (pname dbn p) objs = Some data ->
                 data = pcat (dec p) /\ NoDup (map p_key (dec p)) /\ Forall prec_ok (dec p).

Fixpoint pload_all (dec : N -> list prec) (ps : list N) (m : list (str * value)) (clk : N) : list (str * value) * N :=
  match ps with
  | [] => (m, clk)
  | p :: t => pload_all dec t (pload_abs p (dec p) m clk) (clk + N.of_nat (length (dec p)))
  end.

Lemma pload_all_app dec a : forall b m clk,
  pload_all dec (a ++ b) m clk = pload_all dec b (fst (pload_all dec a m clk)) (snd (pload_all dec a m clk)).
Proof. induction a as [|p a IH]; intros b m clk; cbn [app pload_all fst snd]; auto. Qed.

Lemma get_some_in {B} k (l : list (str * B)) : assoc_get String.eqb k l <> None -> In k (map fst l).
Proof.
  destruct (assoc_get String.eqb k l) as [v|] eqn:E; [|congruence]. intros _.
  change k with (fst (k, v)). apply in_map. eapply get_in; eauto using String.eqb_spec.
Qed.

Lemma in_get_some {B} k (l : list (str * B)) : In k (map fst l) -> assoc_get String.eqb k l <> None.
Proof.
  intros Hin E. revert Hin. eapply get_none_notin; eauto using String.eqb_spec.
Qed.

Lemma read_pure_ps dbn objs dec : decodes dbn objs dec -> forall ps m clk,
  Forall (fun p => p < two64' /\ get (pname dbn p) objs <> None) ps ->
  fold_left (read_pure dbn objs) (map stem_of (map (pname dbn) ps)) (PLoaded m clk) =
  PLoaded (fst (pload_all dec ps m clk)) (snd (pload_all dec ps m clk)).
Proof.
  intros Hdec. induction ps as [|p t IH]; intros m clk Hf; cbn [map fold_left pload_all]; [reflexivity|].
  apply Forall_cons_iff in Hf. destruct Hf as [[Hp Hg] Ht].
  rewrite stem_pname. unfold read_pure at 2. fold (pname dbn p).
  destruct (get (pname dbn p) objs) as [data|] eqn:E; [|congruence].
  destruct (Hdec p data E) as (-> & Hnd & Hok).
  rewrite parse_u64_N_to_str by exact Hp.
  rewrite part_load_object by exact Hok. now apply IH.
Qed.

Lemma pload_all_get dec ps :
  (forall p q r r', In p ps -> In q ps -> In r (dec p) -> In r' (dec q) -> p_key r = p_key r' ->
                    p_val r = p_val r' /\ p_ver r = p_ver r') ->
  (forall p, In p ps -> NoDup (map p_key (dec p))) ->
  forall m clk k,
  (forall p r, In p ps -> In r (dec p) -> p_key r = k ->
     exists mv, get k (fst (pload_all dec ps m clk)) = Some mv /\
                v_val mv = p_val r /\ v_ver mv = p_ver r /\ v_st mv = VOk) /\
  ((forall p r, In p ps -> In r (dec p) -> p_key r <> k) -> get k (fst (pload_all dec ps m clk)) = get k m).
Proof.
  induction ps as [|p ps IH] using rev_ind; intros Hfun Hnd m clk k.
  - split; [intros p r []|reflexivity].
  - rewrite pload_all_app. cbn [pload_all fst snd].
    destruct (IH (fun a b r r' Ha Hb => Hfun a b r r' (in_or_app _ _ _ (or_introl Ha)) (in_or_app _ _ _ (or_introl Hb)))
                 (fun a Ha => Hnd a (in_or_app _ _ _ (or_introl Ha))) m clk k) as [I1 I2].
    set (m1 := fst (pload_all dec ps m clk)) in *. set (c1 := snd (pload_all dec ps m clk)).
    destruct (pload_abs_get p (dec p) m1 c1 k) as [G1 G2].
    assert (Hp : In p (ps ++ [p])) by (apply in_or_app; right; now left).
    destruct (in_dec string_dec k (map p_key (dec p))) as [Hin|Hnin].
    + apply in_map_iff in Hin. destruct Hin as (r0 & Hk0 & Hr0).
      destruct (G2 (Hnd p Hp) r0 Hr0 Hk0) as [opp Ho]. split.
      * intros q r Hq Hr Hk. destruct (Hfun q p r r0 Hq Hp Hr Hr0) as [A B]; [congruence|].
        eexists. split; [exact Ho|]. cbn. auto.
      * intros Hno. exfalso. exact (Hno p r0 Hp Hr0 Hk0).
    + rewrite (G1 Hnin). split.
      * intros q r Hq Hr Hk. apply in_app_or in Hq. destruct Hq as [Hq|[<-|[]]].
        -- now apply (I1 q r).
        -- exfalso. apply Hnin. rewrite <- Hk. now apply in_map.
      * intros Hno. apply I2. intros q r Hq. apply Hno. apply in_or_app. now left.
Qed.

Lemma insert_sorted_in x y l : In x (insert_sorted y l) <-> x = y \/ In x l.
Proof.
  induction l as [|a l IH]; cbn [insert_sorted]; [cbn; intuition|].
  destruct (str_leb y a); cbn [In]; [intuition|]. rewrite IH. intuition.
Qed.

Lemma sort_strs_in x l : In x (sort_strs l) <-> In x l.
Proof.
  unfold sort_strs. induction l as [|a l IH]; cbn [fold_right]; [reflexivity|].
  rewrite insert_sorted_in, IH. cbn. intuition.
Qed.

Lemma names_to_ps dbn (P : N -> Prop) names :
  (forall nm, In nm names -> exists p, nm = pname dbn p /\ P p) ->
  exists ps, names = map (pname dbn) ps /\ Forall P ps.
Proof.
  induction names as [|nm t IH]; intros H.
  - exists []. split; [reflexivity|constructor].
  - destruct (H nm (or_introl eq_refl)) as (p & -> & Hp).
    destruct IH as (ps & -> & Hps); [intros x Hx; apply H; now right|].
    exists (p :: ps). split; [reflexivity|now constructor].
Qed.

(* the store holds, for database dbn, exactly the non-deleted keys of [mem], partition by partition *)
Definition Synced parts dbn (mem : list (string * value)) (objs : objects) : Prop :=
  exists dec, decodes dbn objs dec /\ names_ok dbn objs /\
    (forall p, get (pname dbn p) objs <> None -> recs_exact parts p mem (dec p)) /\
    (forall k v, get k mem = Some v -> dead v = false -> get (pname dbn (part_of parts k)) objs <> None).

Theorem read_synced parts dbn mem objs clock : Synced parts dbn mem objs ->
  exists m clk', read_result dbn objs clock = PLoaded m clk' /\ live_restored mem m.
Proof.
  intros (dec & Hdec & Hnames & Hex & Hlive). unfold read_result.
  set (names := sort_strs (filter (fun k => starts_with k (dbprefix dbn)) (map fst objs))).
  assert (Hin : forall nm, In nm names <-> In nm (map fst objs) /\ starts_with nm (dbprefix dbn) = true).
  { intros nm. unfold names. rewrite sort_strs_in, filter_In. reflexivity. }
  destruct (names_to_ps dbn (fun p => p < two64' /\ get (pname dbn p) objs <> None) names) as (ps & Eps & Hps).
  { intros nm Hnm. apply Hin in Hnm. destruct Hnm as [A B]. destruct (Hnames nm A B) as (p & -> & Hp).
    exists p. split; auto. split; auto. now apply in_get_some. }
  rewrite Eps. rewrite (read_pure_ps dbn objs dec Hdec ps [] clock Hps).
  eexists _, _. split; [reflexivity|].
  assert (Hobj : forall p, In p ps -> get (pname dbn p) objs <> None).
  { intros p Hp. rewrite Forall_forall in Hps. now apply Hps. }
  assert (Hrec : forall p r, In p ps -> In r (dec p) ->
            exists v, get (p_key r) mem = Some v /\ part_of parts (p_key r) = p /\ dead v = false /\
                      p_val r = v_val v /\ p_ver r = v_ver v).
  { intros p r Hp Hr. destruct (Hex p (Hobj p Hp)) as (_ & _ & Hiff). now apply Hiff. }
  intros k.
  destruct (pload_all_get dec ps) with (m := @nil (str * value)) (clk := clock) (k := k) as [P1 P2].
  { intros p q r r' Hp Hq Hr Hr' Hk. destruct (Hrec p r Hp Hr) as (v & A & B & C & D & E).
    destruct (Hrec q r' Hq Hr') as (v' & A' & B' & C' & D' & E'). rewrite Hk in A. rewrite A in A'.
    inversion A'; subst v'. split; congruence. }
  { intros p Hp. destruct (Hex p (Hobj p Hp)) as (A & _). exact A. }
  destruct (get k mem) as [v|] eqn:E.
  - destruct (dead v) eqn:D.
    + rewrite P2; [reflexivity|]. intros p r Hp Hr Hk. destruct (Hrec p r Hp Hr) as (v' & A & _ & C & _).
      rewrite Hk, E in A. inversion A; subst. congruence.
    + pose proof (Hlive k v E D) as Ho.
      assert (Hp : In (part_of parts k) ps).
      { assert (Hn : In (pname dbn (part_of parts k)) names).
        { apply Hin. split; [now apply get_some_in|apply pname_prefix]. }
        rewrite Eps in Hn. apply in_map_iff in Hn. destruct Hn as (q & Hq & Hqin).
        apply pname_inj in Hq. now subst q. }
      destruct (Hex _ Ho) as (_ & _ & Hiff).
      assert (Hr : In (mkP k (v_val v) (v_ver v)) (dec (part_of parts k))).
      { apply Hiff. exists v. cbn. auto. }
      destruct (P1 _ _ Hp Hr eq_refl) as (mv & A & B & C & F). exists mv. cbn in *. auto.
  - rewrite P2; [reflexivity|]. intros p r Hp Hr Hk. destruct (Hrec p r Hp Hr) as (v' & A & _).
    rewrite Hk, E in A. discriminate.
Qed.

(* ====================================================================== *)
(* 15. goal 4: snapshot with reclaim, then read                            *)
(* ====================================================================== *)
Definition parts_ok (parts : list (str * N)) : Prop := forall k, part_of parts k < two64'.

Lemma pssel_in parts ps k : pssel parts ps k = true <-> In (part_of parts k) ps.
Proof.
  unfold pssel. rewrite existsb_exists. split.
  - intros (x & Hx & E). apply N.eqb_eq in E. now subst.
  - intros H. exists (part_of parts k). split; auto. apply N.eqb_refl.
Qed.

Lemma snap_mem_ext_on s1 s2 a b : (forall k v, get k a = Some v -> s1 k = s2 k) -> snap_mem s1 a b -> snap_mem s2 a b.
Proof. intros E H k. specialize (H k). destruct (get k a) as [v|] eqn:G; auto. now rewrite <- (E k v G). Qed.

Theorem part_roundtrip_reclaim retry parts d dbn order0 s clock orders clk0 :
  NoDup (map fst (d_map d)) -> mem_ok3 (d_map d) -> NoDup order0 -> Forall (@NoDup str) orders ->
  parts_ok parts -> st_putfail s = None -> st_getfail s = None ->
  (* every object already stored under "<prefix>/<dbn>" is a partition object that gets rewritten *)
  (forall nm, In nm (map fst (st_objs s)) -> starts_with nm (dbprefix dbn) = true ->
     exists p, nm = pname dbn p /\ In p (snap_ps parts (d_map d) order0 true)) ->
  exists s' mem' clk' os' s'' m clk'',
    part_snapshot retry parts d dbn order0 true s clock orders = (s', mem', clk', os', true) /\
    part_read_db retry s' dbn clk0 = (s'', PLoaded m clk'') /\
    live_restored (d_map d) m /\ snap_mem (fun _ => true) (d_map d) mem' /\ st_objs s'' = st_objs s'.
Proof.
  intros Hm Hok Ho0 Hos Hparts Hpf Hgf Hpre.
  destruct (part_snapshot_nofault retry parts d dbn order0 true s clock orders Hpf Hm Hok Hos)
    as (s' & mem' & clk' & os' & E & ((dec & G1) & G2 & G3 & G4 & G5 & G6) & Hpf' & Hgf').
  set (ps := snap_ps parts (d_map d) order0 true) in *.
  assert (Hps : forall k v, get k (d_map d) = Some v -> In (part_of parts k) ps).
  { intros k v Hg. apply snap_ps_in. exists k, v. split; auto. now apply todo_all_iff. }
  assert (Hall : forall nm, In nm (map fst (st_objs s')) -> starts_with nm (dbprefix dbn) = true ->
                            exists p, nm = pname dbn p /\ In p ps).
  { intros nm Hin Hst. destruct (G3 nm Hin) as [H|(p & Hp & ->)]; eauto. }
  assert (Hsy : Synced parts dbn (d_map d) (st_objs s')).
  { exists dec. split; [|split; [|split]].
    - intros p data Hg. destruct (Hall (pname dbn p)) as (q & Hq & Hqin).
      + apply get_some_in. congruence.
      + apply pname_prefix.
      + apply pname_inj in Hq. subst q. destruct (G1 p Hqin) as (A & B & C & _). rewrite A in Hg.
        inversion Hg; subst. auto.
    - intros nm Hin Hst. destruct (Hall nm Hin Hst) as (p & -> & Hp). exists p. split; auto.
      apply snap_ps_in in Hp. destruct Hp as (k & v & _ & <-). apply Hparts.
    - intros p Hne. destruct (Hall (pname dbn p)) as (q & Hq & Hqin).
      + now apply get_some_in.
      + apply pname_prefix.
      + apply pname_inj in Hq. subst q. now destruct (G1 p Hqin).
    - intros k v Hg _. destruct (G1 _ (Hps k v Hg)) as (A & _). congruence. }
  destruct (read_synced parts dbn (d_map d) (st_objs s') clk0 Hsy) as (m & clk'' & Er & Hlr).
  destruct (part_read_db_tol retry s' dbn clk0) as [A B].
  { left. unfold getq. now rewrite Hgf', Hgf. }
  destruct (part_read_db retry s' dbn clk0) as [s'' r] eqn:Erd. cbn [fst snd] in *.
  exists s', mem', clk', os', s'', m, clk''. split; [exact E|]. split; [congruence|].
  split; [exact Hlr|]. split; [|exact B].
  eapply snap_mem_ext_on; [|exact G4]. intros k v Hg. cbv beta. apply pssel_in. eapply Hps; eauto.
Qed.

(* a database stored for the first time: whatever OTHER databases the store holds *)
Corollary part_roundtrip_reclaim_fresh retry parts d dbn order0 s clock orders clk0 :
  NoDup (map fst (d_map d)) -> mem_ok3 (d_map d) -> NoDup order0 -> Forall (@NoDup str) orders ->
  parts_ok parts -> st_putfail s = None -> st_getfail s = None ->
  (forall nm, In nm (map fst (st_objs s)) -> starts_with nm (dbprefix dbn) = false) ->
  exists s' mem' clk' os' s'' m clk'',
    part_snapshot retry parts d dbn order0 true s clock orders = (s', mem', clk', os', true) /\
    part_read_db retry s' dbn clk0 = (s'', PLoaded m clk'') /\
    live_restored (d_map d) m /\ snap_mem (fun _ => true) (d_map d) mem' /\ st_objs s'' = st_objs s'.
Proof.
  intros Hm Hok Ho0 Hos Hparts Hpf Hgf Hfresh. apply part_roundtrip_reclaim; auto.
  intros nm Hin Hst. rewrite (Hfresh nm Hin) in Hst. discriminate.
Qed.

(* ---- objects of other databases do not matter ---- *)
Definition db_objs (dbn : str) (objs : objects) : objects :=
  filter (fun kv => starts_with (fst kv) (dbprefix dbn)) objs.

Lemma get_filter (P : str -> bool) k (l : objects) : P k = true ->
  get k (filter (fun kv => P (fst kv)) l) = get k l.
Proof.
  intros Hk. induction l as [|[k' v] r IH]; cbn [filter fst]; auto.
  destruct (P k') eqn:E; cbn [assoc_get].
  - now rewrite IH.
  - destruct (String.eqb_spec k k') as [->|Hn]; [congruence|exact IH].
Qed.

Lemma map_fst_filter (P : str -> bool) (l : objects) :
  map fst (filter (fun kv => P (fst kv)) l) = filter P (map fst l).
Proof. induction l as [|[k v] r IH]; cbn; auto. destruct (P k); cbn; now rewrite IH. Qed.

Lemma filter_idem {A} (P : A -> bool) l : filter P (filter P l) = filter P l.
Proof. induction l as [|a l IH]; cbn; auto. destruct (P a) eqn:E; cbn; rewrite ?E, IH; auto. Qed.

Lemma fold_left_ext {A B} (f g : A -> B -> A) : (forall a b, f a b = g a b) ->
  forall l a, fold_left f l a = fold_left g l a.
Proof. intros H. induction l as [|b l IH]; intros a; cbn; auto. now rewrite H, IH. Qed.

Lemma stem_name_prefix dbn stem :
  starts_with (prefix_name +++ "/" +++ dbn +++ "/" +++ stem +++ ".nun") (dbprefix dbn) = true.
Proof.
  unfold starts_with, dbprefix.
  replace (prefix_name +++ "/" +++ dbn +++ "/" +++ stem +++ ".nun")
    with ((prefix_name +++ "/" +++ dbn +++ "/") +++ stem +++ ".nun") by now rewrite !app_assoc_s.
  apply prefix_app.
Qed.

Lemma read_pure_db_objs dbn objs r stem : read_pure dbn objs r stem = read_pure dbn (db_objs dbn objs) r stem.
Proof.
  unfold read_pure, db_objs. destruct r; auto.
  rewrite (get_filter (fun k => starts_with k (dbprefix dbn))) by apply stem_name_prefix. reflexivity.
Qed.

(* what part_read_db computes depends only on the objects whose name starts with "<prefix>/<dbn>/" *)
Lemma read_result_db_objs dbn objs clock : read_result dbn objs clock = read_result dbn (db_objs dbn objs) clock.
Proof.
  unfold read_result. unfold db_objs at 2.
  rewrite (map_fst_filter (fun k => starts_with k (dbprefix dbn))), filter_idem.
  apply fold_left_ext. intros a b. apply read_pure_db_objs.
Qed.

(* two stores that agree on the objects named "<prefix>/<dbn>/..." give the same read result: the
   objects of other databases do not influence part_read_db *)
Theorem part_read_db_other_dbs retry s1 s2 dbn clk :
  gtol retry s1 -> gtol retry s2 ->
  db_objs dbn (st_objs s1) = db_objs dbn (st_objs s2) ->
  snd (part_read_db retry s1 dbn clk) = snd (part_read_db retry s2 dbn clk).
Proof.
  intros H1 H2 E. destruct (part_read_db_tol retry s1 dbn clk H1) as [A _].
  destruct (part_read_db_tol retry s2 dbn clk H2) as [B _].
  rewrite A, B, read_result_db_objs, E, <- read_result_db_objs. reflexivity.
Qed.

(* in particular, writing any object whose name does not start with "<prefix>/<dbn>/" *)
Lemma db_objs_put_other dbn nm data objs : starts_with nm (dbprefix dbn) = false ->
  db_objs dbn (aset nm data objs) = db_objs dbn objs.
Proof.
  intros Hn. unfold db_objs. induction objs as [|[k v] r IH]; cbn [assoc_set filter fst].
  - now rewrite Hn.
  - destruct (String.eqb_spec nm k) as [<-|Hne]; cbn [filter fst].
    + now rewrite Hn.
    + now rewrite IH.
Qed.

Corollary part_read_db_put_other retry s dbn clk nm data :
  gtol retry s -> starts_with nm (dbprefix dbn) = false ->
  let s2 := mkStub (aset nm data (st_objs s)) (st_puts s) (st_gets s) (st_putfail s) (st_getfail s) in
  snd (part_read_db retry s2 dbn clk) = snd (part_read_db retry s dbn clk).
Proof.
  intros Ht Hn s2. apply part_read_db_other_dbs; auto. cbn [st_objs]. now apply db_objs_put_other.
Qed.

(* before the fix the listing prefix had no trailing slash and reading "d1" also listed the objects
   of "d10" (the read failed when d10 had a partition that d1 lacks); after the fix d1 loads *)
Example part_prefix_no_collision_example :
  let d1 := mkDb [("a", mkV "1" 1 0 VNew 0 0)] [] 0 1 SNewer in
  let d10 := mkDb [("b", mkV "2" 1 0 VNew 0 0)] [] 0 2 SNewer in
  let parts := [("a", 0); ("b", 5)] in
  let s1 := fst (fst (fst (fst (part_snapshot 2 parts d1 "d1" ["a"] true stub0 10 [["a"]])))) in
  let s2 := fst (fst (fst (fst (part_snapshot 2 parts d10 "d10" ["b"] true s1 20 [["b"]])))) in
  map fst (st_objs s2) = ["nun-db-base/d1/0.nun"; "nun-db-base/d10/5.nun"] /\
  snd (part_read_db 2 s1 "d1" 30) = PLoaded [("a", mkV "1" 1 30 VOk 0 0)] 31 /\
  snd (part_read_db 2 s2 "d1" 30) = PLoaded [("a", mkV "1" 1 30 VOk 0 0)] 31 /\
  snd (part_read_db 2 s2 "d10" 30) = PLoaded [("b", mkV "2" 1 30 VOk 5 0)] 31.
Proof. vm_compute. repeat split; reflexivity. Qed.

(* ====================================================================== *)
(* 16. goal 5: the invariant of the partition strategy over histories      *)
(* ====================================================================== *)
Record PInvD parts dbn (mem : list (string * value)) (objs : objects) (dec : N -> list prec) : Prop := mkPInv {
  pi_nodup : NoDup (map fst mem);
  pi_ok : mem_ok3 mem;
  pi_names : names_ok dbn objs;
  (* (a) every partition object decodes *)
  pi_dec : decodes dbn objs dec;
  (* (b) a key stored in object p belongs to partition p and is a key of mem that is not New;
     (d) if its stored value/version differ from memory's, it is not Ok in memory (a deleted key is
         never Ok): its partition is "to update" *)
  pi_b : forall p r, get (pname dbn p) objs <> None -> In r (dec p) ->
           part_of parts (p_key r) = p /\
           exists mv, get (p_key r) mem = Some mv /\ v_st mv <> VNew /\
                      (v_st mv = VOk -> v_val mv = p_val r /\ v_ver mv = p_ver r);
  (* (c) an Ok key of mem is stored in the object of its partition with mem's value and version *)
  pi_c : forall k mv, get k mem = Some mv -> v_st mv = VOk ->
           get (pname dbn (part_of parts k)) objs <> None /\
           In (mkP k (v_val mv) (v_ver mv)) (dec (part_of parts k)) }.

Definition PInv parts dbn mem objs : Prop := exists dec, PInvD parts dbn mem objs dec.

Theorem PInv_init parts dbn : PInv parts dbn [] [].
Proof.
  exists (fun _ => []). constructor.
  - constructor.
  - intros k v [].
  - intros nm [].
  - intros p data H. discriminate.
  - intros p r H. now elim H.
  - intros k mv H. discriminate.
Qed.

(* one step of the database functions on the map: an entry is unchanged, or its new state is not
   Ok (and a key that was known to the store, i.e. not New, does not become New); only New keys
   may disappear; keys that appear are not Ok *)
Definition mstep (m m' : list (string * value)) : Prop :=
  NoDup (map fst m') /\ mem_ok3 m' /\
  forall k, match get k m, get k m' with
            | Some a, Some b => a = b \/ (v_st b <> VOk /\ (v_st a <> VNew -> v_st b <> VNew))
            | Some a, None => v_st a = VNew
            | None, Some b => v_st b <> VOk
            | None, None => True
            end.

Theorem PInv_mstep parts dbn mem mem' objs : PInv parts dbn mem objs -> mstep mem mem' -> PInv parts dbn mem' objs.
Proof.
  intros (dec & H) (Hnd & Hok & Hst). exists dec. constructor; auto; try apply H.
  - intros p r Hne Hr. destruct (pi_b _ _ _ _ _ H p r Hne Hr) as (A & mv & B & C & D). split; auto.
    specialize (Hst (p_key r)). rewrite B in Hst.
    destruct (get (p_key r) mem') as [b|]; [|contradiction].
    exists b. split; auto. destruct Hst as [<-|[E F]]; auto. split; [auto|]. intros; contradiction.
  - intros k b Hg Hs. specialize (Hst k). rewrite Hg in Hst.
    destruct (get k mem) as [a|] eqn:E; [|contradiction].
    destruct Hst as [->|[F _]]; [|contradiction]. now apply (pi_c _ _ _ _ _ H).
Qed.

(* objects of OTHER databases (any name that does not start with "<prefix>/<dbn>/") may be written
   at any time: the invariant of dbn does not see them *)
Lemma pname_not_other dbn nm p : starts_with nm (dbprefix dbn) = false -> pname dbn p <> nm.
Proof. intros Hn E. rewrite <- E, pname_prefix in Hn. discriminate. Qed.

Theorem PInv_put_other parts dbn mem objs nm data :
  starts_with nm (dbprefix dbn) = false -> PInv parts dbn mem objs -> PInv parts dbn mem (aset nm data objs).
Proof.
  intros Hn (dec & H). exists dec.
  assert (G : forall p, get (pname dbn p) (aset nm data objs) = get (pname dbn p) objs).
  { intros p. apply ogso. now apply pname_not_other. }
  constructor; try apply H.
  - intros x Hin Hst. apply in_keys_aset in Hin. destruct Hin as [->|Hin]; [congruence|].
    now apply (pi_names _ _ _ _ _ H).
  - intros p d0. rewrite G. apply (pi_dec _ _ _ _ _ H).
  - intros p r. rewrite G. apply (pi_b _ _ _ _ _ H).
  - intros k mv A B. rewrite G. now apply (pi_c _ _ _ _ _ H).
Qed.

Lemma mstep_refl m : NoDup (map fst m) -> mem_ok3 m -> mstep m m.
Proof. intros A B. split; [auto|split; [auto|]]. intros k. destruct (get k m); auto. Qed.

Lemma mstep_set m (k : string) nv : NoDup (map fst m) -> mem_ok3 m -> ent_ok k nv -> v_st nv <> VOk ->
  (forall old, get k m = Some old -> v_st old <> VNew -> v_st nv <> VNew) ->
  mstep m (aset k nv m).
Proof.
  intros Hnd Hok He Hs Hn. split; [|split].
  - apply nodup_set; auto using String.eqb_spec.
  - intros k' v' Hin. apply in_aset in Hin. destruct Hin as [[-> ->]|Hin]; auto.
  - intros k'. destruct (String.eqb_spec k' k) as [->|Hne].
    + rewrite gss. destruct (get k m) as [a|] eqn:E; auto. right. split; auto. now apply Hn.
    + rewrite gso by auto. destruct (get k' m); auto.
Qed.

Lemma in_del {B} k (l : list (str * B)) x : In x (assoc_del String.eqb k l) -> In x l.
Proof.
  induction l as [|[k' v] r IH]; cbn; auto. destruct (String.eqb k k'); cbn; intuition.
Qed.

Lemma mstep_del m (k : string) old : NoDup (map fst m) -> mem_ok3 m -> get k m = Some old -> v_st old = VNew ->
  mstep m (assoc_del String.eqb k m).
Proof.
  intros Hnd Hok Hg Hs. split; [|split].
  - now apply nodup_del.
  - intros k' v' Hin. apply in_del in Hin. auto.
  - intros k'. destruct (String.eqb_spec k' k) as [->|Hne].
    + rewrite get_del_same, Hg. exact Hs.
    + rewrite get_del_other by auto using String.eqb_spec. destruct (get k' m); auto.
Qed.

Lemma upd_state_not_ok old : upd_state old <> VOk /\ (v_st old <> VNew -> upd_state old <> VNew).
Proof. unfold upd_state. destruct (v_st old); split; congruence. Qed.

Lemma sat_succ_range z : i32_range z -> i32_range (sat_succ z).
Proof. unfold i32_range, sat_succ, i32_max. intros H. destruct (Z.ltb_spec z 2147483647); lia. Qed.

Theorem set_value_mstep d ch :
  NoDup (map fst (d_map d)) -> mem_ok3 (d_map d) ->
  str_ok (c_key ch) -> str_ok (c_val ch) -> i32_range (c_ver ch) ->
  mstep (d_map d) (d_map (fst (fst (set_value d ch)))).
Proof.
  intros Hnd Hok Hk Hv Hver. unfold set_value, get_value.
  destruct (assoc_get String.eqb (c_key ch) (d_map d)) as [old|] eqn:E.
  - destruct (_ && _); cbn [fst]; [now apply mstep_refl|].
    unfold put_value, db_set_map. cbn [d_map].
    destruct (upd_state_not_ok old) as [A B].
    destruct (mem_ok3_get _ _ _ Hok E) as (_ & _ & Hvo).
    apply mstep_set; auto.
    + split; [exact Hk|split; [exact Hv|]]. cbn [v_ver]. unfold next_version, in_conflict.
      destruct (Z.eqb (c_ver ch) (-2)); auto. destruct (c_resolve ch).
      * destruct (Z.eqb (v_ver old) (-2)); now apply sat_succ_range.
      * destruct (Z.eqb (v_ver old) (-2)); auto. destruct (Z.eqb (c_ver ch) (-1)); now apply sat_succ_range.
    + intros old' Ho. rewrite E in Ho. inversion Ho; subst. exact B.
  - cbn [fst]. unfold put_value, db_set_map. cbn [d_map]. apply mstep_set; auto.
    + split; [exact Hk|split; [exact Hv|]]. cbn [v_ver]. now apply sat_succ_range.
    + cbn. discriminate.
    + intros old Ho. rewrite E in Ho. discriminate.
Qed.

Theorem remove_value_mstep d k :
  NoDup (map fst (d_map d)) -> mem_ok3 (d_map d) ->
  mstep (d_map d) (d_map (fst (fst (remove_value d k)))).
Proof.
  intros Hnd Hok. unfold remove_value, get_value.
  destruct (String.eqb k "$$token"); cbn [fst]; [now apply mstep_refl|].
  destruct (assoc_get String.eqb k (d_map d)) as [old|] eqn:E; [|now apply mstep_refl].
  destruct (mem_ok3_get _ _ _ Hok E) as (Hk & _ & Hvo).
  assert (He : ent_ok k (mkV "<Empty>" (sat_succ (v_ver old)) (v_opp old) VDeleted (v_vaddr old) (v_kaddr old))).
  { split; [exact Hk|split; [apply str_ok_empty_marker|]]. cbn. now apply sat_succ_range. }
  destruct (v_st old) eqn:Est; unfold put_value, db_set_map; cbn [d_map];
    try (apply mstep_set; auto; cbn; intros; discriminate).
  eapply mstep_del; eauto.
Qed.

Theorem inc_value_mstep d k i opp :
  NoDup (map fst (d_map d)) -> mem_ok3 (d_map d) -> str_ok k ->
  mstep (d_map d) (d_map (fst (fst (inc_value d k i opp)))).
Proof.
  intros Hnd Hok Hk. unfold inc_value, get_value.
  destruct (parse_i32 _) as [c|]; cbn [fst]; [|now apply mstep_refl].
  destruct (Z.leb_spec (-2147483648) (c + i)); cbn [andb fst]; [|now apply mstep_refl].
  destruct (Z.leb_spec (c + i) i32_max); cbn [fst]; [|now apply mstep_refl].
  assert (Htxt : str_ok (Z_to_str (c + i))) by (apply str_ok_Z_to_str; unfold i32_max in *; lia).
  unfold put_value, db_set_map. cbn [d_map].
  destruct (assoc_get String.eqb k (d_map d)) as [old|] eqn:E.
  - destruct (upd_state_not_ok old) as [A B].
    destruct (mem_ok3_get _ _ _ Hok E) as (_ & _ & Hvo).
    apply mstep_set; auto.
    + split; [exact Hk|split; [exact Htxt|]]. cbn. now apply sat_succ_range.
    + intros old' Ho. rewrite E in Ho. inversion Ho; subst. exact B.
  - apply mstep_set; auto.
    + split; [exact Hk|split; [exact Htxt|]]. cbn. unfold i32_range. lia.
    + cbn. discriminate.
    + intros old Ho. rewrite E in Ho. discriminate.
Qed.

Lemma todo_iff m order reclaim (k : string) v : NoDup (map fst m) -> NoDup order ->
  In (k, v) (keys_to_update m order reclaim) <->
  get k m = Some v /\ (reclaim || negb (vstate_eqb (v_st v) VOk)) = true.
Proof.
  intros Hm Ho. unfold keys_to_update. rewrite filter_In. cbn [snd].
  rewrite (order_map_iff m order k v Hm Ho). tauto.
Qed.

Lemma dead_deleted v : dead v = true -> v_st v = VDeleted.
Proof. unfold dead. destruct (v_st v); cbn; congruence. Qed.

Theorem PInv_snapshot retry parts d dbn order0 reclaim s clock orders :
  PInv parts dbn (d_map d) (st_objs s) -> parts_ok parts -> NoDup order0 -> Forall (@NoDup str) orders ->
  st_putfail s = None ->
  exists s' mem' clk' os',
    part_snapshot retry parts d dbn order0 reclaim s clock orders = (s', mem', clk', os', true) /\
    PInv parts dbn mem' (st_objs s') /\
    Synced parts dbn mem' (st_objs s') /\
    (forall k v, get k mem' = Some v -> v_st v = VOk \/ v_st v = VDeleted) /\
    snap_mem (pssel parts (snap_ps parts (d_map d) order0 reclaim)) (d_map d) mem' /\
    st_putfail s' = None /\ st_getfail s' = st_getfail s.
Proof.
  intros (dec0 & H) Hparts Ho0 Hos Hpf.
  destruct (part_snapshot_nofault retry parts d dbn order0 reclaim s clock orders Hpf (pi_nodup _ _ _ _ _ H) (pi_ok _ _ _ _ _ H) Hos)
    as (s' & mem' & clk' & os' & E & ((decG & G1) & G2 & G3 & G4 & G5 & G6) & Hpf' & Hgf').
  set (ps := snap_ps parts (d_map d) order0 reclaim) in *.
  set (mem := d_map d) in *. set (objs := st_objs s) in *. set (objs' := st_objs s') in *.
  assert (Hps_iff : forall p, In p ps <->
            exists (k : string) v, get k mem = Some v /\ (reclaim || negb (vstate_eqb (v_st v) VOk)) = true /\ part_of parts k = p).
  { intros p. unfold ps. rewrite snap_ps_in. split; intros (k & v & A & B); exists k, v.
    - apply todo_iff in A; [tauto|apply H|auto].
    - split; [|tauto]. apply todo_iff; [apply H|auto|tauto]. }
  set (dec' := fun q => if in_dec N.eq_dec q ps then decG q else dec0 q).
  assert (Hold : forall q, ~ In q ps -> get (pname dbn q) objs' = get (pname dbn q) objs).
  { intros q Hn. apply G2. intros p Hp Heq. apply pname_inj in Heq. congruence. }
  assert (Hunch : forall k v, get k mem = Some v -> ~ In (part_of parts k) ps -> get k mem' = Some v /\ v_st v = VOk).
  { intros k v Hg Hn. split.
    - specialize (G4 k). rewrite Hg in G4. destruct (pssel parts ps k) eqn:S; [apply pssel_in in S; contradiction|exact G4].
    - destruct (v_st v) eqn:St; auto; exfalso; apply Hn, Hps_iff; exists k, v; rewrite St; cbn; rewrite orb_true_r; auto. }
  assert (Hsel : forall k v, get k mem = Some v -> In (part_of parts k) ps ->
                 if dead v then get k mem' = Some v else set_ok v (get k mem')).
  { intros k v Hg Hi. specialize (G4 k). rewrite Hg in G4. apply pssel_in in Hi. rewrite Hi in G4. cbn [andb] in G4.
    destruct (dead v); exact G4. }
  assert (HallOk : forall k v, get k mem' = Some v -> v_st v = VOk \/ v_st v = VDeleted).
  { intros k v' Hg. destruct (snap_mem_states _ _ _ _ _ G4 Hg) as (mv & A & _ & _ & [St|(St & _)]); [|auto].
    destruct (in_dec N.eq_dec (part_of parts k) ps) as [Hi|Hn].
    - pose proof (Hsel k mv A Hi) as Hs. destruct (dead mv) eqn:D.
      + right. rewrite St. now apply dead_deleted.
      + destruct Hs as (x & Hx & _ & _ & X). left. congruence.
    - destruct (Hunch k mv A Hn) as [_ B]. left. congruence. }
  assert (Hnames' : names_ok dbn objs').
  { intros nm Hin Hst. destruct (G3 nm Hin) as [Hi|(p & Hp & ->)]; [now apply (pi_names _ _ _ _ _ H)|].
    exists p. split; auto. apply Hps_iff in Hp. destruct Hp as (k & v & _ & _ & <-). apply Hparts. }
  assert (Hdec' : decodes dbn objs' dec').
  { intros q data Hg. unfold dec'. destruct (in_dec N.eq_dec q ps) as [Hi|Hn].
    - destruct (G1 q Hi) as (A & B & C & _). rewrite A in Hg. inversion Hg. auto.
    - rewrite (Hold q Hn) in Hg. now apply (pi_dec _ _ _ _ _ H). }
  assert (HP : PInvD parts dbn mem' objs' dec').
  { constructor; auto.
    - intros q r Hne Hr. unfold dec' in Hr. destruct (in_dec N.eq_dec q ps) as [Hi|Hn].
      + destruct (G1 q Hi) as (_ & _ & _ & Hiff). apply Hiff in Hr. destruct Hr as (v & A & B & C & D & F).
        split; auto. rewrite <- B in Hi. pose proof (Hsel _ v A Hi) as Hs. rewrite C in Hs.
        destruct Hs as (x & Hx & X1 & X2 & X3). exists x. split; auto. split; [congruence|]. intros _. split; congruence.
      + rewrite (Hold q Hn) in Hne. destruct (pi_b _ _ _ _ _ H q r Hne Hr) as (A & mv & B & C & D).
        split; auto. rewrite <- A in Hn. destruct (Hunch _ mv B Hn) as [B' St]. exists mv. auto.
    - intros k b Hg Hs. destruct (snap_mem_states _ _ _ _ _ G4 Hg) as (mv & A & V1 & V2 & St).
      unfold dec'. destruct (in_dec N.eq_dec (part_of parts k) ps) as [Hi|Hn].
      + destruct (G1 _ Hi) as (A1 & _ & _ & Hiff). split; [rewrite A1; discriminate|].
        apply Hiff. exists mv. cbn [p_key p_val p_ver]. split; auto. split; auto. split; [|auto].
        destruct St as [St|(_ & _ & D)]; auto. unfold dead. now rewrite <- St, Hs.
      + destruct St as [St|(_ & S & _)]; [|apply pssel_in in S; contradiction].
        destruct (pi_c _ _ _ _ _ H k mv A) as (C1 & C2); [congruence|].
        rewrite (Hold _ Hn). split; auto. now rewrite V1, V2. }
  exists s', mem', clk', os'. split; [exact E|]. split; [exists dec'; exact HP|].
  split; [|split; [exact HallOk|split; [exact G4|split; [exact Hpf'|exact Hgf']]]].
  exists dec'. split; [exact Hdec'|]. split; [exact Hnames'|]. split.
  - intros p Hne. unfold dec'. destruct (in_dec N.eq_dec p ps) as [Hi|Hn].
    + apply (recs_exact_snap parts p _ mem mem' _ G4). now destruct (G1 p Hi).
    + fold objs' in Hne. rewrite (Hold p Hn) in Hne.
      assert (Hne0 := Hne).
      destruct (get (pname dbn p) objs) as [data|] eqn:Eo in Hne0; [|congruence]. clear Hne0.
      destruct (pi_dec _ _ _ _ _ H p data Eo) as (_ & Nd & Ok). split; auto. split; auto.
      intros r. split.
      * intros Hr. destruct (pi_b _ _ _ _ _ H p r Hne Hr) as (A & mv & B & C & D).
        rewrite <- A in Hn. destruct (Hunch _ mv B Hn) as [B' St]. destruct (D St) as [D1 D2].
        exists mv. split; auto. split; auto. split; [unfold dead; now rewrite St|]. split; congruence.
      * intros (v & A & B & C & D & F).
        destruct (snap_mem_states _ _ _ _ _ G4 A) as (mv & A0 & V1 & V2 & St).
        rewrite <- B in Hn. destruct (Hunch _ mv A0 Hn) as [B' St'].
        destruct (pi_c _ _ _ _ _ H (p_key r) mv A0 St') as (_ & C2).
        rewrite B' in A. inversion A; subst v. rewrite B in C2.
        destruct r as [rk rv rr]. cbn [p_key p_val p_ver] in *. now rewrite D, F.
  - intros k v Hg D. destruct (HallOk k v Hg) as [St|St].
    + now destruct (pi_c _ _ _ _ _ HP k v Hg St).
    + unfold dead in D. rewrite St in D. discriminate.
Qed.

Theorem PInv_read parts dbn mem retry s clk0 :
  Synced parts dbn mem (st_objs s) -> gtol retry s ->
  exists s'' m clk'', part_read_db retry s dbn clk0 = (s'', PLoaded m clk'') /\ live_restored mem m /\
                      st_objs s'' = st_objs s.
Proof.
  intros Hsy Ht. destruct (read_synced parts dbn mem (st_objs s) clk0 Hsy) as (m & clk'' & Er & Hlr).
  destruct (part_read_db_tol retry s dbn clk0 Ht) as [A B].
  destruct (part_read_db retry s dbn clk0) as [s'' r]. cbn [fst snd] in *.
  exists s'', m, clk''. split; [congruence|]. split; auto.
Qed.

(* ---- histories: any sequence of set / remove / inc / snapshot (incremental or reclaim), without
   injected faults, starting from the empty database and the empty store ---- *)
Inductive pev :=
| PvSet (ch : change)
| PvRemove (k : str)
| PvInc (k : str) (i : Z) (opp : N)
| PvSnap (reclaim : bool) (order0 : list str) (orders : list (list str))
| PvOther (nm data : str).      (* another database (or anybody) writes an object outside "<prefix>/<dbn>/" *)

Definition pstate := (list (str * value) * stub * N)%type.

Definition prun (retry : nat) (parts : list (str * N)) (dbn : str) (st : pstate) (e : pev) : pstate :=
  let '(m, s, clk) := st in
  match e with
  | PvSet ch => (d_map (fst (fst (set_value (db_of m) ch))), s, clk)
  | PvRemove k => (d_map (fst (fst (remove_value (db_of m) k))), s, clk)
  | PvInc k i opp => (d_map (fst (fst (inc_value (db_of m) k i opp))), s, clk)
  | PvSnap reclaim o0 os =>
      let '(s', m', clk', _, _) := part_snapshot retry parts (db_of m) dbn o0 reclaim s clk os in (m', s', clk')
  | PvOther nm data => (m, fst (stub_put s nm data), clk)
  end.

Definition pev_ok (dbn : str) (e : pev) : Prop :=
  match e with
  | PvSet ch => str_ok (c_key ch) /\ str_ok (c_val ch) /\ i32_range (c_ver ch)
  | PvRemove _ => True
  | PvInc k _ _ => str_ok k
  | PvSnap _ o0 os => NoDup o0 /\ Forall (@NoDup str) os
  | PvOther nm _ => starts_with nm (dbprefix dbn) = false
  end.

Definition PJ parts dbn (st : pstate) : Prop :=
  let '(m, s, clk) := st in PInv parts dbn m (st_objs s) /\ st_putfail s = None /\ st_getfail s = None.

Lemma PInv_mem parts dbn m objs : PInv parts dbn m objs -> NoDup (map fst m) /\ mem_ok3 m.
Proof. intros (dec & H). split; apply H. Qed.

Lemma prun_inv retry parts dbn st e : parts_ok parts -> PJ parts dbn st -> pev_ok dbn e -> PJ parts dbn (prun retry parts dbn st e).
Proof.
  intros Hparts. destruct st as [[m s] clk]. intros (HI & Hpf & Hgf) He.
  destruct (PInv_mem _ _ _ _ HI) as [Hnd Hok].
  destruct e as [ch|k|k i opp|reclaim o0 os|nm data]; cbn [prun pev_ok] in *.
  - destruct He as (A & B & C). split; auto. eapply PInv_mstep; [exact HI|].
    apply (set_value_mstep (db_of m) ch); auto.
  - split; auto. eapply PInv_mstep; [exact HI|]. apply (remove_value_mstep (db_of m) k); auto.
  - split; auto. eapply PInv_mstep; [exact HI|]. apply (inc_value_mstep (db_of m) k i opp); auto.
  - destruct He as [A B].
    destruct (PInv_snapshot retry parts (db_of m) dbn o0 reclaim s clk os HI Hparts A B Hpf)
      as (s' & mem' & clk' & os' & E & HI' & _ & _ & _ & Hpf' & Hgf').
    rewrite E. split; auto. split; auto. congruence.
  - rewrite stub_put_nofault by exact Hpf. cbn [fst st_objs st_putfail st_getfail].
    split; auto. now apply PInv_put_other.
Qed.

(* goal 5: the invariant holds after every history *)
Theorem part_history_inv retry parts dbn clk0 evs :
  parts_ok parts -> Forall (pev_ok dbn) evs ->
  PJ parts dbn (fold_left (prun retry parts dbn) evs ([], stub0, clk0)).
Proof.
  intros Hparts. assert (H0 : PJ parts dbn ([], stub0, clk0)).
  { split; [apply PInv_init|split; reflexivity]. }
  revert H0. generalize (@nil (str * value), stub0, clk0). induction evs as [|e t IH]; intros st H0 Hev; cbn [fold_left]; auto.
  apply Forall_cons_iff in Hev. destruct Hev as [He Ht]. apply IH; auto. now apply prun_inv.
Qed.

(* ... and a snapshot (incremental or reclaim) after any history followed by a restart restores
   exactly the non-deleted keys, with their values and versions; the retry budget may absorb one
   GET fault injected for the restart *)
Theorem part_history_restore retry parts dbn clk0 evs reclaim o0 os getfault clk1 :
  parts_ok parts -> Forall (pev_ok dbn) evs -> NoDup o0 -> Forall (@NoDup str) os ->
  (getfault = None \/ (1 <= retry)%nat) ->
  let '(m, s, clk) := fold_left (prun retry parts dbn) evs ([], stub0, clk0) in
  exists s' mem' clk' os' s'' m' clk'',
    part_snapshot retry parts (db_of m) dbn o0 reclaim s clk os = (s', mem', clk', os', true) /\
    (forall k v, get k mem' = Some v -> v_st v = VOk \/ v_st v = VDeleted) /\
    snap_mem (pssel parts (snap_ps parts m o0 reclaim)) m mem' /\
    part_read_db retry (with_getfail s' getfault) dbn clk1 = (s'', PLoaded m' clk'') /\
    live_restored mem' m' /\ live_restored m m'.
Proof.
  intros Hparts Hev Ho0 Hos Hg. pose proof (part_history_inv retry parts dbn clk0 evs Hparts Hev) as HJ.
  destruct (fold_left (prun retry parts dbn) evs ([], stub0, clk0)) as [[m s] clk].
  destruct HJ as (HI & Hpf & Hgf).
  destruct (PInv_snapshot retry parts (db_of m) dbn o0 reclaim s clk os HI Hparts Ho0 Hos Hpf)
    as (s' & mem' & clk' & os' & E & HI' & Hsy & Hall & Hsn & Hpf' & Hgf').
  destruct (PInv_read parts dbn mem' retry (with_getfail s' getfault) clk1) as (s'' & m' & clk'' & Er & Hlr & _).
  - exact Hsy.
  - destruct Hg as [->|Hr]; [left; exact I|now right].
  - exists s', mem', clk', os', s'', m', clk''. repeat (split; [assumption|]).
    intros k. specialize (Hlr k). specialize (Hsn k). cbn [db_of d_map] in Hsn.
    destruct (get k m) as [mv|]; [|now rewrite Hsn in Hlr].
    destruct (pssel parts (snap_ps parts m o0 reclaim) k && negb (dead mv)) eqn:S.
    + destruct Hsn as (x & Hx & A & B & C). rewrite Hx in Hlr. rewrite (set_ok_live mv x C) in Hlr.
      apply andb_true_iff in S. destruct S as [_ S]. apply negb_true_iff in S. rewrite S.
      destruct Hlr as (y & Hy & A' & B' & C'). exists y. repeat split; congruence.
    + rewrite Hsn in Hlr. exact Hlr.
Qed.

(* the theorems are not vacuous: a history with every kind of event, a key removed after it was
   stored (its partition is rewritten without it) and the read after it *)
Definition ex_evs : list pev :=
  [PvSet (mkCh "a" "1" (-1) 1 false); PvSet (mkCh "b" "x" (-1) 2 false); PvSnap false ["a"; "b"] [["a"]; ["b"]];
   PvRemove "a"; PvInc "c" 5 3; PvOther "nun-db-base/d2/7.nun" "junk"; PvSet (mkCh "b" "y" (-1) 4 false);
   PvSnap false ["c"; "b"; "a"] [["c"; "a"]; ["b"]]].

Example part_history_demo :
  let '(m, s, clk) := fold_left (prun 2 [("a", 0); ("b", 1); ("c", 0)] "d") ex_evs ([], stub0, 0) in
  map (fun kv => (fst kv, v_val (snd kv), v_st (snd kv))) m = [("a", "<Empty>", VDeleted); ("b", "y", VOk); ("c", "5", VOk)] /\
  map fst (st_objs s) = ["nun-db-base/d/0.nun"; "nun-db-base/d/1.nun"; "nun-db-base/d2/7.nun"] /\
  snd (part_read_db 2 s "d" 100) = PLoaded [("c", mkV "5" 1 100 VOk 0 0); ("b", mkV "y" 1 101 VOk 1 0)] 102.
Proof. vm_compute. repeat split; reflexivity. Qed.

Example ex_evs_ok : Forall (pev_ok "d") ex_evs.
Proof.
  repeat constructor; cbn; try (vm_compute; reflexivity); try (unfold slen, max_alloc; cbn; lia);
    try (unfold i32_range; lia); try (intros [H|H]; try discriminate H; try destruct H);
    try (intros [H|[H|H]]; try discriminate H; try destruct H); auto.
  all: discriminate.
Qed.
