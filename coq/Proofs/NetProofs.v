(* The transports (Model/Net.v): no byte string sent over TCP, WebSocket or HTTP ends a service
   thread; connection ends run the shared disconnect path; the replication thread survives every
   queued line. *)
From Coq Require Import List String Ascii ZArith NArith Bool Lia.
From NunDB Require Import Base Parse Node Cluster Net GuardProofs ClusterProofs.
Import ListNotations.
Open Scope string_scope.

Lemma send_inv n c m : AdminInv n -> AdminInv (send n c m).
Proof. intros [adm H]. exists adm. exact H. Qed.

Theorem tcp_line_serving n c line : AdminInv n -> snd (tcp_line n c line) = Serving.
Proof.
  intros Hi. unfold tcp_line. destruct (utf8_valid line); cbn [negb]; [|reflexivity].
  pose proof (step_no_panic n c (line +++ nlS) Hi) as Hp.
  destruct (step n c (line +++ nlS)) as [n1 r]. cbn [snd] in Hp.
  destruct r; try reflexivity. contradiction.
Qed.

Theorem tcp_line_inv n c line : AdminInv n -> AdminInv (fst (tcp_line n c line)).
Proof.
  intros Hi. unfold tcp_line. destruct (utf8_valid line); cbn [negb]; [|exact Hi].
  pose proof (step_inv n c (line +++ nlS) Hi) as Hs.
  destruct (step n c (line +++ nlS)) as [n1 r]. cbn [fst] in Hs.
  destruct r; cbn [fst]; try (apply send_inv; exact Hs). exact Hs.
Qed.

Lemma ws_parts_safe parts : forall n c, AdminInv n ->
  snd (ws_parts n c parts) = Serving /\ AdminInv (fst (ws_parts n c parts)).
Proof.
  induction parts as [|p rest IH]; intros n c Hi; cbn [ws_parts]; [split; [reflexivity|exact Hi]|].
  pose proof (step_no_panic n c p Hi) as Hp. pose proof (step_inv n c p Hi) as Hs.
  destruct (step n c p) as [n1 r]. cbn [fst snd] in *.
  destruct r; try contradiction; apply IH; apply send_inv; exact Hs.
Qed.

Theorem ws_frame_serving n c payload : AdminInv n -> snd (ws_frame n c payload) = Serving.
Proof.
  intros Hi. unfold ws_frame. destruct (utf8_valid payload); cbn [negb]; [|reflexivity].
  apply ws_parts_safe. exact Hi.
Qed.

Theorem ws_frame_inv n c payload : AdminInv n -> AdminInv (fst (ws_frame n c payload)).
Proof.
  intros Hi. unfold ws_frame. destruct (utf8_valid payload); cbn [negb fst]; [|apply send_inv; exact Hi].
  apply ws_parts_safe. exact Hi.
Qed.

(* a frame that is not UTF-8 is answered with one error and changes nothing else *)
Theorem ws_frame_invalid n c payload : utf8_valid payload = false ->
  ws_frame n c payload = (send n c ("error Invalid message " +++ nlS), Serving).
Proof. intros H. unfold ws_frame. rewrite H. reflexivity. Qed.

(* a TCP line that is not UTF-8 is dropped: the node does not change *)
Theorem tcp_line_invalid n c line : utf8_valid line = false -> tcp_line n c line = (n, Serving).
Proof. intros H. unfold tcp_line. rewrite H. reflexivity. Qed.

(* the end of a TCP / WebSocket connection is the shared disconnect path *)
Theorem conn_closed_is_disconnect n c : conn_closed n c = disconnect n c.
Proof. reflexivity. Qed.

Theorem http_bytes_worker_survives n body : AdminInv n -> snd (http_bytes n body) <> None.
Proof.
  intros Hi. unfold http_bytes. destruct (utf8_valid body); cbn [negb snd]; [|discriminate].
  apply http_request_worker_survives. exact Hi.
Qed.

Theorem http_bytes_inv n body : AdminInv n -> AdminInv (fst (http_bytes n body)).
Proof.
  intros Hi. unfold http_bytes. destruct (utf8_valid body); cbn [negb fst]; [|exact Hi].
  apply http_request_inv. exact Hi.
Qed.

Theorem net_step_safe n e : AdminInv n -> snd (net_step n e) = true /\ AdminInv (fst (net_step n e)).
Proof.
  intros Hi. destruct e as [|c b|c b|b|c]; cbn [net_step].
  - split; [reflexivity|apply connect_inv; exact Hi].
  - pose proof (tcp_line_serving n c b Hi) as H1. pose proof (tcp_line_inv n c b Hi) as H2.
    destruct (tcp_line n c b) as [n1 f]. cbn [fst snd] in *. subst f. split; [reflexivity|exact H2].
  - pose proof (ws_frame_serving n c b Hi) as H1. pose proof (ws_frame_inv n c b Hi) as H2.
    destruct (ws_frame n c b) as [n1 f]. cbn [fst snd] in *. subst f. split; [reflexivity|exact H2].
  - pose proof (http_bytes_worker_survives n b Hi) as H1. pose proof (http_bytes_inv n b Hi) as H2.
    destruct (http_bytes n b) as [n1 o]. cbn [fst snd] in *. destruct o; [split; [reflexivity|exact H2]|contradiction].
  - split; [reflexivity|]. unfold conn_closed. apply disconnect_inv. exact Hi.
Qed.

(* whatever bytes arrive over the three transports, in any order and on any connections, every
   service thread is still alive afterwards *)
Theorem net_run_safe evs : forall n, AdminInv n -> snd (net_run n evs) = true /\ AdminInv (fst (net_run n evs)).
Proof.
  induction evs as [|e r IH]; intros n Hi; cbn [net_run]; [split; [reflexivity|exact Hi]|].
  destruct (net_step_safe n e Hi) as [H1 H2].
  destruct (net_step n e) as [n1 ok]. cbn [fst snd] in *. subst ok.
  destruct (IH n1 H2) as [H3 H4]. destruct (net_run n1 r) as [n2 ok2]. cbn [fst snd] in *.
  subst ok2. split; [reflexivity|exact H4].
Qed.

Theorem net_run_from_init u p a pid r c0 evs : snd (net_run (init_node u p a pid r c0) evs) = true.
Proof. apply net_run_safe. apply init_inv. Qed.

(* and the next command from any connection is answered (not a panic) *)
Theorem net_run_then_step u p a pid r c0 evs c line :
  snd (step (fst (net_run (init_node u p a pid r c0) evs)) c line) <> RPanic.
Proof. apply step_no_panic. apply net_run_safe. apply init_inv. Qed.

(* ---- the replication thread ---------------------------------------------------------- *)
Theorem repl_one_survives x msg : cn_dead x = false -> cn_dead (repl_one x msg) = false.
Proof.
  intros Hd. unfold repl_one. rewrite Hd.
  destruct (parse_request msg) as [rq| |]; auto.
  destruct rq; auto.
  destruct (parse_request request_str) as [rq| |]; auto.
  pose proof (ClusterProofs.repl_oplog_dead x rq opp_id) as Hdd.
  destruct (repl_oplog x rq opp_id) as [x1 oid]. cbn [fst] in Hdd.
  destruct (n_role (cn_node x1)); try destruct oid; cbn [cn_set_node cn_dead]; congruence.
Qed.

Theorem poll_repl_survives x : cn_dead x = false -> cn_dead (poll_repl x) = false.
Proof.
  intros Hd. unfold poll_repl.
  assert (H : forall q y, cn_dead y = false -> cn_dead (fold_left repl_one q y) = false).
  { induction q as [|m q IH]; intros y Hy; cbn [fold_left]; [exact Hy|]. apply IH. apply repl_one_survives. exact Hy. }
  apply H. exact Hd.
Qed.
