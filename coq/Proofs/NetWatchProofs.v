(* NetWatchProofs.v -- property C03 at the level of the transports (Model/Net.v): what a TCP or
   WebSocket client reads from its connection when a key is written.

   1. tcp_set_stream / ws_frame_set_stream: an accepted "set": every session gets its change lines
      (once per subscription), the writer gets them too (if it watches the key) and then, LAST, the
      terminator "ok \n".
   2. tcp_refused_stream / ws_frame_refused_stream: a refused "set": nobody but the writer gets
      anything, the writer gets its refusal message (if any) and then the terminator.
   3. conn_closed_keeps_others: the end of a connection.
   4. net_run_subscription_stable: over any sequence of transport events of OTHER connections the
      subscriptions of an open session are unchanged (all five event kinds, HTTP included). *)
From Coq Require Import List String Ascii ZArith NArith Bool Lia.
From NunDB Require Import Base Pending Parse Node Net AssocLemmas DbProofs GuardProofs NetProofs NetProofs2 WatchProofs.
Import ListNotations.
Open Scope string_scope. Open Scope list_scope.

(* ====================================================================================== *)
(* 0. terminators                                                                         *)
(* ====================================================================================== *)
Definition okT : str := "ok " +++ nlS.

Lemma term_tcp_version_error key ov ver old ch st :
  term_tcp (RVersionError key ov ver old ch st) = "ok " +++ nlS.
Proof. reflexivity. Qed.

Lemma term_ws_version_error key ov ver old ch st :
  term_ws (RVersionError key ov ver old ch st) = "error Invalid version! " +++ nlS.
Proof. reflexivity. Qed.

Lemma term_tcp_error m : term_tcp (RError m) = "error " +++ m +++ " " +++ nlS.
Proof. reflexivity. Qed.
Lemma term_ws_error m : term_ws (RError m) = "error " +++ m +++ " " +++ nlS.
Proof. reflexivity. Qed.

(* an answer that refuses the command *)
Definition refused (r : resp) : Prop :=
  match r with RError _ | RVersionError _ _ _ _ _ _ => True | _ => False end.

(* the line the guards queue for the refused client before the answer is returned *)
Definition refusal_msgs (r : resp) : list str :=
  match r with
  | RError m => if String.eqb m no_db_msg || String.eqb m denied_msg then [m] else []
  | _ => []
  end.

(* the two transports agree on every answer but a refused version *)
Lemma term_ws_tcp r : ~ is_verr r -> term_ws r = term_tcp r.
Proof. destruct r; cbn; try reflexivity. intros H. now destruct H. Qed.

(* ====================================================================================== *)
(* 1. [delivered] bookkeeping                                                             *)
(* ====================================================================================== *)
Lemma delivered_refl n : delivered n n (fun _ => []).
Proof.
  split; [reflexivity|]. intros s. split; [apply sess_static_refl|]. intros _. now rewrite app_nil_r.
Qed.

Lemma delivered_core n n1 n' f : delivered n n1 f -> n_sess n' = n_sess n1 -> delivered n n' f.
Proof.
  intros [L H] E.
  assert (G : forall s, get_sess n' s = get_sess n1 s) by (intros s; unfold get_sess; now rewrite E).
  split; [now rewrite E|]. intros s. rewrite G. apply H.
Qed.

Lemma delivered_send n n1 f c m : delivered n n1 f ->
  delivered n (send n1 c m) (fun s => f s ++ (if Nat.eqb s c then [m] else [])).
Proof.
  intros [L H]. split; [now rewrite sess_len_send|].
  intros s. destruct (H s) as [St Inb]. split.
  - eapply sess_static_trans; [apply sess_static_send|exact St].
  - intros Hs. rewrite inbox_send, (Inb Hs), <- app_assoc. f_equal. f_equal.
    destruct (Nat.eqb_spec s c) as [->|]; cbn [andb]; [|reflexivity].
    rewrite L. destruct (Nat.ltb_spec c (List.length (n_sess n))); [reflexivity|lia].
Qed.

(* a session that is delivered nothing is untouched altogether *)
Lemma delivered_nil_eq n n' f s : delivered n n' f -> f s = [] -> get_sess n' s = get_sess n s.
Proof.
  intros [L H] E. destruct (H s) as [(A & B & C & D) Inb].
  destruct (Nat.lt_ge_cases s (List.length (n_sess n))) as [Hs|Hs].
  - specialize (Inb Hs). rewrite E, app_nil_r in Inb.
    destruct (get_sess n' s), (get_sess n s). cbn in *. congruence.
  - unfold get_sess. rewrite !nth_overflow; [reflexivity|exact Hs|now rewrite L].
Qed.

Lemma guard_go_lt n c k req dbn d : guard_safe n c k req = GGo dbn d -> (c < List.length (n_sess n))%nat.
Proof.
  intros G. destruct (WatchProofs.guard_safe_go _ _ _ _ _ _ G) as [Hsel _].
  destruct (Nat.lt_ge_cases c (List.length (n_sess n))) as [H|H]; [exact H|].
  unfold get_sess in Hsel. rewrite nth_overflow in Hsel by exact H. discriminate.
Qed.

(* ====================================================================================== *)
(* 2. one "set" line through [step]                                                       *)
(* ====================================================================================== *)
Lemma step_set n c l k v ver :
  parse_request (trim_char nl l) = POk (RqSet k v ver) ->
  step n c l = (let '(n1, r) := handle n c (RqSet k v ver) in
                replicate_request n1 (RqSet k v ver) (s_db (get_sess n c)) r).
Proof. intros H. unfold step. cbn [process]. rewrite H. reflexivity. Qed.

Lemma replicate_request_set_ok n1 dbn k v ver r :
  has_db n1 dbn = true -> ~ refused r -> r <> RPanic ->
  replicate_request n1 (RqSet k v ver) (Some dbn) r = (replicate_web n1 (replicate_msg dbn k v ver), ROk).
Proof.
  intros H Hr Hp. unfold replicate_request.
  destruct r; try (exfalso; apply Hr; exact I); try congruence; rewrite H; reflexivity.
Qed.

Lemma resp_eq_panic r : r = RPanic \/ r <> RPanic.
Proof. destruct r; (now left) || (right; discriminate). Qed.

Lemma replicate_request_refused n1 rq sel r : refused r -> replicate_request n1 rq sel r = (n1, r).
Proof. destruct r; cbn; try reflexivity; intros []. Qed.

(* the handler's set on a database without conflict strategy, primary or not *)
Lemma handle_set_outcome n c k v ver dbn d n' r :
  guard_safe n c k PWrite = GGo dbn d -> d_strat d = SNone ->
  handle n c (RqSet k v ver) = (n', r) ->
  exists n1, set_outcome n n1 dbn d k v r /\ n_dbs n' = n_dbs n1 /\ n_sess n' = n_sess n1.
Proof.
  intros Hg Hs. unfold handle. cbv zeta. rewrite Hg.
  destruct (WatchProofs.guard_safe_go _ _ _ _ _ _ Hg) as [_ Hdb].
  destruct (set_key_value n dbn k v ver) as [n1 r1] eqn:E.
  destruct (set_key_value_outcome _ _ _ _ _ _ _ _ Hdb Hs E) as [Ho _].
  intros [= <- <-]. exists n1. split; [exact Ho|]. destruct (is_primary n1); split; reflexivity.
Qed.

(* accepted: what [step] leaves *)
Lemma step_set_accepted n c l k v ver dbn d :
  parse_request (trim_char nl l) = POk (RqSet k v ver) ->
  guard_safe n c k PWrite = GGo dbn d -> d_strat d = SNone ->
  snd (step n c l) = ROk ->
  exists d' nv, get_db (fst (step n c l)) dbn = Some d' /\ d_watch d' = d_watch d /\
                get_value d' k = Some nv /\ v_val nv = v /\
                delivered n (fst (step n c l))
                  (fun s => concat (repeat (change_lines k v (v_ver nv)) (nsubs d k s))).
Proof.
  intros Hp Hg Hs. rewrite (step_set _ _ _ _ _ _ Hp).
  destruct (WatchProofs.guard_safe_go _ _ _ _ _ _ Hg) as [Hsel Hdb]. rewrite Hsel.
  destruct (handle n c (RqSet k v ver)) as [n1 r] eqn:E.
  destruct (handle_set_outcome _ _ _ _ _ _ _ _ _ Hg Hs E) as (n0 & Ho & Ed & Es).
  destruct Ho as [(-> & d' & nv & H1 & H2 & H3 & H4 & H5)|[Hv _]].
  - assert (Hh : has_db n1 dbn = true).
    { unfold has_db, get_db. rewrite Ed. fold (get_db n0 dbn). now rewrite H1. }
    rewrite replicate_request_set_ok; [|exact Hh|intros []|discriminate].
    intros _. cbn [fst]. exists d', nv.
    split; [|split; [exact H2|split; [exact H3|split; [exact H4|]]]].
    + change (get_db (replicate_web n1 (replicate_msg dbn k v ver)) dbn) with (get_db n1 dbn).
      unfold get_db. rewrite Ed. exact H1.
    + eapply delivered_core; [exact H5|]. cbn. exact Es.
  - rewrite replicate_request_refused by (destruct r; try destruct Hv; exact I).
    cbn [snd]. intros ->. destruct Hv.
Qed.

(* ---- refused ---- *)
Lemma apply_change_refused n dbn d ch n1 r :
  get_db n dbn = Some d -> d_strat d <> SArbiter -> apply_change n dbn ch = (n1, r) -> refused r ->
  is_verr r /\ n_dbs n1 = n_dbs n /\ n_sess n1 = n_sess n.
Proof.
  intros Hdb Hs. unfold apply_change. rewrite Hdb.
  destruct (set_value_resp d ch) as [(msgs & d1 & E)|(old & E)]; rewrite E; cbv beta iota zeta.
  - intros [= <- <-] [].
  - destruct (d_strat d) eqn:S.
    + intros [= <- <-] _. repeat split.
    + destruct (N.ltb _ _).
      * unfold tick. cbv beta iota zeta.
        match goal with |- context [set_value d ?c] =>
          destruct (set_value_resp d c) as [(msgs2 & d2 & E2)|(old2 & E2)]; rewrite E2 end.
        -- intros [= <- <-] [].
        -- intros [= <- <-] _. split; [exact I|].
           cbn [sends fold_left].
           rewrite put_db_same by (rewrite get_db_set_clock; exact Hdb). split; reflexivity.
      * intros [= <- <-] [].
    + congruence.
Qed.

Lemma handle_set_refused n c k v ver n' r :
  (forall dbn d, guard_safe n c k PWrite = GGo dbn d -> d_strat d <> SArbiter) ->
  handle n c (RqSet k v ver) = (n', r) -> refused r ->
  n_dbs n' = n_dbs n /\ delivered n n' (fun s => if Nat.eqb s c then refusal_msgs r else []).
Proof.
  intros Hst. unfold handle. cbv zeta.
  destruct (guard_safe n c k PWrite) as [dbn d|n1 r1] eqn:G.
  - destruct (WatchProofs.guard_safe_go _ _ _ _ _ _ G) as [_ Hdb].
    specialize (Hst dbn d eq_refl).
    unfold set_key_value, tick. cbv beta iota zeta.
    destruct (apply_change _ dbn _) as [n1 r1] eqn:E.
    intros [= <- <-] Hr.
    apply apply_change_refused with (d := d) in E; [|rewrite get_db_set_clock; exact Hdb|exact Hst|exact Hr].
    destruct E as (Hv & Ed & Es). cbn [n_set_clock n_dbs n_sess] in Ed, Es.
    split; [destruct (is_primary n1); exact Ed|].
    eapply delivered_ext; [|eapply delivered_core; [apply delivered_refl|]].
    + intros s. cbn beta. destruct r1; try destruct Hv. cbn [refusal_msgs]. now destruct (Nat.eqb s c).
    + destruct (is_primary n1); exact Es.
  - intros [= <- <-] _. revert G. unfold guard_safe, guard_db_name, reject_no_db.
    assert (Hsend : forall m, refusal_msgs (RError m) = [m] ->
              n_dbs (send n c m) = n_dbs n /\
              delivered n (send n c m) (fun s => if Nat.eqb s c then refusal_msgs (RError m) else [])).
    { intros m Hm. split; [reflexivity|]. rewrite Hm.
      eapply delivered_ext; [|apply delivered_send, delivered_refl]. reflexivity. }
    destruct (_ && _).
    { intros [= <- <-]. split; [reflexivity|].
      eapply delivered_ext; [|apply delivered_refl]. intros s. cbn. now destruct (Nat.eqb s c). }
    destruct (s_db (get_sess n c)) as [x|]; [|intros [= <- <-]; apply Hsend; reflexivity].
    destruct (get_db n x) as [d0|]; [|intros [= <- <-]; apply Hsend; reflexivity].
    destruct (has_permission _ _ _ _ _); [discriminate|intros [= <- <-]; apply Hsend; reflexivity].
Qed.

Lemma handle_set_stop_refused n c k v ver n1 r :
  handle n c (RqSet k v ver) = (n1, r) -> ~ refused r ->
  exists dbn d, guard_safe n c k PWrite = GGo dbn d.
Proof.
  unfold handle. cbv zeta. destruct (guard_safe n c k PWrite) as [dbn d|n2 r2] eqn:G; [eauto|].
  destruct (WatchProofs.guard_safe_stop _ _ _ _ _ _ G) as [_ [m ->]].
  intros [= <- <-] H. exfalso. apply H. exact I.
Qed.

Lemma step_set_refused n c l k v ver :
  parse_request (trim_char nl l) = POk (RqSet k v ver) ->
  (forall dbn d, guard_safe n c k PWrite = GGo dbn d -> d_strat d <> SArbiter) ->
  refused (snd (step n c l)) ->
  n_dbs (fst (step n c l)) = n_dbs n /\
  delivered n (fst (step n c l)) (fun s => if Nat.eqb s c then refusal_msgs (snd (step n c l)) else []).
Proof.
  intros Hp Hst. rewrite (step_set _ _ _ _ _ _ Hp).
  destruct (handle n c (RqSet k v ver)) as [n1 r] eqn:E.
  assert (Hdec : refused r \/ ~ refused r) by (destruct r; cbn; auto).
  destruct Hdec as [Hr|Hr].
  - rewrite replicate_request_refused by exact Hr. cbn [fst snd]. intros _.
    now apply (handle_set_refused n c k v ver).
  - destruct (handle_set_stop_refused _ _ _ _ _ _ _ E Hr) as (dbn & d & G).
    destruct (WatchProofs.guard_safe_go _ _ _ _ _ _ G) as [Hsel Hdb]. rewrite Hsel.
    destruct (resp_eq_panic r) as [->|Hnp].
    + cbn. intros [].
    + rewrite replicate_request_set_ok; [cbn; intros []| |exact Hr|exact Hnp].
      pose proof (handle_keeps n c (RqSet k v ver) dbn) as K. rewrite E in K. cbn [fst] in K.
      apply K. unfold has_db. now rewrite Hdb.
Qed.

(* ====================================================================================== *)
(* 3. the TCP line and the WebSocket frame                                                *)
(* ====================================================================================== *)
Lemma tcp_line_eq n c line : utf8_valid line = true -> snd (step n c (line +++ nlS)) <> RPanic ->
  tcp_line n c line =
  (send (fst (step n c (line +++ nlS))) c (term_tcp (snd (step n c (line +++ nlS)))), Serving).
Proof.
  intros Hu Hp. unfold tcp_line. rewrite Hu. cbn [negb].
  destruct (step n c (line +++ nlS)) as [n1 r]. cbn [fst snd] in *. destruct r; try reflexivity. congruence.
Qed.

(* the notification lines session s is owed for one write of k *)
Definition notes (d : db) (k v : str) (ver : Z) (s : nat) : list str :=
  concat (repeat (change_lines k v ver) (nsubs d k s)).

Lemma notes_none d k v ver s : nsubs d k s = 0%nat -> notes d k v ver s = [].
Proof. unfold notes. now intros ->. Qed.

Lemma notes_one d k v ver s : nsubs d k s = 1%nat -> notes d k v ver s = change_lines k v ver.
Proof. unfold notes. intros ->. reflexivity. Qed.

(* what the inboxes hold after an accepted set answered with terminator [t] *)
Definition set_stream (n n' : node) (w : nat) (dbn : str) (d : db) (k v : str) (t : str) : Prop :=
  exists d' nv,
    get_db n' dbn = Some d' /\ d_watch d' = d_watch d /\ get_value d' k = Some nv /\ v_val nv = v /\
    List.length (n_sess n') = List.length (n_sess n) /\
    (forall s, sess_static (get_sess n' s) (get_sess n s)) /\
    (* every other session: its notification lines, once per subscription, nothing else *)
    (forall s, s <> w -> (s < List.length (n_sess n))%nat ->
       s_inbox (get_sess n' s) = s_inbox (get_sess n s) ++ notes d k v (v_ver nv) s) /\
    (* the writer: its own notification lines (if it watches k), then the terminator, last *)
    (w < List.length (n_sess n))%nat /\
    s_inbox (get_sess n' w) = s_inbox (get_sess n w) ++ notes d k v (v_ver nv) w ++ [t].

Lemma set_stream_of_step n w l k v ver dbn d t :
  parse_request (trim_char nl l) = POk (RqSet k v ver) ->
  guard_safe n w k PWrite = GGo dbn d -> d_strat d = SNone ->
  snd (step n w l) = ROk ->
  set_stream n (send (fst (step n w l)) w t) w dbn d k v t.
Proof.
  intros Hp Hg Hs Hr.
  destruct (step_set_accepted _ _ _ _ _ _ _ _ Hp Hg Hs Hr) as (d' & nv & H1 & H2 & H3 & H4 & H5).
  pose proof (guard_go_lt _ _ _ _ _ _ Hg) as Hw.
  destruct (delivered_send _ _ _ w t H5) as [L H].
  exists d', nv. split; [exact H1|]. split; [exact H2|]. split; [exact H3|]. split; [exact H4|].
  split; [exact L|]. split; [intros s; apply H|]. split; [|split; [exact Hw|]].
  - intros s Hne Hlt. destruct (H s) as [_ Hi]. rewrite (Hi Hlt). cbv beta. unfold notes.
    destruct (Nat.eqb_spec s w); [contradiction|]. now rewrite app_nil_r.
  - destruct (H w) as [_ Hi]. rewrite (Hi Hw). cbv beta. rewrite Nat.eqb_refl. reflexivity.
Qed.

(* GOAL 1.  A TCP writer [w] sends a line that the parser reads as "set k v" (version [ver]: -1
   for "set", the client's for "set-safe"); the guard lets it through to database [dbn] (no
   conflict strategy) and the node answers ROk.  Then every session's inbox is the old one plus
   its notification lines, and the writer's ends with the terminator "ok \n". *)
Theorem tcp_set_stream n w line k v ver dbn d :
  utf8_valid line = true ->
  parse_request (trim_char nl (line +++ nlS)) = POk (RqSet k v ver) ->
  guard_safe n w k PWrite = GGo dbn d -> d_strat d = SNone ->
  snd (step n w (line +++ nlS)) = ROk ->
  snd (tcp_line n w line) = Serving /\
  set_stream n (fst (tcp_line n w line)) w dbn d k v ("ok " +++ nlS).
Proof.
  intros Hu Hp Hg Hs Hr.
  rewrite tcp_line_eq; [|exact Hu|rewrite Hr; discriminate]. cbn [fst snd].
  split; [reflexivity|]. rewrite Hr. cbn [term_tcp].
  now apply (set_stream_of_step n w (line +++ nlS) k v ver).
Qed.

(* GOAL 3.  The same for a WebSocket frame holding that single command. *)
Theorem ws_frame_set_stream n w p k v ver dbn d :
  AdminInv n -> utf8_valid p = true -> (forall i, get i p <> Some ";"%char) ->
  parse_request (trim_char nl p) = POk (RqSet k v ver) ->
  guard_safe n w k PWrite = GGo dbn d -> d_strat d = SNone ->
  snd (step n w p) = ROk ->
  snd (ws_frame n w p) = Serving /\
  set_stream n (fst (ws_frame n w p)) w dbn d k v ("ok " +++ nlS).
Proof.
  intros Hi Hu Hno Hp Hg Hs Hr.
  rewrite (ws_frame_single n w p Hi Hu Hno). cbn [fst snd].
  split; [reflexivity|]. rewrite Hr. cbn [term_ws].
  now apply (set_stream_of_step n w p k v ver).
Qed.

(* with these guards a set is answered ROk or a version error, nothing else *)
Lemma step_set_answers n w l k v ver dbn d :
  parse_request (trim_char nl l) = POk (RqSet k v ver) ->
  guard_safe n w k PWrite = GGo dbn d -> d_strat d = SNone ->
  snd (step n w l) = ROk \/ is_verr (snd (step n w l)).
Proof.
  intros Hp Hg Hs. rewrite (step_set _ _ _ _ _ _ Hp).
  destruct (WatchProofs.guard_safe_go _ _ _ _ _ _ Hg) as [Hsel Hdb]. rewrite Hsel.
  destruct (handle n w (RqSet k v ver)) as [n1 r] eqn:E.
  destruct (handle_set_outcome _ _ _ _ _ _ _ _ _ Hg Hs E) as (n0 & Ho & Ed & Es).
  destruct Ho as [(-> & d' & nv & H1 & _)|[Hv _]].
  - left. rewrite replicate_request_set_ok; [reflexivity| |intros []|discriminate].
    unfold has_db, get_db. rewrite Ed. fold (get_db n0 dbn). now rewrite H1.
  - right. rewrite replicate_request_refused by (destruct r; try destruct Hv; exact I). exact Hv.
Qed.

(* what the inboxes hold after a refused command answered [r] with terminator [t] *)
Definition refused_stream (n n' : node) (w : nat) (r : resp) (t : str) : Prop :=
  n_dbs n' = n_dbs n /\
  List.length (n_sess n') = List.length (n_sess n) /\
  (forall s, s <> w -> get_sess n' s = get_sess n s) /\
  sess_static (get_sess n' w) (get_sess n w) /\
  ((w < List.length (n_sess n))%nat ->
   s_inbox (get_sess n' w) = s_inbox (get_sess n w) ++ refusal_msgs r ++ [t]).

Lemma refused_stream_of_step n w l k v ver t :
  parse_request (trim_char nl l) = POk (RqSet k v ver) ->
  (forall dbn d, guard_safe n w k PWrite = GGo dbn d -> d_strat d <> SArbiter) ->
  refused (snd (step n w l)) ->
  refused_stream n (send (fst (step n w l)) w t) w (snd (step n w l)) t.
Proof.
  intros Hp Hst Hr. destruct (step_set_refused _ _ _ _ _ _ Hp Hst Hr) as [Hd Hdel].
  pose proof (delivered_send _ _ _ w t Hdel) as Hdel2.
  split; [exact Hd|]. split; [apply Hdel2|]. split; [|split].
  - intros s Hne. apply (delivered_nil_eq _ _ _ s Hdel2).
    destruct (Nat.eqb_spec s w); [contradiction|reflexivity].
  - apply Hdel2.
  - intros Hw. destruct Hdel2 as [_ H]. destruct (H w) as [_ Hi]. rewrite (Hi Hw), Nat.eqb_refl. reflexivity.
Qed.

(* GOAL 2.  A refused set (an error or a version error; the database reached, if any, has no
   arbiter strategy): no database changes, no other session is touched, and the writer gets its
   refusal message (if the guard queued one) followed by the terminator of the answer. *)
Theorem tcp_refused_stream n w line k v ver :
  utf8_valid line = true ->
  parse_request (trim_char nl (line +++ nlS)) = POk (RqSet k v ver) ->
  (forall dbn d, guard_safe n w k PWrite = GGo dbn d -> d_strat d <> SArbiter) ->
  refused (snd (step n w (line +++ nlS))) ->
  snd (tcp_line n w line) = Serving /\
  refused_stream n (fst (tcp_line n w line)) w (snd (step n w (line +++ nlS)))
                 (term_tcp (snd (step n w (line +++ nlS)))).
Proof.
  intros Hu Hp Hst Hr.
  rewrite tcp_line_eq; [|exact Hu|intros E; rewrite E in Hr; destruct Hr]. cbn [fst snd].
  split; [reflexivity|]. now apply (refused_stream_of_step n w (line +++ nlS) k v ver).
Qed.

Theorem ws_frame_refused_stream n w p k v ver :
  AdminInv n -> utf8_valid p = true -> (forall i, get i p <> Some ";"%char) ->
  parse_request (trim_char nl p) = POk (RqSet k v ver) ->
  (forall dbn d, guard_safe n w k PWrite = GGo dbn d -> d_strat d <> SArbiter) ->
  refused (snd (step n w p)) ->
  snd (ws_frame n w p) = Serving /\
  refused_stream n (fst (ws_frame n w p)) w (snd (step n w p)) (term_ws (snd (step n w p))).
Proof.
  intros Hi Hu Hno Hp Hst Hr.
  rewrite (ws_frame_single n w p Hi Hu Hno). cbn [fst snd].
  split; [reflexivity|]. now apply (refused_stream_of_step n w p k v ver).
Qed.

(* the refused version over the two transports: same inboxes but for the last line *)
Corollary tcp_version_refused_stream n w line k v ver dbn d :
  utf8_valid line = true ->
  parse_request (trim_char nl (line +++ nlS)) = POk (RqSet k v ver) ->
  guard_safe n w k PWrite = GGo dbn d -> d_strat d = SNone ->
  snd (step n w (line +++ nlS)) <> ROk ->
  let n' := fst (tcp_line n w line) in
  n_dbs n' = n_dbs n /\ (forall s, s <> w -> get_sess n' s = get_sess n s) /\
  s_inbox (get_sess n' w) = s_inbox (get_sess n w) ++ ["ok " +++ nlS].
Proof.
  intros Hu Hp Hg Hs Hr n'.
  destruct (step_set_answers _ _ _ _ _ _ _ _ Hp Hg Hs) as [E|Hv]; [contradiction|].
  destruct (tcp_refused_stream n w line k v ver Hu Hp) as [_ (A & _ & B & _ & C)].
  - intros dbn0 d0 G. rewrite Hg in G. injection G as <- <-. congruence.
  - destruct (snd (step n w (line +++ nlS))); try destruct Hv; exact I.
  - split; [exact A|]. split; [exact B|]. unfold n'. rewrite (C (guard_go_lt _ _ _ _ _ _ Hg)).
    destruct (snd (step n w (line +++ nlS))); try destruct Hv. reflexivity.
Qed.

Corollary ws_version_refused_stream n w p k v ver dbn d :
  AdminInv n -> utf8_valid p = true -> (forall i, get i p <> Some ";"%char) ->
  parse_request (trim_char nl p) = POk (RqSet k v ver) ->
  guard_safe n w k PWrite = GGo dbn d -> d_strat d = SNone ->
  snd (step n w p) <> ROk ->
  let n' := fst (ws_frame n w p) in
  n_dbs n' = n_dbs n /\ (forall s, s <> w -> get_sess n' s = get_sess n s) /\
  s_inbox (get_sess n' w) = s_inbox (get_sess n w) ++ ["error Invalid version! " +++ nlS].
Proof.
  intros Hi Hu Hno Hp Hg Hs Hr n'.
  destruct (step_set_answers _ _ _ _ _ _ _ _ Hp Hg Hs) as [E|Hv]; [contradiction|].
  destruct (ws_frame_refused_stream n w p k v ver Hi Hu Hno Hp) as [_ (A & _ & B & _ & C)].
  - intros dbn0 d0 G. rewrite Hg in G. injection G as <- <-. congruence.
  - destruct (snd (step n w p)); try destruct Hv; exact I.
  - split; [exact A|]. split; [exact B|]. unfold n'. rewrite (C (guard_go_lt _ _ _ _ _ _ Hg)).
    destruct (snd (step n w p)); try destruct Hv. reflexivity.
Qed.

(* ====================================================================================== *)
(* 4. the end of a connection                                                             *)
(* ====================================================================================== *)
(* GOAL 4.  [conn_closed n c]:
   (a) no other session's subscription moves (any database, any key);
   (b) c holds no subscription on the database it had selected;
   (c) any strategy: a session without subscription in that database is not touched at all;
   (d) no strategy: the only lines queued are the notifications of the "$connections" write of
       Client::left, for the sessions that watch "$connections" in that database (so "nothing is
       sent to anybody" holds exactly for the sessions that do not watch that key; see
       [closing_notifies_connections_watchers] below for a session that does);
   (e) no database selected (or it is gone): only c's own inbox gets the guard's error line. *)
Theorem conn_closed_keeps_others n c :
  (forall x k s, s <> c -> nsubs_n (conn_closed n c) x k s = nsubs_n n x k s) /\
  (forall dbn, s_db (get_sess n c) = Some dbn -> forall k, nsubs_n (conn_closed n c) dbn k c = 0%nat) /\
  (forall dbn d s, s <> c -> s_db (get_sess n c) = Some dbn -> get_db n dbn = Some d -> quiet d s ->
     get_sess (conn_closed n c) s = get_sess n s) /\
  (forall dbn d, s_db (get_sess n c) = Some dbn -> get_db n dbn = Some d -> d_strat d = SNone ->
     (exists ver, forall s, (s < List.length (n_sess n))%nat ->
        s_inbox (get_sess (conn_closed n c) s) =
        s_inbox (get_sess n s) ++
        concat (repeat (change_lines "$connections" (Z_to_str (d_conn d - 1)) ver)
                       (if Nat.eqb s c then 0%nat else nsubs d "$connections" s)))
     \/ n_sess (conn_closed n c) = n_sess n) /\
  ((s_db (get_sess n c) = None \/ exists dbn, s_db (get_sess n c) = Some dbn /\ get_db n dbn = None) ->
     conn_closed n c = send n c no_db_msg).
Proof.
  unfold conn_closed. destruct (disconnect_subs n c) as (A & B & _).
  split; [exact A|]. split; [exact B|]. split; [|split].
  - intros dbn d s. apply disconnect_quiet.
  - intros dbn d. apply disconnect_none_inbox.
  - apply disconnect_no_db.
Qed.

(* (d) read for one session: without conflict strategy, a session that does not watch
   "$connections" in the leaving session's database (and the leaving session itself) is sent nothing *)
Corollary conn_closed_silent n c dbn d s :
  s_db (get_sess n c) = Some dbn -> get_db n dbn = Some d -> d_strat d = SNone ->
  (s < List.length (n_sess n))%nat -> (s = c \/ nsubs d "$connections" s = 0%nat) ->
  s_inbox (get_sess (conn_closed n c) s) = s_inbox (get_sess n s).
Proof.
  intros Hsel Hdb Hs Hlt Hq.
  destruct (conn_closed_keeps_others n c) as (_ & _ & _ & D & _).
  destruct (D dbn d Hsel Hdb Hs) as [[ver H]|E].
  - rewrite (H s Hlt).
    assert (Z : (if Nat.eqb s c then 0%nat else nsubs d "$connections" s) = 0%nat).
    { destruct Hq as [->|Hq]; [now rewrite Nat.eqb_refl|]. now destruct (Nat.eqb s c). }
    rewrite Z. cbn. now rewrite app_nil_r.
  - unfold get_sess. now rewrite E.
Qed.

(* ====================================================================================== *)
(* 5. a command of connection c never moves another session's subscriptions               *)
(* ====================================================================================== *)
(* [wframe c n0 n]: same number of sessions, and for every session but c the same number of
   subscriptions on every key of every database *)
Definition wframe (c : nat) (n0 n : node) : Prop :=
  List.length (n_sess n) = List.length (n_sess n0) /\
  forall x k s, s <> c -> nsubs_n n x k s = nsubs_n n0 x k s.

Lemma wframe_refl c n : wframe c n n.
Proof. split; auto. Qed.

Lemma wframe_trans c a b d : wframe c a b -> wframe c b d -> wframe c a d.
Proof. intros [L1 H1] [L2 H2]. split; [congruence|]. intros x k s Hs. rewrite H2, H1; auto. Qed.

Lemma wframe_same c n0 n n' : wframe c n0 n -> n_dbs n' = n_dbs n ->
  List.length (n_sess n') = List.length (n_sess n) -> wframe c n0 n'.
Proof.
  intros [L H] Ed El. split; [congruence|]. intros x k s Hs. rewrite <- H by exact Hs.
  unfold nsubs_n, get_db. now rewrite Ed.
Qed.

Lemma wframe_put_db c n0 n k d d' : wframe c n0 n -> get_db n k = Some d ->
  (forall k' s, s <> c -> nsubs d' k' s = nsubs d k' s) -> wframe c n0 (put_db n k d').
Proof.
  intros [L H] Hg Hw. split; [exact L|]. intros x k' s Hs. rewrite nsubs_n_put, <- H by exact Hs.
  destruct (String.eqb_spec x k) as [->|]; [|reflexivity]. unfold nsubs_n. rewrite Hg. auto.
Qed.

Lemma wframe_put_db_w c n0 n k d d' : wframe c n0 n -> get_db n k = Some d ->
  d_watch d' = d_watch d -> wframe c n0 (put_db n k d').
Proof. intros H Hg W. eapply wframe_put_db; eauto. intros. now apply nsubs_watch_eq. Qed.

Lemma wframe_put_db_new c n0 n k d' : wframe c n0 n -> get_db n k = None ->
  d_watch d' = [] -> wframe c n0 (put_db n k d').
Proof.
  intros [L H] Hg Hw. split; [exact L|]. intros x k' s Hs. rewrite nsubs_n_put, <- H by exact Hs.
  destruct (String.eqb_spec x k) as [->|]; [|reflexivity]. unfold nsubs_n. rewrite Hg.
  unfold nsubs, watchers_of. rewrite Hw. reflexivity.
Qed.

Lemma wframe_send c n0 n i m : wframe c n0 n -> wframe c n0 (send n i m).
Proof. intros H. eapply wframe_same; [exact H|reflexivity|apply sess_len_send]. Qed.

Lemma wframe_sends c n0 n l : wframe c n0 n -> wframe c n0 (sends n l).
Proof. intros H. eapply wframe_same; [exact H|apply n_dbs_sends|apply sess_len_sends]. Qed.

Lemma wframe_put_sess c n0 n i s : wframe c n0 n -> wframe c n0 (put_sess n i s).
Proof.
  intros H. eapply wframe_same; [exact H|reflexivity|].
  unfold put_sess, n_set_sess. cbn [n_sess]. apply length_list_update.
Qed.

(* any function that touches neither n_dbs nor n_sess *)
Ltac wsame :=
  match goal with
  | H : wframe _ _ _ |- _ => solve [eapply wframe_same; [exact H | reflexivity | reflexivity]]
  | _ => solve [eapply wframe_same; [apply wframe_refl | reflexivity | reflexivity]]
  end.

Lemma wframe_replicate_web c n0 n m : wframe c n0 n -> wframe c n0 (replicate_web n m).
Proof. intros H. unfold replicate_web, tick. wsame. Qed.

Lemma wframe_send_to_primary c n0 n m : wframe c n0 n -> wframe c n0 (send_to_primary n m).
Proof. intros H. unfold send_to_primary. wsame. Qed.

Lemma wframe_replicate_change c n0 n dbn ch : wframe c n0 n -> wframe c n0 (replicate_change n dbn ch).
Proof.
  intros H. unfold replicate_change. destruct (is_primary n || is_eligible n).
  - now apply wframe_replicate_web.
  - now apply wframe_send_to_primary.
Qed.

Lemma wframe_push_sup c n0 n m : wframe c n0 n -> wframe c n0 (push_sup n m).
Proof. intros H. unfold push_sup. wsame. Qed.

Lemma wframe_set_role c n0 n r : wframe c n0 n -> wframe c n0 (n_set_role n r).
Proof. intros H. wsame. Qed.

Lemma wframe_election_win c n0 n : wframe c n0 n -> wframe c n0 (election_win n).
Proof. intros H. unfold election_win, push_sup. wsame. Qed.

Lemma wframe_start_election c n0 n : wframe c n0 n -> wframe c n0 (start_election n).
Proof.
  intros H. unfold start_election. destruct (Nat.leb _ _).
  - now apply wframe_election_win.
  - unfold replicate_message. now apply wframe_replicate_web.
Qed.

Lemma wframe_start_new_election c n0 n : wframe c n0 n -> wframe c n0 (start_new_election n).
Proof. intros H. unfold start_new_election. apply wframe_start_election. now apply wframe_set_role. Qed.

Lemma wframe_election_eval c n0 n cand : wframe c n0 n -> wframe c n0 (election_eval n cand).
Proof.
  intros H. unfold election_eval. destruct (N.eqb _ _); auto. destruct (N.ltb _ _).
  - now apply wframe_start_election.
  - apply wframe_set_role. unfold replicate_message. now apply wframe_replicate_web.
Qed.

Lemma watch_set_value' d ch d' r m : set_value d ch = (d', r, m) -> d_watch d' = d_watch d.
Proof. intros H. generalize (set_value_watch d ch). now rewrite H. Qed.
Lemma watch_remove_value' d k d' r m : remove_value d k = (d', r, m) -> d_watch d' = d_watch d.
Proof. intros H. generalize (remove_value_watch d k). now rewrite H. Qed.
Lemma watch_inc_value' d k i o d' r m : inc_value d k i o = (d', r, m) -> d_watch d' = d_watch d.
Proof. intros H. generalize (inc_value_watch d k i o). now rewrite H. Qed.

Lemma wframe_apply_change c n0 n dbn ch : wframe c n0 n -> wframe c n0 (fst (apply_change n dbn ch)).
Proof.
  intros H. unfold apply_change.
  destruct (get_db n dbn) as [d|] eqn:Hd; [|exact H].
  destruct (set_value d ch) as [[d1 r] msgs] eqn:Hs.
  pose proof (watch_set_value' _ _ _ _ _ Hs) as Hc1.
  assert (Hdef : wframe c n0 (sends (put_db n dbn d1) msgs)).
  { apply wframe_sends. eapply wframe_put_db_w; eauto. }
  destruct r; try exact Hdef.
  destruct (d_strat d); [exact H| |].
  - destruct (N.ltb _ _); [|exact H]. unfold tick.
    match goal with |- context [set_value d ?c] => destruct (set_value d c) as [[d2 r2] msgs2] eqn:Hs2 end.
    pose proof (watch_set_value' _ _ _ _ _ Hs2) as Hc2. cbn [fst].
    apply wframe_sends. eapply wframe_put_db_w; [| exact Hd | exact Hc2]. wsame.
  - destruct (negb (has_arbiter d)); [exact H|].
    match goal with |- context [put_value d key ?v] => set (d2 := put_value d key v) end.
    match goal with |- context [match ?i with Some _ => _ | None => _ end] => destruct i as [[ook cver]|] end.
    + match goal with |- context [sends (put_db n dbn d2) ?m] => set (n1 := sends (put_db n dbn d2) m) end.
      assert (Hn1 : wframe c n0 n1).
      { apply wframe_sends. eapply wframe_put_db_w; eauto. }
      unfold tick.
      match goal with |- context [set_value d2 ?c] => destruct (set_value d2 c) as [[d3 r3] msgs3] eqn:Hs3 end.
      pose proof (watch_set_value' _ _ _ _ _ Hs3) as Hc3. cbn [fst].
      apply wframe_replicate_change. apply wframe_sends.
      eapply wframe_put_db_w with (d := d2); [| | exact Hc3].
      * wsame.
      * change (get_db n1 dbn = Some d2). unfold n1. rewrite get_db_sends. apply get_db_put_same.
    + cbn [fst]. eapply wframe_put_db_w; eauto.
Qed.

Lemma wframe_set_key_value c n0 n dbn k v ver : wframe c n0 n -> wframe c n0 (fst (set_key_value n dbn k v ver)).
Proof. intros H. unfold set_key_value, tick. apply wframe_apply_change. wsame. Qed.

Lemma wframe_set_connection_counter c n0 n dbn : wframe c n0 n -> wframe c n0 (set_connection_counter n dbn).
Proof.
  intros H. unfold set_connection_counter. destruct (get_db n dbn); auto.
  now apply wframe_set_key_value.
Qed.

Lemma wframe_client_left c n0 n i : wframe c n0 n -> wframe c n0 (client_left n i).
Proof.
  intros H. unfold client_left. destruct (s_db (get_sess n i)) as [dbn|]; [|exact H].
  destruct (get_db n dbn) as [d|] eqn:Hd; [|exact H].
  apply wframe_set_connection_counter. eapply wframe_put_db_w; [exact H|exact Hd|reflexivity].
Qed.

Lemma wframe_resolve_conflict c n0 n dbn ch : wframe c n0 n -> wframe c n0 (fst (resolve_conflict n dbn ch)).
Proof.
  intros H. unfold resolve_conflict. destruct (get_db n dbn) as [d|] eqn:Hd; [|exact H].
  unfold tick.
  match goal with |- context [set_value d ?c] => destruct (set_value d c) as [[d1 r1] msgs1] eqn:Hs1 end.
  pose proof (watch_set_value' _ _ _ _ _ Hs1) as Hc1.
  match goal with |- context [set_value d1 ?c] => destruct (set_value d1 c) as [[d2 r2] msgs2] eqn:Hs2 end.
  pose proof (watch_set_value' _ _ _ _ _ Hs2) as Hc2. cbn [fst].
  apply wframe_sends.
  match goal with |- wframe c n0 (put_db ?nn dbn d2) => assert (Hn2 : wframe c n0 nn /\ get_db nn dbn = Some d1) end.
  { split.
    - apply wframe_replicate_change. apply wframe_sends. eapply wframe_put_db_w; [| exact Hd | exact Hc1]. wsame.
    - rewrite get_db_replicate_change, get_db_sends. apply get_db_put_same. }
  destruct Hn2 as [Hf Hg]. eapply wframe_put_db_w; [exact Hf | exact Hg | exact Hc2].
Qed.

(* the arbiter registration adds a subscription of c itself, nobody else's moves *)
Lemma wframe_register_arbiter c n0 n dbn : wframe c n0 n -> wframe c n0 (register_arbiter n dbn c).
Proof.
  intros H. unfold register_arbiter. destruct (get_db n dbn) as [d|] eqn:Hd; [|exact H].
  assert (H1 : wframe c n0 (put_db n dbn (watch_key d "$conflicts" c))).
  { eapply wframe_put_db; [exact H|exact Hd|]. intros k' s Hs. rewrite nsubs_watch_key.
    destruct (Nat.eqb_spec s c); [contradiction|]. rewrite andb_false_r. lia. }
  revert H1. generalize (put_db n dbn (watch_key d "$conflicts" c)).
  generalize (list_conflicts_keys (watch_key d "$conflicts" c) "").
  intros l. induction l as [|k r IH]; intros m Hm; cbn [fold_left]; auto.
  apply IH.
  destruct (get_db m dbn) as [dd|] eqn:Hdd; auto.
  destruct (get_value dd k) as [v|]; auto.
  destruct (starts_with _ _).
  - destruct (remove_value dd k) as [[dd' r'] msgs] eqn:Hr.
    apply wframe_sends. eapply wframe_put_db_w; eauto. eapply watch_remove_value'; eauto.
  - now apply wframe_sends.
Qed.

Lemma wframe_add_database c n0 n name d : wframe c n0 n -> d_watch d = [] ->
  wframe c n0 (fst (add_database n name d)).
Proof.
  intros H Hc. unfold add_database. destruct (get_db n name) eqn:Hd; [exact H|].
  unfold tick.
  match goal with |- context [put_db ?m name d] => set (n2 := put_db m name d) end.
  assert (H2 : wframe c n0 n2).
  { unfold n2. eapply wframe_put_db_new; [| exact Hd | exact Hc]. wsame. }
  match goal with |- context [get_db ?m "$admin"] => destruct (get_db m "$admin") as [adm|] eqn:Ha end.
  - match goal with |- context [set_value adm ?c] => destruct (set_value adm c) as [[adm' r'] msgs] eqn:Hs end.
    cbn [fst]. apply wframe_sends. eapply wframe_put_db_w; [| exact Ha | eapply watch_set_value'; eauto]. wsame.
  - cbn [fst]. wsame.
Qed.

(* guards *)
Lemma wguard_db_name_stop c n0 n i dbn key req n' r :
  wframe c n0 n -> guard_db_name n i dbn key req = GStop n' r -> wframe c n0 n'.
Proof.
  intros H. unfold guard_db_name, reject_no_db. destruct (get_db n dbn) eqn:Hd.
  - destruct key; [destruct (has_permission _ _ _ _ _)|]; intros [= <- <-]. now apply wframe_send.
  - intros [= <- <-]. now apply wframe_send.
Qed.

Lemma wguard_safe_stop c n0 n i key req n' r : wframe c n0 n -> guard_safe n i key req = GStop n' r -> wframe c n0 n'.
Proof.
  intros H. unfold guard_safe, reject_no_db. destruct (_ && _); [intros [= <- <-]; auto|].
  destruct (s_db _).
  - now apply wguard_db_name_stop.
  - intros [= <- <-]. now apply wframe_send.
Qed.

Lemma wguard_db_stop c n0 n i n' r : wframe c n0 n -> guard_db n i = GStop n' r -> wframe c n0 n'.
Proof.
  intros H. unfold guard_db, reject_no_db. destruct (s_db _).
  - now apply wguard_db_name_stop.
  - intros [= <- <-]. now apply wframe_send.
Qed.

Ltac wguard_tac H :=
  match goal with
  | |- context [guard_safe ?n ?c ?k ?r] =>
      let G := fresh "G" in let Hg := fresh "Hg" in
      destruct (guard_safe n c k r) as [?dbn ?d | ?n' ?r'] eqn:G;
      [ pose proof (ConnProofs.guard_safe_go _ _ _ _ _ _ G) as Hg
      | cbn [fst]; exact (wguard_safe_stop _ _ _ _ _ _ _ _ H G) ]
  | |- context [guard_db ?n ?c] =>
      let G := fresh "G" in let Hg := fresh "Hg" in
      destruct (guard_db n c) as [?dbn ?d | ?n' ?r'] eqn:G;
      [ pose proof (ConnProofs.guard_db_go _ _ _ _ G) as Hg
      | cbn [fst]; exact (wguard_db_stop _ _ _ _ _ _ H G) ]
  end.

Lemma wframe_snapshot_fold c names reclaim : forall n0 acc,
  wframe c n0 (fst acc) ->
  wframe c n0 (fst (fold_left (fun acc nm =>
          let '(m0, r0) := acc in
          match get_db m0 nm with
          | Some _ => (n_set_snap m0 (n_snap m0 ++ [(nm, reclaim)]), r0)
          | None => (m0, RError ("Error trying to snapshot database: Database " +++ nm +++ " not found"))
          end) names acc)).
Proof.
  induction names as [|nm r IH]; intros n0 [m0 r0] H; cbn [fold_left]; auto.
  apply IH. cbn [fst] in H. destruct (get_db m0 nm); cbn [fst]; auto; wsame.
Qed.

(* every request of connection c, use-db included *)
Lemma handle_wframe n c rq : wframe c n (fst (handle n c rq)).
Proof.
  pose proof (wframe_refl c n) as H.
  destruct rq; unfold handle; cbn [fst];
    try (destruct (negb (s_auth (get_sess n c))); [exact H|]).
  - (* SetPermissions *)
    wguard_tac H.
    destruct (set_key_value n dbn _ _ _) as [n1 r] eqn:Hs.
    assert (H1 : wframe c n n1) by (generalize (wframe_set_key_value c n n dbn ("$$permission_$" +++ user) (permissions_to_str_value perms) (-1) H); now rewrite Hs).
    destruct r; cbn [fst]; auto; destruct (is_primary n1); auto; now apply wframe_send_to_primary.
  - (* Get *) wguard_tac H. destruct (get_key_value_new d key). cbn [fst]. now apply wframe_send.
  - (* GetSafe *) wguard_tac H. destruct (get_key_value_new d key). cbn [fst]. now apply wframe_send.
  - (* Remove *) wguard_tac H. destruct (remove_value d key) as [[d' r] msgs] eqn:Hr. cbn [fst].
    assert (H1 : wframe c n (sends (put_db n dbn d') msgs)).
    { apply wframe_sends. eapply wframe_put_db_w; eauto. eapply watch_remove_value'; eauto. }
    destruct r; auto; destruct (is_primary _); auto; now apply wframe_send_to_primary.
  - (* ReplicateRemove *)
    destruct (get_db n db) as [d|] eqn:Hd; [|exact H].
    destruct (remove_value d key) as [[d' r] msgs] eqn:Hr. cbn [fst].
    apply wframe_sends. eapply wframe_put_db_w; eauto. eapply watch_remove_value'; eauto.
  - (* Set *) wguard_tac H.
    destruct (set_key_value n dbn key value version) as [n1 r] eqn:Hs.
    assert (H1 : wframe c n n1) by (generalize (wframe_set_key_value c n n dbn key value version H); now rewrite Hs).
    cbn [fst]. destruct (is_primary n1); auto; now apply wframe_send_to_primary.
  - (* Increment *) wguard_tac H. destruct (is_primary n).
    + unfold tick. destruct (inc_value d key inc (n_clock n)) as [[d' r] msgs] eqn:Hi. cbn [fst].
      apply wframe_sends. eapply wframe_put_db_w; [| exact Hg | eapply watch_inc_value'; eauto]. wsame.
    + cbn [fst]. now apply wframe_send_to_primary.
  - (* ReplicateIncrement *)
    destruct (get_db n db) as [d|] eqn:Hd; [|exact H].
    unfold tick. destruct (inc_value d key inc (n_clock n)) as [[d' r] msgs] eqn:Hi. cbn [fst].
    apply wframe_sends. eapply wframe_put_db_w; [| exact Hd | eapply watch_inc_value'; eauto]. wsame.
  - (* ReplicateSet *)
    destruct (get_db n db) as [d|] eqn:Hd; [|exact H]. now apply wframe_set_key_value.
  - (* Watch *) wguard_tac H. cbn [fst]. eapply wframe_put_db; [exact H|exact Hg|].
    intros k' s Hs. rewrite nsubs_watch_key.
    destruct (Nat.eqb_spec s c); [contradiction|]. rewrite andb_false_r. lia.
  - (* UnWatch *) wguard_tac H. cbn [fst]. eapply wframe_put_db; [exact H|exact Hg|].
    intros k' s Hs. rewrite nsubs_unwatch_key.
    destruct (Nat.eqb_spec s c); [contradiction|]. now rewrite andb_false_r.
  - (* UnWatchAll *) wguard_tac H. cbn [fst]. eapply wframe_put_db; [exact H|exact Hg|].
    intros k' s Hs. rewrite nsubs_unwatch_all.
    destruct (Nat.eqb_spec s c); [contradiction|reflexivity].
  - (* Auth *)
    apply wframe_send. apply wframe_put_sess; auto.
  - (* CreateDb *)
    destruct (_ || _); [|exact H]. unfold tick.
    match goal with |- context [set_value ?e ?c] => destruct (set_value e c) as [[d0 r0] m0] eqn:Hs end.
    pose proof (watch_set_value' _ _ _ _ _ Hs) as Hc0. cbn in Hc0.
    match goal with |- context [add_database ?m name d0] =>
      destruct (add_database m name d0) as [n2 r] eqn:Ha;
      assert (H2 : wframe c n n2) by
        (assert (Hm : wframe c n m) by wsame; generalize (wframe_add_database c n m name d0 Hm Hc0); now rewrite Ha)
    end.
    destruct r; cbn [fst]; auto; now apply wframe_send.
  - (* CreateUser *)
    wguard_tac H.
    destruct (set_key_value n dbn _ _ _) as [n1 r] eqn:Hs.
    assert (H1 : wframe c n n1) by (generalize (wframe_set_key_value c n n dbn ("$$user_" +++ user_name) token (-1) H); now rewrite Hs).
    destruct r; cbn [fst]; auto; destruct (is_primary n1); auto; now apply wframe_send_to_primary.
  - (* UseDb *)
    destruct (get_db n name) as [d|] eqn:Hd; [|exact H].
    match goal with |- context [if ?b then _ else _] => destruct b end; [|exact H].
    unfold release_previous.
    match goal with |- context [put_sess ?a c ?s] =>
      assert (H1 : wframe c n (put_sess a c s)) by (apply wframe_put_sess, wframe_client_left; exact H);
      set (n1 := put_sess a c s) in * end.
    destruct (get_db n1 name) as [d1|] eqn:Hd1; cbn [fst]; [|exact H1].
    apply wframe_set_connection_counter. eapply wframe_put_db_w; [exact H1|exact Hd1|reflexivity].
  - (* Snapshot *)
    destruct db_names as [|nm0 names].
    + destruct (s_db (get_sess n c)) as [dbn|]; [|exact H]. cbn [fst].
      destruct (get_db n dbn); auto; wsame.
    + match goal with |- context [filter ?f ?l] => destruct (filter f l) as [|m1 [|m2 ms]] end; cbn [fst]; auto; wsame.
  - (* ReplicateSnapshot *) apply wframe_snapshot_fold. exact H.
  - (* Leave *) apply wframe_start_new_election. now apply wframe_push_sup.
  - (* ReplicateLeave *) now apply wframe_push_sup.
  - (* Join *) destruct (_ || _); cbn [fst]; auto; apply wframe_start_new_election; now apply wframe_push_sup.
  - (* ReplicateJoin *) now apply wframe_push_sup.
  - (* SetPrimary *)
    destruct (negb (is_primary n)); cbn [fst].
    + apply wframe_put_sess. apply wframe_set_role. now apply wframe_push_sup.
    + now apply wframe_start_new_election.
  - (* SetSecondary *) apply wframe_put_sess; auto.
  - (* ReplicateSince *) now apply wframe_push_sup.
  - (* ClusterState *) now apply wframe_send.
  - (* MetricsState *) now apply wframe_send.
  - (* ElectionWin *) now apply wframe_election_win.
  - (* Election *) now apply wframe_election_eval.
  - (* ElectionActive *) exact H.
  - (* Keys *) wguard_tac H. cbn [fst]. now apply wframe_send.
  - (* ReplicateRequest *) exact H.
  - (* Acknowledge *) wsame.
  - (* Debug *)
    destruct (String.eqb command "pending-ops"); [now apply wframe_send|].
    destruct (String.eqb command "pendding-conflitcts").
    { destruct (guard_db n c) as [dbn d|n' r'] eqn:G; cbn [fst].
      - now apply wframe_send.
      - exact (wguard_db_stop _ _ _ _ _ _ H G). }
    destruct (String.eqb command "list-dbs"); [now apply wframe_send|].
    destruct (String.eqb command "force-election"); [now apply wframe_start_new_election|].
    destruct (String.eqb command "process-info"); [now apply wframe_send|]. exact H.
  - (* ListCommands *) now apply wframe_send.
  - (* Arbiter *) wguard_tac H. cbn [fst]. now apply wframe_register_arbiter.
  - (* Resolve *)
    assert (Hrun : forall (b : bool) dbn0, wframe c n (if is_primary n || b
        then fst (resolve_conflict n dbn0 (mkCh key value version opp_id true))
        else send_to_primary n ("resolve " +++ N_to_str opp_id +++ " " +++ db_name +++ " " +++ key +++ " "
                                +++ Z_to_str version +++ " " +++ value))).
    { intros b dbn0. destruct (is_primary n || b).
      - now apply wframe_resolve_conflict.
      - now apply wframe_send_to_primary. }
    destruct (s_auth (get_sess n c)).
    + destruct (guard_db_name n c db_name None PRead) as [dbn0 d0|n' r'] eqn:G; cbn [fst].
      * apply Hrun.
      * exact (wguard_db_name_stop _ _ _ _ _ _ _ _ _ H G).
    + destruct (guard_safe n c key PWrite) as [dbn0 d0|n' r'] eqn:G; cbn [fst].
      * apply Hrun.
      * exact (wguard_safe_stop _ _ _ _ _ _ _ _ H G).
Qed.

Lemma wframe_replicate_request c n0 n rq seldb r : wframe c n0 n -> wframe c n0 (fst (replicate_request n rq seldb r)).
Proof.
  intros H. unfold replicate_request.
  destruct r; cbn [fst]; auto;
    (match goal with |- context [if ?b then _ else _] => destruct b end; cbn [fst]; auto;
     destruct rq; cbn [fst]; auto; now apply wframe_replicate_web).
Qed.

Lemma process_wframe fuel : forall n c line, wframe c n (fst (process fuel n c line)).
Proof.
  induction fuel as [|k IH]; intros n c line; cbn [process]; [apply wframe_refl|].
  destruct (parse_request (trim_char nl line)) as [rq|e|]; try apply wframe_refl.
  match goal with |- context [let '(n1, r) := ?X in _] =>
    assert (HX : wframe c n (fst X)); [|destruct X as [n1 r]] end.
  - destruct rq; try apply handle_wframe.
    destruct (negb (s_auth (get_sess n c))); [apply wframe_refl|].
    eapply wframe_trans; [|apply IH]. apply wframe_send, wframe_refl.
  - cbn [fst] in HX. now apply wframe_replicate_request.
Qed.

(* one protocol line of connection c: the subscriptions of every other session, on every key of
   every database, are what they were, and no session appears or disappears *)
Theorem step_wframe n c line : wframe c n (fst (step n c line)).
Proof. apply process_wframe. Qed.

Lemma disconnect_wframe n c : wframe c n (disconnect n c).
Proof. unfold disconnect. apply wframe_client_left, step_wframe. Qed.

Lemma tcp_line_wframe n c line : wframe c n (fst (tcp_line n c line)).
Proof.
  unfold tcp_line. destruct (utf8_valid line); cbn [negb fst]; [|apply wframe_refl].
  pose proof (step_wframe n c (line +++ nlS)) as H.
  destruct (step n c (line +++ nlS)) as [n1 r]. cbn [fst] in H.
  destruct r; cbn [fst]; try (apply wframe_send; exact H). exact H.
Qed.

Lemma ws_parts_wframe c parts : forall n0 n, wframe c n0 n -> wframe c n0 (fst (ws_parts n c parts)).
Proof.
  induction parts as [|p rest IH]; intros n0 n H; cbn [ws_parts fst]; [exact H|].
  pose proof (step_wframe n c p) as Hs.
  destruct (step n c p) as [n1 r]. cbn [fst] in Hs.
  pose proof (wframe_trans _ _ _ _ H Hs) as H1.
  destruct r; try (apply IH; apply wframe_send; exact H1). exact H1.
Qed.

Lemma ws_frame_wframe n c payload : wframe c n (fst (ws_frame n c payload)).
Proof.
  unfold ws_frame. destruct (utf8_valid payload); cbn [negb fst].
  - apply ws_parts_wframe, wframe_refl.
  - apply wframe_send, wframe_refl.
Qed.

Lemma http_commands_wframe c cmds : forall n0 n acc, wframe c n0 n ->
  wframe c n0 (fst (http_commands n c cmds acc)).
Proof.
  induction cmds as [|cmd rest IH]; intros n0 n acc H; cbn [http_commands fst]; [exact H|].
  destruct (String.eqb (trim cmd) ""); [apply IH; exact H|].
  pose proof (step_wframe n c (trim cmd)) as Hs.
  destruct (step n c (trim cmd)) as [n1 r]. cbn [fst] in Hs.
  pose proof (wframe_trans _ _ _ _ H Hs) as H1.
  destruct r.
  1-3: destruct (s_inbox (get_sess n1 c)) as [|m more]; apply IH; [exact H1|apply wframe_put_sess; exact H1].
  1-2: apply IH; unfold drain; cbn [fst]; apply wframe_put_sess; exact H1.
  exact H1.
Qed.

(* ====================================================================================== *)
(* 6. any run of transport events of other connections                                    *)
(* ====================================================================================== *)
(* the event is not a line / frame on connection s and does not close it *)
Definition ev_not_by (s : nat) (e : net_ev) : Prop :=
  match e with
  | NTcpLine c _ | NWsFrame c _ | NClosed c => c <> s
  | NConnect | NHttp _ => True
  end.

(* [stable s n n']: no session disappeared and s holds the same subscriptions *)
Definition stable (s : nat) (n n' : node) : Prop :=
  (List.length (n_sess n) <= List.length (n_sess n'))%nat /\
  forall x k, nsubs_n n' x k s = nsubs_n n x k s.

Lemma wframe_stable c s n n' : c <> s -> wframe c n n' -> stable s n n'.
Proof. intros Hne [L H]. split; [lia|]. intros x k. apply H. congruence. Qed.

Lemma stable_trans s a b c : stable s a b -> stable s b c -> stable s a c.
Proof. intros [L1 H1] [L2 H2]. split; [lia|]. intros x k. now rewrite H2. Qed.

Lemma connect_stable s n : stable s n (fst (connect n)).
Proof.
  unfold connect. cbn [fst]. split.
  - cbn [n_set_sess n_sess]. rewrite app_length. lia.
  - reflexivity.
Qed.

(* an HTTP request runs on a temporary session of its own, numbered after the open ones *)
Lemma http_request_stable s n body : (s < List.length (n_sess n))%nat -> stable s n (fst (http_request n body)).
Proof.
  intros Hs. unfold http_request.
  pose proof (connect_stable s n) as H0.
  assert (Hc : snd (connect n) = List.length (n_sess n)) by reflexivity.
  destruct (connect n) as [n0 c]. cbn [fst snd] in *.
  pose proof (http_commands_wframe c (split_char ";" body) n0 n0 [] (wframe_refl c n0)) as H1.
  destruct (http_commands n0 c (split_char ";" body) []) as [n1 out]. cbn [fst] in *.
  eapply stable_trans; [exact H0|].
  apply (wframe_stable c); [lia|].
  eapply wframe_trans; [exact H1|apply disconnect_wframe].
Qed.

Lemma net_step_stable s n e : (s < List.length (n_sess n))%nat -> ev_not_by s e ->
  stable s n (fst (net_step n e)).
Proof.
  intros Hs He. destruct e as [|c b|c b|b|c]; cbn [net_step ev_not_by] in *.
  - apply connect_stable.
  - pose proof (tcp_line_wframe n c b) as H. destruct (tcp_line n c b) as [n1 f]. cbn [fst] in *.
    now apply (wframe_stable c).
  - pose proof (ws_frame_wframe n c b) as H. destruct (ws_frame n c b) as [n1 f]. cbn [fst] in *.
    now apply (wframe_stable c).
  - unfold http_bytes. destruct (utf8_valid b); cbn [negb fst].
    + pose proof (http_request_stable s n b Hs) as H. destruct (http_request n b) as [n1 o]. exact H.
    + split; [lia|reflexivity].
  - cbn [fst]. apply (wframe_stable c); [exact He|]. apply disconnect_wframe.
Qed.

Lemma net_run_cons n e r : fst (net_run n (e :: r)) = fst (net_run (fst (net_step n e)) r).
Proof.
  cbn [net_run]. destruct (net_step n e) as [n1 ok]. cbn [fst]. now destruct (net_run n1 r).
Qed.

(* GOAL 5.  [s] is an open connection.  Over any run of transport events -- new connections, TCP
   lines and WebSocket frames of other connections (any bytes: watch, unwatch, unwatch-all,
   use-db, arbiter, writes, ...), HTTP requests, ends of other connections -- the number of
   subscriptions s holds on every key of every database is unchanged, and s is still there. *)
Theorem net_run_subscription_stable evs : forall n s,
  (s < List.length (n_sess n))%nat -> Forall (ev_not_by s) evs ->
  (s < List.length (n_sess (fst (net_run n evs))))%nat /\
  forall x k, nsubs_n (fst (net_run n evs)) x k s = nsubs_n n x k s.
Proof.
  induction evs as [|e r IH]; intros n s Hs Hall; [split; [exact Hs|reflexivity]|].
  inversion Hall as [|e' r' He Hr]; subst.
  rewrite net_run_cons.
  destruct (net_step_stable s n e Hs He) as [L H].
  destruct (IH (fst (net_step n e)) s) as [L2 H2]; [lia|exact Hr|].
  split; [exact L2|]. intros x k. now rewrite H2.
Qed.

(* in terms of one database: the watcher list of every key holds s as many times as before *)
Corollary net_run_subscription_stable_db evs n s dbn d k :
  (s < List.length (n_sess n))%nat -> Forall (ev_not_by s) evs -> get_db n dbn = Some d ->
  match get_db (fst (net_run n evs)) dbn with
  | Some d' => nsubs d' k s = nsubs d k s
  | None => nsubs d k s = 0%nat
  end.
Proof.
  intros Hs Hall Hdb. destruct (net_run_subscription_stable evs n s Hs Hall) as [_ H].
  specialize (H dbn k). unfold nsubs_n in H. rewrite Hdb in H.
  destruct (get_db (fst (net_run n evs)) dbn); auto.
Qed.

(* ====================================================================================== *)
(* 7. checked examples                                                                    *)
(* ====================================================================================== *)
Definition nw0 : node := init_node "u" "p" "a" 1 Primary 0.

(* two TCP connections on database "a" (no conflict strategy) of a primary; connection 1 watches k *)
Definition nw1 : node := fst (net_run nw0
  [NConnect; NConnect; NTcpLine 0 "auth u p"; NTcpLine 0 "create-db a ta"; NTcpLine 0 "create-db b tb";
   NTcpLine 0 "use-db a ta"; NTcpLine 1 "use-db a ta"; NTcpLine 1 "watch k"]).

Definition inbox0 : list str :=
  ["valid auth" +++ nlS; okT; "create-db success" +++ nlS; okT; "create-db success" +++ nlS; okT; okT].
Definition inbox1 : list str := [okT; okT].

(* connection 0 sets k: the watcher reads the two change lines, the writer reads "ok \n" *)
Example tcp_watch_set_example :
  let n := fst (tcp_line nw1 0 "set k v1") in
  s_inbox (get_sess nw1 0) = inbox0 /\ s_inbox (get_sess nw1 1) = inbox1 /\
  s_inbox (get_sess n 0) = inbox0 ++ [okT] /\
  s_inbox (get_sess n 1) = inbox1 ++ ["changed k v1" +++ nlS; "changed-version k 0 v1" +++ nlS] /\
  s_inbox (get_sess n 1) = inbox1 ++ change_lines "k" "v1" 0.
Proof. vm_compute. repeat split; reflexivity. Qed.

(* the hypotheses of [tcp_set_stream] hold there: the theorem applies to this very step *)
Example tcp_set_stream_applies :
  exists d, set_stream nw1 (fst (tcp_line nw1 0 "set k v1")) 0 "a" d "k" "v1" ("ok " +++ nlS).
Proof.
  eexists. eapply (tcp_set_stream nw1 0 "set k v1" "k" "v1" (-1)%Z "a").
  - vm_compute. reflexivity.
  - vm_compute. reflexivity.
  - vm_compute. reflexivity.
  - vm_compute. reflexivity.
  - vm_compute. reflexivity.
Qed.

(* a writer that watches the key itself: its change lines come BEFORE its terminator; then a
   refused version: "ok \n" over TCP, "error Invalid version! \n" over WebSocket, and nothing for
   the watcher; then a refusal by the guard: the error line, for the writer only *)
Example stream_order_example :
  let n2 := fst (net_run nw1 [NTcpLine 1 "set k v1"]) in
  let n3 := fst (net_run n2 [NTcpLine 0 "set-safe k 0 v2"]) in
  let n4 := fst (net_run n3 [NTcpLine 0 "set-safe k 0 v0"]) in
  let n5 := fst (net_run n4 [NWsFrame 0 "set-safe k 0 v0"]) in
  let n6 := fst (net_run n5 [NTcpLine 0 "set $$x 1"; NWsFrame 1 "set $$x 1"]) in
  s_inbox (get_sess n2 1) = inbox1 ++ change_lines "k" "v1" 0 ++ [okT] /\
  s_inbox (get_sess n2 0) = inbox0 /\
  s_inbox (get_sess n3 1) = s_inbox (get_sess n2 1) ++ change_lines "k" "v2" 1 /\
  s_inbox (get_sess n3 0) = inbox0 ++ [okT] /\
  s_inbox (get_sess n4 1) = s_inbox (get_sess n3 1) /\
  s_inbox (get_sess n4 0) = s_inbox (get_sess n3 0) ++ [okT] /\
  s_inbox (get_sess n5 1) = s_inbox (get_sess n3 1) /\
  s_inbox (get_sess n5 0) = s_inbox (get_sess n4 0) ++ ["error Invalid version! " +++ nlS] /\
  s_inbox (get_sess n6 0) = s_inbox (get_sess n5 0) ++ [okT] /\      (* connection 0 is the admin: accepted *)
  s_inbox (get_sess n6 1) = s_inbox (get_sess n5 1) ++
                            ["error To read security keys you must auth as an admin! " +++ nlS].
Proof. vm_compute. repeat split; reflexivity. Qed.

(* a connection without database: the guard's line, then the terminator *)
Example no_db_refusal_example :
  let n := fst (net_run nw0 [NConnect; NTcpLine 0 "set k v"]) in
  s_inbox (get_sess n 0) = [no_db_msg; "error " +++ no_db_msg +++ " " +++ nlS] /\
  refusal_msgs (snd (step (fst (net_run nw0 [NConnect])) 0 ("set k v" +++ nlS))) = [no_db_msg].
Proof. vm_compute. split; reflexivity. Qed.

(* FINDING (why goal 2 excludes the arbiter strategy): on a database with the arbiter strategy a
   refused version is a conflict; the writer is answered an error, but the arbiter client (another
   session) is sent the "resolve ..." line -- a refused write that does reach somebody else *)
Example arbiter_refusal_reaches_the_arbiter :
  let n1 := fst (net_run nw0
    [NConnect; NConnect; NTcpLine 0 "auth u p"; NTcpLine 0 "create-db a ta arbiter";
     NTcpLine 0 "use-db a ta"; NTcpLine 1 "use-db a ta"; NTcpLine 1 "arbiter";
     NTcpLine 0 "set k v1"; NTcpLine 0 "set k v2"]) in
  let n2 := fst (tcp_line n1 0 "set-safe k 0 v0") in
  snd (step n1 0 ("set-safe k 0 v0" +++ nlS)) = RError "$$conflitct unresolved $conflicts_k_11" /\
  s_inbox (get_sess n1 1) = [okT; okT] /\
  s_inbox (get_sess n2 1) = [okT; okT; "resolve 11 a 1 k v2 v0"] /\
  s_inbox (get_sess n2 0) = s_inbox (get_sess n1 0) ++ ["error $$conflitct unresolved $conflicts_k_11 " +++ nlS].
Proof. vm_compute. repeat split; reflexivity. Qed.

(* FINDING (goal 4, "sends nothing to anybody" is true only of sessions that do not watch
   "$connections"): the end of connection 0 writes the connection counter of its database, and a
   session watching that key is notified *)
Example closing_notifies_connections_watchers :
  let n := fst (net_run nw1 [NTcpLine 1 "watch $connections"]) in
  let n' := conn_closed n 0 in
  s_inbox (get_sess n' 1) = s_inbox (get_sess n 1) ++ change_lines "$connections" "1" 2 /\
  nsubs_n n' "a" "k" 1 = 1%nat /\ nsubs_n n' "a" "$connections" 1 = 1%nat /\
  s_inbox (get_sess n' 0) = s_inbox (get_sess n 0).
Proof. vm_compute. repeat split; reflexivity. Qed.

(* goal 5 on the example: connection 0 and an HTTP client do what they like, connection 1 keeps
   its subscription, and is notified of the last write *)
Example run_keeps_subscription_example :
  let evs := [NTcpLine 0 "watch k"; NTcpLine 0 "unwatch k"; NTcpLine 0 "unwatch-all"; NConnect;
              NHttp "use-db a ta;watch k;unwatch-all"; NWsFrame 2 "use-db a ta;watch k"; NClosed 2;
              NTcpLine 0 "use-db b tb"; NClosed 0; NWsFrame 2 "use-db a ta;set k v9"] in
  let n := fst (net_run nw1 evs) in
  Forall (ev_not_by 1) evs /\
  nsubs_n nw1 "a" "k" 1 = 1%nat /\ nsubs_n n "a" "k" 1 = 1%nat /\
  last (s_inbox (get_sess n 1)) "" = "changed-version k 0 v9" +++ nlS.
Proof.
  cbv zeta. split; [repeat constructor; discriminate|]. vm_compute. repeat split; reflexivity.
Qed.

(* the hypothesis "s is an open connection" of goal 5 is needed: an HTTP request runs on the next
   session number; if it watches a key, selects another database and ends, that number keeps the
   subscription (the stale subscription of WatchProofs.stale_subscription_after_db_switch) *)
Example unopened_session_number_is_not_stable :
  let evs := [NHttp "use-db a ta;watch k;use-db b tb"] in
  List.length (n_sess nw1) = 2%nat /\ Forall (ev_not_by 2) evs /\
  nsubs_n nw1 "a" "k" 2 = 0%nat /\ nsubs_n (fst (net_run nw1 evs)) "a" "k" 2 = 1%nat.
Proof.
  cbv zeta. split; [reflexivity|]. split; [repeat constructor|]. vm_compute. split; reflexivity.
Qed.

(* ====================================================================================== *)
Check term_tcp_version_error. Check term_ws_version_error.
Check tcp_set_stream. Check ws_frame_set_stream.
Check tcp_refused_stream. Check ws_frame_refused_stream.
Check tcp_version_refused_stream. Check ws_version_refused_stream.
Check conn_closed_keeps_others. Check conn_closed_silent.
Check step_wframe. Check net_run_subscription_stable. Check net_run_subscription_stable_db.
Print set_stream. Print refused_stream. Print notes. Print refused. Print refusal_msgs.
Print wframe. Print ev_not_by.
Print Assumptions term_tcp_version_error.
Print Assumptions term_ws_version_error.
Print Assumptions tcp_set_stream.
Print Assumptions ws_frame_set_stream.
Print Assumptions tcp_refused_stream.
Print Assumptions ws_frame_refused_stream.
Print Assumptions tcp_version_refused_stream.
Print Assumptions ws_version_refused_stream.
Print Assumptions conn_closed_keeps_others.
Print Assumptions conn_closed_silent.
Print Assumptions net_run_subscription_stable.
Print Assumptions net_run_subscription_stable_db.
Print Assumptions tcp_watch_set_example.
Print Assumptions tcp_set_stream_applies.
Print Assumptions stream_order_example.
Print Assumptions arbiter_refusal_reaches_the_arbiter.
Print Assumptions closing_notifies_connections_watchers.
Print Assumptions run_keeps_subscription_example.
Print Assumptions unopened_session_number_is_not_stable.
