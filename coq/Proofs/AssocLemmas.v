(* Generic lemmas about the association-list primitives of Model/Base.v. *)
From NunDB Require Import Model.Base.

Lemma nodup_snoc {A} (l : list A) x : NoDup l -> ~ In x l -> NoDup (l ++ [x]).
Proof.
  intros Hnd Hnin. apply (NoDup_Add (a:=x) (l:=l)).
  - rewrite <- (app_nil_r l) at 1. apply Add_app.
  - split; auto.
Qed.

Section Assoc.
Context {A B : Type} (eqb : A -> A -> bool).
Hypothesis eqb_spec : forall a b, reflect (a = b) (eqb a b).

Lemma eqb_refl' a : eqb a a = true.
Proof. destruct (eqb_spec a a); congruence. Qed.

Lemma eqb_neq a b : a <> b -> eqb a b = false.
Proof. destruct (eqb_spec a b); congruence. Qed.

Lemma get_set_same k (v : B) l : assoc_get eqb k (assoc_set eqb k v l) = Some v.
Proof.
  induction l as [|[k' v'] r IH]; cbn.
  - now rewrite eqb_refl'.
  - destruct (eqb k k') eqn:E; cbn; rewrite E; auto.
Qed.

Lemma get_set_other k k' (v : B) l : k <> k' ->
  assoc_get eqb k (assoc_set eqb k' v l) = assoc_get eqb k l.
Proof.
  intros Hn. induction l as [|[k2 v2] r IH]; cbn.
  - now rewrite (eqb_neq _ _ Hn).
  - destruct (eqb k' k2) eqn:E; cbn.
    + destruct (eqb_spec k' k2) as [->|]; try discriminate.
      now rewrite (eqb_neq _ _ Hn).
    + now rewrite IH.
Qed.

Lemma get_del_same k (l : list (A * B)) : assoc_get eqb k (assoc_del eqb k l) = None.
Proof.
  induction l as [|[k' v'] r IH]; cbn; auto.
  destruct (eqb k k') eqn:E; cbn; auto. now rewrite E.
Qed.

Lemma get_del_other k k' (l : list (A * B)) : k <> k' ->
  assoc_get eqb k (assoc_del eqb k' l) = assoc_get eqb k l.
Proof.
  intros Hn. induction l as [|[k2 v2] r IH]; cbn; auto.
  destruct (eqb k' k2) eqn:E; cbn.
  - destruct (eqb_spec k' k2) as [->|]; try discriminate.
    now rewrite (eqb_neq _ _ Hn).
  - now rewrite IH.
Qed.

Lemma set_same_id k (v : B) l : assoc_get eqb k l = Some v -> assoc_set eqb k v l = l.
Proof.
  induction l as [|[k' v'] r IH]; cbn; try discriminate.
  destruct (eqb k k') eqn:E.
  - intros [= ->]. reflexivity.
  - intros H. now rewrite IH.
Qed.

Lemma get_in k (v : B) l : assoc_get eqb k l = Some v -> In (k, v) l.
Proof.
  induction l as [|[k' v'] r IH]; cbn; try discriminate.
  destruct (eqb_spec k k') as [->|].
  - intros [= ->]. now left.
  - intros H. right. auto.
Qed.

Lemma get_none_notin k (l : list (A * B)) : assoc_get eqb k l = None -> ~ In k (map fst l).
Proof.
  induction l as [|[k' v'] r IH]; cbn; auto.
  destruct (eqb_spec k k') as [->|]; try discriminate.
  intros H [E|Hin]; [congruence | now apply IH].
Qed.

Lemma keys_set_present k (v v0 : B) l : assoc_get eqb k l = Some v0 ->
  map fst (assoc_set eqb k v l) = map fst l.
Proof.
  induction l as [|[k' v'] r IH]; cbn; try discriminate.
  destruct (eqb k k') eqn:E; cbn; auto.
  intros H. now rewrite IH.
Qed.

Lemma keys_set_absent k (v : B) l : assoc_get eqb k l = None ->
  map fst (assoc_set eqb k v l) = map fst l ++ [k].
Proof.
  induction l as [|[k' v'] r IH]; cbn; auto.
  destruct (eqb k k') eqn:E; cbn; try discriminate.
  intros H. now rewrite IH.
Qed.

Lemma nodup_set k (v : B) l : NoDup (map fst l) -> NoDup (map fst (assoc_set eqb k v l)).
Proof.
  intros Hnd. destruct (assoc_get eqb k l) eqn:E.
  - now rewrite (keys_set_present _ _ _ _ E).
  - rewrite (keys_set_absent _ _ _ E).
    apply (NoDup_Add (a:=k) (l:=map fst l)).
    + rewrite <- (app_nil_r (map fst l)) at 1. apply Add_app.
    + split; auto. now apply get_none_notin.
Qed.
End Assoc.
