(* ConvergeProofs.v -- property C04: live replication converges, proved on the cluster
   model (Model/Cluster.v) for any schedule of the events
     client write on the primary / primary replication thread / link delivery /
     reply delivery / secondary replication thread. *)
From NunDB Require Import Model.Base Model.Pending Model.Parse Model.Node Model.Oplog Model.Cluster
  Proofs.AssocLemmas Proofs.PendingProofs Proofs.DbProofs Proofs.ClusterProofs.
Local Open Scope Z_scope.

(* ================================================================== *)
(* Part A.  Lexical facts                                               *)
(* ================================================================== *)

Fixpoint nows (s : str) : bool :=
  match s with EmptyString => true | String a r => negb (is_ws a) && nows r end.

(* simple token: non-empty, no white space (so no space / newline), not ending with ';' *)
Definition simple_tok (s : str) : Prop := s <> "" /\ nows s = true /\ no_semi_end s.

Lemma nows_nochar c s : is_ws c = true -> nows s = true -> nochar c s = true.
Proof.
  intros Hc. induction s as [|a r IH]; cbn; auto.
  intros H. apply andb_true_iff in H as [Ha Hr]. rewrite IH by assumption.
  destruct (Ascii.eqb_spec a c) as [->|]; [rewrite Hc in Ha; discriminate|reflexivity].
Qed.

Lemma tok_no_sp s : simple_tok s -> no_sp s.
Proof. intros (_ & H & _). apply nows_nochar; auto. Qed.
Lemma tok_no_nl s : simple_tok s -> no_nl s.
Proof. intros (_ & H & _). apply nows_nochar; auto. Qed.
Lemma tok_ne s : simple_tok s -> s <> "".
Proof. intros (H & _); auto. Qed.
Lemma tok_semi s : simple_tok s -> no_semi_end s.
Proof. intros (_ & _ & H); auto. Qed.

Lemma last_char_nochar c s : nochar c s = true -> last_char s <> Some c.
Proof.
  induction s as [|a r IH]; cbn; [discriminate|].
  intros H. apply andb_true_iff in H as [Ha Hr]. apply negb_true_iff in Ha.
  specialize (IH Hr). destruct (last_char r); [exact IH|].
  intros [= ->]. rewrite Ascii.eqb_refl in Ha. discriminate.
Qed.

Lemma last_char_app_ne a b : b <> "" -> last_char (a +++ b) = last_char b.
Proof.
  intros Hb. rewrite last_char_app. destruct b as [|x b]; [congruence|].
  cbn. destruct (last_char b); reflexivity.
Qed.

Lemma last_char_nows s x : nows s = true -> last_char s = Some x -> is_ws x = false.
Proof.
  induction s as [|a r IH]; cbn; [discriminate|].
  intros H. apply andb_true_iff in H as [Ha Hr]. apply negb_true_iff in Ha.
  destruct (last_char r) as [y|]; intros [= <-]; auto.
Qed.

Lemma trim_char_noop c a r :
  Ascii.eqb a c = false -> last_char (String a r) <> Some c -> trim_char c (String a r) = String a r.
Proof.
  intros Ha Hl. unfold trim_char. cbn [drop_leading]. rewrite Ha. now apply trim_end_noop.
Qed.

(* a line "<word> <rest>" where rest is not empty and does not end with newline *)
Lemma trim_nl_line a w rest : Ascii.eqb a nl = false -> rest <> "" -> last_char rest <> Some nl ->
  trim_char nl (String a w +++ rest) = String a w +++ rest.
Proof.
  intros Ha Hr Hl. cbn [append]. apply trim_char_noop; auto.
  change (String a (w +++ rest)) with (String a w +++ rest). now rewrite last_char_app_ne.
Qed.

Lemma tok_last_nl s : simple_tok s -> last_char s <> Some nl.
Proof. intros H. apply last_char_nochar. now apply tok_no_nl. Qed.

Lemma Z_last_nl z : last_char (Z_to_str z) <> Some nl.
Proof. apply last_char_nochar, no_nl_Z. Qed.

Lemma parse_request_2 word a :
  no_sp word -> word <> "" -> no_sp a -> no_semi_end (word +++ " " +++ a) ->
  parse_request (word +++ " " +++ a) =
  match parse_cmd word [a] with Some r => r | None => PErr ("unknown command: " +++ word) end.
Proof.
  intros Hw Hne Ha Hs. unfold parse_request.
  rewrite trim_end_noop by exact Hs.
  rewrite splitn_sp_cons, splitn_sp_end by assumption.
  destruct (String.eqb_spec word ""); [contradiction|reflexivity].
Qed.

(* ---- the three client lines ------------------------------------------ *)
Definition set_line (k v : str) : str := "set " +++ k +++ " " +++ v.
Definition remove_line (k : str) : str := "remove " +++ k.
Definition inc_line (k : str) (i : Z) : str := "increment " +++ k +++ " " +++ Z_to_str i.

Lemma parse_set_line k v : simple_tok k -> simple_tok v ->
  parse_request (trim_char nl (set_line k v)) = POk (RqSet k v (-1)).
Proof.
  intros Hk Hv. unfold set_line.
  change ("set " +++ k +++ " " +++ v) with (String "s" "et " +++ (k +++ " " +++ v)).
  rewrite trim_nl_line; try reflexivity.
  2:{ destruct k; [destruct (tok_ne _ Hk); reflexivity|discriminate]. }
  2:{ rewrite last_char_app_ne by (intros E; discriminate E).
      change (" " +++ v) with (String " " "" +++ v). rewrite last_char_app_ne by (now apply tok_ne).
      now apply tok_last_nl. }
  change (String "s" "et " +++ (k +++ " " +++ v)) with ("set" +++ " " +++ k +++ " " +++ v).
  rewrite parse_request_3; try reflexivity; try discriminate; try (now apply tok_no_sp).
  2:{ repeat (rewrite <- app_assoc_s); rewrite app_assoc_s. apply no_semi_end_sep. now apply tok_semi. }
  change (parse_cmd "set" [k; v]) with (Some (POk (RqSet k (strip_nl v) (-1)))).
  rewrite strip_nl_noop by (now apply tok_no_nl). reflexivity.
Qed.

Lemma parse_remove_line k : simple_tok k ->
  parse_request (trim_char nl (remove_line k)) = POk (RqRemove k).
Proof.
  intros Hk. unfold remove_line.
  change ("remove " +++ k) with (String "r" "emove " +++ k).
  rewrite trim_nl_line; try reflexivity; try (now apply tok_ne); try (now apply tok_last_nl).
  change (String "r" "emove " +++ k) with ("remove" +++ " " +++ k).
  rewrite parse_request_2; try reflexivity; try discriminate; try (now apply tok_no_sp).
  apply no_semi_end_sep. now apply tok_semi.
Qed.

Lemma parse_inc_line k i : simple_tok k -> is_i32 i ->
  parse_request (trim_char nl (inc_line k i)) = POk (RqIncrement k i).
Proof.
  intros Hk Hi. unfold inc_line.
  change ("increment " +++ k +++ " " +++ Z_to_str i) with (String "i" "ncrement " +++ (k +++ " " +++ Z_to_str i)).
  rewrite trim_nl_line; try reflexivity.
  2:{ destruct k; [destruct (tok_ne _ Hk); reflexivity|discriminate]. }
  2:{ rewrite last_char_app_ne by (intros E; discriminate E).
      change (" " +++ Z_to_str i) with (String " " "" +++ Z_to_str i).
      rewrite last_char_app_ne by apply Z_to_str_nonempty. apply Z_last_nl. }
  change (String "i" "ncrement " +++ (k +++ " " +++ Z_to_str i)) with ("increment" +++ " " +++ k +++ " " +++ Z_to_str i).
  rewrite parse_request_3; try reflexivity; try discriminate; try (now apply tok_no_sp).
  2:{ repeat (rewrite <- app_assoc_s); rewrite app_assoc_s. apply no_semi_end_sep, no_semi_end_Z. }
  change (parse_cmd "increment" [k; Z_to_str i]) with
    (Some (POk (RqIncrement k (match parse_i32 (strip_nl (Z_to_str i)) with Some n => n | None => 1 end)))).
  rewrite strip_nl_noop by apply no_nl_Z. now rewrite parse_i32_Z.
Qed.

(* ---- the replicated operations and their wire text --------------------- *)
(* the request text the primary puts on its replication queue for an operation *)
Definition op_req (dbn : str) (o : dop) : str :=
  match o with
  | DSet k v ver _ => replicate_msg dbn k v ver
  | DRemove k => "replicate-remove " +++ dbn +++ " " +++ k
  | DInc k i _ => "replicate-increment " +++ dbn +++ " " +++ k +++ " " +++ Z_to_str i
  end.
Definition op_rq (dbn : str) (o : dop) : request :=
  match o with
  | DSet k v ver _ => RqReplicateSet dbn k v ver
  | DRemove k => RqReplicateRemove dbn k
  | DInc k i _ => RqReplicateIncrement dbn k i
  end.
(* lexical well-formedness of an operation in flight *)
Definition op_wf (o : dop) : Prop :=
  match o with
  | DSet k v ver _ => simple_tok k /\ simple_tok v /\ is_i32 ver
  | DRemove k => simple_tok k /\ k <> "$$token"
  | DInc k i _ => simple_tok k /\ is_i32 i
  end.
Definition rp_line (id : N) (req : str) : str := "rp " +++ N_to_str id +++ " " +++ req.

Lemma rp_line_mtr id req : message_to_replicate id req = rp_line id req.
Proof. reflexivity. Qed.

Lemma op_req_parse dbn o : simple_tok dbn -> op_wf o -> parse_request (op_req dbn o) = POk (op_rq dbn o).
Proof.
  intros Hd Ho. destruct o as [k v ver opp | k | k i opp]; cbn [op_req op_rq op_wf] in *.
  - destruct Ho as (Hk & Hv & Hver).
    apply replicate_roundtrip; auto using tok_no_sp, tok_no_nl, tok_semi.
  - destruct Ho as (Hk & _). apply replicate_remove_roundtrip; auto using tok_no_sp, tok_no_nl, tok_semi.
  - destruct Ho as (Hk & Hi). apply replicate_increment_roundtrip; auto using tok_no_sp, tok_no_nl, tok_semi.
Qed.

Lemma op_req_shape dbn o : simple_tok dbn -> op_wf o ->
  exists w rest, op_req dbn o = String "r" w +++ rest /\ rest <> "" /\ last_char rest <> Some nl /\ no_semi_end rest.
Proof.
  intros Hd Ho. destruct o as [k v ver opp | k | k i opp]; cbn [op_req op_wf] in *.
  - destruct Ho as (Hk & Hv & Hver). exists "eplicate ", (dbn +++ " " +++ k +++ " " +++ Z_to_str ver +++ " " +++ v).
    split; [reflexivity|]. split; [destruct dbn; [destruct (tok_ne _ Hd); reflexivity|discriminate]|].
    split.
    + repeat (rewrite <- app_assoc_s). rewrite app_assoc_s.
      change (" " +++ v) with (String " " "" +++ v). rewrite <- app_assoc_s.
      rewrite last_char_app_ne by (now apply tok_ne). now apply tok_last_nl.
    + repeat (rewrite <- app_assoc_s). rewrite app_assoc_s. apply no_semi_end_sep. now apply tok_semi.
  - destruct Ho as (Hk & _). exists "eplicate-remove ", (dbn +++ " " +++ k).
    split; [reflexivity|]. split; [destruct dbn; [destruct (tok_ne _ Hd); reflexivity|discriminate]|].
    split.
    + change (" " +++ k) with (String " " "" +++ k). rewrite <- app_assoc_s.
      rewrite last_char_app_ne by (now apply tok_ne). now apply tok_last_nl.
    + apply no_semi_end_sep. now apply tok_semi.
  - destruct Ho as (Hk & Hi). exists "eplicate-increment ", (dbn +++ " " +++ k +++ " " +++ Z_to_str i).
    split; [reflexivity|]. split; [destruct dbn; [destruct (tok_ne _ Hd); reflexivity|discriminate]|].
    split.
    + repeat (rewrite <- app_assoc_s). rewrite app_assoc_s.
      change (" " +++ Z_to_str i) with (String " " "" +++ Z_to_str i). rewrite <- app_assoc_s.
      rewrite last_char_app_ne by apply Z_to_str_nonempty. apply Z_last_nl.
    + repeat (rewrite <- app_assoc_s). rewrite app_assoc_s. apply no_semi_end_sep, no_semi_end_Z.
Qed.

Lemma op_req_trim dbn o : simple_tok dbn -> op_wf o -> trim_char nl (op_req dbn o) = op_req dbn o.
Proof.
  intros Hd Ho. destruct (op_req_shape dbn o Hd Ho) as (w & rest & -> & Hne & Hl & _).
  now apply trim_nl_line.
Qed.

Lemma op_req_ne dbn o : simple_tok dbn -> op_wf o -> op_req dbn o <> "".
Proof. intros Hd Ho. destruct (op_req_shape dbn o Hd Ho) as (w & rest & -> & _). discriminate. Qed.

Lemma op_req_semi dbn o : simple_tok dbn -> op_wf o -> no_semi_end (op_req dbn o).
Proof.
  intros Hd Ho. destruct (op_req_shape dbn o Hd Ho) as (w & rest & -> & Hne & _ & Hs).
  now apply no_semi_end_app.
Qed.

Lemma rp_line_trim dbn id o : simple_tok dbn -> op_wf o ->
  trim_char nl (rp_line id (op_req dbn o)) = rp_line id (op_req dbn o).
Proof.
  intros Hd Ho. unfold rp_line.
  change ("rp " +++ N_to_str id +++ " " +++ op_req dbn o) with (String "r" "p " +++ (N_to_str id +++ " " +++ op_req dbn o)).
  apply trim_nl_line; try reflexivity.
  - destruct (N_to_str_cons id) as (a & r & -> & _). discriminate.
  - destruct (op_req_shape dbn o Hd Ho) as (w & rest & -> & Hne & Hl & _).
    change (" " +++ String "r" w +++ rest) with (String " " (String "r" w) +++ rest).
    rewrite <- app_assoc_s. now rewrite last_char_app_ne.
Qed.

Lemma rp_line_parse dbn id o : simple_tok dbn -> op_wf o -> (id < 2 ^ 64)%N ->
  parse_request (rp_line id (op_req dbn o)) = POk (RqReplicateRequest (op_req dbn o) id).
Proof. intros Hd Ho Hid. apply rp_roundtrip; auto using op_req_ne, op_req_semi. Qed.

(* ---- reply lines --------------------------------------------------------- *)
Lemma split_char_acc_piece c p rest : forall cur, nochar c p = true ->
  split_char_acc c (p +++ String c rest) cur = (str_rev cur +++ p) :: split_char_acc c rest "".
Proof.
  induction p as [|a p IH]; intros cur H.
  - cbn [append split_char_acc]. rewrite Ascii.eqb_refl, app_nil_r_s. reflexivity.
  - cbn [nochar] in H. apply andb_true_iff in H as [Ha Hp]. apply negb_true_iff in Ha.
    cbn [append split_char_acc]. rewrite Ha, IH by assumption. f_equal.
    unfold str_rev at 1. cbn [str_rev_acc]. rewrite str_rev_acc_spec, app_assoc_s. reflexivity.
Qed.

Lemma split_char_line p : no_nl p -> split_char nl (p +++ nlS) = [p; ""].
Proof. intros H. unfold split_char, nlS. now rewrite split_char_acc_piece. Qed.

Lemma trim_sp_end a r x : is_ws a = false -> last_char (String a r) = Some x -> is_ws x = false ->
  trim (String a r +++ " ") = String a r.
Proof.
  intros Ha Hl Hx. unfold trim. cbn [append drop_ws]. rewrite Ha.
  change (String a (r +++ " ")) with (String a r +++ " "). rewrite str_rev_app.
  change (str_rev " ") with " ". cbn [append drop_ws].
  change (is_ws " ") with true. cbv iota.
  rewrite last_char_rev in Hl. destruct (str_rev (String a r)) as [|y t] eqn:E; [discriminate|].
  injection Hl as ->. cbn [drop_ws]. rewrite Hx, <- E. apply str_rev_invol.
Qed.

Definition ack_text (id : N) (name : str) : str := "ack " +++ N_to_str id +++ " " +++ name.

Lemma split_lines_ack id name : simple_tok name ->
  split_lines [ack_text id name +++ " " +++ nlS; "ok " +++ nlS] = [ack_text id name; "ok"].
Proof.
  intros Hn. cbn [split_lines].
  change (filter _ (map trim (split_char nl ("ok " +++ nlS))) ++ []) with ["ok"].
  rewrite <- app_assoc_s. rewrite split_char_line.
  2:{ unfold no_nl, ack_text. rewrite !nochar_app. rewrite (no_nl_N id), (tok_no_nl _ Hn). reflexivity. }
  cbn [map filter].
  assert (Ht : trim (ack_text id name +++ " ") = ack_text id name).
  { unfold ack_text. change ("ack " +++ N_to_str id +++ " " +++ name) with (String "a" ("ck " +++ N_to_str id +++ " " +++ name)).
    destruct (last_char name) as [x|] eqn:El.
    2:{ destruct name; [destruct (tok_ne _ Hn); reflexivity|]. cbn in El. destruct (last_char name); discriminate. }
    apply (trim_sp_end _ _ x); try reflexivity.
    - change (String "a" ("ck " +++ N_to_str id +++ " " +++ name)) with ("ack " +++ N_to_str id +++ " " +++ name).
      repeat (rewrite <- app_assoc_s).
      rewrite last_char_app_ne by (now apply tok_ne). exact El.
    - destruct Hn as (_ & Hw & _). eapply last_char_nows; eauto. }
  rewrite Ht. change (trim "") with "". cbn [String.eqb negb].
  destruct (String.eqb_spec (ack_text id name) ""); [discriminate e|reflexivity].
Qed.

Lemma ack_text_parse id name : simple_tok name -> (id < 2 ^ 64)%N ->
  parse_request (trim_char nl (ack_text id name)) = POk (RqAcknowledge id name).
Proof.
  intros Hn Hid. unfold ack_text.
  change ("ack " +++ N_to_str id +++ " " +++ name) with (String "a" "ck " +++ (N_to_str id +++ " " +++ name)).
  rewrite trim_nl_line; try reflexivity.
  2:{ destruct (N_to_str_cons id) as (a & r & -> & _). discriminate. }
  2:{ change (" " +++ name) with (String " " "" +++ name). rewrite <- app_assoc_s.
      rewrite last_char_app_ne by (now apply tok_ne). now apply tok_last_nl. }
  apply ack_roundtrip; auto using tok_ne, tok_semi.
Qed.

(* ================================================================== *)
(* Part B.  Projections of node functions                               *)
(* ================================================================== *)
Local Open Scope nat_scope.

Lemma length_list_update {A} (l : list A) i x : length (list_update l i x) = length l.
Proof. revert i; induction l as [|a l IH]; intros [|i]; cbn; auto. Qed.

Lemma nth_update_same {A} (l : list A) i x d : i < length l -> nth i (list_update l i x) d = x.
Proof. revert i; induction l as [|a l IH]; intros [|i] H; cbn in *; try lia; auto. apply IH. lia. Qed.

Lemma nth_update_other {A} (l : list A) i x d j : j <> i -> nth j (list_update l i x) d = nth j l d.
Proof. revert i j; induction l as [|a l IH]; intros [|i] [|j] H; cbn; auto; try congruence. Qed.

Lemma nth_error_update_same {A} (l : list A) i x : i < length l -> nth_error (list_update l i x) i = Some x.
Proof. revert i; induction l as [|a l IH]; intros [|i] H; cbn in *; try lia; auto. apply IH. lia. Qed.

Lemma nth_error_update_other {A} (l : list A) i x j : j <> i -> nth_error (list_update l i x) j = nth_error l j.
Proof. revert i j; induction l as [|a l IH]; intros [|i] [|j] H; cbn; auto; try congruence. Qed.

Lemma nth_update_attr {A B} (f : A -> B) (l : list A) i x d j :
  (i < length l -> f x = f (nth i l d)) -> f (nth j (list_update l i x) d) = f (nth j l d).
Proof.
  intros H. destruct (Nat.eq_dec j i) as [->|Hne].
  - destruct (Nat.lt_ge_cases i (length l)) as [Hlt|Hge].
    + rewrite nth_update_same by assumption. auto.
    + rewrite !nth_overflow; auto. now rewrite length_list_update.
  - now rewrite nth_update_other.
Qed.

Definition sattr (s : sess) := (s_auth s, s_db s, s_user s, s_member s).

(* everything of a node except databases, clock, replication queue and session inboxes *)
Record frame (n n' : node) : Prop := mkFrame {
  fr_role : n_role n' = n_role n;
  fr_addr : n_addr n' = n_addr n;
  fr_members : n_members n' = n_members n;
  fr_pending : n_pending n' = n_pending n;
  fr_sup : n_sup n' = n_sup n;
  fr_len : length (n_sess n') = length (n_sess n);
  fr_sess : forall c, sattr (get_sess n' c) = sattr (get_sess n c) }.

Lemma frame_refl n : frame n n.
Proof. constructor; auto. Qed.
Lemma frame_trans a b c : frame a b -> frame b c -> frame a c.
Proof.
  intros H1 H2. constructor.
  - rewrite (fr_role _ _ H2). apply H1.
  - rewrite (fr_addr _ _ H2). apply H1.
  - rewrite (fr_members _ _ H2). apply H1.
  - rewrite (fr_pending _ _ H2). apply H1.
  - rewrite (fr_sup _ _ H2). apply H1.
  - rewrite (fr_len _ _ H2). apply H1.
  - intros x. rewrite (fr_sess _ _ H2). apply H1.
Qed.

Lemma frame_put_sess n c s : sattr s = sattr (get_sess n c) -> frame n (put_sess n c s).
Proof.
  intros H. constructor; auto.
  - cbn. apply length_list_update.
  - intros c'. unfold put_sess, get_sess. cbn [n_sess n_set_sess].
    apply nth_update_attr. intros _. exact H.
Qed.
Lemma frame_send n c m : frame n (send n c m).
Proof. apply frame_put_sess. reflexivity. Qed.
Lemma frame_sends l : forall n, frame n (sends n l).
Proof.
  unfold sends. induction l as [|p r IH]; cbn [fold_left]; intros n; [apply frame_refl|].
  eapply frame_trans; [apply frame_send|apply IH].
Qed.
Lemma frame_put_db n x d : frame n (put_db n x d).
Proof. constructor; auto. Qed.
Lemma frame_set_clock n k : frame n (n_set_clock n k).
Proof. constructor; auto. Qed.
Lemma frame_set_repl n k : frame n (n_set_repl n k).
Proof. constructor; auto. Qed.
Lemma frame_replicate_web n m : frame n (replicate_web n m).
Proof. constructor; auto. Qed.
Lemma frame_drain n c : frame n (fst (drain n c)).
Proof. unfold drain. cbn [fst]. apply frame_put_sess. reflexivity. Qed.

Lemma n_dbs_replicate_web n m : n_dbs (replicate_web n m) = n_dbs n.
Proof. reflexivity. Qed.
Lemma n_repl_replicate_web n m : n_repl (replicate_web n m) = n_repl n ++ [rp_line (n_clock n) m].
Proof. reflexivity. Qed.
Lemma n_clock_replicate_web n m : n_clock (replicate_web n m) = (n_clock n + 1)%N.
Proof. reflexivity. Qed.
Lemma get_sess_replicate_web n m c : get_sess (replicate_web n m) c = get_sess n c.
Proof. reflexivity. Qed.

Lemma auth_in_range n c : s_auth (get_sess n c) = true -> c < length (n_sess n).
Proof.
  intros H. destruct (Nat.lt_ge_cases c (length (n_sess n))) as [|Hge]; auto.
  unfold get_sess in H. rewrite nth_overflow in H by assumption. discriminate.
Qed.
Lemma get_sess_send_same n c m : c < length (n_sess n) -> get_sess (send n c m) c = sess_push (get_sess n c) m.
Proof. intros H. unfold send, put_sess, get_sess at 1. cbn [n_sess n_set_sess]. now apply nth_update_same. Qed.
Lemma get_sess_send_other n c m c' : c' <> c -> get_sess (send n c m) c' = get_sess n c'.
Proof. intros H. unfold send, put_sess, get_sess at 1. cbn [n_sess n_set_sess]. now apply nth_update_other. Qed.
Lemma get_sess_sends_other l c' : forall n, Forall (fun p => fst p <> c') l -> get_sess (sends n l) c' = get_sess n c'.
Proof.
  unfold sends. induction l as [|p r IH]; cbn [fold_left]; intros n H; auto.
  inversion H; subst. rewrite IH by assumption. apply get_sess_send_other. auto.
Qed.
Lemma get_sess_put_db n x d c : get_sess (put_db n x d) c = get_sess n c.
Proof. reflexivity. Qed.

Lemma db_apply_meta d o : d_strat (db_apply d o) = d_strat d /\ d_watch (db_apply d o) = d_watch d /\ d_id (db_apply d o) = d_id d.
Proof.
  destruct o as [k v ver opp | k | k i opp]; cbn [db_apply].
  - unfold set_value. destruct (get_value d _); [destruct (_ && _)|]; cbn; auto.
  - unfold remove_value. destruct (String.eqb k "$$token"); cbn; auto.
    destruct (get_value d k) as [v|]; auto. destruct (v_st v); cbn; auto.
  - unfold inc_value. destruct (parse_i32 _); [destruct (_ && _)|]; cbn; auto.
Qed.

Lemma dop_resp_not_value d o a b c : dop_resp d o <> RValue a b c.
Proof.
  destruct o as [k v ver opp | k | k i opp]; cbn [dop_resp].
  - unfold set_value. destruct (get_value d _); [destruct (_ && _)|]; cbn; discriminate.
  - unfold remove_value. destruct (String.eqb k "$$token"); cbn; discriminate.
  - unfold inc_value. destruct (parse_i32 _); [destruct (_ && _)|]; cbn; discriminate.
Qed.

(* the messages a mutation sends go to watchers of the database only *)
Definition no_watch (d : db) (c : nat) : Prop := forall k, ~ In c (watchers_of d k).

Lemma notify_msgs_targets d k v ver c : no_watch d c -> Forall (fun p => fst p <> c) (notify_msgs d k v ver).
Proof.
  intros H. unfold notify_msgs. specialize (H k). induction (watchers_of d k) as [|s l IH]; cbn; auto.
  constructor; [|constructor]; cbn; try (intros ->; apply H; now left).
  apply IH. intros Hin. apply H. now right.
Qed.

Lemma dop_msgs_targets d o c : no_watch d c ->
  Forall (fun p => fst p <> c)
    (match o with
     | DSet k v ver opp => snd (set_value d (mkCh k v ver opp false))
     | DRemove k => snd (remove_value d k)
     | DInc k i opp => snd (inc_value d k i opp)
     end).
Proof.
  intros H. destruct o as [k v ver opp | k | k i opp].
  - unfold set_value. destruct (get_value d _); [destruct (_ && _)|]; cbn [snd c_key c_val]; auto using notify_msgs_targets.
  - unfold remove_value. destruct (String.eqb k "$$token"); cbn [snd]; auto.
    specialize (H k). induction (watchers_of d k) as [|s l IH]; cbn; auto.
    constructor; cbn; [intros ->; apply H; now left|]. apply IH. intros Hin. apply H. now right.
  - unfold inc_value. destruct (parse_i32 _); [destruct (_ && _)|]; cbn [snd]; auto using notify_msgs_targets.
Qed.

Lemma no_watch_apply d o c : no_watch d c -> no_watch (db_apply d o) c.
Proof.
  intros H k. unfold watchers_of. destruct (db_apply_meta d o) as (_ & -> & _). apply H.
Qed.

(* ---- process / replicate_request ----------------------------------------- *)
Lemma process_plain k n c line rq : parse_request (trim_char nl line) = POk rq ->
  (forall r i, rq <> RqReplicateRequest r i) ->
  process (S k) n c line =
  let '(n1, r) := handle n c rq in replicate_request n1 rq (s_db (get_sess n c)) r.
Proof.
  intros Hp Hne. cbn [process]. rewrite Hp. destruct rq; try reflexivity.
  exfalso. eapply Hne. reflexivity.
Qed.

Lemma process_rp k n c line req id : parse_request (trim_char nl line) = POk (RqReplicateRequest req id) ->
  s_auth (get_sess n c) = true ->
  process (S k) n c line =
  let '(n1, r) := process k (send n c ("ack " +++ N_to_str id +++ " " +++ n_addr n +++ " " +++ nlS)) c req in
  replicate_request n1 (RqReplicateRequest req id) (s_db (get_sess n c)) r.
Proof. intros Hp Ha. cbn [process]. rewrite Hp, Ha. reflexivity. Qed.

Lemma rr_refused n rq sd r : resp_ok r = false -> (forall a b c, r <> RValue a b c) ->
  replicate_request n rq sd r = (n, r).
Proof. intros H Hv. destruct r; try reflexivity; try discriminate. exfalso. eapply Hv. reflexivity. Qed.

Lemma rr_rp_fst n req id sd r : fst (replicate_request n (RqReplicateRequest req id) sd r) = n.
Proof. unfold replicate_request. destruct r; try reflexivity; destruct sd as [nm|]; try reflexivity; destruct (negb (has_db n nm)); reflexivity. Qed.

Lemma rr_rp_none n req id r : replicate_request n (RqReplicateRequest req id) None r = (n, r).
Proof. destruct r; reflexivity. Qed.

(* ---- client operations ------------------------------------------------------ *)
Inductive cop := CSet (k v : str) | CRem (k : str) | CInc (k : str) (i : Z).
Definition cop_line (w : cop) : str :=
  match w with CSet k v => set_line k v | CRem k => remove_line k | CInc k i => inc_line k i end.
Definition cop_rq (w : cop) : request :=
  match w with CSet k v => RqSet k v (-1) | CRem k => RqRemove k | CInc k i => RqIncrement k i end.
Definition cop_dop (w : cop) (opp : N) : dop :=
  match w with CSet k v => DSet k v (-1) opp | CRem k => DRemove k | CInc k i => DInc k i opp end.
Definition cop_ok (w : cop) : Prop :=
  match w with
  | CSet k v => simple_tok k /\ simple_tok v
  | CRem k => simple_tok k
  | CInc k i => simple_tok k /\ is_i32 i
  end.

Lemma parse_cop w : cop_ok w -> parse_request (trim_char nl (cop_line w)) = POk (cop_rq w).
Proof.
  destruct w; cbn [cop_ok cop_line cop_rq].
  - intros [? ?]. now apply parse_set_line.
  - apply parse_remove_line.
  - intros [? ?]. now apply parse_inc_line.
Qed.

Lemma cop_rq_not_rp w r i : cop_rq w <> RqReplicateRequest r i.
Proof. destruct w; discriminate. Qed.
Lemma op_rq_not_rp dbn o r i : op_rq dbn o <> RqReplicateRequest r i.
Proof. destruct o; discriminate. Qed.

Lemma rr_cop n w sel r opp : resp_ok r = true -> has_db n sel = true ->
  replicate_request n (cop_rq w) (Some sel) r = (replicate_web n (op_req sel (cop_dop w opp)), ROk).
Proof.
  intros Hr Hd. destruct r; try discriminate Hr; destruct w; unfold replicate_request; cbn [cop_rq]; rewrite Hd; reflexivity.
Qed.

Lemma rr_op n dbn o r : resp_ok r = true ->
  replicate_request n (op_rq dbn o) None r = (replicate_web n (op_req dbn o), ROk).
Proof. intros Hr. destruct r; try discriminate Hr; destruct o; reflexivity. Qed.

Lemma same_op_refl o : same_op o o.
Proof. destruct o; cbn; auto. Qed.
Lemma same_ops_refl l : same_ops l l.
Proof. induction l; constructor; auto using same_op_refl. Qed.
Lemma cop_dop_same w a b : same_op (cop_dop w a) (cop_dop w b).
Proof. destruct w; cbn; auto. Qed.

Lemma guard_safe_stop n c key req n' r : guard_safe n c key req = GStop n' r ->
  frame n n' /\ n_dbs n' = n_dbs n /\ n_repl n' = n_repl n /\ n_clock n' = n_clock n /\
  resp_ok r = false /\ (forall a b c0, r <> RValue a b c0).
Proof.
  unfold guard_safe, guard_db_name, reject_no_db.
  destruct (_ && _).
  { intros [= <- <-]. split; [apply frame_refl|]. repeat split; auto; discriminate. }
  destruct (s_db (get_sess n c)) as [nm|].
  2:{ intros [= <- <-]. split; [apply frame_send|]. repeat split; auto; discriminate. }
  destruct (get_db n nm) as [d0|].
  2:{ intros [= <- <-]. split; [apply frame_send|]. repeat split; auto; discriminate. }
  destruct (has_permission n c key d0 req); [discriminate|].
  intros [= <- <-]. split; [apply frame_send|]. repeat split; auto; discriminate.
Qed.

(* ================================================================== *)
(* Part C.  One client write at the primary (node level)                *)
(* ================================================================== *)
Local Open Scope N_scope.

Lemma upd_node n0 dbn d' msgs :
  let n1 := sends (put_db n0 dbn d') msgs in
  frame n0 n1 /\ n_repl n1 = n_repl n0 /\ n_clock n1 = n_clock n0 /\ get_db n1 dbn = Some d'.
Proof.
  cbv zeta. split; [eapply frame_trans; [apply frame_put_db|apply frame_sends]|].
  rewrite n_repl_sends, n_clock_sends, get_db_sends, get_db_put_same. auto.
Qed.

Lemma is_primary_frame n n' : frame n n' -> is_primary n' = is_primary n.
Proof. intros H. unfold is_primary. now rewrite (fr_role _ _ H). Qed.

Lemma handle_cop n c w dbn d :
  is_primary n = true -> s_db (get_sess n c) = Some dbn -> get_db n dbn = Some d -> d_strat d = SNone ->
  let res := handle n c (cop_rq w) in
  frame n (fst res) /\ n_repl (fst res) = n_repl n /\
  (n_clock n <= n_clock (fst res) <= n_clock n + 1) /\
  ((resp_ok (snd res) = false /\ (forall a b c0, snd res <> RValue a b c0) /\ get_db (fst res) dbn = Some d)
   \/ (exists opp, snd res = dop_resp d (cop_dop w opp) /\ get_db (fst res) dbn = Some (db_apply d (cop_dop w opp)))).
Proof.
  intros Hp Hs Hdb Hst. cbv zeta.
  assert (Hstop : forall key req n' r, guard_safe n c key req = GStop n' r ->
            frame n n' /\ n_repl n' = n_repl n /\ (n_clock n <= n_clock n' <= n_clock n + 1) /\
            ((resp_ok r = false /\ (forall a b c0, r <> RValue a b c0) /\ get_db n' dbn = Some d)
             \/ (exists opp, r = dop_resp d (cop_dop w opp) /\ get_db n' dbn = Some (db_apply d (cop_dop w opp))))).
  { intros key req n' r Hg. apply guard_safe_stop in Hg as (Hf & Hd & Hr & Hc & Hno & Hnv).
    split; auto. split; auto. split; [lia|]. left. split; auto. split; auto. unfold get_db. now rewrite Hd. }
  assert (Hgo : forall key req dbn' d', guard_safe n c key req = GGo dbn' d' -> dbn' = dbn /\ d' = d).
  { intros key req dbn' d' Hg. apply guard_safe_go in Hg as [H1 H2]. rewrite Hs in H1. injection H1 as <-.
    rewrite Hdb in H2. injection H2 as <-. auto. }
  destruct w as [k v | k | k i]; cbn [cop_rq cop_dop].
  - change (handle n c (RqSet k v (-1))) with
      (match guard_safe n c k PWrite with
       | GStop n' r => (n', r)
       | GGo dbn d =>
           let '(n1, r) := set_key_value n dbn k v (-1) in
           let n2 := if is_primary n1 then n1 else send_to_primary n1 (replicate_msg dbn k v (-1)) in
           (n2, r)
       end).
    destruct (guard_safe n c k PWrite) as [dbn' d' | n' r] eqn:Hg; [|cbn [fst snd]; eapply Hstop; eauto].
    destruct (Hgo _ _ _ _ Hg) as [-> ->].
    unfold set_key_value, tick.
    rewrite (apply_change_none _ dbn d) by auto.
    set (ch := mkCh k v (-1) (n_clock n) false).
    set (nc := n_set_clock n (n_clock n + 1)).
    assert (Hfc : frame n nc) by apply frame_set_clock.
    destruct (resp_ok (snd (fst (set_value d ch)))) eqn:Eok.
    + destruct (upd_node nc dbn (fst (fst (set_value d ch))) (snd (set_value d ch))) as (Hf1 & Hr1 & Hc1 & Hd1).
      cbv zeta.
      rewrite (is_primary_frame nc) by assumption. rewrite (is_primary_frame n nc), Hp by assumption.
      cbn [fst snd]. split; [eapply frame_trans; eauto|]. split; [rewrite Hr1; reflexivity|].
      split; [rewrite Hc1; cbn; lia|]. right. exists (n_clock n). split; [reflexivity|exact Hd1].
    + cbv zeta. rewrite (is_primary_frame n nc), Hp by assumption. cbn [fst snd].
      split; auto. split; [reflexivity|]. split; [cbn; lia|]. right. exists (n_clock n). split; [reflexivity|].
      rewrite (refused_changes_nothing d (DSet k v (-1) (n_clock n))) by exact Eok. exact Hdb.
  - change (handle n c (RqRemove k)) with
      (match guard_safe n c k PRemove with
       | GStop n' r => (n', r)
       | GGo dbn d =>
           let '(d', r, msgs) := remove_value d k in
           let n1 := sends (put_db n dbn d') msgs in
           ((match r with
             | ROk => if is_primary n1 then n1 else send_to_primary n1 ("replicate-remove " +++ dbn +++ " " +++ k)
             | _ => n1 end), r)
       end).
    destruct (guard_safe n c k PRemove) as [dbn' d' | n' r] eqn:Hg; [|cbn [fst snd]; eapply Hstop; eauto].
    destruct (Hgo _ _ _ _ Hg) as [-> ->].
    cbn [dop_resp db_apply].
    destruct (remove_value d k) as [[d' r] msgs]. cbv zeta. cbn [fst snd].
    destruct (upd_node n dbn d' msgs) as (Hf1 & Hr1 & Hc1 & Hd1).
    assert (E : match r with
                | ROk => if is_primary (sends (put_db n dbn d') msgs) then sends (put_db n dbn d') msgs
                         else send_to_primary (sends (put_db n dbn d') msgs) ("replicate-remove " +++ dbn +++ " " +++ k)
                | _ => sends (put_db n dbn d') msgs end = sends (put_db n dbn d') msgs).
    { rewrite (is_primary_frame n) by assumption. rewrite Hp. destruct r; reflexivity. }
    rewrite E. split; auto. split; auto. split; [rewrite Hc1; lia|]. right. exists 0. auto.
  - change (handle n c (RqIncrement k i)) with
      (match guard_safe n c k PIncrement with
       | GStop n' r => (n', r)
       | GGo dbn d =>
           if is_primary n then
             let '(n1, id) := tick n in
             let '(d', r, msgs) := inc_value d k i id in
             (sends (put_db n1 dbn d') msgs, r)
           else
             (send_to_primary n ("replicate-increment " +++ dbn +++ " " +++ k +++ " " +++ Z_to_str i), ROk)
       end).
    destruct (guard_safe n c k PIncrement) as [dbn' d' | n' r] eqn:Hg; [|cbn [fst snd]; eapply Hstop; eauto].
    destruct (Hgo _ _ _ _ Hg) as [-> ->]. rewrite Hp. unfold tick.
    set (nc := n_set_clock n (n_clock n + 1)).
    assert (Hfc : frame n nc) by apply frame_set_clock.
    cbn [dop_resp db_apply].
    destruct (inc_value d k i (n_clock n)) as [[d' r] msgs] eqn:E. cbn [fst snd].
    destruct (upd_node nc dbn d' msgs) as (Hf1 & Hr1 & Hc1 & Hd1).
    split; [eapply frame_trans; eauto|]. split; [rewrite Hr1; reflexivity|].
    split; [rewrite Hc1; cbn; lia|]. right. exists (n_clock n). rewrite E. auto.
Qed.

Lemma cop_wf w opp d : cop_ok w -> resp_ok (dop_resp d (cop_dop w opp)) = true -> op_wf (cop_dop w opp).
Proof.
  destruct w as [k v | k | k i]; cbn [cop_ok cop_dop op_wf].
  - intros [? ?] _. split; [|split]; auto. unfold is_i32; lia.
  - intros Hk Hr. split; auto. intros ->. cbn in Hr. discriminate.
  - intros [? ?] _. auto.
Qed.

Theorem primary_step n c w dbn d :
  cop_ok w -> is_primary n = true -> s_db (get_sess n c) = Some dbn -> get_db n dbn = Some d -> d_strat d = SNone ->
  let res := step n c (cop_line w) in
  frame n (fst res) /\ (n_clock n <= n_clock (fst res) <= n_clock n + 2) /\
  if resp_ok (snd res) then
    exists opp id, op_wf (cop_dop w opp) /\ resp_ok (dop_resp d (cop_dop w opp)) = true /\
      get_db (fst res) dbn = Some (db_apply d (cop_dop w opp)) /\
      n_repl (fst res) = n_repl n ++ [rp_line id (op_req dbn (cop_dop w opp))] /\
      n_clock n <= id < n_clock (fst res)
  else get_db (fst res) dbn = Some d /\ n_repl (fst res) = n_repl n.
Proof.
  intros Hok Hp Hs Hdb Hst. cbv zeta. unfold step.
  rewrite (process_plain _ _ _ _ (cop_rq w)) by (auto using parse_cop, cop_rq_not_rp).
  rewrite Hs.
  pose proof (handle_cop n c w dbn d Hp Hs Hdb Hst) as H. cbv zeta in H.
  destruct (handle n c (cop_rq w)) as [n1 r]. cbn [fst snd] in H.
  destruct H as (Hf & Hrepl & Hclk & [(Hno & Hnv & Hdb1) | (opp & Hr & Hdb1)]).
  - rewrite rr_refused by assumption. cbn [fst snd]. rewrite Hno. split; auto. split; [lia|]. auto.
  - destruct (resp_ok r) eqn:Eok.
    + rewrite (rr_cop _ _ _ _ opp) by (auto; unfold has_db; now rewrite Hdb1).
      cbn [fst snd resp_ok]. split; [eapply frame_trans; [exact Hf|apply frame_replicate_web]|].
      rewrite n_clock_replicate_web. split; [lia|].
      exists opp, (n_clock n1). rewrite <- Hr.
      split; [apply (cop_wf w opp d); auto; now rewrite <- Hr|]. split; auto.
      split; [exact Hdb1|]. split; [rewrite n_repl_replicate_web, Hrepl; reflexivity|lia].
    + rewrite rr_refused by (auto; subst r; apply dop_resp_not_value). cbn [fst snd]. rewrite Eok.
      split; auto. split; [lia|]. split; auto.
      rewrite refused_changes_nothing in Hdb1 by (now rewrite <- Hr). exact Hdb1.
Qed.

(* ================================================================== *)
(* Part D.  One replicated line handled at a secondary (node level)     *)
(* ================================================================== *)

Lemma handle_op n c dbn o d :
  s_auth (get_sess n c) = true -> get_db n dbn = Some d -> d_strat d = SNone -> no_watch d c ->
  let res := handle n c (op_rq dbn o) in
  exists o', same_op o o' /\ frame n (fst res) /\ n_repl (fst res) = n_repl n /\
    (n_clock n <= n_clock (fst res) <= n_clock n + 1) /\
    get_db (fst res) dbn = Some (db_apply d o') /\ get_sess (fst res) c = get_sess n c /\
    snd res = (match o with DInc _ _ _ => ROk | _ => dop_resp d o' end).
Proof.
  intros Ha Hdb Hst Hw. cbv zeta.
  destruct o as [k v ver opp0 | k | k i opp0]; cbn [op_rq].
  - change (handle n c (RqReplicateSet dbn k v ver)) with
      (if negb (s_auth (get_sess n c)) then (n, not_auth) else
       match get_db n dbn with
       | Some _ => set_key_value n dbn k v ver
       | None => (n, RError "Not a valid database name")
       end).
    rewrite Ha, Hdb. cbn [negb]. unfold set_key_value, tick.
    rewrite (apply_change_none _ dbn d) by auto.
    exists (DSet k v ver (n_clock n)). split; [cbn; auto|].
    set (ch := mkCh k v ver (n_clock n) false).
    set (nc := n_set_clock n (n_clock n + 1)).
    assert (Hfc : frame n nc) by apply frame_set_clock.
    destruct (resp_ok (snd (fst (set_value d ch)))) eqn:Eok; cbn [fst snd].
    + destruct (upd_node nc dbn (fst (fst (set_value d ch))) (snd (set_value d ch))) as (Hf1 & Hr1 & Hc1 & Hd1).
      split; [eapply frame_trans; eauto|]. split; [rewrite Hr1; reflexivity|].
      split; [rewrite Hc1; cbn; lia|]. split; [exact Hd1|]. split; [|reflexivity].
      rewrite get_sess_sends_other; [reflexivity|].
      apply (dop_msgs_targets d (DSet k v ver (n_clock n)) c Hw).
    + split; auto. split; [reflexivity|]. split; [cbn; lia|].
      split; [|split; reflexivity].
      rewrite (refused_changes_nothing d (DSet k v ver (n_clock n))) by exact Eok. exact Hdb.
  - change (handle n c (RqReplicateRemove dbn k)) with
      (if negb (s_auth (get_sess n c)) then (n, not_auth) else
       match get_db n dbn with
       | Some d => let '(d', r, msgs) := remove_value d k in (sends (put_db n dbn d') msgs, r)
       | None => (n, RError "Not a valid database name")
       end).
    rewrite Ha, Hdb. cbn [negb].
    exists (DRemove k). split; [cbn; auto|]. cbn [dop_resp db_apply].
    pose proof (dop_msgs_targets d (DRemove k) c Hw) as Ht. cbv iota beta in Ht.
    destruct (remove_value d k) as [[d' r] msgs]. cbn [fst snd] in *.
    destruct (upd_node n dbn d' msgs) as (Hf1 & Hr1 & Hc1 & Hd1).
    split; auto. split; auto. split; [rewrite Hc1; lia|]. split; auto. split; [|reflexivity].
    rewrite get_sess_sends_other; [reflexivity|exact Ht].
  - change (handle n c (RqReplicateIncrement dbn k i)) with
      (if negb (s_auth (get_sess n c)) then (n, not_auth) else
       match get_db n dbn with
       | Some d =>
           let '(n1, id) := tick n in
           let '(d', _, msgs) := inc_value d k i id in
           (sends (put_db n1 dbn d') msgs, ROk)
       | None => (n, RError "Not a valid database name")
       end).
    rewrite Ha, Hdb. cbn [negb]. unfold tick.
    exists (DInc k i (n_clock n)). split; [cbn; auto|]. cbn [dop_resp db_apply].
    pose proof (dop_msgs_targets d (DInc k i (n_clock n)) c Hw) as Ht. cbv iota beta in Ht.
    set (nc := n_set_clock n (n_clock n + 1)).
    assert (Hfc : frame n nc) by apply frame_set_clock.
    destruct (inc_value d k i (n_clock n)) as [[d' r] msgs]. cbn [fst snd] in *.
    destruct (upd_node nc dbn d' msgs) as (Hf1 & Hr1 & Hc1 & Hd1).
    split; [eapply frame_trans; eauto|]. split; [rewrite Hr1; reflexivity|].
    split; [rewrite Hc1; cbn; lia|]. split; auto. split; [|reflexivity].
    rewrite get_sess_sends_other; [reflexivity|exact Ht].
Qed.

Lemma op_resp_not_error d o o' msg : op_wf o -> same_op o o' ->
  (match o with DInc _ _ _ => ROk | _ => dop_resp d o' end) <> RError msg.
Proof.
  destruct o as [k v ver opp | k | k i opp], o' as [k' v' ver' opp' | k' | k' i' opp']; cbn [same_op]; try tauto;
    try discriminate.
  - intros _ _. cbn [dop_resp]. unfold set_value. destruct (get_value d _); [destruct (_ && _)|]; cbn; discriminate.
  - intros [_ Hk] <-. cbn [dop_resp]. unfold remove_value.
    destruct (String.eqb_spec k "$$token"); [contradiction|cbn; discriminate].
Qed.


Lemma ack_msg_eq id addr : "ack " +++ N_to_str id +++ " " +++ addr +++ " " +++ nlS = ack_text id addr +++ " " +++ nlS.
Proof. unfold ack_text. now rewrite !app_assoc_s. Qed.

Theorem secondary_step n sv dbn d id o :
  simple_tok dbn -> op_wf o -> id < 2 ^ 64 ->
  s_auth (get_sess n sv) = true -> s_db (get_sess n sv) = None -> s_inbox (get_sess n sv) = [] ->
  get_db n dbn = Some d -> d_strat d = SNone -> no_watch d sv ->
  let res := step n sv (rp_line id (op_req dbn o)) in
  exists o', same_op o o' /\ frame n (fst res) /\ (n_clock n <= n_clock (fst res) <= n_clock n + 2) /\
    get_db (fst res) dbn = Some (db_apply d o') /\
    s_inbox (get_sess (fst res) sv) = [ack_text id (n_addr n) +++ " " +++ nlS] /\
    (forall msg, snd res <> RError msg).
Proof.
  intros Hd Ho Hid Ha Hsd Hin Hdb Hst Hw. cbv zeta. unfold step.
  assert (HL : exists L, String.length (rp_line id (op_req dbn o)) = S (S L)) by (eexists; reflexivity).
  destruct HL as [L HL]. rewrite HL.
  rewrite (process_rp _ _ _ _ (op_req dbn o) id) by (auto; rewrite rp_line_trim by auto; now apply rp_line_parse).
  rewrite ack_msg_eq.
  set (n0 := send n sv (ack_text id (n_addr n) +++ " " +++ nlS)).
  assert (Hf0 : frame n n0) by apply frame_send.
  assert (Hs0 : get_sess n0 sv = sess_push (get_sess n sv) (ack_text id (n_addr n) +++ " " +++ nlS)).
  { apply get_sess_send_same. now apply auth_in_range. }
  assert (Ha0 : s_auth (get_sess n0 sv) = true) by (rewrite Hs0; exact Ha).
  assert (Hsd0 : s_db (get_sess n0 sv) = None) by (rewrite Hs0; exact Hsd).
  rewrite (process_plain _ _ _ _ (op_rq dbn o))
    by (auto using op_rq_not_rp; rewrite op_req_trim by auto; now apply op_req_parse).
  rewrite Hsd0, Hsd.
  destruct (handle_op n0 sv dbn o d Ha0 Hdb Hst Hw) as (o' & Hso & Hf1 & Hr1 & Hc1 & Hd1 & Hs1 & Hresp).
  destruct (handle n0 sv (op_rq dbn o)) as [n1 r]. cbn [fst snd] in *.
  exists o'. split; auto.
  assert (Hne : forall msg, r <> RError msg) by (intros msg; rewrite Hresp; now apply op_resp_not_error).
  assert (Hin1 : s_inbox (get_sess n1 sv) = [ack_text id (n_addr n) +++ " " +++ nlS]).
  { rewrite Hs1, Hs0. cbn [sess_push s_inbox]. now rewrite Hin. }
  destruct (resp_ok r) eqn:Eok.
  - rewrite rr_op by assumption. rewrite rr_rp_none. cbn [fst snd].
    split; [eapply frame_trans; [exact Hf0|eapply frame_trans; [exact Hf1|apply frame_replicate_web]]|].
    rewrite n_clock_replicate_web. split; [change (n_clock n0) with (n_clock n) in Hc1; lia|].
    split; [exact Hd1|]. split; [exact Hin1|discriminate].
  - rewrite rr_refused; [|assumption|].
    2:{ intros a b c0. rewrite Hresp. destruct o; try discriminate; apply dop_resp_not_value. }
    rewrite rr_rp_none. cbn [fst snd].
    split; [eapply frame_trans; eauto|]. split; [change (n_clock n0) with (n_clock n) in Hc1; lia|].
    split; [exact Hd1|]. split; [exact Hin1|exact Hne].
Qed.

(* ================================================================== *)
(* Part E.  The primary's replication thread (cnode level)              *)
(* ================================================================== *)
Fixpoint ids_from (b : N) (l : list N) (hi : N) : Prop :=
  match l with [] => b <= hi | i :: r => b <= i /\ ids_from (i + 1) r hi end.
Definition pend_below (p : pstate) (b : N) : Prop := forall id, is_pending p id = true -> id < b.

Lemma ids_from_le l : forall b hi, ids_from b l hi -> b <= hi.
Proof. induction l as [|i l IH]; cbn; intros b hi H; auto. destruct H as [H1 H2]. apply IH in H2. lia. Qed.
Lemma ids_from_mono_hi l : forall b hi hi', hi <= hi' -> ids_from b l hi -> ids_from b l hi'.
Proof. induction l as [|i l IH]; cbn; intros b hi hi' Hle H; [lia|]. destruct H; split; eauto. Qed.
Lemma ids_from_snoc l : forall b hi i, ids_from b l hi -> hi <= i -> ids_from b (l ++ [i]) (i + 1).
Proof.
  induction l as [|j l IH]; cbn; intros b hi i H Hle.
  - split; lia.
  - destruct H; split; eauto.
Qed.
Lemma ids_from_lt l : forall b hi, ids_from b l hi -> Forall (fun i => i < hi) l.
Proof.
  induction l as [|i l IH]; cbn; intros b hi H; constructor.
  - destruct H as [_ H]. apply ids_from_le in H. lia.
  - destruct H as [_ H]. eauto.
Qed.

Lemma pend_below_mono p b b' : b <= b' -> pend_below p b -> pend_below p b'.
Proof. intros Hle H id Hi. specialize (H id Hi). lia. Qed.

Lemma is_pending_register p id req m id' :
  is_pending (fst (register p id req m)) id' = true -> id' = id \/ is_pending p id' = true.
Proof.
  unfold register, is_pending. destruct (N.eq_dec id' id) as [->|Hne]; auto.
  destruct (assoc_get N.eqb id p); cbn [fst]; rewrite (get_set_other _ N.eqb_spec) by assumption; auto.
Qed.

Lemma is_pending_ack p id nm id' :
  is_pending (fst (acknowledge p id nm)) id' = true -> is_pending p id' = true.
Proof.
  unfold acknowledge, is_pending. destruct (assoc_get N.eqb id p) as [m|] eqn:E; auto.
  destruct (ack_msg m nm) as [m' r]. 
  destruct (N.eq_dec id' id) as [->|Hne]; [rewrite E; auto|].
  destruct r; [destruct (full_ack m')|]; cbn [fst];
    rewrite ?(get_set_other _ N.eqb_spec), ?(get_del_other _ N.eqb_spec) by assumption; auto.
Qed.

Lemma pend_below_reg_all ts id req : forall p, pend_below p (id + 1) ->
  pend_below (fold_left (fun p m => fst (register p id req m)) ts p) (id + 1).
Proof.
  induction ts as [|m ts IH]; cbn [fold_left]; intros p H; auto.
  apply IH. intros id' Hi. apply is_pending_register in Hi as [->|Hi]; [lia|auto].
Qed.

Lemma is_nosender_snoc q id req : is_nosender q = false -> is_nosender (q ++ [rp_line id req]) = false.
Proof. destruct q; cbn [app is_nosender]; auto. Qed.

Lemma repl_oplog_clients x rq id : cn_clients (fst (repl_oplog x rq id)) = cn_clients x /\
  cn_dead (fst (repl_oplog x rq id)) = cn_dead x.
Proof.
  destruct rq; cbn [repl_oplog fst]; auto;
    try (unfold key_id; destruct (assoc_get String.eqb key (cn_keymap x));
         destruct (db_id_of (cn_node x) db); split; reflexivity).
  - destruct (db_id_of (cn_node x) name); split; reflexivity.
  - set (f := fun (acc : cnode * option N) (nm : str) => _).
    assert (H : forall l acc, cn_clients (fst (fold_left f l acc)) = cn_clients (fst acc) /\
                              cn_dead (fst (fold_left f l acc)) = cn_dead (fst acc)).
    { induction l as [|nm l IH]; intros acc; cbn [fold_left]; auto.
      destruct (IH (f acc nm)) as [-> ->]. destruct acc as [x0 r0]; cbn [f fst]; auto.
      destruct (db_id_of (cn_node x0) nm); split; reflexivity. }
    apply (H db_names (x, Some id)).
Qed.

Lemma repl_one_clients x msg : cn_clients (repl_one x msg) = cn_clients x.
Proof.
  unfold repl_one. destruct (cn_dead x); auto.
  destruct (parse_request msg) as [rq| |]; auto.
  destruct rq; auto.
  destruct (parse_request request_str) as [rq| |]; auto.
  destruct (repl_oplog_clients x rq opp_id) as [Hc _].
  destruct (repl_oplog x rq opp_id) as [x1 oid]. cbn [fst] in Hc.
  destruct (n_role (cn_node x1)); auto; destruct oid; auto.
Qed.

Definition lines (dbn : str) (l : list (N * dop)) : list str :=
  map (fun io => rp_line (fst io) (op_req dbn (snd io))) l.

Lemma is_nosender_lines dbn l : is_nosender (lines dbn l) = false.
Proof. destruct l; reflexivity. Qed.

(* what the thread leaves unchanged *)
Record fan_same (n n' : node) : Prop := mkFanSame {
  fs_dbs : n_dbs n' = n_dbs n; fs_sess : n_sess n' = n_sess n; fs_role : n_role n' = n_role n;
  fs_clock : n_clock n' = n_clock n; fs_addr : n_addr n' = n_addr n; fs_repl : n_repl n' = n_repl n;
  fs_sup : n_sup n' = n_sup n; fs_keys : map fst (n_members n') = map fst (n_members n) }.

Lemma fan_same_refl n : fan_same n n.
Proof. constructor; auto. Qed.
Lemma fan_same_trans a b c : fan_same a b -> fan_same b c -> fan_same a c.
Proof.
  intros H1 H2. constructor.
  - rewrite (fs_dbs _ _ H2). apply H1.
  - rewrite (fs_sess _ _ H2). apply H1.
  - rewrite (fs_role _ _ H2). apply H1.
  - rewrite (fs_clock _ _ H2). apply H1.
  - rewrite (fs_addr _ _ H2). apply H1.
  - rewrite (fs_repl _ _ H2). apply H1.
  - rewrite (fs_sup _ _ H2). apply H1.
  - rewrite (fs_keys _ _ H2). apply H1.
Qed.

Lemma repl_one_primary dbn x d id o b :
  simple_tok dbn -> op_wf o -> id < 2 ^ 64 ->
  cn_dead x = false -> n_role (cn_node x) = Primary -> NoDup (map fst (n_members (cn_node x))) ->
  get_db (cn_node x) dbn = Some d -> pend_below (n_pending (cn_node x)) b -> b <= id ->
  let x' := repl_one x (rp_line id (op_req dbn o)) in
  cn_dead x' = false /\ cn_clients x' = cn_clients x /\ fan_same (cn_node x) (cn_node x') /\
  pend_below (n_pending (cn_node x')) (id + 1) /\
  (forall nm q, assoc_get String.eqb nm (n_members (cn_node x)) = Some (Secondary, q) ->
     nm <> n_addr (cn_node x) -> is_nosender q = false ->
     assoc_get String.eqb nm (n_members (cn_node x')) = Some (Secondary, q ++ [rp_line id (op_req dbn o)])).
Proof.
  intros Hd Ho Hid Hdead Hrole Hnd Hdb Hpb Hle. cbv zeta.
  assert (Hoid : snd (repl_oplog x (op_rq dbn o) id) <> None).
  { destruct o; cbn [op_rq repl_oplog]; destruct (key_id x k); unfold db_id_of; rewrite Hdb; cbn; discriminate. }
  destruct (leader_repl_one x id (op_req dbn o) (op_rq dbn o)) as [Hn Hdd];
    auto using op_req_ne, op_req_semi, op_req_parse.
  { rewrite Hrole. discriminate. }
  change ("rp " +++ N_to_str id +++ " " +++ op_req dbn o) with (rp_line id (op_req dbn o)) in *.
  split; auto. split; [apply repl_one_clients|].
  rewrite Hn, Hrole. cbn [fan_all].
  pose proof (fan_out_spec (cn_node x) id (op_req dbn o) false Hnd) as H. cbv zeta in H.
  destruct H as (Hout & Hkeys & Hpend & _ & H1 & H2 & H3 & H4 & H5 & H6 & H7 & _).
  split; [constructor; auto|].
  assert (Hnp : reg_text (n_pending (cn_node x)) id (op_req dbn o) = op_req dbn o).
  { unfold reg_text. destruct (assoc_get N.eqb id (n_pending (cn_node x))) eqn:E; auto.
    assert (Hlt : id < b) by (apply Hpb; unfold is_pending; now rewrite E). lia. }
  split.
  - rewrite Hpend. apply pend_below_reg_all. eapply pend_below_mono; [|exact Hpb]. lia.
  - intros nm q Hg Hne Hns. specialize (Hout nm). rewrite Hg in Hout. rewrite Hout.
    rewrite Hnp, rp_line_mtr.
    apply String.eqb_neq in Hne. rewrite Hne, Hns. reflexivity.
Qed.

Lemma poll_fold dbn d : simple_tok dbn -> forall rq x b hi,
  cn_dead x = false -> n_role (cn_node x) = Primary -> NoDup (map fst (n_members (cn_node x))) ->
  get_db (cn_node x) dbn = Some d -> pend_below (n_pending (cn_node x)) b ->
  ids_from b (map fst rq) hi -> hi <= 2 ^ 64 -> Forall op_wf (map snd rq) ->
  let x' := fold_left repl_one (lines dbn rq) x in
  cn_dead x' = false /\ cn_clients x' = cn_clients x /\ fan_same (cn_node x) (cn_node x') /\
  (exists b', pend_below (n_pending (cn_node x')) b' /\ b' <= hi) /\
  (forall nm q, assoc_get String.eqb nm (n_members (cn_node x)) = Some (Secondary, q) ->
     nm <> n_addr (cn_node x) -> is_nosender q = false ->
     assoc_get String.eqb nm (n_members (cn_node x')) = Some (Secondary, q ++ lines dbn rq)).
Proof.
  intros Hd. induction rq as [|[id o] rq IH]; intros x b hi Hdead Hrole Hnd Hdb Hpb Hids Hhi Hwf; cbv zeta.
  - cbn [lines map fold_left]. split; auto. split; auto. split; [apply fan_same_refl|].
    split; [exists b; split; auto|].
    intros nm q Hg _ _. now rewrite app_nil_r.
  - cbn [lines map fold_left fst snd] in *. destruct Hids as [Hle Hids]. inversion Hwf as [|? ? Ho Hwf']; subst.
    assert (Hid : id < 2 ^ 64).
    { apply ids_from_le in Hids. lia. }
    destruct (repl_one_primary dbn x d id o b Hd Ho Hid Hdead Hrole Hnd Hdb Hpb Hle) as (A1 & A2 & A3 & A4 & A5).
    set (x1 := repl_one x (rp_line id (op_req dbn o))) in *.
    assert (Hnd1 : NoDup (map fst (n_members (cn_node x1)))) by (rewrite (fs_keys _ _ A3); exact Hnd).
    assert (Hdb1 : get_db (cn_node x1) dbn = Some d) by (unfold get_db; rewrite (fs_dbs _ _ A3); exact Hdb).
    assert (Hrole1 : n_role (cn_node x1) = Primary) by (rewrite (fs_role _ _ A3); exact Hrole).
    specialize (IH x1 (id + 1) hi A1 Hrole1 Hnd1 Hdb1 A4 Hids Hhi Hwf'). cbv zeta in IH.
    destruct IH as (B1 & B2 & B3 & B4 & B5).
    split; auto. split; [exact (eq_trans B2 A2)|]. split; [exact (fan_same_trans _ _ _ A3 B3)|]. split; [exact B4|].
    intros nm q Hg Hne Hns. fold (lines dbn rq).
    rewrite (B5 nm (q ++ [rp_line id (op_req dbn o)])).
    + now rewrite <- app_assoc.
    + now apply A5.
    + rewrite (fs_addr _ _ A3). exact Hne.
    + now apply is_nosender_snoc.
Qed.

(* ================================================================== *)
(* Part F.  A reply line handled at the primary (node level)            *)
(* ================================================================== *)
Lemma rr_ack_fst n a b sd r : fst (replicate_request n (RqAcknowledge a b) sd r) = n.
Proof. unfold replicate_request. destruct r; try reflexivity; destruct sd as [nm|]; try reflexivity; destruct (negb (has_db n nm)); reflexivity. Qed.

Lemma reply_step n rd ln id nm : parse_request (trim_char nl ln) = POk (RqAcknowledge id nm) ->
  fst (step n rd ln) = n \/ fst (step n rd ln) = n_set_pending n (fst (acknowledge (n_pending n) id nm)).
Proof.
  intros Hp. unfold step. rewrite (process_plain _ _ _ _ (RqAcknowledge id nm)) by (auto; discriminate).
  change (handle n rd (RqAcknowledge id nm)) with
    (if negb (s_auth (get_sess n rd)) then (n, not_auth)
     else (n_set_pending n (fst (acknowledge (n_pending n) id nm)), ROk)).
  destruct (negb (s_auth (get_sess n rd))); rewrite rr_ack_fst; auto.
Qed.

(* ================================================================== *)
(* Part G.  Cluster plumbing                                            *)
(* ================================================================== *)
Lemma get_put_same c nm x : get_cn (put_cn c nm x) nm = Some x.
Proof. unfold get_cn, put_cn. cbn [c_nodes]. apply get_set_same, String.eqb_spec. Qed.
Lemma get_put_other c nm x nm' : nm' <> nm -> get_cn (put_cn c nm x) nm' = get_cn c nm'.
Proof. intros H. unfold get_cn, put_cn. cbn [c_nodes]. apply get_set_other; auto. apply String.eqb_spec. Qed.

Definition maxclock (c : cluster) : N :=
  fold_left (fun a kv => N.max a (n_clock (cn_node (snd kv)))) (c_nodes c) 0.
Definition reclock (mx : N) (x : cnode) : cnode := cn_set_node x (n_set_clock (cn_node x) mx).

Lemma assoc_get_map_snd {B} (f : B -> B) k (l : list (str * B)) :
  assoc_get String.eqb k (map (fun kv => (fst kv, f (snd kv))) l) =
  match assoc_get String.eqb k l with Some v => Some (f v) | None => None end.
Proof. induction l as [|[k' v] l IH]; cbn; auto. destruct (String.eqb k k'); auto. Qed.

Lemma get_sync c nm : get_cn (sync_clocks c) nm =
  match get_cn c nm with Some x => Some (reclock (maxclock c) x) | None => None end.
Proof. unfold get_cn, sync_clocks. cbn [c_nodes]. apply (assoc_get_map_snd (reclock (maxclock c))). Qed.

Definition cl_bound (c : cluster) (B : N) : Prop :=
  forall p, In p (c_nodes c) -> n_clock (cn_node (snd p)) <= B.

Lemma fold_max_ge (l : list (str * cnode)) : forall a,
  a <= fold_left (fun a kv => N.max a (n_clock (cn_node (snd kv)))) l a /\
  forall p, In p l -> n_clock (cn_node (snd p)) <= fold_left (fun a kv => N.max a (n_clock (cn_node (snd kv)))) l a.
Proof.
  induction l as [|q l IH]; cbn [fold_left]; intros a; [split; [lia|intros p []]|].
  destruct (IH (N.max a (n_clock (cn_node (snd q))))) as [H1 H2]. split; [lia|].
  intros p [->|Hin]; [lia|auto].
Qed.
Lemma fold_max_le (l : list (str * cnode)) B : forall a, a <= B ->
  (forall p, In p l -> n_clock (cn_node (snd p)) <= B) ->
  fold_left (fun a kv => N.max a (n_clock (cn_node (snd kv)))) l a <= B.
Proof.
  induction l as [|q l IH]; cbn [fold_left]; intros a Ha H; auto.
  apply IH; [|intros p Hp; apply H; now right]. specialize (H q (or_introl eq_refl)). lia.
Qed.

Lemma maxclock_ge c nm x : get_cn c nm = Some x -> n_clock (cn_node x) <= maxclock c.
Proof.
  intros H. apply (get_in _ String.eqb_spec) in H.
  destruct (fold_max_ge (c_nodes c) 0) as [_ H2]. apply (H2 (nm, x) H).
Qed.
Lemma maxclock_le c B : cl_bound c B -> maxclock c <= B.
Proof. intros H. apply fold_max_le; [lia|exact H]. Qed.

Lemma cl_bound_mono c B B' : B <= B' -> cl_bound c B -> cl_bound c B'.
Proof. intros Hle H p Hp. specialize (H p Hp). lia. Qed.
Lemma cl_bound_sync c B : cl_bound c B -> cl_bound (sync_clocks c) B.
Proof.
  intros H p Hp. unfold sync_clocks in Hp. cbn [c_nodes] in Hp. apply in_map_iff in Hp as (q & <- & Hq).
  cbn. now apply maxclock_le.
Qed.
Lemma in_assoc_set {B} k (v : B) l p : In p (assoc_set String.eqb k v l) -> snd p = v \/ In p l.
Proof.
  induction l as [|[k' v'] l IH]; cbn.
  - intros [<-|[]]. now left.
  - destruct (String.eqb k k'); cbn; intros [<-|H]; auto. apply IH in H as [H|H]; auto.
Qed.
Lemma cl_bound_set c B nm x links cross : cl_bound c B -> n_clock (cn_node x) <= B ->
  cl_bound (mkCl (assoc_set String.eqb nm x (c_nodes c)) links cross) B.
Proof. intros H Hx p Hp. cbn [c_nodes] in Hp. apply in_assoc_set in Hp as [Hp|Hp]; auto. destruct p as [k v]. cbn [snd] in *. now subst v. Qed.

(* flush_outboxes, explicitly *)
Definition clean_members (n : node) : node :=
  n_set_members n (map (fun m => (fst m, (fst (snd m), if is_nosender (snd (snd m)) then [nosender] else []))) (n_members n)).
Definition flush_link (name : str) (n : node) (l : link) : link :=
  if l_open l && String.eqb (l_from l) name then
    match assoc_get String.eqb (l_to l) (n_members n) with
    | Some (_, q) => if is_nosender q then l else
                     mkLink (l_from l) (l_to l) (l_hs l) (l_q l ++ q) (l_server l) (l_reader l) (l_replies l) (l_open l) (l_sent l) (l_back l)
    | None => l
    end
  else l.

Lemma flush_eq c name x : get_cn c name = Some x ->
  flush_outboxes c name =
  mkCl (assoc_set String.eqb name (cn_set_node x (clean_members (cn_node x))) (c_nodes c))
       (map (flush_link name (cn_node x)) (c_links c)) (c_cross c).
Proof. intros H. unfold flush_outboxes. rewrite H. reflexivity. Qed.

Lemma flush_get_same c name x : get_cn c name = Some x ->
  get_cn (flush_outboxes c name) name = Some (cn_set_node x (clean_members (cn_node x))).
Proof. intros H. rewrite (flush_eq _ _ _ H). unfold get_cn. cbn [c_nodes]. apply get_set_same, String.eqb_spec. Qed.
Lemma flush_get_other c name x nm : get_cn c name = Some x -> nm <> name ->
  get_cn (flush_outboxes c name) nm = get_cn c nm.
Proof.
  intros H Hne. rewrite (flush_eq _ _ _ H). unfold get_cn. cbn [c_nodes].
  apply get_set_other; auto. apply String.eqb_spec.
Qed.
Lemma flush_links c name x i : get_cn c name = Some x ->
  nth_error (c_links (flush_outboxes c name)) i =
  match nth_error (c_links c) i with Some l => Some (flush_link name (cn_node x) l) | None => None end.
Proof.
  intros H. rewrite (flush_eq _ _ _ H). cbn [c_links]. rewrite nth_error_map.
  destruct (nth_error (c_links c) i); reflexivity.
Qed.
Lemma cl_bound_flush c name B : cl_bound c B -> cl_bound (flush_outboxes c name) B.
Proof.
  intros H. destruct (get_cn c name) as [x|] eqn:E.
  - rewrite (flush_eq _ _ _ E). apply cl_bound_set; auto.
    cbn. apply (get_in _ String.eqb_spec) in E. apply (H (name, x) E).
  - unfold flush_outboxes. now rewrite E.
Qed.

Lemma flush_link_other name n l : l_from l <> name -> flush_link name n l = l.
Proof. intros H. unfold flush_link. apply String.eqb_neq in H. rewrite H, andb_false_r. reflexivity. Qed.

Lemma flush_link_from name n l r q : l_open l = true -> l_from l = name ->
  assoc_get String.eqb (l_to l) (n_members n) = Some (r, q) -> is_nosender q = false ->
  flush_link name n l =
  mkLink (l_from l) (l_to l) (l_hs l) (l_q l ++ q) (l_server l) (l_reader l) (l_replies l) (l_open l) (l_sent l) (l_back l).
Proof.
  intros Ho Hf Hg Hn. unfold flush_link. rewrite Ho, Hf, String.eqb_refl, Hg, Hn. reflexivity.
Qed.

Lemma clean_get n nm r q : assoc_get String.eqb nm (n_members n) = Some (r, q) -> is_nosender q = false ->
  assoc_get String.eqb nm (n_members (clean_members n)) = Some (r, []).
Proof.
  intros Hg Hn. unfold clean_members. cbn [n_members n_set_members].
  rewrite (assoc_get_map_snd (fun v : role * list str => (fst v, if is_nosender (snd v) then [nosender] else []))).
  rewrite Hg. cbn [fst snd]. now rewrite Hn.
Qed.
Lemma clean_keys n : map fst (n_members (clean_members n)) = map fst (n_members n).
Proof. unfold clean_members. cbn [n_members n_set_members]. rewrite map_map. reflexivity. Qed.

Lemma links_set_same c i l : (i < length (c_links c))%nat -> nth_error (c_links (set_link c i l)) i = Some l.
Proof. intros H. unfold set_link. cbn [c_links]. now apply nth_error_update_same. Qed.
Lemma links_set_other c i l j : j <> i -> nth_error (c_links (set_link c i l)) j = nth_error (c_links c) j.
Proof. intros H. unfold set_link. cbn [c_links]. now apply nth_error_update_other. Qed.

(* ================================================================== *)
(* Part H.  The formed cluster, its events and the invariant            *)
(* ================================================================== *)
Inductive cev :=
| EvSet (k v : str) | EvRemove (k : str) | EvInc (k : str) (i : Z)
| EvPollRepl | EvDeliver (S : str) | EvReply (S : str) | EvPollS (S : str).

Definition opt_or (c : cluster) (o : option cluster) : cluster := match o with Some c' => c' | None => c end.

(* a reply line that does nothing at the primary but acknowledge *)
Definition harmless (ln : str) : Prop :=
  ln = "ok" \/ exists id nm, parse_request (trim_char nl ln) = POk (RqAcknowledge id nm).

Section Converge.
Variables (P dbn : str) (Ss : list str) (cidx : nat) (lk : str -> nat).
Hypothesis Hdbn : simple_tok dbn.
Hypothesis HPS : ~ In P Ss.
Hypothesis HSs : forall S, In S Ss -> simple_tok S.

Definition cstep (c : cluster) (e : cev) : cluster :=
  match e with
  | EvSet k v => fst (client_cmd c P cidx (set_line k v))
  | EvRemove k => fst (client_cmd c P cidx (remove_line k))
  | EvInc k i => fst (client_cmd c P cidx (inc_line k i))
  | EvPollRepl => poll_repl_c c P
  | EvDeliver s => opt_or c (deliver c (lk s))
  | EvReply s => opt_or c (reply c (lk s))
  | EvPollS s => poll_repl_c c s
  end.
Definition ev_ok (e : cev) : Prop :=
  match e with
  | EvSet k v => simple_tok k /\ simple_tok v
  | EvRemove k => simple_tok k
  | EvInc k i => simple_tok k /\ is_i32 i
  | EvPollRepl => True
  | EvDeliver s | EvReply s | EvPollS s => In s Ss
  end.
Definition run (c : cluster) (evs : list cev) : cluster := fold_left cstep evs c.

Definition sid_of (xp : cnode) : nat := nth cidx (cn_clients xp) 0%nat.

Definition db_of (c : cluster) (nm : str) : option db :=
  match get_cn c nm with Some x => get_db (cn_node x) dbn | None => None end.

(* the primary: [rq] = operations on its replication queue, [out] = operations on every outbox *)
Record PInvW (c : cluster) (xp : cnode) (dp : db) (rq : list (N * dop)) (b : N) (out : list (N * dop)) : Prop := {
  pi_get : get_cn c P = Some xp;
  pi_dead : cn_dead xp = false;
  pi_role : n_role (cn_node xp) = Primary;
  pi_addr : n_addr (cn_node xp) = P;
  pi_nd : NoDup (map fst (n_members (cn_node xp)));
  pi_mem : forall S, In S Ss -> assoc_get String.eqb S (n_members (cn_node xp)) = Some (Secondary, lines dbn out);
  pi_repl : n_repl (cn_node xp) = lines dbn rq;
  pi_wf : Forall op_wf (map snd rq);
  pi_pend : pend_below (n_pending (cn_node xp)) b;
  pi_ids : ids_from b (map fst rq) (n_clock (cn_node xp));
  pi_db : get_db (cn_node xp) dbn = Some dp;
  pi_strat : d_strat dp = SNone;
  pi_sess : s_db (get_sess (cn_node xp) (sid_of xp)) = Some dbn }.

(* a secondary [S] and the link P -> S: [qs] = operations queued on the link *)
Record SInvW (c : cluster) (dp : db) (rq : list (N * dop)) (S : str)
             (xs : cnode) (l : link) (ds : db) (qs : list (N * dop)) : Prop := {
  si_get : get_cn c S = Some xs;
  si_role : n_role (cn_node xs) = Secondary;
  si_addr : n_addr (cn_node xs) = S;
  si_db : get_db (cn_node xs) dbn = Some ds;
  si_strat : d_strat ds = SNone;
  si_link : nth_error (c_links c) (lk S) = Some l;
  si_from : l_from l = P;
  si_to : l_to l = S;
  si_open : l_open l = true;
  si_hs : l_hs l = [];
  si_q : l_q l = lines dbn qs;
  si_wf : Forall op_wf (map snd qs);
  si_ids : Forall (fun i => i < 2 ^ 64) (map fst qs);
  si_auth : s_auth (get_sess (cn_node xs) (l_server l)) = true;
  si_sdb : s_db (get_sess (cn_node xs) (l_server l)) = None;
  si_inbox : s_inbox (get_sess (cn_node xs) (l_server l)) = [];
  si_watch : no_watch ds (l_server l);
  si_replies : Forall harmless (l_replies l);
  si_rel : dbrel dp (fold_left db_apply (map snd qs ++ map snd rq) ds) }.

Definition SInv (c : cluster) (dp : db) (rq : list (N * dop)) (S : str) : Prop :=
  exists xs l ds qs, SInvW c dp rq S xs l ds qs.

Definition Inv (c : cluster) : Prop :=
  exists xp dp rq b, PInvW c xp dp rq b [] /\ forall S, In S Ss -> SInv c dp rq S.

Lemma PInvW_ext c c' xp dp rq b out : PInvW c xp dp rq b out -> get_cn c' P = get_cn c P -> PInvW c' xp dp rq b out.
Proof. intros H E. destruct H. constructor; auto. now rewrite E. Qed.

Lemma SInvW_ext c c' dp rq S xs l ds qs : SInvW c dp rq S xs l ds qs ->
  get_cn c' S = get_cn c S -> nth_error (c_links c') (lk S) = nth_error (c_links c) (lk S) ->
  SInvW c' dp rq S xs l ds qs.
Proof. intros H E1 E2. destruct H. constructor; auto; congruence. Qed.

Lemma SInvW_rel c dp rq dp' rq' S xs l ds qs : SInvW c dp rq S xs l ds qs ->
  dbrel dp' (fold_left db_apply (map snd qs ++ map snd rq') ds) -> SInvW c dp' rq' S xs l ds qs.
Proof. intros H E. destruct H. constructor; auto. Qed.

Lemma S_ne_P S : In S Ss -> S <> P.
Proof. intros H ->. contradiction. Qed.

Lemma lk_inj c dp rq S S' xs l ds qs xs' l' ds' qs' :
  SInvW c dp rq S xs l ds qs -> SInvW c dp rq S' xs' l' ds' qs' -> lk S = lk S' -> S = S'.
Proof.
  intros H H' E. pose proof (si_link _ _ _ _ _ _ _ _ H) as L. pose proof (si_link _ _ _ _ _ _ _ _ H') as L'.
  rewrite E, L' in L. injection L as ->. rewrite <- (si_to _ _ _ _ _ _ _ _ H), <- (si_to _ _ _ _ _ _ _ _ H'). reflexivity.
Qed.

Lemma lines_app l1 l2 : lines dbn (l1 ++ l2) = lines dbn l1 ++ lines dbn l2.
Proof. unfold lines. apply map_app. Qed.

(* ---- flushing the primary's outboxes ---------------------------------- *)
Lemma P_event_strong c1 x1 dp rq dp' rq' b' out :
  PInvW c1 x1 dp' rq' b' out ->
  Forall op_wf (map snd out) -> Forall (fun i => i < 2 ^ 64) (map fst out) ->
  (forall ds qs, dbrel dp (fold_left db_apply (map snd qs ++ map snd rq) ds) ->
                 dbrel dp' (fold_left db_apply (map snd (qs ++ out) ++ map snd rq') ds)) ->
  PInvW (flush_outboxes c1 P) (cn_set_node x1 (clean_members (cn_node x1))) dp' rq' b' [] /\
  forall S xs l ds qs, In S Ss -> SInvW c1 dp rq S xs l ds qs ->
    SInvW (flush_outboxes c1 P) dp' rq' S xs
      (mkLink (l_from l) (l_to l) (l_hs l) (l_q l ++ lines dbn out) (l_server l) (l_reader l) (l_replies l) (l_open l) (l_sent l) (l_back l))
      ds (qs ++ out).
Proof.
  intros HP Hwf Hids Htr.
  pose proof (pi_get _ _ _ _ _ _ HP) as Hg.
  split.
  - destruct HP. constructor; auto.
    + now apply flush_get_same.
    + cbn [cn_set_node cn_node]. now rewrite clean_keys.
    + intros S HS0. cbn [cn_set_node cn_node]. apply (clean_get _ _ _ (lines dbn out)); auto.
      apply is_nosender_lines.
  - intros S xs l ds qs HSin H.
    pose proof (flush_links c1 P x1 (lk S) Hg) as Hl. rewrite (si_link _ _ _ _ _ _ _ _ H) in Hl.
    rewrite (flush_link_from P (cn_node x1) l Secondary (lines dbn out)) in Hl.
    2:{ apply (si_open _ _ _ _ _ _ _ _ H). }
    2:{ apply (si_from _ _ _ _ _ _ _ _ H). }
    2:{ rewrite (si_to _ _ _ _ _ _ _ _ H). apply (pi_mem _ _ _ _ _ _ HP S HSin). }
    2:{ apply is_nosender_lines. }
    destruct H. constructor; cbn [l_from l_to l_open l_hs l_q l_server l_replies]; auto.
    + rewrite (flush_get_other _ _ _ _ Hg); auto. now apply S_ne_P.
    + rewrite lines_app. now rewrite si_q0.
    + rewrite map_app. apply Forall_app; auto.
    + rewrite map_app. apply Forall_app; auto.
Qed.

Lemma P_event c1 x1 dp rq dp' rq' b' out :
  PInvW c1 x1 dp' rq' b' out ->
  (forall S, In S Ss -> SInv c1 dp rq S) ->
  Forall op_wf (map snd out) -> Forall (fun i => i < 2 ^ 64) (map fst out) ->
  (forall ds qs, dbrel dp (fold_left db_apply (map snd qs ++ map snd rq) ds) ->
                 dbrel dp' (fold_left db_apply (map snd (qs ++ out) ++ map snd rq') ds)) ->
  Inv (flush_outboxes c1 P).
Proof.
  intros HP HS Hwf Hids Htr.
  destruct (P_event_strong c1 x1 dp rq dp' rq' b' out HP Hwf Hids Htr) as [H1 H2].
  exists (cn_set_node x1 (clean_members (cn_node x1))), dp', rq', b'. split; auto.
  intros S HSin. destruct (HS S HSin) as (xs & l & ds & qs & H).
  eexists xs, _, ds, (qs ++ out). apply H2; eauto.
Qed.

(* ---- flushing a secondary's outboxes ------------------------------------ *)
Lemma S_event c1 S xp dp rq b :
  PInvW c1 xp dp rq b [] -> (forall S', In S' Ss -> SInv c1 dp rq S') -> In S Ss ->
  Inv (flush_outboxes c1 S).
Proof.
  intros HP HS HSin. destruct (HS S HSin) as (xs & l & ds & qs & H).
  pose proof (si_get _ _ _ _ _ _ _ _ H) as Hg.
  exists xp, dp, rq, b. split.
  - apply (PInvW_ext c1); auto. apply (flush_get_other _ _ _ _ Hg). intros E. apply (S_ne_P S HSin). auto.
  - intros S' HS'. destruct (HS S' HS') as (xs' & l' & ds' & qs' & H').
    assert (Hl : nth_error (c_links (flush_outboxes c1 S)) (lk S') = Some l').
    { rewrite (flush_links c1 S xs _ Hg), (si_link _ _ _ _ _ _ _ _ H'). rewrite flush_link_other; auto.
      rewrite (si_from _ _ _ _ _ _ _ _ H'). intros E. apply (S_ne_P S HSin). auto. }
    destruct (string_dec S' S) as [->|Hne].
    + assert (xs' = xs) by (pose proof (si_get _ _ _ _ _ _ _ _ H') as E; rewrite Hg in E; congruence). subst xs'.
      exists (cn_set_node xs (clean_members (cn_node xs))), l', ds', qs'.
      destruct H'. constructor; auto. now apply flush_get_same.
    + exists xs', l', ds', qs'. apply (SInvW_ext c1); auto.
      * now apply (flush_get_other _ _ _ _ Hg).
      * rewrite Hl. symmetry. apply (si_link _ _ _ _ _ _ _ _ H').
Qed.

Lemma Inv_sync c : Inv c -> Inv (sync_clocks c).
Proof.
  intros (xp & dp & rq & b & HP & HS).
  exists (reclock (maxclock c) xp), dp, rq, b. split.
  - pose proof (maxclock_ge c P xp (pi_get _ _ _ _ _ _ HP)) as Hle.
    destruct HP. constructor; auto.
    + rewrite get_sync, pi_get0. reflexivity.
    + cbn. eapply ids_from_mono_hi; eauto.
  - intros S HSin. destruct (HS S HSin) as (xs & l & ds & qs & H).
    exists (reclock (maxclock c) xs), l, ds, qs. destruct H. constructor; auto.
    rewrite get_sync, si_get0. reflexivity.
Qed.

Lemma sattr_sdb s s' : sattr s' = sattr s -> s_db s' = s_db s /\ s_auth s' = s_auth s.
Proof. unfold sattr. intros [= -> -> _ _]. auto. Qed.

Lemma cl_bound_get c B nm x : cl_bound c B -> get_cn c nm = Some x -> n_clock (cn_node x) <= B.
Proof. intros H E. apply (get_in _ String.eqb_spec) in E. apply (H (nm, x) E). Qed.

(* a new primary node that differs from the old one in databases, clock, queue, pending table, inboxes *)
Lemma PInvW_upd c c1 xp dp rq b out n1 dp' rq' b' :
  PInvW c xp dp rq b out ->
  get_cn c1 P = Some (cn_set_node xp n1) ->
  n_role n1 = n_role (cn_node xp) -> n_addr n1 = n_addr (cn_node xp) -> n_members n1 = n_members (cn_node xp) ->
  (forall s, sattr (get_sess n1 s) = sattr (get_sess (cn_node xp) s)) ->
  pend_below (n_pending n1) b' ->
  n_repl n1 = lines dbn rq' -> Forall op_wf (map snd rq') -> ids_from b' (map fst rq') (n_clock n1) ->
  get_db n1 dbn = Some dp' -> d_strat dp' = SNone ->
  PInvW c1 (cn_set_node xp n1) dp' rq' b' out.
Proof.
  intros HP Hg Hr Ha Hm Hs Hpb Hrepl Hwf Hids Hdb Hst. destruct HP.
  constructor; cbn [cn_set_node cn_node cn_dead]; auto; try congruence;
    try (rewrite ?Hr, ?Ha, ?Hm; assumption).
  change (sid_of (cn_set_node xp n1)) with (sid_of xp).
  destruct (sattr_sdb _ _ (Hs (sid_of xp))) as [-> _]. exact pi_sess0.
Qed.

Lemma SInv_put_P c x dp rq : (forall S, In S Ss -> SInv c dp rq S) ->
  forall S, In S Ss -> SInv (put_cn c P x) dp rq S.
Proof.
  intros HS S HSin. destruct (HS S HSin) as (xs & l & ds & qs & H).
  exists xs, l, ds, qs. apply (SInvW_ext c); auto. apply get_put_other. now apply S_ne_P.
Qed.

Lemma Inv_write c w B : Inv c -> cop_ok w -> cl_bound c B ->
  Inv (fst (client_cmd_raw c P cidx (cop_line w))) /\
  cl_bound (fst (client_cmd_raw c P cidx (cop_line w))) (B + 2).
Proof.
  intros (xp & dp & rq & b & HP & HS) Hok HB.
  unfold client_cmd_raw. rewrite (pi_get _ _ _ _ _ _ HP). fold (sid_of xp).
  assert (Hprim : is_primary (cn_node xp) = true) by (unfold is_primary; now rewrite (pi_role _ _ _ _ _ _ HP)).
  pose proof (primary_step (cn_node xp) (sid_of xp) w dbn dp Hok Hprim (pi_sess _ _ _ _ _ _ HP)
                (pi_db _ _ _ _ _ _ HP) (pi_strat _ _ _ _ _ _ HP)) as Hst.
  cbv zeta in Hst. destruct (step (cn_node xp) (sid_of xp) (cop_line w)) as [n1 r]. cbn [fst snd] in *.
  destruct Hst as (Hf & Hclk & Hres).
  pose proof (cl_bound_get _ _ _ _ HB (pi_get _ _ _ _ _ _ HP)) as HBp.
  split.
  2:{ apply cl_bound_flush. unfold put_cn. apply cl_bound_set; [eapply cl_bound_mono; [|exact HB]; lia|cbn; lia]. }
  set (c1 := put_cn c P (cn_set_node xp n1)).
  assert (Hg1 : get_cn c1 P = Some (cn_set_node xp n1)) by apply get_put_same.
  pose proof (SInv_put_P c (cn_set_node xp n1) dp rq HS) as HS1. fold c1 in HS1.
  destruct (resp_ok r).
  - destruct Hres as (opp & id & Hwf & Hrok & Hdb & Hrepl & Hid).
    set (o := cop_dop w opp) in *.
    apply (P_event c1 (cn_set_node xp n1) dp rq (db_apply dp o) (rq ++ [(id, o)]) b []);
      [|exact HS1|constructor|constructor|].
    + apply (PInvW_upd c c1 xp dp rq b [] n1); auto; try apply Hf.
      * rewrite (fr_pending _ _ Hf). apply (pi_pend _ _ _ _ _ _ HP).
      * rewrite Hrepl, (pi_repl _ _ _ _ _ _ HP), lines_app. reflexivity.
      * rewrite map_app. apply Forall_app. split; [apply (pi_wf _ _ _ _ _ _ HP)|constructor; auto].
      * rewrite map_app. cbn [map fst].
        eapply ids_from_mono_hi; [|apply (ids_from_snoc _ _ (n_clock (cn_node xp))); [apply (pi_ids _ _ _ _ _ _ HP)|]]; lia.
      * destruct (db_apply_meta dp o) as (-> & _). apply (pi_strat _ _ _ _ _ _ HP).
    + intros ds qs Hrel. rewrite app_nil_r, map_app. cbn [map snd].
      rewrite app_assoc, fold_left_app. cbn [fold_left].
      apply db_apply_rel; auto using same_op_refl.
  - destruct Hres as (Hdb & Hrepl).
    apply (P_event c1 (cn_set_node xp n1) dp rq dp rq b []); [|exact HS1|constructor|constructor|].
    + apply (PInvW_upd c c1 xp dp rq b [] n1); auto; try apply Hf.
      * rewrite (fr_pending _ _ Hf). apply (pi_pend _ _ _ _ _ _ HP).
      * rewrite Hrepl. apply (pi_repl _ _ _ _ _ _ HP).
      * apply (pi_wf _ _ _ _ _ _ HP).
      * eapply ids_from_mono_hi; [|apply (pi_ids _ _ _ _ _ _ HP)]. lia.
      * apply (pi_strat _ _ _ _ _ _ HP).
    + intros ds qs Hrel. now rewrite app_nil_r.
Qed.

Lemma Inv_poll c B : Inv c -> cl_bound c B -> B <= 2 ^ 64 ->
  Inv (poll_repl_c_raw c P) /\ cl_bound (poll_repl_c_raw c P) B.
Proof.
  intros (xp & dp & rq & b & HP & HS) HB HB64.
  unfold poll_repl_c_raw. rewrite (pi_get _ _ _ _ _ _ HP).
  pose proof (cl_bound_get _ _ _ _ HB (pi_get _ _ _ _ _ _ HP)) as HBp.
  unfold poll_repl. rewrite (pi_repl _ _ _ _ _ _ HP).
  set (x0 := cn_set_node xp (n_set_repl (cn_node xp) [])).
  destruct (poll_fold dbn dp Hdbn rq x0 b (n_clock (cn_node xp))) as (A1 & A2 & A3 & (b' & A4 & A5) & A6);
    try (destruct HP; assumption).
  { lia. }
  set (x' := fold_left repl_one (lines dbn rq) x0) in *.
  split.
  2:{ apply cl_bound_flush. unfold put_cn. apply cl_bound_set; auto. rewrite (fs_clock _ _ A3). exact HBp. }
  set (c1 := put_cn c P x').
  pose proof (SInv_put_P c x' dp rq HS) as HS1. fold c1 in HS1.
  apply (P_event c1 x' dp rq dp [] b' rq); [|exact HS1| | |].
  - destruct HP. constructor; auto.
    + apply get_put_same.
    + rewrite (fs_role _ _ A3). exact pi_role0.
    + rewrite (fs_addr _ _ A3). exact pi_addr0.
    + rewrite (fs_keys _ _ A3). exact pi_nd0.
    + intros S HSin. apply (A6 S []).
      * apply (pi_mem0 S HSin).
      * cbn. rewrite pi_addr0. now apply S_ne_P.
      * reflexivity.
    + rewrite (fs_repl _ _ A3). reflexivity.
    + constructor.
    + cbn [map ids_from]. rewrite (fs_clock _ _ A3). exact A5.
    + unfold get_db. rewrite (fs_dbs _ _ A3). exact pi_db0.
    + unfold sid_of, get_sess. rewrite A2, (fs_sess _ _ A3). exact pi_sess0.
  - apply (pi_wf _ _ _ _ _ _ HP).
  - pose proof (ids_from_lt _ _ _ (pi_ids _ _ _ _ _ _ HP)) as Hlt.
    eapply Forall_impl; [|exact Hlt]. cbn. intros i Hi. lia.
  - intros ds qs Hrel. rewrite map_app. cbn [map]. now rewrite app_nil_r.
Qed.

Lemma SInv_other c c1 dp rq S : (forall S', In S' Ss -> SInv c dp rq S') -> In S Ss ->
  (forall X, X <> S -> X <> P -> get_cn c1 X = get_cn c X) ->
  (forall j, j <> lk S -> nth_error (c_links c1) j = nth_error (c_links c) j) ->
  forall S', In S' Ss -> S' <> S -> SInv c1 dp rq S'.
Proof.
  intros HS HSin Hn Hl S' HS' Hne.
  destruct (HS S HSin) as (xs & l & ds & qs & H). destruct (HS S' HS') as (xs' & l' & ds' & qs' & H').
  exists xs', l', ds', qs'. apply (SInvW_ext c); auto.
  - apply Hn; auto. now apply S_ne_P.
  - apply Hl. intros E. apply Hne. eapply lk_inj; eauto.
Qed.

Lemma get_sess_put_same n c s : (c < length (n_sess n))%nat -> get_sess (put_sess n c s) c = s.
Proof. intros H. unfold put_sess, get_sess. cbn [n_sess n_set_sess]. now apply nth_update_same. Qed.

Lemma Inv_deliver c S B : Inv c -> In S Ss -> cl_bound c B ->
  Inv (opt_or c (deliver_raw c (lk S))) /\ cl_bound (opt_or c (deliver_raw c (lk S))) (B + 2).
Proof.
  intros HI HSin HB. pose proof HI as (xp & dp & rq & b & HP & HS).
  destruct (HS S HSin) as (xs & l & ds & qs & H).
  pose proof (cl_bound_get _ _ _ _ HB (si_get _ _ _ _ _ _ _ _ H)) as HBs.
  destruct qs as [|[id o] qs'].
  { assert (E : deliver_raw c (lk S) = None).
    { unfold deliver_raw. rewrite (si_link _ _ _ _ _ _ _ _ H), (si_open _ _ _ _ _ _ _ _ H),
        (si_hs _ _ _ _ _ _ _ _ H), (si_q _ _ _ _ _ _ _ _ H). reflexivity. }
    rewrite E. cbn [opt_or]. split; auto. eapply cl_bound_mono; [|exact HB]. lia. }
  pose proof (si_wf _ _ _ _ _ _ _ _ H) as Hwf. pose proof (si_ids _ _ _ _ _ _ _ _ H) as Hids.
  cbn [map fst snd] in Hwf, Hids. inversion Hwf as [|? ? Ho Hwf']; subst. inversion Hids as [|? ? Hid Hids']; subst.
  set (sv := l_server l) in *. set (n := cn_node xs) in *.
  destruct (secondary_step n sv dbn ds id o Hdbn Ho Hid (si_auth _ _ _ _ _ _ _ _ H) (si_sdb _ _ _ _ _ _ _ _ H)
              (si_inbox _ _ _ _ _ _ _ _ H) (si_db _ _ _ _ _ _ _ _ H) (si_strat _ _ _ _ _ _ _ _ H)
              (si_watch _ _ _ _ _ _ _ _ H)) as (o' & Hso & Hf & Hclk & Hdb & Hin & Hne).
  destruct (step n sv (rp_line id (op_req dbn o))) as [n1 r] eqn:Estep. cbn [fst snd] in *.
  set (n2 := send n1 sv ("ok " +++ nlS)).
  set (n3 := put_sess n2 sv (mkSess (s_auth (get_sess n2 sv)) (s_db (get_sess n2 sv)) (s_user (get_sess n2 sv)) (s_member (get_sess n2 sv)) [])).
  set (l' := mkLink (l_from l) S [] (lines dbn qs') sv (l_reader l)
               (l_replies l ++ split_lines (s_inbox (get_sess n2 sv))) true (l_sent l + 1) (l_back l)).
  set (c1 := mkCl (c_nodes (put_cn c S (cn_set_node xs n3))) (list_update (c_links c) (lk S) l') (c_cross c + 1)).
  assert (E : deliver_raw c (lk S) = Some (flush_outboxes c1 S)).
  { unfold deliver_raw. rewrite (si_link _ _ _ _ _ _ _ _ H), (si_open _ _ _ _ _ _ _ _ H),
      (si_hs _ _ _ _ _ _ _ _ H), (si_q _ _ _ _ _ _ _ _ H). cbn [negb lines map fst snd].
    rewrite (si_to _ _ _ _ _ _ _ _ H), (si_get _ _ _ _ _ _ _ _ H). fold sv. fold n. rewrite Estep.
    assert (Hst : match r with RError msg => "error " +++ msg +++ " " +++ nlS | _ => "ok " +++ nlS end = "ok " +++ nlS)
      by (destruct r; auto; exfalso; eapply Hne; reflexivity).
    rewrite Hst. reflexivity. }
  rewrite E. cbn [opt_or].
  assert (Hrange : (sv < length (n_sess n))%nat) by (apply auth_in_range, (si_auth _ _ _ _ _ _ _ _ H)).
  assert (Hrange1 : (sv < length (n_sess n1))%nat) by (rewrite (fr_len _ _ Hf); exact Hrange).
  assert (Hf2 : frame n1 n2) by apply frame_send.
  assert (Hf3 : frame n2 n3) by (apply frame_put_sess; reflexivity).
  assert (Hfall : frame n n3) by (eapply frame_trans; [exact Hf|eapply frame_trans; eauto]).
  assert (Hinb : s_inbox (get_sess n2 sv) = [ack_text id S +++ " " +++ nlS; "ok " +++ nlS]).
  { unfold n2. rewrite get_sess_send_same by exact Hrange1. cbn [sess_push s_inbox]. rewrite Hin.
    unfold n. rewrite (si_addr _ _ _ _ _ _ _ _ H). reflexivity. }
  assert (Hs3 : get_sess n3 sv = mkSess (s_auth (get_sess n2 sv)) (s_db (get_sess n2 sv)) (s_user (get_sess n2 sv)) (s_member (get_sess n2 sv)) []).
  { apply get_sess_put_same. rewrite (fr_len _ _ Hf2). exact Hrange1. }
  destruct (sattr_sdb _ _ (fr_sess _ _ Hfall sv)) as [Hsdb3 Hauth3].
  split.
  2:{ apply cl_bound_flush. unfold c1, put_cn. cbn [c_nodes]. apply cl_bound_set.
      - eapply cl_bound_mono; [|exact HB]. lia.
      - cbn. change (n_clock n3) with (n_clock n1). fold n in HBs. lia. }
  apply (S_event c1 S xp dp rq b); auto.
  - apply (PInvW_ext c); auto. apply (get_put_other c S). intros E'. apply (S_ne_P S HSin). auto.
  - intros S' HS'. destruct (string_dec S' S) as [->|Hne'].
    2:{ apply (SInv_other c c1 dp rq S); auto.
        - intros X HX _. now apply (get_put_other c S).
        - intros j Hj. unfold c1. cbn [c_links]. now apply nth_error_update_other. }
    exists (cn_set_node xs n3), l', (db_apply ds o'), qs'. constructor; cbn [cn_set_node cn_node l_from l_to l_open l_hs l_q l_server l_replies]; auto.
    all: try change (l_server l') with sv; try change (l_from l') with (l_from l);
      try change (l_replies l') with (l_replies l ++ split_lines (s_inbox (get_sess n2 sv))).
    + apply (get_put_same c S).
    + change (n_role n3) with (n_role n1). rewrite (fr_role _ _ Hf). apply (si_role _ _ _ _ _ _ _ _ H).
    + change (n_addr n3) with (n_addr n1). rewrite (fr_addr _ _ Hf). apply (si_addr _ _ _ _ _ _ _ _ H).
    + destruct (db_apply_meta ds o') as (-> & _). apply (si_strat _ _ _ _ _ _ _ _ H).
    + unfold c1. cbn [c_links]. apply nth_error_update_same. apply nth_error_Some.
      rewrite (si_link _ _ _ _ _ _ _ _ H). discriminate.
    + apply (si_from _ _ _ _ _ _ _ _ H).
    + rewrite Hauth3. apply (si_auth _ _ _ _ _ _ _ _ H).
    + rewrite Hsdb3. apply (si_sdb _ _ _ _ _ _ _ _ H).
    + rewrite Hs3. reflexivity.
    + apply no_watch_apply, (si_watch _ _ _ _ _ _ _ _ H).
    + apply Forall_app. split; [apply (si_replies _ _ _ _ _ _ _ _ H)|].
      rewrite Hinb, (split_lines_ack id S (HSs S HSin)).
      constructor; [right; exists id, S; apply ack_text_parse; auto|constructor; [left; reflexivity|constructor]].
    + pose proof (si_rel _ _ _ _ _ _ _ _ H) as Hrel. cbn [map fst snd app fold_left] in Hrel.
      eapply dbrel_trans; [exact Hrel|].
      apply replay_converges; [apply same_ops_refl|].
      apply db_apply_rel; [apply dbrel_refl|exact Hso].
Qed.

Lemma Inv_reply c S B : Inv c -> In S Ss -> cl_bound c B ->
  Inv (opt_or c (reply_raw c (lk S))) /\ cl_bound (opt_or c (reply_raw c (lk S))) B.
Proof.
  intros HI HSin HB. pose proof HI as (xp & dp & rq & b & HP & HS).
  destruct (HS S HSin) as (xs & l & ds & qs & H).
  pose proof (cl_bound_get _ _ _ _ HB (pi_get _ _ _ _ _ _ HP)) as HBp.
  assert (Hlen : (lk S < length (c_links c))%nat).
  { apply nth_error_Some. rewrite (si_link _ _ _ _ _ _ _ _ H). discriminate. }
  destruct (l_replies l) as [|ln rest] eqn:Erep.
  { assert (E : reply_raw c (lk S) = None).
    { unfold reply_raw. rewrite (si_link _ _ _ _ _ _ _ _ H), Erep. reflexivity. }
    rewrite E. cbn [opt_or]. auto. }
  pose proof (si_replies _ _ _ _ _ _ _ _ H) as Hrep. rewrite Erep in Hrep.
  inversion Hrep as [|? ? Hln Hrest]; subst.
  (* the secondary's side of the new state, whatever happens at the primary *)
  assert (HSnew : forall c1 l1 dp' rq',
            (forall X, X <> P -> get_cn c1 X = get_cn c X) ->
            c_links c1 = list_update (c_links c) (lk S) l1 ->
            l_from l1 = P -> l_to l1 = l_to l -> l_hs l1 = l_hs l -> l_q l1 = l_q l ->
            l_server l1 = l_server l -> l_open l1 = l_open l -> l_replies l1 = rest ->
            dp' = dp -> rq' = rq ->
            forall S', In S' Ss -> SInv c1 dp' rq' S').
  { intros c1 l1 dp' rq' Hn Hl F1 F2 F3 F4 F5 F6 F7 -> -> S' HS'.
    destruct (string_dec S' S) as [->|Hne'].
    2:{ apply (SInv_other c c1 dp rq S); auto.
        intros j Hj. rewrite Hl. now apply nth_error_update_other. }
    exists xs, l1, ds, qs. destruct H. constructor; auto; try congruence.
    - rewrite Hn; auto. now apply S_ne_P.
    - rewrite Hl. now apply nth_error_update_same.
    - rewrite F5. assumption. }
  destruct (String.eqb_spec ln "ok") as [->|Hnok].
  { set (l0 := mkLink P (l_to l) (l_hs l) (l_q l) (l_server l) (l_reader l) rest (l_open l) (l_sent l) (l_back l)).
    assert (E : reply_raw c (lk S) = Some (set_link c (lk S) l0)).
    { unfold reply_raw. rewrite (si_link _ _ _ _ _ _ _ _ H), Erep, (si_from _ _ _ _ _ _ _ _ H), (pi_get _ _ _ _ _ _ HP).
      reflexivity. }
    rewrite E. cbn [opt_or]. split; [|exact HB].
    exists xp, dp, rq, b. split; [apply (PInvW_ext c); auto|].
    apply (HSnew (set_link c (lk S) l0) l0 dp rq); auto. }
  destruct Hln as [->|(id & nm & Hparse)]; [congruence|].
  set (n := cn_node xp) in *. set (rd := l_reader l).
  destruct (step n rd ln) as [n1 r0] eqn:Estep.
  pose proof (reply_step n rd ln id nm Hparse) as Hn1. rewrite Estep in Hn1. cbn [fst] in Hn1.
  set (n2 := put_sess n1 rd (mkSess (s_auth (get_sess n1 rd)) (s_db (get_sess n1 rd)) (s_user (get_sess n1 rd)) (s_member (get_sess n1 rd)) [])).
  set (l' := mkLink P (l_to l) (l_hs l) (l_q l) (l_server l) (l_reader l) rest (l_open l) (l_sent l) (l_back l + 1)).
  set (c1 := mkCl (c_nodes (put_cn c P (cn_set_node xp n2))) (list_update (c_links c) (lk S) l') (c_cross c + 1)).
  assert (E : reply_raw c (lk S) = Some (flush_outboxes c1 P)).
  { unfold reply_raw. rewrite (si_link _ _ _ _ _ _ _ _ H), Erep, (si_from _ _ _ _ _ _ _ _ H), (pi_get _ _ _ _ _ _ HP).
    apply String.eqb_neq in Hnok. rewrite Hnok. fold n. fold rd. rewrite Estep. reflexivity. }
  rewrite E. cbn [opt_or].
  assert (Hf12 : frame n1 n2) by (apply frame_put_sess; reflexivity).
  assert (Hpb : pend_below (n_pending n1) b).
  { destruct Hn1 as [->| ->]; [apply (pi_pend _ _ _ _ _ _ HP)|].
    cbn [n_pending n_set_pending]. intros i Hi. apply is_pending_ack in Hi. now apply (pi_pend _ _ _ _ _ _ HP). }
  assert (Hsame : n_role n1 = n_role n /\ n_addr n1 = n_addr n /\ n_members n1 = n_members n /\
                  n_repl n1 = n_repl n /\ n_clock n1 = n_clock n /\ n_dbs n1 = n_dbs n /\ n_sess n1 = n_sess n).
  { destruct Hn1 as [->| ->]; repeat split; reflexivity. }
  destruct Hsame as (S1 & S2 & S3 & S4 & S5 & S6 & S7).
  split.
  2:{ apply cl_bound_flush. unfold c1, put_cn. cbn [c_nodes]. apply cl_bound_set; auto.
      cbn. change (n_clock n2) with (n_clock n1). rewrite S5. exact HBp. }
  apply (P_event c1 (cn_set_node xp n2) dp rq dp rq b []); [| |constructor|constructor|].
  - apply (PInvW_upd c c1 xp dp rq b [] n2); auto.
    + apply (get_put_same c P).
    + intros s. rewrite (fr_sess _ _ Hf12). unfold get_sess. now rewrite S7.
    + change (n_repl n2) with (n_repl n1). rewrite S4. apply (pi_repl _ _ _ _ _ _ HP).
    + apply (pi_wf _ _ _ _ _ _ HP).
    + change (n_clock n2) with (n_clock n1). rewrite S5. apply (pi_ids _ _ _ _ _ _ HP).
    + change (get_db n2 dbn) with (get_db n1 dbn). unfold get_db. rewrite S6. apply (pi_db _ _ _ _ _ _ HP).
    + apply (pi_strat _ _ _ _ _ _ HP).
  - apply (HSnew c1 l' dp rq); auto.
    intros X HX. now apply (get_put_other c P).
  - intros ds0 qs0 Hrel. now rewrite app_nil_r.
Qed.

Lemma Inv_pollS c S B : Inv c -> In S Ss -> cl_bound c B ->
  Inv (poll_repl_c_raw c S) /\ cl_bound (poll_repl_c_raw c S) B.
Proof.
  intros HI HSin HB. pose proof HI as (xp & dp & rq & b & HP & HS).
  destruct (HS S HSin) as (xs & l & ds & qs & H).
  pose proof (cl_bound_get _ _ _ _ HB (si_get _ _ _ _ _ _ _ _ H)) as HBs.
  unfold poll_repl_c_raw. rewrite (si_get _ _ _ _ _ _ _ _ H).
  pose proof (secondary_poll_repl_node xs (si_role _ _ _ _ _ _ _ _ H)) as Hnode.
  split.
  2:{ apply cl_bound_flush. unfold put_cn. apply cl_bound_set; auto. rewrite Hnode. exact HBs. }
  apply (S_event (put_cn c S (poll_repl xs)) S xp dp rq b); auto.
  - apply (PInvW_ext c); auto. apply get_put_other. intros E'. apply (S_ne_P S HSin). auto.
  - intros S' HS'. destruct (string_dec S' S) as [->|Hne'].
    2:{ apply (SInv_other c _ dp rq S); auto. intros X HX _. now apply get_put_other. }
    exists (poll_repl xs), l, ds, qs. destruct H. constructor; auto; try (rewrite Hnode; assumption).
    apply get_put_same.
Qed.

Lemma PInvW_sync c xp dp rq b out : PInvW c xp dp rq b out ->
  PInvW (sync_clocks c) (reclock (maxclock c) xp) dp rq b out.
Proof.
  intros HP. pose proof (maxclock_ge c P xp (pi_get _ _ _ _ _ _ HP)) as Hle.
  destruct HP. constructor; auto.
  - rewrite get_sync, pi_get0. reflexivity.
  - cbn. eapply ids_from_mono_hi; eauto.
Qed.
Lemma SInvW_sync c dp rq S xs l ds qs : SInvW c dp rq S xs l ds qs ->
  SInvW (sync_clocks c) dp rq S (reclock (maxclock c) xs) l ds qs.
Proof. intros H. destruct H. constructor; auto. rewrite get_sync, si_get0. reflexivity. Qed.

Lemma PInvW_poll c xp dp rq b : PInvW c xp dp rq b [] -> n_clock (cn_node xp) <= 2 ^ 64 ->
  exists b', PInvW (put_cn c P (poll_repl xp)) (poll_repl xp) dp [] b' rq.
Proof.
  intros HP HB64. unfold poll_repl. rewrite (pi_repl _ _ _ _ _ _ HP).
  set (x0 := cn_set_node xp (n_set_repl (cn_node xp) [])).
  destruct (poll_fold dbn dp Hdbn rq x0 b (n_clock (cn_node xp))) as (A1 & A2 & A3 & (b' & A4 & A5) & A6);
    try (destruct HP; assumption).
  set (x' := fold_left repl_one (lines dbn rq) x0) in *.
  exists b'. destruct HP. constructor; auto.
  - apply get_put_same.
  - rewrite (fs_role _ _ A3). exact pi_role0.
  - rewrite (fs_addr _ _ A3). exact pi_addr0.
  - rewrite (fs_keys _ _ A3). exact pi_nd0.
  - intros S HSin. apply (A6 S []).
    + apply (pi_mem0 S HSin).
    + cbn. rewrite pi_addr0. now apply S_ne_P.
    + reflexivity.
  - rewrite (fs_repl _ _ A3). reflexivity.
  - constructor.
  - cbn [map ids_from]. rewrite (fs_clock _ _ A3). exact A5.
  - unfold get_db. rewrite (fs_dbs _ _ A3). exact pi_db0.
  - unfold sid_of, get_sess. rewrite A2, (fs_sess _ _ A3). exact pi_sess0.
Qed.

(* 2. an accepted client write followed by one poll of the primary's replication thread:
      the primary's database changes by the operation and exactly one line, the same for every
      secondary, is appended (FIFO) to the queue of every link P -> S *)
Theorem primary_write_queues_sec c w B xp dp b :
  PInvW c xp dp [] b [] -> (forall S, In S Ss -> SInv c dp [] S) -> cop_ok w ->
  cl_bound c B -> B + 2 <= 2 ^ 64 ->
  resp_ok (snd (client_cmd c P cidx (cop_line w))) = true ->
  let c2 := poll_repl_c (fst (client_cmd c P cidx (cop_line w))) P in
  exists opp id,
    resp_ok (dop_resp dp (cop_dop w opp)) = true /\
    db_of c2 P = Some (db_apply dp (cop_dop w opp)) /\
    forall S l, In S Ss -> nth_error (c_links c) (lk S) = Some l ->
      exists l2, nth_error (c_links c2) (lk S) = Some l2 /\
                 l_q l2 = l_q l ++ [rp_line id (op_req dbn (cop_dop w opp))].
Proof.
  intros HP HS Hok HB HB64 Hresp. cbv zeta.
  unfold client_cmd in *. set (cs := sync_clocks c) in *.
  pose proof (PInvW_sync _ _ _ _ _ _ HP) as HPs. fold cs in HPs.
  set (xps := reclock (maxclock c) xp) in *.
  pose proof (cl_bound_sync c B HB) as HBs. fold cs in HBs.
  pose proof (cl_bound_get _ _ _ _ HBs (pi_get _ _ _ _ _ _ HPs)) as HBp.
  unfold client_cmd_raw in *. rewrite (pi_get _ _ _ _ _ _ HPs) in *. fold (sid_of xps) in *.
  assert (Hprim : is_primary (cn_node xps) = true) by (unfold is_primary; now rewrite (pi_role _ _ _ _ _ _ HPs)).
  pose proof (primary_step (cn_node xps) (sid_of xps) w dbn dp Hok Hprim (pi_sess _ _ _ _ _ _ HPs)
                (pi_db _ _ _ _ _ _ HPs) (pi_strat _ _ _ _ _ _ HPs)) as Hst.
  cbv zeta in Hst. destruct (step (cn_node xps) (sid_of xps) (cop_line w)) as [n1 r]. cbn [fst snd] in *.
  rewrite Hresp in Hst. destruct Hst as (Hf & Hclk & opp & id & Hwf & Hrok & Hdb & Hrepl & Hid).
  set (o := cop_dop w opp) in *.
  set (c1 := put_cn cs P (cn_set_node xps n1)).
  assert (HP1 : PInvW c1 (cn_set_node xps n1) (db_apply dp o) [(id, o)] b []).
  { apply (PInvW_upd cs c1 xps dp [] b [] n1); auto; try apply Hf.
    - apply get_put_same.
    - rewrite (fr_pending _ _ Hf). apply (pi_pend _ _ _ _ _ _ HPs).
    - rewrite Hrepl, (pi_repl _ _ _ _ _ _ HPs). reflexivity.
    - constructor; auto.
    - cbn [map fst ids_from]. pose proof (pi_ids _ _ _ _ _ _ HPs) as Hi. cbn [map ids_from] in Hi. lia.
    - destruct (db_apply_meta dp o) as (-> & _). apply (pi_strat _ _ _ _ _ _ HPs). }
  assert (HtrA : forall ds (qs : list (N * dop)), dbrel dp (fold_left db_apply (map snd qs ++ map snd (@nil (N * dop))) ds) ->
            dbrel (db_apply dp o) (fold_left db_apply (map snd (qs ++ []) ++ map snd [(id, o)]) ds)).
  { intros ds qs Hrel. rewrite app_nil_r in *. cbn [map snd]. rewrite fold_left_app. cbn [fold_left].
    apply db_apply_rel; auto using same_op_refl. }
  destruct (P_event_strong c1 (cn_set_node xps n1) dp [] (db_apply dp o) [(id, o)] b [] HP1
              (Forall_nil _) (Forall_nil _) HtrA) as [HA1 HA2].
  set (cA := flush_outboxes c1 P) in *.
  set (xA := cn_set_node (cn_set_node xps n1) (clean_members (cn_node (cn_set_node xps n1)))) in *.
  assert (HBA : cl_bound cA (B + 2)).
  { apply cl_bound_flush. unfold c1, put_cn. apply cl_bound_set; [eapply cl_bound_mono; [|exact HBs]; lia|cbn; lia]. }
  unfold poll_repl_c.
  pose proof (PInvW_sync _ _ _ _ _ _ HA1) as HPA. set (cAs := sync_clocks cA) in *.
  set (xAs := reclock (maxclock cA) xA) in *.
  pose proof (cl_bound_get _ _ _ _ (cl_bound_sync cA _ HBA) (pi_get _ _ _ _ _ _ HPA)) as HBAp.
  unfold poll_repl_c_raw. rewrite (pi_get _ _ _ _ _ _ HPA).
  destruct (PInvW_poll cAs xAs (db_apply dp o) [(id, o)] b HPA) as (b' & HPp); [lia|].
  assert (HidB : Forall (fun i => i < 2 ^ 64) (map fst [(id, o)])).
  { constructor; [|constructor]. cbn [fst]. lia. }
  assert (HtrB : forall ds (qs : list (N * dop)), dbrel (db_apply dp o) (fold_left db_apply (map snd qs ++ map snd [(id, o)]) ds) ->
            dbrel (db_apply dp o) (fold_left db_apply (map snd (qs ++ [(id, o)]) ++ map snd (@nil (N * dop))) ds)).
  { intros ds qs Hrel. rewrite map_app. cbn [map]. now rewrite app_nil_r. }
  destruct (P_event_strong _ (poll_repl xAs) (db_apply dp o) [(id, o)] (db_apply dp o) [] b' [(id, o)] HPp
              (pi_wf _ _ _ _ _ _ HPA) HidB HtrB) as [HB1 HB2].
  exists opp, id. split; auto. split.
  - unfold db_of. rewrite (pi_get _ _ _ _ _ _ HB1). apply (pi_db _ _ _ _ _ _ HB1).
  - intros S l HSin Hl. destruct (HS S HSin) as (xs & l0 & ds & qs & H).
    rewrite (si_link _ _ _ _ _ _ _ _ H) in Hl. injection Hl as <-.
    apply SInvW_sync in H. fold cs in H.
    assert (H1 : SInvW c1 dp [] S (reclock (maxclock c) xs) l0 ds qs).
    { apply (SInvW_ext cs); auto. apply get_put_other. now apply S_ne_P. }
    apply (HA2 S _ _ _ _ HSin) in H1. apply SInvW_sync in H1.
    match type of H1 with SInvW _ _ _ _ ?x ?lA _ _ =>
      assert (H2 : SInvW (put_cn cAs P (poll_repl xAs)) (db_apply dp o) [(id, o)] S x lA ds (qs ++ []))
    end.
    { apply (SInvW_ext cAs); auto. apply get_put_other. now apply S_ne_P. }
    apply (HB2 S _ _ _ _ HSin) in H2.
    eexists. split; [apply (si_link _ _ _ _ _ _ _ _ H2)|].
    cbn [l_q lines map fst snd]. rewrite app_nil_r. reflexivity.
Qed.

(* ---- one event, with the clocks synchronised first ------------------------ *)
Lemma Inv_step c e B : Inv c -> ev_ok e -> cl_bound c B -> B <= 2 ^ 64 ->
  Inv (cstep c e) /\ cl_bound (cstep c e) (B + 2).
Proof.
  intros HI He HB HB64.
  pose proof (Inv_sync c HI) as HI'. pose proof (cl_bound_sync c B HB) as HB'.
  assert (Hmono : forall c', cl_bound c' B -> cl_bound c' (B + 2)) by (intros c'; apply cl_bound_mono; lia).
  destruct e as [k v | k | k i | | S | S | S]; cbn [cstep ev_ok] in *.
  - apply (Inv_write (sync_clocks c) (CSet k v) B); auto.
  - apply (Inv_write (sync_clocks c) (CRem k) B); auto.
  - apply (Inv_write (sync_clocks c) (CInc k i) B); auto.
  - destruct (Inv_poll (sync_clocks c) B HI' HB' HB64). split; auto.
  - unfold deliver. destruct (Inv_deliver (sync_clocks c) S B HI' He HB') as [H1 H2].
    destruct (deliver_raw (sync_clocks c) (lk S)); cbn [opt_or] in *; auto.
  - unfold reply. destruct (Inv_reply (sync_clocks c) S B HI' He HB') as [H1 H2].
    destruct (reply_raw (sync_clocks c) (lk S)); cbn [opt_or] in *; auto.
  - destruct (Inv_pollS (sync_clocks c) S B HI' He HB'). split; auto.
Qed.

Lemma Inv_run evs : forall c B, Inv c -> Forall ev_ok evs -> cl_bound c B ->
  B + 2 * N.of_nat (length evs) <= 2 ^ 64 -> Inv (run c evs).
Proof.
  induction evs as [|e evs IH]; intros c B HI Hok HB Hlen; cbn [run fold_left]; auto.
  inversion Hok as [|? ? He Hok']; subst.
  cbn [length] in Hlen.
  destruct (Inv_step c e B HI He HB) as [HI1 HB1]; [lia|].
  apply (IH (cstep c e) (B + 2)); auto. lia.
Qed.

(* ---- the invariant in the form of the property: what is in flight ------------ *)

(* the lines still on their way to S, oldest first: the queue of link P -> S, P's outbox for S,
   P's replication queue *)
Definition inflight (c : cluster) (S : str) : list str :=
  (match nth_error (c_links c) (lk S) with Some l => l_q l | None => [] end) ++
  (match get_cn c P with
   | Some xp => (match assoc_get String.eqb S (n_members (cn_node xp)) with Some (_, q) => q | None => [] end)
                ++ n_repl (cn_node xp)
   | None => []
   end).

(* RInv: every secondary's database, after applying in order the operations still in flight
   towards it, is the primary's database *)
Definition RInv (c : cluster) : Prop :=
  exists dp, db_of c P = Some dp /\
  forall S, In S Ss -> exists ds ops,
    db_of c S = Some ds /\ inflight c S = lines dbn ops /\ Forall op_wf (map snd ops) /\
    dbrel dp (fold_left db_apply (map snd ops) ds).

Lemma Inv_RInv c : Inv c -> RInv c.
Proof.
  intros (xp & dp & rq & b & HP & HS). exists dp. split.
  - unfold db_of. rewrite (pi_get _ _ _ _ _ _ HP). apply (pi_db _ _ _ _ _ _ HP).
  - intros S HSin. destruct (HS S HSin) as (xs & l & ds & qs & H). exists ds, (qs ++ rq).
    split; [unfold db_of; rewrite (si_get _ _ _ _ _ _ _ _ H); apply (si_db _ _ _ _ _ _ _ _ H)|].
    split; [|split].
    + unfold inflight. rewrite (si_link _ _ _ _ _ _ _ _ H), (pi_get _ _ _ _ _ _ HP), (pi_mem _ _ _ _ _ _ HP S HSin),
        (si_q _ _ _ _ _ _ _ _ H), (pi_repl _ _ _ _ _ _ HP). cbn [lines map app]. now rewrite lines_app.
    + rewrite map_app. apply Forall_app. split; [apply (si_wf _ _ _ _ _ _ _ _ H)|apply (pi_wf _ _ _ _ _ _ HP)].
    + rewrite map_app. apply (si_rel _ _ _ _ _ _ _ _ H).
Qed.

Definition quiescent (c : cluster) : Prop := forall S, In S Ss -> inflight c S = [].

Lemma RInv_quiescent c : RInv c -> quiescent c ->
  exists dp, db_of c P = Some dp /\ forall S, In S Ss -> exists ds, db_of c S = Some ds /\ dbrel dp ds.
Proof.
  intros (dp & Hp & HS) Hq. exists dp. split; auto.
  intros S HSin. destruct (HS S HSin) as (ds & ops & Hd & Hi & _ & Hrel). exists ds. split; auto.
  rewrite (Hq S HSin) in Hi. destruct ops; [exact Hrel|discriminate Hi].
Qed.

(* ---- the formed cluster -------------------------------------------------------- *)
Definition Formed (c : cluster) : Prop :=
  exists xp dp,
    get_cn c P = Some xp /\ cn_dead xp = false /\ n_role (cn_node xp) = Primary /\ n_addr (cn_node xp) = P /\
    NoDup (map fst (n_members (cn_node xp))) /\
    (forall S, In S Ss -> assoc_get String.eqb S (n_members (cn_node xp)) = Some (Secondary, [])) /\
    n_repl (cn_node xp) = [] /\
    (forall id, is_pending (n_pending (cn_node xp)) id = true -> id < n_clock (cn_node xp)) /\
    get_db (cn_node xp) dbn = Some dp /\ d_strat dp = SNone /\
    s_db (get_sess (cn_node xp) (nth cidx (cn_clients xp) 0%nat)) = Some dbn /\
    forall S, In S Ss -> exists xs l ds,
      get_cn c S = Some xs /\ n_role (cn_node xs) = Secondary /\ n_addr (cn_node xs) = S /\
      get_db (cn_node xs) dbn = Some ds /\ d_strat ds = SNone /\ dbrel dp ds /\
      nth_error (c_links c) (lk S) = Some l /\ l_from l = P /\ l_to l = S /\ l_open l = true /\
      l_hs l = [] /\ l_q l = [] /\ l_replies l = [] /\
      s_auth (get_sess (cn_node xs) (l_server l)) = true /\
      s_db (get_sess (cn_node xs) (l_server l)) = None /\
      s_inbox (get_sess (cn_node xs) (l_server l)) = [] /\
      no_watch ds (l_server l).

Lemma Formed_Inv c : Formed c -> Inv c.
Proof.
  intros (xp & dp & F1 & F2 & F3 & F4 & F5 & F6 & F7 & F8 & F9 & F10 & F11 & FS).
  exists xp, dp, [], (n_clock (cn_node xp)). split.
  - constructor; cbn [lines map ids_from]; auto; try lia; try (now constructor).
  - intros S HSin. destruct (FS S HSin) as (xs & l & ds & G1 & G2 & G3 & G4 & G5 & G6 & G7 & G8 & G9 & G10 & G11 & G12 & G13 & G14 & G15 & G16 & G17).
    exists xs, l, ds, []. constructor; cbn [lines map app fold_left]; auto; try (now constructor).
    rewrite G13. constructor.
Qed.

Lemma Formed_witness c : Formed c ->
  exists xp dp b, PInvW c xp dp [] b [] /\ forall S, In S Ss -> SInv c dp [] S.
Proof.
  intros (xp & dp & F1 & F2 & F3 & F4 & F5 & F6 & F7 & F8 & F9 & F10 & F11 & FS).
  exists xp, dp, (n_clock (cn_node xp)). split.
  - constructor; cbn [lines map ids_from]; auto; try lia; try (now constructor).
  - intros S HSin. destruct (FS S HSin) as (xs & l & ds & G1 & G2 & G3 & G4 & G5 & G6 & G7 & G8 & G9 & G10 & G11 & G12 & G13 & G14 & G15 & G16 & G17).
    exists xs, l, ds, []. constructor; cbn [lines map app fold_left]; auto; try (now constructor).
    rewrite G13. constructor.
Qed.

Theorem primary_write_queues_formed c w B :
  Formed c -> cop_ok w -> cl_bound c B -> B + 2 <= 2 ^ 64 ->
  resp_ok (snd (client_cmd c P cidx (cop_line w))) = true ->
  let c2 := poll_repl_c (fst (client_cmd c P cidx (cop_line w))) P in
  exists dp opp id,
    db_of c P = Some dp /\
    resp_ok (dop_resp dp (cop_dop w opp)) = true /\
    db_of c2 P = Some (db_apply dp (cop_dop w opp)) /\
    forall S l, In S Ss -> nth_error (c_links c) (lk S) = Some l ->
      exists l2, nth_error (c_links c2) (lk S) = Some l2 /\
                 l_q l2 = l_q l ++ [rp_line id (op_req dbn (cop_dop w opp))].
Proof.
  intros HF Hok HB HB64 Hresp. cbv zeta.
  destruct (Formed_witness c HF) as (xp & dp & b & HP & HS).
  destruct (primary_write_queues_sec c w B xp dp b HP HS Hok HB HB64 Hresp) as (opp & id & H1 & H2 & H3).
  exists dp, opp, id. split; auto.
  unfold db_of. rewrite (pi_get _ _ _ _ _ _ HP). apply (pi_db _ _ _ _ _ _ HP).
Qed.

Theorem C04_convergence_invariant_sec c evs B : Formed c -> Forall ev_ok evs -> cl_bound c B ->
  B + 2 * N.of_nat (length evs) <= 2 ^ 64 -> RInv (run c evs).
Proof. intros HF Hok HB Hlen. apply Inv_RInv. apply (Inv_run evs c B); auto. now apply Formed_Inv. Qed.

Theorem C04_converges_sec c evs B : Formed c -> Forall ev_ok evs -> cl_bound c B ->
  B + 2 * N.of_nat (length evs) <= 2 ^ 64 -> quiescent (run c evs) ->
  exists dp, db_of (run c evs) P = Some dp /\
    forall S, In S Ss -> exists ds, db_of (run c evs) S = Some ds /\ dbrel dp ds.
Proof.
  intros HF Hok HB Hlen Hq. apply RInv_quiescent; auto. now apply (C04_convergence_invariant_sec c evs B).
Qed.

End Converge.

(* ================================================================== *)
(* Part I.  The theorems, closed                                        *)
(* ================================================================== *)
Lemma Formed_P_not_sec P dbn Ss cidx lk c : Formed P dbn Ss cidx lk c -> ~ In P Ss.
Proof.
  intros (xp & dp & F1 & F2 & F3 & _ & _ & _ & _ & _ & _ & _ & _ & FS) Hin.
  destruct (FS P Hin) as (xs & l & ds & G1 & G2 & _). rewrite F1 in G1. injection G1 as <-. congruence.
Qed.

(* 3. the convergence invariant holds after any list of events *)
Theorem C04_convergence_invariant P dbn Ss cidx lk c evs B :
  simple_tok dbn -> (forall S, In S Ss -> simple_tok S) ->
  Formed P dbn Ss cidx lk c -> Forall (ev_ok Ss) evs ->
  cl_bound c B -> B + 2 * N.of_nat (length evs) <= 2 ^ 64 ->
  RInv P dbn Ss lk (run P cidx lk c evs).
Proof.
  intros Hd HS HF. apply C04_convergence_invariant_sec; auto. eapply Formed_P_not_sec; eauto.
Qed.

(* 4. at quiescence every secondary holds the primary's database: same keys, values, versions
      and removed / live status ([dbrel]) *)
Theorem C04_converges P dbn Ss cidx lk c evs B :
  simple_tok dbn -> (forall S, In S Ss -> simple_tok S) ->
  Formed P dbn Ss cidx lk c -> Forall (ev_ok Ss) evs ->
  cl_bound c B -> B + 2 * N.of_nat (length evs) <= 2 ^ 64 ->
  quiescent P Ss lk (run P cidx lk c evs) ->
  exists dp, db_of dbn (run P cidx lk c evs) P = Some dp /\
    forall S, In S Ss -> exists ds, db_of dbn (run P cidx lk c evs) S = Some ds /\ dbrel dp ds.
Proof.
  intros Hd HS HF. apply C04_converges_sec; auto. eapply Formed_P_not_sec; eauto.
Qed.

(* what [dbrel] means for a client: the same answer to every read *)
Corollary C04_converges_reads P dbn Ss cidx lk c evs B :
  simple_tok dbn -> (forall S, In S Ss -> simple_tok S) ->
  Formed P dbn Ss cidx lk c -> Forall (ev_ok Ss) evs ->
  cl_bound c B -> B + 2 * N.of_nat (length evs) <= 2 ^ 64 ->
  quiescent P Ss lk (run P cidx lk c evs) ->
  exists dp, db_of dbn (run P cidx lk c evs) P = Some dp /\
    forall S, In S Ss -> exists ds, db_of dbn (run P cidx lk c evs) S = Some ds /\
      forall k, live dp k = live ds k /\ get_key_value_new dp k = get_key_value_new ds k.
Proof.
  intros Hd HS HF Hok HB Hlen Hq.
  destruct (C04_converges P dbn Ss cidx lk c evs B Hd HS HF Hok HB Hlen Hq) as (dp & Hp & H).
  exists dp. split; auto. intros S HSin. destruct (H S HSin) as (ds & Hs & Hrel). exists ds. split; auto.
  intros k. split; [now apply dbrel_live|now apply dbrel_get].
Qed.

(* 1. one replicated line delivered to a secondary: the computation of [deliver_raw] on the
      receiving node.  The operation is applied to database [dbn] (with the secondary's own op
      stamp), the member table (outboxes) and the pending table are untouched, and the lines
      sent back are "ack <id> <S>" and "ok". *)
Theorem replicated_line_applies n sv dbn d id o :
  simple_tok dbn -> simple_tok (n_addr n) -> op_wf o -> id < 2 ^ 64 ->
  s_auth (get_sess n sv) = true -> s_db (get_sess n sv) = None -> s_inbox (get_sess n sv) = [] ->
  get_db n dbn = Some d -> d_strat d = SNone -> no_watch d sv ->
  let '(n1, r) := step n sv (rp_line id (op_req dbn o)) in
  let status := match r with RError msg => "error " +++ msg +++ " " +++ nlS | _ => "ok " +++ nlS end in
  let '(n3, inbox) := drain (send n1 sv status) sv in
  exists o', same_op o o' /\ get_db n3 dbn = Some (db_apply d o') /\
    n_members n3 = n_members n /\ n_pending n3 = n_pending n /\ n_role n3 = n_role n /\
    split_lines inbox = [ack_text id (n_addr n); "ok"].
Proof.
  intros Hd Ha Ho Hid Hau Hsd Hin Hdb Hst Hw.
  destruct (secondary_step n sv dbn d id o Hd Ho Hid Hau Hsd Hin Hdb Hst Hw) as (o' & Hso & Hf & Hclk & Hdb1 & Hin1 & Hne).
  destruct (step n sv (rp_line id (op_req dbn o))) as [n1 r]. cbn [fst snd] in *.
  assert (Hstat : match r with RError msg => "error " +++ msg +++ " " +++ nlS | _ => "ok " +++ nlS end = "ok " +++ nlS)
    by (destruct r; auto; exfalso; eapply Hne; reflexivity).
  cbv zeta. rewrite Hstat. unfold drain.
  exists o'. split; auto. split; [exact Hdb1|].
  split; [apply (fr_members _ _ Hf)|]. split; [apply (fr_pending _ _ Hf)|]. split; [apply (fr_role _ _ Hf)|].
  rewrite get_sess_send_same by (rewrite (fr_len _ _ Hf); now apply auth_in_range).
  cbn [sess_push s_inbox]. rewrite Hin1. now apply split_lines_ack.
Qed.

(* 2. an accepted client write on the primary of a formed cluster, followed by one poll of its
      replication thread: the primary's database changes by the operation and exactly one line
      (the same for every secondary) is appended, FIFO, to the queue of every link P -> S *)
Theorem primary_write_queues P dbn Ss cidx lk c w B :
  simple_tok dbn -> (forall S, In S Ss -> simple_tok S) ->
  Formed P dbn Ss cidx lk c -> cop_ok w -> cl_bound c B -> B + 2 <= 2 ^ 64 ->
  resp_ok (snd (client_cmd c P cidx (cop_line w))) = true ->
  let c2 := poll_repl_c (fst (client_cmd c P cidx (cop_line w))) P in
  exists dp opp id,
    db_of dbn c P = Some dp /\
    resp_ok (dop_resp dp (cop_dop w opp)) = true /\
    db_of dbn c2 P = Some (db_apply dp (cop_dop w opp)) /\
    forall S l, In S Ss -> nth_error (c_links c) (lk S) = Some l ->
      exists l2, nth_error (c_links c2) (lk S) = Some l2 /\
                 l_q l2 = l_q l ++ [rp_line id (op_req dbn (cop_dop w opp))].
Proof.
  intros Hd HS HF. apply primary_write_queues_formed; auto. eapply Formed_P_not_sec; eauto.
Qed.

(* ================================================================== *)
(* Part J.  Non-vacuity: a concrete formed cluster and a concrete run   *)
(* ================================================================== *)
Definition ex_c0 : cluster :=
  mkCl [("p1", init_cnode "u" "pw" "p1" 3 Primary 10);
        ("s1", init_cnode "u" "pw" "s1" 2 Secondary 10);
        ("s2", init_cnode "u" "pw" "s2" 1 Secondary 10)] [] 0.
(* both secondaries join; a client of p1 creates database "d" (strategy none) and selects it;
   a client of each secondary selects it too (this creates the "$connections" key everywhere) *)
Definition ex_use_at (c : cluster) (nm : str) : cluster :=
  let '(c, i) := client_conn c nm in
  fst (settle 20 (fst (client_cmd c nm i "use-db d tok"))).
Definition ex_build : cluster :=
  let c := fst (settle 20 (add_sec (add_sec ex_c0 "p1" "s1") "p1" "s2")) in
  let '(c, i) := client_conn c "p1" in
  let c := fst (client_cmd c "p1" i "auth u pw") in
  let c := fst (client_cmd c "p1" i "create-db d tok") in
  let c := fst (settle 20 c) in
  let c := fst (client_cmd c "p1" i "use-db d tok") in
  ex_use_at (ex_use_at (fst (settle 20 c)) "s1") "s2".
Definition ex_c : cluster := Eval vm_compute in ex_build.
Definition ex_lk (s : str) : nat := if String.eqb s "s1" then 0%nat else 1%nat.

Lemma dbrel_of_forall2 d1 d2 :
  Forall2 (fun a b => fst a = fst b /\ vrel (snd a) (snd b)) (d_map d1) (d_map d2) -> dbrel d1 d2.
Proof.
  intros H k. unfold get_value. induction H as [|[k1 v1] [k2 v2] l1 l2 [Hk Hv] _ IH]; cbn [assoc_get]; auto.
  cbn [fst snd] in *. subst k2. destruct (String.eqb k k1); auto.
Qed.

Ltac solve_tok := split; [discriminate|split; [reflexivity|vm_compute; discriminate]].

Example formed_example : Formed "p1" "d" ["s1"; "s2"] 0 ex_lk ex_c.
Proof.
  unfold Formed. eexists. eexists.
  split; [vm_compute; reflexivity|].
  split; [reflexivity|]. split; [reflexivity|]. split; [reflexivity|].
  split. { vm_compute. repeat constructor; cbn; intuition discriminate. }
  split. { intros S [<-|[<-|[]]]; vm_compute; reflexivity. }
  split; [reflexivity|].
  split. { intros id H. vm_compute in H. discriminate H. }
  split; [vm_compute; reflexivity|]. split; [reflexivity|]. split; [reflexivity|].
  intros S [<-|[<-|[]]].
  - eexists. eexists. eexists.
    split; [vm_compute; reflexivity|]. split; [reflexivity|]. split; [reflexivity|].
    split; [vm_compute; reflexivity|]. split; [reflexivity|].
    split. { apply dbrel_of_forall2. vm_compute. repeat constructor; intros E; discriminate E. }
    split; [vm_compute; reflexivity|].
    repeat (split; [reflexivity|]).
    intros k Hin. vm_compute in Hin. exact Hin.
  - eexists. eexists. eexists.
    split; [vm_compute; reflexivity|]. split; [reflexivity|]. split; [reflexivity|].
    split; [vm_compute; reflexivity|]. split; [reflexivity|].
    split. { apply dbrel_of_forall2. vm_compute. repeat constructor; intros E; discriminate E. }
    split; [vm_compute; reflexivity|].
    repeat (split; [reflexivity|]).
    intros k Hin. vm_compute in Hin. exact Hin.
Qed.

(* a concrete run: writes, removes, increments, deliveries in different orders per secondary *)
Definition ex_evs : list cev :=
  [EvSet "k" "v1"; EvInc "n" 5; EvPollRepl; EvDeliver "s1"; EvSet "k" "v2"; EvRemove "j";
   EvPollRepl; EvDeliver "s2"; EvReply "s1"; EvPollS "s1"; EvDeliver "s2"; EvRemove "k"; EvInc "n" (-2);
   EvDeliver "s1"; EvPollRepl; EvDeliver "s1"; EvDeliver "s1"; EvDeliver "s1"; EvDeliver "s1";
   EvDeliver "s2"; EvDeliver "s2"; EvDeliver "s2"; EvDeliver "s2"; EvReply "s2"; EvReply "s2"; EvPollS "s2"].

Lemma ex_evs_ok : Forall (ev_ok ["s1"; "s2"]) ex_evs.
Proof.
  unfold ex_evs.
  repeat (apply Forall_cons;
          [cbn [ev_ok];
           first [exact I | solve_tok | (split; [solve_tok|solve_tok])
                 | (split; [solve_tok|unfold is_i32; lia]) | (cbn; tauto)]|]).
  apply Forall_nil.
Qed.

Lemma ex_bound : cl_bound ex_c 24.
Proof. intros p [<-|[<-|[<-|[]]]]; vm_compute; intros H; discriminate H. Qed.

Definition ex_final : cluster := Eval vm_compute in run "p1" 0 ex_lk ex_c ex_evs.

Example formed_run_quiescent : quiescent "p1" ["s1"; "s2"] ex_lk (run "p1" 0 ex_lk ex_c ex_evs).
Proof. intros S [<-|[<-|[]]]; vm_compute; reflexivity. Qed.

(* the theorem applies to the run ... *)
Example formed_run_converges :
  exists dp, db_of "d" (run "p1" 0 ex_lk ex_c ex_evs) "p1" = Some dp /\
    forall S, In S ["s1"; "s2"] -> exists ds, db_of "d" (run "p1" 0 ex_lk ex_c ex_evs) S = Some ds /\ dbrel dp ds.
Proof.
  apply (C04_converges "p1" "d" ["s1"; "s2"] 0 ex_lk ex_c ex_evs 24).
  - solve_tok.
  - intros S [<-|[<-|[]]]; solve_tok.
  - exact formed_example.
  - exact ex_evs_ok.
  - exact ex_bound.
  - vm_compute. intros H; discriminate H.
  - exact formed_run_quiescent.
Qed.

(* ... and the computed final state shows what it says: same keys, values, versions, states *)
Definition ex_view (c : cluster) (nm : str) : option (list (str * str * Z * vstate)) :=
  match db_of "d" c nm with
  | Some d => Some (map (fun kv => (fst kv, v_val (snd kv), v_ver (snd kv), v_st (snd kv))) (d_map d))
  | None => None
  end.
Example formed_run_final :
  ex_view ex_final "p1" = Some [("$$token", "tok", 0%Z, VNew); ("$connections", "1", 0%Z, VNew); ("n", "3", 2%Z, VNew)] /\
  ex_view ex_final "s1" = ex_view ex_final "p1" /\ ex_view ex_final "s2" = ex_view ex_final "p1".
Proof. vm_compute. auto. Qed.

(* the hypothesis of [primary_write_queues] is satisfiable on the example *)
Example formed_write_accepted :
  resp_ok (snd (client_cmd ex_c "p1" 0 (cop_line (CSet "k" "v1")))) = true.
Proof. vm_compute. reflexivity. Qed.

(* the maps are NOT literally equal after replication: every node stamps a write with its own
   op id (v_opp), which is why convergence is stated with [dbrel] (keys, values, versions,
   new / removed status) *)
Example formed_run_opp_differs :
  match db_of "d" ex_final "p1", db_of "d" ex_final "s1" with
  | Some a, Some b => d_map a <> d_map b
  | _, _ => False
  end.
Proof. vm_compute. intros E. discriminate E. Qed.
