(* OplogProofs.v -- proofs about the operation-log model (Model/Oplog.v). *)
From NunDB Require Import Model.Base Model.Oplog Proofs.AssocLemmas.
From Coq Require Import Lia ZifyBool ZifyN ZifyNat Sorted.
Local Open Scope N_scope.
Ltac Zify.zify_post_hook ::= Z.div_mod_to_equations.

(* ------------------------------------------------------------------ *)
(* 1. byte arithmetic                                                   *)
Lemma units_ok : forall d, (25 * d / 2) / 25 = d / 2.
Proof. intros d. lia. Qed.

(* ------------------------------------------------------------------ *)
(* sortedness as a Prop                                                 *)
Definition tle (a b : oprec) : Prop := r_time a <= r_time b.
Definition sortedP (l : list oprec) : Prop := StronglySorted tle l.

Lemma sorted_times_sortedP l : sorted_times l = true -> sortedP l.
Proof.
  induction l as [|a l IH]; intros H.
  - constructor.
  - destruct l as [|b l'].
    + constructor; constructor.
    + cbn [sorted_times] in H. apply andb_true_iff in H. destruct H as [Hab Hr].
      specialize (IH Hr). constructor; [exact IH|].
      inversion IH as [|x y Hss Hfa]; subst.
      constructor.
      * unfold tle. lia.
      * eapply Forall_impl; [|exact Hfa]. intros c Hc. unfold tle in *. lia.
Qed.

Lemma sortedP_app l1 l2 : sortedP (l1 ++ l2) ->
  sortedP l1 /\ sortedP l2 /\ (forall a b, In a l1 -> In b l2 -> r_time a <= r_time b).
Proof.
  induction l1 as [|x l1 IH]; cbn [app]; intros H.
  - split; [constructor|]. split; [exact H|]. intros a b [].
  - inversion H as [|y l Hss Hfa]; subst.
    destruct (IH Hss) as (H1 & H2 & H3).
    rewrite Forall_forall in Hfa.
    split.
    + constructor; [exact H1|]. apply Forall_forall. intros c Hc. apply Hfa. apply in_or_app. now left.
    + split; [exact H2|]. intros a b [->|Ha] Hb.
      * apply Hfa. apply in_or_app. now right.
      * now apply H3.
Qed.

Lemma sortedP_nth l : sortedP l -> forall i j a b, nth_error l i = Some a -> nth_error l j = Some b ->
  (i <= j)%nat -> r_time a <= r_time b.
Proof.
  induction 1 as [|x l Hss IH Hfa]; intros i j a b Hi Hj Hij.
  - destruct i; discriminate.
  - destruct i as [|i]; destruct j as [|j]; cbn [nth_error] in *.
    + injection Hi as <-. injection Hj as <-. lia.
    + injection Hi as <-. rewrite Forall_forall in Hfa. apply Hfa. eapply nth_error_In; eauto.
    + lia.
    + eapply IH; eauto. lia.
Qed.

(* ------------------------------------------------------------------ *)
(* time at an index, default 0                                          *)
Definition tm (f : ofile) (i : N) : N :=
  match nth_time f i with Some t => t | None => 0 end.

Lemma nth_time_cases f i :
  (i < N.of_nat (length f) /\ nth_time f i = Some (tm f i)) \/
  (N.of_nat (length f) <= i /\ nth_time f i = None).
Proof.
  unfold tm, nth_time. destruct (nth_error f (N.to_nat i)) eqn:E; cbn [option_map].
  - left. split; [|reflexivity].
    assert (H : (N.to_nat i < length f)%nat) by (apply nth_error_Some; congruence). lia.
  - right. split; [|reflexivity]. apply nth_error_None in E. lia.
Qed.

Lemma tm_nth f i r : nth_error f i = Some r -> tm f (N.of_nat i) = r_time r.
Proof. intros H. unfold tm, nth_time. rewrite Nat2N.id, H. reflexivity. Qed.

Lemma nth_of_lt f i : i < N.of_nat (length f) ->
  exists r, nth_error f (N.to_nat i) = Some r /\ tm f i = r_time r.
Proof.
  intros H. destruct (nth_error f (N.to_nat i)) eqn:E.
  - exists o. split; [reflexivity|]. unfold tm, nth_time. now rewrite E.
  - apply nth_error_None in E. lia.
Qed.

Lemma tm_mono f : sortedP f -> forall i j, i <= j -> j < N.of_nat (length f) -> tm f i <= tm f j.
Proof.
  intros Hs i j Hij Hj.
  destruct (nth_of_lt f i) as (a & Ha & ->); [lia|].
  destruct (nth_of_lt f j) as (b & Hb & ->); [lia|].
  eapply (sortedP_nth f Hs); eauto. lia.
Qed.

(* ------------------------------------------------------------------ *)
(* 2/3. the search loop                                                 *)
Section Search.
Variable f : ofile.
Variable since : N.
Hypothesis Hs : sortedP f.
Local Notation n := (N.of_nat (length f)).

Record inv (st : sst) : Prop := mkInv {
  i_lo : s_min st <= s_seek st;
  i_hi : s_seek st <= s_max st;
  i_n : s_max st <= n;
  i_eqmn : s_seek st = s_min st -> s_max st <= s_min st + 1;
  i_eqmx : s_seek st = s_max st -> s_max st <= s_min st + 1;
  i_up : s_max st = n \/ since < tm f (s_max st);
  i_low : (s_min st <> 0 \/ s_seek st = s_max st) -> s_min st < n -> tm f (s_min st) < since;
  i_last : s_seek st = n ->
           (n = 0 /\ s_last st = 0) \/ (0 < n /\ s_last st = tm f (n - 1) /\ s_last st < since)
}.

Definition flag (sp mx : N) : N := if N.eqb sp mx then 0 else 1.
Lemma flag_cases sp mx : (sp = mx /\ flag sp mx = 0) \/ (sp <> mx /\ flag sp mx = 1).
Proof. unfold flag. destruct (N.eqb_spec sp mx); [left|right]; auto. Qed.

Definition mu (st : sst) : N := 2 * (s_max st - s_min st) + flag (s_seek st) (s_max st).

Definition post (r : sres) : Prop :=
  match r with
  | Found sp => nth_time f sp = Some since \/ (forall i, i < sp -> i < n -> tm f i < since)
  | NotFound => forall i, i < n -> tm f i < since
  | OutOfFuel | Underflow => False
  end.

Lemma step_ok st : inv st ->
  match search_step f since st with
  | inl st' => inv st' /\ mu st' < mu st
  | inr r => post r
  end.
Proof.
  destruct st as [mn mx sp last]. intros [Hlo Hhi Hn Heqmn Heqmx Hup Hlow Hlast].
  cbn [s_min s_max s_seek s_last] in *.
  unfold search_step, mu. cbn [s_min s_max s_seek s_last].
  pose proof (tm_mono f Hs) as Hmono.
  destruct (nth_time_cases f sp) as [[Hlt Ent]|[Hge Ent]]; rewrite Ent.
  - (* a record was read *)
    set (t := tm f sp) in *.
    destruct (N.ltb mx mn) eqn:E1; [lia|].
    destruct (N.eqb t since || (N.leb (mx - mn) 1 && N.ltb since t) || (N.eqb (mx - mn) 1 && N.eqb sp 1)) eqn:E2.
    + (* Found sp *)
      cbn [post].
      destruct (N.eqb_spec t since) as [Et|Et]; [left; rewrite Ent; now rewrite Et|].
      right. intros i Hi Hin.
      pose proof (Hmono i sp) as M1. pose proof (Hmono i mn) as M2. fold t in M1.
      destruct (N.ltb since t) eqn:E3.
      * (* no_more_smaller *)
        assert (Hp : mx - mn <= 1) by lia.
        assert (Hc : sp = mn \/ (sp = mn + 1 /\ sp = mx)) by lia.
        destruct Hc as [Hc|[Hc1 Hc2]].
        -- subst sp. fold t in Hlow. lia.
        -- lia.
      * (* read_all *)
        lia.
    + destruct (N.ltb t since) eqn:E3.
      * (* go up *)
        assert (Hspmx : sp < mx).
        { destruct Hup as [Hup|Hup]; [lia|]. destruct (N.eq_dec sp mx) as [->|]; [fold t in Hup|]; lia. }
        split.
        -- constructor; cbn [s_min s_max s_seek s_last]; try lia.
           intros Hx. right. assert (Hsp1 : sp = n - 1) by lia.
           split; [lia|]. split; [unfold t; now rewrite Hsp1|lia].
        -- cbn [s_min s_max s_seek s_last].
           pose proof (flag_cases sp mx). pose proof (flag_cases (sp + N.max ((N.max mx sp - sp) / 2) 1) mx). lia.
      * (* go down *)
        assert (Hgt : since < t) by lia.
        assert (Hp : 2 <= mx - mn) by lia.
        assert (Hsp : mn < sp) by lia.
        destruct (N.ltb sp mn || N.ltb sp (N.max ((sp - mn) / 2) 1)) eqn:E4; [lia|].
        split.
        -- constructor; cbn [s_min s_max s_seek s_last]; try lia.
        -- cbn [s_min s_max s_seek s_last].
           pose proof (flag_cases sp mx). pose proof (flag_cases (sp - N.max ((sp - mn) / 2) 1) sp). lia.
  - (* nothing read: sp = n, t = last *)
    assert (Hspn : sp = n) by lia.
    specialize (Hlast Hspn).
    destruct (N.ltb mx mn) eqn:E1; [lia|].
    destruct (N.eqb last since || (N.leb (mx - mn) 1 && N.ltb since last) || (N.eqb (mx - mn) 1 && N.eqb sp 1)) eqn:E2.
    + cbn [post]. right. intros i Hi Hin.
      pose proof (Hmono i (n - 1)) as M1. lia.
    + destruct (N.ltb last since) eqn:E3.
      * cbn [post]. intros i Hin. pose proof (Hmono i (n - 1)) as M1. lia.
      * exfalso. lia.
Qed.

Lemma loop_ok : forall fuel st, inv st -> (N.to_nat (mu st) < fuel)%nat ->
  post (search_loop fuel f since st).
Proof.
  induction fuel as [|k IH]; intros st Hinv Hfuel; [lia|].
  cbn [search_loop]. pose proof (step_ok st Hinv) as Hstep.
  destruct (search_step f since st) as [st'|r].
  - destruct Hstep as [Hinv' Hmu]. apply IH; [exact Hinv'|lia].
  - exact Hstep.
Qed.

Lemma inv_init : inv (mkS 0 n (n / 2) 0).
Proof. constructor; cbn [s_min s_max s_seek s_last]; try lia. Qed.

Lemma search_post : post (search f since).
Proof.
  unfold search. apply loop_ok; [apply inv_init|].
  unfold mu, search_fuel. cbn [s_min s_max s_seek s_last].
  pose proof (flag_cases (n / 2) n). lia.
Qed.

Lemma walk_back_spec : forall j, (j <= length f)%nat ->
  (forall i ri, (i < j)%nat -> nth_error f i = Some ri -> r_time ri <= since) ->
  forall i ri, (i < walk_back f since j)%nat -> nth_error f i = Some ri -> r_time ri < since.
Proof.
  induction j as [|j IH]; intros Hj Hle i ri Hi Hnth; cbn [walk_back] in Hi; [lia|].
  destruct (nth_error f j) as [r|] eqn:Ej.
  - destruct (N.eqb_spec (r_time r) since) as [Er|Er].
    + apply IH with (i := i); [lia| |exact Hi|exact Hnth].
      intros i0 ri0 Hi0 Hn0. apply (Hle i0 ri0); [lia|exact Hn0].
    + pose proof (Hle j r ltac:(lia) Ej).
      pose proof (sortedP_nth f Hs i j ri r Hnth Ej ltac:(lia)). lia.
  - apply nth_error_None in Ej. lia.
Qed.

Lemma scan_start_ok sp : post (Found sp) ->
  forall i r, nth_error f i = Some r -> N.of_nat i < scan_start f since sp -> r_time r < since.
Proof.
  cbn [post]. intros Hpost i r Hnth Hi.
  assert (Hin : N.of_nat i < n).
  { assert (i < length f)%nat by (apply nth_error_Some; congruence). lia. }
  unfold scan_start in Hi.
  destruct (nth_time_cases f sp) as [[Hlt Esp]|[Hge Esp]]; rewrite Esp in *.
  - destruct (N.eqb (tm f sp) since) eqn:Eb; rewrite ?Eb in Hi;
      [assert (Et : tm f sp = since) by lia|assert (Et : tm f sp <> since) by lia].
    + apply (walk_back_spec (N.to_nat sp)) with (i := i); [lia| |lia|exact Hnth].
      intros i' ri' Hi' Hnth'.
      rewrite <- (tm_nth f i' ri' Hnth'), <- Et.
      apply (tm_mono f Hs); lia.
    + destruct Hpost as [Hp|Hp]; [congruence|].
      rewrite <- (tm_nth f i r Hnth). apply Hp; lia.
  - destruct Hpost as [Hp|Hp]; [congruence|].
    rewrite <- (tm_nth f i r Hnth). apply Hp; lia.
Qed.

End Search.

Theorem search_total : forall f since, sorted_times f = true ->
  (exists sp, search f since = Found sp) \/ search f since = NotFound.
Proof.
  intros f since Hs. pose proof (search_post f since (sorted_times_sortedP f Hs)) as H.
  destruct (search f since); cbn [post] in H; try contradiction; eauto.
Qed.

Theorem search_found_complete : forall f since sp, sorted_times f = true ->
  search f since = Found sp ->
  forall i r, nth_error f i = Some r -> (N.of_nat i < scan_start f since sp) -> r_time r < since.
Proof.
  intros f since sp Hs Hfound.
  pose proof (search_post f since (sorted_times_sortedP f Hs)) as H. rewrite Hfound in H.
  apply (scan_start_ok f since (sorted_times_sortedP f Hs) sp H).
Qed.

Theorem search_notfound_complete : forall f since, sorted_times f = true ->
  search f since = NotFound -> forall r, In r f -> r_time r < since.
Proof.
  intros f since Hs Hnf r Hin.
  pose proof (search_post f since (sorted_times_sortedP f Hs)) as H. rewrite Hnf in H. cbn [post] in H.
  apply In_nth_error in Hin. destruct Hin as [i Hi].
  rewrite <- (tm_nth f i r Hi). apply H.
  assert (i < length f)%nat by (apply nth_error_Some; congruence). lia.
Qed.

(* ------------------------------------------------------------------ *)
(* 4/5. the linear scan and the per-key result                          *)
Lemma okey_eqb_spec (a b : okey) : reflect (a = b) (okey_eqb a b).
Proof.
  destruct a as [a1 a2], b as [b1 b2]. unfold okey_eqb. cbn [fst snd].
  destruct (N.eqb_spec a1 b1), (N.eqb_spec a2 b2); constructor; congruence.
Qed.

Definition kof (r : oprec) : okey := (r_db r, r_key r).

Section PerKey.
Variable since : N.
Variable k : okey.

Definition hitc (r : oprec) : bool := N.leb since (r_time r) && okey_eqb (kof r) k.

Lemma spec_last_snoc l x :
  spec_last (l ++ [x]) since k = if hitc x then Some x else spec_last l since k.
Proof. unfold spec_last. rewrite fold_left_app. reflexivity. Qed.

Lemma spec_last_app l1 l2 :
  spec_last (l1 ++ l2) since k =
  match spec_last l2 since k with Some r => Some r | None => spec_last l1 since k end.
Proof.
  induction l2 as [|x l2 IH] using rev_ind.
  - rewrite app_nil_r. reflexivity.
  - rewrite app_assoc, !spec_last_snoc. destruct (hitc x); [reflexivity|exact IH].
Qed.

Lemma spec_last_some l r : spec_last l since k = Some r ->
  In r l /\ since <= r_time r /\ kof r = k.
Proof.
  induction l as [|x l IH] using rev_ind; [discriminate|].
  rewrite spec_last_snoc. destruct (hitc x) eqn:E.
  - intros [= <-]. unfold hitc in E. apply andb_true_iff in E. destruct E as [E1 E2].
    split; [apply in_or_app; right; now left|]. split; [lia|].
    destruct (okey_eqb_spec (kof x) k); [assumption|discriminate].
  - intros H. destruct (IH H) as (H1 & H2 & H3). split; [apply in_or_app; now left|auto].
Qed.

Lemma spec_last_none l : spec_last l since k = None ->
  forall r, In r l -> kof r = k -> r_time r < since.
Proof.
  induction l as [|x l IH] using rev_ind; [intros _ r []|].
  rewrite spec_last_snoc. destruct (hitc x) eqn:E; [discriminate|].
  intros H r Hin Hk. apply in_app_or in Hin. destruct Hin as [Hin|[<-|[]]].
  - now apply IH.
  - unfold hitc in E. rewrite Hk in E.
    destruct (okey_eqb_spec k k) as [_|Hne]; [|congruence]. lia.
Qed.

Lemma spec_last_old l : (forall r, In r l -> r_time r < since) -> spec_last l since k = None.
Proof.
  induction l as [|x l IH] using rev_ind; [reflexivity|].
  intros H. rewrite spec_last_snoc.
  assert (Hx : r_time x < since) by (apply H; apply in_or_app; right; now left).
  unfold hitc. destruct (N.leb_spec since (r_time x)); [lia|]. cbn [andb].
  apply IH. intros r Hr. apply H. apply in_or_app. now left.
Qed.

(* last record with key k, regardless of time *)
Definition last_key (l : list oprec) : option oprec :=
  fold_left (fun acc r => if okey_eqb (kof r) k then Some r else acc) l None.

Lemma last_key_snoc l x :
  last_key (l ++ [x]) = if okey_eqb (kof x) k then Some x else last_key l.
Proof. unfold last_key. rewrite fold_left_app. reflexivity. Qed.

Lemma last_key_some l r : last_key l = Some r -> In r l /\ kof r = k.
Proof.
  induction l as [|x l IH] using rev_ind; [discriminate|].
  rewrite last_key_snoc. destruct (okey_eqb_spec (kof x) k) as [E|E].
  - intros [= <-]. split; [apply in_or_app; right; now left|assumption].
  - intros H. destruct (IH H) as [H1 H2]. split; [apply in_or_app; now left|assumption].
Qed.

Lemma sorted_spec_last_key l r : sortedP l ->
  spec_last l since k = Some r -> last_key l = Some r.
Proof.
  induction l as [|x l IH] using rev_ind; [discriminate|].
  intros Hs. apply sortedP_app in Hs. destruct Hs as (Hs1 & _ & Hcross).
  rewrite spec_last_snoc, last_key_snoc. unfold hitc.
  destruct (okey_eqb (kof x) k) eqn:Ek.
  - destruct (N.leb_spec since (r_time x)) as [Hle|Hlt]; cbn [andb]; [auto|].
    intros H. apply spec_last_some in H. destruct H as (Hin & Hge & _).
    specialize (Hcross r x Hin (or_introl eq_refl)). lia.
  - rewrite andb_false_r. auto.
Qed.

Lemma scan_snoc : forall l x c m, exists c',
  scan (l ++ [x]) c m = assoc_set okey_eqb (kof x) (mkHit x c') (scan l c m).
Proof.
  induction l as [|y l IH]; intros x c m; cbn [app scan].
  - eexists. reflexivity.
  - apply IH.
Qed.

Lemma scan_get : forall l c m,
  match last_key l with
  | Some r => exists h, assoc_get okey_eqb k (scan l c m) = Some h /\ h_rec h = r
  | None => assoc_get okey_eqb k (scan l c m) = assoc_get okey_eqb k m
  end.
Proof.
  induction l as [|x l IH] using rev_ind; intros c m; [reflexivity|].
  rewrite last_key_snoc. destruct (scan_snoc l x c m) as [c' ->].
  destruct (okey_eqb_spec (kof x) k) as [E|E].
  - rewrite E. rewrite (get_set_same okey_eqb okey_eqb_spec). eexists. split; reflexivity.
  - rewrite (get_set_other okey_eqb okey_eqb_spec) by congruence. apply IH.
Qed.

End PerKey.

Lemma query_file_sortedP : forall f since m, sortedP f ->
  exists m', query_file f since m = Some m' /\
    (forall k r, spec_last f since k = Some r ->
        exists h, assoc_get okey_eqb k m' = Some h /\ h_rec h = r) /\
    (forall k, spec_last f since k = None ->
        assoc_get okey_eqb k m' = assoc_get okey_eqb k m \/
        (exists h, assoc_get okey_eqb k m' = Some h /\ In (h_rec h) f /\ (r_db (h_rec h), r_key (h_rec h)) = k)).
Proof.
  intros f since m Hs. pose proof (search_post f since Hs) as Hpost.
  unfold query_file. destruct (search f since) as [sp| | |] eqn:Es; cbn [post] in Hpost; try contradiction.
  - (* Found *)
    eexists. split; [reflexivity|].
    pose proof (scan_start_ok f since Hs sp Hpost) as Hold.
    set (s := N.to_nat (scan_start f since sp)) in *.
    assert (Hsplit : f = firstn s f ++ skipn s f) by (symmetry; apply firstn_skipn).
    assert (Hpre : forall r, In r (firstn s f) -> r_time r < since).
    { intros r Hin. apply In_nth_error in Hin. destruct Hin as [i Hi].
      assert (Hil : (i < length (firstn s f))%nat) by (apply nth_error_Some; congruence).
      rewrite firstn_length in Hil.
      apply (Hold i r); [|lia].
      rewrite Hsplit. rewrite nth_error_app1; [exact Hi|]. rewrite firstn_length. lia. }
    assert (Hsuf : sortedP (skipn s f)).
    { rewrite Hsplit in Hs. apply sortedP_app in Hs. tauto. }
    assert (Hspec : forall k, spec_last f since k = spec_last (skipn s f) since k).
    { intros k. rewrite Hsplit at 1. rewrite spec_last_app.
      rewrite (spec_last_old since k _ Hpre). now destruct (spec_last (skipn s f) since k). }
    split.
    + intros k r Hk. rewrite Hspec in Hk.
      apply (sorted_spec_last_key since k _ r Hsuf) in Hk.
      pose proof (scan_get k (skipn s f) 0 m) as Hg. rewrite Hk in Hg. exact Hg.
    + intros k _. pose proof (scan_get k (skipn s f) 0 m) as Hg.
      destruct (last_key k (skipn s f)) as [r|] eqn:El; [right|left; exact Hg].
      destruct Hg as (h & Hh & Hr). exists h. split; [exact Hh|].
      apply last_key_some in El. destruct El as [Hin Hkof]. rewrite Hr.
      split; [|exact Hkof]. rewrite Hsplit. apply in_or_app. now right.
  - (* NotFound *)
    eexists. split; [reflexivity|]. split.
    + intros k r Hk. apply spec_last_some in Hk. destruct Hk as (Hin & Hge & _).
      apply In_nth_error in Hin. destruct Hin as [i Hi].
      assert (i < length f)%nat by (apply nth_error_Some; congruence).
      pose proof (Hpost (N.of_nat i) ltac:(lia)) as Hlt. rewrite (tm_nth f i r Hi) in Hlt. lia.
    + intros k _. now left.
Qed.

Theorem query_file_complete : forall f since m, sorted_times f = true ->
  exists m', query_file f since m = Some m' /\
    (forall k r, spec_last f since k = Some r ->
        exists h, assoc_get okey_eqb k m' = Some h /\ h_rec h = r) /\
    (forall k, spec_last f since k = None ->
        assoc_get okey_eqb k m' = assoc_get okey_eqb k m \/
        (exists h, assoc_get okey_eqb k m' = Some h /\ In (h_rec h) f /\ (r_db (h_rec h), r_key (h_rec h)) = k)).
Proof. intros f since m Hs. apply query_file_sortedP. now apply sorted_times_sortedP. Qed.

Lemma query_files_sortedP : forall fs since m, sortedP (concat fs) ->
  exists m', query_files fs since m = Some m' /\
    (forall k r, spec_last (concat fs) since k = Some r ->
        exists h, assoc_get okey_eqb k m' = Some h /\ h_rec h = r) /\
    (forall k, spec_last (concat fs) since k = None ->
        assoc_get okey_eqb k m' = assoc_get okey_eqb k m \/
        (exists h, assoc_get okey_eqb k m' = Some h /\ In (h_rec h) (concat fs) /\ kof (h_rec h) = k)).
Proof.
  induction fs as [|f rest IH]; intros since m Hs; cbn [concat query_files] in *.
  - exists m. split; [reflexivity|]. split; [intros k r H; discriminate|intros k _; now left].
  - pose proof (sortedP_app _ _ Hs) as (Hsf & Hsr & Hcross).
    destruct (query_file_sortedP f since m Hsf) as (m1 & Hq1 & Hsome1 & Hnone1).
    rewrite Hq1.
    destruct (IH since m1 Hsr) as (m' & Hq & Hsome & Hnone).
    exists m'. split; [exact Hq|]. split.
    + intros k r Hk. rewrite spec_last_app in Hk.
      destruct (spec_last (concat rest) since k) as [r'|] eqn:Er.
      * injection Hk as ->. now apply Hsome.
      * destruct (Hnone k Er) as [Heq|(h & Hh & Hin & Hkof)].
        -- rewrite Heq. now apply Hsome1.
        -- exfalso.
           pose proof (spec_last_none since k _ Er _ Hin Hkof) as Hlt.
           apply spec_last_some in Hk. destruct Hk as (Hinf & Hge & _).
           specialize (Hcross r (h_rec h) Hinf Hin). lia.
    + intros k Hk. rewrite spec_last_app in Hk.
      destruct (spec_last (concat rest) since k) as [r'|] eqn:Er; [discriminate|].
      destruct (Hnone k Er) as [Heq|(h & Hh & Hin & Hkof)].
      * rewrite Heq. destruct (Hnone1 k Hk) as [Heq1|(h & Hh & Hin & Hkof)]; [now left|].
        right. exists h. split; [exact Hh|]. split; [apply in_or_app; now left|exact Hkof].
      * right. exists h. split; [exact Hh|]. split; [apply in_or_app; now right|exact Hkof].
Qed.

Lemma all_records_concat rotated current :
  all_records rotated current = concat (rotated ++ [current]).
Proof. unfold all_records. rewrite concat_app. cbn [concat]. now rewrite app_nil_r. Qed.

Theorem query_all_complete : forall rotated current since,
  sorted_times (all_records rotated current) = true ->
  exists m, query_all rotated current since = Some m /\
    forall k r, spec_last (all_records rotated current) since k = Some r ->
      exists h, assoc_get okey_eqb k m = Some h /\ h_rec h = r.
Proof.
  intros rotated current since Hs. apply sorted_times_sortedP in Hs.
  rewrite all_records_concat in *. unfold query_all.
  destruct (query_files_sortedP (rotated ++ [current]) since [] Hs) as (m & Hq & Hsome & _).
  exists m. split; [exact Hq|exact Hsome].
Qed.

(* ------------------------------------------------------------------ *)
(* 6. last_op_time                                                      *)
Lemma last_op_time_nil : last_op_time [] = 0.
Proof. reflexivity. Qed.

Lemma last_op_time_snoc : forall f r, last_op_time (f ++ [r]) = r_time r.
Proof. intros f r. unfold last_op_time. rewrite rev_app_distr. reflexivity. Qed.

(* ------------------------------------------------------------------ *)
(* 7. writing, rotation, retention                                      *)
Theorem reopen_records : forall single l,
  all_records (l_rotated (reopen single l)) (l_current (reopen single l)) = all_records (l_rotated l) (l_current l).
Proof.
  intros single l. unfold reopen.
  destruct (N.leb single (file_bytes (l_current l))); [|reflexivity].
  cbn [l_rotated l_current]. unfold all_records.
  rewrite concat_app. cbn [concat]. now rewrite !app_nil_r.
Qed.

Theorem append_records : forall single l r,
  all_records (l_rotated (oplog_append single l r)) (l_current (oplog_append single l r))
    = all_records (l_rotated l) (l_current l) ++ [r] \/
  all_records (l_rotated (oplog_append single l r)) (l_current (oplog_append single l r))
    = all_records (l_rotated l) (l_current l) ++ [r; r].
Proof.
  intros single l r. unfold oplog_append.
  set (l1 := mkLog (l_rotated l) (l_current l ++ [r])).
  assert (H1 : all_records (l_rotated l1) (l_current l1) = all_records (l_rotated l) (l_current l) ++ [r]).
  { unfold l1, all_records. cbn [l_rotated l_current]. now rewrite app_assoc. }
  destruct (N.ltb single (file_bytes (l_current l1))).
  - right. cbn [l_rotated l_current].
    unfold all_records at 1. rewrite app_assoc.
    change (concat (l_rotated (reopen single l1)) ++ l_current (reopen single l1))
      with (all_records (l_rotated (reopen single l1)) (l_current (reopen single l1))).
    rewrite reopen_records, H1, <- app_assoc. reflexivity.
  - left. exact H1.
Qed.

Theorem declutter_suffix : forall l, exists dropped,
  all_records (l_rotated l) (l_current l) = dropped ++ all_records (l_rotated (declutter l)) (l_current (declutter l)).
Proof.
  intros l. unfold declutter.
  destruct (Nat.ltb (length (l_rotated l)) 10).
  - exists []. reflexivity.
  - cbn [l_rotated l_current].
    exists (concat (firstn (length (l_rotated l) - 9) (l_rotated l))).
    unfold all_records. rewrite app_assoc, <- concat_app, firstn_skipn. reflexivity.
Qed.
