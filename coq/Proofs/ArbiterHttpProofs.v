From NunDB Require Import Model.Base Model.Pending Model.Parse Model.Node Proofs.AssocLemmas. Local Open Scope Z_scope.

(* ====================================================================== *)
(* 0. Infrastructure: sessions, databases, sends                           *)
(* ====================================================================== *)

Lemma list_update_length {A} (l : list A) i x : List.length (list_update l i x) = List.length l.
Proof. revert i; induction l as [|y r IH]; intros [|i]; cbn; auto. Qed.

Lemma nth_list_update_same {A} (l : list A) i x d :
  (i < List.length l)%nat -> nth i (list_update l i x) d = x.
Proof. revert i; induction l as [|y r IH]; intros [|i] H; cbn in *; try lia; auto. apply IH; lia. Qed.

Lemma nth_list_update_other {A} (l : list A) i j x d :
  i <> j -> nth j (list_update l i x) d = nth j l d.
Proof.
  revert i j; induction l as [|y r IH]; intros [|i] [|j] H; cbn; auto; try congruence.
Qed.

Lemma list_update_oob {A} (l : list A) i x : (List.length l <= i)%nat -> list_update l i x = l.
Proof. revert i; induction l as [|y r IH]; intros [|i] H; cbn in *; auto; try lia. f_equal. apply IH. lia. Qed.

Lemma list_update_nth_id {A} (l : list A) i d : list_update l i (nth i l d) = l.
Proof. revert i; induction l as [|y r IH]; intros [|i]; cbn; auto. f_equal. apply IH. Qed.

Definition inbox (n : node) (c : nat) : list str := s_inbox (get_sess n c).

Lemma get_sess_put_other n c c' s : c <> c' -> get_sess (put_sess n c s) c' = get_sess n c'.
Proof. intros H. unfold get_sess, put_sess. cbn. now apply nth_list_update_other. Qed.

Lemma get_sess_put_same n c s : (c < List.length (n_sess n))%nat -> get_sess (put_sess n c s) c = s.
Proof. intros H. unfold get_sess, put_sess. cbn. now apply nth_list_update_same. Qed.

Lemma get_sess_oob n c : (List.length (n_sess n) <= c)%nat -> get_sess n c = empty_sess.
Proof. intros H. unfold get_sess. now apply nth_overflow. Qed.

Lemma put_sess_len n c s : List.length (n_sess (put_sess n c s)) = List.length (n_sess n).
Proof. unfold put_sess. cbn. apply list_update_length. Qed.

Lemma put_sess_dbs n c s : n_dbs (put_sess n c s) = n_dbs n.
Proof. reflexivity. Qed.

Lemma send_dbs n c m : n_dbs (send n c m) = n_dbs n.
Proof. reflexivity. Qed.

Lemma send_len n c m : List.length (n_sess (send n c m)) = List.length (n_sess n).
Proof. unfold send. apply put_sess_len. Qed.

Lemma send_sess_other n a m c : a <> c -> get_sess (send n a m) c = get_sess n c.
Proof. intros H. unfold send. now apply get_sess_put_other. Qed.

Lemma send_sess_same n c m : (c < List.length (n_sess n))%nat ->
  get_sess (send n c m) c = sess_push (get_sess n c) m.
Proof. intros H. unfold send. now apply get_sess_put_same. Qed.

Lemma send_oob n c m : (List.length (n_sess n) <= c)%nat -> send n c m = n.
Proof.
  intros H. unfold send, put_sess. rewrite list_update_oob by assumption. now destruct n.
Qed.

Lemma sends_dbs n l : n_dbs (sends n l) = n_dbs n.
Proof. revert n; induction l as [|[a m] r IH]; intros n; cbn; auto. unfold sends in IH. now rewrite IH. Qed.

Lemma sends_len n l : List.length (n_sess (sends n l)) = List.length (n_sess n).
Proof. revert n; induction l as [|[a m] r IH]; intros n; cbn; auto. unfold sends in IH. rewrite IH. apply send_len. Qed.

Lemma sends_sess_other n l c : (forall a m, In (a, m) l -> a <> c) -> get_sess (sends n l) c = get_sess n c.
Proof.
  revert n; induction l as [|[a m] r IH]; intros n H; cbn; auto.
  unfold sends in IH. rewrite IH.
  - apply send_sess_other. apply (H a m). now left.
  - intros a' m' Hin. apply (H a' m'). now right.
Qed.

Lemma sends_app n l1 l2 : sends n (l1 ++ l2) = sends (sends n l1) l2.
Proof. unfold sends. apply fold_left_app. Qed.

(* exact inbox after a batch of sends *)
Definition msgs_for (c : nat) (l : list (nat * str)) : list str :=
  map snd (filter (fun p => Nat.eqb (fst p) c) l).

Lemma sends_inbox n l c : (c < List.length (n_sess n))%nat ->
  inbox (sends n l) c = inbox n c ++ msgs_for c l.
Proof.
  revert n; induction l as [|[a m] r IH]; intros n H; cbn.
  - now rewrite app_nil_r.
  - unfold sends in IH. rewrite IH by (now rewrite send_len).
    unfold msgs_for. cbn. destruct (Nat.eqb_spec a c) as [->|Hne].
    + unfold inbox. rewrite send_sess_same by assumption. cbn. now rewrite <- app_assoc.
    + unfold inbox. now rewrite send_sess_other by assumption.
Qed.

Lemma get_db_core n n' x : n_dbs n' = n_dbs n -> get_db n' x = get_db n x.
Proof. unfold get_db. now intros ->. Qed.

Lemma get_sess_core n n' c : n_sess n' = n_sess n -> get_sess n' c = get_sess n c.
Proof. unfold get_sess. now intros ->. Qed.

Lemma get_db_put_same n x d : get_db (put_db n x d) x = Some d.
Proof. unfold get_db, put_db. cbn. apply (get_set_same _ String.eqb_spec). Qed.

Lemma get_db_put_other n x y d : y <> x -> get_db (put_db n x d) y = get_db n y.
Proof. intros H. unfold get_db, put_db. cbn. now apply (get_set_other _ String.eqb_spec). Qed.

Lemma get_db_put n x y d : get_db (put_db n x d) y = if String.eqb y x then Some d else get_db n y.
Proof.
  destruct (String.eqb_spec y x) as [->|H].
  - apply get_db_put_same.
  - now apply get_db_put_other.
Qed.

Lemma put_db_sess n x d : n_sess (put_db n x d) = n_sess n.
Proof. reflexivity. Qed.

Lemma get_value_put_same d k v : get_value (put_value d k v) k = Some v.
Proof. unfold get_value, put_value. cbn. apply (get_set_same _ String.eqb_spec). Qed.

Lemma get_value_put_other d k k' v : k' <> k -> get_value (put_value d k v) k' = get_value d k'.
Proof. intros H. unfold get_value, put_value. cbn. now apply (get_set_other _ String.eqb_spec). Qed.

Lemma watchers_put_value d k v k' : watchers_of (put_value d k v) k' = watchers_of d k'.
Proof. reflexivity. Qed.

(* ---------------------------------------------------------------------- *)
(* node relations                                                          *)
(* ---------------------------------------------------------------------- *)

Definition nowatch (n : node) (c : nat) : Prop :=
  forall dbn d k, get_db n dbn = Some d -> ~ In c (watchers_of d k).

Definition quiet (n : node) (c : nat) : Prop :=
  s_inbox (get_sess n c) = [] /\
  (forall dbn d k, get_db n dbn = Some d -> ~ In c (watchers_of d k)).

Definition conn_of (n : node) (x : str) : Z :=
  match get_db n x with Some d => d_conn d | None => 0 end.

Definition sel (n : node) (c : nat) (x : str) : Z :=
  match s_db (get_sess n c) with
  | Some y => if String.eqb y x then 1 else 0
  | None => 0
  end.

(* databases only grow; watch tables are kept (a new database watches nothing) *)
Record grows (n n' : node) : Prop := {
  g_watch : forall x d', get_db n' x = Some d' ->
              match get_db n x with Some d => d_watch d' = d_watch d | None => d_watch d' = [] end;
  g_has : forall x, has_db n x = true -> has_db n' x = true;
  g_len : List.length (n_sess n') = List.length (n_sess n) }.

Lemma grows_refl n : grows n n.
Proof. split; auto. intros x d' H. now rewrite H. Qed.

Lemma grows_trans n1 n2 n3 : grows n1 n2 -> grows n2 n3 -> grows n1 n3.
Proof.
  intros [W1 H1 L1] [W2 H2 L2]. split.
  - intros x d3 E3. specialize (W2 x d3 E3).
    destruct (get_db n2 x) as [d2|] eqn:E2.
    + specialize (W1 x d2 E2). destruct (get_db n1 x); congruence.
    + destruct (get_db n1 x) as [d1|] eqn:E1; auto.
      specialize (H1 x). unfold has_db in H1. rewrite E1, E2 in H1. discriminate H1. reflexivity.
  - auto.
  - congruence.
Qed.

Lemma grows_core n n' : n_dbs n' = n_dbs n ->
  List.length (n_sess n') = List.length (n_sess n) -> grows n n'.
Proof.
  intros Hd Hs. split.
  - intros x d' H. rewrite (get_db_core _ _ _ Hd) in H. now rewrite H.
  - intros x. unfold has_db. now rewrite (get_db_core _ _ _ Hd).
  - assumption.
Qed.

Lemma watchers_eq d d' k : d_watch d' = d_watch d -> watchers_of d' k = watchers_of d k.
Proof. unfold watchers_of. now intros ->. Qed.

Lemma nowatch_grows n n' c : nowatch n c -> grows n n' -> nowatch n' c.
Proof.
  intros Hn [W _ _] dbn d' k E. specialize (W dbn d' E).
  destruct (get_db n dbn) as [d|] eqn:E0.
  - rewrite (watchers_eq _ _ _ W). now apply (Hn dbn).
  - unfold watchers_of. rewrite W. cbn. auto.
Qed.

(* [frame]: nothing session [c] can observe changed, connection counters kept *)
Record frame (c : nat) (n n' : node) : Prop := {
  f_grows : grows n n';
  f_conn : forall x, conn_of n' x = conn_of n x;
  f_sess : get_sess n' c = get_sess n c }.

Lemma frame_refl c n : frame c n n.
Proof. split; auto using grows_refl. Qed.

Lemma frame_trans c n1 n2 n3 : frame c n1 n2 -> frame c n2 n3 -> frame c n1 n3.
Proof.
  intros [G1 C1 S1] [G2 C2 S2]. split.
  - eapply grows_trans; eauto.
  - intros x. now rewrite C2.
  - congruence.
Qed.

Lemma frame_core c n n' : n_dbs n' = n_dbs n -> n_sess n' = n_sess n -> frame c n n'.
Proof.
  intros Hd Hs. split.
  - apply grows_core; auto. now rewrite Hs.
  - intros x. unfold conn_of. now rewrite (get_db_core _ _ _ Hd).
  - now apply get_sess_core.
Qed.

(* [keeps]: like [frame] but session [c] may have received at most one more line *)
Record keeps (c : nat) (n n' : node) : Prop := {
  k_grows : grows n n';
  k_conn : forall x, conn_of n' x = conn_of n x;
  k_db : s_db (get_sess n' c) = s_db (get_sess n c);
  k_inb : (List.length (inbox n' c) <= List.length (inbox n c) + 1)%nat }.

Lemma frame_keeps c n n' : frame c n n' -> keeps c n n'.
Proof. intros [G C S]. split; auto; unfold inbox; rewrite S; auto; lia. Qed.

Lemma keeps_frame_trans c n1 n2 n3 : keeps c n1 n2 -> frame c n2 n3 -> keeps c n1 n3.
Proof.
  intros [G1 C1 S1 I1] [G2 C2 S2]. split.
  - eapply grows_trans; eauto.
  - intros x. now rewrite C2.
  - now rewrite S2.
  - unfold inbox in *. now rewrite S2.
Qed.

Lemma frame_keeps_trans c n1 n2 n3 : frame c n1 n2 -> keeps c n2 n3 -> keeps c n1 n3.
Proof.
  intros [G1 C1 S1] [G2 C2 S2 I2]. split.
  - eapply grows_trans; eauto.
  - intros x. now rewrite C2.
  - now rewrite S2, S1.
  - unfold inbox in *. now rewrite <- S1.
Qed.

Lemma keeps_send c n m : keeps c n (send n c m).
Proof.
  split.
  - apply grows_core; auto. apply send_len.
  - intros x. reflexivity.
  - destruct (Nat.lt_ge_cases c (List.length (n_sess n))) as [H|H].
    + rewrite send_sess_same by assumption. reflexivity.
    + rewrite send_oob by assumption. reflexivity.
  - unfold inbox. destruct (Nat.lt_ge_cases c (List.length (n_sess n))) as [H|H].
    + rewrite send_sess_same by assumption. cbn. rewrite app_length. cbn. lia.
    + rewrite send_oob by assumption. lia.
Qed.

(* ---------------------------------------------------------------------- *)
(* database functions: watch table and counter kept, messages to watchers  *)
(* ---------------------------------------------------------------------- *)

Definition to_watchers (d : db) (msgs : list (nat * str)) : Prop :=
  forall a m, In (a, m) msgs -> exists k, In a (watchers_of d k).

Lemma to_watchers_nil d : to_watchers d [].
Proof. intros a m []. Qed.

Lemma notify_to_watchers d k v ver : to_watchers d (notify_msgs d k v ver).
Proof.
  intros a m H. unfold notify_msgs in H. apply in_flat_map in H. destruct H as [s [Hs Hin]].
  exists k. cbn in Hin. destruct Hin as [E|[E|[]]]; inversion E; subst; auto.
Qed.

Lemma set_value_spec d ch d' r msgs : set_value d ch = (d', r, msgs) ->
  d_watch d' = d_watch d /\ d_conn d' = d_conn d /\ to_watchers d msgs.
Proof.
  unfold set_value. destruct (get_value d (c_key ch)) as [old|].
  - destruct (_ && _); intros [= <- <- <-]; repeat split; auto using to_watchers_nil, notify_to_watchers.
  - intros [= <- <- <-]; repeat split; auto using notify_to_watchers.
Qed.

Lemma remove_value_spec d key d' r msgs : remove_value d key = (d', r, msgs) ->
  d_watch d' = d_watch d /\ d_conn d' = d_conn d /\ to_watchers d msgs.
Proof.
  unfold remove_value. destruct (String.eqb key "$$token").
  - intros [= <- <- <-]; repeat split; auto using to_watchers_nil.
  - intros [= <- <- <-]. repeat split.
    + destruct (get_value d key) as [v|]; auto. destruct (v_st v); reflexivity.
    + destruct (get_value d key) as [v|]; auto. destruct (v_st v); reflexivity.
    + intros a m H. apply in_map_iff in H. destruct H as [s [E Hs]]. inversion E; subst. now exists key.
Qed.

Lemma inc_value_spec d key inc opp d' r msgs : inc_value d key inc opp = (d', r, msgs) ->
  d_watch d' = d_watch d /\ d_conn d' = d_conn d /\ to_watchers d msgs.
Proof.
  unfold inc_value. destruct (parse_i32 _) as [cv|].
  - destruct (_ && _); intros [= <- <- <-]; repeat split; auto using to_watchers_nil, notify_to_watchers.
  - intros [= <- <- <-]; repeat split; auto using to_watchers_nil.
Qed.

Lemma get_db_sends n l x : get_db (sends n l) x = get_db n x.
Proof. apply get_db_core, sends_dbs. Qed.

Lemma frame_put_sends c n dbn d d' msgs :
  nowatch n c -> get_db n dbn = Some d -> d_watch d' = d_watch d -> d_conn d' = d_conn d ->
  to_watchers d msgs -> frame c n (sends (put_db n dbn d') msgs).
Proof.
  intros Hn E Hw Hc Hm. split; [split|..].
  - intros x dx. rewrite get_db_sends, get_db_put.
    destruct (String.eqb_spec x dbn) as [->|Hne].
    + intros [= <-]. now rewrite E.
    + intros ->. reflexivity.
  - intros x. unfold has_db. rewrite get_db_sends, get_db_put.
    destruct (String.eqb_spec x dbn) as [->|Hne]; auto.
  - rewrite sends_len. reflexivity.
  - intros x. unfold conn_of. rewrite get_db_sends, get_db_put.
    destruct (String.eqb_spec x dbn) as [->|Hne]; auto. now rewrite E.
  - rewrite sends_sess_other.
    + reflexivity.
    + intros a m Hin -> . destruct (Hm _ _ Hin) as [k Hk]. now apply (Hn dbn d k).
Qed.

Lemma tick_frame c n : frame c n (fst (tick n)).
Proof. now apply frame_core. Qed.

Lemma replicate_web_frame c n m : frame c n (replicate_web n m).
Proof. now apply frame_core. Qed.

Lemma send_to_primary_frame c n m : frame c n (send_to_primary n m).
Proof. now apply frame_core. Qed.

Lemma replicate_change_frame c n dbn ch : frame c n (replicate_change n dbn ch).
Proof.
  unfold replicate_change. destruct (_ || _); auto using replicate_web_frame, send_to_primary_frame.
Qed.

Lemma frame_nowatch c n n' : nowatch n c -> frame c n n' -> nowatch n' c.
Proof. intros H [G _ _]. eapply nowatch_grows; eauto. Qed.

Lemma keeps_nowatch c n n' : nowatch n c -> keeps c n n' -> nowatch n' c.
Proof. intros H [G _ _]. eapply nowatch_grows; eauto. Qed.

Lemma arbiter_to_watchers d m : to_watchers d (arbiter_msgs d m).
Proof.
  intros a x H. unfold arbiter_msgs in H. apply in_map_iff in H. destruct H as [s [E Hs]].
  inversion E; subst. now exists "$conflicts".
Qed.

Lemma apply_change_frame c n dbn ch n' r :
  nowatch n c -> apply_change n dbn ch = (n', r) -> frame c n n'.
Proof.
  intros Hn. unfold apply_change. destruct (get_db n dbn) as [d|] eqn:E.
  2:{ intros [= <- <-]. apply frame_refl. }
  destruct (set_value d ch) as [[d1 r1] msgs] eqn:ES.
  destruct (set_value_spec _ _ _ _ _ ES) as (W1 & C1 & M1).
  destruct r1; try (intros [= <- <-]; now apply (frame_put_sends c n dbn d)).
  destruct (d_strat d).
  - intros [= <- <-]. apply frame_refl.
  - destruct (N.ltb _ _).
    + unfold tick; cbv beta iota. match goal with |- context [set_value d ?x] => destruct (set_value d x) as [[d2 r2] msgs2] eqn:ES2 end.
      destruct (set_value_spec _ _ _ _ _ ES2) as (W2 & C2 & M2).
      intros [= <- <-]. eapply frame_trans. { apply (tick_frame c n). }
      apply (frame_put_sends c _ dbn d); auto.
    + intros [= <- <-]. apply frame_refl.
  - destruct (negb (has_arbiter d)).
    { intros [= <- <-]. apply frame_refl. }
    set (d2 := put_value d key _).
    set (info := if Z.eqb old_version (-2) then _ else _).
    destruct info as [[ook cver]|].
    2:{ intros [= <- <-]. apply (frame_put_sends c n dbn d d2 []); auto using to_watchers_nil. }
    set (rmsg := "resolve " +++ _).
    set (n1 := sends (put_db n dbn d2) (arbiter_msgs d2 rmsg)).
    unfold tick; cbv beta iota.
    match goal with |- context [set_value d2 ?x] => destruct (set_value d2 x) as [[d3 r3] msgs3] eqn:ES3 end.
    destruct (set_value_spec _ _ _ _ _ ES3) as (W3 & C3 & M3).
    intros [= <- <-].
    assert (F1 : frame c n n1).
    { apply (frame_put_sends c n dbn d); auto.
      intros a m H. exact (arbiter_to_watchers d2 rmsg a m H). }
    assert (E1 : get_db n1 dbn = Some d2).
    { unfold n1. rewrite get_db_sends. apply get_db_put_same. }
    eapply frame_trans; [exact F1|].
    eapply frame_trans; [apply (tick_frame c n1)|].
    eapply frame_trans; [|apply replicate_change_frame].
    apply (frame_put_sends c _ dbn d2); auto.
    eapply frame_nowatch; [|apply tick_frame]. eapply frame_nowatch; eauto.
Qed.

Lemma set_key_value_frame c n dbn k v ver n' r :
  nowatch n c -> set_key_value n dbn k v ver = (n', r) -> frame c n n'.
Proof.
  intros Hn. unfold set_key_value, tick; cbv beta iota. intros H.
  eapply frame_trans; [apply (tick_frame c n)|].
  eapply apply_change_frame; [|exact H].
  eapply frame_nowatch; [exact Hn|apply tick_frame].
Qed.

Lemma set_connection_counter_frame c n dbn : nowatch n c -> frame c n (set_connection_counter n dbn).
Proof.
  intros Hn. unfold set_connection_counter. destruct (get_db n dbn) as [d|]; [|apply frame_refl].
  destruct (set_key_value _ _ _ _ _) as [n' r] eqn:E. cbn [fst].
  eapply set_key_value_frame; eauto.
Qed.

Lemma put_conn_spec c n dbn d z : get_db n dbn = Some d ->
  let n' := put_db n dbn (db_set_conn d z) in
  grows n n' /\ get_sess n' c = get_sess n c /\
  forall x, conn_of n' x = if String.eqb x dbn then z else conn_of n x.
Proof.
  intros E n'. split; [split|split].
  - intros x dx. unfold n'. rewrite get_db_put. destruct (String.eqb_spec x dbn) as [->|Hne].
    + intros [= <-]. now rewrite E.
    + intros ->. reflexivity.
  - intros x. unfold has_db, n'. rewrite get_db_put. destruct (String.eqb x dbn); auto.
  - reflexivity.
  - reflexivity.
  - intros x. unfold conn_of, n'. rewrite get_db_put. destruct (String.eqb x dbn); auto.
Qed.

Lemma client_left_spec c n : nowatch n c ->
  let n' := client_left n c in
  grows n n' /\ get_sess n' c = get_sess n c /\
  forall x, conn_of n' x = conn_of n x - (if has_db n x then sel n c x else 0).
Proof.
  intros Hn n'. unfold n', client_left, sel, has_db.
  destruct (s_db (get_sess n c)) as [dbn|] eqn:Es.
  2:{ split; [apply grows_refl|split; auto]. intros x. destruct (get_db n x); lia. }
  destruct (get_db n dbn) as [d|] eqn:Ed.
  2:{ split; [apply grows_refl|split; auto]. intros x. destruct (get_db n x) eqn:Ex; try lia.
      destruct (String.eqb_spec dbn x) as [->|]; try lia. congruence. }
  destruct (put_conn_spec c n dbn d (d_conn d - 1) Ed) as (G & S & C).
  set (nA := put_db n dbn (db_set_conn d (d_conn d - 1))) in *.
  assert (HnA : nowatch nA c) by (eapply nowatch_grows; eauto).
  destruct (set_connection_counter_frame c nA dbn HnA) as [G2 C2 S2].
  split; [eapply grows_trans; eauto|split; [congruence|]].
  intros x. rewrite C2, C. rewrite String.eqb_sym.
  destruct (String.eqb_spec dbn x) as [<-|Hne].
  - unfold conn_of. rewrite Ed. lia.
  - destruct (get_db n x); lia.
Qed.

(* ---------------------------------------------------------------------- *)
(* guards                                                                  *)
(* ---------------------------------------------------------------------- *)

Lemma guard_db_name_spec n c dbn key req :
  match guard_db_name n c dbn key req with
  | GGo dbn' d => dbn' = dbn /\ get_db n dbn = Some d
  | GStop n' r => (exists m, n' = send n c m) /\ exists e, r = RError e
  end.
Proof.
  unfold guard_db_name, reject_no_db. destruct (get_db n dbn) as [d|].
  - destruct key as [k|]; auto. destruct (has_permission n c k d req); eauto.
  - eauto.
Qed.

Lemma guard_safe_spec n c key req :
  match guard_safe n c key req with
  | GGo dbn d => get_db n dbn = Some d /\ s_db (get_sess n c) = Some dbn
  | GStop n' r => (n' = n \/ exists m, n' = send n c m) /\ exists e, r = RError e
  end.
Proof.
  unfold guard_safe, reject_no_db. destruct (_ && _); [eauto|].
  destruct (s_db (get_sess n c)) as [dbn|]; [|eauto].
  pose proof (guard_db_name_spec n c dbn (Some key) req) as H.
  destruct (guard_db_name n c dbn (Some key) req).
  - destruct H as [-> H]. auto.
  - destruct H as [H1 H2]. auto.
Qed.

Lemma guard_db_spec n c :
  match guard_db n c with
  | GGo dbn d => get_db n dbn = Some d /\ s_db (get_sess n c) = Some dbn
  | GStop n' r => (n' = n \/ exists m, n' = send n c m) /\ exists e, r = RError e
  end.
Proof.
  unfold guard_db, reject_no_db.
  destruct (s_db (get_sess n c)) as [dbn|]; [|eauto].
  pose proof (guard_db_name_spec n c dbn None PRead) as H.
  destruct (guard_db_name n c dbn None PRead).
  - destruct H as [-> H]. auto.
  - destruct H as [H1 H2]. auto.
Qed.

Lemma keeps_stop c n n' : (n' = n \/ exists m, n' = send n c m) -> keeps c n n'.
Proof.
  intros [->|[m ->]].
  - apply frame_keeps, frame_refl.
  - apply keeps_send.
Qed.

(* ---------------------------------------------------------------------- *)
(* handlers of the HTTP request set                                        *)
(* ---------------------------------------------------------------------- *)

Definition in_http_set (rq : request) : bool :=
  match rq with
  | RqAuth _ _ | RqUseDb _ _ _ | RqGet _ | RqGetSafe _ | RqSet _ _ _ | RqRemove _
  | RqIncrement _ _ | RqKeys _ | RqCreateDb _ _ _ => true
  | _ => false
  end.

Definition is_use_db (rq : request) : bool :=
  match rq with RqUseDb _ _ _ => true | _ => false end.

Lemma add_database_frame c n name d n' r :
  nowatch n c -> d_watch d = [] -> d_conn d = 0 ->
  add_database n name d = (n', r) -> frame c n n'.
Proof.
  intros Hn Hw Hc. unfold add_database. destruct (get_db n name) as [d0|] eqn:E.
  { intros [= <- <-]. apply frame_refl. }
  set (n1 := n_set_idmap n _). set (n2 := put_db n1 name d).
  assert (F2 : frame c n n2).
  { split; [split|..].
    - intros x dx. unfold n2. rewrite get_db_put. destruct (String.eqb_spec x name) as [->|Hne].
      + intros [= <-]. change (get_db n1 name) with (get_db n name). now rewrite E.
      + change (get_db n1 x) with (get_db n x). intros ->. reflexivity.
    - intros x. unfold has_db, n2. rewrite get_db_put. destruct (String.eqb x name); auto.
    - reflexivity.
    - intros x. unfold conn_of, n2. rewrite get_db_put. destruct (String.eqb_spec x name) as [->|Hne]; auto.
      now rewrite E.
    - reflexivity. }
  unfold tick; cbv beta iota.
  set (n3 := n_set_clock n2 _).
  assert (F3 : frame c n n3).
  { eapply frame_trans; [exact F2|apply (tick_frame c n2)]. }
  destruct (get_db n3 "$admin") as [adm|] eqn:Ea.
  2:{ intros [= <- <-]. exact F3. }
  destruct (set_value adm _) as [[adm' r'] msgs] eqn:ES.
  destruct (set_value_spec _ _ _ _ _ ES) as (W1 & C1 & M1).
  intros [= <- <-]. eapply frame_trans; [exact F3|].
  apply (frame_put_sends c n3 "$admin" adm); auto.
  eapply frame_nowatch; eauto.
Qed.

Lemma handle_keeps c n rq n' r :
  nowatch n c -> in_http_set rq = true -> is_use_db rq = false ->
  handle n c rq = (n', r) -> keeps c n n'.
Proof.
  intros Hn Hs Hu. destruct rq; try discriminate; cbn [handle].
  - (* get *)
    pose proof (guard_safe_spec n c key PRead) as G. destruct (guard_safe n c key PRead) as [dbn d|ns rs].
    + destruct (get_key_value_new d key). intros [= <- <-]. apply keeps_send.
    + intros [= <- <-]. now apply keeps_stop.
  - (* get-safe *)
    pose proof (guard_safe_spec n c key PRead) as G. destruct (guard_safe n c key PRead) as [dbn d|ns rs].
    + destruct (get_key_value_new d key). intros [= <- <-]. apply keeps_send.
    + intros [= <- <-]. now apply keeps_stop.
  - (* remove *)
    pose proof (guard_safe_spec n c key PRemove) as G. destruct (guard_safe n c key PRemove) as [dbn d|ns rs].
    + destruct G as [Ed _]. destruct (remove_value d key) as [[d' r'] msgs] eqn:ER.
      destruct (remove_value_spec _ _ _ _ _ ER) as (W1 & C1 & M1).
      intros [= <- <-]. apply frame_keeps.
      pose proof (frame_put_sends c n dbn d d' msgs Hn Ed W1 C1 M1) as F.
      destruct r'; auto. destruct (is_primary _); auto.
      eapply frame_trans; [exact F|apply send_to_primary_frame].
    + intros [= <- <-]. now apply keeps_stop.
  - (* set *)
    pose proof (guard_safe_spec n c key PWrite) as G. destruct (guard_safe n c key PWrite) as [dbn d|ns rs].
    + destruct (set_key_value n dbn key value version) as [n1 r1] eqn:ES.
      intros [= <- <-]. apply frame_keeps.
      pose proof (set_key_value_frame c _ _ _ _ _ _ _ Hn ES) as F.
      destruct (is_primary n1); auto. eapply frame_trans; [exact F|apply send_to_primary_frame].
    + intros [= <- <-]. now apply keeps_stop.
  - (* increment *)
    pose proof (guard_safe_spec n c key PIncrement) as G. destruct (guard_safe n c key PIncrement) as [dbn d|ns rs].
    + destruct G as [Ed _]. destruct (is_primary n).
      * unfold tick; cbv beta iota.
        destruct (inc_value d key inc (n_clock n)) as [[d' r'] msgs] eqn:EI.
        destruct (inc_value_spec _ _ _ _ _ _ _ EI) as (W1 & C1 & M1).
        intros [= <- <-]. apply frame_keeps.
        eapply frame_trans; [apply (tick_frame c n)|].
        apply (frame_put_sends c _ dbn d); auto.
      * intros [= <- <-]. apply frame_keeps, send_to_primary_frame.
    + intros [= <- <-]. now apply keeps_stop.
  - (* auth *)
    intros [= <- <-].
    match goal with |- context [put_sess n c ?s] => set (s' := s) end.
    set (msg := if s_auth s' then _ else _).
    assert (Hs' : s_db s' = s_db (get_sess n c) /\ s_inbox s' = s_inbox (get_sess n c)).
    { unfold s'. destruct (_ && _); auto. }
    destruct (Nat.lt_ge_cases c (List.length (n_sess n))) as [H|H].
    + pose proof (keeps_send c (put_sess n c s') msg) as [G C S I].
      pose proof (get_sess_put_same n c s' H) as Hg.
      split.
      * eapply grows_trans; [|exact G]. apply grows_core; auto. apply put_sess_len.
      * intros x. rewrite C. reflexivity.
      * rewrite S, Hg. tauto.
      * unfold inbox in *. rewrite Hg in I. destruct Hs' as [_ <-]. exact I.
    + replace (put_sess n c s') with n.
      * apply keeps_send.
      * unfold put_sess. rewrite list_update_oob by assumption. now destruct n.
  - (* create-db *)
    destruct (negb (s_auth (get_sess n c))). { intros [= <- <-]. apply frame_keeps, frame_refl. }
    destruct (_ || _). 2:{ intros [= <- <-]. apply frame_keeps, frame_refl. }
    unfold tick; cbv beta iota.
    destruct (set_value (empty_db _ _) _) as [[d0 r0] m0] eqn:ES.
    destruct (set_value_spec _ _ _ _ _ ES) as (W1 & C1 & _). cbn in W1, C1.
    destruct (add_database _ name d0) as [n2 r2] eqn:EA.
    assert (F : frame c n n2).
    { eapply frame_trans; [apply (tick_frame c n)|].
      eapply add_database_frame; [| | |exact EA]; auto. }
    destruct r2; intros [= <- <-]; try (apply frame_keeps; exact F).
    eapply frame_keeps_trans; [exact F|apply keeps_send].
  - (* keys *)
    pose proof (guard_db_spec n c) as G. destruct (guard_db n c) as [dbn d|ns rs].
    + intros [= <- <-]. apply keeps_send.
    + intros [= <- <-]. now apply keeps_stop.
Qed.

Definition sel_ok (n : node) (c : nat) : Prop :=
  forall x, s_db (get_sess n c) = Some x -> has_db n x = true.

(* effect of one handler of the set on what session [c] sees and on the counters *)
Record hstep (c : nat) (n n' : node) : Prop := {
  h_grows : grows n n';
  h_inb : (List.length (inbox n' c) <= List.length (inbox n c) + 1)%nat;
  h_bal : (c < List.length (n_sess n))%nat -> sel_ok n c ->
          (forall x, conn_of n' x - sel n' c x = conn_of n x - sel n c x) /\ sel_ok n' c }.

Lemma keeps_hstep c n n' : keeps c n n' -> hstep c n n'.
Proof.
  intros [G C S I]. split; auto. intros Hc Hok. split.
  - intros x. unfold sel. now rewrite C, S.
  - intros x Hx. rewrite S in Hx. apply (g_has _ _ G). now apply Hok.
Qed.

Lemma hstep_frame_trans c n1 n2 n3 : hstep c n1 n2 -> frame c n2 n3 -> hstep c n1 n3.
Proof.
  intros [G1 I1 B1] [G2 C2 S2]. split.
  - eapply grows_trans; eauto.
  - unfold inbox in *. now rewrite S2.
  - intros Hc Hok. destruct (B1 Hc Hok) as [Hb Hok2]. split.
    + intros x. unfold sel. rewrite C2, S2. apply Hb.
    + intros x Hx. rewrite S2 in Hx. apply (g_has _ _ G2). now apply Hok2.
Qed.

Lemma handle_use_db_hstep c n token name user n' r :
  nowatch n c -> handle n c (RqUseDb token name user) = (n', r) -> hstep c n n'.
Proof.
  intros Hn. cbn [handle]. unfold release_previous.
  destruct (get_db n name) as [d|] eqn:Ed.
  2:{ intros [= <- <-]. apply keeps_hstep, frame_keeps, frame_refl. }
  match goal with |- context [if ?b then _ else _] => destruct b end.
  2:{ intros [= <- <-]. apply keeps_hstep, frame_keeps, frame_refl. }
  destruct (client_left_spec c n Hn) as (G0 & S0 & C0).
  set (n0 := client_left n c) in *.
  match goal with |- context [put_sess n0 c ?s] => set (s1 := s) end.
  set (n1 := put_sess n0 c s1).
  assert (G1 : grows n0 n1) by (apply grows_core; auto; apply put_sess_len).
  assert (Hh : has_db n0 name = true) by (apply (g_has _ _ G0); unfold has_db; now rewrite Ed).
  change (get_db n1 name) with (get_db n0 name).
  unfold has_db in Hh. destruct (get_db n0 name) as [d1|] eqn:Ed1; try discriminate.
  assert (Ed1' : get_db n1 name = Some d1) by exact Ed1.
  destruct (put_conn_spec c n1 name d1 (d_conn d1 + 1) Ed1') as (GA & SA & CA).
  set (nA := put_db n1 name _) in *.
  intros [= <- <-].
  assert (HnA : nowatch nA c).
  { eapply nowatch_grows; [|exact GA]. eapply nowatch_grows; [|exact G1]. eapply nowatch_grows; eauto. }
  destruct (set_connection_counter_frame c nA name HnA) as [GB CB SB].
  assert (Gall : grows n (set_connection_counter nA name)).
  { eapply grows_trans; [exact G0|]. eapply grows_trans; [exact G1|]. eapply grows_trans; eauto. }
  assert (Hs1 : s_inbox s1 = inbox n c /\ s_db s1 = Some name).
  { unfold s1, inbox. rewrite S0. split; reflexivity. }
  split; auto.
  - unfold inbox at 1. rewrite SB, SA.
    destruct (Nat.lt_ge_cases c (List.length (n_sess n0))) as [H|H].
    + unfold n1. rewrite get_sess_put_same by assumption. destruct Hs1 as [-> _]. lia.
    + unfold n1, put_sess. rewrite list_update_oob by assumption.
      replace (n_set_sess n0 (n_sess n0)) with n0 by (now destruct n0). rewrite S0. unfold inbox. lia.
  - intros Hc Hok.
    assert (Hc0 : (c < List.length (n_sess n0))%nat) by (now rewrite (g_len _ _ G0)).
    assert (Hgs : get_sess (set_connection_counter nA name) c = s1).
    { rewrite SB, SA. unfold n1. now apply get_sess_put_same. }
    split.
    + intros x. unfold sel at 1. rewrite Hgs. destruct Hs1 as [_ ->].
      rewrite CB, CA. rewrite (String.eqb_sym x name).
      assert (Hx : conn_of n0 x = conn_of n x - sel n c x).
      { rewrite C0. destruct (has_db n x) eqn:Hd; auto.
        unfold sel. destruct (s_db (get_sess n c)) as [y|] eqn:Ey; auto.
        destruct (String.eqb_spec y x) as [->|]; auto.
        rewrite (Hok x Ey) in Hd. discriminate. }
      destruct (String.eqb_spec name x) as [<-|Hne].
      * unfold conn_of in Hx at 1. rewrite Ed1 in Hx. lia.
      * change (conn_of n1 x) with (conn_of n0 x). lia.
    + intros x. rewrite Hgs. destruct Hs1 as [_ ->]. intros [= <-].
      apply (g_has _ _ Gall). unfold has_db. now rewrite Ed.
Qed.

Lemma handle_hstep c n rq n' r :
  nowatch n c -> in_http_set rq = true -> handle n c rq = (n', r) -> hstep c n n'.
Proof.
  intros Hn Hs H. destruct (is_use_db rq) eqn:Hu.
  - destruct rq; try discriminate. eapply handle_use_db_hstep; eauto.
  - apply keeps_hstep. eapply handle_keeps; eauto.
Qed.

Lemma replicate_request_frame c n rq seldb r n' r' :
  replicate_request n rq seldb r = (n', r') -> frame c n n'.
Proof.
  unfold replicate_request.
  destruct r; try (intros [= <- <-]; apply frame_refl);
  (destruct (match seldb with Some nm => negb (has_db n nm) | None => false end);
   [intros [= <- <-]; apply frame_refl|]);
  destruct rq; intros [= <- <-]; auto using frame_refl, replicate_web_frame.
Qed.

Lemma step_eq n c line rq :
  parse_request (trim_char nl line) = POk rq ->
  (forall i o, rq <> RqReplicateRequest i o) ->
  step n c line = let '(n1, r) := handle n c rq in replicate_request n1 rq (s_db (get_sess n c)) r.
Proof.
  intros Hp Hr. unfold step. cbn [process]. rewrite Hp.
  destruct rq; try reflexivity. exfalso. eapply Hr; eauto.
Qed.

Lemma in_http_set_not_rp rq : in_http_set rq = true -> forall i o, rq <> RqReplicateRequest i o.
Proof. intros H i o ->. discriminate. Qed.

Lemma step_hstep c n line rq n' r :
  nowatch n c -> in_http_set rq = true -> parse_request (trim_char nl line) = POk rq ->
  step n c line = (n', r) -> hstep c n n'.
Proof.
  intros Hn Hs Hp. rewrite (step_eq _ _ _ _ Hp (in_http_set_not_rp _ Hs)).
  destruct (handle n c rq) as [n1 r1] eqn:Hh. intros Hr.
  eapply hstep_frame_trans.
  - eapply handle_hstep; eauto.
  - eapply replicate_request_frame; eauto.
Qed.

(* ---------------------------------------------------------------------- *)
(* Part 1.1  one_message                                                   *)
(* ---------------------------------------------------------------------- *)

Theorem one_message n c line rq :
  quiet n c -> in_http_set rq = true -> parse_request (trim_char nl line) = POk rq ->
  let '(n', r) := step n c line in
  (List.length (s_inbox (get_sess n' c)) <= 1)%nat /\
  (forall dbn d k, get_db n' dbn = Some d -> ~ In c (watchers_of d k)).
Proof.
  intros [Hi Hn] Hs Hp. destruct (step n c line) as [n' r] eqn:E.
  destruct (step_hstep c n line rq n' r Hn Hs Hp E) as [G I _]. split.
  - unfold inbox in I. rewrite Hi in I. exact I.
  - exact (nowatch_grows _ _ _ Hn G).
Qed.

(* ---------------------------------------------------------------------- *)
(* Part 1.2  http_aligned                                                  *)
(* ---------------------------------------------------------------------- *)

(* a statement of the HTTP set, or one the parser refuses *)
Definition stmt_ok (cl : str) : Prop :=
  match parse_request (trim_char nl cl) with
  | POk rq => in_http_set rq = true
  | PErr _ => True
  | PPanic => True
  end.

Lemma step_ok_hstep c n line n' r :
  nowatch n c -> stmt_ok line -> step n c line = (n', r) -> hstep c n n'.
Proof.
  intros Hn Hok. unfold stmt_ok in Hok.
  destruct (parse_request (trim_char nl line)) as [rq|e|] eqn:Hp.
  - eapply step_hstep; eauto.
  - unfold step. cbn [process]. rewrite Hp. intros [= <- <-]. apply keeps_hstep, frame_keeps, frame_refl.
  - unfold step. cbn [process]. rewrite Hp. intros [= <- <-]. apply keeps_hstep, frame_keeps, frame_refl.
Qed.

(* a refused statement yields its message and changes nothing *)
Lemma step_parse_error n c line e :
  parse_request (trim_char nl line) = PErr e -> step n c line = (n, RError e).
Proof. intros Hp. unfold step. cbn [process]. now rewrite Hp. Qed.

Definition entry_of (n1 : node) (c : nat) (r : resp) : str :=
  match r with
  | RError m => m
  | RVersionError _ _ _ _ _ _ => "Invalid version!"
  | _ => match s_inbox (get_sess n1 c) with m :: _ => m | [] => "empty" end
  end.

(* reference: every statement runs from a state in which the inbox of [c] is empty and
   contributes the entry computed from its own result *)
Fixpoint http_ref (n : node) (c : nat) (cmds : list str) : node * option (list str) :=
  match cmds with
  | [] => (n, Some [])
  | cmd :: rest =>
      let clean := trim cmd in
      if String.eqb clean "" then http_ref n c rest
      else
        let '(n1, r) := step (fst (drain n c)) c clean in
        match r with
        | RPanic => (n1, None)
        | _ => match http_ref n1 c rest with
               | (n2, Some es) => (n2, Some (entry_of n1 c r :: es))
               | (n2, None) => (n2, None)
               end
        end
  end.

Definition nonblank (cmds : list str) : nat :=
  List.length (filter (fun cmd => negb (String.eqb (trim cmd) "")) cmds).

Lemma drain_inbox n c : inbox (fst (drain n c)) c = [].
Proof.
  unfold drain, inbox. cbn [fst].
  destruct (Nat.lt_ge_cases c (List.length (n_sess n))) as [H|H].
  - now rewrite get_sess_put_same.
  - rewrite get_sess_oob; auto. now rewrite put_sess_len.
Qed.

Lemma drain_frame_db n c x : get_db (fst (drain n c)) x = get_db n x.
Proof. reflexivity. Qed.

Lemma drain_nowatch n c : nowatch n c -> nowatch (fst (drain n c)) c.
Proof. intros H dbn d k. rewrite drain_frame_db. apply H. Qed.

Lemma put_sess_get_id n c : put_sess n c (get_sess n c) = n.
Proof. unfold put_sess, get_sess. rewrite list_update_nth_id. now destruct n. Qed.

Lemma drain_id n c : inbox n c = [] -> fst (drain n c) = n.
Proof.
  unfold drain, inbox. cbn [fst]. intros H.
  replace (mkSess _ _ _ _ []) with (get_sess n c).
  - apply put_sess_get_id.
  - destruct (get_sess n c). cbn in *. now subst.
Qed.

Lemma http_aligned_gen c cmds : forall n acc,
  nowatch n c -> Forall (fun cmd => stmt_ok (trim cmd)) cmds ->
  match http_ref n c cmds with
  | (n2, Some es) =>
      http_commands (fst (drain n c)) c cmds acc = (fst (drain n2 c), Some (acc ++ es)) /\
      List.length es = nonblank cmds
  | (n2, None) => http_commands (fst (drain n c)) c cmds acc = (n2, None)
  end.
Proof.
  induction cmds as [|cmd rest IH]; intros n acc Hn Hall.
  - cbn. rewrite app_nil_r. auto.
  - inversion Hall as [|? ? Hok Hrest]; subst.
    cbn [http_ref http_commands]. unfold nonblank. cbn [filter].
    destruct (String.eqb (trim cmd) "") eqn:Eb; cbn [negb].
    { apply IH; auto. }
    destruct (step (fst (drain n c)) c (trim cmd)) as [n1 r] eqn:Es.
    destruct (step_ok_hstep c _ _ _ _ (drain_nowatch _ _ Hn) Hok Es) as [G I _].
    rewrite drain_inbox in I. cbn in I.
    assert (Hn1 : nowatch n1 c) by (eapply nowatch_grows; [apply drain_nowatch; exact Hn|exact G]).
    assert (Hcont : forall e,
      match (let (n2, o) := http_ref n1 c rest in
             match o with Some es => (n2, Some (e :: es)) | None => (n2, None) end) with
      | (n2, Some es) =>
          http_commands (fst (drain n1 c)) c rest (acc ++ [e]) = (fst (drain n2 c), Some (acc ++ es)) /\
          List.length es = S (nonblank rest)
      | (n2, None) => http_commands (fst (drain n1 c)) c rest (acc ++ [e]) = (n2, None)
      end).
    { intros e. specialize (IH n1 (acc ++ [e]) Hn1 Hrest).
      destruct (http_ref n1 c rest) as [n2 [es|]]; auto.
      destruct IH as [IH1 IH2]. rewrite <- app_assoc in IH1. cbn in *. auto. }
    destruct r; try exact (Hcont _); try reflexivity.
    all: unfold entry_of; fold (inbox n1 c) in *;
      destruct (inbox n1 c) as [|m more] eqn:Ei;
      [pose proof (Hcont "empty") as HC; rewrite (drain_id n1 c Ei) in HC; exact HC
      |destruct more; [|cbn in I; lia]; apply Hcont].
Qed.

Theorem http_aligned n c cmds acc :
  quiet n c -> Forall (fun cmd => stmt_ok (trim cmd)) cmds ->
  match http_ref n c cmds with
  | (n2, Some es) =>
      http_commands n c cmds acc = (fst (drain n2 c), Some (acc ++ es)) /\
      List.length es = nonblank cmds
  | (n2, None) => http_commands n c cmds acc = (n2, None)
  end.
Proof.
  intros [Hi Hn] Hall. pose proof (http_aligned_gen c cmds n acc Hn Hall) as H.
  rewrite (drain_id n c Hi) in H. exact H.
Qed.

Corollary http_length n c cmds acc n' out :
  quiet n c -> Forall (fun cmd => stmt_ok (trim cmd)) cmds ->
  http_commands n c cmds acc = (n', Some out) ->
  List.length out = (List.length acc + nonblank cmds)%nat.
Proof.
  intros Hq Hall H. pose proof (http_aligned n c cmds acc Hq Hall) as A.
  destruct (http_ref n c cmds) as [n2 [es|]].
  - destruct A as [A1 A2]. rewrite A1 in H. injection H as _ <-. rewrite app_length. lia.
  - rewrite A in H. discriminate.
Qed.

(* ---------------------------------------------------------------------- *)
(* Part 1.3  http_released                                                 *)
(* ---------------------------------------------------------------------- *)

(* accumulated effect of several statements (inbox forgotten) *)
Record hrel (c : nat) (n n' : node) : Prop := {
  r_grows : grows n n';
  r_bal : (c < List.length (n_sess n))%nat -> sel_ok n c ->
          (forall x, conn_of n' x - sel n' c x = conn_of n x - sel n c x) /\ sel_ok n' c }.

Lemma hrel_refl c n : hrel c n n.
Proof. split; auto using grows_refl. Qed.

Lemma hrel_trans c n1 n2 n3 : hrel c n1 n2 -> hrel c n2 n3 -> hrel c n1 n3.
Proof.
  intros [G1 B1] [G2 B2]. split.
  - eapply grows_trans; eauto.
  - intros Hc Hok. destruct (B1 Hc Hok) as [E1 O1].
    assert (Hc2 : (c < List.length (n_sess n2))%nat) by (now rewrite (g_len _ _ G1)).
    destruct (B2 Hc2 O1) as [E2 O2]. split; auto. intros x. now rewrite E2.
Qed.

Lemma hstep_hrel c n n' : hstep c n n' -> hrel c n n'.
Proof. intros [G _ B]. split; auto. Qed.

Lemma put_sess_hrel c n s : s_db s = s_db (get_sess n c) -> hrel c n (put_sess n c s).
Proof.
  intros Hs. split.
  - apply grows_core; auto. apply put_sess_len.
  - intros Hc Hok. assert (E : s_db (get_sess (put_sess n c s) c) = s_db (get_sess n c)).
    { now rewrite get_sess_put_same. }
    split.
    + intros x. unfold sel. rewrite E. reflexivity.
    + intros x. rewrite E. intros Hx. apply (Hok x Hx).
Qed.

Lemma drain_hrel c n : hrel c n (fst (drain n c)).
Proof. unfold drain. cbn [fst]. now apply put_sess_hrel. Qed.

Lemma http_commands_hrel c cmds : forall n acc n' out,
  nowatch n c -> Forall (fun cmd => stmt_ok (trim cmd)) cmds ->
  http_commands n c cmds acc = (n', out) -> hrel c n n'.
Proof.
  induction cmds as [|cmd rest IH]; intros n acc n' out Hn Hall.
  - cbn. intros [= <- <-]. apply hrel_refl.
  - inversion Hall as [|? ? Hok Hrest]; subst. cbn [http_commands].
    destruct (String.eqb (trim cmd) ""). { apply IH; auto. }
    destruct (step n c (trim cmd)) as [n1 r] eqn:Es.
    pose proof (step_ok_hstep c _ _ _ _ Hn Hok Es) as HS.
    assert (Hn1 : nowatch n1 c) by (eapply nowatch_grows; [exact Hn|apply HS]).
    assert (Hd : forall acc', http_commands (fst (drain n1 c)) c rest acc' = (n', out) -> hrel c n n').
    { intros acc' H. eapply hrel_trans; [apply hstep_hrel; exact HS|].
      eapply hrel_trans; [apply drain_hrel|]. eapply IH; [| |exact H]; auto using drain_nowatch. }
    assert (Hp : forall acc' more, http_commands (put_sess n1 c (mkSess (s_auth (get_sess n1 c)) (s_db (get_sess n1 c))
                     (s_user (get_sess n1 c)) (s_member (get_sess n1 c)) more)) c rest acc' = (n', out) -> hrel c n n').
    { intros acc' more H. eapply hrel_trans; [apply hstep_hrel; exact HS|].
      match type of H with http_commands (put_sess _ _ ?sp) _ _ _ = _ =>
        assert (Hp1 : hrel c n1 (put_sess n1 c sp)) by (apply put_sess_hrel; reflexivity) end.
      eapply hrel_trans; [exact Hp1|].
      eapply IH; [| |exact H]; auto. }
    assert (H0 : forall acc', http_commands n1 c rest acc' = (n', out) -> hrel c n n').
    { intros acc' H. eapply hrel_trans; [apply hstep_hrel; exact HS|]. eapply IH; eauto. }
    destruct r; eauto; try (intros [= <- <-]; apply hstep_hrel; exact HS);
      destruct (s_inbox (get_sess n1 c)); eauto.
Qed.

(* unwatch-all really removes the session from every watch list of the database *)
Lemma watchers_unwatch_key d k0 c k :
  watchers_of (unwatch_key d k0 c) k =
  if String.eqb k k0 then filter (fun x => negb (Nat.eqb x c)) (watchers_of d k0) else watchers_of d k.
Proof.
  unfold unwatch_key, watchers_of at 1. cbn [d_watch db_set_watch].
  destruct (String.eqb_spec k k0) as [->|Hne].
  - now rewrite (get_set_same _ String.eqb_spec).
  - now rewrite (get_set_other _ String.eqb_spec) by assumption.
Qed.

Lemma unwatch_key_subset d k0 c k x :
  In x (watchers_of (unwatch_key d k0 c) k) -> In x (watchers_of d k).
Proof.
  rewrite watchers_unwatch_key. destruct (String.eqb_spec k k0) as [->|]; auto.
  intros H. apply filter_In in H. tauto.
Qed.

Lemma unwatch_fold_subset c L : forall d k x,
  In x (watchers_of (fold_left (fun d k => unwatch_key d k c) L d) k) -> In x (watchers_of d k).
Proof.
  induction L as [|k0 L IH]; intros d k x; cbn; auto.
  intros H. apply IH in H. eapply unwatch_key_subset; eauto.
Qed.

Lemma unwatch_fold_clears c k L : forall d,
  In k L \/ ~ In c (watchers_of d k) ->
  ~ In c (watchers_of (fold_left (fun d k => unwatch_key d k c) L d) k).
Proof.
  induction L as [|k0 L IH]; intros d H; cbn.
  - destruct H as [[]|H]; auto.
  - apply IH. destruct (String.eqb_spec k k0) as [->|Hne].
    + right. rewrite watchers_unwatch_key, String.eqb_refl. intros Hin. apply filter_In in Hin.
      destruct Hin as [_ Hin]. now rewrite Nat.eqb_refl in Hin.
    + destruct H as [[E|H]|H]; auto; try congruence.
      right. intros Hin. apply H. eapply unwatch_key_subset; eauto.
Qed.

Lemma unwatch_all_clears d c k : ~ In c (watchers_of (unwatch_all d c) k).
Proof.
  unfold unwatch_all. apply unwatch_fold_clears.
  destruct (assoc_get String.eqb k (d_watch d)) as [l|] eqn:E.
  - left. apply (get_in _ String.eqb_spec) in E. apply in_map_iff. now exists (k, l).
  - right. unfold watchers_of. now rewrite E.
Qed.

Lemma unwatch_all_subset d c k x : In x (watchers_of (unwatch_all d c) k) -> In x (watchers_of d k).
Proof. apply unwatch_fold_subset. Qed.

Lemma unwatch_all_conn d c : d_conn (unwatch_all d c) = d_conn d.
Proof.
  unfold unwatch_all. generalize (map fst (d_watch d)) as L. intros L. revert d.
  induction L as [|k L IH]; intros d; cbn; auto. now rewrite IH.
Qed.

Lemma parse_unwatch_all : parse_request (trim_char nl "unwatch-all") = POk RqUnWatchAll.
Proof. vm_compute. reflexivity. Qed.

Lemma step_unwatch_all n c : fst (step n c "unwatch-all") = fst (handle n c RqUnWatchAll).
Proof.
  rewrite (step_eq n c _ _ parse_unwatch_all) by discriminate.
  destruct (handle n c RqUnWatchAll) as [n1 r1]. unfold replicate_request.
  destruct r1; try reflexivity;
  match goal with |- context [if ?b then _ else _] => destruct b end; reflexivity.
Qed.

Lemma unwatch_all_step_spec n c : nowatch n c ->
  let nU := fst (step n c "unwatch-all") in
  nowatch nU c /\ (forall x, conn_of nU x = conn_of n x) /\
  s_db (get_sess nU c) = s_db (get_sess n c) /\ (forall x, has_db nU x = has_db n x).
Proof.
  intros Hn nU. unfold nU. rewrite step_unwatch_all. cbn [handle].
  pose proof (guard_db_spec n c) as G. destruct (guard_db n c) as [dbn d|ns rs]; cbn [fst].
  - destruct G as [Ed _]. repeat split.
    + intros x dx k. rewrite get_db_put. destruct (String.eqb_spec x dbn) as [->|Hne].
      * intros [= <-] Hin. apply unwatch_all_subset in Hin. now apply (Hn dbn d k).
      * apply Hn.
    + intros x. unfold conn_of. rewrite get_db_put. destruct (String.eqb_spec x dbn) as [->|Hne]; auto.
      rewrite Ed. apply unwatch_all_conn.
    + intros x. unfold has_db. rewrite get_db_put. destruct (String.eqb_spec x dbn) as [->|Hne]; auto.
      now rewrite Ed.
  - destruct G as [G _]. pose proof (keeps_stop c n ns G) as [KG KC KS KI]. repeat split; auto.
    + eapply nowatch_grows; eauto.
    + intros x. destruct G as [->|[m ->]]; reflexivity.
Qed.

Theorem http_released n body :
  let c := List.length (n_sess n) in
  (forall dbn d k, get_db n dbn = Some d -> ~ In c (watchers_of d k)) ->
  Forall (fun cmd => stmt_ok (trim cmd)) (split_char ";" body) ->
  let n' := fst (http_request n body) in
  (forall dbn d k, get_db n' dbn = Some d -> ~ In c (watchers_of d k)) /\
  (forall x d, get_db n x = Some d -> exists d', get_db n' x = Some d' /\ d_conn d' = d_conn d) /\
  (forall x, conn_of n' x = conn_of n x).
Proof.
  intros c Hn Hall n'. unfold n', http_request, connect.
  set (n0 := n_set_sess n (n_sess n ++ [empty_sess])).
  fold c.
  destruct (http_commands n0 c (split_char ";" body) []) as [n1 out] eqn:EH. cbn [fst].
  assert (Hn0 : nowatch n0 c) by exact Hn.
  assert (Hs0 : get_sess n0 c = empty_sess).
  { unfold get_sess, n0, c. cbn. rewrite app_nth2 by lia. now rewrite Nat.sub_diag. }
  assert (Hc0 : (c < List.length (n_sess n0))%nat).
  { unfold n0, c. cbn. rewrite app_length. cbn. lia. }
  assert (Hok0 : sel_ok n0 c).
  { intros x. rewrite Hs0. discriminate. }
  destruct (http_commands_hrel c _ _ _ _ _ Hn0 Hall EH) as [G1 B1].
  destruct (B1 Hc0 Hok0) as [E1 O1].
  assert (Hn1 : nowatch n1 c) by (eapply nowatch_grows; eauto).
  unfold disconnect.
  destruct (unwatch_all_step_spec n1 c Hn1) as (HnU & CU & SU & HU).
  set (nU := fst (step n1 c "unwatch-all")) in *.
  destruct (client_left_spec c nU HnU) as (GL & SL & CL).
  assert (Hconn : forall x, conn_of (client_left nU c) x = conn_of n x).
  { intros x. rewrite CL, CU, HU.
    assert (Hx : (if has_db n1 x then sel nU c x else 0) = sel n1 c x).
    { unfold sel. rewrite SU. destruct (has_db n1 x) eqn:Hd; auto.
      destruct (s_db (get_sess n1 c)) as [y|] eqn:Ey; auto.
      destruct (String.eqb_spec y x) as [->|]; auto. rewrite (O1 x Ey) in Hd. discriminate. }
    rewrite Hx, E1. unfold sel. rewrite Hs0. cbn [s_db empty_sess]. change (conn_of n0 x) with (conn_of n x). lia. }
  split; [|split]; auto.
  - exact (nowatch_grows _ _ _ HnU GL).
  - intros x d Ed. specialize (Hconn x).
    assert (Hh : has_db (client_left nU c) x = true).
    { apply (g_has _ _ GL). rewrite HU. apply (g_has _ _ G1). unfold has_db.
      change (get_db n0 x) with (get_db n x). now rewrite Ed. }
    unfold has_db in Hh. unfold conn_of in Hconn. rewrite Ed in Hconn.
    destruct (get_db (client_left nU c) x) as [d'|]; try discriminate. eauto.
Qed.

(* ====================================================================== *)
(* Part 2.  Arbiter databases (C13), single node                           *)
(* ====================================================================== *)

Lemma str_length_app (a b : str) : String.length (a +++ b) = (String.length a + String.length b)%nat.
Proof. induction a as [|x a IH]; cbn; auto. Qed.

Lemma conflict_key_neq ch : conflict_key ch <> c_key ch.
Proof.
  intros H. apply (f_equal String.length) in H. unfold conflict_key in H.
  rewrite !str_length_app in H. cbn in H. lia.
Qed.

Lemma conflict_key_neq_k k opp : "$conflicts_" +++ k +++ "_" +++ N_to_str opp <> k.
Proof. exact (conflict_key_neq (mkCh k "" 0 opp false)). Qed.

Lemma set_value_conflict_inv d ch d0 key ov ver old ch0 st msgs0 :
  set_value d ch = (d0, RVersionError key ov ver old ch0 st, msgs0) ->
  get_value d (c_key ch) = Some old /\ key = c_key ch /\ ov = v_ver old /\ ver = c_ver ch /\
  ch0 = ch /\ st = upd_state old /\ d0 = d /\ msgs0 = [] /\
  (Z.leb (next_version ch old) (v_ver old) && negb (Z.eqb (c_ver ch) (-2))) = true.
Proof.
  unfold set_value. destruct (get_value d (c_key ch)) as [o|]; [|discriminate].
  destruct (_ && _) eqn:E; [|discriminate].
  intros [= <- <- <- <- <- <- <- <-]. repeat split; auto.
Qed.

Lemma set_value_other d ch d' r msgs k :
  set_value d ch = (d', r, msgs) -> k <> c_key ch -> get_value d' k = get_value d k.
Proof.
  unfold set_value. destruct (get_value d (c_key ch)) as [o|].
  - destruct (_ && _); intros [= <- <- <-] Hk; auto. now apply get_value_put_other.
  - intros [= <- <- <-] Hk. now apply get_value_put_other.
Qed.

(* the record key can take a plain (version -1) write *)
Definition rec_writable (d : db) (k : str) : Prop :=
  match get_value d k with
  | None => True
  | Some r => v_ver r <> -2 /\ v_ver r < i32_max
  end.

Lemma set_value_plain_writes d k v opp :
  rec_writable d k ->
  exists d' msgs rec, set_value d (mkCh k v (-1) opp false) = (d', RSet k v, msgs) /\
    get_value d' k = Some rec /\ v_val rec = v.
Proof.
  unfold rec_writable, set_value. cbn [c_key c_ver c_val c_opp c_resolve].
  destruct (get_value d k) as [r|] eqn:E.
  - intros [H1 H2]. unfold next_version, in_conflict, sat_succ. cbn [c_ver c_resolve].
    change (-1 =? -2) with false. change (-1 =? -1) with true. cbn [negb andb].
    destruct (Z.eqb_spec (v_ver r) (-2)) as [|_]; [contradiction|].
    destruct (Z.ltb_spec (v_ver r) i32_max) as [_|]; [|lia].
    destruct (Z.leb_spec (v_ver r + 1) (v_ver r)) as [|_]; [lia|]. cbn [andb].
    do 3 eexists. split; [reflexivity|]. rewrite get_value_put_same. cbn. repeat split; auto.
  - intros _. do 3 eexists. split; [reflexivity|]. rewrite get_value_put_same. cbn. repeat split; auto.
Qed.

Lemma sends_delivers n l a m :
  In (a, m) l -> (a < List.length (n_sess n))%nat -> In m (inbox (sends n l) a).
Proof.
  intros Hin Ha. rewrite sends_inbox by assumption. apply in_or_app. right.
  unfold msgs_for. apply in_map_iff. exists (a, m). split; auto. apply filter_In. split; auto.
  cbn. apply Nat.eqb_refl.
Qed.

Lemma sends_inbox_mono n l a m :
  (a < List.length (n_sess n))%nat -> In m (inbox n a) -> In m (inbox (sends n l) a).
Proof. intros Ha Hin. rewrite sends_inbox by assumption. apply in_or_app. now left. Qed.

(* what the conflict notice quotes: the stored value and its version, or - when the key is
   already in conflict - the LAST pending record key and a version past the queue *)
Definition conflict_info (old : value) (ov ver : Z) (pend : list str) : str * Z :=
  if Z.eqb ov (-2) then
    match pend with
    | [] => (v_val old, ov)
    | _ => (last pend "", ver + Z.of_nat (List.length pend))
    end
  else (v_val old, ov).

Definition mark_conflict (d : db) (key : str) (old : value) : db :=
  put_value d key (mkV (v_val old) (-2) (v_opp old) (upd_state old) (v_vaddr old) (v_kaddr old)).

Definition conflict_notice (dbn : str) (d : db) (ch : change) (old : value) : str :=
  let '(prev, cver) := conflict_info old (v_ver old) (c_ver ch)
                         (list_conflicts_keys (mark_conflict d (c_key ch) old) (c_key ch)) in
  "resolve " +++ N_to_str (c_opp ch) +++ " " +++ dbn +++ " " +++ Z_to_str cver +++ " " +++
  c_key ch +++ " " +++ prev +++ " " +++ c_val ch.

Lemma rev_last_hd {A} (l : list A) (d : A) :
  match rev l with x :: _ => l <> [] /\ last l d = x | [] => l = [] end.
Proof.
  destruct l as [|a l] using rev_ind; cbn; auto.
  rewrite rev_app_distr. cbn. split.
  - now destruct l.
  - apply last_last.
Qed.

Lemma model_info_eq (old : value) (ov ver : Z) (pend : list str) :
  (if Z.eqb ov (-2)
   then match rev pend with
        | lst :: _ => Some (lst, ver + Z.of_nat (List.length pend))
        | [] => Some (v_val old, ov)
        end
   else Some (v_val old, ov)) = Some (conflict_info old ov ver pend).
Proof.
  unfold conflict_info. destruct (Z.eqb ov (-2)); auto.
  pose proof (rev_last_hd pend "") as H. destruct (rev pend) as [|x r].
  - now subst.
  - destruct H as [H1 H2]. destruct pend; [contradiction|]. now rewrite H2.
Qed.

Lemma conflict_notice_starts dbn d ch old : starts_with (conflict_notice dbn d ch old) "resolve " = true.
Proof. unfold conflict_notice. destruct (conflict_info _ _ _ _). reflexivity. Qed.

Theorem arbiter_never_silent n dbn d ch d0 key ov ver old st msgs0 :
  get_db n dbn = Some d -> d_strat d = SArbiter ->
  set_value d ch = (d0, RVersionError key ov ver old ch st, msgs0) ->
  (has_arbiter d = false /\
   apply_change n dbn ch = (n, RError "An conflitct happend and there is no arbiter client not connected"))
  \/
  (has_arbiter d = true /\
   exists n' d', apply_change n dbn ch = (n', RError ("$$conflitct unresolved " +++ conflict_key ch)) /\
     get_db n' dbn = Some d' /\
     (exists kv, get_value d' (c_key ch) = Some kv /\ v_val kv = v_val old /\ v_ver kv = -2) /\
     let rmsg := conflict_notice dbn d ch old in
     starts_with rmsg "resolve " = true /\
     (rec_writable d (conflict_key ch) ->
        exists rec, get_value d' (conflict_key ch) = Some rec /\ v_val rec = rmsg) /\
     (forall a, In a (watchers_of d "$conflicts") -> (a < List.length (n_sess n))%nat ->
        In rmsg (s_inbox (get_sess n' a)))).
Proof.
  intros Ed Hst Hsv.
  destruct (set_value_conflict_inv _ _ _ _ _ _ _ _ _ _ Hsv) as (Eo & -> & -> & -> & _ & -> & -> & -> & _).
  unfold apply_change. rewrite Ed, Hsv, Hst.
  destruct (has_arbiter d) eqn:Ha; cbn [negb]; [right|left; auto].
  split; auto.
  fold (mark_conflict d (c_key ch) old).
  set (d2 := mark_conflict d (c_key ch) old).
  rewrite (model_info_eq old (v_ver old) (c_ver ch) (list_conflicts_keys d2 (c_key ch))).
  pose proof (conflict_notice_starts dbn d ch old) as Hstart.
  unfold conflict_notice in *. fold d2 in Hstart |- *.
  destruct (conflict_info old (v_ver old) (c_ver ch) (list_conflicts_keys d2 (c_key ch))) as [prev cver].
  set (rmsg := "resolve " +++ _) in *.
  set (n1 := sends (put_db n dbn d2) (arbiter_msgs d2 rmsg)).
  unfold tick; cbv beta iota.
  set (ch2 := mkCh (conflict_key ch) rmsg (-1) (n_clock n1) false).
  destruct (set_value d2 ch2) as [[d3 r3] msgs3] eqn:ES3.
  set (n3 := sends (put_db _ dbn d3) msgs3).
  exists (replicate_change n3 dbn ch2), d3.
  assert (Hlen1 : List.length (n_sess n1) = List.length (n_sess n)).
  { unfold n1. now rewrite sends_len. }
  split; [reflexivity|]. split; [|split; [|split; [|split]]].
  - rewrite (get_db_core n3). 2:{ unfold replicate_change, replicate_web, send_to_primary. destruct (_ || _); reflexivity. }
    unfold n3. rewrite get_db_sends. apply get_db_put_same.
  - exists (mkV (v_val old) (-2) (v_opp old) (upd_state old) (v_vaddr old) (v_kaddr old)).
    split; auto. rewrite (set_value_other _ _ _ _ _ _ ES3).
    + unfold d2, mark_conflict. apply get_value_put_same.
    + cbn. intros E. symmetry in E. revert E. apply conflict_key_neq.
  - exact Hstart.
  - intros Hw.
    assert (Hw2 : rec_writable d2 (conflict_key ch)).
    { unfold rec_writable, d2, mark_conflict. rewrite get_value_put_other; auto. apply conflict_key_neq. }
    destruct (set_value_plain_writes d2 (conflict_key ch) rmsg (n_clock n1) Hw2) as (d' & msgs & rec & E1 & E2 & E3).
    fold ch2 in E1. rewrite ES3 in E1. injection E1 as <- _ _. eauto.
  - intros a Hin Halen.
    assert (In rmsg (inbox n1 a)).
    { unfold n1. apply sends_delivers; auto. unfold arbiter_msgs. apply in_map_iff. exists a. auto. }
    change (In rmsg (inbox (replicate_change n3 dbn ch2) a)).
    replace (inbox (replicate_change n3 dbn ch2) a) with (inbox n3 a).
    2:{ unfold inbox. symmetry. f_equal. apply get_sess_core. unfold replicate_change, replicate_web, send_to_primary.
        destruct (_ || _); reflexivity. }
    unfold n3. apply sends_inbox_mono; auto.
    change (a < List.length (n_sess n1))%nat. now rewrite Hlen1.
Qed.

Lemma conflict_info_spec old ov ver pend prev cver :
  conflict_info old ov ver pend = (prev, cver) ->
  (ov <> -2 -> prev = v_val old /\ cver = ov) /\
  (ov = -2 -> pend <> [] -> prev = last pend "" /\ cver = ver + Z.of_nat (List.length pend)) /\
  (ov = -2 -> pend = [] -> prev = v_val old /\ cver = ov).
Proof.
  unfold conflict_info. destruct (Z.eqb_spec ov (-2)) as [->|Hne].
  - destruct pend as [|p pend]; intros [= <- <-]; repeat split; auto; try congruence; try lia.
  - intros [= <- <-]. repeat split; auto; lia.
Qed.

(* the text of the notice, as asked *)
Theorem conflict_notice_text dbn d ch old :
  exists prev cver,
    conflict_notice dbn d ch old =
      "resolve " +++ N_to_str (c_opp ch) +++ " " +++ dbn +++ " " +++ Z_to_str cver +++ " " +++
      c_key ch +++ " " +++ prev +++ " " +++ c_val ch /\
    let pend := list_conflicts_keys (mark_conflict d (c_key ch) old) (c_key ch) in
    (v_ver old <> -2 -> prev = v_val old /\ cver = v_ver old) /\
    (v_ver old = -2 -> pend <> [] ->
       prev = last pend "" /\ cver = c_ver ch + Z.of_nat (List.length pend)) /\
    (v_ver old = -2 -> pend = [] -> prev = v_val old /\ cver = v_ver old).
Proof.
  unfold conflict_notice.
  destruct (conflict_info _ _ _ _) as [prev cver] eqn:E. exists prev, cver. split; auto.
  exact (conflict_info_spec _ _ _ _ _ _ E).
Qed.

(* ---- 5. a write to a key in conflict is never applied ------------------------ *)
Theorem later_writes_queue d k old ch :
  get_value d k = Some old -> v_ver old = -2 -> c_ver ch <> -2 -> c_resolve ch = false ->
  c_key ch = k ->
  set_value d ch = (d, RVersionError k (-2) (c_ver ch) old ch (upd_state old), []).
Proof.
  intros Eo Hv Hc Hr <-. unfold set_value. rewrite Eo.
  unfold next_version, in_conflict. rewrite Hr, Hv.
  destruct (Z.eqb_spec (c_ver ch) (-2)) as [|_]; [contradiction|]. reflexivity.
Qed.

(* ---- 6. resolve ---------------------------------------------------------------- *)
Lemma set_value_resolve d k v ver opp old :
  get_value d k = Some old -> v_ver old = -2 -> -1 <= ver < i32_max ->
  set_value d (mkCh k v ver opp true) =
    (put_value d k (mkV v (ver + 1) opp (upd_state old) (v_vaddr old) (v_kaddr old)),
     RSet k v, notify_msgs d k v (ver + 1)).
Proof.
  intros Eo Hv Hr. unfold set_value. cbn [c_key c_ver c_val c_opp c_resolve]. rewrite Eo.
  unfold next_version, in_conflict, sat_succ. cbn [c_ver c_resolve]. rewrite Hv.
  destruct (Z.eqb_spec ver (-2)) as [|_]; [lia|]. change (-2 =? -2) with true. cbv iota.
  destruct (Z.ltb_spec ver i32_max) as [_|]; [|lia].
  destruct (Z.leb_spec (ver + 1) (-2)) as [|_]; [lia|]. reflexivity.
Qed.

Lemma set_value_resolve_pending d k v opp old :
  get_value d k = Some old ->
  set_value d (mkCh k v (-2) opp true) =
    (put_value d k (mkV v (-2) opp (upd_state old) (v_vaddr old) (v_kaddr old)),
     RSet k v, notify_msgs d k v (-2)).
Proof.
  intros Eo. unfold set_value. cbn [c_key c_ver c_val c_opp c_resolve]. rewrite Eo.
  unfold next_version. cbn [c_ver]. change (-2 =? -2) with true. cbn [negb]. rewrite andb_false_r.
  reflexivity.
Qed.

Definition resolve_reg (n : node) (k v : str) (opp : N) : change :=
  mkCh (conflict_key (mkCh k v 0 opp true)) ("resolved " +++ v) (-1) (n_clock n) false.

Lemma resolve_conflict_unfold n dbn d k v ver opp :
  get_db n dbn = Some d ->
  let ch := mkCh k v ver opp true in
  let reg := resolve_reg n k v opp in
  let d1 := fst (fst (set_value d reg)) in
  let ch' := if has_pending_conflict d1 k then mkCh k v (-2) opp true else ch in
  exists n', resolve_conflict n dbn ch = (n', snd (fst (set_value d1 ch'))) /\
             get_db n' dbn = Some (fst (fst (set_value d1 ch'))) /\
             (forall a, (a < List.length (n_sess n))%nat ->
                forall m, In m (inbox n a) -> In m (inbox n' a)).
Proof.
  intros Ed ch reg d1 ch'. unfold resolve_conflict. rewrite Ed. unfold tick; cbv beta iota.
  change (mkCh (conflict_key ch) ("resolved " +++ c_val ch) (-1) (n_clock n) false) with reg.
  subst ch' d1 ch. cbn [c_key c_val c_ver c_opp].
  destruct (set_value d reg) as [[d1 r1] msgs1]. cbn [fst snd].
  match goal with |- context [set_value d1 ?x] => destruct (set_value d1 x) as [[d2 r2] msgs2] end.
  cbn [fst snd]. eexists. split; [reflexivity|]. split.
  - rewrite get_db_sends. apply get_db_put_same.
  - intros a Ha m Hm. apply sends_inbox_mono.
    + rewrite put_db_sess.
      match goal with |- context [replicate_change ?x ?y ?z] =>
        replace (n_sess (replicate_change x y z)) with (n_sess x) end.
      * now rewrite sends_len.
      * unfold replicate_change, replicate_web, send_to_primary. destruct (_ || _); reflexivity.
    + match goal with |- context [replicate_change ?x ?y ?z] =>
        replace (inbox (put_db (replicate_change x y z) dbn d2) a) with (inbox x a) end.
      * apply sends_inbox_mono; auto.
      * unfold inbox. f_equal. symmetry. apply get_sess_core. rewrite put_db_sess.
        unfold replicate_change, replicate_web, send_to_primary. destruct (_ || _); reflexivity.
Qed.

Theorem resolve_last n dbn d k v ver opp old :
  get_db n dbn = Some d -> get_value d k = Some old -> v_ver old = -2 -> -1 <= ver < i32_max ->
  let ch := mkCh k v ver opp true in
  let d1 := fst (fst (set_value d (resolve_reg n k v opp))) in   (* record marked resolved *)
  has_pending_conflict d1 k = false ->
  exists n' d2, resolve_conflict n dbn ch = (n', RSet k v) /\ get_db n' dbn = Some d2 /\
    (exists kv, get_value d2 k = Some kv /\ v_val kv = v /\ v_ver kv = ver + 1 /\ v_ver kv <> -2) /\
    (rec_writable d (conflict_key ch) ->
       exists rec, get_value d2 (conflict_key ch) = Some rec /\ v_val rec = "resolved " +++ v).
Proof.
  intros Ed Eo Hv Hr ch d1 Hp.
  destruct (resolve_conflict_unfold n dbn d k v ver opp Ed) as (n' & E1 & E2 & _).
  fold d1 in E1, E2. rewrite Hp in E1, E2.
  assert (Eo1 : get_value d1 k = Some old).
  { unfold d1. destruct (set_value d (resolve_reg n k v opp)) as [[dd rr] mm] eqn:ES. cbn [fst].
    rewrite (set_value_other _ _ _ _ _ _ ES); auto. cbn. intros E. symmetry in E. revert E.
    apply (conflict_key_neq (mkCh k v 0 opp true)). }
  rewrite (set_value_resolve d1 k v ver opp old Eo1 Hv Hr) in E1, E2. cbn [fst snd] in E1, E2.
  exists n'. eexists. split; [exact E1|]. split; [exact E2|]. split.
  - eexists. rewrite get_value_put_same. cbn. repeat split; auto. cbn. lia.
  - intros Hw. rewrite get_value_put_other by (apply (conflict_key_neq ch)).
    destruct (set_value_plain_writes d (conflict_key ch) ("resolved " +++ v) (n_clock n) Hw)
      as (d' & msgs & rec & F1 & F2 & F3).
    unfold d1, resolve_reg. change (conflict_key (mkCh k v 0 opp true)) with (conflict_key ch).
    rewrite F1. cbn [fst]. eauto.
Qed.

Theorem resolve_pending n dbn d k v ver opp old :
  get_db n dbn = Some d -> get_value d k = Some old ->
  let ch := mkCh k v ver opp true in
  let d1 := fst (fst (set_value d (resolve_reg n k v opp))) in
  has_pending_conflict d1 k = true ->
  exists n' d2, resolve_conflict n dbn ch = (n', RSet k v) /\ get_db n' dbn = Some d2 /\
    (exists kv, get_value d2 k = Some kv /\ v_val kv = v /\ v_ver kv = -2) /\
    (rec_writable d (conflict_key ch) ->
       exists rec, get_value d2 (conflict_key ch) = Some rec /\ v_val rec = "resolved " +++ v).
Proof.
  intros Ed Eo ch d1 Hp.
  destruct (resolve_conflict_unfold n dbn d k v ver opp Ed) as (n' & E1 & E2 & _).
  fold d1 in E1, E2. rewrite Hp in E1, E2.
  assert (Eo1 : get_value d1 k = Some old).
  { unfold d1. destruct (set_value d (resolve_reg n k v opp)) as [[dd rr] mm] eqn:ES. cbn [fst].
    rewrite (set_value_other _ _ _ _ _ _ ES); auto. cbn. intros E. symmetry in E. revert E.
    apply (conflict_key_neq (mkCh k v 0 opp true)). }
  rewrite (set_value_resolve_pending d1 k v opp old Eo1) in E1, E2. cbn [fst snd] in E1, E2.
  exists n'. eexists. split; [exact E1|]. split; [exact E2|]. split.
  - eexists. rewrite get_value_put_same. cbn. repeat split; auto.
  - intros Hw. rewrite get_value_put_other by (apply (conflict_key_neq ch)).
    destruct (set_value_plain_writes d (conflict_key ch) ("resolved " +++ v) (n_clock n) Hw)
      as (d' & msgs & rec & F1 & F2 & F3).
    unfold d1, resolve_reg. change (conflict_key (mkCh k v 0 opp true)) with (conflict_key ch).
    rewrite F1. cbn [fst]. eauto.
Qed.

(* ---- 7. register_arbiter ------------------------------------------------------- *)

Lemma in_insert_sorted x y l : In x (insert_sorted y l) <-> x = y \/ In x l.
Proof.
  induction l as [|z l IH]; cbn.
  - intuition.
  - destruct (str_leb y z); cbn; rewrite ?IH; intuition.
Qed.

Lemma in_sort_strs x l : In x (sort_strs l) <-> In x l.
Proof.
  induction l as [|z l IH]; cbn; [tauto|]. rewrite in_insert_sorted, IH. intuition.
Qed.

Lemma nodup_insert_sorted y l : ~ In y l -> NoDup l -> NoDup (insert_sorted y l).
Proof.
  induction l as [|z l IH]; cbn; intros Hn Hd.
  - constructor; auto.
  - destruct (str_leb y z).
    + constructor; auto.
    + inversion Hd; subst. constructor.
      * rewrite in_insert_sorted. intuition.
      * apply IH; auto.
Qed.

Lemma nodup_sort_strs l : NoDup l -> NoDup (sort_strs l).
Proof.
  induction l as [|z l IH]; cbn; intros Hd; [constructor|].
  inversion Hd; subst. apply nodup_insert_sorted; auto. now rewrite in_sort_strs.
Qed.

Lemma nodup_filter_keys {B} (f : str * B -> bool) (l : list (str * B)) :
  NoDup (map fst l) -> NoDup (map fst (filter f l)).
Proof.
  induction l as [|[k v] l IH]; cbn; intros Hd; [constructor|].
  inversion Hd; subst. destruct (f (k, v)); cbn; auto. constructor; auto.
  intros Hin. apply H1. apply in_map_iff in Hin. destruct Hin as [[k' v'] [E Hin]].
  apply filter_In in Hin. apply in_map_iff. exists (k', v'). tauto.
Qed.

Lemma list_keys_nodup d pat sys : NoDup (map fst (d_map d)) -> NoDup (list_keys d pat sys).
Proof. intros H. unfold list_keys. apply nodup_sort_strs. now apply nodup_filter_keys. Qed.

Lemma list_keys_in d pat sys k : In k (list_keys d pat sys) -> pattern_match k pat = true.
Proof.
  unfold list_keys. rewrite in_sort_strs. intros H. apply in_map_iff in H.
  destruct H as [[k' v] [<- H]]. apply filter_In in H. destruct H as [_ H]. cbn in H.
  apply andb_prop in H. tauto.
Qed.

Lemma conflicts_keys_shape d k : In k (list_conflicts_keys d "") ->
  starts_with k "$conflicts_" = true.
Proof.
  unfold list_conflicts_keys. change (String.eqb "" "") with true. cbv iota zeta.
  rewrite in_sort_strs. intros H. apply in_map_iff in H.
  destruct H as [[k' v] [<- H]]. apply filter_In in H. destruct H as [_ H]. cbn [fst snd] in H.
  apply andb_prop in H. tauto.
Qed.

Lemma list_conflicts_keys_nodup d key : NoDup (map fst (d_map d)) -> NoDup (list_conflicts_keys d key).
Proof. intros H. unfold list_conflicts_keys. apply nodup_sort_strs. now apply nodup_filter_keys. Qed.

Lemma conflicts_key_not_token k : starts_with k "$conflicts_" = true -> k <> "$$token".
Proof. intros H ->. discriminate H. Qed.

Lemma conflicts_key_not_conflicts k : starts_with k "$conflicts_" = true -> k <> "$conflicts".
Proof. intros H ->. discriminate H. Qed.

Definition reg_step (dbn : str) (n : node) (k : str) : node :=
  match get_db n dbn with
  | None => n
  | Some dd =>
      match get_value dd k with
      | None => n
      | Some v =>
          if starts_with (v_val v) "resolved" then
            let '(dd', _, msgs) := remove_value dd k in sends (put_db n dbn dd') msgs
          else sends n (arbiter_msgs dd (v_val v))
      end
  end.

Lemma register_arbiter_eq n dbn c :
  register_arbiter n dbn c =
  match get_db n dbn with
  | None => n
  | Some d => let d1 := watch_key d "$conflicts" c in
              fold_left (reg_step dbn) (list_conflicts_keys d1 "") (put_db n dbn d1)
  end.
Proof. reflexivity. Qed.

(* texts of the records still pending, in key order *)
Definition pending_texts (d : db) (L : list str) : list str :=
  flat_map (fun k => match get_value d k with
                     | Some v => if starts_with (v_val v) "resolved" then [] else [v_val v]
                     | None => []
                     end) L.

Lemma pending_texts_ext d1 d L :
  (forall k, In k L -> get_value d1 k = get_value d k) -> pending_texts d1 L = pending_texts d L.
Proof.
  induction L as [|k L IH]; intros H; cbn; auto.
  rewrite (H k) by now left. f_equal. apply IH. intros k' Hk'. apply H. now right.
Qed.

Definition arb_once (dd : db) (c : nat) : Prop := forall m, msgs_for c (arbiter_msgs dd m) = [m].

Lemma arb_once_watch dd dd' c : d_watch dd' = d_watch dd -> arb_once dd c -> arb_once dd' c.
Proof.
  intros Hw H m. unfold arbiter_msgs. rewrite (watchers_eq _ _ _ Hw). apply H.
Qed.

Lemma msgs_for_snoc c (W : list nat) m :
  ~ In c W -> msgs_for c (map (fun s => (s, m)) (W ++ [c])) = [m].
Proof.
  unfold msgs_for. induction W as [|a W IH]; cbn; intros H.
  - now rewrite Nat.eqb_refl.
  - destruct (Nat.eqb_spec a c) as [->|Hne]; [tauto|]. apply IH. tauto.
Qed.

Definition gone (o : option value) : Prop :=
  match o with None => True | Some v' => v_st v' = VDeleted end.

Lemma remove_value_spec2 d key :
  key <> "$$token" ->
  exists d', remove_value d key = (d', ROk, map (fun s => (s, "removed " +++ key +++ nlS)) (watchers_of d key)) /\
    d_watch d' = d_watch d /\
    (forall k', k' <> key -> get_value d' k' = get_value d k') /\
    gone (get_value d' key).
Proof.
  intros Hk. unfold remove_value. destruct (String.eqb_spec key "$$token") as [|_]; [contradiction|].
  eexists. split; [reflexivity|].
  destruct (get_value d key) as [v|] eqn:Ev.
  - destruct (v_st v); (split; [reflexivity|split]);
      try (intros k' Hk'; now apply get_value_put_other);
      try (rewrite get_value_put_same; reflexivity).
    + intros k' Hk'. unfold get_value. cbn. now apply (get_del_other _ String.eqb_spec).
    + unfold get_value. cbn. now rewrite (get_del_same String.eqb).
  - split; [reflexivity|split]; auto. now rewrite Ev.
Qed.

Lemma reg_step_spec c dbn n dd k :
  get_db n dbn = Some dd -> (c < List.length (n_sess n))%nat -> k <> "$$token" ->
  ~ In c (watchers_of dd k) -> arb_once dd c ->
  exists dd1, get_db (reg_step dbn n k) dbn = Some dd1 /\ d_watch dd1 = d_watch dd /\
    List.length (n_sess (reg_step dbn n k)) = List.length (n_sess n) /\
    (forall k', k' <> k -> get_value dd1 k' = get_value dd k') /\
    (match get_value dd k with
     | None => get_value dd1 k = None
     | Some v => if starts_with (v_val v) "resolved" then gone (get_value dd1 k)
                 else get_value dd1 k = Some v
     end) /\
    inbox (reg_step dbn n k) c = inbox n c ++ pending_texts dd [k].
Proof.
  intros Ed Hc Hk Hw Ha. unfold reg_step, pending_texts. rewrite Ed. cbn [flat_map]. rewrite app_nil_r.
  destruct (get_value dd k) as [v|] eqn:Ev.
  2:{ exists dd. rewrite app_nil_r. repeat split; auto. }
  destruct (starts_with (v_val v) "resolved") eqn:Er.
  - destruct (remove_value_spec2 dd k Hk) as (dd1 & E1 & W1 & O1 & G1). rewrite E1.
    exists dd1. rewrite app_nil_r. repeat split; auto.
    + rewrite get_db_sends. apply get_db_put_same.
    + now rewrite sends_len.
    + unfold inbox. f_equal. rewrite sends_sess_other; [reflexivity|].
      intros a m Hin ->. apply in_map_iff in Hin. destruct Hin as [s [E Hs]]. inversion E; subst. auto.
  - exists dd. repeat split; auto.
    + now rewrite get_db_sends.
    + now rewrite sends_len.
    + rewrite sends_inbox by assumption. now rewrite Ha.
Qed.

Lemma reg_fold c dbn L : forall n dd,
  get_db n dbn = Some dd -> (c < List.length (n_sess n))%nat -> NoDup L ->
  (forall k, In k L -> k <> "$$token" /\ ~ In c (watchers_of dd k)) -> arb_once dd c ->
  exists dd', get_db (fold_left (reg_step dbn) L n) dbn = Some dd' /\ d_watch dd' = d_watch dd /\
    (forall k, ~ In k L -> get_value dd' k = get_value dd k) /\
    (forall k, In k L ->
       match get_value dd k with
       | None => get_value dd' k = None
       | Some v => if starts_with (v_val v) "resolved" then gone (get_value dd' k)
                   else get_value dd' k = Some v
       end) /\
    inbox (fold_left (reg_step dbn) L n) c = inbox n c ++ pending_texts dd L.
Proof.
  induction L as [|k L IH]; intros n dd Ed Hc Hnd HL Ha.
  - exists dd. cbn. rewrite app_nil_r. repeat split; auto. intros k [].
  - inversion Hnd as [|? ? Hk HndL]; subst.
    destruct (HL k (or_introl eq_refl)) as [Hk1 Hk2].
    destruct (reg_step_spec c dbn n dd k Ed Hc Hk1 Hk2 Ha) as (dd1 & E1 & W1 & L1 & O1 & K1 & I1).
    cbn [fold_left].
    destruct (IH (reg_step dbn n k) dd1 E1) as (dd' & E2 & W2 & O2 & K2 & I2); auto.
    + now rewrite L1.
    + intros k' Hk'. destruct (HL k' (or_intror Hk')) as [H1 H2]. split; auto.
      now rewrite (watchers_eq _ _ _ W1).
    + eapply arb_once_watch; eauto.
    + exists dd'. split; [exact E2|]. split; [congruence|]. split; [|split].
      * intros k' Hk'. rewrite O2 by (intros H; apply Hk'; now right).
        apply O1. intros ->. apply Hk'. now left.
      * intros k' [<-|Hk'].
        -- rewrite (O2 k Hk). exact K1.
        -- specialize (K2 k' Hk'). rewrite (O1 k') in K2; auto. intros ->. contradiction.
      * rewrite I2, I1, <- app_assoc. f_equal.
        replace (pending_texts dd (k :: L)) with (pending_texts dd [k] ++ pending_texts dd L)
          by (unfold pending_texts; cbn [flat_map]; now rewrite app_nil_r).
        f_equal. apply pending_texts_ext. intros k' Hk'. apply O1. intros ->. contradiction.
Qed.

Theorem register_arbiter_resends n dbn d c :
  get_db n dbn = Some d -> NoDup (map fst (d_map d)) -> (c < List.length (n_sess n))%nat ->
  ~ In c (watchers_of d "$conflicts") ->
  (forall k, In k (list_conflicts_keys d "") -> ~ In c (watchers_of d k)) ->
  let n' := register_arbiter n dbn c in
  let L := list_conflicts_keys d "" in
  exists d', get_db n' dbn = Some d' /\
    In c (watchers_of d' "$conflicts") /\
    (* resolved records are removed *)
    (forall k v, In k L -> get_value d k = Some v -> starts_with (v_val v) "resolved" = true ->
       match get_value d' k with None => True | Some v' => v_st v' = VDeleted end) /\
    (* pending records are kept *)
    (forall k v, In k L -> get_value d k = Some v -> starts_with (v_val v) "resolved" = false ->
       get_value d' k = Some v) /\
    (forall k, ~ In k L -> get_value d' k = get_value d k) /\
    (* exactly the pending records' texts are sent to the new arbiter, in key order *)
    s_inbox (get_sess n' c) = s_inbox (get_sess n c) ++ pending_texts d L.
Proof.
  intros Ed Hnd Hc Hw Hk n' L. unfold n'. rewrite register_arbiter_eq, Ed. cbv zeta.
  set (d1 := watch_key d "$conflicts" c).
  change (list_conflicts_keys d1 "") with L.
  assert (W1 : forall k, k <> "$conflicts" -> watchers_of d1 k = watchers_of d k).
  { intros k Hne. unfold d1, watch_key, watchers_of at 1. cbn [d_watch db_set_watch].
    now rewrite (get_set_other _ String.eqb_spec). }
  assert (W2 : watchers_of d1 "$conflicts" = watchers_of d "$conflicts" ++ [c]).
  { unfold d1, watch_key, watchers_of at 1. cbn [d_watch db_set_watch].
    now rewrite (get_set_same _ String.eqb_spec). }
  destruct (reg_fold c dbn L (put_db n dbn d1) d1) as (dd' & E & Wd & O & K & I).
  - apply get_db_put_same.
  - exact Hc.
  - apply list_conflicts_keys_nodup, Hnd.
  - intros k Hin. pose proof (conflicts_keys_shape d k Hin) as Hs. split.
    + now apply conflicts_key_not_token.
    + rewrite W1 by now apply conflicts_key_not_conflicts. now apply Hk.
  - intros m. unfold arbiter_msgs. rewrite W2. now apply msgs_for_snoc.
  - exists dd'. split; [exact E|]. split; [|split; [|split; [|split]]].
    + rewrite (watchers_eq _ _ _ Wd), W2. apply in_or_app. right. now left.
    + intros k v Hin Ev Hr. specialize (K k Hin). change (get_value d1 k) with (get_value d k) in K.
      rewrite Ev, Hr in K. exact K.
    + intros k v Hin Ev Hr. specialize (K k Hin). change (get_value d1 k) with (get_value d k) in K.
      rewrite Ev, Hr in K. exact K.
    + intros k Hin. apply (O k Hin).
    + exact I.
Qed.

(* ====================================================================== *)
(* Examples (non-vacuity, counterexample)                                  *)
(* ====================================================================== *)

Definition stmt_okb (cl : str) : bool :=
  match parse_request (trim_char nl cl) with
  | POk rq => in_http_set rq
  | _ => true
  end.

Lemma stmt_okb_ok cl : stmt_okb cl = true -> stmt_ok cl.
Proof. unfold stmt_okb, stmt_ok. destruct (parse_request _); auto. Qed.

Lemma body_okb_ok cmds :
  forallb (fun cmd => stmt_okb (trim cmd)) cmds = true ->
  Forall (fun cmd => stmt_ok (trim cmd)) cmds.
Proof.
  intros H. apply Forall_forall. intros cmd Hin.
  apply stmt_okb_ok. rewrite forallb_forall in H. now apply H.
Qed.

Definition ex_node : node := init_node "admin" "pwd" "addr" 7 Primary 100.

Definition ex_body : str :=
  "auth admin pwd; create-db d1 t; use-db d1 t; set k v; get k; ;bogus; set-safe k 0 w; remove k; increment i 2; keys *; get-safe i".

(* one HTTP request: hypotheses of the theorems hold, replies line up, counters are given back *)
Example http_example :
  Forall (fun cmd => stmt_ok (trim cmd)) (split_char ";" ex_body) /\
  nowatch ex_node (List.length (n_sess ex_node)) /\
  snd (http_request ex_node ex_body) =
    Some ["valid auth" +++ nlS; "create-db success" +++ nlS; "empty"; "empty"; "value v" +++ nlS;
          "unknown command: bogus"; "empty"; "empty"; "empty";
          "keys ,$$token,$connections,i" +++ nlS; "value-version 1 2" +++ nlS] /\
  nonblank (split_char ";" ex_body) = 11%nat /\
  map (conn_of (fst (http_request ex_node ex_body))) ["$admin"; "d1"] = [0; 0].
Proof.
  split; [apply body_okb_ok; vm_compute; reflexivity|].
  split.
  - intros dbn d k H. apply (get_in _ String.eqb_spec) in H.
    assert (Hd : d_watch d = []).
    { vm_compute in H. destruct H as [H|[]]. inversion H. reflexivity. }
    unfold watchers_of. rewrite Hd. cbn. auto.
  - vm_compute. repeat split; reflexivity.
Qed.

(* arbiter_never_silent needs [rec_writable]: if the record key exists and is itself in
   conflict, the notice is sent but the record is NOT stored *)
Definition bad_db : db :=
  mkDb [("k", mkV "old" 5 1 VOk 0 0); ("$conflicts_k_7", mkV "junk" (-2) 2 VOk 0 0)]
       [("$conflicts", [0%nat])] 0 1 SArbiter.
Definition bad_node : node :=
  mkNode [("d", bad_db)] [empty_sess] Primary 50 "u" "p" "a" 1 [] [] [] [] [] [].
Definition bad_ch : change := mkCh "k" "new" 3 7 false.

Example record_not_stored_when_not_writable :
  snd (fst (set_value bad_db bad_ch)) =
    RVersionError "k" 5 3 (mkV "old" 5 1 VOk 0 0) bad_ch VUpdated /\
  has_arbiter bad_db = true /\
  let '(n', r) := apply_change bad_node "d" bad_ch in
  r = RError "$$conflitct unresolved $conflicts_k_7" /\
  option_map (fun d => option_map v_val (get_value d "$conflicts_k_7")) (get_db n' "d")
    = Some (Some "junk") /\
  s_inbox (get_sess n' 0) = ["resolve 7 d 5 k old new"].
Proof. vm_compute. repeat split; reflexivity. Qed.

(* ---- 8. the scenario end to end --------------------------------------------------- *)
Definition run_lines (n : node) (c : nat) (ls : list str) : node * list resp :=
  fold_left (fun '(n, rs) l => let '(n', r) := step n c l in (n', rs ++ [r])) ls (n, []).

Definition sc1 : node * list resp :=
  run_lines (fst (connect ex_node)) 0
    ["auth admin pwd"; "create-db d3 tok arbiter"; "use-db d3 tok"; "arbiter";
     "set k a"; "set k b"; "set-safe k 0 c"; "set-safe k 0 d"].
Definition sc2 : node * list resp := run_lines (fst sc1) 0 ["resolve 110 d3 k 1 X"].
Definition sc3 : node * list resp := run_lines (fst sc2) 0 ["resolve 113 d3 k 1 Y"].
Definition sc4 : node * list resp :=
  run_lines (fst (connect (fst sc3))) 1 ["use-db d3 tok"; "arbiter"].

Definition key_state (n : node) (dbn k : str) : option (str * Z) :=
  match get_db n dbn with
  | Some d => option_map (fun v => (v_val v, v_ver v)) (get_value d k)
  | None => None
  end.
Definition pending_of (n : node) (dbn k : str) : option bool :=
  option_map (fun d => has_pending_conflict d k) (get_db n dbn).

Example arbiter_scenario :
  (* two conflicting writes are refused with a notice each, the second queued behind the first *)
  snd sc1 = [ROk; ROk; ROk; ROk; ROk; ROk;
             RError "$$conflitct unresolved $conflicts_k_110";
             RError "$$conflitct unresolved $conflicts_k_113"] /\
  s_inbox (get_sess (fst sc1) 0) =
    ["valid auth" +++ nlS; "create-db success" +++ nlS;
     "resolve 110 d3 1 k b c"; "resolve 113 d3 1 k $conflicts_k_110 d"] /\
  key_state (fst sc1) "d3" "k" = Some ("b", -2) /\
  pending_of (fst sc1) "d3" "k" = Some true /\
  (* first resolution: value taken, key still in conflict *)
  key_state (fst sc2) "d3" "k" = Some ("X", -2) /\
  key_state (fst sc2) "d3" "$conflicts_k_110" = Some ("resolved X", 1) /\
  pending_of (fst sc2) "d3" "k" = Some true /\
  (* last resolution: value taken, key writable again, nothing pending *)
  key_state (fst sc3) "d3" "k" = Some ("Y", 2) /\
  key_state (fst sc3) "d3" "$conflicts_k_113" = Some ("resolved Y", 1) /\
  pending_of (fst sc3) "d3" "k" = Some false /\
  (* a newly registered arbiter receives nothing; resolved records are dropped *)
  snd sc4 = [ROk; ROk] /\
  s_inbox (get_sess (fst sc4) 1) = [] /\
  key_state (fst sc4) "d3" "$conflicts_k_110" = None /\
  key_state (fst sc4) "d3" "$conflicts_k_113" = None /\
  option_map (fun d => watchers_of d "$conflicts") (get_db (fst sc4) "d3") = Some [0%nat; 1%nat].
Proof. vm_compute. repeat split; reflexivity. Qed.

(* the hypothesis "[c] is not yet an arbiter" of [register_arbiter_resends] matters: a session
   that registers again receives every pending notice once per registration *)
Example arbiter_registered_twice :
  s_inbox (get_sess (fst (run_lines (fst sc1) 0 ["arbiter"])) 0) =
    s_inbox (get_sess (fst sc1) 0) ++
    ["resolve 110 d3 1 k b c"; "resolve 110 d3 1 k b c";
     "resolve 113 d3 1 k $conflicts_k_110 d"; "resolve 113 d3 1 k $conflicts_k_110 d"].
Proof. vm_compute. reflexivity. Qed.

(* the resolve handler: an admin session on a primary calls [resolve_conflict]; a missing
   database is refused with the guard's error (no longer answered OK) *)
Lemma handle_resolve_admin n c opp dbn k v ver d :
  s_auth (get_sess n c) = true -> is_primary n = true -> get_db n dbn = Some d ->
  handle n c (RqResolve opp dbn k v ver) =
    (fst (resolve_conflict n dbn (mkCh k v ver opp true)), ROk).
Proof.
  intros Ha Hp Ed. cbn [handle]. rewrite Ha, Hp. unfold guard_db_name. rewrite Ed. reflexivity.
Qed.

Lemma handle_resolve_admin_no_db n c opp dbn k v ver :
  s_auth (get_sess n c) = true -> get_db n dbn = None ->
  handle n c (RqResolve opp dbn k v ver) = (send n c no_db_msg, RError no_db_msg).
Proof.
  intros Ha Ed. cbn [handle]. rewrite Ha. unfold guard_db_name. rewrite Ed. reflexivity.
Qed.
