(* C11: the crash semantics of Model/Disk.v (kill on entering the i-th system call of one kind)
   and machine-checked witnesses that the faithful model of the snapshot writer violates the
   property at the recorded sites. *)
From NunDB Require Import Model.Base Model.Parse Model.Node Model.Disk.
Require Import String List NArith ZArith Lia. Import ListNotations.
Open Scope string_scope.
Open Scope list_scope.

(* ---- the crash state is a prefix of the plan ------------------------------------------ *)
Lemma take_before_prefix : forall s ops i, exists rest, ops = take_before s i ops ++ rest.
Proof.
  intros s ops; induction ops as [|o r IH]; intros i; cbn [take_before].
  - exists []; reflexivity.
  - destruct (is_sc s o) eqn:E.
    + destruct i as [|[|k]].
      * exists (o :: r); reflexivity.
      * exists (o :: r); reflexivity.
      * destruct (IH (S k)) as [rest Hr]. exists rest. cbn [app]. f_equal. exact Hr.
    + destruct (IH i) as [rest Hr]. exists rest. cbn [app]. f_equal. exact Hr.
Qed.

(* a process that makes fewer than i calls of the kind is not killed: the whole plan runs *)
Lemma take_before_complete : forall s ops i, count_sc s ops < i -> take_before s i ops = ops.
Proof.
  intros s ops; induction ops as [|o r IH]; intros i Hc; cbn [take_before]; [reflexivity|].
  unfold count_sc in *. cbn [filter] in Hc.
  destruct (is_sc s o) eqn:E.
  - cbn [List.length] in Hc. destruct i as [|[|k]]; try lia.
    f_equal. apply IH. lia.
  - f_equal. apply IH. exact Hc.
Qed.

(* otherwise it stops exactly in front of the i-th call of that kind *)
Lemma take_before_stops : forall s ops i, 1 <= i -> i <= count_sc s ops ->
  exists o rest, ops = take_before s i ops ++ o :: rest /\ is_sc s o = true /\
                 count_sc s (take_before s i ops) = i - 1.
Proof.
  intros s ops; induction ops as [|o r IH]; intros i H1 Hc.
  - unfold count_sc in Hc; cbn in Hc; lia.
  - cbn [take_before]. unfold count_sc in Hc. cbn [filter] in Hc.
    destruct (is_sc s o) eqn:E.
    + cbn [List.length] in Hc. destruct i as [|[|k]]; [lia| |].
      * exists o, r. split; [reflexivity|]. split; [exact E|]. reflexivity.
      * destruct (IH (S k)) as [o' [rest [Hr [Ho Hn]]]]; [lia|unfold count_sc; lia|].
        exists o', rest. split; [cbn [app]; f_equal; exact Hr|]. split; [exact Ho|].
        unfold count_sc in *. cbn [filter]. rewrite E. cbn [List.length]. lia.
    + destruct (IH i H1) as [o' [rest [Hr [Ho Hn]]]]; [unfold count_sc; exact Hc|].
      exists o', rest. split; [cbn [app]; f_equal; exact Hr|]. split; [exact Ho|].
      unfold count_sc in *. cbn [filter]. rewrite E. exact Hn.
Qed.

(* the files of a database after a crash are the plan prefix applied to the files before *)
Lemma crash_one_db : forall x dbn reclaim d order s i,
  get_db (dn_node x) dbn = Some d ->
  let ops := fst (fst (snapshot_plan d order reclaim (files_of x dbn) (n_clock (dn_node x)))) in
  i <= count_sc s ops ->
  dflush_crash_go x [(dbn, reclaim)] [order] s i =
  assoc_set String.eqb dbn (apply_fops (files_of x dbn) (take_before s i ops)) (dn_files x).
Proof.
  intros x dbn reclaim d order s i Hd ops Hi.
  cbn [dflush_crash_go]. rewrite Hd.
  subst ops. destruct (snapshot_plan d order reclaim (files_of x dbn) (n_clock (dn_node x))) as [[ops mem] clk].
  cbn [fst] in Hi.
  destruct (Nat.ltb (count_sc s ops) i) eqn:E.
  - apply Nat.ltb_lt in E. lia.
  - reflexivity.
Qed.

(* ---- witnesses: the full statement of C11 is false of the faithful model ---------------- *)
Definition w_n0 := init_node "nun" "pwd" "n0:3014" 1000 Primary 1000000000000000000%N.
Definition w_cmds (x : dnode) (ls : list str) : dnode :=
  fold_left (fun x l => mkDN (fst (step (dn_node x) 0 l)) (dn_files x)) ls x.
Definition w_x0 : dnode := mkDN (fst (connect w_n0)) [].
(* a = 1 and b = 2 persisted by a completed snapshot *)
Definition w_before : dnode :=
  dflush (w_cmds w_x0 ["auth nun pwd"; "create-db d1 tok1 newer"; "use-db d1 tok1"; "set a 1"; "set b 2"; "snapshot false d1"])
         [["a"; "b"; "$$token"; "$connections"]].
Definition w_restarted : dnode :=
  match drestart w_before ["d1"] with RNode x => mkDN (fst (connect (dn_node x))) (dn_files x) | RStartPanic => w_before end.
(* the interrupted snapshot writes a = 22 *)
Definition w_incr : dnode := w_cmds w_restarted ["auth nun pwd"; "use-db d1 tok1"; "set a 22"; "snapshot false d1"].
Definition w_recl : dnode := w_cmds w_restarted ["auth nun pwd"; "use-db d1 tok1"; "set a 22"; "snapshot true d1"].
Definition w_get (r : rres) (k : str) : option (option (str * Z)) :=
  match r with
  | RNode x => match get_db (dn_node x) "d1" with
               | Some d => Some (match assoc_get String.eqb k (d_map d) with Some v => Some (v_val v, v_ver v) | None => None end)
               | None => Some None
               end
  | RStartPanic => None
  end.
Definition w_crash (x : dnode) (order : list str) (s : sysc) (i : nat) : rres :=
  drestart (mkDN (dn_node x) (dflush_crash x [order] s i)) ["d1"].

Example w_before_loads : w_get (drestart w_before ["d1"]) "a" = Some (Some ("1", 0%Z)) /\
                         w_get (drestart w_before ["d1"]) "b" = Some (Some ("2", 0%Z)).
Proof. split; vm_compute; reflexivity. Qed.

Example w_complete_loads : w_get (w_crash w_incr ["a"; "$connections"] ScPwrite 99) "a" = Some (Some ("22", 1%Z)).
Proof. vm_compute; reflexivity. Qed.

(* H11.1a: the in-place update is two pwrites; between them the new version sits on the old value *)
Example C11_torn_inplace_update_refuted :
  w_get (w_crash w_incr ["a"; "$connections"] ScPwrite 2) "a" = Some (Some ("1", 1%Z)).
Proof. vm_compute; reflexivity. Qed.

(* H11.1b/H11.2: the key entry points at a value that is still in the writer's buffer: the
   loader reads past the end of the values file and fabricates a value *)
Example C11_value_not_yet_written_refuted :
  exists v, w_get (w_crash w_incr ["a"; "$connections"] ScPwrite 3) "a" = Some (Some (v, 1%Z)) /\ v <> "1" /\ v <> "22".
Proof. eexists; split; [vm_compute; reflexivity|]. split; discriminate. Qed.

(* H11.3: the reclaiming snapshot renames the key file away and deletes the value file before
   the new ones exist: an untouched, previously persisted key is gone *)
Example C11_reclaim_window_refuted :
  w_get (w_crash w_recl ["a"; "b"; "$connections"; "$$token"] ScWrite 2) "b" = Some None /\
  w_get (w_crash w_recl ["a"; "b"; "$connections"; "$$token"] ScRename 2) "b" = Some None.
Proof. split; vm_compute; reflexivity. Qed.

(* H11.4: a kill in front of the removal of the renamed value file leaves a directory the next
   start panics on *)
Example C11_start_panics_refuted :
  w_crash w_recl ["a"; "b"; "$connections"; "$$token"] ScUnlink 1 = RStartPanic.
Proof. vm_compute; reflexivity. Qed.

(* a kill in front of the very first operation changes nothing *)
Example C11_first_site_harmless :
  w_get (w_crash w_incr ["a"; "$connections"] ScPwrite 1) "a" = Some (Some ("1", 0%Z)) /\
  w_get (w_crash w_recl ["a"; "b"; "$connections"; "$$token"] ScRename 1) "b" = Some (Some ("2", 0%Z)).
Proof. split; vm_compute; reflexivity. Qed.
