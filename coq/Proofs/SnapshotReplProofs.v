(* SnapshotReplProofs.v -- property C04 (live replication converges), the `snapshot` command.

   A primary that handles `snapshot <reclaim> <names>` registers the NAMED databases (or, when no
   name is given, the database the session selected) in its pending-snapshot list [n_snap] and
   queues the line `rp <id> replicate-snapshot <names joined by |> <true|false>` for the
   secondaries; a secondary that receives the line registers exactly the same pairs.
   The defect class excluded: the primary snapshots the named databases while telling the
   secondaries to snapshot the selected one. *)
From NunDB Require Import Model.Base Model.Pending Model.Parse Model.Node Model.Oplog Model.Cluster
  Proofs.AssocLemmas Proofs.PendingProofs Proofs.DbProofs Proofs.ClusterProofs Proofs.ConnProofs
  Proofs.ConvergeProofs.

(* ================================================================== *)
(* Part A.  The wire text                                               *)
(* ================================================================== *)

(* the request text [replicate_request] hands to [replicate_web] *)
Definition snap_req (names : list str) (reclaim : bool) : str :=
  "replicate-snapshot " +++ join "|" names +++ " " +++ (if reclaim then "true" else "false").

(* the exact lexical condition on a database name: no space, no newline, no '|' *)
Definition snap_tok (s : str) : Prop := no_sp s /\ no_nl s /\ nochar "|" s = true.

Lemma simple_tok_snap_tok s : simple_tok s -> nochar "|" s = true -> snap_tok s.
Proof. intros H Hb. split; [now apply tok_no_sp|]. split; [now apply tok_no_nl|exact Hb]. Qed.

Lemma split_char_acc_end c p : forall cur, nochar c p = true ->
  split_char_acc c p cur = [str_rev cur +++ p].
Proof.
  induction p as [|a p IH]; intros cur H.
  - cbn [split_char_acc]. now rewrite app_nil_r_s.
  - cbn [nochar] in H. apply andb_true_iff in H as [Ha Hp]. apply negb_true_iff in Ha.
    cbn [split_char_acc]. rewrite Ha, IH by assumption. f_equal.
    unfold str_rev at 1. cbn [str_rev_acc]. rewrite str_rev_acc_spec, app_assoc_s. reflexivity.
Qed.

Lemma split_char_join c names : names <> [] -> Forall (fun s => nochar c s = true) names ->
  split_char c (join (String c "") names) = names.
Proof.
  intros Hne H. induction H as [|x l Hx Hl IH]; [congruence|].
  destruct l as [|y r].
  - cbn [join]. unfold split_char. now rewrite split_char_acc_end.
  - change (join (String c "") (x :: y :: r)) with (x +++ String c (join (String c "") (y :: r))).
    unfold split_char. rewrite split_char_acc_piece by assumption.
    f_equal. apply IH. discriminate.
Qed.

Lemma nochar_join c sep l : nochar c sep = true -> Forall (fun s => nochar c s = true) l ->
  nochar c (join sep l) = true.
Proof.
  intros Hs H. induction H as [|x l Hx Hl IH]; [reflexivity|].
  destruct l as [|y r]; [exact Hx|].
  change (join sep (x :: y :: r)) with (x +++ sep +++ join sep (y :: r)).
  now rewrite !nochar_app, Hx, Hs, IH.
Qed.

Lemma snap_toks_sp names : Forall snap_tok names -> no_sp (join "|" names).
Proof.
  intros H. apply nochar_join; [reflexivity|]. eapply Forall_impl; [|exact H]. intros s Hs. apply Hs.
Qed.
Lemma snap_toks_nl names : Forall snap_tok names -> no_nl (join "|" names).
Proof.
  intros H. apply nochar_join; [reflexivity|]. eapply Forall_impl; [|exact H]. intros s Hs. apply Hs.
Qed.
Lemma snap_toks_bar names : Forall snap_tok names -> Forall (fun s => nochar "|" s = true) names.
Proof. intros H. eapply Forall_impl; [|exact H]. intros s Hs. apply Hs. Qed.

Lemma parse_cmd_replicate_snapshot args : parse_cmd "replicate-snapshot" args = Some (
    match hd_opt args with
    | None => PErr "replicate-snapshot must contain a db name"
    | Some dbn =>
        let reclaim := match hd_opt (tl args) with Some r => String.eqb (strip_nl r) "true" | None => false end in
        POk (RqReplicateSnapshot reclaim (split_char "|" (strip_nl dbn)))
    end).
Proof. reflexivity. Qed.

Lemma flag_semi (b : bool) : no_semi_end (if b then "true" else "false").
Proof. destruct b; intros H; discriminate H. Qed.

Lemma snap_req_semi names reclaim : no_semi_end (snap_req names reclaim).
Proof.
  unfold snap_req. rewrite <- app_assoc_s. apply no_semi_end_sep, flag_semi.
Qed.

Lemma snap_req_ne names reclaim : snap_req names reclaim <> "".
Proof. discriminate. Qed.

(* (1) the queued request text parses back to the replicated request *)
Theorem snapshot_line_roundtrip (names : list str) (reclaim : bool) :
  names <> [] -> Forall snap_tok names ->
  parse_request ("replicate-snapshot " +++ join "|" names +++ " " +++ (if reclaim then "true" else "false"))
  = POk (RqReplicateSnapshot reclaim names).
Proof.
  intros Hne Ht.
  change ("replicate-snapshot " +++ join "|" names +++ " " +++ (if reclaim then "true" else "false"))
    with ("replicate-snapshot" +++ " " +++ join "|" names +++ " " +++ (if reclaim then "true" else "false")).
  rewrite parse_request_3; try reflexivity; try discriminate; try (now apply snap_toks_sp).
  2:{ repeat (rewrite <- app_assoc_s); rewrite app_assoc_s. apply no_semi_end_sep, flag_semi. }
  rewrite parse_cmd_replicate_snapshot. cbn [hd_opt tl]. cbv zeta.
  rewrite (strip_nl_noop (join "|" names)) by (now apply snap_toks_nl).
  rewrite split_char_join by (auto using snap_toks_bar).
  destruct reclaim; reflexivity.
Qed.

Corollary snap_req_parse names reclaim : names <> [] -> Forall snap_tok names ->
  parse_request (snap_req names reclaim) = POk (RqReplicateSnapshot reclaim names).
Proof. apply snapshot_line_roundtrip. Qed.

(* the `rp <id> ` wrapped form, as the replication thread sends it *)
Theorem snapshot_rp_line_roundtrip id names reclaim : (id < 2 ^ 64)%N ->
  parse_request (rp_line id (snap_req names reclaim)) = POk (RqReplicateRequest (snap_req names reclaim) id).
Proof. intros Hid. apply rp_roundtrip; auto using snap_req_ne, snap_req_semi. Qed.

Lemma flag_last_nl (b : bool) : last_char (" " +++ (if b then "true" else "false")) <> Some nl.
Proof. destruct b; intros H; discriminate H. Qed.

Lemma snap_req_shape names reclaim :
  exists rest, snap_req names reclaim = String "r" "eplicate-snapshot " +++ rest /\ rest <> "" /\ last_char rest <> Some nl.
Proof.
  exists (join "|" names +++ " " +++ (if reclaim then "true" else "false")).
  split; [reflexivity|]. split.
  - destruct (join "|" names); destruct reclaim; discriminate.
  - rewrite last_char_app_ne by (destruct reclaim; discriminate). apply flag_last_nl.
Qed.

Lemma snap_req_trim names reclaim : trim_char nl (snap_req names reclaim) = snap_req names reclaim.
Proof.
  destruct (snap_req_shape names reclaim) as (rest & -> & Hne & Hl). now apply trim_nl_line.
Qed.

Lemma snap_rp_line_trim id names reclaim :
  trim_char nl (rp_line id (snap_req names reclaim)) = rp_line id (snap_req names reclaim).
Proof.
  unfold rp_line.
  change ("rp " +++ N_to_str id +++ " " +++ snap_req names reclaim)
    with (String "r" "p " +++ (N_to_str id +++ " " +++ snap_req names reclaim)).
  apply trim_nl_line; try reflexivity.
  - destruct (N_to_str_cons id) as (a & r & -> & _). discriminate.
  - destruct (snap_req_shape names reclaim) as (rest & -> & Hne & Hl).
    change (" " +++ String "r" "eplicate-snapshot " +++ rest) with (String " " (String "r" "eplicate-snapshot ") +++ rest).
    rewrite <- app_assoc_s. now rewrite last_char_app_ne.
Qed.

(* ================================================================== *)
(* Part B.  The handlers                                                *)
(* ================================================================== *)

(* the databases a `snapshot` request addresses: the named ones, else the selected one *)
Definition snap_targets (sel : option str) (names : list str) : list str :=
  match names with [] => [or_empty sel] | _ => names end.

Definition snap_pairs (reclaim : bool) (names : list str) : list (str * bool) :=
  map (fun nm => (nm, reclaim)) names.

(* the session's selection, if any, names an existing database (an invariant of every run:
   ConnProofs.sel_exists) *)
Definition sel_ok (n : node) (c : nat) : Prop :=
  match s_db (get_sess n c) with Some nm => has_db n nm = true | None => True end.

Lemma sel_exists_sel_ok n c : sel_exists n -> sel_ok n c.
Proof.
  intros H. unfold sel_ok. destruct (s_db (get_sess n c)) as [nm|] eqn:E; [|exact I].
  specialize (H c nm E). unfold has_db. destruct (get_db n nm); congruence.
Qed.

Definition all_dbs (n : node) (names : list str) : Prop := Forall (fun nm => has_db n nm = true) names.

Lemma missing_nil n names : all_dbs n names ->
  filter (fun nm => match get_db n nm with Some _ => false | None => true end) names = [].
Proof.
  intros H. induction H as [|x l Hx Hl IH]; [reflexivity|].
  cbn [filter]. unfold has_db in Hx. destruct (get_db n x); [exact IH|discriminate].
Qed.

Lemma n_set_snap_id n : n_set_snap n (n_snap n) = n.
Proof. destruct n; reflexivity. Qed.

Lemma n_set_snap_twice n a b : n_set_snap (n_set_snap n a) b = n_set_snap n b.
Proof. reflexivity. Qed.

Lemma snapshot_fold reclaim names : forall n r0, all_dbs n names ->
  fold_left (fun acc nm =>
      let '(n0, r0) := acc in
      match get_db n0 nm with
      | Some _ => (n_set_snap n0 (n_snap n0 ++ [(nm, reclaim)]), r0)
      | None => (n0, RError ("Error trying to snapshot database: Database " +++ nm +++ " not found"))
      end) names (n, r0)
  = (n_set_snap n (n_snap n ++ snap_pairs reclaim names), r0).
Proof.
  induction names as [|x l IH]; intros n r0 H.
  - cbn [fold_left snap_pairs map]. now rewrite app_nil_r, n_set_snap_id.
  - inversion H as [|x' l' Hx Hl]; subst. cbn [fold_left].
    unfold has_db in Hx. destruct (get_db n x) eqn:E; [|discriminate].
    rewrite IH by exact Hl. rewrite n_set_snap_twice.
    cbn [n_snap n_set_snap snap_pairs map]. now rewrite <- app_assoc.
Qed.

Lemma handle_snapshot p c reclaim names :
  s_auth (get_sess p c) = true ->
  let names' := snap_targets (s_db (get_sess p c)) names in
  (names = [] -> s_db (get_sess p c) <> None) -> all_dbs p names' ->
  handle p c (RqSnapshot reclaim names) = (n_set_snap p (n_snap p ++ snap_pairs reclaim names'), ROk).
Proof.
  intros Ha names' Hsel Hall. unfold handle. rewrite Ha. cbn [negb].
  destruct names as [|x l].
  - subst names'. cbn [snap_targets] in Hall.
    destruct (s_db (get_sess p c)) as [dbn|]; [|exfalso; now apply Hsel].
    cbn [or_empty] in *. inversion Hall as [|? ? Hx _]; subst. unfold has_db in Hx.
    destruct (get_db p dbn); [reflexivity|discriminate].
  - subst names'. cbn [snap_targets] in *. rewrite missing_nil by exact Hall. reflexivity.
Qed.

Lemma rr_snapshot n reclaim names sd :
  match sd with Some nm => has_db n nm = true | None => True end ->
  replicate_request n (RqSnapshot reclaim names) sd ROk
  = (replicate_web n (snap_req (snap_targets sd names) reclaim), ROk).
Proof.
  intros H. unfold replicate_request. destruct sd as [nm|]; [rewrite H|]; cbn [negb]; destruct names; reflexivity.
Qed.

Lemma rr_repl_snapshot n reclaim names sd :
  match sd with Some nm => has_db n nm = true | None => True end ->
  replicate_request n (RqReplicateSnapshot reclaim names) sd ROk
  = (replicate_web n (snap_req names reclaim), ROk).
Proof.
  intros H. unfold replicate_request. destruct sd as [nm|]; [rewrite H|]; reflexivity.
Qed.

Lemma rr_rp_ok n req id sd :
  match sd with Some nm => has_db n nm = true | None => True end ->
  replicate_request n (RqReplicateRequest req id) sd ROk = (n, ROk).
Proof.
  intros H. unfold replicate_request. destruct sd as [nm|]; [rewrite H|]; reflexivity.
Qed.

(* the node after the primary's step, exactly *)
Definition primary_after (p : node) (c : nat) (reclaim : bool) (names : list str) : node :=
  let names' := snap_targets (s_db (get_sess p c)) names in
  replicate_web (n_set_snap p (n_snap p ++ snap_pairs reclaim names')) (snap_req names' reclaim).

Lemma snapshot_primary_step p c line reclaim names :
  s_auth (get_sess p c) = true ->
  parse_request (trim_char nl line) = POk (RqSnapshot reclaim names) ->
  sel_ok p c ->
  (names = [] -> s_db (get_sess p c) <> None) ->
  all_dbs p (snap_targets (s_db (get_sess p c)) names) ->
  step p c line = (primary_after p c reclaim names, ROk).
Proof.
  intros Ha Hp Hsel Hn Hall. unfold step.
  rewrite (process_plain _ _ _ _ _ Hp) by discriminate.
  rewrite handle_snapshot by assumption.
  rewrite rr_snapshot; [reflexivity|exact Hsel].
Qed.

(* (2) what the primary's step does.  [is_primary p] is not needed: [replicate_request] queues the
   line whatever the role and whatever the member table holds ([replicate_web] only stamps it with
   the clock and appends it to [n_repl]; the replication thread decides who receives it). *)
Theorem snapshot_primary_registers p c line reclaim names :
  s_auth (get_sess p c) = true ->
  parse_request (trim_char nl line) = POk (RqSnapshot reclaim names) ->
  sel_ok p c ->
  (names = [] -> s_db (get_sess p c) <> None) ->
  let names' := snap_targets (s_db (get_sess p c)) names in
  all_dbs p names' ->
  let res := step p c line in
  snd res = ROk /\
  n_snap (fst res) = n_snap p ++ map (fun nm => (nm, reclaim)) names' /\
  n_dbs (fst res) = n_dbs p /\
  n_repl (fst res) = n_repl p ++ [rp_line (n_clock p) (snap_req names' reclaim)] /\
  n_clock (fst res) = (n_clock p + 1)%N /\
  n_sess (fst res) = n_sess p /\ n_role (fst res) = n_role p /\ n_members (fst res) = n_members p /\
  n_pending (fst res) = n_pending p /\ n_sup (fst res) = n_sup p /\ n_idmap (fst res) = n_idmap p.
Proof.
  intros Ha Hp Hsel Hn names' Hall res. subst res.
  rewrite (snapshot_primary_step p c line reclaim names) by assumption.
  cbn [fst snd]. unfold primary_after. fold names'. repeat split; reflexivity.
Qed.

(* the node after the secondary's step on the rp-wrapped line, exactly *)
Definition ack_line (s : node) (id : N) : str := "ack " +++ N_to_str id +++ " " +++ n_addr s +++ " " +++ nlS.

Definition secondary_after (s : node) (cs : nat) (id : N) (reclaim : bool) (names : list str) : node :=
  let s0 := send s cs (ack_line s id) in
  replicate_web (n_set_snap s0 (n_snap s ++ snap_pairs reclaim names)) (snap_req names reclaim).

Lemma has_db_send n c m x : has_db (send n c m) x = has_db n x.
Proof. reflexivity. Qed.

Lemma snapshot_secondary_step s cs id reclaim names :
  s_auth (get_sess s cs) = true -> sel_ok s cs ->
  (id < 2 ^ 64)%N -> names <> [] -> Forall snap_tok names -> all_dbs s names ->
  step s cs (rp_line id (snap_req names reclaim)) = (secondary_after s cs id reclaim names, ROk).
Proof.
  intros Ha Hsel Hid Hne Ht Hall. unfold step.
  assert (HL : exists L, String.length (rp_line id (snap_req names reclaim)) = S (S L)) by (eexists; reflexivity).
  destruct HL as [L HL]. rewrite HL.
  rewrite (process_rp _ _ _ _ (snap_req names reclaim) id)
    by (auto; rewrite snap_rp_line_trim; now apply snapshot_rp_line_roundtrip).
  fold (ack_line s id).
  set (s0 := send s cs (ack_line s id)).
  assert (Hs0 : get_sess s0 cs = sess_push (get_sess s cs) (ack_line s id)).
  { apply get_sess_send_same. now apply auth_in_range. }
  assert (Ha0 : s_auth (get_sess s0 cs) = true) by (rewrite Hs0; exact Ha).
  assert (Hsd0 : s_db (get_sess s0 cs) = s_db (get_sess s cs)) by (rewrite Hs0; reflexivity).
  rewrite (process_plain _ _ _ _ (RqReplicateSnapshot reclaim names))
    by (try discriminate; rewrite snap_req_trim; now apply snap_req_parse).
  unfold handle. rewrite Ha0. cbn [negb].
  rewrite snapshot_fold by exact Hall.
  rewrite Hsd0. unfold sel_ok in Hsel.
  rewrite rr_repl_snapshot by exact Hsel.
  rewrite rr_rp_ok by exact Hsel.
  reflexivity.
Qed.

(* (3) what the secondary's step on the delivered line does *)
Theorem snapshot_secondary_registers s cs id reclaim names :
  s_auth (get_sess s cs) = true -> sel_ok s cs ->
  (id < 2 ^ 64)%N -> names <> [] -> Forall snap_tok names -> all_dbs s names ->
  let res := step s cs (rp_line id (snap_req names reclaim)) in
  snd res = ROk /\
  n_snap (fst res) = n_snap s ++ map (fun nm => (nm, reclaim)) names /\
  n_dbs (fst res) = n_dbs s /\
  n_repl (fst res) = n_repl s ++ [rp_line (n_clock s) (snap_req names reclaim)] /\
  n_clock (fst res) = (n_clock s + 1)%N /\
  s_inbox (get_sess (fst res) cs) = s_inbox (get_sess s cs) ++ [ack_line s id] /\
  n_role (fst res) = n_role s /\ n_members (fst res) = n_members s /\
  n_pending (fst res) = n_pending s /\ n_sup (fst res) = n_sup s /\ n_idmap (fst res) = n_idmap s.
Proof.
  intros Ha Hsel Hid Hne Ht Hall res. subst res.
  rewrite snapshot_secondary_step by assumption.
  cbn [fst snd]. unfold secondary_after. repeat split; try reflexivity.
  rewrite get_sess_replicate_web.
  change (get_sess (n_set_snap (send s cs (ack_line s id)) (n_snap s ++ snap_pairs reclaim names)) cs)
    with (get_sess (send s cs (ack_line s id)) cs).
  rewrite get_sess_send_same by (now apply auth_in_range). reflexivity.
Qed.

(* the same for the bare request text (a link that delivers the request without the rp prefix) *)
Theorem snapshot_secondary_registers_plain s cs reclaim names :
  s_auth (get_sess s cs) = true -> sel_ok s cs ->
  names <> [] -> Forall snap_tok names -> all_dbs s names ->
  let res := step s cs (snap_req names reclaim) in
  snd res = ROk /\
  n_snap (fst res) = n_snap s ++ map (fun nm => (nm, reclaim)) names /\
  n_dbs (fst res) = n_dbs s /\ n_sess (fst res) = n_sess s.
Proof.
  intros Ha Hsel Hne Ht Hall res. subst res. unfold step.
  rewrite (process_plain _ _ _ _ (RqReplicateSnapshot reclaim names))
    by (try discriminate; rewrite snap_req_trim; now apply snap_req_parse).
  unfold handle. rewrite Ha. cbn [negb].
  rewrite snapshot_fold by exact Hall.
  unfold sel_ok in Hsel. rewrite rr_repl_snapshot by exact Hsel.
  cbn [fst snd]. repeat split; reflexivity.
Qed.

(* ================================================================== *)
(* Part C.  Primary and secondary agree                                 *)
(* ================================================================== *)

(* (4) the pairs added on the primary and on a secondary that receives the queued line are the same
   list, whatever database the primary's session had selected *)
Theorem snapshot_replicas_agree p c line reclaim names s cs :
  s_auth (get_sess p c) = true ->
  parse_request (trim_char nl line) = POk (RqSnapshot reclaim names) ->
  sel_ok p c ->
  (names = [] -> s_db (get_sess p c) <> None) ->
  let names' := snap_targets (s_db (get_sess p c)) names in
  all_dbs p names' -> Forall snap_tok names' -> (n_clock p < 2 ^ 64)%N ->
  s_auth (get_sess s cs) = true -> sel_ok s cs -> all_dbs s names' ->
  let p' := fst (step p c line) in
  exists qline added,
    n_repl p' = n_repl p ++ [qline] /\
    n_snap p' = n_snap p ++ added /\
    n_snap (fst (step s cs qline)) = n_snap s ++ added /\
    added = map (fun nm => (nm, reclaim)) names' /\
    qline = rp_line (n_clock p) (snap_req names' reclaim) /\
    snd (step p c line) = ROk /\ snd (step s cs qline) = ROk /\
    n_dbs p' = n_dbs p /\ n_dbs (fst (step s cs qline)) = n_dbs s.
Proof.
  intros Ha Hp Hsel Hn names' Hall Ht Hclk Has Hsels Halls p'.
  destruct (snapshot_primary_registers p c line reclaim names Ha Hp Hsel Hn Hall)
    as (Hr & Hsnap & Hdbs & Hrepl & _).
  assert (Hne : names' <> []).
  { subst names'. destruct names; cbn [snap_targets]; discriminate. }
  destruct (snapshot_secondary_registers s cs (n_clock p) reclaim names' Has Hsels Hclk Hne Ht Halls)
    as (Hr2 & Hsnap2 & Hdbs2 & _).
  exists (rp_line (n_clock p) (snap_req names' reclaim)), (map (fun nm => (nm, reclaim)) names').
  repeat split; assumption.
Qed.

(* whatever was added on the primary (any list [added] with n_snap p' = n_snap p ++ added) is what
   a secondary adds, and when names are given the selected database is among the added pairs only
   if it was named *)
Corollary snapshot_named_not_selected p c line reclaim names dbn added b :
  s_auth (get_sess p c) = true ->
  parse_request (trim_char nl line) = POk (RqSnapshot reclaim names) ->
  sel_ok p c -> names <> [] -> all_dbs p names ->
  s_db (get_sess p c) = Some dbn ->
  n_snap (fst (step p c line)) = n_snap p ++ added ->
  In (dbn, b) added -> In dbn names.
Proof.
  intros Ha Hp Hsel Hne Hall Hdb Hsnap Hin.
  assert (Hn : names = [] -> s_db (get_sess p c) <> None) by (intros E; congruence).
  assert (Ht : snap_targets (s_db (get_sess p c)) names = names) by (destruct names; [congruence|reflexivity]).
  destruct (snapshot_primary_registers p c line reclaim names Ha Hp Hsel Hn) as (_ & Hs & _).
  { now rewrite Ht. }
  rewrite Ht, Hsnap in Hs. apply app_inv_head in Hs. subst added.
  apply in_map_iff in Hin as (nm & E & Hnm). now injection E as -> _.
Qed.

(* the same on the secondary's side: fed with the line the primary queued, it registers only named
   databases *)
Corollary snapshot_named_not_selected_secondary p c line reclaim names dbn s cs qline added b :
  s_auth (get_sess p c) = true ->
  parse_request (trim_char nl line) = POk (RqSnapshot reclaim names) ->
  sel_ok p c -> names <> [] -> all_dbs p names -> Forall snap_tok names -> (n_clock p < 2 ^ 64)%N ->
  s_db (get_sess p c) = Some dbn ->
  s_auth (get_sess s cs) = true -> sel_ok s cs -> all_dbs s names ->
  n_repl (fst (step p c line)) = n_repl p ++ [qline] ->
  n_snap (fst (step s cs qline)) = n_snap s ++ added ->
  In (dbn, b) added -> In dbn names.
Proof.
  intros Ha Hp Hsel Hne Hall Htok Hclk Hdb Has Hsels Halls Hq Hsnap Hin.
  assert (Hn : names = [] -> s_db (get_sess p c) <> None) by (intros E; congruence).
  assert (Ht : snap_targets (s_db (get_sess p c)) names = names) by (destruct names; [congruence|reflexivity]).
  destruct (snapshot_replicas_agree p c line reclaim names s cs Ha Hp Hsel Hn) as (q & ad & H1 & H2 & H3 & H4 & H5 & _);
    try (rewrite Ht; assumption); try assumption.
  rewrite Ht in *. rewrite Hq in H1. apply app_inv_head in H1. injection H1 as <-.
  rewrite Hsnap in H3. apply app_inv_head in H3. subst.
  apply in_map_iff in Hin as (nm & E & Hnm). now injection E as -> _.
Qed.

(* ================================================================== *)
(* Part D.  Refusals                                                    *)
(* ================================================================== *)

Lemma missing_in n names nm : In nm names -> has_db n nm = false ->
  In nm (filter (fun nm => match get_db n nm with Some _ => false | None => true end) names).
Proof.
  intros Hin Hd. apply filter_In. split; [exact Hin|]. unfold has_db in Hd.
  destruct (get_db n nm); [discriminate|reflexivity].
Qed.

(* (5) a named database that does not exist: error reply, the node is left exactly as it was
   (so [n_snap] is unchanged and nothing is queued), whoever asks *)
Theorem snapshot_missing_db_refused p c line reclaim names nm :
  parse_request (trim_char nl line) = POk (RqSnapshot reclaim names) ->
  In nm names -> has_db p nm = false ->
  exists msg, step p c line = (p, RError msg).
Proof.
  intros Hp Hin Hd. unfold step.
  rewrite (process_plain _ _ _ _ _ Hp) by discriminate.
  unfold handle. destruct (s_auth (get_sess p c)); cbn [negb].
  2:{ eexists. reflexivity. }
  pose proof (missing_in p names nm Hin Hd) as Hm.
  destruct names as [|x l]; [destruct Hin|].
  destruct (filter _ (x :: l)) as [|m [|m2 r]]; [destruct Hm| |]; eexists; reflexivity.
Qed.

Corollary snapshot_missing_db_nothing_queued p c line reclaim names nm :
  parse_request (trim_char nl line) = POk (RqSnapshot reclaim names) ->
  In nm names -> has_db p nm = false ->
  n_snap (fst (step p c line)) = n_snap p /\ n_repl (fst (step p c line)) = n_repl p /\
  n_dbs (fst (step p c line)) = n_dbs p.
Proof.
  intros Hp Hin Hd. destruct (snapshot_missing_db_refused p c line reclaim names nm Hp Hin Hd) as [msg ->].
  repeat split; reflexivity.
Qed.

(* no name and no selected database: refused, node unchanged *)
Theorem snapshot_nothing_selected_refused p c line reclaim :
  parse_request (trim_char nl line) = POk (RqSnapshot reclaim []) ->
  s_db (get_sess p c) = None ->
  exists msg, step p c line = (p, RError msg).
Proof.
  intros Hp Hd. unfold step.
  rewrite (process_plain _ _ _ _ _ Hp) by discriminate.
  unfold handle. rewrite Hd. destruct (s_auth (get_sess p c)); cbn [negb]; eexists; reflexivity.
Qed.

(* no name and the selected database does not exist (never the case in a run, sel_exists):
   nothing registered, nothing queued *)
Theorem snapshot_selected_missing_refused p c line reclaim dbn :
  parse_request (trim_char nl line) = POk (RqSnapshot reclaim []) ->
  s_db (get_sess p c) = Some dbn -> has_db p dbn = false ->
  exists msg, step p c line = (p, RError msg).
Proof.
  intros Hp Hd Hh. unfold step.
  rewrite (process_plain _ _ _ _ _ Hp) by discriminate.
  unfold handle. rewrite Hd. destruct (s_auth (get_sess p c)); cbn [negb]; [|eexists; reflexivity].
  unfold has_db in Hh. destruct (get_db p dbn) eqn:E; [discriminate|].
  unfold replicate_request, has_db. rewrite E. cbn [negb]. eexists; reflexivity.
Qed.

(* ================================================================== *)
(* Part E.  The client's line                                           *)
(* ================================================================== *)

(* the text a client sends: `snapshot <true|false> <names joined by |>` *)
Definition snapshot_line (reclaim : bool) (names : list str) : str :=
  "snapshot " +++ (if reclaim then "true" else "false") +++ " " +++ join "|" names.

Lemma parse_cmd_snapshot args : parse_cmd "snapshot" args =
  Some (POk (RqSnapshot (String.eqb (match hd_opt args with Some r => r | None => "false" end) "true")
                        (filter (fun s => negb (String.eqb s "")) (split_char "|" (or_empty (hd_opt (tl args))))))).
Proof. reflexivity. Qed.

Lemma join_bar_semi names : Forall no_semi_end names -> no_semi_end (join "|" names).
Proof.
  intros H. induction H as [|x l Hx Hl IH]; [intros E; discriminate E|].
  destruct l as [|y r]; [exact Hx|].
  change (join "|" (x :: y :: r)) with (x +++ String "|" (join "|" (y :: r))).
  apply no_semi_end_app; [discriminate|].
  unfold no_semi_end in *. cbn [last_char]. destruct (last_char (join "|" (y :: r))); [exact IH|discriminate].
Qed.

Lemma filter_nonempty names : Forall (fun s => s <> "") names ->
  filter (fun s => negb (String.eqb s "")) names = names.
Proof.
  intros H. induction H as [|x l Hx Hl IH]; [reflexivity|].
  cbn [filter]. rewrite eqb_nonempty by exact Hx. cbn [negb]. now rewrite IH.
Qed.

(* a client line naming databases parses to the request with exactly those names *)
Theorem snapshot_client_line_parse (reclaim : bool) (names : list str) :
  names <> [] -> Forall simple_tok names -> Forall (fun s => nochar "|" s = true) names ->
  parse_request (trim_char nl (snapshot_line reclaim names)) = POk (RqSnapshot reclaim names).
Proof.
  intros Hne Ht Hb.
  assert (Hst : Forall snap_tok names).
  { apply Forall_forall. intros s Hs. apply simple_tok_snap_tok.
    - exact (proj1 (Forall_forall _ _) Ht s Hs).
    - exact (proj1 (Forall_forall _ _) Hb s Hs). }
  assert (Hl : last_char (join "|" names) <> Some nl) by (apply last_char_nochar; now apply snap_toks_nl).
  unfold snapshot_line.
  change ("snapshot " +++ (if reclaim then "true" else "false") +++ " " +++ join "|" names)
    with (String "s" "napshot " +++ ((if reclaim then "true" else "false") +++ " " +++ join "|" names)).
  rewrite trim_nl_line; try reflexivity.
  2:{ destruct reclaim; discriminate. }
  2:{ rewrite last_char_app_ne by discriminate.
      change (" " +++ join "|" names) with (String " " (join "|" names)). cbn [last_char].
      destruct (last_char (join "|" names)); [exact Hl|discriminate]. }
  change (String "s" "napshot " +++ ((if reclaim then "true" else "false") +++ " " +++ join "|" names))
    with ("snapshot" +++ " " +++ (if reclaim then "true" else "false") +++ " " +++ join "|" names).
  rewrite parse_request_3; try reflexivity; try discriminate.
  2:{ destruct reclaim; reflexivity. }
  2:{ repeat (rewrite <- app_assoc_s); rewrite app_assoc_s. apply no_semi_end_sep, join_bar_semi.
      eapply Forall_impl; [|exact Ht]. intros s. apply tok_semi. }
  rewrite parse_cmd_snapshot. cbn [hd_opt tl or_empty].
  rewrite split_char_join by assumption.
  rewrite filter_nonempty by (eapply Forall_impl; [|exact Ht]; intros s; apply tok_ne).
  destruct reclaim; reflexivity.
Qed.

(* text-level form of (4): the client's line on the primary, the queued line on the secondary *)
Corollary snapshot_replicas_agree_text p c reclaim names s cs :
  names <> [] -> Forall simple_tok names -> Forall (fun s => nochar "|" s = true) names ->
  s_auth (get_sess p c) = true -> sel_ok p c -> all_dbs p names -> (n_clock p < 2 ^ 64)%N ->
  s_auth (get_sess s cs) = true -> sel_ok s cs -> all_dbs s names ->
  let p' := fst (step p c (snapshot_line reclaim names)) in
  let qline := rp_line (n_clock p) (snap_req names reclaim) in
  let s' := fst (step s cs qline) in
  n_repl p' = n_repl p ++ [qline] /\
  n_snap p' = n_snap p ++ map (fun nm => (nm, reclaim)) names /\
  n_snap s' = n_snap s ++ map (fun nm => (nm, reclaim)) names /\
  n_dbs p' = n_dbs p /\ n_dbs s' = n_dbs s.
Proof.
  intros Hne Ht Hb Ha Hsel Hall Hclk Has Hsels Halls.
  assert (Hst : Forall snap_tok names).
  { apply Forall_forall. intros x Hx. apply simple_tok_snap_tok.
    - exact (proj1 (Forall_forall _ _) Ht x Hx).
    - exact (proj1 (Forall_forall _ _) Hb x Hx). }
  assert (Hn : names = [] -> s_db (get_sess p c) <> None) by (intros E; congruence).
  assert (E : snap_targets (s_db (get_sess p c)) names = names) by (destruct names; [congruence|reflexivity]).
  destruct (snapshot_replicas_agree p c (snapshot_line reclaim names) reclaim names s cs Ha
              (snapshot_client_line_parse reclaim names Hne Ht Hb) Hsel Hn)
    as (q & ad & H1 & H2 & H3 & H4 & H5 & _ & _ & H6 & H7);
    try (rewrite E; assumption); try assumption.
  rewrite E in *. subst q ad. cbv zeta. repeat split; assumption.
Qed.

(* ================================================================== *)
(* Part F.  Examples                                                    *)
(* ================================================================== *)

Definition run_lines (n : node) (c : nat) (ls : list str) : node :=
  fold_left (fun n l => fst (step n c l)) ls n.

(* a primary: session 0 is an administrator that created d1 and e0 and selected d1;
   session 1 is the link of the secondary s1 *)
Definition ex_p : node := Eval vm_compute in
  let '(n0, c0) := connect (init_node "u" "pw" "p1" 3 Primary 10) in
  let n1 := run_lines n0 c0 ["auth u pw"; "create-db d1 tok"; "create-db e0 tok"; "use-db d1 tok"] in
  let '(n2, c1) := connect n1 in
  run_lines n2 c1 ["auth u pw"; "set-secoundary s1"].

(* a secondary: session 0 is the link from the primary (auth, set-primary), which created the same
   databases *)
Definition ex_s : node := Eval vm_compute in
  let '(n0, c0) := connect (init_node "u" "pw" "s1" 2 Secondary 10) in
  run_lines n0 c0 ["auth u pw"; "set-primary p1"; "create-db d1 tok"; "create-db e0 tok"].

(* (6) `snapshot false e0` while d1 is selected: the queued line names e0, and the secondary fed
   with it registers e0 *)
Example snapshot_replicas_example :
  s_db (get_sess ex_p 0) = Some "d1" /\ is_primary ex_p = true /\ n_snap ex_p = [] /\ n_snap ex_s = [] /\
  let rp := step ex_p 0 "snapshot false e0" in
  snd rp = ROk /\
  n_snap (fst rp) = [("e0", false)] /\
  n_repl (fst rp) = n_repl ex_p ++ ["rp 19 replicate-snapshot e0 false"] /\
  let rs := step ex_s 0 "rp 19 replicate-snapshot e0 false" in
  snd rs = ROk /\ n_snap (fst rs) = [("e0", false)] /\ n_dbs (fst rs) = n_dbs ex_s.
Proof. vm_compute. repeat split; reflexivity. Qed.

(* without a name the selected database is the one registered and replicated *)
Example snapshot_selected_example :
  let rp := step ex_p 0 "snapshot true" in
  snd rp = ROk /\ n_snap (fst rp) = [("d1", true)] /\
  n_repl (fst rp) = n_repl ex_p ++ ["rp 19 replicate-snapshot d1 true"] /\
  let rs := step ex_s 0 "rp 19 replicate-snapshot d1 true" in
  snd rs = ROk /\ n_snap (fst rs) = [("d1", true)].
Proof. vm_compute. repeat split; reflexivity. Qed.

Example snapshot_two_names_example :
  let rp := step ex_p 0 "snapshot true e0|d1" in
  snd rp = ROk /\ n_snap (fst rp) = [("e0", true); ("d1", true)] /\
  n_repl (fst rp) = n_repl ex_p ++ ["rp 19 replicate-snapshot e0|d1 true"] /\
  let rs := step ex_s 0 "rp 19 replicate-snapshot e0|d1 true" in
  snd rs = ROk /\ n_snap (fst rs) = [("e0", true); ("d1", true)].
Proof. vm_compute. repeat split; reflexivity. Qed.

Example snapshot_missing_example :
  step ex_p 0 "snapshot true e0|zz" = (ex_p, RError "zz is not a valid database name").
Proof. vm_compute. reflexivity. Qed.

Ltac stok := split; [reflexivity|split; reflexivity].

(* the hypotheses of (4) are satisfiable: they hold of ex_p / ex_s *)
Example snapshot_replicas_hyps_satisfiable :
  s_auth (get_sess ex_p 0) = true /\
  parse_request (trim_char nl "snapshot false e0") = POk (RqSnapshot false ["e0"]) /\
  sel_ok ex_p 0 /\ (["e0"] = [] -> s_db (get_sess ex_p 0) <> None) /\
  snap_targets (s_db (get_sess ex_p 0)) ["e0"] = ["e0"] /\
  all_dbs ex_p ["e0"] /\ Forall snap_tok ["e0"] /\ (n_clock ex_p < 2 ^ 64)%N /\
  s_auth (get_sess ex_s 0) = true /\ sel_ok ex_s 0 /\ all_dbs ex_s ["e0"].
Proof.
  split; [reflexivity|]. split; [vm_compute; reflexivity|]. split; [vm_compute; reflexivity|].
  split; [discriminate|]. split; [reflexivity|]. split; [repeat constructor|].
  split; [constructor; [stok|constructor]|]. split; [reflexivity|].
  split; [reflexivity|]. split; [exact I|repeat constructor].
Qed.

(* ... and the theorem instantiated there *)
Example snapshot_replicas_instance :
  exists qline added,
    n_repl (fst (step ex_p 0 "snapshot false e0")) = n_repl ex_p ++ [qline] /\
    n_snap (fst (step ex_p 0 "snapshot false e0")) = n_snap ex_p ++ added /\
    n_snap (fst (step ex_s 0 qline)) = n_snap ex_s ++ added /\
    added = [("e0", false)] /\ qline = "rp 19 replicate-snapshot e0 false".
Proof.
  destruct snapshot_replicas_hyps_satisfiable as (H1 & H2 & H3 & H4 & H5 & H6 & H7 & H8 & H9 & H10 & H11).
  destruct (snapshot_replicas_agree ex_p 0 "snapshot false e0" false ["e0"] ex_s 0 H1 H2 H3 H4)
    as (q & ad & A1 & A2 & A3 & A4 & A5 & _); try (rewrite H5); try assumption.
  exists q, ad. rewrite H5 in *. repeat split; try assumption.
Qed.

(* ---- why the side conditions are there ----------------------------------- *)

(* [sel_ok]: a session whose selection names no database (never the case in a run, see
   ConnProofs.sel_exists / conn_init / ConnInv) gets the names registered, an error reply, and
   nothing queued *)
Definition ex_ghost : node := n_set_sess ex_p [mkSess true (Some "ghost") None None []].
Example snapshot_needs_sel_ok :
  let r := step ex_ghost 0 "snapshot false e0" in
  snd r = RError "Database ghost not found" /\ n_snap (fst r) = [("e0", false)] /\ n_repl (fst r) = n_repl ex_ghost.
Proof. vm_compute. repeat split; reflexivity. Qed.

(* '|' in a name: the joined text splits differently *)
Example roundtrip_needs_no_bar :
  parse_request (snap_req ["a|b"] false) = POk (RqReplicateSnapshot false ["a"; "b"]).
Proof. vm_compute. reflexivity. Qed.
Example roundtrip_needs_no_sp :
  parse_request (snap_req ["a b"] false) = POk (RqReplicateSnapshot false ["a"]).
Proof. vm_compute. reflexivity. Qed.
Example roundtrip_needs_names :
  parse_request (snap_req [] false) = POk (RqReplicateSnapshot false [""]).
Proof. vm_compute. reflexivity. Qed.

(* a database whose name contains '|' CAN be created and selected; `snapshot` without a name then
   registers it on the primary, but the queued line is read by the secondary as two names, neither
   of which exists: the secondary registers nothing.  (Replicas diverge for such a name.) *)
Definition ex_pb : node := Eval vm_compute in
  let '(n0, c0) := connect (init_node "u" "pw" "p1" 3 Primary 10) in
  run_lines n0 c0 ["auth u pw"; "create-db a|b tok"; "use-db a|b tok"].
Definition ex_sb : node := Eval vm_compute in
  let '(n0, c0) := connect (init_node "u" "pw" "s1" 2 Secondary 10) in
  run_lines n0 c0 ["auth u pw"; "set-primary p1"; "create-db a|b tok"].
Example snapshot_bar_name_diverges :
  has_db ex_pb "a|b" = true /\ has_db ex_sb "a|b" = true /\
  let rp := step ex_pb 0 "snapshot true" in
  snd rp = ROk /\ n_snap (fst rp) = [("a|b", true)] /\
  n_repl (fst rp) = n_repl ex_pb ++ ["rp 16 replicate-snapshot a|b true"] /\
  let rs := step ex_sb 0 "rp 16 replicate-snapshot a|b true" in
  snd rs = RError "Error trying to snapshot database: Database b not found" /\ n_snap (fst rs) = [].
Proof. vm_compute. repeat split; reflexivity. Qed.

(* ================================================================== *)
Check snapshot_line_roundtrip.
Print Assumptions snapshot_line_roundtrip.
Check snapshot_rp_line_roundtrip.
Print Assumptions snapshot_rp_line_roundtrip.
Check snapshot_primary_registers.
Print Assumptions snapshot_primary_registers.
Check snapshot_secondary_registers.
Print Assumptions snapshot_secondary_registers.
Check snapshot_replicas_agree.
Print Assumptions snapshot_replicas_agree.
Check snapshot_named_not_selected.
Print Assumptions snapshot_named_not_selected.
Check snapshot_named_not_selected_secondary.
Print Assumptions snapshot_named_not_selected_secondary.
Check snapshot_missing_db_refused.
Print Assumptions snapshot_missing_db_refused.
Check snapshot_client_line_parse.
Print Assumptions snapshot_client_line_parse.
Check snapshot_replicas_agree_text.
Print Assumptions snapshot_replicas_agree_text.
Check snapshot_replicas_example.
Print Assumptions snapshot_replicas_example.
Check snapshot_replicas_instance.
Print Assumptions snapshot_replicas_instance.
