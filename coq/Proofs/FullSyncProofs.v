(* FullSyncProofs.v -- property C05: a node joining with an empty disk is brought up to date.
   Cluster.full_sync_lines = what a primary answers to `replicate-since <node> 0`:
   coverage (no key silently skipped), block structure, exactness, the token line,
   and the joiner processing one database's block. *)
From NunDB Require Import Model.Base Model.Pending Model.Parse Model.Node Model.Oplog Model.Cluster.
From NunDB Require Import Proofs.AssocLemmas Proofs.DbProofs Proofs.ClusterProofs Proofs.ConvergeProofs.
Local Open Scope Z_scope.

(* ================================================================== *)
(* 0. the shape of full_sync_lines                                      *)
(* ================================================================== *)

Definition sync_line (dbn k val : str) : str := "replicate " +++ dbn +++ " " +++ k +++ " " +++ val.

Definition skipped_key (k : str) : bool := String.eqb k "$$token" || String.eqb k "$connections".

(* the replicate lines of one database, in d_map order *)
Definition entry_lines (dbn : str) (m : list (str * value)) : list str :=
  flat_map (fun e => if skipped_key (fst e) then [] else [sync_line dbn (fst e) (v_val (snd e))]) m.

Definition snapshot_line (dbn : str) : str := "replicate-snapshot " +++ dbn.

Definition db_block (n : node) (dbn : str) (d : db) : list str :=
  [create_db_line n dbn] ++ entry_lines dbn (d_map d) ++ [snapshot_line dbn].

Definition dbs_lines (n : node) (l : list (str * db)) : list str :=
  flat_map (fun kv => if String.eqb (fst kv) "$admin" then [] else db_block n (fst kv) (snd kv)) l.

Lemma full_sync_lines_eq n : full_sync_lines n = dbs_lines n (n_dbs n).
Proof.
  unfold full_sync_lines, dbs_lines. apply flat_map_ext. intros [dbn d]. cbn [fst snd].
  destruct (String.eqb dbn "$admin"); [reflexivity|].
  unfold db_block, entry_lines, snapshot_line. do 2 f_equal.
  apply flat_map_ext. intros [k v]. reflexivity.
Qed.

Lemma skipped_key_false k : k <> "$$token" -> k <> "$connections" -> skipped_key k = false.
Proof.
  intros H1 H2. unfold skipped_key.
  destruct (String.eqb_spec k "$$token"); [contradiction|].
  destruct (String.eqb_spec k "$connections"); [contradiction|reflexivity].
Qed.

Lemma skipped_key_true k : skipped_key k = true -> k = "$$token" \/ k = "$connections".
Proof.
  unfold skipped_key. destruct (String.eqb_spec k "$$token"); auto.
  destruct (String.eqb_spec k "$connections"); auto. discriminate.
Qed.

Lemma in_entry_lines dbn m l :
  In l (entry_lines dbn m) <->
  exists k v, In (k, v) m /\ k <> "$$token" /\ k <> "$connections" /\ l = sync_line dbn k (v_val v).
Proof.
  unfold entry_lines. rewrite in_flat_map. split.
  - intros ([k v] & Hin & Hl). cbn [fst snd] in Hl.
    destruct (skipped_key k) eqn:E; [destruct Hl|].
    destruct Hl as [<-|[]]. exists k, v. repeat split; auto.
    + intros ->. discriminate E.
    + intros ->. discriminate E.
  - intros (k & v & Hin & H1 & H2 & ->). exists (k, v). split; auto. cbn [fst snd].
    rewrite skipped_key_false by assumption. now left.
Qed.

(* ================================================================== *)
(* 1. coverage                                                          *)
(* ================================================================== *)

Theorem full_sync_covers n dbn d k v :
  In (dbn, d) (n_dbs n) -> dbn <> "$admin" -> In (k, v) (d_map d) ->
  k <> "$$token" -> k <> "$connections" ->
  In ("replicate " +++ dbn +++ " " +++ k +++ " " +++ v_val v) (full_sync_lines n).
Proof.
  intros Hd Hadm Hk H1 H2. rewrite full_sync_lines_eq. unfold dbs_lines.
  apply in_flat_map. exists (dbn, d). split; auto. cbn [fst snd].
  destruct (String.eqb_spec dbn "$admin"); [contradiction|].
  unfold db_block. apply in_or_app. right. apply in_or_app. left.
  apply in_entry_lines. exists k, v. auto.
Qed.

(* keys of the security name space ("$$...") other than the token are sent *)
Corollary full_sync_covers_secure_keys n dbn d k v :
  In (dbn, d) (n_dbs n) -> dbn <> "$admin" -> In (k, v) (d_map d) ->
  starts_with k "$$" = true -> k <> "$$token" ->
  In ("replicate " +++ dbn +++ " " +++ k +++ " " +++ v_val v) (full_sync_lines n).
Proof.
  intros Hd Hadm Hk Hs Ht. apply full_sync_covers with (d := d); auto.
  intros ->. discriminate Hs.
Qed.

Corollary full_sync_covers_user n dbn d u v :
  In (dbn, d) (n_dbs n) -> dbn <> "$admin" -> In ("$$user_" +++ u, v) (d_map d) ->
  In ("replicate " +++ dbn +++ " " +++ ("$$user_" +++ u) +++ " " +++ v_val v) (full_sync_lines n).
Proof.
  intros Hd Hadm Hk. apply full_sync_covers_secure_keys with (d := d); auto. discriminate.
Qed.

Corollary full_sync_covers_permission n dbn d u v :
  In (dbn, d) (n_dbs n) -> dbn <> "$admin" -> In ("$$permission_$" +++ u, v) (d_map d) ->
  In ("replicate " +++ dbn +++ " " +++ ("$$permission_$" +++ u) +++ " " +++ v_val v) (full_sync_lines n).
Proof.
  intros Hd Hadm Hk. apply full_sync_covers_secure_keys with (d := d); auto. discriminate.
Qed.

(* ================================================================== *)
(* 2. block structure                                                   *)
(* ================================================================== *)

Lemma dbs_lines_app n l1 l2 : dbs_lines n (l1 ++ l2) = dbs_lines n l1 ++ dbs_lines n l2.
Proof. unfold dbs_lines. apply flat_map_app. Qed.

(* positional form: the lines before are those of the databases before, etc. *)
Theorem full_sync_db_block_pos n dbn d l1 l2 :
  n_dbs n = l1 ++ (dbn, d) :: l2 -> dbn <> "$admin" ->
  full_sync_lines n =
    dbs_lines n l1 ++
    [create_db_line n dbn] ++ entry_lines dbn (d_map d) ++ ["replicate-snapshot " +++ dbn] ++
    dbs_lines n l2.
Proof.
  intros Hs Hadm. rewrite full_sync_lines_eq, Hs, dbs_lines_app. f_equal.
  change ((dbn, d) :: l2) with ([(dbn, d)] ++ l2). rewrite dbs_lines_app.
  unfold dbs_lines at 1. cbn [flat_map fst snd].
  destruct (String.eqb_spec dbn "$admin"); [contradiction|].
  rewrite app_nil_r. unfold db_block, snapshot_line. rewrite <- !app_assoc. reflexivity.
Qed.

Theorem full_sync_db_block n dbn d :
  In (dbn, d) (n_dbs n) -> dbn <> "$admin" ->
  exists pre post,
    full_sync_lines n =
      pre ++ [create_db_line n dbn] ++ entry_lines dbn (d_map d) ++ ["replicate-snapshot " +++ dbn] ++ post.
Proof.
  intros Hin Hadm. destruct (in_split _ _ Hin) as (l1 & l2 & Hs).
  exists (dbs_lines n l1), (dbs_lines n l2). now apply full_sync_db_block_pos.
Qed.

(* the replicate lines of the block: one per entry kept, in d_map order *)
Lemma entry_lines_map dbn m :
  entry_lines dbn m =
  map (fun e => sync_line dbn (fst e) (v_val (snd e))) (filter (fun e => negb (skipped_key (fst e))) m).
Proof.
  unfold entry_lines. induction m as [|[k v] r IH]; [reflexivity|].
  cbn [flat_map filter fst snd]. destruct (skipped_key k); cbn [negb app map]; now rewrite IH.
Qed.

(* ================================================================== *)
(* 3. exactness                                                         *)
(* ================================================================== *)

Theorem full_sync_only n l :
  In l (full_sync_lines n) ->
  exists dbn d, In (dbn, d) (n_dbs n) /\ dbn <> "$admin" /\
    (l = create_db_line n dbn \/
     (exists k v, In (k, v) (d_map d) /\ k <> "$$token" /\ k <> "$connections" /\
                  l = "replicate " +++ dbn +++ " " +++ k +++ " " +++ v_val v) \/
     l = "replicate-snapshot " +++ dbn).
Proof.
  rewrite full_sync_lines_eq. unfold dbs_lines. rewrite in_flat_map.
  intros ([dbn d] & Hin & Hl). cbn [fst snd] in Hl.
  destruct (String.eqb_spec dbn "$admin") as [|Hadm]; [destruct Hl|].
  exists dbn, d. split; auto. split; auto.
  unfold db_block in Hl. apply in_app_or in Hl as [Hl|Hl].
  - destruct Hl as [<-|[]]. now left.
  - apply in_app_or in Hl as [Hl|Hl].
    + right. left. apply in_entry_lines in Hl. exact Hl.
    + destruct Hl as [<-|[]]. right. right. reflexivity.
Qed.

(* nothing of "$admin" is sent: the answer does not depend on the "$admin" database at all
   (nor on anything of the node but its other databases) *)
Definition non_admin (l : list (str * db)) : list (str * db) :=
  filter (fun kv => negb (String.eqb (fst kv) "$admin")) l.

Lemma assoc_get_non_admin x (l : list (str * db)) : x <> "$admin" ->
  assoc_get String.eqb x (non_admin l) = assoc_get String.eqb x l.
Proof.
  intros Hx. induction l as [|[k v] r IH]; [reflexivity|].
  cbn [non_admin filter fst assoc_get]. fold (non_admin r).
  destruct (String.eqb_spec k "$admin") as [->|Hk]; cbn [negb].
  - destruct (String.eqb_spec x "$admin"); [contradiction|exact IH].
  - cbn [assoc_get]. now rewrite IH.
Qed.

Lemma dbs_lines_ext n n' l :
  (forall x, x <> "$admin" -> get_db n x = get_db n' x) -> dbs_lines n l = dbs_lines n' l.
Proof.
  intros H. unfold dbs_lines. apply flat_map_ext. intros [dbn d]. cbn [fst snd].
  destruct (String.eqb_spec dbn "$admin"); [reflexivity|].
  unfold db_block, create_db_line. now rewrite H.
Qed.

Lemma dbs_lines_non_admin n l : dbs_lines n (non_admin l) = dbs_lines n l.
Proof.
  induction l as [|[k v] r IH]; [reflexivity|].
  cbn [non_admin filter fst]. fold (non_admin r).
  change ((k, v) :: r) with ([(k, v)] ++ r). rewrite dbs_lines_app, <- IH.
  destruct (String.eqb_spec k "$admin") as [->|Hk]; cbn [negb].
  - reflexivity.
  - change ((k, v) :: non_admin r) with ([(k, v)] ++ non_admin r). now rewrite dbs_lines_app.
Qed.

Theorem full_sync_no_admin n n' :
  non_admin (n_dbs n) = non_admin (n_dbs n') -> full_sync_lines n = full_sync_lines n'.
Proof.
  intros H. rewrite !full_sync_lines_eq.
  rewrite <- (dbs_lines_non_admin n), <- (dbs_lines_non_admin n'), H.
  apply dbs_lines_ext. intros x Hx. unfold get_db.
  rewrite <- (assoc_get_non_admin x (n_dbs n)), <- (assoc_get_non_admin x (n_dbs n')) by assumption.
  now rewrite H.
Qed.

(* and no line belongs to a database called "$admin" *)
Corollary full_sync_no_admin_line n l :
  In l (full_sync_lines n) ->
  exists dbn, dbn <> "$admin" /\
    (l = create_db_line n dbn \/ (exists k val, l = sync_line dbn k val) \/ l = snapshot_line dbn).
Proof.
  intros H. destruct (full_sync_only n l H) as (dbn & d & _ & Hadm & [->|[(k & v & _ & _ & _ & ->)| ->]]);
    exists dbn; split; auto.
  right. left. exists k, (v_val v). reflexivity.
Qed.

(* ================================================================== *)
(* 4. the token line                                                    *)
(* ================================================================== *)

Theorem full_sync_token_line n dbn d v :
  get_db n dbn = Some d -> get_value d "$$token" = Some v ->
  create_db_line n dbn = "create-db " +++ dbn +++ " " +++ v_val v.
Proof.
  intros Hd Hv. unfold create_db_line, get_key_value_new. now rewrite Hd, Hv.
Qed.

(* with unique database names the entry of the list is the one looked up *)
Corollary full_sync_token_line_in n dbn d v :
  NoDup (map fst (n_dbs n)) -> In (dbn, d) (n_dbs n) -> get_value d "$$token" = Some v ->
  create_db_line n dbn = "create-db " +++ dbn +++ " " +++ v_val v.
Proof.
  intros Hnd Hin Hv. apply full_sync_token_line with (d := d); auto.
  unfold get_db. apply in_get; auto.
Qed.

(* a database without token entry is announced with the text "<Empty>" *)
Lemma create_db_line_no_token n dbn d :
  get_db n dbn = Some d -> get_value d "$$token" = None ->
  create_db_line n dbn = "create-db " +++ dbn +++ " <Empty>".
Proof. intros Hd Hv. unfold create_db_line, get_key_value_new. now rewrite Hd, Hv. Qed.

(* ================================================================== *)
(* 6. a concrete primary                                                *)
(* ================================================================== *)

Definition run (n : node) (c : nat) (ls : list str) : node := fold_left (fun n l => fst (step n c l)) ls n.

Definition example_primary : node :=
  let '(n0, c) := connect (init_node "u" "p" "127.0.0.1:3016" 1 Primary 100) in
  run n0 c ["auth u p"; "create-db d1 tok1"; "use-db d1 tok1"; "set a 1";
            "create-user bob pw"; "set-permissions bob rw a"].

Example full_sync_example :
  map (fun kv => (fst kv, map fst (d_map (snd kv)))) (n_dbs example_primary) =
    [("$admin", ["$$token"; "$admin"; "d1"]);
     ("d1", ["$$token"; "$connections"; "a"; "$$user_bob"; "$$permission_$bob"])] /\
  full_sync_lines example_primary =
    ["create-db d1 tok1";
     "replicate d1 a 1";
     "replicate d1 $$user_bob pw";
     "replicate d1 $$permission_$bob rw a";
     "replicate-snapshot d1"].
Proof. vm_compute. split; reflexivity. Qed.

(* ================================================================== *)
(* 5. the joiner                                                        *)
(* ================================================================== *)

(* ---- lexical: the key of a catch-up line survives whatever the value is ---- *)
Lemma drop_leading_app_keep c a x b : Ascii.eqb x c = false ->
  exists a', drop_leading c (a +++ String x b) = a' +++ String x b.
Proof.
  intros Hx. induction a as [|y a IH]; cbn [append drop_leading].
  - rewrite Hx. exists "". reflexivity.
  - destruct (Ascii.eqb y c); [exact IH|]. exists (String y a). reflexivity.
Qed.

Lemma trim_end_keep c P v : last_char P <> Some c -> P <> "" ->
  exists v', trim_end_char c (P +++ v) = P +++ v'.
Proof.
  intros Hl Hne. unfold trim_end_char. rewrite str_rev_app.
  rewrite last_char_rev in Hl. destruct (str_rev P) as [|x b] eqn:E.
  - exfalso. apply Hne. rewrite <- (str_rev_invol P), E. reflexivity.
  - assert (Hx : Ascii.eqb x c = false).
    { destruct (Ascii.eqb_spec x c); auto. subst. congruence. }
    destruct (drop_leading_app_keep c (str_rev v) x b Hx) as (a' & ->).
    rewrite str_rev_app, <- E, str_rev_invol. eauto.
Qed.

Lemma parse_sync_line_key dbn k val : no_sp dbn -> no_sp k -> no_nl k ->
  exists value ver,
    parse_request (trim_char nl (sync_line dbn k val)) = POk (RqReplicateSet dbn k value ver).
Proof.
  intros Hd Hk Hkn. unfold sync_line.
  set (P := "replicate " +++ dbn +++ " " +++ k +++ " ").
  replace ("replicate " +++ dbn +++ " " +++ k +++ " " +++ val) with (P +++ val)
    by (unfold P; now rewrite !app_assoc_s).
  assert (HPl : last_char P = Some " "%char).
  { unfold P. replace ("replicate " +++ dbn +++ " " +++ k +++ " ") with (("replicate " +++ dbn +++ " " +++ k) +++ " ")
      by (now rewrite !app_assoc_s).
    rewrite last_char_app_ne by discriminate. reflexivity. }
  assert (HPne : P <> "") by (unfold P; discriminate).
  unfold trim_char.
  assert (Hdl : forall w, drop_leading nl (P +++ w) = P +++ w) by (intros w; unfold P; reflexivity).
  rewrite Hdl.
  destruct (trim_end_keep nl P val) as (v1 & ->); [rewrite HPl; discriminate|assumption|].
  unfold parse_request.
  destruct (trim_end_keep ";"%char P v1) as (v2 & ->); [rewrite HPl; discriminate|assumption|].
  replace (P +++ v2) with ("replicate" +++ " " +++ dbn +++ " " +++ (k +++ " " +++ v2))
    by (unfold P; rewrite !app_assoc_s; reflexivity).
  rewrite splitn_sp_cons, splitn_sp_cons, splitn_sp_last by (assumption || reflexivity).
  change (String.eqb "replicate" "") with false. cbv iota.
  rewrite parse_cmd_replicate. cbn [hd_opt tl or_empty]. cbv zeta.
  rewrite splitn_sp_cons by assumption. cbn [hd_opt tl or_empty].
  rewrite (strip_nl_noop k) by assumption. eauto.
Qed.

(* ---- node-level facts ------------------------------------------------------ *)
Lemma get_db_put_other' n x d y : y <> x -> get_db (put_db n x d) y = get_db n y.
Proof. intros H. unfold get_db, put_db. cbn [n_dbs n_set_dbs]. apply get_set_other; auto. apply String.eqb_spec. Qed.

Lemma sattr_auth a b : sattr a = sattr b -> s_auth a = s_auth b.
Proof. unfold sattr. congruence. Qed.

Lemma rr_keeps n rq sd r :
  n_dbs (fst (replicate_request n rq sd r)) = n_dbs n /\
  forall c, get_sess (fst (replicate_request n rq sd r)) c = get_sess n c.
Proof.
  unfold replicate_request.
  destruct r; try (split; reflexivity);
  (destruct (match sd with Some nm => negb (has_db n nm) | None => false end); [split; reflexivity|]);
  destruct rq; cbn [fst]; try (split; reflexivity);
  (split; [apply n_dbs_replicate_web | intros; apply get_sess_replicate_web]).
Qed.

Lemma set_value_strat d ch : d_strat (fst (fst (set_value d ch))) = d_strat d.
Proof. unfold set_value. destruct (get_value d (c_key ch)); [destruct (_ && _)|]; reflexivity. Qed.

Lemma set_value_key_present d ch : get_value (fst (fst (set_value d ch))) (c_key ch) <> None.
Proof.
  unfold set_value. destruct (get_value d (c_key ch)) eqn:E; [destruct (_ && _)|]; cbn [fst];
    rewrite ?gv_put_same; congruence.
Qed.

Lemma handle_rset_frame n c dbn k v ver d :
  s_auth (get_sess n c) = true -> get_db n dbn = Some d -> d_strat d = SNone ->
  frame n (fst (handle n c (RqReplicateSet dbn k v ver))).
Proof.
  intros Ha Hdb Hs.
  change (handle n c (RqReplicateSet dbn k v ver)) with
    (if negb (s_auth (get_sess n c)) then (n, not_auth) else
     match get_db n dbn with
     | Some _ => set_key_value n dbn k v ver
     | None => (n, RError "Not a valid database name")
     end).
  rewrite Ha, Hdb. cbn [negb]. unfold set_key_value, tick.
  rewrite (apply_change_none (n_set_clock n (n_clock n + 1)%N) dbn d _ Hdb Hs).
  cbn [fst]. eapply frame_trans; [apply frame_set_clock|].
  destruct (resp_ok _); [|apply frame_refl].
  eapply frame_trans; [apply frame_put_db|apply frame_sends].
Qed.

(* ---- the invariant of the joiner while it reads one database's block ---------- *)
Definition joined (j : node) (cs : nat) (dbn t : str) (K : list str) : Prop :=
  s_auth (get_sess j cs) = true /\
  exists dj, get_db j dbn = Some dj /\ d_strat dj = SNone /\
    (exists tv, get_value dj "$$token" = Some tv /\ v_val tv = t) /\
    forall k, In k K -> get_value dj k <> None.

Lemma joined_weaken j cs dbn t K K' : joined j cs dbn t K -> incl K' K -> joined j cs dbn t K'.
Proof.
  intros (Ha & dj & Hdb & Hs & Ht & HK) Hi. split; auto. exists dj. repeat split; auto.
Qed.

(* one line that parses to a replicated set of key k *)
Lemma joiner_rset_step j cs dbn t K line k value ver :
  joined j cs dbn t K ->
  parse_request (trim_char nl line) = POk (RqReplicateSet dbn k value ver) -> k <> "$$token" ->
  joined (fst (step j cs line)) cs dbn t (k :: K) /\
  forall dj, get_db j dbn = Some dj ->
    get_db (fst (step j cs line)) dbn =
    Some (fst (fst (set_value dj (mkCh k value ver (n_clock j) false)))).
Proof.
  intros (Ha & dj & Hdb & Hs & (tv & Htv & Htv') & HK) Hp Hkt.
  unfold step. rewrite (process_plain _ _ _ _ _ Hp) by (intros; discriminate).
  pose proof (handle_replicate_set_effect j cs dbn k value ver dj Ha Hdb Hs) as Heff.
  cbv zeta in Heff. destruct Heff as (Hupd & _).
  pose proof (handle_rset_frame j cs dbn k value ver dj Ha Hdb Hs) as Hfr.
  destruct (handle j cs (RqReplicateSet dbn k value ver)) as [n1 r]. cbn [fst] in Hupd, Hfr.
  destruct (rr_keeps n1 (RqReplicateSet dbn k value ver) (s_db (get_sess j cs)) r) as (Hd' & Hs').
  set (ch := mkCh k value ver (n_clock j) false) in *.
  assert (Hg : get_db (fst (replicate_request n1 (RqReplicateSet dbn k value ver) (s_db (get_sess j cs)) r)) dbn
               = Some (fst (fst (set_value dj ch)))).
  { apply dbs_updated_get in Hupd as (Hg & _). unfold get_db in *. now rewrite Hd'. }
  split; [split|].
  - rewrite Hs', (sattr_auth _ _ (fr_sess _ _ Hfr cs)). exact Ha.
  - exists (fst (fst (set_value dj ch))). split; [|split; [|split]].
    + exact Hg.
    + now rewrite set_value_strat.
    + exists tv. split; auto. rewrite set_value_other; auto.
    + intros k0 [<-|Hin].
      * apply (set_value_key_present dj ch).
      * destruct (string_dec k0 k) as [->|Hne]; [apply (set_value_key_present dj ch)|].
        rewrite set_value_other by exact Hne. now apply HK.
  - intros dj0 H0. rewrite Hdb in H0. injection H0 as <-. exact Hg.
Qed.

(* one `replicate <db> <key> <value>` line, whatever the value *)
Lemma joiner_replicate_step j cs dbn t K k val :
  joined j cs dbn t K -> no_sp dbn -> no_sp k -> no_nl k -> k <> "$$token" ->
  joined (fst (step j cs (sync_line dbn k val))) cs dbn t (k :: K).
Proof.
  intros Hj Hd Hk Hkn Hkt.
  destruct (parse_sync_line_key dbn k val Hd Hk Hkn) as (value & ver & Hp).
  apply (joiner_rset_step j cs dbn t K _ k value ver Hj Hp Hkt).
Qed.

(* ---- the `create-db <name> <token>` line ------------------------------------- *)
Lemma parse_create_line dbn t : simple_tok dbn -> simple_tok t ->
  parse_request (trim_char nl ("create-db " +++ dbn +++ " " +++ t)) = POk (RqCreateDb t dbn SNone).
Proof.
  intros Hd Ht.
  change ("create-db " +++ dbn +++ " " +++ t) with (String "c" "reate-db " +++ (dbn +++ " " +++ t)).
  rewrite trim_nl_line; try reflexivity.
  2:{ destruct dbn; [destruct (tok_ne _ Hd); reflexivity|discriminate]. }
  2:{ rewrite last_char_app_ne by (intros E; discriminate E).
      change (" " +++ t) with (String " " "" +++ t). rewrite last_char_app_ne by (now apply tok_ne).
      now apply tok_last_nl. }
  change (String "c" "reate-db " +++ (dbn +++ " " +++ t)) with ("create-db" +++ " " +++ dbn +++ " " +++ t).
  rewrite parse_request_3; try reflexivity; try discriminate; try (now apply tok_no_sp).
  2:{ repeat (rewrite <- app_assoc_s); rewrite app_assoc_s. apply no_semi_end_sep. now apply tok_semi. }
  rewrite parse_cmd_create_db. cbn [hd_opt tl or_empty]. cbv zeta.
  rewrite splitn_sp_end by (now apply tok_no_sp). cbn [hd_opt tl or_empty].
  rewrite strip_nl_noop by (now apply tok_no_nl). reflexivity.
Qed.

Lemma add_database_new n name d : get_db n name = None -> name <> "$admin" ->
  get_db (fst (add_database n name d)) name = Some d /\
  forall c, sattr (get_sess (fst (add_database n name d)) c) = sattr (get_sess n c).
Proof.
  intros Hn Hadm. unfold add_database. rewrite Hn. unfold tick.
  set (n2 := put_db (n_set_idmap n (assoc_set N.eqb (d_id d) name (n_idmap n))) name d).
  assert (Hg2 : get_db n2 name = Some d) by apply get_db_put_same.
  assert (Hs2 : forall c, get_sess n2 c = get_sess n c) by reflexivity.
  set (n3 := n_set_clock n2 (n_clock n2 + 1)%N).
  assert (Hg3 : get_db n3 name = Some d) by exact Hg2.
  assert (Hs3 : forall c, get_sess n3 c = get_sess n c) by exact Hs2.
  destruct (get_db n3 "$admin") as [adm|]; [|cbn [fst]; split; [exact Hg3|intros c; now rewrite Hs3]].
  destruct (set_value adm _) as [[adm' r] msgs]. cbn [fst]. split.
  - rewrite get_db_sends, get_db_put_other' by exact Hadm. exact Hg3.
  - intros c. rewrite <- Hs3.
    apply (fr_sess _ _ (frame_trans _ _ _ (frame_put_db n3 "$admin" adm') (frame_sends msgs _))).
Qed.

Lemma set_value_empty id s k v ver opp :
  set_value (empty_db id s) (mkCh k v ver opp false) =
  (put_value (empty_db id s) k (mkV v (sat_succ ver) opp VNew 0 0), RSet k v,
   notify_msgs (empty_db id s) k v (sat_succ ver)).
Proof. reflexivity. Qed.

Definition fresh_db (id clk : N) (t : str) : db :=
  put_value (empty_db id SNone) "$$token" (mkV t (sat_succ (-1)) clk VNew 0 0).

Lemma joiner_create_db j cs dbn t :
  s_auth (get_sess j cs) = true -> is_primary j || sess_is_primary (get_sess j cs) = true ->
  get_db j dbn = None -> dbn <> "$admin" -> simple_tok dbn -> simple_tok t ->
  let j' := fst (step j cs ("create-db " +++ dbn +++ " " +++ t)) in
  s_auth (get_sess j' cs) = true /\ get_db j' dbn = Some (fresh_db (next_db_id j) (n_clock j) t).
Proof.
  intros Ha Hpr Hn Hadm Hd Ht. cbv zeta.
  unfold step. rewrite (process_plain _ _ _ _ _ (parse_create_line dbn t Hd Ht)) by (intros; discriminate).
  change (handle j cs (RqCreateDb t dbn SNone)) with
    (if negb (s_auth (get_sess j cs)) then (j, not_auth) else
      if is_primary j || sess_is_primary (get_sess j cs) then
        let id := next_db_id j in
        let '(n1, tid) := tick j in
        let '(d0, _, _) := set_value (empty_db id SNone) (mkCh "$$token" t (-1) tid false) in
        let '(n2, r) := add_database n1 dbn d0 in
        match r with
        | ROk => (send n2 cs ("create-db success" +++ nlS), ROk)
        | _ => (n2, r)
        end
      else (j, RError "Create database only allow from primary!")).
  rewrite Ha, Hpr. cbn [negb]. cbv zeta. unfold tick. rewrite set_value_empty.
  set (n1 := n_set_clock j (n_clock j + 1)%N).
  set (d0 := put_value (empty_db (next_db_id j) SNone) "$$token" (mkV t (sat_succ (-1)) (n_clock j) VNew 0 0)).
  assert (Hn1 : get_db n1 dbn = None) by exact Hn.
  destruct (add_database_new n1 dbn d0 Hn1 Hadm) as (Hg & Hs).
  destruct (add_database n1 dbn d0) as [n2 r]. cbn [fst] in Hg, Hs.
  assert (Hres : exists n3 r3, (match r with
        | ROk => (send n2 cs ("create-db success" +++ nlS), ROk)
        | _ => (n2, r) end) = (n3, r3) /\ get_db n3 dbn = Some d0 /\
        s_auth (get_sess n3 cs) = true).
  { assert (Ha2 : s_auth (get_sess n2 cs) = true).
    { rewrite (sattr_auth _ _ (Hs cs)). exact Ha. }
    destruct r; try (exists n2; eexists; repeat split; eauto; fail).
    eexists; eexists; split; [reflexivity|]. split.
    - now rewrite get_db_send.
    - rewrite (sattr_auth _ _ (fr_sess _ _ (frame_send n2 cs _) cs)). exact Ha2. }
  destruct Hres as (n3 & r3 & -> & Hg3 & Ha3).
  destruct (rr_keeps n3 (RqCreateDb t dbn SNone) (s_db (get_sess j cs)) r3) as (Hd' & Hs').
  split.
  - now rewrite Hs'.
  - unfold get_db in *. now rewrite Hd'.
Qed.

Lemma joiner_create_step j cs dbn t :
  s_auth (get_sess j cs) = true -> is_primary j || sess_is_primary (get_sess j cs) = true ->
  get_db j dbn = None -> dbn <> "$admin" -> simple_tok dbn -> simple_tok t ->
  joined (fst (step j cs ("create-db " +++ dbn +++ " " +++ t))) cs dbn t [].
Proof.
  intros Ha Hpr Hn Hadm Hd Ht.
  destruct (joiner_create_db j cs dbn t Ha Hpr Hn Hadm Hd Ht) as (Ha' & Hg).
  split; [exact Ha'|]. eexists. split; [exact Hg|]. split; [reflexivity|]. split.
  - eexists. split; [apply gv_put_same|reflexivity].
  - intros k [].
Qed.

(* ---- the `replicate-snapshot <name>` line ------------------------------------- *)
Definition rsnap_step (rc : bool) (acc : node * resp) (nm : str) : node * resp :=
  let '(n0, r0) := acc in
  match get_db n0 nm with
  | Some _ => (n_set_snap n0 (n_snap n0 ++ [(nm, rc)]), r0)
  | None => (n0, RError ("Error trying to snapshot database: Database " +++ nm +++ " not found"))
  end.

Lemma rsnap_fold_keeps rc names : forall acc,
  n_dbs (fst (fold_left (rsnap_step rc) names acc)) = n_dbs (fst acc) /\
  forall c', get_sess (fst (fold_left (rsnap_step rc) names acc)) c' = get_sess (fst acc) c'.
Proof.
  induction names as [|nm r IH]; intros acc; [split; reflexivity|].
  cbn [fold_left]. destruct (IH (rsnap_step rc acc nm)) as (H1 & H2).
  rewrite H1. split.
  - destruct acc as [n0 r0]. unfold rsnap_step. destruct (get_db n0 nm); reflexivity.
  - intros c'. rewrite H2. destruct acc as [n0 r0]. unfold rsnap_step. destruct (get_db n0 nm); reflexivity.
Qed.

Lemma handle_rsnap_keeps n c rc names :
  n_dbs (fst (handle n c (RqReplicateSnapshot rc names))) = n_dbs n /\
  forall c', get_sess (fst (handle n c (RqReplicateSnapshot rc names))) c' = get_sess n c'.
Proof.
  change (handle n c (RqReplicateSnapshot rc names)) with
    (if negb (s_auth (get_sess n c)) then (n, not_auth) else
      fold_left (rsnap_step rc) names (n, ROk)).
  destruct (negb _); [split; reflexivity|].
  apply (rsnap_fold_keeps rc names (n, ROk)).
Qed.

Lemma parse_snapshot_line dbn : simple_tok dbn ->
  exists rc names, parse_request (trim_char nl (snapshot_line dbn)) = POk (RqReplicateSnapshot rc names).
Proof.
  intros Hd. unfold snapshot_line.
  change ("replicate-snapshot " +++ dbn) with (String "r" "eplicate-snapshot " +++ dbn).
  rewrite trim_nl_line; try reflexivity; try (now apply tok_ne); try (now apply tok_last_nl).
  change (String "r" "eplicate-snapshot " +++ dbn) with ("replicate-snapshot" +++ " " +++ dbn).
  rewrite parse_request_2; try reflexivity; try discriminate; try (now apply tok_no_sp).
  2:{ apply no_semi_end_sep. now apply tok_semi. }
  eexists; eexists. reflexivity.
Qed.

Lemma joiner_snapshot_step j cs dbn t K :
  joined j cs dbn t K -> simple_tok dbn ->
  joined (fst (step j cs (snapshot_line dbn))) cs dbn t K.
Proof.
  intros (Ha & dj & Hdb & Hrest) Hd.
  destruct (parse_snapshot_line dbn Hd) as (rc & names & Hp).
  unfold step. rewrite (process_plain _ _ _ _ _ Hp) by (intros; discriminate).
  destruct (handle_rsnap_keeps j cs rc names) as (H1 & H2).
  destruct (handle j cs (RqReplicateSnapshot rc names)) as [n1 r]. cbn [fst] in H1, H2.
  destruct (rr_keeps n1 (RqReplicateSnapshot rc names) (s_db (get_sess j cs)) r) as (Hd' & Hs').
  split.
  - now rewrite Hs', H2.
  - exists dj. split; auto. unfold get_db in *. now rewrite Hd', H1.
Qed.

Lemma joiner_snapshot_db j cs dbn : simple_tok dbn ->
  get_db (fst (step j cs (snapshot_line dbn))) dbn = get_db j dbn.
Proof.
  intros Hd. destruct (parse_snapshot_line dbn Hd) as (rc & names & Hp).
  unfold step. rewrite (process_plain _ _ _ _ _ Hp) by (intros; discriminate).
  destruct (handle_rsnap_keeps j cs rc names) as (H1 & _).
  destruct (handle j cs (RqReplicateSnapshot rc names)) as [n1 r]. cbn [fst] in H1.
  destruct (rr_keeps n1 (RqReplicateSnapshot rc names) (s_db (get_sess j cs)) r) as (Hd' & _).
  unfold get_db. now rewrite Hd', H1.
Qed.

(* ---- the whole block ---------------------------------------------------------- *)
Definition kept_keys (m : list (str * value)) : list str :=
  map fst (filter (fun e => negb (skipped_key (fst e))) m).

Lemma in_kept_keys k m : In k (kept_keys m) <->
  exists v, In (k, v) m /\ k <> "$$token" /\ k <> "$connections".
Proof.
  unfold kept_keys. rewrite in_map_iff. split.
  - intros ([k' v] & <- & Hin). apply filter_In in Hin as (Hin & Hf). cbn [fst] in *.
    exists v. split; auto. apply negb_true_iff in Hf.
    split; intros ->; discriminate Hf.
  - intros (v & Hin & H1 & H2). exists (k, v). split; auto. apply filter_In. split; auto.
    cbn [fst]. now rewrite skipped_key_false.
Qed.

Lemma run_app j cs l1 l2 : run j cs (l1 ++ l2) = run (run j cs l1) cs l2.
Proof. unfold run. apply fold_left_app. Qed.

Lemma run_one j cs l : run j cs [l] = fst (step j cs l).
Proof. reflexivity. Qed.

Lemma joiner_entries cs dbn t m : no_sp dbn ->
  (forall k, In k (kept_keys m) -> no_sp k /\ no_nl k) ->
  forall j K, joined j cs dbn t K ->
  joined (run j cs (entry_lines dbn m)) cs dbn t (kept_keys m ++ K).
Proof.
  intros Hd. induction m as [|[k v] r IH]; intros Hm j K Hj; [exact Hj|].
  unfold entry_lines, kept_keys in *. cbn [flat_map filter fst snd] in *.
  destruct (skipped_key k) eqn:E; cbn [negb app map] in *.
  - apply IH; auto.
  - destruct (Hm k (or_introl eq_refl)) as (Hk1 & Hk2).
    assert (Hkt : k <> "$$token") by (intros ->; discriminate E).
    cbn [run fold_left].
    pose proof (joiner_replicate_step j cs dbn t K k (v_val v) Hj Hd Hk1 Hk2 Hkt) as Hstep.
    eapply joined_weaken; [apply (IH (fun k0 H0 => Hm k0 (or_intror H0)) _ _ Hstep)|].
    intros x [<-|Hx]; apply in_or_app.
    + right. now left.
    + apply in_app_or in Hx as [Hx|Hx]; [now left|right; now right].
Qed.

Theorem full_sync_joiner_has_keys p j cs dbn d :
  get_db p dbn = Some d -> dbn <> "$admin" -> simple_tok dbn ->
  simple_tok (fst (get_key_value_new d "$$token")) ->
  (forall k v, In (k, v) (d_map d) -> k <> "$$token" -> k <> "$connections" -> no_sp k /\ no_nl k) ->
  s_auth (get_sess j cs) = true ->
  is_primary j || sess_is_primary (get_sess j cs) = true ->
  has_db j dbn = false ->
  let j' := run j cs (db_block p dbn d) in
  has_db j' dbn = true /\
  s_auth (get_sess j' cs) = true /\
  exists dj, get_db j' dbn = Some dj /\
    fst (get_key_value_new dj "$$token") = fst (get_key_value_new d "$$token") /\
    forall k v, In (k, v) (d_map d) -> k <> "$$token" -> k <> "$connections" ->
                get_value dj k <> None.
Proof.
  intros Hp Hadm Hd Ht Hkeys Ha Hpr Hno. cbv zeta.
  set (t := fst (get_key_value_new d "$$token")) in *.
  assert (Hline : create_db_line p dbn = "create-db " +++ dbn +++ " " +++ t).
  { unfold create_db_line. now rewrite Hp. }
  assert (Hn : get_db j dbn = None).
  { unfold has_db in Hno. destruct (get_db j dbn); [discriminate|reflexivity]. }
  unfold db_block. rewrite Hline, !run_app, !run_one.
  pose proof (joiner_create_step j cs dbn t Ha Hpr Hn Hadm Hd Ht) as H1.
  assert (Hm : forall k, In k (kept_keys (d_map d)) -> no_sp k /\ no_nl k).
  { intros k Hk. apply in_kept_keys in Hk as (v & Hin & Hk1 & Hk2). eauto. }
  pose proof (joiner_entries cs dbn t (d_map d) (tok_no_sp _ Hd) Hm _ _ H1) as H2.
  pose proof (joiner_snapshot_step _ cs dbn t _ H2 Hd) as (Ha3 & dj & Hdb3 & _ & (tv & Htv & Htv') & HK).
  split; [unfold has_db; now rewrite Hdb3|]. split; [exact Ha3|].
  exists dj. split; [exact Hdb3|]. split.
  - unfold get_key_value_new at 1. rewrite Htv. exact Htv'.
  - intros k v Hin Hk1 Hk2. apply HK. apply in_or_app. left. apply in_kept_keys. eauto.
Qed.

(* ---- what the joiner stores: the VALUE is not preserved (recorded known finding,
   see SyncProofs.sync_line_roundtrip_refuted) -------------------------------- *)
(* a one-word value is taken for the version field: the key arrives with the empty value *)
Lemma sync_line_one_word_value_lost dbn k val :
  simple_tok dbn -> simple_tok k -> simple_tok val ->
  parse_request (trim_char nl (sync_line dbn k val)) =
  POk (RqReplicateSet dbn k "" (i32_or (-1) (Some val))).
Proof.
  intros Hd Hk Hv. unfold sync_line.
  change ("replicate " +++ dbn +++ " " +++ k +++ " " +++ val)
    with (String "r" "eplicate " +++ (dbn +++ " " +++ k +++ " " +++ val)).
  rewrite trim_nl_line; try reflexivity.
  2:{ destruct dbn; [destruct (tok_ne _ Hd); reflexivity|discriminate]. }
  2:{ repeat (rewrite <- app_assoc_s). rewrite app_assoc_s.
      change (" " +++ val) with (String " " "" +++ val). rewrite <- app_assoc_s.
      rewrite last_char_app_ne by (now apply tok_ne). now apply tok_last_nl. }
  change (String "r" "eplicate " +++ (dbn +++ " " +++ k +++ " " +++ val))
    with ("replicate" +++ " " +++ dbn +++ " " +++ (k +++ " " +++ val)).
  rewrite parse_request_3; try reflexivity; try discriminate; try (now apply tok_no_sp).
  2:{ repeat (rewrite <- app_assoc_s); rewrite app_assoc_s. apply no_semi_end_sep. now apply tok_semi. }
  rewrite parse_cmd_replicate. cbn [hd_opt tl or_empty]. cbv zeta.
  rewrite splitn_sp_cons by (now apply tok_no_sp).
  rewrite splitn_sp_end by (now apply tok_no_sp).
  cbn [hd_opt tl or_empty]. rewrite strip_nl_noop by (now apply tok_no_nl). reflexivity.
Qed.

(* consequently: when every value sent is a single word, the joiner holds every key of the
   block with the EMPTY value (whatever the primary's value was) *)
Definition blank_db (dj : db) : Prop :=
  forall k v, get_value dj k = Some v -> k <> "$$token" -> v_val v = "".

Lemma blank_fresh id clk t : blank_db (fresh_db id clk t).
Proof.
  intros k v Hg Hk. unfold fresh_db in Hg. rewrite gv_put_other in Hg by exact Hk. discriminate Hg.
Qed.

Lemma blank_set_value dj k ver opp : blank_db dj -> k <> "$$token" ->
  blank_db (fst (fst (set_value dj (mkCh k "" ver opp false)))).
Proof.
  intros Hb Hk k0 v0 Hg Hk0. destruct (string_dec k0 k) as [->|Hne].
  - unfold set_value in Hg. cbn [c_key c_val] in Hg.
    destruct (get_value dj k) as [old|] eqn:E; [destruct (_ && _)|]; cbn [fst] in Hg.
    + rewrite E in Hg. injection Hg as <-. now apply (Hb k).
    + rewrite gv_put_same in Hg. injection Hg as <-. reflexivity.
    + rewrite gv_put_same in Hg. injection Hg as <-. reflexivity.
  - rewrite set_value_other in Hg by exact Hne. now apply (Hb k0).
Qed.

Lemma joiner_entries_blank cs dbn t m : simple_tok dbn ->
  (forall k v, In (k, v) m -> skipped_key k = false -> simple_tok k /\ simple_tok (v_val v)) ->
  forall j K, joined j cs dbn t K -> (forall dj, get_db j dbn = Some dj -> blank_db dj) ->
  forall dj, get_db (run j cs (entry_lines dbn m)) dbn = Some dj -> blank_db dj.
Proof.
  intros Hd. induction m as [|[k v] r IH]; intros Hm j K Hj Hb; [exact Hb|].
  unfold entry_lines in *. cbn [flat_map fst snd] in *.
  destruct (skipped_key k) eqn:E; cbn [app] in *.
  - apply (IH (fun k0 v0 H0 => Hm k0 v0 (or_intror H0)) j K Hj Hb).
  - destruct (Hm k v (or_introl eq_refl) E) as (Hk & Hv).
    assert (Hkt : k <> "$$token") by (intros ->; discriminate E).
    pose proof (sync_line_one_word_value_lost dbn k (v_val v) Hd Hk Hv) as Hp.
    destruct (joiner_rset_step j cs dbn t K _ k "" _ Hj Hp Hkt) as (Hj' & Hg').
    cbn [run fold_left].
    apply (IH (fun k0 v0 H0 => Hm k0 v0 (or_intror H0)) _ _ Hj').
    intros dj' Hdj'. destruct Hj as (_ & dj0 & Hdb0 & _).
    rewrite (Hg' dj0 Hdb0) in Hdj'. injection Hdj' as <-.
    apply blank_set_value; auto.
Qed.

Theorem full_sync_joiner_one_word_values_lost p j cs dbn d :
  get_db p dbn = Some d -> dbn <> "$admin" -> simple_tok dbn ->
  simple_tok (fst (get_key_value_new d "$$token")) ->
  (forall k v, In (k, v) (d_map d) -> k <> "$$token" -> k <> "$connections" ->
               simple_tok k /\ simple_tok (v_val v)) ->
  s_auth (get_sess j cs) = true ->
  is_primary j || sess_is_primary (get_sess j cs) = true ->
  has_db j dbn = false ->
  exists dj, get_db (run j cs (db_block p dbn d)) dbn = Some dj /\
    forall k v, In (k, v) (d_map d) -> k <> "$$token" -> k <> "$connections" ->
                exists v', get_value dj k = Some v' /\ v_val v' = "".
Proof.
  intros Hp Hadm Hd Ht Hkv Ha Hpr Hno.
  assert (Hkeys : forall k v, In (k, v) (d_map d) -> k <> "$$token" -> k <> "$connections" -> no_sp k /\ no_nl k).
  { intros k v Hin H1 H2. destruct (Hkv k v Hin H1 H2) as (Hk & _). split; [now apply tok_no_sp|now apply tok_no_nl]. }
  destruct (full_sync_joiner_has_keys p j cs dbn d Hp Hadm Hd Ht Hkeys Ha Hpr Hno) as (_ & _ & dj & Hdj & _ & Hex).
  exists dj. split; [exact Hdj|].
  assert (Hblank : blank_db dj).
  { revert Hdj. set (t := fst (get_key_value_new d "$$token")) in *.
    assert (Hline : create_db_line p dbn = "create-db " +++ dbn +++ " " +++ t).
    { unfold create_db_line. now rewrite Hp. }
    assert (Hn : get_db j dbn = None).
    { unfold has_db in Hno. destruct (get_db j dbn); [discriminate|reflexivity]. }
    unfold db_block. rewrite Hline, !run_app, !run_one. rewrite joiner_snapshot_db by exact Hd.
    pose proof (joiner_create_step j cs dbn t Ha Hpr Hn Hadm Hd Ht) as H1.
    destruct (joiner_create_db j cs dbn t Ha Hpr Hn Hadm Hd Ht) as (_ & Hg1).
    apply (joiner_entries_blank cs dbn t (d_map d) Hd) with (K := []) (j := fst (step j cs ("create-db " +++ dbn +++ " " +++ t))).
    - intros k v Hin E. apply (Hkv k v Hin); intros ->; discriminate E.
    - exact H1.
    - intros dj0 H0. rewrite Hg1 in H0. injection H0 as <-. apply blank_fresh. }
  intros k v Hin H1 H2. destruct (get_value dj k) as [v'|] eqn:E.
  - exists v'. split; auto. now apply (Hblank k).
  - exfalso. now apply (Hex k v Hin H1 H2).
Qed.

(* the link must be the primary's (or the joiner itself a primary): otherwise `create-db`
   is refused and nothing of the block is applied *)
Example full_sync_joiner_needs_primary_link :
  let '(n0, c) := connect (init_node "u" "p" "127.0.0.1:3017" 2 Secondary 500) in
  let j := run n0 c ["auth u p"] in
  s_auth (get_sess j c) = true /\
  has_db (run j c (full_sync_lines example_primary)) "d1" = false.
Proof. vm_compute. split; reflexivity. Qed.

(* a joiner (secondary, replication session 0 authenticated and marked as the primary's link)
   reading the block of the example primary: every key arrives, the token is the primary's,
   and the values are mangled ("1" and "pw" are lost; of "rw a" only "a" is left) *)
Definition example_joiner : node :=
  let '(n0, c) := connect (init_node "u" "p" "127.0.0.1:3017" 2 Secondary 500) in
  run n0 c ["auth u p"; "set-primary 127.0.0.1:3016"].

Example full_sync_joiner_example :
  let j' := run example_joiner 0 (full_sync_lines example_primary) in
  match get_db j' "d1" with
  | Some dj => map (fun e => (fst e, v_val (snd e))) (d_map dj)
  | None => []
  end = [("$$token", "tok1"); ("a", ""); ("$$user_bob", ""); ("$$permission_$bob", "a")].
Proof. vm_compute. reflexivity. Qed.

(* ================================================================== *)
Check full_sync_covers. Print Assumptions full_sync_covers.
Check full_sync_covers_secure_keys. Print Assumptions full_sync_covers_secure_keys.
Check full_sync_covers_user. Check full_sync_covers_permission.
Check full_sync_db_block_pos. Print Assumptions full_sync_db_block_pos.
Check full_sync_db_block. Print Assumptions full_sync_db_block.
Check entry_lines_map.
Check full_sync_only. Print Assumptions full_sync_only.
Check full_sync_no_admin. Print Assumptions full_sync_no_admin.
Check full_sync_no_admin_line. Print Assumptions full_sync_no_admin_line.
Check full_sync_token_line. Print Assumptions full_sync_token_line.
Check full_sync_token_line_in.
Check parse_sync_line_key. Print Assumptions parse_sync_line_key.
Check joiner_replicate_step.
Check joiner_create_step.
Check joiner_snapshot_step.
Check full_sync_joiner_has_keys. Print Assumptions full_sync_joiner_has_keys.
Check sync_line_one_word_value_lost. Print Assumptions sync_line_one_word_value_lost.
Check full_sync_joiner_one_word_values_lost. Print Assumptions full_sync_joiner_one_word_values_lost.
Check full_sync_joiner_needs_primary_link.
Check full_sync_example. Print Assumptions full_sync_example.
Check full_sync_joiner_example. Print Assumptions full_sync_joiner_example.
